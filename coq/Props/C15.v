(* C15 - A misbehaving handshake peer gets an error, never completion, a crash or a hang.
   Property theorems only; each is closed by lemmas of HS/*.v and followed by Print Assumptions.
   Model: HS/HSModel.v (client and server state machines of gmtls, message by message, symbolic cryptography),
   HS/HSParsers.v (byte-level models of the parsers gmsm wrote itself).
   A "sequence" is any list over HSModel.input: well-formed handshake messages of every type with arbitrary
   fields, bodies the unmarshal functions reject, unknown types, over-long messages, ChangeCipherSpec (good / bad body),
   alerts of every level and description, application data, records the record layer rejects, end of stream. *)
From Coq Require Import List NArith Arith Bool Lia.
From GmsmVerif Require Import Lib.Outcome HS.HSTerms HS.HSModel HS.HSParsers HS.HSParserProofs HS.HSProofs
     HS.HSClientFlight HS.HSTlsClientFlight HS.HSServerFlight HS.HSRecords HS.HSTablesTie Gen.HSTables
     HS.HSMsgParsers HS.HSMsgParserProofs HS.HSFlightTie HS.HSMsgMarshal HS.HSMsgMarshalProofs
     Gen.HSSigTables HS.HSSigAlg HS.HSSigAlgProofs HS.HSKxParsers HS.HSKxParserProofs HS.HSCompression.
Import ListNotations.
Local Open Scope N_scope.

(* ---- 1. no panic, no hang ------------------------------------------------------------------------ *)
(* SCOPE OF "Panic".  These two theorems are about the panic sites THE MODEL HAS: the state machines can reach Panic only
   through (a) prfForVersion / masterFromPreMasterSecret for a version without a PRF (the nil-PRF crash repaired in
   32acbb1 sat here), (b) the key-agreement step of the client (rsaKeyAgreement's type assertion, repaired in 4334fea: an
   error now) and (c) whatever an outcome-valued sub-function returns.  The index / slice panics of the parsers are
   covered separately, on byte strings, by the totality theorems of sections 4, 4b and 4d.  Every other panic class of the
   Go code - nil dereferences and type assertions in parts the models abstract (x509 parsing and Verify, sm2 decryption
   and ASN.1, the record layer after ChangeCipherSpec, Config callbacks), slice arithmetic in marshal() - is NOT a panic
   site of the model: for those the evidence is the S / H / R / PM / PW / PE runs of this check under recover() (no PANIC
   observation in ~100 000 quick / ~430 000 thorough cases), not these theorems.
   Servers in every mode (the mode, the certificates, ClientAuth, suites, tickets, NextProtos are fields of cfg):
   for every delivered sequence of any length the outcome of the model is neither Panic nor Hang. *)
Theorem C15_server_no_panic_no_hang : forall cfg ins,
  server_run cfg ins <> RPanic /\ server_run cfg ins <> RHang.
Proof. intros cfg ins. apply server_run_safe. left. reflexivity. Qed.
Print Assumptions C15_server_no_panic_no_hang.

(* Clients, GMSSL and standard TLS (c_gm cfg), with or without verification, client certificate, session cache. *)
Theorem C15_client_no_panic_no_hang : forall cfg ins,
  client_run cfg ins <> RPanic /\ client_run cfg ins <> RHang.
Proof. intros cfg ins. exact (client_run_safe cfg ins (client_init cfg) (cinv_init cfg)). Qed.
Print Assumptions C15_client_no_panic_no_hang.

(* regression witness of a repaired defect (4334fea): an RSA key exchange against a certificate whose key is not RSA
   made rsaKeyAgreement.generateClientKeyExchange panic; it is an error now *)
Definition C15_rsa_kx_config : cconfig :=
  mkCC false 771 [47] false [] None false None 11 12 13 14.
Definition C15_rsa_kx_script : list input :=
  [IHs (MServerHello (mkSH 771 (TRand 21) TNil 47 true false false false false false));
   IHs (MCertificate [TCert 1 KIND_SM2 KU_SIGN 101]);
   IHs MServerHelloDone].
Example C15_rsa_kx_non_rsa_cert_is_an_error : client_run C15_rsa_kx_config C15_rsa_kx_script = RError.
Proof. vm_compute. reflexivity. Qed.

(* End of stream: once the peer's stream has ended no endpoint keeps waiting (these two say "not Waiting": the run is
   decided - Error, or a Complete / Error reached BEFORE the end of stream; no Panic / Hang by section 1); the exact
   statement follows: what was decided before the stream ended stays, and an endpoint that is still reading when the
   stream ends gets an ERROR - in particular end of stream before completion is an error, never completion. *)
Theorem C15_client_eof_is_error : forall cfg ins, In IEOF ins ->
  match client_run cfg ins with RWaiting _ => False | _ => True end.
Proof. intros cfg ins. apply run_eof_error. apply client_step_eof. Qed.
Print Assumptions C15_client_eof_is_error.

Theorem C15_server_eof_is_error : forall cfg ins, In IEOF ins ->
  match server_run cfg ins with RWaiting _ => False | _ => True end.
Proof. intros cfg ins. apply run_eof_error. apply server_step_eof. Qed.
Print Assumptions C15_server_eof_is_error.

Theorem C15_eof_before_completion_is_error : forall ccfg scfg pre post,
  client_run ccfg (pre ++ IEOF :: post) = match client_run ccfg pre with RWaiting _ => RError | r => r end /\
  server_run scfg (pre ++ IEOF :: post) = match server_run scfg pre with RWaiting _ => RError | r => r end.
Proof.
  intros. split; [apply (run_eof_exact (client_step ccfg) (client_step_eof ccfg))
                 |apply (run_eof_exact (server_step scfg) (server_step_eof scfg))].
Qed.
Print Assumptions C15_eof_before_completion_is_error.

(* ---- 2. completion only on an honest flight --------------------------------------------------------- *)
(* [strip] removes the warning alerts (readRecord drops up to five consecutive ones); what remains of a sequence
   that completes starts with exactly one honest flight:
   GMSSL client, full handshake:  ServerHello, Certificate (>= 2 SM2 certificates with the key usages, verified when
     verification is on), ServerKeyExchange whose signature verifies under certificate 0 over this session's randoms
     and certificate 1, [CertificateRequest], ServerHelloDone, [NewSessionTicket iff announced], ChangeCipherSpec,
     Finished = PRF(master, "server finished", Hash(transcript of this session));
   GMSSL client, resumption: ServerHello echoing the session id of a cached session, [NewSessionTicket],
     ChangeCipherSpec, Finished keyed with the cached master secret.
   OBSERVATION (ECDHE-SM2 suites 0xe011 / 0xe051, offered by the default configuration): the honest flight of the model -
   as the code, gm_key_agreement.go ecdheKeyAgreementGM.generateClientKeyExchange - goes on only for a ServerKeyExchange that
   names curve 29: the SM2 point check fails for every other curve id, and the X25519 branch uses a public value that is
   never set, so the pre-master secret is a public constant.  Only a holder of the server's SIGNING key can choose that
   parameter block (the ServerKeyExchange signature covers it together with this session's randoms), and the gmtls server
   never does (its ECDHE-SM2 server side returns an error); C08 section 12 states what follows for authentication and
   secrecy.  Recorded as an observation, not a violation of this property (the handshake errors or completes as specified). *)
Theorem C15_gm_client_complete_only_on_honest_flight : forall cfg ins st',
  c_gm cfg = true -> client_run cfg ins = RComplete st' ->
  (exists f rest, strip ins = gm_flight_inputs f ++ rest /\ gm_full_flight_ok cfg f st') \/
  (exists sh nst vd rest, strip ins = gm_resumed_inputs sh nst vd ++ rest /\ gm_resumed_ok cfg sh nst vd st').
Proof.
  intros cfg ins st' Hgm H.
  apply gm_client_complete_flight; [exact Hgm|apply nowarn_strip|].
  eapply client_run_strip; [exact H|reflexivity].
Qed.
Print Assumptions C15_gm_client_complete_only_on_honest_flight.

(* Standard-TLS client: ServerHello whose version passes pickTLSVersion (TLS 1.0 .. the configured maximum) and whose
   suite was offered, Certificate (all parse; leaf verified when verification is on; RSA or EC key),
   [CertificateStatus iff announced], [ServerKeyExchange that verifies under the leaf over this session's randoms and
   parameters - rejected outright for RSA suites], [CertificateRequest], ServerHelloDone after which the key exchange
   must be possible (RSA leaf for RSA suites, a ServerKeyExchange for ECDHE suites), [NewSessionTicket iff announced],
   ChangeCipherSpec, Finished = PRF(master, "server finished", Hash(transcript)); or a resumption of a cached session.
   (HSTlsClientFlight.tls_client_flight_ok) *)
Theorem C15_tls_client_complete_only_on_honest_flight : forall cfg ins st',
  c_gm cfg = false -> client_run cfg ins = RComplete st' -> tls_client_flight_ok cfg (strip ins) st'.
Proof.
  intros cfg ins st' Hgm H. apply tls_client_complete_flight; [exact Hgm|apply nowarn_strip|].
  eapply client_run_strip; [exact H|reflexivity].
Qed.
Print Assumptions C15_tls_client_complete_only_on_honest_flight.

(* Servers (all modes): ClientHello accepted by the version gate and the negotiation, then
   [Certificate iff one was requested, acceptable under the ClientAuth policy], ClientKeyExchange that the key
   agreement accepts, [CertificateVerify iff a certificate was presented, valid over this transcript],
   ChangeCipherSpec, [NextProtocol iff negotiated], Finished = PRF(master, "client finished", Hash(transcript));
   or, after a valid ticket, ChangeCipherSpec, [NextProtocol], Finished keyed with the ticket's master secret. *)
Theorem C15_server_complete_only_on_honest_flight : forall cfg ins st',
  server_run cfg ins = RComplete st' -> server_flight_ok cfg (strip ins) st'.
Proof.
  intros cfg ins st' H. apply server_complete_flight; [apply nowarn_strip|].
  eapply server_run_strip; [exact H|reflexivity].
Qed.
Print Assumptions C15_server_complete_only_on_honest_flight.

(* ---- 2b. records ------------------------------------------------------------------------------------------ *)
(* The same at the level of RECORDS (HSModel.rrun): a record carries any number of handshake messages, a
   ChangeCipherSpec is a record of its own, readFinished reads the next record whatever is still buffered, and handshake
   data must not span the ChangeCipherSpec.  For every sequence of records: never a panic or a hang; and if the
   record-level run completes then the message-level run on the flattened sequence completes in the same state, so
   the honest-flight theorems above apply to it; in particular a Finished sent in the clear in front of the
   ChangeCipherSpec - alone or coalesced with the previous message - never leads to completion. *)
Theorem C15_records_no_panic_no_hang : forall ccfg scfg recs,
  client_rrun ccfg recs <> RPanic /\ client_rrun ccfg recs <> RHang /\
  server_rrun scfg recs <> RPanic /\ server_rrun scfg recs <> RHang.
Proof.
  intros ccfg scfg recs. destruct (client_rrun_safe ccfg recs). destruct (server_rrun_safe scfg recs). auto.
Qed.
Print Assumptions C15_records_no_panic_no_hang.

Theorem C15_records_complete_only_as_messages : forall ccfg scfg recs,
  (forall st', client_rrun ccfg recs = RComplete st' -> client_run ccfg (flatten recs) = RComplete st') /\
  (forall st', server_rrun scfg recs = RComplete st' -> server_run scfg (flatten recs) = RComplete st').
Proof.
  intros ccfg scfg recs. split; intros st' H.
  - rewrite <- H. apply client_rrun_final. rewrite H. exact I.
  - rewrite <- H. apply server_rrun_final. rewrite H. exact I.
Qed.
Print Assumptions C15_records_complete_only_as_messages.

(* handshake messages still buffered when the endpoint turns to wait for the ChangeCipherSpec: whatever records follow,
   the handshake does not complete (nor panic, nor hang) *)
Theorem C15_buffered_handshake_data_at_ccs_never_completes : forall ccfg scfg cst sst recs,
  (client_wants_ccs cst = true -> ~ final (rrun (client_step ccfg) client_wants_ccs cst true recs)) /\
  (server_wants_ccs sst = true -> ~ final (rrun (server_step scfg) server_wants_ccs sst true recs)).
Proof.
  intros ccfg scfg cst sst recs. split; intros Hw.
  - apply rrun_stuck; [apply client_other|apply client_step_eof|exact Hw].
  - apply rrun_stuck; [apply server_other|apply server_step_eof|exact Hw].
Qed.
Print Assumptions C15_buffered_handshake_data_at_ccs_never_completes.

(* ---- 3. version gate ------------------------------------------------------------------------------------ *)
(* Every 16-bit ClientHello version, per mode: rejected, or GMSSL, or SSL 3.0 / TLS 1.0-1.2 (the code as it is:
   a GMSSL-only server also lets 0x0300.. through mutualVersion and then negotiates GM suites under that number;
   the auto-switch server rejects everything above 0x0303 while the TLS-only server clamps it to 0x0303). *)
Theorem C15_version_gate : forall mode v, v < 65536 ->
  version_gate mode v = version_gate_spec mode v.
Proof. exact version_gate_table. Qed.
Print Assumptions C15_version_gate.

(* ... and no other internal version value ever reaches the PRF selector (for every N, not only 16-bit ones). *)
Theorem C15_version_gate_internal_versions : forall mode v,
  match version_gate mode v with
  | VReject => True
  | VGM v' | VTLS v' => version_known v' = true /\ exists p, prfForVersion v' = Ok p
  end.
Proof.
  intros mode v. pose proof (version_gate_known mode v) as H.
  destruct (version_gate mode v); [exact I| |]; (split; [exact H|apply prfForVersion_known; exact H]).
Qed.
Print Assumptions C15_version_gate_internal_versions.

(* ---- 4. gmsm's own parsers are total on all byte strings ------------------------------------------------ *)
Theorem C15_ckx_length_logic : forall ct,
  no_crash (ecc_ckx_prefix ct) /\
  (forall rest, ecc_ckx_prefix ct = Ok rest <->
     (2 <= length ct)%nat /\ u16 (nth 0 ct 0) (nth 1 ct 0) = N.of_nat (length ct - 2) /\ rest = skipn 2 ct).
Proof.
  intros ct. split; [apply ecc_ckx_prefix_total|].
  intros rest. rewrite ecc_ckx_prefix_spec.
  destruct (Nat.leb_spec 2 (length ct)) as [H2|H2]; cbn [andb].
  - destruct (N.eqb_spec (u16 (nth 0 ct 0) (nth 1 ct 0)) (N.of_nat (length ct - 2))) as [E|E].
    + split; [intros [= <-]; auto|intros [_ [_ ->]]; reflexivity].
    + split; [discriminate|intros [_ [E' _]]; contradiction].
  - split; [discriminate|intros [H _]; lia].
Qed.
Print Assumptions C15_ckx_length_logic.

Theorem C15_skx_length_logic : forall key,
  no_crash (ecc_skx_prefix key) /\
  (forall sig, ecc_skx_prefix key = Ok sig <->
     (2 < length key)%nat /\ u16 (nth 0 key 0) (nth 1 key 0) + 2 = N.of_nat (length key) /\ sig = skipn 2 key).
Proof.
  intros key. split; [apply ecc_skx_prefix_total|].
  intros sig. rewrite ecc_skx_prefix_spec.
  destruct (Nat.ltb_spec 2 (length key)) as [H2|H2]; cbn [andb].
  - destruct (N.eqb_spec (u16 (nth 0 key 0) (nth 1 key 0) + 2) (N.of_nat (length key))) as [E|E].
    + split; [intros [= <-]; auto|intros [_ [_ ->]]; reflexivity].
    + split; [discriminate|intros [_ [E' _]]; contradiction].
  - split; [discriminate|intros [H _]; lia].
Qed.
Print Assumptions C15_skx_length_logic.

Theorem C15_certreq_gm_unmarshal_total : forall data,
  no_crash (certificateRequestMsgGM_unmarshal (length data) data).
Proof. intros data. apply certreq_unmarshal_total. lia. Qed.
Print Assumptions C15_certreq_gm_unmarshal_total.

Theorem C15_read_handshake_total : forall hand recs,
  no_crash (readHandshake_raw (S (length recs)) hand recs) /\
  no_crash (read_handshakes (S (total_len hand recs)) hand recs []).
Proof.
  intros hand recs. split; [apply readHandshake_raw_total; lia|apply read_handshakes_total; lia].
Qed.
Print Assumptions C15_read_handshake_total.

(* ---- 4b. the parsers of handshake_messages.go (derived from crypto/tls), byte level ------------------------------ *)
(* HS/HSMsgParsers.v models every unmarshal function an endpoint runs on a peer's handshake message, expression by
   expression, with every index and slice expression a checked access (Panic where Go panics) and every loop on fuel.
   [data] is the whole message with its 4-byte header, any byte string whatever.  no_crash = neither Panic nor Hang. *)
Theorem C15_clientHello_unmarshal_total : forall data, no_crash (clientHello_unmarshal data).
Proof. exact clientHello_unmarshal_total. Qed.
Print Assumptions C15_clientHello_unmarshal_total.

Theorem C15_serverHello_unmarshal_total : forall data, no_crash (serverHello_unmarshal data).
Proof. exact serverHello_unmarshal_total. Qed.
Print Assumptions C15_serverHello_unmarshal_total.

(* certificateMsg.unmarshal does its length arithmetic in uint32 (modelled with wrap-around); the statement is for
   byte strings whose elements are bytes and whose length fits 32 bits (readHandshake bounds it by maxHandshake + 4) *)
Theorem C15_certificate_unmarshal_total : forall data,
  bytes_ok data -> N.of_nat (length data) < 4294967296 -> no_crash (certificate_unmarshal data).
Proof. exact certificate_unmarshal_total. Qed.
Print Assumptions C15_certificate_unmarshal_total.

Theorem C15_message_parsers_total : forall flag data,
  no_crash (serverKeyExchange_unmarshal data) /\ no_crash (clientKeyExchange_unmarshal data) /\
  no_crash (certificateRequest_unmarshal flag data) /\ no_crash (certificateVerify_unmarshal flag data) /\
  no_crash (finished_unmarshal data) /\ no_crash (newSessionTicket_unmarshal data) /\
  no_crash (certificateStatus_unmarshal data) /\ no_crash (nextProto_unmarshal data).
Proof.
  intros flag data.
  repeat split; [apply serverKeyExchange_unmarshal_total|apply clientKeyExchange_unmarshal_total
    |apply certificateRequest_unmarshal_total|apply certificateVerify_unmarshal_total|apply finished_unmarshal_total
    |apply newSessionTicket_unmarshal_total|apply certificateStatus_unmarshal_total|apply nextProto_unmarshal_total].
Qed.
Print Assumptions C15_message_parsers_total.

(* The exact acceptance condition of the ClientHello extension block ("for len(data) != 0 { ... }" with its switch):
   the loop accepts a block iff it is a sequence of (u16 type, u16 length, body) entries with nothing left over whose
   bodies satisfy ext_body_ok (HSMsgParsers.v: per extension type the declarative shape of the body; unknown types and
   status_request / session_ticket take any body); every other block is rejected by "return false". *)
Theorem C15_clientHello_extension_block : forall data m,
  (accepts (ch_ext_loop (S (length data)) data m) <-> ext_block_ok data) /\
  (~ ext_block_ok data -> exists e, ch_ext_loop (S (length data)) data m = Err e).
Proof.
  intros data m. split; [apply ch_ext_loop_accepts; lia|apply ch_ext_loop_rejects].
Qed.
Print Assumptions C15_clientHello_extension_block.

(* ... and of the message as a whole: clientHelloMsg.unmarshal accepts exactly the byte strings of the shape
   HSMsgParsers.ch_shape - 4 header bytes (the 3-byte length is not looked at), version, 32 random bytes, a session id of
   at most 32 bytes, an even-length cipher-suite list, compression methods, then nothing or a u16 length and an
   extension block of exactly that length satisfying ext_block_ok; nothing may follow. *)
Theorem C15_clientHello_accepted_iff : forall data, accepts (clientHello_unmarshal data) <-> ch_shape data.
Proof. exact clientHello_accepts_iff. Qed.
Print Assumptions C15_clientHello_accepted_iff.

(* serverHelloMsg.unmarshal likewise: accepted exactly for the shape HSMsgParsers.sh_shape (header, version, random,
   session id <= 32, suite, compression method, then nothing or a length-exact extension block satisfying
   sh_ext_block_ok: next_protocol_negotiation a list of non-empty strings, status_request / session_ticket empty,
   renegotiation_info a length-prefixed string, ALPN exactly one non-empty protocol, SCT a non-empty list of non-empty
   entries, unknown types any body). *)
Theorem C15_serverHello_accepted_iff : forall data, accepts (serverHello_unmarshal data) <-> sh_shape data.
Proof. exact serverHello_accepts_iff. Qed.
Print Assumptions C15_serverHello_accepted_iff.

(* ---- 4c. the marshal side: what one endpoint writes is what the other reads ------------------------------------ *)
(* HS/HSMsgMarshal.v models marshal() of the same messages (the pieces marshal() writes, front to back, every uint8(x)
   a reduction mod 256).  For every message VALUE inside the field widths (ch_wf / sh_wf / wf_any: lengths that fit
   their length fields, 32-byte random, session id <= 32, a ticket / renegotiation string only with its flag, the
   renegotiation flag set when the SCSV is among the suites, ALPN strings of 1..255 bytes, a non-empty last
   certificate, ...) the package's own unmarshal gives the value back. *)
Theorem C15_clientHello_roundtrip : forall m, ch_wf m -> clientHello_unmarshal (clientHello_marshal m) = Ok m.
Proof. exact clientHello_roundtrip. Qed.
Print Assumptions C15_clientHello_roundtrip.

Theorem C15_serverHello_roundtrip : forall m, sh_wf m -> serverHello_unmarshal (serverHello_marshal m) = Ok m.
Proof. exact serverHello_roundtrip. Qed.
Print Assumptions C15_serverHello_roundtrip.

(* every handshake message readHandshake dispatches on (HelloRequest excepted), in the context that decides the
   layout (GMSupport: certificateRequestMsgGM; TLS 1.2: hasSignatureAndHash): parse after marshal is the identity on
   well-formed values, so marshal is injective on them *)
Theorem C15_any_message_roundtrip : forall ctx w, wf_any ctx w -> parse_any ctx (marshal_any ctx w) = Ok w.
Proof. exact parse_marshal_any. Qed.
Print Assumptions C15_any_message_roundtrip.

Theorem C15_marshal_injective : forall ctx w1 w2, wf_any ctx w1 -> wf_any ctx w2 ->
  marshal_any ctx w1 = marshal_any ctx w2 -> w1 = w2.
Proof. exact marshal_any_injective. Qed.
Print Assumptions C15_marshal_injective.

(* the bodies eccKeyAgreementGM puts into ServerKeyExchange / ClientKeyExchange are read back by its process* side *)
Theorem C15_gm_key_exchange_bodies_roundtrip : forall sig ct,
  (sig <> [] -> (nlen sig < 65534)%N -> ecc_skx_prefix (ecc_skx_body sig) = Ok sig) /\
  ((nlen ct < 65536)%N -> ecc_ckx_prefix (ecc_ckx_body ct) = Ok ct).
Proof. intros. split; [apply ecc_skx_body_roundtrip|apply ecc_ckx_body_roundtrip]. Qed.
Print Assumptions C15_gm_key_exchange_bodies_roundtrip.

(* The byte transcript (what both Finished hashes are computed over) of any list of well-formed messages is read
   back, header by header, into exactly those message values; so two lists with the same bytes are the same list. *)
Theorem C15_transcript_read_back : forall ctx ws,
  Forall (wf_any ctx) ws ->
  read_msgs (S (length (transcript_bytes ctx ws))) ctx (transcript_bytes ctx ws) = Ok ws /\
  (forall ws', Forall (wf_any ctx) ws' -> transcript_bytes ctx ws = transcript_bytes ctx ws' -> ws = ws').
Proof.
  intros ctx ws H. split; [apply read_msgs_transcript; [exact H|lia]|].
  intros ws' H' E. apply (transcript_bytes_injective ctx ws ws' H H' E).
Qed.
Print Assumptions C15_transcript_read_back.

(* ---- 4d. the ServerKeyExchange of the standard-TLS ECDHE suites ------------------------------------------------- *)
(* ecdheKeyAgreement.processServerKeyExchange (key_agreement.go) byte by byte up to the signature check
   (HS/HSKxParsers.v): curve type and id, the public value, from TLS 1.2 on the SignatureAndHashAlgorithm, the scheme
   negotiation of auth.go (HS/HSSigAlg.v), the signature length.  For every version, key type, ServerKeyExchange body of any
   length and content, and whatever elliptic.Unmarshal says about the point: never Panic or Hang - the client's own
   signature_algorithms list being the package's (any list of schemes lookupTLSHash knows). *)
Theorem C15_ecdhe_server_key_exchange_total : forall vers isRSA pk helloAlgs point_ok key,
  (forall a, In a helloAlgs -> In a gen_supportedSignatureAlgorithms) ->
  no_crash (ecdhe_processServerKeyExchange vers isRSA pk helloAlgs point_ok key).
Proof.
  intros vers isRSA pk helloAlgs point_ok key H. apply ecdhe_processServerKeyExchange_total.
  intros a Ha. apply package_list_known. apply H. exact Ha.
Qed.
Print Assumptions C15_ecdhe_server_key_exchange_total.

(* ---- 5. the tables the models use are the ones in the source now -------------------------------------------- *)
(* Gen/HSTables.v is regenerated from gmtls/cipher_suites.go, gm_support.go, common.go on every run: both suite tables
   row by row (id, key agreement, flag bits), the default suite lists, version numbers, minVersion / maxVersion,
   maxHandshake, maxPlaintext, maxWarnAlertCount, TLS_FALLBACK_SCSV. *)
Theorem C15_tables_match_source :
  gmCipherSuites = map suite_of_row gen_gmCipherSuites /\
  cipherSuites = map suite_of_row gen_cipherSuites /\
  forallb row_flags_consistent (gen_gmCipherSuites ++ gen_cipherSuites) = true /\
  default_gm_suite_ids = gen_gm_default_suites /\
  default_tls_suite_ids = default_tls_from_table /\
  (VersionGMSSL, VersionSSL30, VersionTLS10, VersionTLS11, VersionTLS12, minVersion, maxVersion, TLS_FALLBACK_SCSV)
    = (gen_VersionGMSSL, gen_VersionSSL30, gen_VersionTLS10, gen_VersionTLS11, gen_VersionTLS12, gen_minVersion,
       gen_maxVersion, gen_TLS_FALLBACK_SCSV) /\
  (maxHandshake, maxPlaintext, N.of_nat maxWarnAlertCount) = (gen_maxHandshake, gen_maxPlaintext, gen_maxWarnAlertCount).
Proof. exact tables_match_source. Qed.
Print Assumptions C15_tables_match_source.

(* ---- 5b. message numbers, alert numbers, ClientAuth constants, the order of reads ------------------------------ *)
(* Also regenerated on every run, from the AST of conn.go, alert.go, common.go and the five handshake files of the
   default build: the type* constants and the case list of readHandshake's dispatch switch; the alert constants and
   the level switch of readRecord; the ClientAuthType constants and every test of Config.ClientAuth in
   checkForResumption / doFullHandshake / processCertsFromClient; and, for every handshake entry point, the sequence
   of reads in source order - each "msg.(*xxxMsg)" type assertion (through the calls of hs methods, resumption and
   full branch separately) and each readRecord(recordTypeChangeCipherSpec), with "optional" and the alert of the
   mismatch branch (rows [type; optional; alert], 256 = ChangeCipherSpec). *)
Theorem C15_message_numbers_match_source :
  (forall m, exists rest, enc_hmsg m = TPair (TLabel (hmsg_type m)) rest) /\
  (forall ch sh certs b p s ct a sg vd t,
    [hmsg_type MHelloRequest; hmsg_type (MClientHello ch); hmsg_type (MServerHello sh); hmsg_type (MNewSessionTicket t);
     hmsg_type (MCertificate certs); hmsg_type MCertificateRequest; hmsg_type MCertificateStatus;
     hmsg_type (MServerKeyExchange b p s); hmsg_type MServerHelloDone; hmsg_type (MClientKeyExchange b ct);
     hmsg_type (MCertificateVerify a sg); hmsg_type MNextProtocol; hmsg_type (MFinished vd)]
    = [gen_typeHelloRequest; gen_typeClientHello; gen_typeServerHello; gen_typeNewSessionTicket; gen_typeCertificate;
       gen_typeCertificateRequest; gen_typeCertificateStatus; gen_typeServerKeyExchange; gen_typeServerHelloDone;
       gen_typeClientKeyExchange; gen_typeCertificateVerify; gen_typeNextProtocol; gen_typeFinished]) /\
  (forall t, In t gen_readHandshake_dispatch <-> exists m, hmsg_type m = t).
Proof.
  split; [exact enc_hmsg_type|]. split; [exact hmsg_types_match_source|exact dispatch_is_hmsg_types].
Qed.
Print Assumptions C15_message_numbers_match_source.

(* The flights of the models are the source's: whatever sequence makes an endpoint model complete, what it consumed
   (warning alerts dropped) is, message type by message type, the list of reads the translator found in the source -
   every mandatory read and a choice of the optional ones, in that order - for the full handshake or the resumption.
   The three server entry points read the same sequence (server_reads_same_in_every_mode). *)
Theorem C15_flights_read_in_source_order :
  (forall cfg ins st', server_run cfg ins = RComplete st' ->
     exists used rest choice, strip ins = used ++ rest /\
       (reads used = pick gen_reads_tls_server_full choice \/ reads used = pick gen_reads_tls_server_resume choice)) /\
  (forall cfg ins st', c_gm cfg = true -> client_run cfg ins = RComplete st' ->
     exists used rest choice, strip ins = used ++ rest /\
       (reads used = pick gen_reads_gm_client_full choice \/ reads used = pick gen_reads_gm_client_resume choice)) /\
  (forall cfg ins st', c_gm cfg = false -> client_run cfg ins = RComplete st' ->
     exists used rest choice, strip ins = used ++ rest /\
       (reads used = pick gen_reads_tls_client_full choice \/ reads used = pick gen_reads_tls_client_resume choice)) /\
  (gen_reads_gm_server_full = gen_reads_tls_server_full /\ gen_reads_gm_server_resume = gen_reads_tls_server_resume /\
   gen_reads_auto_hello ++ gen_reads_auto_tls_server_full = gen_reads_tls_server_full /\
   gen_reads_auto_hello ++ gen_reads_auto_gm_server_full = gen_reads_tls_server_full /\
   gen_reads_auto_hello ++ gen_reads_auto_tls_server_resume = gen_reads_tls_server_resume /\
   gen_reads_auto_hello ++ gen_reads_auto_gm_server_resume = gen_reads_tls_server_resume).
Proof.
  split; [|split; [|split]].
  - intros cfg ins st' H. apply (server_reads_in_source_order cfg (strip ins) st'); [apply nowarn_strip|].
    eapply server_run_strip; [exact H|reflexivity].
  - intros cfg ins st' Hgm H. apply (gm_client_reads_in_source_order cfg (strip ins) st' Hgm); [apply nowarn_strip|].
    eapply client_run_strip; [exact H|reflexivity].
  - intros cfg ins st' Hgm H. apply (tls_client_reads_in_source_order cfg (strip ins) st' Hgm); [apply nowarn_strip|].
    eapply client_run_strip; [exact H|reflexivity].
  - exact server_reads_same_in_every_mode.
Qed.
Print Assumptions C15_flights_read_in_source_order.

(* The alert numbers the models interpret (close_notify, the warning / error levels, the warning budget) and the
   alert of every refusal at the dispatch level; the ClientAuth constants, and each numeric test of s_auth in
   HSModel.v against the source's test of Config.ClientAuth it stands for (HSFlightTie.auth_test reads a row). *)
Theorem C15_alert_and_clientauth_numbers_match_source : forall want_ccs warn level desc a,
  (gen_readRecord_alert_levels = [gen_alertLevelWarning; gen_alertLevelError] /\
   read_record want_ccs warn (IAlert level desc) =
     if desc =? gen_alertCloseNotify then RLError
     else if level =? gen_alertLevelWarning then
       (if Nat.ltb (N.to_nat gen_maxWarnAlertCount) (S warn) then RLError else RLAgain (S warn))
     else RLError) /\
  gen_readHandshake_alerts = [gen_alertInternalError; gen_alertUnexpectedMessage; gen_alertUnexpectedMessage] /\
  ((gen_NoClientCert, gen_RequestClientCert, gen_RequireAnyClientCert, gen_VerifyClientCertIfGiven, gen_RequireAndVerifyClientCert)
     = (0, 1, 2, 3, 4) /\
   gen_auth_tests_gm_doFullHandshake = gen_auth_tests_tls_doFullHandshake /\
   gen_auth_tests_gm_processCertsFromClient = gen_auth_tests_tls_processCertsFromClient /\
   gen_auth_tests_gm_checkForResumption = gen_auth_tests_tls_checkForResumption /\
   (1 <=? a) = auth_test (auth_row gen_auth_tests_tls_doFullHandshake 1) a /\
   (1 <=? a) = auth_test (auth_row gen_auth_tests_tls_doFullHandshake 2) a /\
   ((a =? 2) || (a =? 4)) = auth_test (auth_row gen_auth_tests_tls_doFullHandshake 3) a
                            || auth_test (auth_row gen_auth_tests_tls_doFullHandshake 4) a /\
   (3 <=? a) = auth_test (auth_row gen_auth_tests_tls_processCertsFromClient 0) a /\
   ((a =? 2) || (a =? 4)) = auth_test (auth_row gen_auth_tests_tls_checkForResumption 0) a
                            || auth_test (auth_row gen_auth_tests_tls_checkForResumption 1) a /\
   (a =? 0) = auth_test (auth_row gen_auth_tests_tls_checkForResumption 2) a).
Proof.
  intros. split; [apply read_record_alert_numbers|]. split; [apply mismatch_alerts|].
  pose proof (clientauth_tests_match_source a) as H. tauto.
Qed.
Print Assumptions C15_alert_and_clientauth_numbers_match_source.

(* The compression methods of the ClientHello: the message-level models carry the bit "compressionNone is offered"; it
   stands for the search (HSCompression.comp_offers_null) that all four server hello functions do over the list - the
   translator records that shape, gen_null_compression_searched, and refuses any other use of the list - so a ClientHello
   is acceptable iff its list CONTAINS 0, whatever else it offers; and no server model answers one that does not. *)
Theorem C15_null_compression_is_searched : forall cfg st ch,
  (gen_null_compression_searched = [1; 1; 1; 1] /\ (forall l, comp_offers_null l = true <-> In compressionNone l)) /\
  (ss_phase st = SP_Hello -> ch_comp_null ch = false -> snd (server_handshake_step cfg st (MClientHello ch)) = SError).
Proof.
  intros cfg st ch. split; [split; [reflexivity|exact comp_offers_null_iff]|apply server_requires_null_compression].
Qed.
Print Assumptions C15_null_compression_is_searched.

(* ---- non-vacuity --------------------------------------------------------------------------------------- *)
Definition ex_sig := TCert 1 KIND_SM2 KU_SIGN 101.
Definition ex_enc := TCert 2 KIND_SM2 KU_ENC 102.
Definition ex_auth := TCert 3 KIND_SM2 KU_SIGN 103.
Definition ex_rsa := TCert 4 KIND_RSA 3 104.
Definition ex_client : cconfig :=
  mkCC true 771 [57363; 57427; 57361; 57425] true [ex_sig; ex_enc] (Some (ex_auth, 103)) false None 11 12 13 14.
Definition ex_server (mode : smode) (auth : N) : sconfig :=
  mkSC mode None false auth [ex_auth] [(ex_sig, 101); (ex_enc, 102)] (Some (ex_rsa, 104)) true 200 false 21 22 23.
Definition ex_tls_client (maxv : N) : cconfig :=
  mkCC false maxv [49172; 47] true [ex_rsa] None false None 11 12 13 14.

Definition both_done (r : (cstate * pstat) * (sstate * pstat)) : bool :=
  match snd (fst r), snd (snd r) with PDone, PDone => true | _, _ => false end.

(* the honest flights reach Complete on both sides: GMSSL with every ClientAuth policy, TLS 1.0 / 1.1 / 1.2 *)
Example C15_honest_runs_complete :
  forallb (fun a => both_done (pair_run ex_client (ex_server GMOnly a))) [0; 1; 2; 3; 4] = true /\
  forallb (fun a => both_done (pair_run ex_client (ex_server AutoSwitch a))) [0; 1; 2; 3; 4] = true /\
  forallb (fun v => both_done (pair_run (ex_tls_client v) (ex_server TLSOnly 0))) [769; 770; 771] = true /\
  both_done (pair_run (ex_tls_client 771) (ex_server AutoSwitch 0)) = true.
Proof. vm_compute. repeat split; reflexivity. Qed.

(* ... and the client of such a run is an instance of theorem 2's hypothesis *)
Example C15_honest_client_run_is_complete :
  exists st', client_run ex_client (map to_input (ss_out (fst (snd (pair_loop 1 ex_client (ex_server GMOnly 0)
                 (client_init ex_client) PRunning server_init PRunning))))) = RWaiting st'.
Proof. eexists. vm_compute. reflexivity. Qed.

(* a mismatched pair fails on both sides; end of stream gives an error *)
Example C15_mismatch_fails :
  both_done (pair_run (ex_tls_client 771) (ex_server GMOnly 0)) = false /\
  server_run (ex_server GMOnly 0) [IEOF] = RError /\
  client_run ex_client [IAlert 1 100; IAlert 1 100; IEOF] = RError.
Proof. vm_compute. repeat split; reflexivity. Qed.

Example C15_parsers_examples :
  ecc_ckx_prefix [0; 2; 7; 8] = Ok [7; 8] /\ ecc_ckx_prefix [1; 2; 7; 8] = Err 1 /\ ecc_ckx_prefix [0] = Err 1 /\
  ecc_skx_prefix [0; 1; 9] = Ok [9] /\ ecc_skx_prefix [0; 0] = Err 1 /\
  certificateRequestMsgGM_unmarshal 20 [13; 0; 0; 9; 2; 1; 64; 0; 4; 0; 2; 5; 6] = Ok ([1; 64], [[5; 6]]) /\
  read_handshakes 20 [] [[20; 0; 0]; [1; 7; 14]; [0; 0; 0]] [] = Ok ([(20, 1%nat); (14, 0%nat)], 1%nat).
Proof. vm_compute. repeat split; reflexivity. Qed.

(* record packing around the ChangeCipherSpec, with the GENUINE messages of an honest client (valid key exchange and
   verify_data): the regular packing and a legal coalescing complete; the genuine Finished in the clear in front of the
   ChangeCipherSpec - coalesced with the ClientKeyExchange, or as its own record - is an error *)
Definition ex_second_flight : sstate * list hitem :=
  let c0 := client_init ex_client in
  let '(s1, _) := feed (server_step (ex_server GMOnly 0)) server_init PRunning (map to_input (cs_out c0)) in
  let '(c1, _) := feed (client_step ex_client) (cs_clear_out c0) PRunning (map to_input (ss_out s1)) in
  (ss_clear_out s1, flat_map (fun o => match o with OHs m => [HMsg m] | OCCS => [] end) (cs_out c1)).

Definition ex_pack (packing : list hitem -> list record) : pstat :=
  let '(s1, msgs) := ex_second_flight in
  snd (rfeed (server_step (ex_server GMOnly 0)) server_wants_ccs s1 false PRunning (packing msgs)).

Example C15_record_packing :
  (* ClientKeyExchange | CCS | Finished *)
  ex_pack (fun m => match m with [ckx; fin] => [RHs [ckx]; RCCS true; RHs [fin]] | _ => [] end) = PDone /\
  (* ClientKeyExchange + Finished | CCS *)
  ex_pack (fun m => match m with [ckx; fin] => [RHs [ckx; fin]; RCCS true] | _ => [] end) = PFailed /\
  (* ClientKeyExchange | Finished | CCS *)
  ex_pack (fun m => match m with [ckx; fin] => [RHs [ckx]; RHs [fin]; RCCS true] | _ => [] end) = PFailed /\
  (* ClientKeyExchange | CCS | CCS | Finished *)
  ex_pack (fun m => match m with [ckx; fin] => [RHs [ckx]; RCCS true; RCCS true; RHs [fin]] | _ => [] end) = PFailed.
Proof. vm_compute. repeat split; reflexivity. Qed.

(* the byte-level ClientHello parser: a minimal ClientHello; the same with an empty status_request as the last
   extension (accepted, ocspStapling false - data[0] is not read); with an empty signature_algorithms as the last
   extension (rejected, not a panic); a supported_curves body with an odd length; a truncated block *)
Definition ex_ch (ext : list N) : list N :=
  [1; 0; 0; 0] ++ [1; 1] ++ repeat 7 32 ++ [0] ++ [0; 2; 224; 19] ++ [1; 0] ++ ext.
Example C15_clientHello_bytes :
  (exists m, clientHello_unmarshal (ex_ch []) = Ok m /\ f_vers m = 257 /\ f_suites m = [57363] /\ f_comp m = [0]) /\
  (exists m, clientHello_unmarshal (ex_ch [0; 4; 0; 5; 0; 0]) = Ok m /\ f_ocsp m = false) /\
  (exists m, clientHello_unmarshal (ex_ch [0; 5; 0; 5; 0; 1; 1]) = Ok m /\ f_ocsp m = true) /\
  clientHello_unmarshal (ex_ch [0; 4; 0; 13; 0; 0]) = Err 1 /\
  (exists m, clientHello_unmarshal (ex_ch [0; 8; 0; 13; 0; 4; 0; 2; 2; 1]) = Ok m /\ f_sigalgs m = [513]) /\
  clientHello_unmarshal (ex_ch [0; 7; 0; 10; 0; 3; 0; 1; 23]) = Err 1 /\
  clientHello_unmarshal (ex_ch [0; 4; 0; 5; 0; 1]) = Err 1 /\
  ext_block_ok [0; 5; 0; 0] /\ ~ ext_block_ok [0; 13; 0; 0].
Proof.
  repeat split; try (vm_compute; reflexivity); try (eexists; vm_compute; repeat split; reflexivity).
  - apply (EB_cons 0 5 0 0 [] []); [reflexivity|exact I|constructor].
  - intros H. apply (ch_ext_loop_accepts 5 [0; 13; 0; 0] (mkCHF 0 [] [] [] [] false [] false [] [] false [] [] false [] [] false)) in H; [|cbn; lia].
    destruct H as [r H]. vm_compute in H. discriminate.
Qed.

Definition ex_sh (ext : list N) : list N := [2; 0; 0; 0] ++ [1; 1] ++ repeat 7 32 ++ [0] ++ [224; 19; 0] ++ ext.
Example C15_serverHello_shape :
  sh_shape (ex_sh []) /\ sh_shape (ex_sh [0; 5; 255; 1; 0; 1; 0]) /\ ~ sh_shape (ex_sh [0; 4; 0; 16; 0; 0]) /\
  ~ sh_shape (ex_sh [0; 5; 0; 35; 0; 1; 9]).
Proof.
  split; [|split; [|split]].
  - apply serverHello_accepts_iff. eexists. vm_compute. reflexivity.
  - apply serverHello_accepts_iff. eexists. vm_compute. reflexivity.
  - intros H. apply serverHello_accepts_iff in H. destruct H as [r H]. vm_compute in H. discriminate.
  - intros H. apply serverHello_accepts_iff in H. destruct H as [r H]. vm_compute in H. discriminate.
Qed.

Example C15_clientHello_shape :
  ch_shape (ex_ch [0; 4; 0; 5; 0; 0]) /\ ~ ch_shape (ex_ch [0; 4; 0; 13; 0; 0]) /\ ~ ch_shape (ex_ch [0]).
Proof.
  split; [|split].
  - apply clientHello_accepts_iff. eexists. vm_compute. reflexivity.
  - intros H. apply clientHello_accepts_iff in H. destruct H as [r H]. vm_compute in H. discriminate.
  - intros H. apply clientHello_accepts_iff in H. destruct H as [r H]. vm_compute in H. discriminate.
Qed.

(* the reads of the source, all optional ones taken / none taken; the reads of a concrete input sequence *)
Example C15_reads_examples :
  pick gen_reads_tls_server_full [true; true; true] = [1; 11; 16; 15; 256; 67; 20] /\
  pick gen_reads_tls_server_full [false; false; false] = [1; 16; 256; 20] /\
  pick gen_reads_gm_client_full [false; false] = [2; 11; 12; 14; 256; 20] /\
  pick gen_reads_tls_client_resume [true] = [2; 4; 256; 20] /\
  reads [IHs MServerHelloDone; IAlert 1 100; ICCS true; IHs (MFinished TNil)] = [14; 256; 20].
Proof. repeat split; reflexivity. Qed.

(* marshal side: a ClientHello value with SNI, a ticket and ALPN, and a two-message transcript read back *)
Definition ex_chv : ch_fields :=
  mkCHF 257 (repeat 7 32) [1; 2] [57363; 255] [0] false [108; 111] true [23] [0] true [9; 9; 9] [513] true [] [[104; 50]; [120]] true.
Example C15_marshal_examples :
  clientHello_unmarshal (clientHello_marshal ex_chv) = Ok ex_chv /\
  length (clientHello_marshal ex_chv) = 120%nat /\
  read_msgs 200 (mkWCtx true false)
    (transcript_bytes (mkWCtx true false) [WClientHello ex_chv; WCertificateRequestGM [1; 64] [[5; 6]]; WFinished [1; 2; 3]])
    = Ok [WClientHello ex_chv; WCertificateRequestGM [1; 64] [[5; 6]]; WFinished [1; 2; 3]] /\
  (* outside the domain: a ticket without the flag is not written, an empty last certificate is not read back *)
  f_ticket (match clientHello_unmarshal (clientHello_marshal
     (mkCHF 257 (repeat 7 32) [] [47] [0] false [] false [] [] false [9] [] false [] [] false)) with Ok m => m | _ => ex_chv end) = [] /\
  certificate_unmarshal (certificate_marshal [[1]; []]) = Err 1.
Proof. vm_compute. repeat split; reflexivity. Qed.

(* the ECDHE ServerKeyExchange parser: X25519 value, scheme 0x0401, a 1-byte signature; the same cut right after the
   scheme (2 bytes after the parameters) and one byte later: an error, not a panic *)
Definition ex_skx (tail : list N) : list N := [3; 0; 29; 32] ++ repeat 9 32 ++ tail.
Example C15_ecdhe_skx_examples :
  (exists r, ecdhe_processServerKeyExchange 771 true PK_RSA gen_supportedSignatureAlgorithms (fun _ => true) (ex_skx [4; 1; 0; 1; 7]) = Ok r
             /\ ek_sig r = [7] /\ ek_hash r = 5) /\
  ecdhe_processServerKeyExchange 771 true PK_RSA gen_supportedSignatureAlgorithms (fun _ => true) (ex_skx [4; 1]) = Err 1 /\
  ecdhe_processServerKeyExchange 771 true PK_RSA gen_supportedSignatureAlgorithms (fun _ => true) (ex_skx [4; 1; 0]) = Err 1 /\
  ecdhe_processServerKeyExchange 770 true PK_RSA gen_supportedSignatureAlgorithms (fun _ => true) (ex_skx [0; 1; 7]) <> Panic.
Proof. split; [eexists; vm_compute; repeat split; reflexivity|]. vm_compute. repeat split; try reflexivity; discriminate. Qed.

(* complete runs through client_run / server_run: the inputs each side of the honest pair receives, in order *)
Definition ex_views (c : cconfig) (s : sconfig) : list input * list input :=
  let c0 := client_init c in
  let to_s1 := map to_input (cs_out c0) in
  let '(s1, _) := feed (server_step s) server_init PRunning to_s1 in
  let to_c1 := map to_input (ss_out s1) in
  let '(c1, _) := feed (client_step c) (cs_clear_out c0) PRunning to_c1 in
  let to_s2 := map to_input (cs_out c1) in
  let '(s2, _) := feed (server_step s) (ss_clear_out s1) PRunning to_s2 in
  let to_c2 := map to_input (ss_out s2) in
  (to_c1 ++ to_c2, to_s1 ++ to_s2).
Definition is_complete {A} (r : result A) : bool := match r with RComplete _ => true | _ => false end.
Example C15_runs_end_in_complete :
  is_complete (client_run ex_client (fst (ex_views ex_client (ex_server GMOnly 4)))) = true /\
  is_complete (server_run (ex_server GMOnly 4) (snd (ex_views ex_client (ex_server GMOnly 4)))) = true /\
  is_complete (client_run (ex_tls_client 771) (fst (ex_views (ex_tls_client 771) (ex_server TLSOnly 0)))) = true /\
  is_complete (server_run (ex_server AutoSwitch 0) (snd (ex_views ex_client (ex_server AutoSwitch 0)))) = true /\
  (* the same client sequence cut by the end of the stream before the Finished: an error *)
  client_run ex_client (removelast (fst (ex_views ex_client (ex_server GMOnly 4))) ++ [IEOF]) = RError.
Proof. vm_compute. repeat split; reflexivity. Qed.
