(* Premises of the SM2 theorems, discharged (not tied to one property: referenced by C01, C02, C03, C09, C13, C14).

   coq/Prime proves, closed under the global context:
     sm2_p_is_prime, sm2_n_is_prime   Pocklington certificates checked by vm_compute (Prime/SM2Primes.v)
     sm2_G_on_curve, [n]G = infinity  by computation (Prime/SM2FactsProof.v)
     [k]G <> infinity for 0 < k < n   from the two above, given associativity
     SM2Facts_from_assoc : sm2_add_assoc_statement -> SM2Facts
   so every theorem of the development that has the bundled premise SM2Facts, or the separate premises P_prime /
   N_prime / G_order_divides_n / G_multiples_finite of SM2/SM2GroupMin.v, holds with the associativity of the affine
   chord-and-tangent addition on the points of the curve as its ONLY mathematical premise, and the theorems that
   only needed "prime sm2_p" hold unconditionally.  The corollaries below are the original theorems applied to these
   facts; each statement is computed from the original one (so it cannot drift from it) and printed by Check. *)
From Coq Require Import List NArith ZArith Znumtheory.
From GmsmVerif Require Import EC.ECAffine EC.SM2Curve SM2.SM2GroupMin Prime.SM2Primes Prime.SM2FactsProof.
From GmsmVerif Require Props.C01 Props.C02 Props.C03 Props.C09 Props.C13 Props.C14.
From GmsmVerif Require Import Ser.SerModel.

(* statement of "thm with SM2Facts replaced by associativity" *)
Ltac with_assoc thm :=
  let T := type of (fun H : sm2_add_assoc_statement => thm (SM2Facts_from_assoc H)) in exact T.
(* the same for theorems with the five separate premises of SM2GroupMin *)
Ltac with_assoc5 thm :=
  let T := type of (fun H : sm2_add_assoc_statement =>
                      thm P_prime_holds H G_order_divides_n_holds (G_multiples_finite_from_assoc H) N_prime_holds) in exact T.
Ltac unconditional thm := let T := type of (thm sm2_p_is_prime) in exact T.

Theorem sm2_facts_assoc_only : sm2_add_assoc_statement -> SM2Facts.
Proof. exact SM2Facts_from_assoc. Qed.
Print Assumptions sm2_facts_assoc_only.

(* ---- C01: a signature made with d verifies under [d]G; verification on curve points is the standard's B1-B7 ---- *)
Theorem C01_verify_complete_assoc_only : ltac:(with_assoc C01.C01_verify_complete).
Proof. exact (fun H => C01.C01_verify_complete (SM2Facts_from_assoc H)). Qed.
Print Assumptions C01_verify_complete_assoc_only.
Check C01_verify_complete_assoc_only.

Theorem C01_Sm2Sign_then_Sm2Verify_assoc_only : ltac:(with_assoc C01.C01_Sm2Sign_then_Sm2Verify).
Proof. exact (fun H => C01.C01_Sm2Sign_then_Sm2Verify (SM2Facts_from_assoc H)). Qed.
Print Assumptions C01_Sm2Sign_then_Sm2Verify_assoc_only.

Theorem C01_verify_is_standard_on_curve_assoc_only : ltac:(with_assoc C01.C01_verify_is_standard_on_curve).
Proof. exact (fun H => C01.C01_verify_is_standard_on_curve (SM2Facts_from_assoc H)). Qed.
Print Assumptions C01_verify_is_standard_on_curve_assoc_only.

Theorem C01_accepting_keys_listed_assoc_only : ltac:(with_assoc5 C01.C01_accepting_keys_listed).
Proof.
  exact (fun H => C01.C01_accepting_keys_listed P_prime_holds H G_order_divides_n_holds (G_multiples_finite_from_assoc H) N_prime_holds).
Qed.
Print Assumptions C01_accepting_keys_listed_assoc_only.

(* ---- C02: Decrypt inverts Encrypt (raw and ASN.1); another key is refused or collides ---------------------------- *)
Theorem C02_decrypt_encrypt_assoc_only : ltac:(with_assoc C02.C02_decrypt_encrypt).
Proof. exact (fun H => C02.C02_decrypt_encrypt (SM2Facts_from_assoc H)). Qed.
Print Assumptions C02_decrypt_encrypt_assoc_only.
Check C02_decrypt_encrypt_assoc_only.

Theorem C02_decryptAsn1_encryptAsn1_assoc_only : ltac:(with_assoc C02.C02_decryptAsn1_encryptAsn1).
Proof. exact (fun H => C02.C02_decryptAsn1_encryptAsn1 (SM2Facts_from_assoc H)). Qed.
Print Assumptions C02_decryptAsn1_encryptAsn1_assoc_only.

Theorem C02_other_key_rejected_or_collision_assoc_only : ltac:(with_assoc5 C02.C02_other_key_rejected_or_collision).
Proof.
  exact (fun H => C02.C02_other_key_rejected_or_collision P_prime_holds H G_order_divides_n_holds (G_multiples_finite_from_assoc H) N_prime_holds).
Qed.
Print Assumptions C02_other_key_rejected_or_collision_assoc_only.

Theorem C02_shared_points_differ_assoc_only : ltac:(with_assoc5 C02.C02_shared_points_differ).
Proof.
  exact (fun H => C02.C02_shared_points_differ P_prime_holds H G_order_divides_n_holds (G_multiples_finite_from_assoc H) N_prime_holds).
Qed.
Print Assumptions C02_shared_points_differ_assoc_only.

(* ---- C03: the curve object computes the group law --------------------------------------------------------------- *)
Theorem C03_ScalarMult_is_smul_assoc_only : ltac:(with_assoc C03.C03_ScalarMult_is_smul).
Proof. exact (fun H => C03.C03_ScalarMult_is_smul (SM2Facts_from_assoc H)). Qed.
Print Assumptions C03_ScalarMult_is_smul_assoc_only.
Check C03_ScalarMult_is_smul_assoc_only.

Theorem C03_ScalarBaseMult_is_smul_assoc_only : ltac:(with_assoc C03.C03_ScalarBaseMult_is_smul).
Proof. exact (fun H => C03.C03_ScalarBaseMult_is_smul (SM2Facts_from_assoc H)). Qed.
Print Assumptions C03_ScalarBaseMult_is_smul_assoc_only.

Theorem C03_small_multiples_of_kG_assoc_only : ltac:(with_assoc C03.C03_small_multiples_of_kG).
Proof. exact (fun H => C03.C03_small_multiples_of_kG (SM2Facts_from_assoc H)). Qed.
Print Assumptions C03_small_multiples_of_kG_assoc_only.

Theorem C03_precomputed_table_correct_assoc_only : ltac:(with_assoc C03.C03_precomputed_table_correct).
Proof. exact (fun H => C03.C03_precomputed_table_correct (SM2Facts_from_assoc H)). Qed.
Print Assumptions C03_precomputed_table_correct_assoc_only.

Theorem C03_GenerateKey_model_assoc_only : ltac:(with_assoc C03.C03_GenerateKey_model).
Proof. exact (fun H => C03.C03_GenerateKey_model (SM2Facts_from_assoc H)). Qed.
Print Assumptions C03_GenerateKey_model_assoc_only.

(* the theorems that only needed "prime sm2_p" are now unconditional *)
Theorem C03_Add_is_group_add_unconditional : ltac:(unconditional C03.C03_Add_is_group_add).
Proof. exact (C03.C03_Add_is_group_add sm2_p_is_prime). Qed.
Print Assumptions C03_Add_is_group_add_unconditional.
Check C03_Add_is_group_add_unconditional.

Theorem C03_Double_is_group_double_unconditional : ltac:(unconditional C03.C03_Double_is_group_double).
Proof. exact (C03.C03_Double_is_group_double sm2_p_is_prime). Qed.
Print Assumptions C03_Double_is_group_double_unconditional.

Theorem C03_PointAdd_total_unconditional : ltac:(unconditional C03.C03_PointAdd_total).
Proof. exact (C03.C03_PointAdd_total sm2_p_is_prime). Qed.
Print Assumptions C03_PointAdd_total_unconditional.

Theorem C03_PointDouble_total_unconditional : ltac:(unconditional C03.C03_PointDouble_total).
Proof. exact (C03.C03_PointDouble_total sm2_p_is_prime). Qed.
Print Assumptions C03_PointDouble_total_unconditional.

Theorem C03_PointSub_total_unconditional : ltac:(unconditional C03.C03_PointSub_total).
Proof. exact (C03.C03_PointSub_total sm2_p_is_prime). Qed.
Print Assumptions C03_PointSub_total_unconditional.

Theorem C03_PointAddMixed_total_unconditional : ltac:(unconditional C03.C03_PointAddMixed_total).
Proof. exact (C03.C03_PointAddMixed_total sm2_p_is_prime). Qed.
Print Assumptions C03_PointAddMixed_total_unconditional.

Theorem C03_ToAffine_unconditional : ltac:(unconditional C03.C03_ToAffine).
Proof. exact (C03.C03_ToAffine sm2_p_is_prime). Qed.
Print Assumptions C03_ToAffine_unconditional.

(* ---- C09: a certificate signed with an SM2 key verifies ------------------------------------------------------------ *)
Theorem C09_created_verifies_sm2_assoc_only : ltac:(with_assoc C09.created_verifies_sm2).
Proof. exact (fun H => C09.created_verifies_sm2 (SM2Facts_from_assoc H)). Qed.
Print Assumptions C09_created_verifies_sm2_assoc_only.

(* ---- C13: both sides of the key exchange agree; the model is the standard's ---------------------------------------- *)
Theorem C13_kx_agree_assoc_only : ltac:(with_assoc C13.C13_kx_agree_facts).
Proof. exact (fun H => C13.C13_kx_agree_facts (SM2Facts_from_assoc H)). Qed.
Print Assumptions C13_kx_agree_assoc_only.
Check C13_kx_agree_assoc_only.

Theorem C13_kx_is_standard_unconditional : ltac:(let T := type of (C13.C13_kx_is_standard P_prime_holds) in exact T).
Proof. exact (C13.C13_kx_is_standard P_prime_holds). Qed.
Print Assumptions C13_kx_is_standard_unconditional.

(* ---- C14: Decompress (Compress P) = P for every point of the SM2 curve, no premise left --------------------------- *)
Theorem C14_compress_decompress_unconditional :
  forall x y : N, on_curve sm2P sm2A sm2B x y = true -> Decompress_sm2 (Compress x y) = Some (x, y).
Proof.
  apply C14.compress_decompress_sm2.
  change (Z.of_N sm2P) with sm2_p. exact sm2_p_is_prime.
Qed.
Print Assumptions C14_compress_decompress_unconditional.
