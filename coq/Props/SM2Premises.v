(* Premises of the SM2 theorems, discharged (not tied to one property: referenced by C01, C02, C03, C09, C13, C14).

   Proved, closed under the global context:
     sm2_p_is_prime, sm2_n_is_prime   Pocklington certificates checked by vm_compute (Prime/SM2Primes.v)
     sm2_G_on_curve, [n]G = infinity  by computation (Prime/SM2FactsProof.v)
     associativity of the affine chord-and-tangent addition on the points of the curve (SM2/ECAssoc.v, given p prime)
     [k]G <> infinity for 0 < k < n   from the above
     SM2Facts_proved : SM2Facts
   so every theorem of the development that has the bundled premise SM2Facts, the separate premises P_prime / N_prime /
   Add_assoc / G_order_divides_n / G_multiples_finite of SM2/SM2GroupMin.v, or "prime sm2_p", holds UNCONDITIONALLY.
   The corollaries below are the original theorems applied to these facts; each statement is computed from the original
   one (so it cannot drift from it) and the main ones are printed by Check.
   Print Assumptions is run once, on the tuple of ALL corollaries at the end of the file (the assumptions of a tuple are the
   union of those of its components; 25 separate traversals of the whole development cost a minute, one costs seconds). *)
From Coq Require Import List NArith ZArith Znumtheory.
From GmsmVerif Require Import EC.ECAffine EC.SM2Curve SM2.SM2GroupMin Prime.SM2Primes Prime.SM2FactsProof.
From GmsmVerif Require Props.C01 Props.C02 Props.C03 Props.C09 Props.C13.
(* C14: through the lemma behind Props/C14.v compress_decompress (not Props.C14 itself, which every C14 run rebuilds) *)
From GmsmVerif Require Import Ser.SerModel Ser.SerProofs.

Ltac with_facts thm := let T := type of (thm SM2Facts_proved) in exact T.
Ltac with_facts5 thm :=
  let T := type of (thm P_prime_holds Add_assoc_holds G_order_divides_n_holds G_multiples_finite_holds N_prime_holds) in exact T.
Ltac unconditional thm := let T := type of (thm sm2_p_is_prime) in exact T.

Theorem SM2Facts_hold : SM2Facts.
Proof. exact SM2Facts_proved. Qed.

(* ---- C01: a signature made with d verifies under [d]G; verification on curve points is the standard's B1-B7 ---- *)
Theorem C01_verify_complete_unconditional : ltac:(with_facts C01.C01_verify_complete).
Proof. exact (C01.C01_verify_complete SM2Facts_proved). Qed.
Check C01_verify_complete_unconditional.

Theorem C01_Sm2Sign_then_Sm2Verify_unconditional : ltac:(with_facts C01.C01_Sm2Sign_then_Sm2Verify).
Proof. exact (C01.C01_Sm2Sign_then_Sm2Verify SM2Facts_proved). Qed.

Theorem C01_verify_is_standard_on_curve_unconditional : ltac:(with_facts C01.C01_verify_is_standard_on_curve).
Proof. exact (C01.C01_verify_is_standard_on_curve SM2Facts_proved). Qed.

Theorem C01_accepting_keys_listed_unconditional : ltac:(with_facts5 C01.C01_accepting_keys_listed).
Proof.
  exact (C01.C01_accepting_keys_listed P_prime_holds Add_assoc_holds G_order_divides_n_holds G_multiples_finite_holds N_prime_holds).
Qed.

(* ---- C02: Decrypt inverts Encrypt (raw and ASN.1); another key is refused or collides ---------------------------- *)
Theorem C02_decrypt_encrypt_unconditional : ltac:(with_facts C02.C02_decrypt_encrypt).
Proof. exact (C02.C02_decrypt_encrypt SM2Facts_proved). Qed.
Check C02_decrypt_encrypt_unconditional.

Theorem C02_decryptAsn1_encryptAsn1_unconditional : ltac:(with_facts C02.C02_decryptAsn1_encryptAsn1).
Proof. exact (C02.C02_decryptAsn1_encryptAsn1 SM2Facts_proved). Qed.

Theorem C02_other_key_rejected_or_collision_unconditional : ltac:(with_facts5 C02.C02_other_key_rejected_or_collision).
Proof.
  exact (C02.C02_other_key_rejected_or_collision P_prime_holds Add_assoc_holds G_order_divides_n_holds G_multiples_finite_holds N_prime_holds).
Qed.

Theorem C02_shared_points_differ_unconditional : ltac:(with_facts5 C02.C02_shared_points_differ).
Proof.
  exact (C02.C02_shared_points_differ P_prime_holds Add_assoc_holds G_order_divides_n_holds G_multiples_finite_holds N_prime_holds).
Qed.

(* ---- C03: the curve object computes the group law --------------------------------------------------------------- *)
Theorem C03_ScalarMult_is_smul_unconditional : ltac:(with_facts C03.C03_ScalarMult_is_smul).
Proof. exact (C03.C03_ScalarMult_is_smul SM2Facts_proved). Qed.
Check C03_ScalarMult_is_smul_unconditional.

Theorem C03_ScalarBaseMult_is_smul_unconditional : ltac:(with_facts C03.C03_ScalarBaseMult_is_smul).
Proof. exact (C03.C03_ScalarBaseMult_is_smul SM2Facts_proved). Qed.

Theorem C03_small_multiples_of_kG_unconditional : ltac:(with_facts C03.C03_small_multiples_of_kG).
Proof. exact (C03.C03_small_multiples_of_kG SM2Facts_proved). Qed.

Theorem C03_precomputed_table_correct_unconditional : ltac:(with_facts C03.C03_precomputed_table_correct).
Proof. exact (C03.C03_precomputed_table_correct SM2Facts_proved). Qed.

Theorem C03_GenerateKey_model_unconditional : ltac:(with_facts C03.C03_GenerateKey_model).
Proof. exact (C03.C03_GenerateKey_model SM2Facts_proved). Qed.

(* the theorems that only needed "prime sm2_p" are now unconditional *)
Theorem C03_Add_is_group_add_unconditional : ltac:(unconditional C03.C03_Add_is_group_add).
Proof. exact (C03.C03_Add_is_group_add sm2_p_is_prime). Qed.
Check C03_Add_is_group_add_unconditional.

Theorem C03_Double_is_group_double_unconditional : ltac:(unconditional C03.C03_Double_is_group_double).
Proof. exact (C03.C03_Double_is_group_double sm2_p_is_prime). Qed.

Theorem C03_PointAdd_total_unconditional : ltac:(unconditional C03.C03_PointAdd_total).
Proof. exact (C03.C03_PointAdd_total sm2_p_is_prime). Qed.

Theorem C03_PointDouble_total_unconditional : ltac:(unconditional C03.C03_PointDouble_total).
Proof. exact (C03.C03_PointDouble_total sm2_p_is_prime). Qed.

Theorem C03_PointSub_total_unconditional : ltac:(unconditional C03.C03_PointSub_total).
Proof. exact (C03.C03_PointSub_total sm2_p_is_prime). Qed.

Theorem C03_PointAddMixed_total_unconditional : ltac:(unconditional C03.C03_PointAddMixed_total).
Proof. exact (C03.C03_PointAddMixed_total sm2_p_is_prime). Qed.

Theorem C03_ToAffine_unconditional : ltac:(unconditional C03.C03_ToAffine).
Proof. exact (C03.C03_ToAffine sm2_p_is_prime). Qed.

(* ---- C09: a certificate signed with an SM2 key verifies ------------------------------------------------------------ *)
Theorem C09_created_verifies_sm2_unconditional : ltac:(with_facts C09.created_verifies_sm2).
Proof. exact (C09.created_verifies_sm2 SM2Facts_proved). Qed.

(* ---- C13: both sides of the key exchange agree; the model is the standard's ---------------------------------------- *)
Theorem C13_kx_agree_unconditional : ltac:(with_facts C13.C13_kx_agree_facts).
Proof. exact (C13.C13_kx_agree_facts SM2Facts_proved). Qed.
Check C13_kx_agree_unconditional.

Theorem C13_kx_is_standard_unconditional : ltac:(let T := type of (C13.C13_kx_is_standard P_prime_holds) in exact T).
Proof. exact (C13.C13_kx_is_standard P_prime_holds). Qed.

(* ---- C14: Decompress (Compress P) = P for every point of the SM2 curve, no premise left --------------------------- *)
Theorem C14_compress_decompress_sm2_unconditional :
  forall x y : N, on_curve sm2P sm2A sm2B x y = true -> Decompress_sm2 (Compress x y) = Some (x, y).
Proof.
  apply (compress_decompress_curve sm2P sm2A sm2B).
  - change (Z.of_N sm2P) with sm2_p. exact sm2_p_is_prime.
  - reflexivity.
  - vm_compute. discriminate.
Qed.

(* ---- all of the above depend on no axiom: one traversal for the tuple of every corollary -------------------------- *)
Definition SM2Premises_all :=
  (SM2Facts_hold,
   C01_verify_complete_unconditional,
   C01_Sm2Sign_then_Sm2Verify_unconditional,
   C01_verify_is_standard_on_curve_unconditional,
   C01_accepting_keys_listed_unconditional,
   C02_decrypt_encrypt_unconditional,
   C02_decryptAsn1_encryptAsn1_unconditional,
   C02_other_key_rejected_or_collision_unconditional,
   C02_shared_points_differ_unconditional,
   C03_ScalarMult_is_smul_unconditional,
   C03_ScalarBaseMult_is_smul_unconditional,
   C03_small_multiples_of_kG_unconditional,
   C03_precomputed_table_correct_unconditional,
   C03_GenerateKey_model_unconditional,
   C03_Add_is_group_add_unconditional,
   C03_Double_is_group_double_unconditional,
   C03_PointAdd_total_unconditional,
   C03_PointDouble_total_unconditional,
   C03_PointSub_total_unconditional,
   C03_PointAddMixed_total_unconditional,
   C03_ToAffine_unconditional,
   C09_created_verifies_sm2_unconditional,
   C13_kx_agree_unconditional,
   C13_kx_is_standard_unconditional,
   C14_compress_decompress_sm2_unconditional).
Print Assumptions SM2Premises_all.
