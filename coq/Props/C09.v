(* C09 - Issued certificates, CSRs and CRLs parse back and verify only under the issuer.

   What is proved here (all other parts of the property are tied by the differential run of
   harness/cmd/c09: create -> parse -> compare every field -> verify under the issuer, under another
   key, after every single-byte change):

   1. over the tables regenerated from x509/x509.go on every run (Gen/X509Tables.v):
      signatureAlgorithmDetails is consistent (OID <-> algorithm <-> key family <-> hash) and names
      the hash checkSignature's switch uses; the SM2 algorithms are in the ECDSA family; the
      ExtKeyUsage, named-curve and public-key-algorithm OID mappings round-trip;
   2. signing_input_consistent: for every Create* function, signer key type and requested algorithm
      that signingParamsForPublicKey accepts, the verifier (getSignatureAlgorithmFromAI, then
      checkSignature on the re-parsed issuer key) checks under the scheme the signer used - same
      primitive, same hash, same message convention (digest of the TBS, or the raw TBS with the SM2
      default user id).  (Before the repairs c92c937 and 08c5823 this failed for CSR + RSA-PSS and
      for MD5WithRSA; the regression inputs are in corpus/c09/c09_anomalies.cases.);
   3. the field codecs gmsm owns, for all inputs: key-usage bits (bit reversal + asn1BitLength),
      basic constraints (MaxPathLen -1 / 0 / MaxPathLenZero), DER INTEGER (serial numbers of any
      sign and size).
   Model: X509/CreateModel.v.  The primitives (SM2: C01; crypto/rsa, crypto/ecdsa) and the ASN.1
   layer are outside these theorems. *)
From Coq Require Import List NArith ZArith Bool String Lia.
From GmsmVerif Require Import Lib.Outcome Gen.X509Tables X509.CreateModel X509.CreateRun X509.SigAlgTables X509.CreateProofs.
From GmsmVerif Require Import SM2.SM2Bytes SM2.SM2Spec SM2.DER SM2.SM2Model SM2.SM2SignProofs X509.CreateSM2Model X509.CreateSM2Proofs.
From GmsmVerif Require EC.SM2Curve.
From GmsmVerif Require Import X509.DerLayer X509.DerLayerProofs X509.ExtModel X509.ExtProofs X509.CrlModel X509.CrlProofs X509.CertModel X509.CertProofs X509.CertRun.
Import ListNotations.
Local Open Scope N_scope.

(* ---------- 1. tables ------------------------------------------------------------------------------------ *)
Theorem sigalg_table_consistent :
  (* an algorithm has one key family and one hash *)
  (forall r1 r2, In r1 gen_sigalg_details -> In r2 gen_sigalg_details -> row_algo r1 = row_algo r2 ->
     row_pk r1 = row_pk r2 /\ row_hash r1 = row_hash r2) /\
  (* ... and one OID, except SHA1WithRSA (ISO alias) *)
  (forall r1 r2, In r1 gen_sigalg_details -> In r2 gen_sigalg_details -> row_algo r1 = row_algo r2 ->
     row_algo r1 <> c_SHA1WithRSA -> row_oid r1 = row_oid r2) /\
  (* an OID names one algorithm, except the RSA-PSS OID, whose three algorithms differ in their hash *)
  (forall r1 r2, In r1 gen_sigalg_details -> In r2 gen_sigalg_details -> row_oid r1 = row_oid r2 ->
     row_oid r1 <> gen_oidSignatureRSAPSS -> row_algo r1 = row_algo r2) /\
  (forall r1 r2, In r1 gen_sigalg_details -> In r2 gen_sigalg_details ->
     row_oid r1 = gen_oidSignatureRSAPSS -> row_oid r2 = gen_oidSignatureRSAPSS ->
     row_hash r1 = row_hash r2 -> row_algo r1 = row_algo r2) /\
  (* the hash the table names is the hash checkSignature uses, for every algorithm it does not refuse;
     checkSignature knows no algorithm outside the table and assigns one hash to each *)
  (forall r, In r gen_sigalg_details ->
     In (row_algo r) gen_checksig_refused \/ In (row_algo r, row_hash r) gen_checksig_hash) /\
  (forall a h, In (a, h) gen_checksig_hash -> exists r, In r gen_sigalg_details /\ row_algo r = a /\ row_hash r = h) /\
  (forall a h1 h2, In (a, h1) gen_checksig_hash -> In (a, h2) gen_checksig_hash -> h1 = h2).
Proof.
  split; [exact algo_determines_family_hash|]. split; [exact algo_determines_oid|].
  split; [exact oid_determines_algo|]. split; [exact pss_rows_differ_in_hash|].
  split; [exact table_hash_is_checksig_hash|]. split; [exact checksig_knows_only_table_algorithms|].
  exact checksig_hash_functional.
Qed.
Print Assumptions sigalg_table_consistent.

Theorem sm2_algs_are_ecdsa_family :
  (forall r, In r gen_sigalg_details ->
     row_algo r = c_SM2WithSM3 \/ row_algo r = c_SM2WithSHA1 \/ row_algo r = c_SM2WithSHA256 -> row_pk r = c_ECDSA) /\
  (exists r, In r gen_sigalg_details /\ row_algo r = c_SM2WithSM3 /\ row_hash r = c_SM3) /\
  (exists r, In r gen_sigalg_details /\ row_algo r = c_SM2WithSHA1 /\ row_hash r = c_SHA1) /\
  (exists r, In r gen_sigalg_details /\ row_algo r = c_SM2WithSHA256 /\ row_hash r = c_SHA256).
Proof. split; [exact sm2_rows_ecdsa|exact sm2_rows_present]. Qed.
Print Assumptions sm2_algs_are_ecdsa_family.

Theorem extkeyusage_oid_roundtrip :
  (forall u o, oidFromExtKeyUsage_model u = Some o -> extKeyUsageFromOID_model o = Some u) /\
  (forall o u, extKeyUsageFromOID_model o = Some u -> oidFromExtKeyUsage_model u = Some o).
Proof.
  split.
  - intros u o H. apply oid_from_eku_in_table in H. apply eku_roundtrip_table in H. tauto.
  - intros o u H. apply eku_from_oid_in_table in H. apply eku_roundtrip_table in H. tauto.
Qed.
Print Assumptions extkeyusage_oid_roundtrip.

Theorem named_curve_oid_roundtrip :
  (forall c o, In (c, o) gen_oid_from_curve -> oidFromNamedCurve_model c = Some o /\ namedCurveFromOID_model o = Some c) /\
  (forall o c, In (o, c) gen_curve_from_oid -> namedCurveFromOID_model o = Some c /\ oidFromNamedCurve_model c = Some o).
Proof. exact curve_roundtrip_table. Qed.
Print Assumptions named_curve_oid_roundtrip.

Theorem pubkeyalg_oid_roundtrip :
  (forall kt cv pubType h o, In (kt, cv, pubType, h, o) gen_signing_defaults ->
     exists po, marshalPublicKey_oid_model kt = Some po /\ getPublicKeyAlgorithmFromOID_model po = pubType) /\
  (forall o1 a1 o2 a2, In (o1, a1) gen_pubkeyalg_from_oid -> In (o2, a2) gen_pubkeyalg_from_oid -> (o1 = o2 <-> a1 = a2)).
Proof. split; [exact pubkeyalg_roundtrip_table|exact pubkeyalg_oids_distinct]. Qed.
Print Assumptions pubkeyalg_oid_roundtrip.

Example tables_examples :
  extKeyUsageFromOID_model [1;3;6;1;5;5;7;3;1] = Some c_ExtKeyUsageServerAuth
  /\ namedCurveFromOID_model [1;2;156;10197;1;301] = Some "sm2.P256Sm2()"%string
  /\ getPublicKeyAlgorithmFromOID_model [1;2;840;10045;2;1] = c_ECDSA
  /\ getSignatureAlgorithmFromAI_model [1;2;156;10197;1;501] None = c_SM2WithSM3.
Proof. vm_compute. repeat split; reflexivity. Qed.

(* ---------- 2. what is signed is what is verified ---------------------------------------------------- *)
(* For ALL kinds of object, signer key types (incl. every curve) and requested algorithms (any number):
   whatever a Create* function accepts, the verifier checks the way it was signed. *)
Theorem signing_input_consistent :
  forall k s requested sch oid pss,
    create_model k s requested = Ok (sch, oid, pss) ->
    checkSignature_model (getSignatureAlgorithmFromAI_model oid pss) (vkey_of s) = Ok sch.
Proof. exact signing_consistent_lemma. Qed.
Print Assumptions signing_input_consistent.

(* default-or-same-family templates are accepted for the signer types the property names; MD2WithRSA
   (no hash) and MD5WithRSA (checkSignature would refuse it) are refused at creation *)
Theorem same_family_templates_accepted :
  forall k s requested,
    In s [SgRSA; SgECDSA P256; SgECDSA P224; SgECDSA P384; SgECDSA P521; SgSM2 P256Sm2] ->
    same_family s requested = true -> requested <> c_MD2WithRSA -> requested <> c_MD5WithRSA ->
    exists r, create_model k s requested = Ok r.
Proof. exact same_family_accepted. Qed.
Print Assumptions same_family_templates_accepted.

(* the two together: every default-or-same-family request is either refused at creation or yields an
   object that verifies under the issuer key the way it was signed *)
Theorem created_verifies_or_refused :
  forall k s requested, match created_verifies k s requested with Ok true | Err _ => True | _ => False end.
Proof.
  intros k s requested. unfold created_verifies.
  destruct (create_model k s requested) as [[[sch oid] pss]| | |] eqn:E; cbn [obind]; try exact I.
  - rewrite (signing_consistent_lemma _ _ _ _ _ _ E).
    destruct sch; cbn; rewrite ?N.eqb_refl; exact I.
  - unfold create_model in E.
    destruct (signingParamsForPublicKey_model s _) as [[[h o] p]| | |] eqn:E1; cbn [obind] in E; try discriminate.
    + destruct s; cbn in E; discriminate.
    + unfold signingParamsForPublicKey_model in E1. destruct (find _ gen_signing_defaults) as [[[[[? ?] ?] ?] ?]|]; [|discriminate].
      destruct (_ =? 0); [discriminate|]. destruct (details_by_algo _); [|discriminate].
      destruct (negb _); [discriminate|]. destruct (_ =? 0); [discriminate|]. destruct (_ =? c_MD5); discriminate.
  - unfold create_model in E.
    destruct (signingParamsForPublicKey_model s _) as [[[h o] p]| | |] eqn:E1; cbn [obind] in E; try discriminate.
    + destruct s; cbn in E; discriminate.
    + unfold signingParamsForPublicKey_model in E1. destruct (find _ gen_signing_defaults) as [[[[[? ?] ?] ?] ?]|]; [|discriminate].
      destruct (_ =? 0); [discriminate|]. destruct (details_by_algo _); [|discriminate].
      destruct (negb _); [discriminate|]. destruct (_ =? 0); [discriminate|]. destruct (_ =? c_MD5); discriminate.
Qed.
Print Assumptions created_verifies_or_refused.

Example signing_examples :
  (* SM2 key, algorithm unset: raw TBS under SM2, recorded as SM2WithSM3, verified the same way *)
  create_model KCert (SgSM2 P256Sm2) 0 = Ok (SM2raw, [1;2;156;10197;1;501], None)
  /\ created_verifies KCert (SgSM2 P256Sm2) 0 = Ok true
  /\ created_verifies KCRL (SgSM2 P256Sm2) c_SM2WithSHA1 = Ok true
  /\ created_verifies KRevocationList SgRSA c_SHA384WithRSAPSS = Ok true
  /\ created_verifies KCSR SgRSA c_SHA384WithRSAPSS = Ok true
  /\ create_model KCert SgRSA c_MD5WithRSA = Err 5
  /\ create_model KCert SgRSA c_SM2WithSM3 = Err 2
  /\ create_model KCert (SgSM2 P256Sm2) 99 = Err 4.
Proof. vm_compute. repeat split; reflexivity. Qed.

(* ---------- 2b. created objects verify / are rejected, relative to C01 -------------------------------------
   X509/CreateSM2Model.v composes the SM2 model of C01 into the byte-level path of an SM2 signer:
   Sign over the raw TBS -> DER{r,s} -> BIT STRING, and checkSignature's strict DER{r,s} -> Sm2Verify. *)

(* under SM2Facts (p, n prime; the group law; G of order n - premises of C01): for every private key
   d in [1, n-2], every TBS and every random stream, the signature a Create* function stores
   verifies under the issuer's public key [d]G *)
Theorem created_verifies_sm2 :
  EC.SM2Curve.SM2Facts -> forall fuel d tbs rho sig rho',
    (1 <= d <= EC.SM2Curve.sm2_n - 2)%Z ->
    create_signature_sm2 fuel (key_of d) tbs rho = Ok (sig, rho') ->
    checkSignature_sm2 (ScalarBaseMult d) tbs sig = true.
Proof. exact created_verifies_sm2_lemma. Qed.
Print Assumptions created_verifies_sm2.

(* what checkSignature accepts for ANY key, signed bytes and signature bytes: exactly the strict DER
   encodings SEQUENCE{r,s} of pairs the SM2 verification of C01 accepts (C01_Sm2Verify_characterisation
   spells that relation out; under a different key it is the relation for THAT key).  Every other
   signature value - any changed byte, any non-canonical encoding, s+n, a surplus element - is rejected. *)
Theorem created_rejects_changed_signature :
  forall pub signed b, bytes_ok b ->
    (checkSignature_sm2 pub signed b = true <->
     exists r s, b = sig_encode r s /\ Sm2Verify pub signed [] r s = true).
Proof. exact checkSignature_sm2_iff. Qed.
Print Assumptions created_rejects_changed_signature.

(* changed signed bytes: if the same signature is accepted for two TBS under one key, the two digests
   SM3(Z || TBS) agree modulo n - a changed TBS is rejected unless SM3 collides modulo n *)
Theorem created_rejects_changed_tbs :
  forall pub tbs tbs' b, bytes_ok b ->
    (0 <= fst pub < 2 ^ 256)%Z -> (0 <= snd pub < 2 ^ 256)%Z ->
    checkSignature_sm2 pub tbs b = true -> checkSignature_sm2 pub tbs' b = true ->
    (e_spec pub default_uid tbs mod EC.SM2Curve.sm2_n = e_spec pub default_uid tbs' mod EC.SM2Curve.sm2_n)%Z.
Proof. exact created_rejects_changed_tbs_lemma. Qed.
Print Assumptions created_rejects_changed_tbs.

(* the user id of the signing path.  The SM2 signer of the Create* functions signs over the Z value of the
   DEFAULT user id - the model's signer is a function of key, TBS and random stream, so nothing done with
   the key object earlier (signatures, digests, verifications with other user ids) can change it -
   and a signature over the Z value of any OTHER user id, stored in an object, is accepted by
   checkSignature only if the two SM3 digests agree modulo n.  (A key object that keeps the Z value
   of the last user id it was used with issues exactly such objects; the driver's user-id histories
   run this on the implementation.) *)
Theorem C09_signer_signs_over_default_Z :
  forall fuel pr tbs rho sig rho',
    create_signature_sm2 fuel pr tbs rho = Ok (sig, rho') ->
    exists r s, sig = sig_encode r s /\ Sm2Sign fuel pr tbs default_uid rho = Ok (r, s, rho').
Proof. exact create_signature_sm2_default_uid. Qed.
Print Assumptions C09_signer_signs_over_default_Z.

Theorem C09_other_uid_Z_rejected :
  forall pub tbs uid r s,
    (Z.of_nat (List.length (uid_or_default uid)) < 8192)%Z ->
    (0 <= fst pub < 2 ^ 256)%Z -> (0 <= snd pub < 2 ^ 256)%Z ->
    Sm2Verify pub tbs uid r s = true ->
    checkSignature_sm2 pub tbs (sig_encode r s) = true ->
    (e_spec pub (uid_or_default uid) tbs mod EC.SM2Curve.sm2_n = e_spec pub default_uid tbs mod EC.SM2Curve.sm2_n)%Z.
Proof. exact other_uid_Z_rejected_lemma. Qed.
Print Assumptions C09_other_uid_Z_rejected.

(* non-vacuity: for the user id "alice" and the key [1]G the Z values differ, and so do the digests of 010203 mod n;
   the empty user id stands for the default one *)
Example other_uid_example :
  let pub := ScalarBaseMult 1 in
  let uid := [97; 108; 105; 99; 101] in
  let tbs := [1; 2; 3] in
  za_spec pub uid <> za_spec pub default_uid
  /\ (e_spec pub (uid_or_default uid) tbs mod EC.SM2Curve.sm2_n <> e_spec pub default_uid tbs mod EC.SM2Curve.sm2_n)%Z
  /\ uid_or_default [] = default_uid.
Proof. vm_compute. repeat split; discriminate. Qed.

(* RSA and ECDSA (and any scheme) by contract: a primitive whose signatures verify under the matching
   public key makes every created object verify, because the verifier runs the scheme the signer used *)
Theorem created_verifies_by_contract :
  forall (skey pkey : Type) (pub_of : skey -> pkey)
         (prim_sign : scheme -> skey -> list N -> list N -> option (list N))
         (prim_verify : scheme -> pkey -> list N -> list N -> bool),
    (forall sch key tbs rho sig, prim_sign sch key tbs rho = Some sig -> prim_verify sch (pub_of key) tbs sig = true) ->
    forall k s requested sch oid pss key tbs rho sig,
      create_model k s requested = Ok (sch, oid, pss) ->
      prim_sign sch key tbs rho = Some sig ->
      exists sch', checkSignature_model (getSignatureAlgorithmFromAI_model oid pss) (vkey_of s) = Ok sch' /\
                   prim_verify sch' (pub_of key) tbs sig = true.
Proof. exact created_verifies_by_contract_lemma. Qed.
Print Assumptions created_verifies_by_contract.

(* non-vacuity: key d = 1, TBS 010203, a stream whose first nonce is 2: the Create* path produces a signature *)
Definition ex_sm2_sig : list N :=
  match create_signature_sm2 2 (key_of 1) [1; 2; 3] (repeat 0 39 ++ [1]) with Ok (sig, _) => sig | _ => [] end.
Example created_sm2_example :
  create_signature_sm2 2 (key_of 1) [1; 2; 3] (repeat 0 39 ++ [1]) = Ok (ex_sm2_sig, [])
  /\ List.length ex_sm2_sig = 71%nat
  /\ checkSignature_sm2 (ScalarBaseMult 1) [1; 2; 3] (ex_sm2_sig ++ [0]) = false
  /\ checkSignature_sm2 (ScalarBaseMult 1) [1; 2; 3] [48; 6; 2; 1; 0; 2; 1; 5] = false.
Proof. vm_compute. repeat split; reflexivity. Qed.

(* what the correspondence runner evaluates (a table look-up, see X509/CreateRun.v) is the model *)
Theorem runner_table_is_the_model :
  forall k sp requested, In sp run_signers ->
    c09_lookup (kind_code k) (fst sp) requested = result_code (created_verifies k (snd sp) requested).
Proof. exact c09_lookup_correct. Qed.
Print Assumptions runner_table_is_the_model.

(* ---------- 3. field codecs ----------------------------------------------------------------------------- *)
(* every non-empty set of the nine defined key-usage bits: the BIT STRING buildExtensions emits is
   acceptable to encoding/asn1 (unused bits zero, last byte non-zero) and parseCertificate reads the
   same set back *)
Theorem keyusage_bits_roundtrip :
  forall ku, 0 < ku < 512 ->
    let '(bytes, bitLength) := encode_keyusage ku in
    decode_keyusage bytes bitLength = ku /\ bitstring_wellformed bytes bitLength = true.
Proof. exact keyusage_roundtrip_lemma. Qed.
Print Assumptions keyusage_bits_roundtrip.

Theorem basic_constraints_roundtrip :
  forall isCA maxPathLen maxPathLenZero,
    let '(isCA', mpl', zero') := decode_basic_constraints (encode_basic_constraints isCA maxPathLen maxPathLenZero) in
    isCA' = isCA /\
    effective_pathlen mpl' zero' = effective_pathlen maxPathLen maxPathLenZero /\
    zero' = (mpl' =? 0)%Z /\
    ((0 < maxPathLen)%Z -> mpl' = maxPathLen) /\
    (maxPathLen = 0%Z -> maxPathLenZero = true -> mpl' = 0%Z) /\
    (maxPathLen = 0%Z -> maxPathLenZero = false -> mpl' = (-1)%Z) /\
    ((maxPathLen < 0)%Z -> mpl' = maxPathLen).
Proof. exact basic_constraints_roundtrip_lemma. Qed.
Print Assumptions basic_constraints_roundtrip.

(* DER INTEGER: every integer (negative, 20 bytes, any size) decodes to itself, and the encoding has
   the least length whose two's complement range holds it (no redundant leading 00 / ff) *)
Theorem serial_roundtrip :
  forall z,
    decode_integer (encode_integer z) = z /\
    inrange (List.length (encode_integer z)) z /\
    (1 <= List.length (encode_integer z))%nat /\
    forall k, (1 <= k < List.length (encode_integer z))%nat -> ~ inrange k z.
Proof.
  intro z. split; [apply decode_encode_integer|].
  unfold encode_integer. rewrite be_bytes_length. apply encode_len_spec.
Qed.
Print Assumptions serial_roundtrip.

(* ---------- 4. the extensions gmsm encodes and decodes itself, at the level of identifier octets and bytes ---
   X509/DerLayer.v is the DER layer (what encoding/asn1 writes, what its reader accepts); X509/ExtModel.v
   follows marshalSANs / buildExtensions and parseSANExtension / the case arms of parseCertificate.
   [small v]: the encoded value is shorter than 2^31 bytes (encoding/asn1's own limit). *)

(* the DER layer itself: an element written is the element read, for every identifier octet with a low
   tag number and every content below 2^31 bytes; an object identifier written is the one read, for
   every OID encoding/asn1 accepts on both sides (first arc <= 2, second < 40 under 0 and 1, arcs < 2^31) *)
Theorem der_layer_roundtrip :
  (forall id c rest, low_tag id -> small c -> read_tlv (tlv id c ++ rest) = Some (id, c, rest)) /\
  (forall l, Forall elem_ok l -> read_all (List.length (write_all l)) (write_all l) = Some l) /\
  (forall oid, oid_ok oid -> exists b, encode_oid oid = Some b /\ decode_oid b = Some oid).
Proof. split; [exact read_tlv_tlv|]. split; [exact read_all_enough|exact decode_encode_oid]. Qed.
Print Assumptions der_layer_roundtrip.

(* SubjectAltName: every list of DNS names, e-mail addresses and IP addresses (4 or 16 bytes each, as
   net.IP documents) comes back; IPv4-mapped 16-byte addresses come back in their 4-byte form *)
Theorem san_roundtrip :
  forall dns emails ips,
    Forall ip_len_ok ips -> small (marshalSANs_model dns emails ips) ->
    parseSANExtension_model (marshalSANs_model dns emails ips) = Ok (dns, emails, map to4 ips).
Proof. exact san_roundtrip_lemma. Qed.
Print Assumptions san_roundtrip.

(* ExtKeyUsage: every list of known usages followed by unknown OIDs (valid, and not in the table) *)
Theorem extkeyusage_ext_roundtrip :
  forall ekus unknown value,
    Forall oid_ok unknown -> (forall o, In o unknown -> extKeyUsageFromOID_model o = None) ->
    build_eku ekus unknown = Ok value -> small value ->
    parse_eku value = Ok (ekus, unknown).
Proof. exact eku_roundtrip_lemma. Qed.
Print Assumptions extkeyusage_ext_roundtrip.

Theorem policies_roundtrip :
  forall oids value, Forall oid_ok oids -> build_policies oids = Ok value -> small value -> parse_policies value = Ok oids.
Proof. exact policies_roundtrip_lemma. Qed.
Print Assumptions policies_roundtrip.

Theorem keyid_roundtrip :
  (forall id, small (build_ski id) -> parse_ski (build_ski id) = Ok id) /\
  (forall id, small (build_aki id) -> parse_aki (build_aki id) = Ok id).
Proof. split; [exact ski_roundtrip_lemma|exact aki_roundtrip_lemma]. Qed.
Print Assumptions keyid_roundtrip.

(* NameConstraints (after 9737171 and 26cf598): whatever the builder accepts (no empty domain, IA5 only)
   comes back, with the critical flag *)
Theorem name_constraints_roundtrip :
  forall domains critical value,
    build_name_constraints domains = Ok value -> small value ->
    parse_name_constraints critical value = Ok (domains, critical).
Proof. exact name_constraints_roundtrip_lemma. Qed.
Print Assumptions name_constraints_roundtrip.

(* the TBSCertList CreateCRL / CreateRevocationList assemble (X509/CrlModel.v): version, algorithm, issuer,
   thisUpdate, optional nextUpdate, optional revoked entries (serial, time, optional extensions), optional
   extensions - comes back field by field from the model of ParseDERCRL, for every time codec that round-trips
   and writes UTCTime / GeneralizedTime (time.Time's, by contract), every serial, every extension whose OID is
   well formed, with the revoked list omitted or written empty *)
Theorem crl_tbs_roundtrip :
  forall (T : Type) (enc_time : T -> N * list N) (dec_time : N * list N -> option T),
    (forall t, dec_time (enc_time t) = Some t) -> (forall t, is_time_id (fst (enc_time t)) = true) ->
    forall empty_list_written t,
      tbs_ok T t -> small (build_tbs T enc_time empty_list_written t) ->
      parse_tbs T dec_time (build_tbs T enc_time empty_list_written t) = Ok t.
Proof. exact tbs_roundtrip_lemma. Qed.
Print Assumptions crl_tbs_roundtrip.

(* the two extensions CreateRevocationList adds come back: the issuer's key identifier and the CRL number *)
Theorem crl_number_and_aki_roundtrip :
  forall ski number extra,
    small (build_aki ski) -> small (tlv ID_INTEGER (encode_integer number)) ->
    match revocation_list_exts ski number extra with
    | a :: n :: rest =>
      x_id a = oid_AKI /\ parse_aki (x_val a) = Ok ski /\
      x_id n = oid_CRLNumber /\ parse_crl_number (x_val n) = Ok number /\ rest = extra
    | _ => False
    end.
Proof.
  intros ski number extra H1 H2. cbn [revocation_list_exts x_id x_val].
  split; [reflexivity|]. split; [exact (aki_roundtrip_lemma ski H1)|]. split; [reflexivity|].
  split; [exact (crl_number_roundtrip_lemma number H2)|reflexivity].
Qed.
Print Assumptions crl_number_and_aki_roundtrip.

(* ---------- 4b. the objects themselves: TBSCertificate, SubjectPublicKeyInfo, CertificationRequestInfo --------
   X509/CertModel.v: what CreateCertificate / CreateCertificateRequest assemble and what parseCertificate /
   parseCertificateRequest read back.  Names and the signature AlgorithmIdentifier are opaque SEQUENCE
   elements (crypto/x509/pkix is the standard library's), times go through a codec that round-trips
   (time.Time's, by contract), the public key is an SM2 key (what CreateCertificate accepts). *)

Theorem C09_keyusage_value_roundtrip :
  forall ku, 0 < ku < 512 -> parse_keyusage_value (build_keyusage_value ku) = Ok ku.
Proof. exact keyusage_value_roundtrip_lemma. Qed.
Print Assumptions C09_keyusage_value_roundtrip.

Theorem C09_basic_constraints_value_roundtrip :
  forall isCA maxPathLen maxPathLenZero,
    small (build_bc_value isCA maxPathLen maxPathLenZero) ->
    parse_bc_value (build_bc_value isCA maxPathLen maxPathLenZero) =
      Ok (decode_basic_constraints (encode_basic_constraints isCA maxPathLen maxPathLenZero)).
Proof. exact bc_value_roundtrip_lemma. Qed.
Print Assumptions C09_basic_constraints_value_roundtrip.

(* the SubjectPublicKeyInfo of every SM2 public key (a point of the curve with coordinates below p): OIDs
   from the generated tables, uncompressed point, read back by the ECDSA arm of parsePublicKey *)
Theorem C09_spki_sm2_roundtrip :
  forall x y, (0 <= x < EC.SM2Curve.sm2_p)%Z -> (0 <= y < EC.SM2Curve.sm2_p)%Z -> EC.SM2Curve.sm2_on_curve x y = true ->
    parse_spki_sm2 (spki_content_sm2 x y) = Ok (x, y).
Proof. exact spki_roundtrip_lemma. Qed.
Print Assumptions C09_spki_sm2_roundtrip.

(* the TBSCertificate frame: [0] version 2, serial, algorithm, issuer, validity, subject, SPKI, [3] extensions *)
Theorem C09_tbs_certificate_roundtrip :
  forall (T : Type) (enc_time : T -> N * list N) (dec_time : N * list N -> option T),
    (forall t, dec_time (enc_time t) = Some t) -> (forall t, is_time_id (fst (enc_time t)) = true) ->
    forall t, tbs_cert_ok T t -> small (build_tbs_cert T enc_time t) ->
      parse_tbs_cert T dec_time (build_tbs_cert T enc_time t) = Ok t.
Proof. exact tbs_cert_roundtrip_lemma. Qed.
Print Assumptions C09_tbs_certificate_roundtrip.

(* buildExtensions followed by the extension loop of parseCertificate, for the fields the property names:
   key usage, extended key usage, basic constraints, key identifiers, SANs, policies, name constraints *)
Theorem C09_extension_list_roundtrip :
  forall f exts,
    fields_ok f -> buildExtensions_model f = Ok exts -> (forall e, In e exts -> small (x_val e)) ->
    parse_extensions empty_fields exts = Ok (expected_fields f).
Proof. exact extensions_roundtrip_lemma. Qed.
Print Assumptions C09_extension_list_roundtrip.

(* the whole certificate body: serial, validity, names, SM2 public key and the template's extension fields
   come back from the bytes CreateCertificate signs *)
Theorem C09_certificate_roundtrip :
  forall (T : Type) (enc_time : T -> N * list N) (dec_time : N * list N -> option T),
    (forall t, dec_time (enc_time t) = Some t) -> (forall t, is_time_id (fst (enc_time t)) = true) ->
    forall serial alg issuer notBefore notAfter subject x y f exts,
      fst alg = ID_SEQUENCE -> fst issuer = ID_SEQUENCE -> fst subject = ID_SEQUENCE ->
      (0 <= x < EC.SM2Curve.sm2_p)%Z -> (0 <= y < EC.SM2Curve.sm2_p)%Z -> EC.SM2Curve.sm2_on_curve x y = true ->
      fields_ok f -> buildExtensions_model f = Ok exts ->
      let t := mkTbsCert serial alg issuer notBefore notAfter subject (spki_content_sm2 x y) exts in
      small (build_tbs_cert T enc_time t) ->
      exists t', parse_tbs_cert T dec_time (build_tbs_cert T enc_time t) = Ok t' /\
                 tc_serial t' = serial /\ tc_notbefore t' = notBefore /\ tc_notafter t' = notAfter /\
                 tc_issuer t' = issuer /\ tc_subject t' = subject /\
                 parse_spki_sm2 (tc_spki t') = Ok (x, y) /\
                 parse_extensions empty_fields (tc_exts t') = Ok (expected_fields f).
Proof.
  intros T enc_time dec_time Hrt Hid serial alg issuer nb na subject x y f exts Ha Hi Hsu Hx Hy Hon Hf Hb t Hs.
  pose proof (buildExtensions_ext_ok f exts Hb) as Hok.
  assert (Hrt' : parse_tbs_cert T dec_time (build_tbs_cert T enc_time t) = Ok t).
  { apply tbs_cert_roundtrip_lemma; try assumption. unfold tbs_cert_ok, t. cbn. tauto. }
  exists t. split; [exact Hrt'|]. unfold t. cbn [tc_serial tc_notbefore tc_notafter tc_issuer tc_subject tc_spki tc_exts].
  repeat (split; [reflexivity|]). split; [apply spki_roundtrip_lemma; assumption|].
  apply extensions_roundtrip_lemma; [exact Hf|exact Hb|].
  intros e He. apply enc_ext_value_small.
  (* the value sits inside the [3] wrapper of the TBSCertificate *)
  unfold build_tbs_cert, t in Hs. cbn [tc_serial tc_alg tc_issuer tc_notbefore tc_notafter tc_subject tc_spki tc_exts] in Hs.
  pose proof (small_tlv _ _ Hs) as Hw.
  assert (Hx3 : small (tlv ID_SEQUENCE (write_all (map enc_ext exts)))).
  { apply (small_write_all _ Hw (ID_CTX3_CONS, tlv ID_SEQUENCE (write_all (map enc_ext exts)))). do 7 right. left. reflexivity. }
  apply (small_write_all _ (small_tlv _ _ Hx3) (enc_ext e)). apply in_map. exact He.
Qed.
Print Assumptions C09_certificate_roundtrip.

(* the CertificationRequestInfo frame: version 0, subject, SPKI, [0] attributes (opaque elements) *)
Theorem C09_csr_info_roundtrip :
  forall c : csr_info,
    fst (cr_subject c) = ID_SEQUENCE -> (forall a, In a (cr_attributes c) -> low_tag (fst a)) ->
    small (build_csr_info c) -> parse_csr_info (build_csr_info c) = Ok c.
Proof. exact csr_info_roundtrip_lemma. Qed.
Print Assumptions C09_csr_info_roundtrip.

(* the instance the correspondence runner evaluates (OIDs looked up at compile time) is the model *)
Theorem runner_cert_model_is_the_model :
  (forall x y, spki_content_run x y = spki_content_sm2 x y) /\
  (forall f, buildExtensions_run f = buildExtensions_model f).
Proof. exact cert_run_is_the_model. Qed.
Print Assumptions runner_cert_model_is_the_model.

(* non-vacuity of the round trips: concrete instances of their premises, evaluated.  Times are the DER
   elements themselves (UTCTime "240101000000Z" ...), the key is the base point G. *)
Definition ex_time1 : N * list N := (ID_UTCTIME, [50;52;48;49;48;49;48;48;48;48;48;48;90]).
Definition ex_time2 : N * list N := (ID_GENERALIZEDTIME, [50;48;53;48;48;49;48;49;48;48;48;48;48;48;90]).
Definition ex_name : N * list N := (ID_SEQUENCE, [49;10;48;8;6;3;85;4;3;12;1;99]).
Definition ex_alg : N * list N := (ID_SEQUENCE, [6;8;42;129;28;207;85;1;131;117]).
Definition ex_fields : cert_fields :=
  mkFields 96 [c_ExtKeyUsageServerAuth] [[1;2;3;4]] true true 0%Z true [1;2;3] [9;9] [[97;46;98]] [] [[10;1;2;3]]
           [[2;5;29;32;0]] [[97;46;98]] true.

Example roundtrip_premises_examples :
  (* san_roundtrip *)
  Forall ip_len_ok [[10;1;2;3]; [0;0;0;0;0;0;0;0;0;0;255;255;10;1;2;4]]
  /\ parseSANExtension_model (marshalSANs_model [[97;46;98]] [[120;64;121]] [[10;1;2;3]; [0;0;0;0;0;0;0;0;0;0;255;255;10;1;2;4]])
     = Ok ([[97;46;98]], [[120;64;121]], [[10;1;2;3]; [10;1;2;4]])
  (* crl_tbs_roundtrip, with the identity time codec *)
  /\ (let t := mkTbs ex_alg ex_name ex_time1 (Some ex_time2)
                     [mkEntry (-129)%Z ex_time1 [mkExt [2;5;29;21] false [10;1;1]]; mkEntry (2 ^ 159)%Z ex_time2 []]
                     (revocation_list_exts [7;7] 5%Z []) in
      parse_tbs_raw (build_tbs_raw false t) = Ok t)
  (* C09_certificate_roundtrip: G is on the curve, the fields are accepted, the body parses back *)
  /\ EC.SM2Curve.sm2_on_curve EC.SM2Curve.sm2_Gx EC.SM2Curve.sm2_Gy = true
  /\ (exists exts, buildExtensions_model ex_fields = Ok exts /\ List.length exts = 8%nat /\
        parse_extensions empty_fields exts = Ok (expected_fields ex_fields))
  /\ parse_spki_sm2 (spki_content_sm2 EC.SM2Curve.sm2_Gx EC.SM2Curve.sm2_Gy) = Ok (EC.SM2Curve.sm2_Gx, EC.SM2Curve.sm2_Gy).
Proof.
  split; [repeat constructor; (left; reflexivity) || (right; reflexivity)|].
  split; [vm_compute; reflexivity|]. split; [vm_compute; reflexivity|]. split; [vm_compute; reflexivity|].
  split; [eexists; split; [vm_compute; reflexivity|split; vm_compute; reflexivity]|vm_compute; reflexivity].
Qed.

Example extension_examples :
  marshalSANs_model [[97; 46; 98]] [] [[0;0;0;0;0;0;0;0;0;0;255;255;10;1;2;3]] = [48; 11; 130; 3; 97; 46; 98; 135; 4; 10; 1; 2; 3]
  /\ build_eku [c_ExtKeyUsageServerAuth] [[1; 2; 3; 4]] = Ok [48; 15; 6; 8; 43; 6; 1; 5; 5; 7; 3; 1; 6; 3; 42; 3; 4]
  /\ parse_eku [48; 15; 6; 8; 43; 6; 1; 5; 5; 7; 3; 1; 6; 3; 42; 3; 4] = Ok ([c_ExtKeyUsageServerAuth], [[1; 2; 3; 4]])
  /\ build_name_constraints [[97; 46; 98]] = Ok [48; 9; 160; 7; 48; 5; 130; 3; 97; 46; 98]
  /\ build_name_constraints [[]] = Err 6
  /\ encode_oid [1; 2; 156; 10197; 1; 501] = Some [42; 129; 28; 207; 85; 1; 131; 117]
  /\ List.length (tlv 4 (repeat 0 300)) = 304%nat.
Proof. vm_compute. repeat split; reflexivity. Qed.

(* ---------- 5. the identifiers the codec models stand for are the identifiers of the source -------------------
   buildExtensions writes each extension under an oidExtension* literal, parseCertificate dispatches on
   the last arc under id-ce (2.5.29); the KeyUsage constants are the bit positions of RFC 5280 4.2.1.3.
   All read from x509.go by the translator on every run. *)
Definition ext_oid (name : string) : option (list N) :=
  option_map snd (find (fun pr => String.eqb (fst pr) name) gen_ext_oids).

Theorem extension_identifiers_tied :
  (* the codecs modelled in X509/CreateModel.v and X509/ExtModel.v, with the arm of parseCertificate each parser follows *)
  ext_oid "oidExtensionKeyUsage" = Some [2; 5; 29; 15] /\
  ext_oid "oidExtensionBasicConstraints" = Some [2; 5; 29; 19] /\
  ext_oid "oidExtensionSubjectAltName" = Some [2; 5; 29; 17] /\
  ext_oid "oidExtensionExtendedKeyUsage" = Some [2; 5; 29; 37] /\
  ext_oid "oidExtensionCertificatePolicies" = Some [2; 5; 29; 32] /\
  ext_oid "oidExtensionNameConstraints" = Some [2; 5; 29; 30] /\
  ext_oid "oidExtensionSubjectKeyId" = Some [2; 5; 29; 14] /\
  ext_oid "oidExtensionAuthorityKeyId" = Some [2; 5; 29; 35] /\
  (* every one of them has an arm in parseCertificate, and every arm belongs to an extension the builder knows *)
  (forall a, In a [15; 19; 17; 37; 32; 30; 14; 35] -> In a gen_parse_ext_arms) /\
  (forall a, In a gen_parse_ext_arms -> exists name, In (name, [2; 5; 29; a]) gen_ext_oids).
Proof.
  repeat (split; [reflexivity|]). split.
  - intros a Ha. cbn in Ha. repeat (destruct Ha as [<-|Ha]; [vm_compute; tauto|]). destruct Ha.
  - intros a Ha. cbn in Ha.
    repeat (destruct Ha as [<-|Ha];
            [first [ exists "oidExtensionKeyUsage"%string; vm_compute; tauto
                   | exists "oidExtensionBasicConstraints"%string; vm_compute; tauto
                   | exists "oidExtensionSubjectAltName"%string; vm_compute; tauto
                   | exists "oidExtensionNameConstraints"%string; vm_compute; tauto
                   | exists "oidExtensionCRLDistributionPoints"%string; vm_compute; tauto
                   | exists "oidExtensionAuthorityKeyId"%string; vm_compute; tauto
                   | exists "oidExtensionExtendedKeyUsage"%string; vm_compute; tauto
                   | exists "oidExtensionSubjectKeyId"%string; vm_compute; tauto
                   | exists "oidExtensionCertificatePolicies"%string; vm_compute; tauto ]|]).
    destruct Ha.
Qed.
Print Assumptions extension_identifiers_tied.

(* bit i of the KeyUsage BIT STRING is the constant 1 << i, in the order of RFC 5280; parseCertificate's
   loop and [decode_keyusage] read bits 0..8 *)
Theorem keyusage_bit_order_tied :
  gen_keyusage_consts =
    [("KeyUsageDigitalSignature", 2 ^ 0); ("KeyUsageContentCommitment", 2 ^ 1); ("KeyUsageKeyEncipherment", 2 ^ 2);
     ("KeyUsageDataEncipherment", 2 ^ 3); ("KeyUsageKeyAgreement", 2 ^ 4); ("KeyUsageCertSign", 2 ^ 5);
     ("KeyUsageCRLSign", 2 ^ 6); ("KeyUsageEncipherOnly", 2 ^ 7); ("KeyUsageDecipherOnly", 2 ^ 8)]%string /\
  (forall i, (i < 9)%nat ->
     let '(bytes, bitLength) := encode_keyusage (2 ^ N.of_nat i) in
     bitstring_at bytes bitLength i = true /\ forall j, (j < 9)%nat -> j <> i -> bitstring_at bytes bitLength j = false).
Proof.
  split; [reflexivity|].
  intros i Hi. do 9 (destruct i as [|i]; [vm_compute; split; [reflexivity|];
    intros j Hj Hne; do 9 (destruct j as [|j]; [first [reflexivity | exfalso; apply Hne; reflexivity]|]); exfalso; lia|]).
  exfalso. lia.
Qed.
Print Assumptions keyusage_bit_order_tied.

Example codec_examples :
  encode_keyusage 96 = ([6], 7%nat)                          (* certSign | cRLSign : 0000011x, 7 bits *)
  /\ encode_keyusage 257 = ([128; 128], 9%nat)               (* digitalSignature | decipherOnly *)
  /\ encode_integer (-129) = [255; 127] /\ encode_integer 128 = [0; 128]
  /\ List.length (encode_integer (2 ^ 159)) = 21%nat         (* a 20-byte serial with the top bit set takes 21 bytes *)
  /\ decode_basic_constraints (encode_basic_constraints true 0 false) = (true, (-1)%Z, false)
  /\ decode_basic_constraints (encode_basic_constraints true 0 true) = (true, 0%Z, true).
Proof. vm_compute. repeat split; reflexivity. Qed.
