(* Every session state the handshake code puts into a ticket fits the widths of the serialisation
   (wf_state of TicketProofs.v), so the round-trip theorem applies to all of them:
   - sendSessionTicket after a full handshake: vers = c.vers and cipherSuite = hs.suite.id are uint16,
     masterSecret is the 48-byte output of masterFromPreMasterSecret, certificates are those of a
     Certificate handshake message (readHandshake refuses messages longer than maxHandshake);
   - sendSessionTicket in a resumed handshake (ticket refresh): master secret and certificates are taken
     from the state that unmarshal returned for the (decrypted) ticket bytes. *)
From Coq Require Import List NArith Arith Bool Lia ZifyN ZifyNat ZifyBool.
From GmsmVerif Require Import Lib.Outcome Gen.TLSSuites Resume.TicketModel Resume.TicketProofs.
Import ListNotations.
Close Scope N_scope.

Definition bytes_ok (l : list N) : Prop := Forall (fun b => (b < 256)%N) l.

Lemma rd_byte : forall d i b, bytes_ok d -> rd d i = Ok b -> (b < 256)%N.
Proof.
  intros d i b H. unfold rd. destruct (nth_error d i) eqn:E; [|discriminate]. intros [= <-].
  apply nth_error_In in E. exact (proj1 (Forall_forall _ _) H _ E).
Qed.

Lemma bytes_ok_skipn : forall n d, bytes_ok d -> bytes_ok (skipn n d).
Proof.
  intros n d H. unfold bytes_ok in *. rewrite Forall_forall in *. intros x Hx. apply H.
  rewrite <- (firstn_skipn n d). apply in_or_app. right. exact Hx.
Qed.

Lemma from_inv : forall d n r, from d n = Ok r -> r = skipn n d /\ n <= length d.
Proof. intros d n r. unfold from. destruct (Nat.leb_spec n (length d)); [intros [= <-]; auto|discriminate]. Qed.
Lemma upto_inv : forall d n r, upto d n = Ok r -> r = firstn n d /\ n <= length d.
Proof. intros d n r. unfold upto. destruct (Nat.leb_spec n (length d)); [intros [= <-]; auto|discriminate]. Qed.

(* what read_certs returns: exactly n certificates, each shorter than 2^32 *)
Lemma read_certs_wf : forall n d cs rest, bytes_ok d -> read_certs n d = Ok (cs, rest) ->
  length cs = n /\ Forall (fun c => (len c < 4294967296)%N) cs.
Proof.
  induction n as [|n IH]; intros d cs rest Hd; cbn [read_certs].
  - intros [= <- <-]. split; [reflexivity|constructor].
  - destruct (Nat.ltb (length d) 4); [discriminate|].
    destruct (rd d 0) as [b0| | |] eqn:E0; cbn [obind]; try discriminate.
    destruct (rd d 1) as [b1| | |] eqn:E1; cbn [obind]; try discriminate.
    destruct (rd d 2) as [b2| | |] eqn:E2; cbn [obind]; try discriminate.
    destruct (rd d 3) as [b3| | |] eqn:E3; cbn [obind]; try discriminate.
    pose proof (rd_byte _ _ _ Hd E0). pose proof (rd_byte _ _ _ Hd E1).
    pose proof (rd_byte _ _ _ Hd E2). pose proof (rd_byte _ _ _ Hd E3).
    destruct (from d 4) as [d1| | |] eqn:F1; cbn [obind]; try discriminate.
    apply from_inv in F1. destruct F1 as (-> & _).
    set (L := (b0 * 16777216 + b1 * 65536 + b2 * 256 + b3)%N).
    destruct (N.ltb_spec (len (skipn 4 d)) L) as [HL|HL]; [discriminate|].
    destruct (upto (skipn 4 d) (N.to_nat L)) as [c| | |] eqn:U; cbn [obind]; try discriminate.
    apply upto_inv in U. destruct U as (-> & HU).
    destruct (from (skipn 4 d) (N.to_nat L)) as [d2| | |] eqn:F2; cbn [obind]; try discriminate.
    apply from_inv in F2. destruct F2 as (-> & _).
    destruct (read_certs n (skipn (N.to_nat L) (skipn 4 d))) as [[cs' rest']| | |] eqn:R; cbn [obind]; try discriminate.
    intros [= <- <-].
    destruct (IH _ _ _ (bytes_ok_skipn _ _ (bytes_ok_skipn _ _ Hd)) R) as (Hn & HF).
    split; [cbn [length]; lia|]. constructor; [|exact HF].
    unfold len. rewrite firstn_length. unfold L in *. lia.
Qed.

(* whatever unmarshal returns for a byte string fits the widths *)
Lemma unmarshal_wf : forall data s, bytes_ok data -> unmarshal data = Ok s -> wf_state s.
Proof.
  intros data s Hd. unfold unmarshal.
  destruct (Nat.ltb (length data) 8); [discriminate|].
  destruct (rd data 0) as [b0| | |] eqn:E0; cbn [obind]; try discriminate.
  destruct (rd data 1) as [b1| | |] eqn:E1; cbn [obind]; try discriminate.
  destruct (rd data 2) as [b2| | |] eqn:E2; cbn [obind]; try discriminate.
  destruct (rd data 3) as [b3| | |] eqn:E3; cbn [obind]; try discriminate.
  destruct (rd data 4) as [b4| | |] eqn:E4; cbn [obind]; try discriminate.
  destruct (rd data 5) as [b5| | |] eqn:E5; cbn [obind]; try discriminate.
  pose proof (rd_byte _ _ _ Hd E0). pose proof (rd_byte _ _ _ Hd E1). pose proof (rd_byte _ _ _ Hd E2).
  pose proof (rd_byte _ _ _ Hd E3). pose proof (rd_byte _ _ _ Hd E4). pose proof (rd_byte _ _ _ Hd E5).
  destruct (from data 6) as [d1| | |] eqn:F1; cbn [obind]; try discriminate.
  apply from_inv in F1. destruct F1 as (-> & _).
  set (L := N.to_nat (b4 * 256 + b5)%N).
  destruct (Nat.ltb_spec (length (skipn 6 data)) L) as [HL|HL]; [discriminate|].
  destruct (upto (skipn 6 data) L) as [ms| | |] eqn:U; cbn [obind]; try discriminate.
  apply upto_inv in U. destruct U as (-> & _).
  destruct (from (skipn 6 data) L) as [d2| | |] eqn:F2; cbn [obind]; try discriminate.
  apply from_inv in F2. destruct F2 as (-> & _).
  set (d2 := skipn L (skipn 6 data)).
  assert (Hd2 : bytes_ok d2) by (unfold d2; repeat apply bytes_ok_skipn; exact Hd).
  destruct (Nat.ltb (length d2) 2); [discriminate|].
  destruct (rd d2 0) as [c0| | |] eqn:G0; cbn [obind]; try discriminate.
  destruct (rd d2 1) as [c1| | |] eqn:G1; cbn [obind]; try discriminate.
  pose proof (rd_byte _ _ _ Hd2 G0). pose proof (rd_byte _ _ _ Hd2 G1).
  destruct (from d2 2) as [d3| | |] eqn:F3; cbn [obind]; try discriminate.
  apply from_inv in F3. destruct F3 as (-> & _).
  destruct (read_certs (N.to_nat (c0 * 256 + c1)%N) (skipn 2 d2)) as [[cs rest]| | |] eqn:R; cbn [obind]; try discriminate.
  destruct rest; [|discriminate]. intros [= <-].
  destruct (read_certs_wf _ _ _ _ (bytes_ok_skipn _ _ Hd2) R) as (Hn & HF).
  unfold wf_state. cbn [ss_vers ss_suite ss_ms ss_certs].
  repeat split; try lia; [|exact HF].
  unfold len. rewrite firstn_length. unfold L. lia.
Qed.

(* the certificates of one Certificate handshake message: 3 bytes for the list length, 3 per certificate,
   the whole message at most maxHandshake bytes *)
Definition cert_msg_ok (certs : list (list N)) : Prop :=
  (3 + N.of_nat (list_sum (map (fun c => (3 + length c)%nat) certs)) <= gen_maxHandshake)%N.

Lemma cert_sum_bounds : forall certs : list (list N),
  3 * length certs <= list_sum (map (fun c => 3 + length c) certs)
  /\ Forall (fun c => length c <= list_sum (map (fun c => 3 + length c) certs)) certs.
Proof.
  induction certs as [|c certs (A & B)]; [split; [cbn; lia|constructor]|].
  change (list_sum (map (fun c0 : list N => 3 + length c0) (c :: certs)))
    with (3 + length c + list_sum (map (fun c0 : list N => 3 + length c0) certs)).
  split; [cbn [length]; lia|]. constructor; [lia|].
  eapply Forall_impl; [|exact B]. cbn. intros x Hx. lia.
Qed.

Lemma cert_msg_bounds : forall certs, cert_msg_ok certs ->
  (N.of_nat (length certs) < 65536)%N /\ Forall (fun c => (len c < 4294967296)%N) certs.
Proof.
  unfold cert_msg_ok, gen_maxHandshake. intros certs H.
  destruct (cert_sum_bounds certs) as (A & B). split; [lia|].
  eapply Forall_impl; [|exact B]. cbv beta. intros c Hc. unfold len. lia.
Qed.

(* the states sendSessionTicket builds *)
Inductive created : sstate -> Prop :=
| created_full : forall vers suite ms certs,
    (vers < 65536)%N -> (suite < 65536)%N -> length ms = N.to_nat gen_masterSecretLength -> cert_msg_ok certs ->
    created (mkSS vers suite ms certs false)
| created_refresh : forall vers suite data st old,
    (vers < 65536)%N -> (suite < 65536)%N -> bytes_ok data -> unmarshal data = Ok st ->
    created (mkSS vers suite (ss_ms st) (ss_certs st) old).

Theorem created_wf : forall s, created s -> wf_state s.
Proof.
  intros s [vers suite ms certs Hv Hs Hm Hc | vers suite data st old Hv Hs Hd Hu].
  - destruct (cert_msg_bounds certs Hc) as (A & B). unfold wf_state. cbn.
    repeat split; auto. unfold len. rewrite Hm. unfold gen_masterSecretLength. lia.
  - destruct (unmarshal_wf data st Hd Hu) as (_ & _ & A & B & C). unfold wf_state. cbn. auto.
Qed.
