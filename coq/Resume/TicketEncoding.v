(* The symbolic ticket Ticket(key name, nonce, state, tag) of Resume/ResumeModel.v and the byte string of
   Resume/TicketModel.v: under an interpretation of key numbers, nonces and symbolic states as bytes, opening
   the encoding of an authentic symbolic ticket with decryptTicket_bytes gives exactly the encoding of what
   decryptTicket_model returns - for every key list, enabled or disabled. *)
From Coq Require Import List NArith Arith Bool Lia.
From GmsmVerif Require Import Lib.Outcome Resume.TicketModel Resume.TicketProofs Resume.ResumeModel Resume.ResumeProofs.
Import ListNotations.
Close Scope N_scope.

Lemma find_idx_none : forall name keys j, find_idx name keys j = None -> ~ In name keys.
Proof.
  intros name keys. induction keys as [|k keys IH]; intros j H; cbn in *; [tauto|].
  destruct (N.eqb_spec name k); [discriminate|]. intros [C|C]; [congruence|]. exact (IH _ H C).
Qed.

Lemma find_idx_split : forall name keys j i, find_idx name keys j = Some i ->
  exists pre post, keys = pre ++ name :: post /\ j + length pre = i /\ ~ In name pre.
Proof.
  intros name keys. induction keys as [|k keys IH]; intros j i H; cbn in H; [discriminate|].
  destruct (N.eqb_spec name k) as [E|E].
  - injection H as <-. subst. exists [], keys. cbn. repeat split; auto.
  - destruct (IH _ _ H) as (pre & post & -> & Hl & Hn). exists (k :: pre), post. cbn. repeat split; [lia|].
    intros [C|C]; [congruence|tauto].
Qed.

Section Encoding.
  (* byte level primitives *)
  Variable ctr : list N -> list N -> list N -> list N.
  Variable hmacf : list N -> list N -> list N.
  Hypothesis hmac_len : forall k m, length (hmacf k m) = 32.
  Hypothesis ctr_len : forall k iv m, length (ctr k iv m) = length m.
  Hypothesis ctr_inv : forall k iv m, ctr k iv (ctr k iv m) = m.
  (* symbolic level *)
  Context {tagT : Type}.
  Variable mac : N -> N * N * sst -> tagT.
  Variable tag_eqb : tagT -> tagT -> bool.
  Hypothesis tag_eqb_spec : forall a b, tag_eqb a b = true <-> a = b.
  (* interpretation *)
  Variable kb : N -> tkeyB.                   (* ticketKeyFromBytes of the key with that number *)
  Variable ivb : N -> list N.                 (* the 16 random bytes drawn for that ticket *)
  Variable stb : sst -> sstate.               (* version, suite, master secret bytes, certificate bytes *)
  Hypothesis kb_name_len : forall k, length (kb_name (kb k)) = 16.
  Hypothesis kb_name_inj : forall k k', kb_name (kb k) = kb_name (kb k') -> k = k'.
  Hypothesis ivb_len : forall i, length (ivb i) = 16.
  Hypothesis stb_wf : forall st, wf_state (stb st).

  Definition ticket_bytes (t : ticket tagT) : list N :=
    let key := kb (tk_name t) in
    let body := kb_name key ++ ivb (tk_iv t) ++ ctr (kb_aes key) (ivb (tk_iv t)) (marshal (stb (tk_state t))) in
    body ++ hmacf (kb_hmac key) body.

  Definition with_old (s : sstate) (old : bool) : sstate :=
    mkSS (ss_vers s) (ss_suite s) (ss_ms s) (ss_certs s) old.

  Lemma find_keyB_map_none : forall name keys j, ~ In name keys ->
    find_keyB (kb_name (kb name)) (map kb keys) j = None.
  Proof.
    intros name keys. induction keys as [|k keys IH]; intros j H; cbn; [reflexivity|].
    destruct (bytes_eqb (kb_name (kb name)) (kb_name (kb k))) eqn:E.
    - apply bytes_eqb_eq in E. apply kb_name_inj in E. subst. exfalso. apply H. left. reflexivity.
    - apply IH. intro C. apply H. right. exact C.
  Qed.

  Lemma ticket_bytes_length : forall t, 64 <= length (ticket_bytes t).
  Proof.
    intros t. unfold ticket_bytes. cbv zeta. rewrite !app_length, hmac_len, kb_name_len, ivb_len. lia.
  Qed.

  Lemma ticket_bytes_name : forall t, firstn 16 (ticket_bytes t) = kb_name (kb (tk_name t)).
  Proof.
    intros t. unfold ticket_bytes. cbv zeta. rewrite <- !app_assoc. apply firstn_app_len. apply kb_name_len.
  Qed.

  Theorem encoding_commutes : forall disabled keys t,
    authentic mac t ->
    decryptTicket_bytes ctr hmacf disabled (map kb keys) (ticket_bytes t) =
    match decryptTicket_model mac tag_eqb disabled keys t with
    | Some (st, old) => Ok (with_old (stb st) old)
    | None => Err 1
    end.
  Proof.
    intros disabled keys t Ha. unfold decryptTicket_model. destruct disabled.
    { unfold decryptTicket_bytes. reflexivity. }
    destruct (find_idx (tk_name t) keys 0) as [i|] eqn:Ef.
    - assert (Et : tag_eqb (tk_tag t) (mac (tk_name t) (tk_name t, tk_iv t, tk_state t)) = true)
        by (apply tag_eqb_spec; exact Ha).
      rewrite Et. destruct (find_idx_split _ _ _ _ Ef) as (pre & post & -> & Hl & Hn).
      rewrite map_app. cbn [map]. unfold ticket_bytes. cbv zeta. rewrite <- !app_assoc.
      rewrite (decrypt_encrypt_bytes ctr hmacf hmac_len ctr_len ctr_inv (map kb post) (kb (tk_name t))
                 (ivb (tk_iv t)) (stb (tk_state t)) (map kb pre) (stb_wf _) (kb_name_len _) (ivb_len _)).
      + rewrite map_length. cbn in Hl. subst i. reflexivity.
      + apply Forall_forall. intros x Hx. apply in_map_iff in Hx. destruct Hx as (k & <- & Hk).
        intro C. apply kb_name_inj in C. subst. exact (Hn Hk).
    - pose proof (find_idx_none _ _ _ Ef) as Hn.
      unfold decryptTicket_bytes, ticketKeyNameLen, aesBlockSize, sha256Size. cbn [orb].
      pose proof (ticket_bytes_length t) as HL.
      destruct (Nat.ltb_spec (length (ticket_bytes t)) (16 + 16 + 32)); [lia|].
      rewrite upto_ok by lia. cbn [obind]. rewrite slice_ok by lia. cbn [obind]. rewrite from_ok by lia. cbn [obind].
      rewrite ticket_bytes_name. rewrite (find_keyB_map_none _ _ 0 Hn). reflexivity.
  Qed.
End Encoding.
