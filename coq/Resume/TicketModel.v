(* Byte-level model of /repo/gmtls/ticket.go: sessionState.marshal / unmarshal, encryptTicket,
   decryptTicket.  No proofs in this file.  Bytes are N; every Go index / slice expression is a
   checked access (Panic where Go would panic), so that "never panics" is a theorem and not a
   modelling decision.  Err 1 = the Go function returned false / (nil, false).

   sessionState fields serialised by the code: vers, cipherSuite, masterSecret, certificates.
   usedOldKey is not serialised; decryptTicket sets it from the index of the key that opened the
   ticket.  AES-CTR and HMAC-SHA256 are parameters (Section variables). *)
From Coq Require Import List NArith Arith Bool.
From GmsmVerif Require Import Lib.Outcome.
Import ListNotations.

Notation byte := N (only parsing).

Record sstate := mkSS {
  ss_vers : N; ss_suite : N; ss_ms : list byte; ss_certs : list (list byte); ss_old : bool }.

Definition be16 (n : N) : list byte := [(n / 256) mod 256; n mod 256]%N.
Definition be32 (n : N) : list byte :=
  [(n / 16777216) mod 256; (n / 65536) mod 256; (n / 256) mod 256; n mod 256]%N.

Definition len (l : list byte) : N := N.of_nat (length l).

(* func (s sessionState) marshal() []byte : the buffer is allocated with exactly the length that is
   then filled, so no access can fail; byte(x >> 8) keeps the low 8 bits *)
Definition marshal_cert (c : list byte) : list byte := be32 (len c) ++ c.

Definition marshal (s : sstate) : list byte :=
  be16 (ss_vers s) ++ be16 (ss_suite s) ++ be16 (len (ss_ms s)) ++ ss_ms s
  ++ be16 (N.of_nat (length (ss_certs s))) ++ concat (map marshal_cert (ss_certs s)).

(* checked accesses *)
Definition rd (d : list byte) (i : nat) : outcome byte :=
  match nth_error d i with Some b => Ok b | None => Panic end.
Definition from (d : list byte) (n : nat) : outcome (list byte) :=      (* d[n:] *)
  if Nat.leb n (length d) then Ok (skipn n d) else Panic.
Definition upto (d : list byte) (n : nat) : outcome (list byte) :=      (* d[:n] *)
  if Nat.leb n (length d) then Ok (firstn n d) else Panic.
Definition slice (d : list byte) (a b : nat) : outcome (list byte) :=   (* d[a:b] *)
  if (Nat.leb a b && Nat.leb b (length d))%bool then Ok (firstn (b - a) (skipn a d)) else Panic.

(* the loop "for i := range s.certificates" (numCerts iterations) *)
Fixpoint read_certs (n : nat) (d : list byte) : outcome (list (list byte) * list byte) :=
  match n with
  | O => Ok ([], d)
  | S n' =>
    if Nat.ltb (length d) 4 then Err 1
    else
      do b0 <- rd d 0; do b1 <- rd d 1; do b2 <- rd d 2; do b3 <- rd d 3;
      let certLenN := (b0 * 16777216 + b1 * 65536 + b2 * 256 + b3)%N in
      do d1 <- from d 4;
      (* "if certLen < 0": int is 64 bits on the platforms checked here, the sum is never negative *)
      if N.ltb (len d1) certLenN then Err 1             (* compared in N: certLen can be 2^32-1 *)
      else
        let certLen := N.to_nat certLenN in
        do c <- upto d1 certLen;
        do d2 <- from d1 certLen;
        do '(cs, rest) <- read_certs n' d2;
        Ok (c :: cs, rest)
  end.

(* func (s sessionState) unmarshal(data []byte) bool *)
Definition unmarshal (data : list byte) : outcome sstate :=
  if Nat.ltb (length data) 8 then Err 1
  else
    do b0 <- rd data 0; do b1 <- rd data 1; do b2 <- rd data 2; do b3 <- rd data 3;
    do b4 <- rd data 4; do b5 <- rd data 5;
    let vers := (b0 * 256 + b1)%N in
    let suite := (b2 * 256 + b3)%N in
    let masterSecretLen := N.to_nat (b4 * 256 + b5)%N in
    do d1 <- from data 6;
    if Nat.ltb (length d1) masterSecretLen then Err 1
    else
      do ms <- upto d1 masterSecretLen;
      do d2 <- from d1 masterSecretLen;
      if Nat.ltb (length d2) 2 then Err 1
      else
        do c0 <- rd d2 0; do c1 <- rd d2 1;
        let numCerts := N.to_nat (c0 * 256 + c1)%N in
        do d3 <- from d2 2;
        do '(certs, rest) <- read_certs numCerts d3;
        match rest with
        | [] => Ok (mkSS vers suite ms certs false)
        | _ => Err 1
        end.

(* func (s sessionState) equal: usedOldKey is not compared *)
Fixpoint bytes_eqb (a b : list byte) : bool :=
  match a, b with
  | [], [] => true
  | x :: a', y :: b' => (N.eqb x y && bytes_eqb a' b')%bool
  | _, _ => false
  end.
Fixpoint certs_eqb (a b : list (list byte)) : bool :=
  match a, b with
  | [], [] => true
  | x :: a', y :: b' => (bytes_eqb x y && certs_eqb a' b')%bool
  | _, _ => false
  end.
Definition sstate_equal (a b : sstate) : bool :=
  (N.eqb (ss_vers a) (ss_vers b) && N.eqb (ss_suite a) (ss_suite b)
   && bytes_eqb (ss_ms a) (ss_ms b) && certs_eqb (ss_certs a) (ss_certs b))%bool.

(* ---------- tickets: key name (16) || IV (16) || AES-CTR(state) || HMAC-SHA256 (32) ----------- *)
Definition ticketKeyNameLen : nat := 16.
Definition aesBlockSize : nat := 16.
Definition sha256Size : nat := 32.

Record tkeyB := mkKeyB { kb_name : list byte; kb_aes : list byte; kb_hmac : list byte }.

Section TicketBytes.
  Variable ctr : list byte -> list byte -> list byte -> list byte.   (* key, iv, data: XORKeyStream *)
  Variable hmacf : list byte -> list byte -> list byte.               (* key, message *)

  (* func (c Conn) encryptTicket(state): the key is c.config.ticketKeys()[0], iv comes from rand *)
  Definition encryptTicket_bytes (keys : list tkeyB) (iv : list byte) (st : sstate) : outcome (list byte) :=
    match keys with
    | [] => Panic                                   (* ticketKeys()[0] on an empty slice *)
    | key :: _ =>
      let body := kb_name key ++ iv ++ ctr (kb_aes key) iv (marshal st) in
      Ok (body ++ hmacf (kb_hmac key) body)
    end.

  Fixpoint find_keyB (name : list byte) (keys : list tkeyB) (i : nat) : option (nat * tkeyB) :=
    match keys with
    | [] => None
    | k :: t => if bytes_eqb name (kb_name k) then Some (i, k) else find_keyB name t (S i)
    end.

  (* func (c Conn) decryptTicket(encrypted []byte) : state pointer, ok flag -- see ticket.go *)
  Definition decryptTicket_bytes (disabled : bool) (keys : list tkeyB) (enc : list byte) : outcome sstate :=
    if (disabled || Nat.ltb (length enc) (ticketKeyNameLen + aesBlockSize + sha256Size))%bool then Err 1
    else
      do keyName <- upto enc ticketKeyNameLen;
      do iv <- slice enc ticketKeyNameLen (ticketKeyNameLen + aesBlockSize);
      do macBytes <- from enc (length enc - sha256Size);
      match find_keyB keyName keys 0 with
      | None => Err 1
      | Some (keyIndex, key) =>
        do signed <- upto enc (length enc - sha256Size);
        if negb (bytes_eqb macBytes (hmacf (kb_hmac key) signed)) then Err 1
        else
          do ciphertext <- slice enc (ticketKeyNameLen + aesBlockSize) (length enc - sha256Size);
          let plaintext := ctr (kb_aes key) iv ciphertext in
          do st <- unmarshal plaintext;
          Ok (mkSS (ss_vers st) (ss_suite st) (ss_ms st) (ss_certs st) (Nat.ltb 0 keyIndex))
      end.
End TicketBytes.
