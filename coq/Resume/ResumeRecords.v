(* Record protection of a resumed connection.  A resumed handshake (doResumeHandshake on the server,
   processServerHello on the client) sets hs.masterSecret to the secret of the ticket / of the cached
   session and then runs the very establishKeys of a full handshake: keysFromMasterSecret over that master
   secret and the two fresh hello randoms.  So for any master secret (by the history invariant of C16 the one
   of the issuing full handshake), any randoms and any suite lengths, both ends cut the same key block and
   install it mirrored, and the record-layer round trip of C07 (Rec/RecordRoundtrip.v) applies to each
   direction exactly as after a full handshake. *)
From Coq Require Import List NArith Arith Bool Lia.
From GmsmVerif Require Import Lib.Outcome Rec.RecordSpec Rec.RecordModel Rec.RecordRoundtrip Agree.KeyModel.
Import ListNotations.
Close Scope N_scope.

(* the half connection one direction is protected with once ChangeCipherSpec has been processed:
   cipher key, MAC key and IV of that direction, sequence number seq *)
Definition half_conn (aead : bool) (vers : N) (h : half) (seq : list N) : halfConn :=
  let '(key, mk, iv) := h in
  mkHC false vers (if aead then CipherAEAD key iv else CipherCBC key iv) (if aead then None else Some mk) seq.

Lemma half_conn_same_keys : forall aead vers vers' h seq,
  same_keys (half_conn aead vers h seq) (half_conn aead vers' h seq).
Proof.
  intros aead vers vers' [[key mk] iv] seq. unfold half_conn, same_keys. cbn.
  destruct aead; cbn; repeat split; auto; discriminate.
Qed.

Section Resumed.
  Variable hmac : list N -> list N -> list N.
  Variable P : prims.
  Hypothesis HP : prims_ok P.

  (* both ends of a connection - resumed or not - that hold the master secret ms and saw the randoms cr, sr *)
  Theorem resumed_keys_agree : forall fuel ms cr sr macLen keyLen ivLen slices aead vers seq,
    keysFromMasterSecret_model hmac fuel ms cr sr macLen keyLen ivLen = Ok slices ->
    let c := establishKeys_client slices in
    let s := establishKeys_server slices in
    same_keys (half_conn aead vers (ck_out c) seq) (half_conn aead vers (ck_in s) seq)
    /\ same_keys (half_conn aead vers (ck_out s) seq) (half_conn aead vers (ck_in c) seq).
  Proof.
    intros fuel ms cr sr macLen keyLen ivLen [[[[[cm sm] ck] sk] ci] si] aead vers seq _.
    cbn [establishKeys_client establishKeys_server ck_in ck_out].
    split; apply half_conn_same_keys.
  Qed.

  (* ... hence every fragment one end seals is opened by the other, sequence numbers in step (C07) *)
  Theorem resumed_record_roundtrip : forall fuel ms cr sr macLen keyLen ivLen slices (aead : bool) s h3 eiv frag,
    keysFromMasterSecret_model hmac fuel ms cr sr macLen keyLen ivLen = Ok slices ->
    (s < 2 ^ 64 - 1)%N -> length h3 = 3 ->
    length eiv = (if aead then 8 else p_bs P) -> bytes_ok eiv -> bytes_ok frag ->
    (N.of_nat (length frag) + N.of_nat (p_macSize P) < 2 ^ 30)%N ->
    forall client_writes : bool,
    let c := establishKeys_client slices in
    let sv := establishKeys_server slices in
    let w := half_conn aead VersionGMSSL (if client_writes then ck_out c else ck_out sv) (be64 s) in
    let r := half_conn aead VersionGMSSL (if client_writes then ck_in sv else ck_in c) (be64 s) in
    exists w' rec_ r',
      encrypt P w (h3 ++ len_bytes (length frag) ++ eiv ++ frag) (length eiv) = Ok (w', rec_)
      /\ decrypt P r rec_ = Ok (r', Some frag)
      /\ hc_seq w' = be64 (s + 1) /\ hc_seq r' = be64 (s + 1) /\ same_keys w' r'.
  Proof.
    intros fuel ms cr sr macLen keyLen ivLen slices aead s h3 eiv frag Hk Hs Hh Hl Hbe Hbf Hlen client_writes c sv w r.
    destruct (resumed_keys_agree fuel ms cr sr macLen keyLen ivLen slices aead VersionGMSSL (be64 s) Hk) as (K1 & K2).
    assert (Hsame : same_keys w r) by (unfold w, r; destruct client_writes; [exact K1|exact K2]).
    assert (Hseq : hc_seq w = be64 s).
    { unfold w. destruct client_writes; [destruct (ck_out c) as [[? ?] ?]|destruct (ck_out sv) as [[? ?] ?]]; reflexivity. }
    assert (Hv : hc_version r = VersionGMSSL).
    { unfold r. destruct client_writes; [destruct (ck_in sv) as [[? ?] ?]|destruct (ck_in c) as [[? ?] ?]]; reflexivity. }
    assert (He : length eiv = explicit_len P (hc_cipher w)).
    { unfold w. destruct client_writes; [destruct (ck_out c) as [[? ?] ?]|destruct (ck_out sv) as [[? ?] ?]];
        cbn; destruct aead; exact Hl. }
    destruct (decrypt_encrypt_record_ok P HP w r s h3 eiv frag Hsame Hseq Hs Hv Hh He Hbe Hbf Hlen)
      as (w' & rec_ & r' & A & B & C & D & E & _).
    exists w', rec_, r'. auto.
  Qed.
End Resumed.
