(* Model of /repo/gmtls/common.go lruSessionCache (NewLRUClientSessionCache, Put, Get), function by
   function.  No proofs in this file.

   Go objects modelled:
     c.q  list.List of lruSessionCacheEntry{sessionKey, state}  -> [l_q] : list of (key, V), front first
     c.m  map[string]list.Element                                 -> [l_m] : list key  (the key set of the
                                                                     map; the element a key maps to is the
                                                                     entry of l_q carrying that key)
     c.capacity                                                   -> [l_cap]
   Keys are N (the driver numbers the session keys); V is the stored ClientSessionState pointer (a nil
   pointer is just another value: Put(key, nil) stores nil, it does not remove the entry). *)
From Coq Require Import List NArith Arith Bool.
Import ListNotations.

Section Lru.
  Context {V : Type}.

  Record lru := mkLru { l_cap : nat; l_m : list N; l_q : list (N * V) }.

  (* func NewLRUClientSessionCache(capacity int): capacity < 1 selects the default 64 *)
  Definition lru_new (capacity : nat) : lru :=
    mkLru (if Nat.ltb capacity 1 then 64 else capacity) [] [].

  Definition mem (k : N) (m : list N) : bool := existsb (N.eqb k) m.

  Fixpoint remove_key (k : N) (q : list (N * V)) : list (N * V) :=
    match q with
    | [] => []
    | (k', v) :: t => if N.eqb k k' then t else (k', v) :: remove_key k t
    end.

  Fixpoint find_key (k : N) (q : list (N * V)) : option V :=
    match q with
    | [] => None
    | (k', v) :: t => if N.eqb k k' then Some v else find_key k t
    end.

  Fixpoint remove_N (k : N) (m : list N) : list N :=
    match m with
    | [] => []
    | k' :: t => if N.eqb k k' then t else k' :: remove_N k t
    end.

  (* func (c lruSessionCache) Put(sessionKey string, cs *ClientSessionState) *)
  Definition lru_put (c : lru) (k : N) (v : V) : lru :=
    if mem k (l_m c) then
      (* entry.state = cs; c.q.MoveToFront(elem) *)
      mkLru (l_cap c) (l_m c) ((k, v) :: remove_key k (l_q c))
    else if Nat.ltb (length (l_q c)) (l_cap c) then
      (* c.m[sessionKey] = c.q.PushFront(entry) *)
      mkLru (l_cap c) (k :: l_m c) ((k, v) :: l_q c)
    else
      (* elem := c.q.Back(); delete(c.m, entry.sessionKey); entry.sessionKey = sessionKey;
         entry.state = cs; c.q.MoveToFront(elem); c.m[sessionKey] = elem *)
      match rev (l_q c) with
      | [] => mkLru (l_cap c) (k :: l_m c) [(k, v)]      (* capacity 0 cannot happen: lru_new *)
      | (kb, _) :: _ =>
        mkLru (l_cap c) (k :: remove_N kb (l_m c)) ((k, v) :: removelast (l_q c))
      end.

  (* func (c lruSessionCache) Get(sessionKey string): state pointer, found flag *)
  Definition lru_get (c : lru) (k : N) : option V * lru :=
    if mem k (l_m c) then
      match find_key k (l_q c) with
      | Some v => (Some v, mkLru (l_cap c) (l_m c) ((k, v) :: remove_key k (l_q c)))
      | None => (None, c)          (* unreachable: the map and the list hold the same keys *)
      end
    else (None, c).

  (* operation sequences *)
  Inductive lru_op := LPut (k : N) (v : V) | LGet (k : N).

  Definition lru_step (c : lru) (o : lru_op) : lru * option (option V) :=
    match o with
    | LPut k v => (lru_put c k v, None)
    | LGet k => let '(r, c') := lru_get c k in (c', Some r)
    end.

  Fixpoint lru_run (c : lru) (ops : list lru_op) : lru * list (option (option V)) :=
    match ops with
    | [] => (c, [])
    | o :: t => let '(c1, r) := lru_step c o in let '(c2, rs) := lru_run c1 t in (c2, r :: rs)
    end.
End Lru.
Arguments lru : clear implicits.
Arguments lru_op : clear implicits.
