(* C16, round 6: configurations derived from one another (Config.Clone(), GetConfigForClient children).
   In the model a server configuration is a VALUE in the list h_srv: Clone is "position dst becomes a copy of
   every field of position src", and every later operation addresses exactly one position.  The lemmas here say
   that each configuration answers by ITS OWN key history: operations on other positions - in particular
   SetSessionTicketKeys rotations on the parent after the clone was taken, or on the clone - never change it. *)
From Coq Require Import List NArith Arith Bool Lia.
From GmsmVerif Require Import Lib.Outcome Gen.TLSSuites Resume.LruModel Resume.ResumeModel.
Import ListNotations.

(* Clone as history operations: keys, suite list, ClientAuth and the disabled flag of dst are set to those of c *)
Definition clone_hops (c : scfg) (dst : nat) : list hop :=
  [RotateKeys dst (s_keys c); ChangeSuites dst (s_suites c); ChangeClientAuth dst (s_auth c);
   DisableTickets dst (s_disabled c)].

(* the configuration an operation writes to (connections and client-side forgeries write to none) *)
Definition hop_target (o : hop) : option nat :=
  match o with
  | RotateKeys i _ | ChangeSuites i _ | ChangeClientAuth i _ | DisableTickets i _ => Some i
  | _ => None
  end.

Lemma nth_error_update_nth_other : forall {A} (f : A -> A) l i j, i <> j ->
  nth_error (update_nth i f l) j = nth_error l j.
Proof.
  intros A f l. induction l as [|x t IH]; intros i j H; [destruct i; reflexivity|].
  destruct i, j; cbn; try reflexivity; [congruence|]. apply IH. congruence.
Qed.

Lemma nth_error_update_nth_same : forall {A} (f : A -> A) l i x, nth_error l i = Some x ->
  nth_error (update_nth i f l) i = Some (f x).
Proof.
  intros A f l. induction l as [|y t IH]; intros i x H; [destruct i; discriminate|].
  destruct i; cbn in *; [congruence|]. apply IH, H.
Qed.

Section Clone.
  Context {tagT : Type}.
  Variable mac : N -> N * N * sst -> tagT.
  Variable tag_eqb : tagT -> tagT -> bool.
  Variable junk : tagT.
  Local Notation hstepM := (hstep mac tag_eqb junk).
  Local Notation hrunM := (hrun mac tag_eqb junk).

  Lemma hstep_other_config : forall (h : hstate tagT) o j, hop_target o <> Some j ->
    nth_error (h_srv (hstepM h o)) j = nth_error (h_srv h) j.
  Proof.
    intros h o j H.
    destruct o; cbn [hstep hop_target] in *; unfold forge;
      repeat match goal with |- context [match ?x with _ => _ end] => destruct x end;
      cbn [h_srv]; try reflexivity; apply nth_error_update_nth_other; congruence.
  Qed.

  Lemma hrun_other_config : forall ops (h : hstate tagT) j, Forall (fun o => hop_target o <> Some j) ops ->
    nth_error (h_srv (hrunM h ops)) j = nth_error (h_srv h) j.
  Proof.
    induction ops as [|o t IH]; intros h j H; [reflexivity|].
    inversion H; subst. unfold hrun in *. cbn [fold_left]. rewrite IH by assumption. apply hstep_other_config. assumption.
  Qed.

  Lemma clone_is_copy : forall (h : hstate tagT) c d dst,
    nth_error (h_srv h) dst = Some d -> s_mode d = s_mode c -> s_prefer d = s_prefer c -> s_keys c <> [] ->
    nth_error (h_srv (hrunM h (clone_hops c dst))) dst = Some c.
  Proof.
    intros h [m su p a di ks] [m' su' p' a' di' ks'] dst Hd Hm Hp Hk. cbn in Hm, Hp, Hk. subst m' p'.
    unfold clone_hops, hrun. cbn [fold_left hstep s_keys s_suites s_auth s_disabled].
    destruct ks as [|k ks]; [congruence|]. cbn [h_srv].
    pose proof (nth_error_update_nth_same (fun s => mkS (s_mode s) (s_suites s) (s_prefer s) (s_auth s) (s_disabled s) (k :: ks)) _ _ _ Hd) as H1.
    pose proof (nth_error_update_nth_same (fun s => mkS (s_mode s) su (s_prefer s) (s_auth s) (s_disabled s) (s_keys s)) _ _ _ H1) as H2.
    pose proof (nth_error_update_nth_same (fun s => mkS (s_mode s) (s_suites s) (s_prefer s) a (s_disabled s) (s_keys s)) _ _ _ H2) as H3.
    pose proof (nth_error_update_nth_same (fun s => mkS (s_mode s) (s_suites s) (s_prefer s) (s_auth s) di (s_keys s)) _ _ _ H3) as H4.
    exact H4.
  Qed.

  (* after Clone, any operations that do not address the clone - rotations, suite / policy changes on the parent or on
     other configurations, connections anywhere, forgeries - leave the clone exactly the configuration it was cloned
     from (its keys included); with j := the parent's position the same statement protects the parent from the clone *)
  Theorem clone_own_key_history : forall (h : hstate tagT) c d dst ops,
    nth_error (h_srv h) dst = Some d -> s_mode d = s_mode c -> s_prefer d = s_prefer c -> s_keys c <> [] ->
    Forall (fun o => hop_target o <> Some dst) ops ->
    nth_error (h_srv (hrunM h (clone_hops c dst ++ ops))) dst = Some c.
  Proof.
    intros h c d dst ops Hd Hm Hp Hk Ho. unfold hrun. rewrite fold_left_app.
    change (nth_error (h_srv (hrunM (hrunM h (clone_hops c dst)) ops)) dst = Some c).
    rewrite hrun_other_config by assumption. eapply clone_is_copy; eassumption.
  Qed.
End Clone.
