(* Proofs about the model of lruSessionCache in Resume/LruModel.v.

   (A) LruSpec: a specification written from the English statement
         "a finite map with a recency order and a capacity bound: Get after Put returns the value put;
          at most [cap] entries; when a new key is put into a full cache the least recently used entry
          (Put and successful Get both count as a use) is evicted"
       It uses none of the model's functions (only the shared operation type lru_op).
   (B) lru_inv and the refinement theorem lru_refines_map: for every capacity and every operation
       sequence the model produces the same outputs as the specification, its queue IS the
       specification state, and lru_inv holds at the end.
   (C) Corollaries on the model functions lru_put / lru_get for every state satisfying lru_inv
       (hence, by (B), every reachable state).
   (D) Concrete runs. *)
From Coq Require Import List NArith Arith Bool Lia.
From GmsmVerif Require Import Resume.LruModel.
Import ListNotations.

(* ------------------------------------------------------------------------------------------ *)
(* (A) specification                                                                          *)
(* ------------------------------------------------------------------------------------------ *)
Section LruSpec.
  Context {V : Type}.

  (* abstract state: association list, most recently used first, keys pairwise distinct,
     never longer than the capacity *)
  Definition spec_state := list (N * V).

  Definition spec_keys (s : spec_state) : list N := map fst s.

  Fixpoint spec_lookup (k : N) (s : spec_state) : option V :=
    match s with
    | [] => None
    | e :: t => if N.eqb k (fst e) then Some (snd e) else spec_lookup k t
    end.

  Definition spec_del (k : N) (s : spec_state) : spec_state :=
    filter (fun e => negb (N.eqb k (fst e))) s.

  (* Put: an existing key is updated and becomes the most recently used; a new key is inserted at
     the front and only the [cap - 1] most recently used old entries are kept, i.e. the least
     recently used one is evicted exactly when the cache was full. *)
  Definition spec_put (cap : nat) (s : spec_state) (k : N) (v : V) : spec_state :=
    match spec_lookup k s with
    | Some _ => (k, v) :: spec_del k s
    | None => (k, v) :: firstn (cap - 1) s
    end.

  (* Get: a hit returns the value and makes the entry the most recently used; a miss changes
     nothing. *)
  Definition spec_get (s : spec_state) (k : N) : option V * spec_state :=
    match spec_lookup k s with
    | Some v => (Some v, (k, v) :: spec_del k s)
    | None => (None, s)
    end.

  Definition spec_step (cap : nat) (s : spec_state) (o : lru_op V)
    : spec_state * option (option V) :=
    match o with
    | LPut k v => (spec_put cap s k v, None)
    | LGet k => let '(r, s') := spec_get s k in (s', Some r)
    end.

  Fixpoint spec_run (cap : nat) (s : spec_state) (ops : list (lru_op V))
    : spec_state * list (option (option V)) :=
    match ops with
    | [] => (s, [])
    | o :: t =>
      let '(s1, r) := spec_step cap s o in
      let '(s2, rs) := spec_run cap s1 t in (s2, r :: rs)
    end.
End LruSpec.
Arguments spec_state : clear implicits.

(* ------------------------------------------------------------------------------------------ *)
(* proofs                                                                                     *)
(* ------------------------------------------------------------------------------------------ *)
Section LruProofs.
  Context {V : Type}.

  Implicit Types (q s : list (N * V)) (m : list N) (k : N) (v : V) (c : lru V).

  (* ---------- facts about the specification's own vocabulary ---------- *)

  Lemma spec_lookup_None_iff : forall k s, spec_lookup k s = None <-> ~ In k (spec_keys s).
  Proof.
    intros k s. unfold spec_keys. induction s as [|[k' v'] t IH]; cbn [spec_lookup map fst snd In].
    - split; [intros _ H; exact H | reflexivity].
    - destruct (N.eqb_spec k k') as [E|E].
      + split; [discriminate | intros H; exfalso; apply H; left; symmetry; exact E].
      + rewrite IH. split.
        * intros H [H1|H1]; [apply E; symmetry; exact H1 | exact (H H1)].
        * intros H H1. apply H. right. exact H1.
  Qed.

  Lemma spec_lookup_Some_In : forall k s v, spec_lookup k s = Some v -> In k (spec_keys s).
  Proof.
    intros k s v H. destruct (in_dec N.eq_dec k (spec_keys s)) as [I|I]; [exact I|].
    apply spec_lookup_None_iff in I. congruence.
  Qed.

  Lemma spec_del_keys : forall k s x,
    In x (spec_keys (spec_del k s)) <-> In x (spec_keys s) /\ x <> k.
  Proof.
    intros k s x. unfold spec_keys, spec_del.
    induction s as [|[k' v'] t IH]; cbn [filter map fst In].
    - split; [intros [] | intros [[] _]].
    - destruct (N.eqb_spec k k') as [E|E]; cbn [negb map fst In].
      + rewrite IH. subst k'. split.
        * intros [H1 H2]. split; [right; exact H1 | exact H2].
        * intros [[H1|H1] H2]; [exfalso; apply H2; symmetry; exact H1 | split; assumption].
      + rewrite IH. split.
        * intros [H1|[H1 H2]].
          -- split; [left; exact H1 | intros H2; apply E; rewrite <- H2; symmetry; exact H1].
          -- split; [right; exact H1 | exact H2].
        * intros [[H1|H1] H2]; [left; exact H1 | right; split; assumption].
  Qed.

  Lemma spec_del_notin : forall k s, ~ In k (spec_keys s) -> spec_del k s = s.
  Proof.
    intros k s. unfold spec_keys, spec_del.
    induction s as [|[k' v'] t IH]; cbn [filter map fst In]; intros H; [reflexivity|].
    destruct (N.eqb_spec k k') as [E|E]; cbn [negb].
    - exfalso. apply H. left. symmetry. exact E.
    - f_equal. apply IH. intros H1. apply H. right. exact H1.
  Qed.

  Lemma spec_del_nodup : forall k s, NoDup (spec_keys s) -> NoDup (spec_keys (spec_del k s)).
  Proof.
    intros k s. induction s as [|[k' v'] t IH]; intros H.
    - exact H.
    - unfold spec_keys in H. cbn [map fst] in H. inversion H as [|x l Hx Hl]; subst.
      unfold spec_del. cbn [filter fst].
      destruct (N.eqb_spec k k') as [E|E]; cbn [negb].
      + apply IH. exact Hl.
      + unfold spec_keys. cbn [map fst]. constructor.
        * intros H1. apply (spec_del_keys k t k') in H1. apply Hx. exact (proj1 H1).
        * apply IH. exact Hl.
  Qed.

  Lemma spec_del_length : forall k s,
    NoDup (spec_keys s) -> In k (spec_keys s) -> S (length (spec_del k s)) = length s.
  Proof.
    intros k s. induction s as [|[k' v'] t IH]; intros Hnd Hin.
    - destruct Hin.
    - unfold spec_keys in Hnd, Hin. cbn [map fst In] in Hnd, Hin.
      inversion Hnd as [|x l Hx Hl]; subst.
      unfold spec_del. cbn [filter fst].
      destruct (N.eqb_spec k k') as [E|E]; cbn [negb length].
      + subst k'. fold (spec_del k t). rewrite spec_del_notin by exact Hx. reflexivity.
      + fold (spec_del k t). f_equal. apply IH; [exact Hl|].
        destruct Hin as [H1|H1]; [exfalso; apply E; symmetry; exact H1 | exact H1].
  Qed.

  Lemma spec_lookup_del_other : forall k k' s, k <> k' -> spec_lookup k' (spec_del k s) = spec_lookup k' s.
  Proof.
    intros k k' s Hne. unfold spec_del.
    induction s as [|[k1 v1] t IH]; cbn [filter spec_lookup fst snd]; [reflexivity|].
    destruct (N.eqb_spec k k1) as [E|E]; cbn [negb spec_lookup fst snd].
    - subst k1. destruct (N.eqb_spec k' k) as [E'|E']; [exfalso; apply Hne; symmetry; exact E' | exact IH].
    - destruct (N.eqb k' k1); [reflexivity | exact IH].
  Qed.

  (* The specification does what the English says (sanity of the specification itself). *)
  Lemma spec_get_after_put : forall cap s k v,
    fst (spec_get (spec_put cap s k v) k) = Some v.
  Proof.
    intros cap s k v. unfold spec_get, spec_put.
    destruct (spec_lookup k s); cbn [spec_lookup fst snd]; rewrite N.eqb_refl; reflexivity.
  Qed.

  Lemma spec_put_length : forall cap s k v,
    1 <= cap -> NoDup (spec_keys s) -> length s <= cap -> length (spec_put cap s k v) <= cap.
  Proof.
    intros cap s k v Hc Hnd Hl. unfold spec_put. destruct (spec_lookup k s) eqn:E; cbn [length].
    - apply spec_lookup_Some_In in E. pose proof (spec_del_length k s Hnd E). lia.
    - rewrite firstn_length. lia.
  Qed.

  (* ---------- the model's list functions in the specification's vocabulary ---------- *)

  Lemma mem_In : forall k m, mem k m = true <-> In k m.
  Proof.
    intros k m. unfold mem. rewrite existsb_exists. split.
    - intros (x & Hx & E). apply N.eqb_eq in E. subst x. exact Hx.
    - intros H. exists k. split; [exact H | apply N.eqb_refl].
  Qed.

  Lemma mem_false_In : forall k m, mem k m = false <-> ~ In k m.
  Proof.
    intros k m. rewrite <- mem_In. destruct (mem k m); split; congruence.
  Qed.

  Lemma find_key_lookup : forall k q, find_key k q = spec_lookup k q.
  Proof.
    intros k q. induction q as [|[k' v'] t IH]; cbn [find_key spec_lookup fst snd]; [reflexivity|].
    destruct (N.eqb k k'); [reflexivity | exact IH].
  Qed.

  Lemma remove_key_del : forall k q, NoDup (map fst q) -> remove_key k q = spec_del k q.
  Proof.
    intros k q. induction q as [|[k' v'] t IH]; intros H; [reflexivity|].
    cbn [map fst] in H. inversion H as [|x l Hx Hl]; subst.
    unfold spec_del. cbn [remove_key filter fst].
    destruct (N.eqb_spec k k') as [E|E]; cbn [negb].
    - subst k'. fold (spec_del k t). symmetry. apply spec_del_notin. exact Hx.
    - fold (spec_del k t). f_equal. apply IH. exact Hl.
  Qed.

  Lemma find_key_remove_other : forall k k' q, k <> k' -> find_key k' (remove_key k q) = find_key k' q.
  Proof.
    intros k k' q Hne. induction q as [|[k1 v1] t IH]; cbn [remove_key find_key]; [reflexivity|].
    destruct (N.eqb_spec k k1) as [E|E]; cbn [find_key].
    - subst k1. destruct (N.eqb_spec k' k) as [E'|E']; [exfalso; apply Hne; symmetry; exact E' | reflexivity].
    - destruct (N.eqb k' k1); [reflexivity | exact IH].
  Qed.

  Lemma find_key_app : forall k q1 q2,
    find_key k (q1 ++ q2) = match find_key k q1 with Some v => Some v | None => find_key k q2 end.
  Proof.
    intros k q1 q2. induction q1 as [|[k1 v1] t IH]; cbn [app find_key]; [reflexivity|].
    destruct (N.eqb k k1); [reflexivity | exact IH].
  Qed.

  Lemma remove_N_spec : forall kb m, NoDup m ->
    NoDup (remove_N kb m) /\ (forall x, In x (remove_N kb m) <-> In x m /\ x <> kb).
  Proof.
    intros kb m. induction m as [|k' t IH]; intros H; cbn [remove_N].
    - split; [constructor|]. intros x. split; [intros [] | intros [[] _]].
    - inversion H as [|x l Hx Hl]; subst. destruct (IH Hl) as [IH1 IH2].
      destruct (N.eqb_spec kb k') as [E|E].
      + subst k'. split; [exact Hl|]. intros x. cbn [In]. split.
        * intros H1. split; [right; exact H1 | intros H2; subst x; exact (Hx H1)].
        * intros [[H1|H1] H2]; [exfalso; apply H2; symmetry; exact H1 | exact H1].
      + split.
        * constructor; [|exact IH1]. intros H1. apply IH2 in H1. exact (Hx (proj1 H1)).
        * intros x. cbn [In]. rewrite IH2. split.
          -- intros [H1|[H1 H2]].
             ++ split; [left; exact H1 | intros H2; apply E; rewrite <- H2; symmetry; exact H1].
             ++ split; [right; exact H1 | exact H2].
          -- intros [[H1|H1] H2]; [left; exact H1 | right; split; assumption].
  Qed.

  Lemma NoDup_snoc : forall (A : Type) (l : list A) (a : A), NoDup (l ++ [a]) -> NoDup l /\ ~ In a l.
  Proof.
    intros A l a H. apply NoDup_remove in H. rewrite app_nil_r in H. exact H.
  Qed.

  (* a non-empty queue seen from its back, as Put's eviction branch sees it *)
  Lemma rev_cons_snoc : forall (A : Type) (l r : list A) (a : A), rev l = a :: r -> l = rev r ++ [a].
  Proof.
    intros A l r a H. rewrite <- (rev_involutive l), H. reflexivity.
  Qed.

  (* ---------- (B) invariant and refinement ---------- *)

  Definition lru_inv (c : lru V) : Prop :=
    1 <= l_cap c /\ length (l_q c) <= l_cap c /\ NoDup (map fst (l_q c)) /\ NoDup (l_m c)
    /\ (forall k, In k (l_m c) <-> In k (map fst (l_q c))).

  Lemma lru_new_inv : forall capacity, lru_inv (lru_new capacity).
  Proof.
    intros capacity. unfold lru_inv, lru_new. cbn [l_cap l_q l_m map length].
    split; [destruct (Nat.ltb_spec capacity 1); lia|].
    split; [lia|]. split; [constructor|]. split; [constructor|]. intros k. reflexivity.
  Qed.

  (* one Put: same new queue as the specification, invariant kept, capacity unchanged *)
  Lemma lru_put_sim : forall c k v, lru_inv c ->
    l_q (lru_put c k v) = spec_put (l_cap c) (l_q c) k v
    /\ lru_inv (lru_put c k v) /\ l_cap (lru_put c k v) = l_cap c.
  Proof.
    intros [cap m q] k v (Hcap & Hlen & Hndq & Hndm & Hiff). cbn [l_cap l_m l_q] in *.
    unfold lru_put, spec_put, lru_inv. cbn [l_cap l_m l_q].
    destruct (mem k m) eqn:Hm.
    - (* update + move to front *)
      apply mem_In in Hm. apply Hiff in Hm.
      destruct (spec_lookup k q) eqn:Hf.
      2:{ apply spec_lookup_None_iff in Hf. contradiction. }
      cbn [l_cap l_m l_q]. rewrite (remove_key_del k q Hndq).
      split; [reflexivity|]. split; [|reflexivity].
      split; [exact Hcap|]. split.
      { cbn [length]. pose proof (spec_del_length k q Hndq Hm). lia. }
      split.
      { cbn [map fst]. constructor.
        - intros H. apply (spec_del_keys k q k) in H. apply (proj2 H). reflexivity.
        - apply (spec_del_nodup k q Hndq). }
      split; [exact Hndm|].
      intros x. rewrite Hiff. cbn [map fst In]. split.
      + intros H. destruct (N.eq_dec k x) as [E|E]; [left; exact E|].
        right. apply (spec_del_keys k q x). split; [exact H | intros E'; apply E; symmetry; exact E'].
      + intros [H|H]; [subst x; exact Hm | exact (proj1 (proj1 (spec_del_keys k q x) H))].
    - apply mem_false_In in Hm.
      assert (Hq : ~ In k (map fst q)) by (intros H; apply Hm, Hiff, H).
      destruct (spec_lookup k q) eqn:Hf.
      { apply spec_lookup_Some_In in Hf. contradiction. }
      destruct (Nat.ltb_spec (length q) cap) as [Hlt|Hge].
      + (* push front, nothing evicted *)
        cbn [l_cap l_m l_q]. rewrite firstn_all2 by lia.
        split; [reflexivity|]. split; [|reflexivity].
        split; [exact Hcap|]. split; [cbn [length]; lia|].
        split; [cbn [map fst]; constructor; assumption|].
        split; [constructor; assumption|].
        intros x. cbn [map fst In]. rewrite Hiff. reflexivity.
      + (* full: reuse the back element *)
        destruct (rev q) as [|[kb vb] r] eqn:Hr.
        { apply (f_equal (@length _)) in Hr. rewrite rev_length in Hr. cbn [length] in Hr. lia. }
        apply rev_cons_snoc in Hr. set (q' := rev r) in *. subst q.
        rewrite removelast_last. cbn [l_cap l_m l_q].
        rewrite app_length in Hlen, Hge. cbn [length] in Hlen, Hge.
        replace (cap - 1) with (length q' + 0) by lia.
        rewrite firstn_app_2. cbn [firstn]. rewrite app_nil_r.
        split; [reflexivity|]. split; [|reflexivity].
        rewrite map_app in Hndq, Hq, Hiff. cbn [map fst] in Hndq, Hq, Hiff.
        destruct (NoDup_snoc _ _ _ Hndq) as [Hnd' Hkb].
        destruct (remove_N_spec kb m Hndm) as [HndR HinR].
        assert (Hkkb : k <> kb).
        { intros E. apply Hq. apply in_or_app. right. left. symmetry. exact E. }
        split; [exact Hcap|]. split; [cbn [length]; lia|].
        split.
        { cbn [map fst]. constructor; [|exact Hnd']. intros H. apply Hq. apply in_or_app. left. exact H. }
        split.
        { constructor; [|exact HndR]. intros H. apply HinR in H. exact (Hm (proj1 H)). }
        intros x. cbn [map fst In]. rewrite HinR, Hiff. split.
        * intros [H|[H1 H2]]; [left; exact H|]. right.
          apply in_app_or in H1. destruct H1 as [H1|[H1|[]]]; [exact H1 | exfalso; apply H2; symmetry; exact H1].
        * intros [H|H]; [left; exact H|]. right. split.
          -- apply in_or_app. left. exact H.
          -- intros E. subst x. exact (Hkb H).
  Qed.

  (* one Get: same result and same new queue as the specification, invariant kept *)
  Lemma lru_get_sim : forall c k, lru_inv c ->
    fst (lru_get c k) = fst (spec_get (l_q c) k)
    /\ l_q (snd (lru_get c k)) = snd (spec_get (l_q c) k)
    /\ lru_inv (snd (lru_get c k)) /\ l_cap (snd (lru_get c k)) = l_cap c.
  Proof.
    intros [cap m q] k Hinv. pose proof Hinv as (Hcap & Hlen & Hndq & Hndm & Hiff).
    cbn [l_cap l_m l_q] in *.
    unfold lru_get, spec_get. cbn [l_cap l_m l_q]. rewrite find_key_lookup.
    destruct (mem k m) eqn:Hm.
    - apply mem_In in Hm. apply Hiff in Hm.
      destruct (spec_lookup k q) as [v|] eqn:Hf.
      2:{ apply spec_lookup_None_iff in Hf. contradiction. }
      cbn [fst snd l_cap l_m l_q]. rewrite (remove_key_del k q Hndq).
      split; [reflexivity|]. split; [reflexivity|]. split; [|reflexivity].
      unfold lru_inv. cbn [l_cap l_m l_q].
      split; [exact Hcap|]. split.
      { cbn [length]. pose proof (spec_del_length k q Hndq Hm). lia. }
      split.
      { cbn [map fst]. constructor.
        - intros H. apply (spec_del_keys k q k) in H. apply (proj2 H). reflexivity.
        - apply (spec_del_nodup k q Hndq). }
      split; [exact Hndm|].
      intros x. rewrite Hiff. cbn [map fst In]. split.
      + intros H. destruct (N.eq_dec k x) as [E|E]; [left; exact E|].
        right. apply (spec_del_keys k q x). split; [exact H | intros E'; apply E; symmetry; exact E'].
      + intros [H|H]; [subst x; exact Hm | exact (proj1 (proj1 (spec_del_keys k q x) H))].
    - apply mem_false_In in Hm.
      assert (Hq : ~ In k (map fst q)) by (intros H; apply Hm, Hiff, H).
      destruct (spec_lookup k q) eqn:Hf.
      { apply spec_lookup_Some_In in Hf. contradiction. }
      cbn [fst snd l_cap l_m l_q]. repeat split; try assumption; apply Hiff; assumption.
  Qed.

  Lemma lru_step_sim : forall c o, lru_inv c ->
    snd (lru_step c o) = snd (spec_step (l_cap c) (l_q c) o)
    /\ l_q (fst (lru_step c o)) = fst (spec_step (l_cap c) (l_q c) o)
    /\ lru_inv (fst (lru_step c o)) /\ l_cap (fst (lru_step c o)) = l_cap c.
  Proof.
    intros c [k v|k] Hinv; unfold lru_step, spec_step.
    - destruct (lru_put_sim c k v Hinv) as (H1 & H2 & H3). cbn [fst snd].
      split; [reflexivity|]. split; [exact H1|]. split; [exact H2 | exact H3].
    - destruct (lru_get_sim c k Hinv) as (H1 & H2 & H3 & H4).
      destruct (lru_get c k) as [r c']. destruct (spec_get (l_q c) k) as [r' s'].
      cbn [fst snd] in *. subst r'. split; [reflexivity|]. split; [exact H2|]. split; [exact H3 | exact H4].
  Qed.

  (* the generalised refinement: from ANY state satisfying the invariant *)
  Lemma lru_run_sim : forall ops c, lru_inv c ->
    snd (lru_run c ops) = snd (spec_run (l_cap c) (l_q c) ops)
    /\ l_q (fst (lru_run c ops)) = fst (spec_run (l_cap c) (l_q c) ops)
    /\ lru_inv (fst (lru_run c ops)) /\ l_cap (fst (lru_run c ops)) = l_cap c.
  Proof.
    induction ops as [|o t IH]; intros c Hinv; cbn [lru_run spec_run].
    - cbn [fst snd]. split; [reflexivity|]. split; [reflexivity|]. split; [exact Hinv | reflexivity].
    - destruct (lru_step_sim c o Hinv) as (H1 & H2 & H3 & H4).
      destruct (lru_step c o) as [c1 r]. destruct (spec_step (l_cap c) (l_q c) o) as [s1 r'].
      cbn [fst snd] in *. subst r' s1.
      destruct (IH c1 H3) as (I1 & I2 & I3 & I4). rewrite H4 in I1, I2.
      destruct (lru_run c1 t) as [c2 rs]. destruct (spec_run (l_cap c) (l_q c1) t) as [s2 rs'].
      cbn [fst snd] in *. subst rs' s2.
      split; [reflexivity|]. split; [reflexivity|]. split; [exact I3 | congruence].
  Qed.

  Theorem lru_refines_map : forall (capacity : nat) (ops : list (lru_op V)),
    let cap := if Nat.ltb capacity 1 then 64 else capacity in
    let '(c, outs) := lru_run (lru_new capacity) ops in
    let '(s, souts) := spec_run cap [] ops in
    outs = souts /\ l_q c = s /\ lru_inv c.
  Proof.
    intros capacity ops cap.
    destruct (lru_run_sim ops (lru_new capacity) (lru_new_inv capacity)) as (H1 & H2 & H3 & _).
    change (l_cap (lru_new capacity)) with cap in H1, H2.
    change (l_q (lru_new capacity)) with (@nil (N * V)) in H1, H2.
    destruct (lru_run (lru_new capacity) ops) as [c outs].
    destruct (spec_run cap [] ops) as [s souts]. cbn [fst snd] in *.
    split; [exact H1|]. split; [exact H2 | exact H3].
  Qed.

  (* every reachable state satisfies the invariant *)
  Corollary lru_reachable_inv : forall capacity ops, lru_inv (fst (lru_run (lru_new capacity) ops)).
  Proof.
    intros capacity ops.
    exact (proj1 (proj2 (proj2 (lru_run_sim ops (lru_new capacity) (lru_new_inv capacity))))).
  Qed.

  (* ---------- (C) corollaries on the model functions ---------- *)

  (* Get after Put returns the value put (holds in every state, the invariant is not even needed) *)
  Lemma lru_get_after_put_gen : forall c k v, fst (lru_get (lru_put c k v) k) = Some v.
  Proof.
    intros c k v. unfold lru_put.
    destruct (mem k (l_m c)) eqn:Hm.
    - unfold lru_get. cbn [l_cap l_m l_q find_key]. rewrite Hm, N.eqb_refl. reflexivity.
    - assert (Hk : forall m', mem k (k :: m') = true).
      { intros m'. unfold mem. cbn [existsb]. rewrite N.eqb_refl. reflexivity. }
      destruct (Nat.ltb (length (l_q c)) (l_cap c)); [|destruct (rev (l_q c)) as [|[kb vb] r]];
        unfold lru_get; cbn [l_cap l_m l_q find_key]; rewrite Hk, N.eqb_refl; reflexivity.
  Qed.

  Corollary lru_get_after_put : forall c k v, lru_inv c -> fst (lru_get (lru_put c k v) k) = Some v.
  Proof. intros c k v _. apply lru_get_after_put_gen. Qed.

  (* at most [cap] entries, after Put and after Get *)
  Corollary lru_capacity_bound : forall c k v, lru_inv c -> length (l_q (lru_put c k v)) <= l_cap c.
  Proof.
    intros c k v Hinv. destruct (lru_put_sim c k v Hinv) as (_ & (_ & H & _) & E).
    rewrite E in H. exact H.
  Qed.

  Corollary lru_put_cap : forall c k v, l_cap (lru_put c k v) = l_cap c.
  Proof.
    intros c k v. unfold lru_put. destruct (mem k (l_m c)); [reflexivity|].
    destruct (Nat.ltb (length (l_q c)) (l_cap c)); [reflexivity|].
    destruct (rev (l_q c)) as [|[kb vb] r]; reflexivity.
  Qed.

  Corollary lru_get_length : forall c k, lru_inv c -> length (l_q (snd (lru_get c k))) = length (l_q c).
  Proof.
    intros c k Hinv. destruct (lru_get_sim c k Hinv) as (_ & H & _ & _). rewrite H.
    destruct Hinv as (_ & _ & Hndq & _ & _).
    unfold spec_get. destruct (spec_lookup k (l_q c)) eqn:Hf; cbn [snd length]; [|reflexivity].
    apply spec_lookup_Some_In in Hf. apply (spec_del_length k (l_q c) Hndq Hf).
  Qed.

  Corollary lru_get_cap : forall c k, l_cap (snd (lru_get c k)) = l_cap c.
  Proof.
    intros c k. unfold lru_get. destruct (mem k (l_m c)); [|reflexivity].
    destruct (find_key k (l_q c)); reflexivity.
  Qed.

  (* no eviction while not full, or when updating an existing key *)
  Corollary lru_put_other_kept : forall c k k' v, lru_inv c -> k <> k' ->
    length (l_q c) < l_cap c \/ In k (l_m c) ->
    find_key k' (l_q (lru_put c k v)) = find_key k' (l_q c).
  Proof.
    intros c k k' v _ Hne Hor. unfold lru_put.
    assert (Hkk : N.eqb k' k = false) by (apply N.eqb_neq; intros E; apply Hne; symmetry; exact E).
    destruct (mem k (l_m c)) eqn:Hm.
    - cbn [l_q find_key]. rewrite Hkk. apply find_key_remove_other. exact Hne.
    - apply mem_false_In in Hm. destruct Hor as [Hlt|Hin]; [|contradiction].
      apply Nat.ltb_lt in Hlt. rewrite Hlt. cbn [l_q find_key]. rewrite Hkk. reflexivity.
  Qed.

  (* a new key put into a full cache drops exactly the last (least recently used) entry of the
     queue and keeps every other entry *)
  Corollary lru_evicts_least_recent : forall c k v, lru_inv c -> ~ In k (l_m c) ->
    length (l_q c) = l_cap c ->
    forall k', k' <> k ->
      find_key k' (l_q (lru_put c k v))
      = if N.eqb k' (fst (last (l_q c) (k, v))) then None else find_key k' (l_q c).
  Proof.
    intros [cap m q] k v (Hcap & Hlen & Hndq & Hndm & Hiff) Hm Hfull k' Hne.
    cbn [l_cap l_m l_q] in *. unfold lru_put. cbn [l_cap l_m l_q].
    apply mem_false_In in Hm. rewrite Hm.
    destruct (Nat.ltb_spec (length q) cap) as [Hlt|_]; [lia|].
    destruct (rev q) as [|[kb vb] r] eqn:Hr.
    { apply (f_equal (@length _)) in Hr. rewrite rev_length in Hr. cbn [length] in Hr. lia. }
    apply rev_cons_snoc in Hr. set (q' := rev r) in *. subst q.
    rewrite removelast_last, last_last. cbn [l_q find_key fst].
    assert (Hkk : N.eqb k' k = false) by (apply N.eqb_neq; exact Hne).
    rewrite Hkk, find_key_app. cbn [find_key].
    rewrite map_app in Hndq. cbn [map fst] in Hndq.
    destruct (NoDup_snoc _ _ _ Hndq) as [_ Hkb].
    destruct (N.eqb_spec k' kb) as [E|E].
    - subst k'. rewrite find_key_lookup. apply spec_lookup_None_iff. exact Hkb.
    - destruct (find_key k' q'); reflexivity.
  Qed.

  (* the evicted key is really gone from the map, too, and is the only one to go *)
  Corollary lru_evicts_least_recent_keys : forall c k v, lru_inv c -> ~ In k (l_m c) ->
    length (l_q c) = l_cap c ->
    forall k', In k' (l_m (lru_put c k v))
               <-> k' = k \/ (In k' (l_m c) /\ k' <> fst (last (l_q c) (k, v))).
  Proof.
    intros [cap m q] k v (Hcap & Hlen & Hndq & Hndm & Hiff) Hm Hfull k'.
    cbn [l_cap l_m l_q] in *. unfold lru_put. cbn [l_cap l_m l_q].
    apply mem_false_In in Hm. rewrite Hm.
    destruct (Nat.ltb_spec (length q) cap) as [Hlt|_]; [lia|].
    destruct (rev q) as [|[kb vb] r] eqn:Hr.
    { apply (f_equal (@length _)) in Hr. rewrite rev_length in Hr. cbn [length] in Hr. lia. }
    apply rev_cons_snoc in Hr. subst q. rewrite last_last. cbn [l_m fst In].
    destruct (remove_N_spec kb m Hndm) as [_ HinR]. rewrite HinR.
    split; (intros [H|H]; [left; symmetry; exact H | right; exact H]).
  Qed.

  (* a miss changes nothing *)
  Corollary lru_get_miss_unchanged : forall c k, fst (lru_get c k) = None -> snd (lru_get c k) = c.
  Proof.
    intros c k. unfold lru_get. destruct (mem k (l_m c)); [|reflexivity].
    destruct (find_key k (l_q c)); cbn [fst snd]; [discriminate | reflexivity].
  Qed.

  (* a hit moves the entry to the front: it becomes the most recently used (holds in every state) *)
  Lemma lru_get_touches_gen : forall c k v, fst (lru_get c k) = Some v ->
    l_q (snd (lru_get c k)) = (k, v) :: remove_key k (l_q c).
  Proof.
    intros c k v. unfold lru_get. destruct (mem k (l_m c)); [|discriminate].
    destruct (find_key k (l_q c)); cbn [fst snd l_q]; [|discriminate].
    intros H. injection H as H. subst. reflexivity.
  Qed.

  Corollary lru_get_touches : forall c k v, lru_inv c -> fst (lru_get c k) = Some v ->
    l_q (snd (lru_get c k)) = (k, v) :: remove_key k (l_q c).
  Proof. intros c k v _. apply lru_get_touches_gen. Qed.

  (* a hit returns the stored value, a key is found iff it is in the map (needs the invariant) *)
  Corollary lru_get_is_lookup : forall c k, lru_inv c -> fst (lru_get c k) = find_key k (l_q c).
  Proof.
    intros c k Hinv. destruct (lru_get_sim c k Hinv) as (H & _). rewrite H, find_key_lookup.
    unfold spec_get. destruct (spec_lookup k (l_q c)); reflexivity.
  Qed.
End LruProofs.

Print Assumptions lru_refines_map.
Print Assumptions lru_reachable_inv.
Print Assumptions lru_get_after_put.
Print Assumptions lru_capacity_bound.
Print Assumptions lru_get_length.
Print Assumptions lru_put_other_kept.
Print Assumptions lru_evicts_least_recent.
Print Assumptions lru_evicts_least_recent_keys.
Print Assumptions lru_get_miss_unchanged.
Print Assumptions lru_get_touches.
Print Assumptions lru_get_is_lookup.
Print Assumptions spec_get_after_put.
Print Assumptions spec_put_length.

(* ------------------------------------------------------------------------------------------ *)
(* (D) concrete runs, V := N                                                                  *)
(* ------------------------------------------------------------------------------------------ *)
(* capacity 2: put 1, put 2, get 1 (hit, touches 1), put 3 evicts 2 (not 1); get 2 misses, get 1 hits *)
Example lru_example_evict :
  lru_run (lru_new 2)
    [LPut 1%N 10%N; LPut 2%N 20%N; LGet 1%N; LPut 3%N 30%N; LGet 2%N; LGet 1%N]
  = (mkLru 2 [3%N; 1%N] [(1%N, 10%N); (3%N, 30%N)],
     [None; None; Some (Some 10%N); None; Some None; Some (Some 10%N)]).
Proof. vm_compute. reflexivity. Qed.

(* the same run through the specification *)
Example spec_example_evict :
  spec_run 2 []
    [LPut 1%N 10%N; LPut 2%N 20%N; LGet 1%N; LPut 3%N 30%N; LGet 2%N; LGet 1%N]
  = ([(1%N, 10%N); (3%N, 30%N)],
     [None; None; Some (Some 10%N); None; Some None; Some (Some 10%N)]).
Proof. vm_compute. reflexivity. Qed.

(* without the get, 1 is the least recently used and is the one evicted; an update (put 2 again)
   does not evict and replaces the value; capacity 0 selects the default 64 *)
Example lru_example_no_touch :
  lru_run (lru_new 2)
    [LPut 1%N 10%N; LPut 2%N 20%N; LPut 2%N 21%N; LPut 3%N 30%N; LGet 1%N; LGet 2%N]
  = (mkLru 2 [3%N; 2%N] [(2%N, 21%N); (3%N, 30%N)],
     [None; None; None; None; Some None; Some (Some 21%N)]).
Proof. vm_compute. reflexivity. Qed.

Example lru_example_default_cap : l_cap (@lru_new N 0) = 64.
Proof. vm_compute. reflexivity. Qed.
