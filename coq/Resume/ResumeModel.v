(* Symbolic model of gmtls session resumption: the ticket gate (ticket.go decryptTicket), the server's
   resumption decision (checkForResumption in gm_handshake_server_double.go and handshake_server.go),
   suite and version negotiation, client-certificate policy, the abbreviated and the full handshake as
   far as their outcome is concerned, the client's session lookup/update (handshake_client.go
   clientHandshake) over the LRU cache model, and the history machine that strings connections and
   configuration changes together.  No proofs in this file.

   Cryptographic values are symbolic: a master secret is the number of the full handshake that
   created it, a ticket key is a number (its name, AES key and HMAC key are all determined by it), a
   ticket is (key name, nonce, state, tag) and the tag is an element of an abstract type produced by
   [mac].  Certificates are small numbers (0 = none).  The suite tables and protocol constants come
   from Gen/TLSSuites.v (regenerated from /repo on every run). *)
From Coq Require Import List NArith Arith Bool.
From GmsmVerif Require Import Lib.Outcome Gen.TLSSuites Resume.LruModel.
Import ListNotations.
Open Scope N_scope.

(* ---------- suite tables --------------------------------------------------------------------- *)
Definition row_id (r : list N) : N := nth 0 r 0.
Definition row_keyLen (r : list N) : N := nth 1 r 0.
Definition row_macLen (r : list N) : N := nth 2 r 0.
Definition row_ivLen (r : list N) : N := nth 3 r 0.
Definition row_flags (r : list N) : N := nth 4 r 0.
Definition row_aead (r : list N) : N := nth 5 r 0.

Definition lookup_suite (tbl : list (list N)) (id : N) : option (list N) :=
  find (fun r => N.eqb (row_id r) id) tbl.
Definition has_flag (flags f : N) : bool := negb (N.eqb (N.land flags f) 0).
Definition memN (x : N) (l : list N) : bool := existsb (N.eqb x) l.

(* common.go initDefaultCipherSuites: topCipherSuites, then every table entry that is not
   suiteDefaultOff and not already listed *)
Fixpoint add_missing (acc ids : list N) : list N :=
  match ids with
  | [] => acc
  | i :: t => add_missing (if memN i acc then acc else acc ++ [i]) t
  end.
Definition defaultCipherSuites : list N :=
  add_missing gen_topCipherSuites
    (map row_id (filter (fun r => negb (has_flag (row_flags r) gen_suiteDefaultOff)) gen_cipherSuites)).

(* ---------- configurations ------------------------------------------------------------------- *)
Inductive smode := SGM | SAuto | STLS.

Record scfg := mkS {
  s_mode : smode;
  s_suites : option (list N);      (* Config.CipherSuites; None = nil *)
  s_prefer : bool;                 (* PreferServerCipherSuites *)
  s_auth : N;                      (* ClientAuth 0..4 *)
  s_disabled : bool;               (* SessionTicketsDisabled *)
  s_keys : list N }.               (* ticket keys, first encrypts *)

Inductive ckind := CG | CT (maxvers : N).

Record ccfg := mkC {
  c_kind : ckind;
  c_suites : option (list N);
  c_cert : N;                      (* 0 none, 1 issued by the trusted CA, 2 forged issuer *)
  c_name : N;                      (* session cache key (ServerName) *)
  c_cache : bool }.                (* ClientSessionCache set *)

(* certificate identities: 0 none; 1 SM2 client cert of the CA, 2 SM2 forged; 3 RSA of the CA, 4 RSA forged *)
Definition cert_id (gm : bool) (c : N) : N :=
  if N.eqb c 0 then 0 else if gm then c else c + 2.
Definition cert_trusted (id : N) : bool := N.eqb id 1 || N.eqb id 3.
(* what the client sees of the server: 1 = SM2 signing + encryption certificate, 2 = RSA certificate *)
Definition server_id (gm : bool) : N := if gm then 1 else 2.

(* ---------- session state and tickets --------------------------------------------------------- *)
Record sst := mkSt { st_vers : N; st_suite : N; st_ms : N; st_certs : N }.

Definition sst_eqb (a b : sst) : bool :=
  N.eqb (st_vers a) (st_vers b) && N.eqb (st_suite a) (st_suite b)
  && N.eqb (st_ms a) (st_ms b) && N.eqb (st_certs a) (st_certs b).

Section Tickets.
  Context {tagT : Type}.
  Variable mac : N -> N * N * sst -> tagT.        (* HMAC key (= key number), (key name, nonce, state) *)
  Variable tag_eqb : tagT -> tagT -> bool.
  Variable junk : tagT.                            (* a tag no key produces *)

  Record ticket := mkT { tk_name : N; tk_iv : N; tk_state : sst; tk_tag : tagT }.

  (* encryptTicket: key = ticketKeys()[0] *)
  Definition seal (k : N) (iv : N) (st : sst) : ticket := mkT k iv st (mac k (k, iv, st)).

  Fixpoint find_idx (name : N) (keys : list N) (i : nat) : option nat :=
    match keys with
    | [] => None
    | k :: t => if N.eqb name k then Some i else find_idx name t (S i)
    end.

  (* decryptTicket: disabled / key lookup by name / MAC check / usedOldKey = keyIndex > 0.
     (The length check and the parse of the plaintext are in TicketModel.decryptTicket_bytes.) *)
  Definition decryptTicket_model (disabled : bool) (keys : list N) (t : ticket) : option (sst * bool) :=
    if disabled then None
    else match find_idx (tk_name t) keys 0 with
         | None => None
         | Some i =>
           if tag_eqb (tk_tag t) (mac (tk_name t) (tk_name t, tk_iv t, tk_state t))
           then Some (tk_state t, Nat.ltb 0 i) else None
         end.

  (* ---------- suite acceptance -------------------------------------------------------------- *)
  (* getCipherSuites (gm_support.go) and Config.cipherSuites (common.go) *)
  Definition getCipherSuites (s : option (list N)) : list N :=
    match s with Some l => l | None => gen_gmDefaultSuites end.
  Definition cipherSuitesTLS (s : option (list N)) : list N :=
    match s with Some l => l | None => defaultCipherSuites end.

  (* serverHandshakeStateGM.setCipherSuite: the loop over the supported list only succeeds on an
     element equal to id, and the remaining tests do not depend on the element *)
  Definition setCipherSuiteGM (id : N) (supported : list N) (version : N) : bool :=
    memN id supported &&
    match lookup_suite gen_gmCipherSuites id with
    | None => false
    | Some r =>
      negb (N.ltb version gen_VersionTLS12 && has_flag (row_flags r) gen_suiteTLS12)
      && negb (has_flag (row_flags r) gen_suiteECDHE)
    end.

  (* serverHandshakeState.setCipherSuite with the capabilities of the configured certificate:
     the server certificate is RSA (signing and decryption), clients always send curves *)
  Record caps := mkCaps { ellipticOk : bool; ecdsaOk : bool; rsaSignOk : bool; rsaDecryptOk : bool }.
  Definition rsa_caps : caps := mkCaps true false true true.

  Definition setCipherSuiteTLS (cp : caps) (id : N) (supported : list N) (version : N) : bool :=
    memN id supported &&
    match lookup_suite gen_cipherSuites id with
    | None => false
    | Some r =>
      (if has_flag (row_flags r) gen_suiteECDHE
       then ellipticOk cp && (if has_flag (row_flags r) gen_suiteECDSA then ecdsaOk cp else rsaSignOk cp)
       else rsaDecryptOk cp)
      && negb (N.ltb version gen_VersionTLS12 && has_flag (row_flags r) gen_suiteTLS12)
    end.

  Definition supported_by (gm : bool) (cfg : scfg) (id vers : N) : bool :=
    if gm then setCipherSuiteGM id (getCipherSuites (s_suites cfg)) vers
    else setCipherSuiteTLS rsa_caps id (cipherSuitesTLS (s_suites cfg)) vers.

  (* ---------- the resumption decision --------------------------------------------------------- *)
  (* checkForResumption (both variants differ only in setCipherSuite / the suite list) *)
  Definition checkForResumption_model (gm : bool) (cfg : scfg) (vers : N) (offered : list N)
             (t : option ticket) : option (sst * bool) :=
    if s_disabled cfg then None
    else match t with
    | None => None                                   (* empty ticket: shorter than the minimum *)
    | Some t =>
      match decryptTicket_model (s_disabled cfg) (s_keys cfg) t with
      | None => None
      | Some (st, old) =>
        if negb (N.eqb vers (st_vers st)) then None
        else if negb (memN (st_suite st) offered) then None
        else if negb (supported_by gm cfg (st_suite st) (st_vers st)) then None
        else
          let sessionHasClientCerts := negb (N.eqb (st_certs st) 0) in
          let needClientCerts := N.eqb (s_auth cfg) gen_RequireAnyClientCert
                                 || N.eqb (s_auth cfg) gen_RequireAndVerifyClientCert in
          if needClientCerts && negb sessionHasClientCerts then None
          else if sessionHasClientCerts && N.eqb (s_auth cfg) gen_NoClientCert then None
          else Some (st, old)
      end
    end.

  (* ---------- client hello ------------------------------------------------------------------- *)
  Definition is_gm (k : ckind) : bool := match k with CG => true | CT _ => false end.
  Definition hello_vers (k : ckind) : N := match k with CG => gen_VersionGMSSL | CT v => v end.
  (* Config.maxVersion of the client configuration *)
  Definition client_maxvers (k : ckind) : N := match k with CG => gen_maxVersion | CT v => v end.

  (* makeClientHelloGM / makeClientHello: configured (or default) suites filtered through the table *)
  Definition hello_suites (c : ccfg) : list N :=
    match c_kind c with
    | CG => filter (fun id => match lookup_suite gen_gmCipherSuites id with Some _ => true | None => false end)
                   (getCipherSuites (c_suites c))
    | CT v => filter (fun id => match lookup_suite gen_cipherSuites id with
                                | Some r => negb (N.ltb v gen_VersionTLS12 && has_flag (row_flags r) gen_suiteTLS12)
                                | None => false end)
                     (cipherSuitesTLS (c_suites c))
    end.

  (* ---------- client session cache ---------------------------------------------------------- *)
  Record csess := mkCs { cs_ticket : ticket; cs_vers : N; cs_suite : N; cs_ms : N; cs_srv : N }.

  (* clientHandshake: the cached session is offered when its suite is still offered and its version is
     within the configured range *)
  Definition session_usable (c : ccfg) (s : csess) : bool :=
    memN (cs_suite s) (hello_suites c)
    && N.leb gen_minVersion (cs_vers s) && N.leb (cs_vers s) (client_maxvers (c_kind c)).

  (* ---------- one connection ---------------------------------------------------------------- *)
  Inductive cls := Resumed | Full | Failed | Crashed.

  Record crec := mkR {
    r_cls : cls; r_vers : N; r_suite : N;
    r_ms : N;              (* number of the full handshake whose master secret is in use *)
    r_ccert : N;           (* the server's view of the client's identity *)
    r_scert : N;           (* the client's view of the server's identity *)
    r_offer : option ticket;
    r_stored : bool }.

  Definition failed (offer : option ticket) : crec := mkR Failed 0 0 0 0 0 offer false.
  Definition crashed (offer : option ticket) : crec := mkR Crashed 0 0 0 0 0 offer false.

  (* prf.go newFinishedHash: every negotiable version gets a PRF (TLS 1.0/1.1: prf10, TLS 1.2 and
     GMSSL: P_hash), so computing a Finished value never panics.  (Before /repo commit 32acbb1 the
     TLS 1.0/1.1 branch returned a nil prf and this definition was false for 0x0301/0x0302.) *)
  Definition newFinishedHash_prf_ok (vers : N) : bool := true.

  (* Config.mutualVersion on the server, by mode (GMSupport set or not) *)
  Definition server_version (m : smode) (hv : N) : option (bool * N) :=   (* (GM flow?, version) *)
    match m with
    | STLS => if N.eqb hv gen_VersionGMSSL then None
              else if N.ltb hv gen_VersionTLS10 then None else Some (false, N.min hv gen_maxVersion)
    | SGM => if N.eqb hv gen_VersionGMSSL then Some (true, hv)
             else if N.ltb hv gen_VersionTLS10 then None else Some (true, N.min hv gen_maxVersion)
    | SAuto => if N.eqb hv gen_VersionGMSSL then Some (true, hv)
               else if N.ltb hv gen_VersionTLS10 then None else Some (false, N.min hv gen_maxVersion)
    end.

  (* suite selection of a full handshake (readClientHello, processClientHello, processClientHelloGM) *)
  Definition pick_suite (gm : bool) (cfg : scfg) (vers : N) (offered : list N) : option N :=
    if s_prefer cfg
    then find (fun id => if gm then setCipherSuiteGM id offered vers
                         else setCipherSuiteTLS rsa_caps id offered vers)
              (if gm then getCipherSuites (s_suites cfg) else cipherSuitesTLS (s_suites cfg))
    else find (fun id => supported_by gm cfg id vers) offered.

  (* doFullHandshake, client certificate part: None = the handshake fails, Some id = the peer
     certificate the server ends up with (0 = none).  The CertificateRequest names both CAs, the client
     sends its certificate whenever its issuer name matches. *)
  Definition client_auth (auth : N) (id : N) : option N :=
    if N.eqb auth gen_NoClientCert then Some 0
    else if N.eqb id 0
         then (if N.eqb auth gen_RequireAnyClientCert || N.eqb auth gen_RequireAndVerifyClientCert
               then None else Some 0)
         else if N.leb gen_VerifyClientCertIfGiven auth && negb (cert_trusted id) then None
         else Some id.

  (* processCertsFromClient on the certificates stored in a ticket (doResumeHandshake) *)
  Definition stored_certs_ok (auth : N) (id : N) : bool :=
    N.eqb id 0 || negb (N.leb gen_VerifyClientCertIfGiven auth) || cert_trusted id.

  (* the connection: returns the record and the session the client stores (if any) *)
  Definition connect (cfg : scfg) (c : ccfg) (idx : N) (sess : option csess) : crec * option csess :=
    let offered := hello_suites c in
    let sess := match sess with Some s => if session_usable c s then Some s else None | None => None end in
    let tkt := option_map cs_ticket sess in
    match server_version (s_mode cfg) (hello_vers (c_kind c)) with
    | None => (failed tkt, None)
    | Some (gm, vers) =>
      (* a GM client insists on VersionGMSSL, a TLS client on TLS >= 1.0: always met here *)
      match checkForResumption_model gm cfg vers offered tkt, sess with
      | Some (st, old), Some s =>
        (* abbreviated handshake *)
        if negb (stored_certs_ok (s_auth cfg) (st_certs st)) then (failed tkt, None)
        else if negb (newFinishedHash_prf_ok vers) then (crashed tkt, None)
        else if negb (N.eqb (cs_vers s) vers && N.eqb (cs_suite s) (st_suite st)) then (failed tkt, None)
        else if negb (N.eqb (cs_ms s) (st_ms st)) then (failed tkt, None)      (* Finished would not verify *)
        else
          match (if old then s_keys cfg else [0]) with
          | [] => (crashed tkt, None)                  (* ticketKeys()[0] on an empty list *)
          | k :: _ =>
            let st' := mkSt vers (st_suite st) (st_ms st) (st_certs st) in
            let stored := if old then Some (mkCs (seal k idx st') vers (st_suite st) (cs_ms s) (cs_srv s)) else None in
            (mkR Resumed vers (st_suite st) (st_ms st) (st_certs st) (cs_srv s) tkt old, stored)
          end
      | _, _ =>
        (* full handshake *)
        match pick_suite gm cfg vers offered with
        | None => (failed tkt, None)
        | Some suite =>
          if negb (newFinishedHash_prf_ok vers) then (crashed tkt, None)
          else match client_auth (s_auth cfg) (cert_id gm (c_cert c)) with
          | None => (failed tkt, None)
          | Some cid =>
            let issue := c_cache c && negb (s_disabled cfg) in
            match (if issue then s_keys cfg else [0]) with
            | [] => (crashed tkt, None)
            | k :: _ =>
              let st := mkSt vers suite idx cid in
              let stored := if issue then Some (mkCs (seal k idx st) vers suite idx (server_id gm)) else None in
              (mkR Full vers suite idx cid (server_id gm) tkt issue, stored)
            end
          end
        end
      end
    end.

  (* ---------- histories ---------------------------------------------------------------------- *)
  Inductive hop :=
  | Connect (srv : nat) (c : ccfg)
  | RotateKeys (srv : nat) (keys : list N)
  | ChangeSuites (srv : nat) (s : option (list N))
  | ChangeClientAuth (srv : nat) (a : N)
  | DisableTickets (srv : nat) (b : bool)
  | ForgeVers (name : N) (v : N)        (* the client's cached session claims another version *)
  | ForgeSuite (name : N) (s : N)       (* ... another suite *)
  | TamperTicket (name : N).            (* the cached ticket is modified: its tag no longer verifies *)

  Record hstate := mkH { h_srv : list scfg; h_cache : lru csess; h_log : list crec }.

  Fixpoint update_nth {A} (n : nat) (f : A -> A) (l : list A) : list A :=
    match l, n with
    | [], _ => []
    | x :: t, O => f x :: t
    | x :: t, S n' => x :: update_nth n' f t
    end.

  Definition forge (h : hstate) (name : N) (f : csess -> csess) : hstate :=
    match lru_get (h_cache h) name with
    | (Some s, c') => mkH (h_srv h) (lru_put c' name (f s)) (h_log h)
    | (None, _) => h
    end.

  Definition hstep (h : hstate) (o : hop) : hstate :=
    match o with
    | Connect i c =>
      match nth_error (h_srv h) i with
      | None => h
      | Some cfg =>
        let '(sess, cache1) := if c_cache c then lru_get (h_cache h) (c_name c) else (None, h_cache h) in
        let '(r, stored) := connect cfg c (N.of_nat (length (h_log h))) sess in
        let cache2 := match stored with
                      | Some s => if c_cache c then lru_put cache1 (c_name c) s else cache1
                      | None => cache1 end in
        mkH (h_srv h) cache2 (h_log h ++ [r])
      end
    | RotateKeys i ks =>
      match ks with
      | [] => h                                  (* SetSessionTicketKeys panics on an empty list: not a history *)
      | _ => mkH (update_nth i (fun s => mkS (s_mode s) (s_suites s) (s_prefer s) (s_auth s) (s_disabled s) ks) (h_srv h))
                 (h_cache h) (h_log h)
      end
    | ChangeSuites i su =>
      mkH (update_nth i (fun s => mkS (s_mode s) su (s_prefer s) (s_auth s) (s_disabled s) (s_keys s)) (h_srv h))
          (h_cache h) (h_log h)
    | ChangeClientAuth i a =>
      mkH (update_nth i (fun s => mkS (s_mode s) (s_suites s) (s_prefer s) a (s_disabled s) (s_keys s)) (h_srv h))
          (h_cache h) (h_log h)
    | DisableTickets i b =>
      mkH (update_nth i (fun s => mkS (s_mode s) (s_suites s) (s_prefer s) (s_auth s) b (s_keys s)) (h_srv h))
          (h_cache h) (h_log h)
    | ForgeVers name v => forge h name (fun s => mkCs (cs_ticket s) v (cs_suite s) (cs_ms s) (cs_srv s))
    | ForgeSuite name su => forge h name (fun s => mkCs (cs_ticket s) (cs_vers s) su (cs_ms s) (cs_srv s))
    | TamperTicket name =>
      forge h name (fun s => mkCs (mkT (tk_name (cs_ticket s)) (tk_iv (cs_ticket s)) (tk_state (cs_ticket s)) junk)
                                  (cs_vers s) (cs_suite s) (cs_ms s) (cs_srv s))
    end.

  Definition hrun (h : hstate) (ops : list hop) : hstate := fold_left hstep ops h.

  Definition hinit (capacity : nat) (srvs : list scfg) : hstate := mkH srvs (lru_new capacity) [].
End Tickets.

Arguments ticket : clear implicits.
Arguments csess : clear implicits.
Arguments crec : clear implicits.
Arguments hstate : clear implicits.

(* ---------- the term instance used by the runner: a tag is the term mac(k, m) itself ------------- *)
Definition term_tag := option (N * (N * N * sst)).
Definition term_mac (k : N) (m : N * N * sst) : term_tag := Some (k, m).
Definition term_tag_eqb (a b : term_tag) : bool :=
  match a, b with
  | None, None => true
  | Some (k, (n, i, s)), Some (k', (n', i', s')) => N.eqb k k' && N.eqb n n' && N.eqb i i' && sst_eqb s s'
  | _, _ => false
  end.
Definition term_junk : term_tag := None.

Definition hrun_term (capacity : nat) (srvs : list scfg) (ops : list hop) : hstate term_tag :=
  hrun term_mac term_tag_eqb term_junk (hinit capacity srvs) ops.

Definition decrypt_term (disabled : bool) (keys : list N) (t : ticket term_tag) : option (sst * bool) :=
  decryptTicket_model term_mac term_tag_eqb disabled keys t.
