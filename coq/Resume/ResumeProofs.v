(* Lemmas about the symbolic resumption model (Resume/ResumeModel.v): the ticket gate, the resumption
   decision, "a valid ticket is resumed", and the history invariant.  The MAC is ideal: the three
   Section hypotheses of ResumeProofs are the whole idealisation. *)
From Coq Require Import List NArith Arith Bool Lia ZifyN ZifyNat ZifyBool.
From GmsmVerif Require Import Lib.Outcome Gen.TLSSuites Resume.LruModel Resume.ResumeModel.
Import ListNotations.
Open Scope N_scope.

(* ---------- small facts --------------------------------------------------------------------- *)
Lemma memN_In : forall x l, memN x l = true <-> In x l.
Proof.
  intros x l. unfold memN. rewrite existsb_exists. split.
  - intros (y & Hy & E). apply N.eqb_eq in E. subst. exact Hy.
  - intros H. exists x. split; [exact H|apply N.eqb_refl].
Qed.

Lemma find_idx_spec : forall name keys i j,
  find_idx name keys i = Some j ->
  (i <= j)%nat /\ nth_error keys (j - i) = Some name
  /\ (forall m, (m < j - i)%nat -> nth_error keys m <> Some name).
Proof.
  intros name keys. induction keys as [|k keys IH]; intros i j H; cbn in H; [discriminate|].
  destruct (N.eqb_spec name k) as [E|E].
  - injection H as <-. rewrite Nat.sub_diag. subst. repeat split; auto. intros m Hm. lia.
  - apply IH in H. destruct H as (Hle & Hn & Hfirst). split; [lia|].
    replace (j - i)%nat with (S (j - S i)) by lia. cbn [nth_error]. split; [exact Hn|].
    intros m Hm. destruct m as [|m]; cbn [nth_error].
    + intro C. injection C as C. congruence.
    + apply Hfirst. lia.
Qed.

Lemma find_idx_head : forall k keys, find_idx k (k :: keys) 0 = Some 0%nat.
Proof. intros. cbn. rewrite N.eqb_refl. reflexivity. Qed.

(* LRU: what can be in the cache after an operation *)
Section LruFacts.
  Context {V : Type}.
  Lemma remove_key_subset : forall k (q : list (N * V)) e, In e (remove_key k q) -> In e q.
  Proof.
    intros k q. induction q as [|[k' v] q IH]; intros e H; cbn in *; [exact H|].
    destruct (N.eqb k k'); [right; exact H|]. destruct H as [H|H]; [left; exact H|right; apply IH; exact H].
  Qed.
  Lemma removelast_subset : forall (q : list (N * V)) e, In e (removelast q) -> In e q.
  Proof.
    induction q as [|x q IH]; intros e H; [exact H|]. cbn in H. destruct q as [|y q]; [contradiction|].
    destruct H as [H|H]; [left; exact H|right; apply IH; exact H].
  Qed.
  Lemma find_key_In : forall k (q : list (N * V)) v, find_key k q = Some v -> In (k, v) q.
  Proof.
    intros k q. induction q as [|[k' v'] q IH]; intros v H; cbn in *; [discriminate|].
    destruct (N.eqb_spec k k'); [injection H as <-; subst; left; reflexivity|right; apply IH; exact H].
  Qed.
  Lemma lru_put_subset : forall (c : lru V) k v e, In e (l_q (lru_put c k v)) -> e = (k, v) \/ In e (l_q c).
  Proof.
    intros c k v e. unfold lru_put. destruct (mem k (l_m c)).
    - cbn. intros [H|H]; [left; auto|right; eapply remove_key_subset; exact H].
    - destruct (Nat.ltb (length (l_q c)) (l_cap c)).
      + cbn. intros [H|H]; auto.
      + destruct (rev (l_q c)) as [|[kb vb] t]; cbn.
        * intros [H|H]; [left; auto|contradiction].
        * intros [H|H]; [left; auto|right; apply removelast_subset; exact H].
  Qed.
  Lemma lru_get_subset : forall (c : lru V) k e, In e (l_q (snd (lru_get c k))) -> In e (l_q c).
  Proof.
    intros c k e. unfold lru_get. destruct (mem k (l_m c)); [|auto].
    destruct (find_key k (l_q c)) eqn:E; cbn; [|auto].
    intros [H|H]; [subst; apply find_key_In; exact E|eapply remove_key_subset; exact H].
  Qed.
  Lemma lru_get_hit_In : forall (c : lru V) k v, fst (lru_get c k) = Some v -> In (k, v) (l_q c).
  Proof.
    intros c k v. unfold lru_get. destruct (mem k (l_m c)); [|discriminate].
    destruct (find_key k (l_q c)) eqn:E; cbn; [|discriminate]. intros [= <-]. apply find_key_In. exact E.
  Qed.
End LruFacts.

(* ---------- the specification side (written from the property text) ---------------------------- *)
(* "carries client certificates the current policy forbids" / policies that need a certificate *)
Definition policy_compatible (auth certs : N) : Prop :=
  ((auth = gen_RequireAnyClientCert \/ auth = gen_RequireAndVerifyClientCert) -> certs <> 0)
  /\ (auth = gen_NoClientCert -> certs = 0).

(* "a suite the server supports": listed by the configuration (or its default list), present in the table
   of the protocol family, implemented (no ECDHE-SM2 server side; for TLS an ECDHE suite must sign with the
   RSA server certificate), and allowed for the version *)
Definition suite_supported_spec (gm : bool) (cfg : scfg) (id vers : N) : Prop :=
  if gm then
    In id (getCipherSuites (s_suites cfg)) /\
    exists r, lookup_suite gen_gmCipherSuites id = Some r
              /\ has_flag (row_flags r) gen_suiteECDHE = false
              /\ (vers < gen_VersionTLS12 -> has_flag (row_flags r) gen_suiteTLS12 = false)
  else
    In id (cipherSuitesTLS (s_suites cfg)) /\
    exists r, lookup_suite gen_cipherSuites id = Some r
              /\ (has_flag (row_flags r) gen_suiteECDHE = true -> has_flag (row_flags r) gen_suiteECDSA = false)
              /\ (vers < gen_VersionTLS12 -> has_flag (row_flags r) gen_suiteTLS12 = false).

Lemma version_flag_ok : forall vers fl,
  negb (N.ltb vers gen_VersionTLS12 && fl) = true <-> (vers < gen_VersionTLS12 -> fl = false).
Proof.
  intros vers fl. rewrite negb_true_iff, andb_false_iff. split.
  - intros [H|H] Hv; [apply N.ltb_ge in H; lia|exact H].
  - intros H. destruct (N.ltb_spec vers gen_VersionTLS12); [right; auto|left; reflexivity].
Qed.

Lemma supported_by_spec : forall gm cfg id vers,
  supported_by gm cfg id vers = true <-> suite_supported_spec gm cfg id vers.
Proof.
  intros gm cfg id vers. unfold supported_by, suite_supported_spec. destruct gm.
  - unfold setCipherSuiteGM. rewrite andb_true_iff, memN_In.
    destruct (lookup_suite gen_gmCipherSuites id) as [r|].
    + rewrite andb_true_iff, version_flag_ok, negb_true_iff. split.
      * intros (Hin & H1 & H2). split; [exact Hin|]. exists r. auto.
      * intros (Hin & r' & [= <-] & H2 & H1). auto.
    + split; [intros (_ & C); discriminate|intros (_ & r & C & _); discriminate].
  - unfold setCipherSuiteTLS, rsa_caps. cbn [ellipticOk ecdsaOk rsaSignOk rsaDecryptOk]. rewrite andb_true_iff, memN_In.
    destruct (lookup_suite gen_cipherSuites id) as [r|].
    + rewrite andb_true_iff, version_flag_ok. split.
      * intros (Hin & H1 & H2). split; [exact Hin|]. exists r. split; [reflexivity|]. split; [|exact H2].
        intros HE. rewrite HE in H1. cbn in H1. destruct (has_flag (row_flags r) gen_suiteECDSA); [discriminate|reflexivity].
      * intros (Hin & r' & [= <-] & H1 & H2). split; [exact Hin|]. split; [|exact H2].
        destruct (has_flag (row_flags r) gen_suiteECDHE); [rewrite H1 by reflexivity|]; reflexivity.
    + split; [intros (_ & C); discriminate|intros (_ & r & C & _); discriminate].
Qed.

Section ResumeProofs.
  Context {tagT : Type}.
  Variable mac : N -> N * N * sst -> tagT.
  Variable tag_eqb : tagT -> tagT -> bool.
  Variable junk : tagT.
  Hypothesis tag_eqb_spec : forall a b, tag_eqb a b = true <-> a = b.
  (* the ideal MAC: different (key, message) pairs never share a tag, and no key produces [junk] *)
  Hypothesis mac_inj : forall k m k' m', mac k m = mac k' m' -> k = k' /\ m = m'.
  Hypothesis junk_not_mac : forall k m, mac k m <> junk.

  Notation ticket := (ticket tagT).
  Notation csess := (csess tagT).
  Notation crec := (crec tagT).
  Notation hstate := (hstate tagT).
  Notation decryptT := (decryptTicket_model mac tag_eqb).
  Notation checkR := (checkForResumption_model mac tag_eqb).
  Notation connectM := (connect mac tag_eqb).
  Notation hstepM := (hstep mac tag_eqb junk).
  Notation hrunM := (hrun mac tag_eqb junk).

  (* a ticket is authentic when its tag is the MAC, under the key it names, of its own contents *)
  Definition authentic (t : ticket) : Prop :=
    tk_tag t = mac (tk_name t) (tk_name t, tk_iv t, tk_state t).

  Lemma authentic_seal : forall t, authentic t <-> t = seal mac (tk_name t) (tk_iv t) (tk_state t).
  Proof.
    intros [n i s g]. unfold authentic, seal. cbn. split; [intros ->; reflexivity|intros [= ->]; reflexivity].
  Qed.

  Lemma seal_fields : forall (t : ticket) st, t = seal mac (tk_name t) (tk_iv t) st ->
    tk_state t = st /\ tk_tag t = mac (tk_name t) (tk_name t, tk_iv t, st).
  Proof. intros t st Ht. split; rewrite Ht; reflexivity. Qed.

  (* ---------- the gate ---------------------------------------------------------------------- *)
  Lemma ticket_gate : forall disabled keys t st old,
    decryptT disabled keys t = Some (st, old) <->
    disabled = false /\ exists i, find_idx (tk_name t) keys 0 = Some i
                                  /\ t = seal mac (tk_name t) (tk_iv t) st /\ old = Nat.ltb 0 i.
  Proof.
    intros disabled keys t st old. unfold decryptTicket_model. destruct disabled.
    { split; [discriminate|intros (C & _); discriminate]. }
    destruct (find_idx (tk_name t) keys 0) as [i|].
    - destruct (tag_eqb _ _) eqn:E.
      + apply tag_eqb_spec in E. split.
        * intros [= <- <-]. split; [reflexivity|]. exists i. repeat split; auto. apply authentic_seal. exact E.
        * intros (_ & i' & [= <-] & Ht & ->). destruct (seal_fields t st Ht) as (Hs & _). rewrite Hs. reflexivity.
      + split; [discriminate|]. intros (_ & i' & _ & Ht & _). exfalso.
        destruct (seal_fields t st Ht) as (Hs & Hg).
        assert (tag_eqb (tk_tag t) (mac (tk_name t) (tk_name t, tk_iv t, tk_state t)) = true).
        { apply tag_eqb_spec. rewrite Hs. exact Hg. }
        congruence.
    - split; [discriminate|intros (_ & i & C & _); discriminate].
  Qed.

  Lemma decrypt_authentic : forall disabled keys t st old,
    decryptT disabled keys t = Some (st, old) -> authentic t /\ st = tk_state t.
  Proof.
    intros disabled keys t st old H. apply ticket_gate in H. destruct H as (_ & i & _ & Ht & _).
    destruct (seal_fields t st Ht) as (Hs & Hg). split; [|symmetry; exact Hs].
    unfold authentic. rewrite Hs. exact Hg.
  Qed.

  (* every modification of an issued ticket is rejected: the adversary's ticket re-uses a tag it has seen
     (or an arbitrary non-MAC value), and is not one of the issued tickets *)
  Lemma modified_ticket_rejected : forall disabled keys (issued : list ticket) t,
    (forall t', In t' issued -> authentic t') ->
    (tk_tag t = junk \/ In (tk_tag t) (map (@tk_tag tagT) issued)) ->
    ~ In t issued ->
    decryptT disabled keys t = None.
  Proof.
    intros disabled keys issued t Hiss Htag Hnot.
    destruct (decryptT disabled keys t) as [[st old]|] eqn:E; [|reflexivity]. exfalso.
    apply decrypt_authentic in E. destruct E as (Ha & _). unfold authentic in Ha.
    destruct Htag as [Hj|Hin].
    - rewrite Hj in Ha. symmetry in Ha. exact (junk_not_mac _ _ Ha).
    - apply in_map_iff in Hin. destruct Hin as (t' & Et & Hin'). apply Hnot.
      pose proof (Hiss t' Hin') as Ha'. unfold authentic in Ha'.
      rewrite Ha, Ha' in Et. apply mac_inj in Et. destruct Et as (En & Em).
      injection Em as E1 E2 E3.
      destruct t as [n i s g], t' as [n' i' s' g']. cbn in *. subst. exact Hin'.
  Qed.

  (* ---------- the decision ---------------------------------------------------------------------- *)
  Lemma policy_check : forall auth certs,
    ((N.eqb auth gen_RequireAnyClientCert || N.eqb auth gen_RequireAndVerifyClientCert) && negb (negb (N.eqb certs 0)) = false
     /\ negb (N.eqb certs 0) && N.eqb auth gen_NoClientCert = false) <-> policy_compatible auth certs.
  Proof.
    intros auth certs. unfold policy_compatible.
    destruct (N.eqb_spec certs 0), (N.eqb_spec auth gen_RequireAnyClientCert),
      (N.eqb_spec auth gen_RequireAndVerifyClientCert), (N.eqb_spec auth gen_NoClientCert); cbn;
      split; intros H; try (destruct H as (H1 & H2)); try discriminate; try (split; [intros [?|?]|intros ?]; try congruence; try lia);
      try (split; reflexivity); try (exfalso; subst; unfold gen_RequireAnyClientCert, gen_RequireAndVerifyClientCert, gen_NoClientCert in *; lia);
      try (exfalso; apply H1; auto; fail); try (exfalso; specialize (H2 eq_refl); congruence).
  Qed.

  Theorem resume_decision : forall gm cfg vers offered t st old,
    checkR gm cfg vers offered t = Some (st, old) <->
    s_disabled cfg = false
    /\ (exists tk, t = Some tk /\ decryptT (s_disabled cfg) (s_keys cfg) tk = Some (st, old))
    /\ vers = st_vers st
    /\ In (st_suite st) offered
    /\ suite_supported_spec gm cfg (st_suite st) (st_vers st)
    /\ policy_compatible (s_auth cfg) (st_certs st).
  Proof.
    intros gm cfg vers offered t st old. unfold checkForResumption_model.
    destruct (s_disabled cfg) eqn:Ed.
    { split; [discriminate|intros (C & _); discriminate]. }
    destruct t as [tk|]; [|split; [discriminate|intros (_ & (tk & C & _) & _); discriminate]].
    destruct (decryptT false (s_keys cfg) tk) as [[st' old']|] eqn:Edec;
      [|split; [discriminate|intros (_ & (tk' & [= <-] & C) & _); congruence]].
    rewrite <- supported_by_spec, <- memN_In, <- policy_check.
    destruct (N.eqb_spec vers (st_vers st')) as [Ev|Ev]; cbn [negb].
    2:{ split; [discriminate|]. intros (_ & (tk' & [= <-] & C) & Hv & _). rewrite Edec in C. injection C as <- <-. contradiction. }
    destruct (memN (st_suite st') offered) eqn:Em; cbn [negb].
    2:{ split; [discriminate|]. intros (_ & (tk' & [= <-] & C) & _ & Hm & _). rewrite Edec in C. injection C as <- <-. congruence. }
    destruct (supported_by gm cfg (st_suite st') (st_vers st')) eqn:Es; cbn [negb].
    2:{ split; [discriminate|]. intros (_ & (tk' & [= <-] & C) & _ & _ & Hs & _). rewrite Edec in C. injection C as <- <-. congruence. }
    destruct ((N.eqb (s_auth cfg) gen_RequireAnyClientCert || N.eqb (s_auth cfg) gen_RequireAndVerifyClientCert)
              && negb (negb (N.eqb (st_certs st') 0))) eqn:E1.
    { split; [discriminate|]. intros (_ & (tk' & [= <-] & C) & _ & _ & _ & (H1 & _)). rewrite Edec in C. injection C as <- <-. congruence. }
    destruct (negb (N.eqb (st_certs st') 0) && N.eqb (s_auth cfg) gen_NoClientCert) eqn:E2.
    { split; [discriminate|]. intros (_ & (tk' & [= <-] & C) & _ & _ & _ & (_ & H2)). rewrite Edec in C. injection C as <- <-. congruence. }
    split.
    - intros [= <- <-]. repeat split; auto. exists tk. auto.
    - intros (_ & (tk' & [= <-] & C) & _). rewrite Edec in C. exact C.
  Qed.


  (* ---------- a valid ticket under unchanged configurations is resumed --------------------------- *)
  Lemma pick_suite_ok : forall gm cfg vers offered suite,
    pick_suite gm cfg vers offered = Some suite -> In suite offered /\ supported_by gm cfg suite vers = true.
  Proof.
    intros gm cfg vers offered suite. unfold pick_suite. destruct (s_prefer cfg).
    - intros H. apply find_some in H. destruct H as (Hin & H). unfold supported_by. destruct gm.
      + unfold setCipherSuiteGM in *. apply andb_prop in H. destruct H as (H1 & H2). split; [apply memN_In; exact H1|].
        rewrite H2, andb_true_r. apply memN_In. exact Hin.
      + unfold setCipherSuiteTLS in *. apply andb_prop in H. destruct H as (H1 & H2). split; [apply memN_In; exact H1|].
        rewrite H2, andb_true_r. apply memN_In. exact Hin.
    - intros H. apply find_some in H. exact H.
  Qed.

  Lemma server_version_range : forall m k gm vers,
    server_version m (hello_vers k) = Some (gm, vers) ->
    gen_minVersion <= vers /\ vers <= client_maxvers k.
  Proof.
    intros m k gm vers. unfold server_version, hello_vers, client_maxvers, gen_minVersion, gen_maxVersion,
      gen_VersionGMSSL, gen_VersionTLS10.
    destruct m, k as [|v]; cbn; try discriminate;
      try (intros [= <- <-]; lia);
      try (destruct (N.eqb_spec v 257); [try discriminate; intros [= <- <-]; lia|];
           destruct (N.ltb_spec v 769); [discriminate|]; intros [= <- <-]; lia).
  Qed.

  Lemma client_auth_policy : forall auth id cid,
    client_auth auth id = Some cid -> policy_compatible auth cid /\ stored_certs_ok auth cid = true.
  Proof.
    intros auth id cid. unfold client_auth, policy_compatible, stored_certs_ok,
      gen_NoClientCert, gen_RequireAnyClientCert, gen_RequireAndVerifyClientCert, gen_VerifyClientCertIfGiven.
    destruct (N.eqb_spec auth 0).
    { intros [= <-]. cbn. split; [split; [lia|reflexivity]|reflexivity]. }
    destruct (N.eqb_spec id 0).
    { destruct (N.eqb_spec auth 2); cbn; [discriminate|]. destruct (N.eqb_spec auth 4); cbn; [discriminate|].
      intros [= <-]. cbn. split; [split; [lia|reflexivity]|reflexivity]. }
    destruct (N.leb_spec 3 auth); cbn.
    - destruct (cert_trusted id) eqn:Et; cbn; [|discriminate]. intros [= <-].
      split; [split; [intros _; exact n0|lia]|]. rewrite Et. destruct (N.eqb id 0); reflexivity.
    - intros [= <-]. split; [split; [intros _; exact n0|lia]|]. destruct (N.eqb id 0); reflexivity.
  Qed.

  Lemma connect_full_inv : forall cfg c idx sess r s,
    connectM cfg c idx sess = (r, Some s) -> r_cls r = Full ->
    exists gm vers suite cid k ks,
      server_version (s_mode cfg) (hello_vers (c_kind c)) = Some (gm, vers)
      /\ pick_suite gm cfg vers (hello_suites c) = Some suite
      /\ client_auth (s_auth cfg) (cert_id gm (c_cert c)) = Some cid
      /\ s_disabled cfg = false /\ s_keys cfg = k :: ks
      /\ s = mkCs (seal mac k idx (mkSt vers suite idx cid)) vers suite idx (server_id gm)
      /\ r_vers r = vers /\ r_suite r = suite /\ r_ms r = idx /\ r_ccert r = cid /\ r_scert r = server_id gm.
  Proof.
    intros cfg c idx sess r s. unfold connect. cbv zeta.
    set (sess' := match sess with Some s0 => if session_usable c s0 then Some s0 else None | None => None end).
    clearbody sess'.
    destruct (server_version (s_mode cfg) (hello_vers (c_kind c))) as [[gm vers]|]; [|discriminate].
    assert (Hfull :
      match pick_suite gm cfg vers (hello_suites c) with
      | None => (failed (option_map (@cs_ticket tagT) sess'), None)
      | Some suite =>
        if negb (newFinishedHash_prf_ok vers) then (crashed (option_map (@cs_ticket tagT) sess'), None)
        else match client_auth (s_auth cfg) (cert_id gm (c_cert c)) with
        | None => (failed (option_map (@cs_ticket tagT) sess'), None)
        | Some cid =>
          match (if c_cache c && negb (s_disabled cfg) then s_keys cfg else [0]) with
          | [] => (crashed (option_map (@cs_ticket tagT) sess'), None)
          | k :: _ =>
            (mkR Full vers suite idx cid (server_id gm) (option_map (@cs_ticket tagT) sess') (c_cache c && negb (s_disabled cfg)),
             if c_cache c && negb (s_disabled cfg)
             then Some (mkCs (seal mac k idx (mkSt vers suite idx cid)) vers suite idx (server_id gm)) else None)
          end
        end
      end = (r, Some s) -> r_cls r = Full ->
      exists gm0 vers0 suite cid k ks,
        Some (gm, vers) = Some (gm0, vers0)
        /\ pick_suite gm0 cfg vers0 (hello_suites c) = Some suite
        /\ client_auth (s_auth cfg) (cert_id gm0 (c_cert c)) = Some cid
        /\ s_disabled cfg = false /\ s_keys cfg = k :: ks
        /\ s = mkCs (seal mac k idx (mkSt vers0 suite idx cid)) vers0 suite idx (server_id gm0)
        /\ r_vers r = vers0 /\ r_suite r = suite /\ r_ms r = idx /\ r_ccert r = cid /\ r_scert r = server_id gm0).
    { destruct (pick_suite gm cfg vers (hello_suites c)) as [suite|] eqn:Ep; [|discriminate].
      destruct (negb (newFinishedHash_prf_ok vers)); [discriminate|].
      destruct (client_auth (s_auth cfg) (cert_id gm (c_cert c))) as [cid|] eqn:Ea; [|discriminate].
      destruct (c_cache c && negb (s_disabled cfg)) eqn:Ei.
      2:{ cbn. intros [= _ C]. }
      destruct (s_keys cfg) as [|k ks] eqn:Ek; [discriminate|].
      intros [= <- <-] _. exists gm, vers, suite, cid, k, ks. apply andb_prop in Ei. destruct Ei as (_ & Ei).
      apply negb_true_iff in Ei. cbn. repeat split; auto. }
    destruct (checkR gm cfg vers (hello_suites c) (option_map (@cs_ticket tagT) sess')) as [[st old]|].
    2:{ destruct sess'; exact Hfull. }
    destruct sess' as [s0|]; [|exact Hfull].
    destruct (negb (stored_certs_ok (s_auth cfg) (st_certs st))); [discriminate|].
    destruct (negb (newFinishedHash_prf_ok vers)); [discriminate|].
    destruct (negb (N.eqb (cs_vers s0) vers && N.eqb (cs_suite s0) (st_suite st))); [discriminate|].
    destruct (negb (N.eqb (cs_ms s0) (st_ms st))); [discriminate|].
    destruct (if old then s_keys cfg else [0]); [discriminate|].
    intros [= <- _]. cbn. discriminate.
  Qed.

  Theorem valid_ticket_resumes : forall cfg c idx idx' sess0 r s,
    connectM cfg c idx sess0 = (r, Some s) -> r_cls r = Full ->
    exists r', connectM cfg c idx' (Some s) = (r', None) /\ r_cls r' = Resumed
      /\ r_vers r' = r_vers r /\ r_suite r' = r_suite r /\ r_ms r' = r_ms r
      /\ r_ccert r' = r_ccert r /\ r_scert r' = r_scert r.
  Proof.
    intros cfg c idx idx' sess0 r s Hc Hf.
    destruct (connect_full_inv _ _ _ _ _ _ Hc Hf) as (gm & vers & suite & cid & k & ks & Hsv & Hp & Ha & Hd & Hk & Hs & R1 & R2 & R3 & R4 & R5).
    destruct (pick_suite_ok _ _ _ _ _ Hp) as (Hoff & Hsup).
    destruct (server_version_range _ _ _ _ Hsv) as (Hlo & Hhi).
    destruct (client_auth_policy _ _ _ Ha) as (Hpol & Hstored).
    assert (Hus : session_usable c s = true).
    { unfold session_usable. rewrite Hs. cbn. apply andb_true_intro. split; [apply andb_true_intro; split|].
      - apply memN_In. exact Hoff.
      - apply N.leb_le. exact Hlo.
      - apply N.leb_le. exact Hhi. }
    set (st := mkSt vers suite idx cid).
    assert (Hchk : checkR gm cfg vers (hello_suites c) (Some (cs_ticket s)) = Some (st, false)).
    { apply resume_decision. rewrite Hd. split; [reflexivity|]. split.
      - exists (cs_ticket s). split; [reflexivity|]. apply ticket_gate. split; [reflexivity|].
        exists 0%nat. rewrite Hs, Hk. cbn [cs_ticket seal tk_name tk_iv]. rewrite find_idx_head. repeat split.
      - cbn. split; [reflexivity|]. split; [exact Hoff|]. split; [apply supported_by_spec; exact Hsup|exact Hpol]. }
    unfold connect. cbv zeta. rewrite Hus, Hsv. cbn [option_map]. rewrite Hchk.
    cbn [st_certs st_suite st_ms st]. rewrite Hstored. cbn [negb].
    assert (newFinishedHash_prf_ok vers = true) as -> by reflexivity. cbn [negb].
    rewrite Hs. cbn [cs_vers cs_suite cs_ms cs_srv cs_ticket]. rewrite !N.eqb_refl. cbn.
    eexists. split; [reflexivity|]. cbn. rewrite R1, R2, R3, R4, R5. repeat split; reflexivity.
  Qed.

  (* ---------- the re-issued ticket ------------------------------------------------------------------ *)
  (* A resumed handshake that stores a session (the offered ticket was opened with an old key, so the server
     re-issues): the new ticket is an authentic seal under the server's first key whose state is exactly the
     state of the offered ticket - version, suite, master secret and client certificates - and the client
     keeps its master secret and the server identity of the old session. *)
  Lemma reissued_ticket_same_identity : forall cfg c idx sess r s',
    connectM cfg c idx sess = (r, Some s') -> r_cls r = Resumed ->
    exists s st k ks,
      sess = Some s
      /\ decryptT (s_disabled cfg) (s_keys cfg) (cs_ticket s) = Some (st, true)
      /\ s_keys cfg = k :: ks
      /\ cs_ticket s' = seal mac k idx st
      /\ st_certs (tk_state (cs_ticket s')) = st_certs (tk_state (cs_ticket s))
      /\ st_ms (tk_state (cs_ticket s')) = st_ms (tk_state (cs_ticket s))
      /\ cs_vers s' = st_vers st /\ cs_suite s' = st_suite st
      /\ cs_ms s' = cs_ms s /\ cs_srv s' = cs_srv s
      /\ r_ccert r = st_certs st /\ r_ms r = st_ms st.
  Proof.
    intros cfg c idx sess r s'. unfold connect. cbv zeta.
    destruct sess as [s|].
    2:{ cbn [option_map].
        destruct (server_version (s_mode cfg) (hello_vers (c_kind c))) as [[gm vers]|]; [|discriminate].
        destruct (checkR gm cfg vers (hello_suites c) None) as [[st old]|];
        (destruct (pick_suite gm cfg vers (hello_suites c)); [|discriminate];
         destruct (negb (newFinishedHash_prf_ok vers)); [discriminate|];
         destruct (client_auth (s_auth cfg) (cert_id gm (c_cert c))); [|discriminate];
         destruct (if c_cache c && negb (s_disabled cfg) then s_keys cfg else [0]); [discriminate|];
         intros [= <- _]; discriminate). }
    destruct (session_usable c s) eqn:Eu; cbn [option_map].
    2:{ destruct (server_version (s_mode cfg) (hello_vers (c_kind c))) as [[gm vers]|]; [|discriminate].
        destruct (checkR gm cfg vers (hello_suites c) None) as [[st old]|];
        (destruct (pick_suite gm cfg vers (hello_suites c)); [|discriminate];
         destruct (negb (newFinishedHash_prf_ok vers)); [discriminate|];
         destruct (client_auth (s_auth cfg) (cert_id gm (c_cert c))); [|discriminate];
         destruct (if c_cache c && negb (s_disabled cfg) then s_keys cfg else [0]); [discriminate|];
         intros [= <- _]; discriminate). }
    destruct (server_version (s_mode cfg) (hello_vers (c_kind c))) as [[gm vers]|]; [|discriminate].
    destruct (checkR gm cfg vers (hello_suites c) (Some (cs_ticket s))) as [[st old]|] eqn:Echk.
    2:{ destruct (pick_suite gm cfg vers (hello_suites c)); [|discriminate].
        destruct (negb (newFinishedHash_prf_ok vers)); [discriminate|].
        destruct (client_auth (s_auth cfg) (cert_id gm (c_cert c))); [|discriminate].
        destruct (if c_cache c && negb (s_disabled cfg) then s_keys cfg else [0]); [discriminate|].
        intros [= <- _]; discriminate. }
    apply resume_decision in Echk. destruct Echk as (Hdis & (tk & [= <-] & Hdec) & Hv & _).
    destruct (decrypt_authentic _ _ _ _ _ Hdec) as (_ & Hst).
    destruct (negb (stored_certs_ok (s_auth cfg) (st_certs st))); [discriminate|].
    destruct (negb (newFinishedHash_prf_ok vers)); [discriminate|].
    destruct (negb (N.eqb (cs_vers s) vers && N.eqb (cs_suite s) (st_suite st))); [discriminate|].
    destruct (negb (N.eqb (cs_ms s) (st_ms st))); [discriminate|].
    destruct old.
    2:{ cbn. intros [= _ C]. }
    destruct (s_keys cfg) as [|k ks] eqn:Ek; [discriminate|].
    intros [= <- <-] _. exists s, st, k, ks. subst vers. rewrite Hst.
    assert (Est : mkSt (st_vers (tk_state (cs_ticket s))) (st_suite (tk_state (cs_ticket s)))
                       (st_ms (tk_state (cs_ticket s))) (st_certs (tk_state (cs_ticket s))) = tk_state (cs_ticket s))
      by (destruct (tk_state (cs_ticket s)); reflexivity).
    cbn. rewrite Est. rewrite Hst in Hdec. rewrite Hdis in *. repeat split; auto.
  Qed.

  (* ---------- fall-back ---------------------------------------------------------------------------- *)
  (* what the property observes of a connection (everything but the ticket that was offered) *)
  Definition obs_of (r : crec) := (r_cls r, r_vers r, r_suite r, r_ms r, r_ccert r, r_scert r, r_stored r).

  (* checkForResumption refuses a missing ticket *)
  Lemma check_no_ticket : forall gm cfg vers offered, checkR gm cfg vers offered None = None.
  Proof. intros. unfold checkForResumption_model. destruct (s_disabled cfg); reflexivity. Qed.

  (* A connection that offers a session the server does not resume - the client drops it (suite / version no
     longer configured), or checkForResumption refuses it (tickets disabled, unknown key, bad MAC, version,
     suite, policy) - is, for every observable, the connection without a session: same outcome class,
     version, suite, master secret, peer identities, same ticket issued, same session stored. *)
  Lemma fallback_is_full_handshake : forall cfg c idx s,
    (session_usable c s = true ->
     forall gm vers, server_version (s_mode cfg) (hello_vers (c_kind c)) = Some (gm, vers) ->
       checkR gm cfg vers (hello_suites c) (Some (cs_ticket s)) = None) ->
    obs_of (fst (connectM cfg c idx (Some s))) = obs_of (fst (connectM cfg c idx None))
    /\ snd (connectM cfg c idx (Some s)) = snd (connectM cfg c idx None).
  Proof.
    intros cfg c idx s H. unfold connect. cbv zeta.
    destruct (session_usable c s) eqn:Eu; cbn [option_map].
    - destruct (server_version (s_mode cfg) (hello_vers (c_kind c))) as [[gm vers]|]; [|split; reflexivity].
      rewrite (H eq_refl gm vers eq_refl), check_no_ticket.
      destruct (pick_suite gm cfg vers (hello_suites c)); [|split; reflexivity].
      destruct (negb (newFinishedHash_prf_ok vers)); [split; reflexivity|].
      destruct (client_auth (s_auth cfg) (cert_id gm (c_cert c))); [|split; reflexivity].
      destruct (if c_cache c && negb (s_disabled cfg) then s_keys cfg else [0]); split; reflexivity.
    - split; reflexivity.
  Qed.

  (* Once checkForResumption has accepted the ticket there is no way back to a full handshake: the abbreviated
     handshake completes, or the connection FAILS on both sides - exactly when the stored client certificates no
     longer verify under the current policy (processCertsFromClient in doResumeHandshake, e.g. after
     ChangeClientAuth to a verifying policy), or the client's cached session disagrees with what the server
     resumed (version, suite - processServerHello - or master secret - Finished); a crash only if the key list
     is empty although an old key was found (impossible) *)
  Lemma resume_attempt_outcomes : forall cfg c idx s gm vers st old,
    session_usable c s = true ->
    server_version (s_mode cfg) (hello_vers (c_kind c)) = Some (gm, vers) ->
    checkR gm cfg vers (hello_suites c) (Some (cs_ticket s)) = Some (st, old) ->
    let r := fst (connectM cfg c idx (Some s)) in
    (r_cls r = Resumed /\ stored_certs_ok (s_auth cfg) (st_certs st) = true
       /\ cs_vers s = vers /\ cs_suite s = st_suite st /\ cs_ms s = st_ms st)
    \/ (r_cls r = Failed /\ snd (connectM cfg c idx (Some s)) = None
        /\ (stored_certs_ok (s_auth cfg) (st_certs st) = false \/ cs_vers s <> vers
            \/ cs_suite s <> st_suite st \/ cs_ms s <> st_ms st))
    \/ (r_cls r = Crashed /\ old = true /\ s_keys cfg = []).
  Proof.
    intros cfg c idx s gm vers st old Hu Hv Hc. unfold connect. cbv zeta.
    rewrite Hu, Hv. cbn [option_map]. rewrite Hc.
    destruct (stored_certs_ok (s_auth cfg) (st_certs st)) eqn:E1; cbn [negb].
    2:{ right; left. cbn. repeat split; auto. }
    assert (newFinishedHash_prf_ok vers = true) as -> by reflexivity. cbn [negb].
    destruct (N.eqb_spec (cs_vers s) vers) as [E2|E2]; cbn [andb negb].
    2:{ right; left. cbn. repeat split; auto. }
    destruct (N.eqb_spec (cs_suite s) (st_suite st)) as [E3|E3]; cbn [negb].
    2:{ right; left. cbn. repeat split; auto. }
    destruct (N.eqb_spec (cs_ms s) (st_ms st)) as [E4|E4]; cbn [negb].
    2:{ right; left. cbn. repeat split; auto. }
    destruct old.
    - destruct (s_keys cfg) as [|k ks] eqn:Ek.
      + right; right. cbn. auto.
      + left. cbn. auto.
    - left. cbn. auto.
  Qed.

  (* ---------- histories: the invariant ------------------------------------------------------------ *)
  Definition state_ok (log : list crec) (st : sst) : Prop :=
    exists r, nth_error log (N.to_nat (st_ms st)) = Some r /\ r_cls r = Full
              /\ r_vers r = st_vers st /\ r_suite r = st_suite st /\ r_ms r = st_ms st /\ r_ccert r = st_certs st.

  Definition sess_ok (log : list crec) (s : csess) : Prop :=
    (authentic (cs_ticket s) -> state_ok log (tk_state (cs_ticket s)))
    /\ exists r, nth_error log (N.to_nat (cs_ms s)) = Some r /\ r_cls r = Full
                 /\ r_ms r = cs_ms s /\ r_scert r = cs_srv s.

  (* what the property says about a log: a resumed connection has the version, suite, master secret and
     the two peer identities of the (earlier) full handshake that created its master secret *)
  Definition log_ok (log : list crec) : Prop :=
    forall i r, nth_error log i = Some r ->
      (r_cls r = Full -> r_ms r = N.of_nat i)
      /\ (r_cls r = Resumed ->
          exists r0, nth_error log (N.to_nat (r_ms r)) = Some r0 /\ r_cls r0 = Full
                     /\ r_vers r0 = r_vers r /\ r_suite r0 = r_suite r /\ r_ms r0 = r_ms r
                     /\ r_ccert r0 = r_ccert r /\ r_scert r0 = r_scert r /\ (N.to_nat (r_ms r) < i)%nat).

  Definition hinv (h : hstate) : Prop :=
    log_ok (h_log h) /\ forall k s, In (k, s) (l_q (h_cache h)) -> sess_ok (h_log h) s.

  Lemma nth_error_snoc_old : forall {A} (l : list A) x i y, nth_error l i = Some y -> nth_error (l ++ [x]) i = Some y.
  Proof. intros A l x i y H. rewrite nth_error_app1; [exact H|]. apply nth_error_Some. congruence. Qed.

  Lemma state_ok_mono : forall log r st, state_ok log st -> state_ok (log ++ [r]) st.
  Proof. intros log r st (r0 & Hn & H). exists r0. split; [apply nth_error_snoc_old; exact Hn|exact H]. Qed.

  Lemma sess_ok_mono : forall log r s, sess_ok log s -> sess_ok (log ++ [r]) s.
  Proof.
    intros log r s (H1 & r0 & Hn & H2). split.
    - intros Ha. apply state_ok_mono. auto.
    - exists r0. split; [apply nth_error_snoc_old; exact Hn|exact H2].
  Qed.

  Lemma log_ok_snoc : forall log r,
    log_ok log ->
    (r_cls r = Full -> r_ms r = N.of_nat (length log)) ->
    (r_cls r = Resumed ->
       exists r0, nth_error log (N.to_nat (r_ms r)) = Some r0 /\ r_cls r0 = Full
                  /\ r_vers r0 = r_vers r /\ r_suite r0 = r_suite r /\ r_ms r0 = r_ms r
                  /\ r_ccert r0 = r_ccert r /\ r_scert r0 = r_scert r) ->
    log_ok (log ++ [r]).
  Proof.
    intros log r Hlog HF HR i x Hn.
    destruct (Nat.lt_ge_cases i (length log)) as [Hi|Hi].
    - rewrite nth_error_app1 in Hn by exact Hi. destruct (Hlog i x Hn) as (A & B). split; [exact A|].
      intros Hc. destruct (B Hc) as (r0 & Hn0 & Hrest). exists r0. split; [apply nth_error_snoc_old; exact Hn0|exact Hrest].
    - rewrite nth_error_app2 in Hn by exact Hi.
      destruct (i - length log)%nat as [|d] eqn:Ed; cbn in Hn; [|destruct d; discriminate].
      injection Hn as <-. assert (i = length log) by lia. subst i. split; [exact HF|].
      intros Hc. destruct (HR Hc) as (r0 & Hn0 & H1 & H2 & H3 & H4 & H5 & H6).
      exists r0. split; [apply nth_error_snoc_old; exact Hn0|]. repeat split; auto.
      apply nth_error_Some. congruence.
  Qed.

  (* one connection keeps the invariant *)
  Lemma connect_ok : forall cfg c log sess r stored,
    log_ok log ->
    (forall s, sess = Some s -> sess_ok log s) ->
    connectM cfg c (N.of_nat (length log)) sess = (r, stored) ->
    log_ok (log ++ [r]) /\ (forall s', stored = Some s' -> sess_ok (log ++ [r]) s').
  Proof.
    intros cfg c log sess r stored Hlog Hsess. unfold connect.
    set (idx := N.of_nat (length log)).
    set (sess' := match sess with Some s => if session_usable c s then Some s else None | None => None end).
    assert (Hsess' : forall s, sess' = Some s -> sess_ok log s).
    { intros s. unfold sess'. destruct sess as [s0|]; [|discriminate]. destruct (session_usable c s0); [|discriminate].
      intros [= <-]. apply Hsess. reflexivity. }
    clearbody sess'. clear Hsess sess.
    assert (Hfail : forall cl o, cl = Failed \/ cl = Crashed ->
              log_ok (log ++ [mkR cl 0 0 0 0 0 o false]) /\ (forall s' : csess, None = Some s' -> sess_ok (log ++ [mkR cl 0 0 0 0 0 o false]) s')).
    { intros cl o Hcl. split; [|discriminate]. apply log_ok_snoc; [exact Hlog| |]; cbn; intros C; destruct Hcl; congruence. }
    destruct (server_version (s_mode cfg) (hello_vers (c_kind c))) as [[gm vers]|].
    2:{ intros [= <- <-]. apply Hfail. auto. }
    (* the full-handshake branch, shared by the two places it is reached from *)
    assert (Hfull : forall r stored,
      match pick_suite gm cfg vers (hello_suites c) with
      | None => (failed (option_map (@cs_ticket tagT) sess'), None)
      | Some suite =>
        if negb (newFinishedHash_prf_ok vers) then (crashed (option_map (@cs_ticket tagT) sess'), None)
        else match client_auth (s_auth cfg) (cert_id gm (c_cert c)) with
        | None => (failed (option_map (@cs_ticket tagT) sess'), None)
        | Some cid =>
          let issue := c_cache c && negb (s_disabled cfg) in
          match (if issue then s_keys cfg else [0]) with
          | [] => (crashed (option_map (@cs_ticket tagT) sess'), None)
          | k :: _ =>
            let st := mkSt vers suite idx cid in
            let stored := if issue then Some (mkCs (seal mac k idx st) vers suite idx (server_id gm)) else None in
            (mkR Full vers suite idx cid (server_id gm) (option_map (@cs_ticket tagT) sess') issue, stored)
          end
        end
      end = (r, stored) ->
      log_ok (log ++ [r]) /\ (forall s', stored = Some s' -> sess_ok (log ++ [r]) s')).
    { intros r0 stored0.
      destruct (pick_suite gm cfg vers (hello_suites c)) as [suite|]; [|intros [= <- <-]; apply Hfail; auto].
      destruct (negb (newFinishedHash_prf_ok vers)); [intros [= <- <-]; apply Hfail; auto|].
      destruct (client_auth (s_auth cfg) (cert_id gm (c_cert c))) as [cid|]; [|intros [= <- <-]; apply Hfail; auto].
      cbv zeta.
      destruct (if c_cache c && negb (s_disabled cfg) then s_keys cfg else [0]) as [|k ks]; [intros [= <- <-]; apply Hfail; auto|].
      intros [= <- <-].
      assert (Hnth : nth_error (log ++ [mkR Full vers suite idx cid (server_id gm) (option_map (@cs_ticket tagT) sess') (c_cache c && negb (s_disabled cfg))])
                       (N.to_nat idx) = Some (mkR Full vers suite idx cid (server_id gm) (option_map (@cs_ticket tagT) sess') (c_cache c && negb (s_disabled cfg)))).
      { unfold idx. rewrite Nat2N.id. rewrite nth_error_app2 by lia. rewrite Nat.sub_diag. reflexivity. }
      split.
      - apply log_ok_snoc; [exact Hlog|cbn; intros _; reflexivity|cbn; discriminate].
      - intros s'. destruct (c_cache c && negb (s_disabled cfg)); [|discriminate]. intros [= <-]. split; cbn.
        + intros _. eexists. split; [exact Hnth|]. cbn. repeat split; reflexivity.
        + eexists. split; [exact Hnth|]. cbn. repeat split; reflexivity. }
    destruct (checkR gm cfg vers (hello_suites c) (option_map (@cs_ticket tagT) sess')) as [[st old]|] eqn:Echk.
    2:{ destruct sess'; apply Hfull. }
    destruct sess' as [s|]; [|apply Hfull].
    (* abbreviated handshake *)
    apply resume_decision in Echk. destruct Echk as (Hdis & (tk & Etk & Hdec) & Hv & Hoff & Hsup & Hpol).
    cbn in Etk. injection Etk as <-.
    destruct (decrypt_authentic _ _ _ _ _ Hdec) as (Hauth & Hst).
    destruct (Hsess' s eq_refl) as (Hs1 & rc & Hnc & Hc1 & Hc2 & Hc3).
    specialize (Hs1 Hauth). rewrite <- Hst in Hs1. destruct Hs1 as (r0 & Hn0 & Hf0 & Hv0 & Hsu0 & Hms0 & Hcc0).
    destruct (negb (stored_certs_ok (s_auth cfg) (st_certs st))); [intros [= <- <-]; apply Hfail; auto|].
    destruct (negb (newFinishedHash_prf_ok vers)); [intros [= <- <-]; apply Hfail; auto|].
    destruct (negb (N.eqb (cs_vers s) vers && N.eqb (cs_suite s) (st_suite st))); [intros [= <- <-]; apply Hfail; auto|].
    destruct (N.eqb_spec (cs_ms s) (st_ms st)) as [Ems|Ems]; cbn [negb]; [|intros [= <- <-]; apply Hfail; auto].
    destruct (if old then s_keys cfg else [0]) as [|k ks]; [intros [= <- <-]; apply Hfail; auto|].
    intros [= <- <-].
    assert (rc = r0) by (rewrite Ems in Hnc; congruence). subst rc.
    split.
    - apply log_ok_snoc; [exact Hlog|cbn; discriminate|]. cbn. intros _. exists r0. repeat split; auto; congruence.
    - intros s'. destruct old; [|discriminate]. intros [= <-]. split; cbn.
      + intros _. apply state_ok_mono. exists r0. cbn. repeat split; auto; congruence.
      + exists r0. split; [apply nth_error_snoc_old; rewrite Ems; exact Hn0|]. repeat split; auto; congruence.
  Qed.

  Lemma forge_ok : forall h name f,
    hinv h ->
    (forall s, sess_ok (h_log h) s -> sess_ok (h_log h) (f s)) ->
    hinv (forge h name f).
  Proof.
    intros h name f (Hlog & Hc) Hf. unfold forge.
    destruct (lru_get (h_cache h) name) as [[s|] c'] eqn:E; [|split; assumption].
    split; cbn; [exact Hlog|]. intros k s' Hin. apply lru_put_subset in Hin.
    assert (Ec : c' = snd (lru_get (h_cache h) name)) by (rewrite E; reflexivity).
    destruct Hin as [[= -> ->]|Hin].
    - apply Hf. apply (Hc name). apply lru_get_hit_In. rewrite E. reflexivity.
    - apply (Hc k). rewrite Ec in Hin. eapply lru_get_subset. exact Hin.
  Qed.

  Lemma hstep_ok : forall h o, hinv h -> hinv (hstepM h o).
  Proof.
    intros h o Hinv. destruct o as [i c|i ks|i su|i a|i b|name v|name su|name]; cbn [hstep].
    - destruct (nth_error (h_srv h) i) as [cfg|]; [|exact Hinv].
      destruct Hinv as (Hlog & Hc).
      destruct (if c_cache c then lru_get (h_cache h) (c_name c) else (None, h_cache h)) as [sess cache1] eqn:Eg.
      assert (Hsess : forall s, sess = Some s -> sess_ok (h_log h) s).
      { intros s ->. destruct (c_cache c); [|discriminate].
        apply (Hc (c_name c)). apply lru_get_hit_In. rewrite Eg. reflexivity. }
      assert (Hc1 : forall k s, In (k, s) (l_q cache1) -> sess_ok (h_log h) s).
      { intros k s Hin. apply (Hc k). destruct (c_cache c).
        - assert (cache1 = snd (lru_get (h_cache h) (c_name c))) by (rewrite Eg; reflexivity). subst cache1.
          eapply lru_get_subset. exact Hin.
        - injection Eg as _ <-. exact Hin. }
      destruct (connectM cfg c (N.of_nat (length (h_log h))) sess) as [r stored] eqn:Ec.
      destruct (connect_ok _ _ _ _ _ _ Hlog Hsess Ec) as (Hlog' & Hst).
      split; cbn; [exact Hlog'|]. intros k s Hin.
      destruct stored as [s0|]; [destruct (c_cache c)|].
      + apply lru_put_subset in Hin. destruct Hin as [[= -> ->]|Hin]; [apply Hst; reflexivity|].
        apply sess_ok_mono. eapply Hc1. exact Hin.
      + apply sess_ok_mono. eapply Hc1. exact Hin.
      + apply sess_ok_mono. eapply Hc1. exact Hin.
    - destruct ks; exact Hinv.
    - exact Hinv.
    - exact Hinv.
    - exact Hinv.
    - apply forge_ok; [exact Hinv|]. intros s Hs. exact Hs.
    - apply forge_ok; [exact Hinv|]. intros s Hs. exact Hs.
    - apply forge_ok; [exact Hinv|]. intros s (H1 & H2). split; [|exact H2].
      cbn. unfold authentic. cbn. intros C. symmetry in C. exfalso. exact (junk_not_mac _ _ C).
  Qed.

  Lemma hrun_ok : forall ops h, hinv h -> hinv (hrunM h ops).
  Proof.
    induction ops as [|o ops IH]; intros h H; [exact H|]. cbn. apply IH. apply hstep_ok. exact H.
  Qed.

  Lemma hinit_ok : forall capacity srvs, hinv (hinit capacity srvs).
  Proof.
    intros capacity srvs. split; cbn.
    - intros i r Hn. destruct i; discriminate.
    - intros k s [].
  Qed.

  Theorem history_invariant : forall capacity srvs ops, log_ok (h_log (hrunM (hinit capacity srvs) ops)).
  Proof. intros. apply (hrun_ok ops (hinit capacity srvs) (hinit_ok capacity srvs)). Qed.
End ResumeProofs.

(* the idealisation, as one premise *)
Definition ideal_mac {tagT : Type} (mac : N -> N * N * sst -> tagT) (tag_eqb : tagT -> tagT -> bool) (junk : tagT) : Prop :=
  (forall a b, tag_eqb a b = true <-> a = b)
  /\ (forall k m k' m', mac k m = mac k' m' -> k = k' /\ m = m')
  /\ (forall k m, mac k m <> junk).

(* the term instance used by the extracted runner meets it (so the premise is satisfiable) *)
Lemma sst_eqb_eq : forall a b, sst_eqb a b = true <-> a = b.
Proof.
  intros [v s m c] [v' s' m' c']. unfold sst_eqb. cbn. rewrite !andb_true_iff, !N.eqb_eq. split.
  - intros (((-> & ->) & ->) & ->). reflexivity.
  - intros [= -> -> -> ->]. auto.
Qed.

Lemma term_ideal_mac : ideal_mac term_mac term_tag_eqb term_junk.
Proof.
  split; [|split].
  - intros [[k [[n i] s]]|] [[k' [[n' i'] s']]|]; cbn; split; intro H; try discriminate; try reflexivity.
    + rewrite !andb_true_iff, !N.eqb_eq, sst_eqb_eq in H. destruct H as (((-> & ->) & ->) & ->). reflexivity.
    + injection H as -> -> -> ->. rewrite !N.eqb_refl. cbn. apply sst_eqb_eq. reflexivity.
  - intros k m k' m' [= -> ->]. auto.
  - intros k m. discriminate.
Qed.
