(* Lemmas about the byte-level ticket model (Resume/TicketModel.v). *)
From Coq Require Import List NArith Arith Bool Lia ZifyN ZifyNat ZifyBool.
From GmsmVerif Require Import Lib.Outcome Resume.TicketModel.
Import ListNotations.

(* ---------- checked accesses ------------------------------------------------------------------ *)
Lemma rd_ok : forall d i, i < length d -> exists b, rd d i = Ok b.
Proof.
  intros d i H. unfold rd. destruct (nth_error d i) eqn:E; [eauto|].
  apply nth_error_None in E. lia.
Qed.

Lemma from_ok : forall d n, n <= length d -> from d n = Ok (skipn n d).
Proof. intros d n H. unfold from. destruct (Nat.leb_spec n (length d)); [reflexivity|lia]. Qed.

Lemma upto_ok : forall d n, n <= length d -> upto d n = Ok (firstn n d).
Proof. intros d n H. unfold upto. destruct (Nat.leb_spec n (length d)); [reflexivity|lia]. Qed.

Lemma slice_ok : forall d a b, a <= b -> b <= length d -> slice d a b = Ok (firstn (b - a) (skipn a d)).
Proof.
  intros d a b H1 H2. unfold slice.
  destruct (Nat.leb_spec a b); [|lia]. destruct (Nat.leb_spec b (length d)); [reflexivity|lia].
Qed.

(* ---------- unmarshal never panics ------------------------------------------------------------- *)
Lemma read_certs_total : forall n d, no_crash (read_certs n d).
Proof.
  induction n as [|n IH]; intros d; cbn [read_certs]; [exact I|].
  destruct (Nat.ltb_spec (length d) 4) as [H|H]; [exact I|].
  destruct (rd_ok d 0 ltac:(lia)) as [b0 E0]. destruct (rd_ok d 1 ltac:(lia)) as [b1 E1].
  destruct (rd_ok d 2 ltac:(lia)) as [b2 E2]. destruct (rd_ok d 3 ltac:(lia)) as [b3 E3].
  rewrite E0, E1, E2, E3. cbn [obind].
  rewrite (from_ok d 4) by lia. cbn [obind].
  set (L := (b0 * 16777216 + b1 * 65536 + b2 * 256 + b3)%N).
  destruct (N.ltb_spec (len (skipn 4 d)) L) as [HL|HL]; [exact I|].
  unfold len in HL.
  rewrite upto_ok by lia. cbn [obind]. rewrite from_ok by lia. cbn [obind].
  specialize (IH (skipn (N.to_nat L) (skipn 4 d))).
  destruct (read_certs n (skipn (N.to_nat L) (skipn 4 d))) as [[cs rest]| | |]; cbn [obind]; try exact I; exact IH.
Qed.

Lemma unmarshal_total : forall data, no_crash (unmarshal data).
Proof.
  intros data. unfold unmarshal.
  destruct (Nat.ltb_spec (length data) 8) as [H|H]; [exact I|].
  destruct (rd_ok data 0 ltac:(lia)) as [b0 E0]. destruct (rd_ok data 1 ltac:(lia)) as [b1 E1].
  destruct (rd_ok data 2 ltac:(lia)) as [b2 E2]. destruct (rd_ok data 3 ltac:(lia)) as [b3 E3].
  destruct (rd_ok data 4 ltac:(lia)) as [b4 E4]. destruct (rd_ok data 5 ltac:(lia)) as [b5 E5].
  rewrite E0, E1, E2, E3, E4, E5. cbn [obind].
  rewrite (from_ok data 6) by lia. cbn [obind].
  set (L := N.to_nat (b4 * 256 + b5)%N).
  destruct (Nat.ltb_spec (length (skipn 6 data)) L) as [HL|HL]; [exact I|].
  rewrite upto_ok by lia. cbn [obind]. rewrite from_ok by lia. cbn [obind].
  set (d2 := skipn L (skipn 6 data)).
  destruct (Nat.ltb_spec (length d2) 2) as [H2|H2]; [exact I|].
  destruct (rd_ok d2 0 ltac:(lia)) as [c0 F0]. destruct (rd_ok d2 1 ltac:(lia)) as [c1 F1].
  rewrite F0, F1. cbn [obind]. rewrite (from_ok d2 2) by lia. cbn [obind].
  pose proof (read_certs_total (N.to_nat (c0 * 256 + c1)%N) (skipn 2 d2)) as T.
  destruct (read_certs (N.to_nat (c0 * 256 + c1)%N) (skipn 2 d2)) as [[cs rest]| | |]; cbn [obind]; try exact I; try exact T.
  destruct rest; exact I.
Qed.

(* ---------- round trip -------------------------------------------------------------------------- *)
Definition wf_state (s : sstate) : Prop :=
  (ss_vers s < 65536)%N /\ (ss_suite s < 65536)%N /\ (len (ss_ms s) < 65536)%N
  /\ (N.of_nat (length (ss_certs s)) < 65536)%N /\ Forall (fun c => (len c < 4294967296)%N) (ss_certs s).

Lemma be16_dec : forall n, (n < 65536)%N -> ((n / 256) mod 256 * 256 + n mod 256)%N = n.
Proof. intros n H. lia. Qed.

Lemma be32_dec : forall n, (n < 4294967296)%N ->
  ((n / 16777216) mod 256 * 16777216 + (n / 65536) mod 256 * 65536 + (n / 256) mod 256 * 256 + n mod 256)%N = n.
Proof. intros n H. lia. Qed.

Lemma firstn_app_exact : forall {A} (a b : list A), firstn (length a) (a ++ b) = a.
Proof. intros A a b. rewrite firstn_app, Nat.sub_diag, firstn_all. cbn. apply app_nil_r. Qed.

Lemma skipn_app_exact : forall {A} (a b : list A), skipn (length a) (a ++ b) = b.
Proof. intros A a b. rewrite skipn_app, Nat.sub_diag, skipn_all. reflexivity. Qed.

Lemma firstn_app_len : forall {A} n (a b : list A), length a = n -> firstn n (a ++ b) = a.
Proof. intros A n a b <-. apply firstn_app_exact. Qed.
Lemma skipn_app_len : forall {A} n (a b : list A), length a = n -> skipn n (a ++ b) = b.
Proof. intros A n a b <-. apply skipn_app_exact. Qed.

Lemma read_certs_roundtrip : forall cs rest,
  Forall (fun c => (len c < 4294967296)%N) cs ->
  read_certs (length cs) (concat (map marshal_cert cs) ++ rest) = Ok (cs, rest).
Proof.
  induction cs as [|c cs IH]; intros rest HF; [reflexivity|].
  inversion HF as [|? ? Hc HF']; subst.
  cbn [length read_certs map concat]. change (marshal_cert c) with (be32 (len c) ++ c). unfold be32.
  cbn [app length Nat.ltb Nat.leb rd nth_error obind].
  rewrite be32_dec by exact Hc.
  rewrite from_ok by (cbn [length]; lia). cbn [skipn obind].
  rewrite <- app_assoc.
  destruct (N.ltb_spec (len (c ++ concat (map marshal_cert cs) ++ rest)) (len c)) as [H|H].
  { unfold len in H. rewrite app_length in H. lia. }
  unfold len. rewrite Nat2N.id.
  rewrite upto_ok by (rewrite app_length; lia). cbn [obind].
  rewrite from_ok by (rewrite app_length; lia). cbn [obind].
  rewrite firstn_app_exact, skipn_app_exact. rewrite IH by exact HF'. reflexivity.
Qed.

Lemma unmarshal_parts : forall v0 v1 s0 s1 l0 l1 ms c0 c1 rest,
  length ms = N.to_nat (l0 * 256 + l1)%N ->
  unmarshal (v0 :: v1 :: s0 :: s1 :: l0 :: l1 :: ms ++ c0 :: c1 :: rest) =
  (do x <- read_certs (N.to_nat (c0 * 256 + c1)%N) rest;
   match snd x with
   | [] => Ok (mkSS (v0 * 256 + v1)%N (s0 * 256 + s1)%N ms (fst x) false)
   | _ => Err 1
   end).
Proof.
  intros v0 v1 s0 s1 l0 l1 ms c0 c1 rest H. unfold unmarshal.
  set (data := v0 :: v1 :: s0 :: s1 :: l0 :: l1 :: ms ++ c0 :: c1 :: rest).
  assert (HL : length data = 8 + length ms + length rest)
    by (unfold data; cbn [length]; rewrite app_length; cbn [length]; lia).
  destruct (Nat.ltb_spec (length data) 8); [lia|].
  unfold data at 1 2 3 4 5 6. cbn [rd nth_error obind].
  rewrite from_ok by lia. cbn [obind]. unfold data. cbn [skipn].
  rewrite <- H.
  destruct (Nat.ltb_spec (length (ms ++ c0 :: c1 :: rest)) (length ms)); [rewrite app_length in *; lia|].
  rewrite upto_ok by (rewrite app_length; lia). cbn [obind].
  rewrite from_ok by (rewrite app_length; lia). cbn [obind].
  rewrite firstn_app_exact, skipn_app_exact.
  cbn [length Nat.ltb Nat.leb rd nth_error obind].
  rewrite from_ok by (cbn [length]; lia). cbn [skipn obind].
  destruct (read_certs _ rest) as [[cs r]| | |]; reflexivity.
Qed.

Lemma unmarshal_marshal : forall s, wf_state s ->
  unmarshal (marshal s) = Ok (mkSS (ss_vers s) (ss_suite s) (ss_ms s) (ss_certs s) false).
Proof.
  intros [v su ms cs old] (Hv & Hs & Hm & Hc & HF). cbn [ss_vers ss_suite ss_ms ss_certs] in *.
  unfold marshal. cbn [ss_vers ss_suite ss_ms ss_certs]. unfold be16. cbn [app].
  rewrite unmarshal_parts by (rewrite be16_dec by exact Hm; unfold len; lia).
  rewrite !be16_dec by (try assumption; lia). rewrite Nat2N.id.
  pose proof (read_certs_roundtrip cs [] HF) as R. rewrite app_nil_r in R. rewrite R. reflexivity.
Qed.

(* ---------- tickets ------------------------------------------------------------------------------ *)
Lemma bytes_eqb_eq : forall a b, bytes_eqb a b = true <-> a = b.
Proof.
  induction a as [|x a IH]; destruct b as [|y b]; cbn; split; intro H; try reflexivity; try discriminate.
  - apply andb_prop in H. destruct H as [H1 H2]. apply N.eqb_eq in H1. apply IH in H2. congruence.
  - inversion H; subst. rewrite N.eqb_refl. cbn. apply IH. reflexivity.
Qed.

Section TicketBytesProofs.
  Variable ctr : list N -> list N -> list N -> list N.
  Variable hmacf : list N -> list N -> list N.

  Lemma find_keyB_some : forall name keys i j k,
    find_keyB name keys i = Some (j, k) ->
    i <= j /\ nth_error keys (j - i) = Some k /\ kb_name k = name
    /\ (forall m k', m < j - i -> nth_error keys m = Some k' -> kb_name k' <> name).
  Proof.
    intros name keys. induction keys as [|k0 keys IH]; intros i j k H; cbn in H; [discriminate|].
    destruct (bytes_eqb name (kb_name k0)) eqn:E.
    - inversion H; subst. rewrite Nat.sub_diag. apply bytes_eqb_eq in E.
      repeat split; auto. intros m k' Hm. lia.
    - apply IH in H. destruct H as (Hle & Hn & Hk & Hfirst).
      split; [lia|]. replace (j - i) with (S (j - S i)) by lia. cbn [nth_error].
      repeat split; auto.
      intros m k' Hm Hn'. destruct m as [|m]; cbn in Hn'.
      + injection Hn' as <-. intro C. rewrite C in E.
        assert (HT : bytes_eqb name name = true) by (apply bytes_eqb_eq; reflexivity).
        rewrite HT in E. discriminate.
      + eapply Hfirst; [|exact Hn']. lia.
  Qed.

  (* decryptTicket never panics, whatever the bytes, the keys and the primitives *)
  Lemma decryptTicket_bytes_total : forall disabled keys enc,
    no_crash (decryptTicket_bytes ctr hmacf disabled keys enc).
  Proof.
    intros disabled keys enc. unfold decryptTicket_bytes, ticketKeyNameLen, aesBlockSize, sha256Size.
    destruct disabled; cbn [orb]; [exact I|].
    destruct (Nat.ltb_spec (length enc) (16 + 16 + 32)) as [H|H]; [exact I|].
    rewrite upto_ok by lia. cbn [obind]. rewrite slice_ok by lia. cbn [obind].
    rewrite from_ok by lia. cbn [obind].
    destruct (find_keyB (firstn 16 enc) keys 0) as [[i key]|]; [|exact I].
    rewrite upto_ok by lia. cbn [obind].
    destruct (bytes_eqb _ _); cbn [negb]; [|exact I].
    rewrite slice_ok by lia. cbn [obind].
    pose proof (unmarshal_total (ctr (kb_aes key) (firstn (16 + 16 - 16) (skipn 16 enc))
                  (firstn (length enc - 32 - (16 + 16)) (skipn (16 + 16) enc)))) as T.
    destruct (unmarshal _); cbn [obind]; try exact I; exact T.
  Qed.

  (* what a successful decryptTicket establishes about the bytes *)
  Lemma decryptTicket_bytes_gate : forall disabled keys enc st,
    decryptTicket_bytes ctr hmacf disabled keys enc = Ok st ->
    disabled = false /\ 16 + 16 + 32 <= length enc
    /\ exists i key,
         nth_error keys i = Some key /\ kb_name key = firstn 16 enc
         /\ (forall m k', m < i -> nth_error keys m = Some k' -> kb_name k' <> firstn 16 enc)
         /\ skipn (length enc - 32) enc = hmacf (kb_hmac key) (firstn (length enc - 32) enc)
         /\ ss_old st = Nat.ltb 0 i
         /\ exists st0, unmarshal (ctr (kb_aes key) (firstn 16 (skipn 16 enc))
                                     (firstn (length enc - 64) (skipn 32 enc))) = Ok st0
                        /\ ss_vers st = ss_vers st0 /\ ss_suite st = ss_suite st0
                        /\ ss_ms st = ss_ms st0 /\ ss_certs st = ss_certs st0.
  Proof.
    intros disabled keys enc st. unfold decryptTicket_bytes, ticketKeyNameLen, aesBlockSize, sha256Size.
    destruct disabled; cbn [orb]; [discriminate|].
    destruct (Nat.ltb_spec (length enc) (16 + 16 + 32)) as [H|H]; [discriminate|].
    rewrite upto_ok by lia. cbn [obind]. rewrite slice_ok by lia. cbn [obind].
    rewrite from_ok by lia. cbn [obind].
    destruct (find_keyB (firstn 16 enc) keys 0) as [[i key]|] eqn:EF; [|discriminate].
    rewrite upto_ok by lia. cbn [obind].
    destruct (bytes_eqb _ _) eqn:EM; cbn [negb]; [|discriminate].
    rewrite slice_ok by lia. cbn [obind].
    replace (16 + 16 - 16) with 16 by lia. replace (length enc - 32 - (16 + 16)) with (length enc - 64) by lia.
    replace (16 + 16) with 32 by lia.
    destruct (unmarshal _) as [st0| | |] eqn:EU; cbn [obind]; try discriminate.
    intros [= <-]. apply find_keyB_some in EF. destruct EF as (_ & Hn & Hk & Hfirst).
    rewrite Nat.sub_0_r in *. apply bytes_eqb_eq in EM.
    split; [reflexivity|]. split; [lia|]. exists i, key. repeat split; auto.
    exists st0. cbn. auto.
  Qed.

  Hypothesis hmac_len : forall k m, length (hmacf k m) = 32.
  Hypothesis ctr_len : forall k iv m, length (ctr k iv m) = length m.
  Hypothesis ctr_inv : forall k iv m, ctr k iv (ctr k iv m) = m.

  (* a ticket sealed by encryptTicket is opened by decryptTicket of any configuration whose first key of
     that name is the sealing key; usedOldKey tells whether that key is the first one *)
  Lemma decrypt_encrypt_bytes : forall keys key iv st pre,
    wf_state st -> length (kb_name key) = 16 -> length iv = 16 ->
    Forall (fun k => kb_name k <> kb_name key) pre ->
    decryptTicket_bytes ctr hmacf false (pre ++ key :: keys)
      (kb_name key ++ iv ++ ctr (kb_aes key) iv (marshal st)
       ++ hmacf (kb_hmac key) (kb_name key ++ iv ++ ctr (kb_aes key) iv (marshal st)))
    = Ok (mkSS (ss_vers st) (ss_suite st) (ss_ms st) (ss_certs st) (Nat.ltb 0 (length pre))).
  Proof.
    intros keys key iv st pre Hwf Hn Hiv Hpre.
    set (ct := ctr (kb_aes key) iv (marshal st)).
    set (body := kb_name key ++ iv ++ ct).
    assert (Hb : length body = 32 + length ct) by (unfold body; rewrite !app_length; lia).
    replace (kb_name key ++ iv ++ ct ++ hmacf (kb_hmac key) body) with (body ++ hmacf (kb_hmac key) body)
      by (unfold body; rewrite <- !app_assoc; reflexivity).
    unfold decryptTicket_bytes, ticketKeyNameLen, aesBlockSize, sha256Size. cbn [orb].
    assert (HL : length (body ++ hmacf (kb_hmac key) body) = 64 + length ct)
      by (rewrite app_length, hmac_len; lia).
    destruct (Nat.ltb_spec (length (body ++ hmacf (kb_hmac key) body)) (16 + 16 + 32)); [lia|].
    rewrite upto_ok by lia. cbn [obind]. rewrite slice_ok by lia. cbn [obind].
    rewrite from_ok by lia. cbn [obind].
    assert (Hname : firstn 16 (body ++ hmacf (kb_hmac key) body) = kb_name key).
    { unfold body. rewrite <- app_assoc. apply firstn_app_len. exact Hn. }
    rewrite Hname.
    assert (Hfind : forall i, find_keyB (kb_name key) (pre ++ key :: keys) i = Some (i + length pre, key)).
    { clear - Hpre. induction pre as [|p pre IH]; intros i; cbn.
      - assert (bytes_eqb (kb_name key) (kb_name key) = true) as -> by (apply bytes_eqb_eq; reflexivity).
        f_equal. f_equal. lia.
      - inversion Hpre; subst. destruct (bytes_eqb (kb_name key) (kb_name p)) eqn:E.
        + apply bytes_eqb_eq in E. congruence.
        + rewrite IH by assumption. f_equal. f_equal. lia. }
    rewrite Hfind. cbn [Nat.add].
    rewrite upto_ok by lia. cbn [obind].
    replace (length (body ++ hmacf (kb_hmac key) body) - 32) with (length body) by lia.
    rewrite firstn_app_exact, skipn_app_exact.
    assert (bytes_eqb (hmacf (kb_hmac key) body) (hmacf (kb_hmac key) body) = true) as -> by (apply bytes_eqb_eq; reflexivity).
    cbn [negb]. rewrite slice_ok by lia. cbn [obind].
    assert (Hiv' : firstn (32 - 16) (skipn 16 (body ++ hmacf (kb_hmac key) body)) = iv).
    { unfold body. rewrite <- !app_assoc. rewrite (skipn_app_len 16) by exact Hn.
      apply firstn_app_len. lia. }
    rewrite Hiv'.
    assert (Hct : firstn (length body - 32) (skipn 32 (body ++ hmacf (kb_hmac key) body)) = ct).
    { unfold body at 2. rewrite <- !app_assoc. rewrite (app_assoc (kb_name key) iv).
      rewrite (skipn_app_len 32) by (rewrite app_length; lia).
      apply firstn_app_len. lia. }
    rewrite Hct. unfold ct. rewrite ctr_inv. rewrite unmarshal_marshal by exact Hwf. cbn [obind].
    reflexivity.
  Qed.
End TicketBytesProofs.
