(* Proofs about the model of sm4/padding.  Property theorems are restated in Props/C19.v. *)
From Coq Require Import List NArith Arith Bool Lia.
From GmsmVerif Require Import Lib.Outcome Pad.PadModel Pad.PadSpec.
Import ListNotations.

(* ---------- list facts ------------------------------------------------------------------- *)
Lemma skipn_skipn' {A} (a b : nat) (l : list A) : skipn a (skipn b l) = skipn (b + a) l.
Proof.
  revert l; induction b as [|b IH]; intros l; cbn [Nat.add].
  - reflexivity.
  - destruct l as [|x l]; cbn [skipn].
    + destruct a; reflexivity.
    + apply IH.
Qed.

Lemma firstn_skipn_add {A} (a b : nat) (l : list A) :
  firstn a l ++ firstn b (skipn a l) = firstn (a + b) l.
Proof.
  revert l; induction a as [|a IH]; intros l; cbn [Nat.add firstn skipn app].
  - reflexivity.
  - destruct l as [|x l]; cbn [firstn skipn app].
    + destruct b; reflexivity.
    + f_equal; apply IH.
Qed.

Lemma skipn_nil_iff {A} (n : nat) (l : list A) : skipn n l = [] <-> length l <= n.
Proof.
  split; intros H.
  - pose proof (skipn_length n l) as E; rewrite H in E; cbn in E; lia.
  - apply skipn_all2; exact H.
Qed.

Lemma firstn_min {A} (n : nat) (l : list A) : firstn (Nat.min n (length l)) l = firstn n l.
Proof.
  destruct (Nat.le_ge_cases n (length l)) as [H|H].
  - rewrite Nat.min_l by exact H; reflexivity.
  - rewrite Nat.min_r by exact H. rewrite firstn_all, firstn_all2 by exact H. reflexivity.
Qed.

Lemma length_pad_pos bs n : 1 <= bs -> 1 <= pad_len bs n <= bs.
Proof.
  intros H; unfold pad_len.
  pose proof (Nat.mod_upper_bound n bs ltac:(lia)). lia.
Qed.

Lemma pad_total_multiple bs n : 1 <= bs -> (n + pad_len bs n) mod bs = 0.
Proof.
  intros H; unfold pad_len.
  pose proof (Nat.mod_upper_bound n bs ltac:(lia)) as Hu.
  pose proof (Nat.div_mod n bs ltac:(lia)) as Hd.
  replace (n + (bs - n mod bs)) with ((n / bs + 1) * bs) by nia.
  apply Nat.mod_mul; lia.
Qed.

Lemma length_pkcs7_pad bs d : length (pkcs7_pad bs d) = length d + pad_len bs (length d).
Proof. unfold pkcs7_pad; rewrite app_length, repeat_length; reflexivity. Qed.

(* ---------- the scripted source ----------------------------------------------------------- *)
Lemma src_read_spec s L out e s' :
  src_read s L = (out, e, s') ->
  exists k, k <= L /\ out = firstn k (s_rem s) /\ s_rem s' = skipn k (s_rem s) /\
            length (s_sched s') <= length (s_sched s) /\
            (e = true -> s_rem s' = []) /\
            (s_rem s <> [] -> s_sched s = [] -> k = L /\ e = false /\ s_sched s' = []) /\
            (s_rem s <> [] -> s_sched s <> [] -> length (s_sched s') < length (s_sched s)) /\
            (s_rem s = [] -> e = true /\ s' = s).
Proof.
  unfold src_read; intros H.
  destruct (s_rem s) as [|x rem] eqn:Erem.
  - inversion H; subst; exists 0; cbn; rewrite Erem; repeat split; auto; try lia; congruence.
  - destruct (s_sched s) as [|[k f] t] eqn:Esch.
    + inversion H; subst; clear H. exists L; cbn [s_rem s_sched length].
      repeat split; auto; try congruence;
        destruct (skipn L (x :: rem)); congruence.
    + inversion H; subst; clear H. exists (Nat.min k L); cbn [s_rem s_sched length].
      repeat split; auto; try lia; try congruence;
        destruct (skipn (Nat.min k L) (x :: rem)); congruence.
Qed.

Lemma src_read_spec' s L out e s' :
  src_read s L = (out, e, s') ->
  exists g, g <= L /\ g <= length (s_rem s) /\ out = firstn g (s_rem s) /\ length out = g /\
            s_rem s' = skipn g (s_rem s) /\
            length (s_sched s') <= length (s_sched s) /\
            (e = true -> s_rem s' = []) /\
            (s_rem s <> [] -> s_sched s = [] -> g = Nat.min L (length (s_rem s)) /\ e = false /\ s_sched s' = []) /\
            (s_rem s <> [] -> s_sched s <> [] -> length (s_sched s') < length (s_sched s)) /\
            (s_rem s = [] -> e = true /\ s' = s).
Proof.
  intros H. destruct (src_read_spec _ _ _ _ _ H) as (k & Hk & Ho & Hr & Hs & He & Hn & Hc & Hz).
  exists (Nat.min k (length (s_rem s))).
  assert (Hsk : skipn (Nat.min k (length (s_rem s))) (s_rem s) = skipn k (s_rem s)).
  { destruct (Nat.le_ge_cases k (length (s_rem s))) as [Hle|Hge].
    - rewrite Nat.min_l by exact Hle; reflexivity.
    - rewrite Nat.min_r by exact Hge. rewrite skipn_all, skipn_all2 by exact Hge. reflexivity. }
  repeat split; try lia; auto.
  - rewrite firstn_min; exact Ho.
  - rewrite Ho, firstn_length; reflexivity.
  - rewrite Hsk; exact Hr.
  - destruct (Hn H0 H1) as (-> & _ & _); reflexivity.
  - apply Hn; assumption.
  - apply Hn; assumption.
  - apply Hz; assumption.
  - apply Hz; assumption.
Qed.

(* ---------- the padding reader ------------------------------------------------------------ *)
Section Reader.
  Variables (data : list byte) (bs : nat).
  Hypothesis Hbs : 1 <= bs <= 255.
  Let pad := repeat (N.of_nat (pad_len bs (length data))) (pad_len bs (length data)).
  Let stream := pkcs7_pad bs data.

  Lemma stream_eq : stream = data ++ pad.
  Proof. reflexivity. Qed.

  Lemma length_pad : length pad = pad_len bs (length data).
  Proof. unfold pad; apply repeat_length. Qed.

  Lemma length_stream : length stream = length data + pad_len bs (length data).
  Proof. apply length_pkcs7_pad. Qed.

  Lemma pad_nonempty : pad <> [].
  Proof.
    intros E. pose proof length_pad as H. rewrite E in H. cbn in H.
    pose proof (length_pad_pos bs (length data) ltac:(lia)). lia.
  Qed.

  Lemma skipn_stream_le pos : pos <= length data -> skipn pos stream = skipn pos data ++ pad.
  Proof.
    intros H. rewrite stream_eq, skipn_app.
    replace (pos - length data) with 0 by lia. reflexivity.
  Qed.

  Lemma skipn_stream_ge pos : length data <= pos -> skipn pos stream = skipn (pos - length data) pad.
  Proof.
    intros H. rewrite stream_eq, skipn_app.
    rewrite (skipn_all2 data) by exact H. reflexivity.
  Qed.

  Lemma skipn_min {A} n (l : list A) : skipn (Nat.min n (length l)) l = skipn n l.
  Proof.
    destruct (Nat.le_ge_cases n (length l)) as [Hle|Hge].
    - rewrite Nat.min_l by exact Hle; reflexivity.
    - rewrite Nat.min_r by exact Hge. rewrite skipn_all, skipn_all2 by exact Hge. reflexivity.
  Qed.

  Definition FInv (p : prd) (pos : nat) : Prop :=
    r_bs p = bs /\ r_padding p = None /\ r_eop p = false /\ r_readed p = pos /\
    pos <= length data /\ s_rem (r_in p) = skipn pos data /\ (r_eof p = true -> pos = length data).

  Definition mu (p : prd) : nat :=
    length (s_sched (r_in p)) + match s_rem (r_in p) with [] => 1 | _ => 2 end.

  Lemma fill_spec fuel : forall p L acc pos0,
    FInv p (pos0 + length acc) -> acc = firstn (length acc) (skipn pos0 data) -> length acc <= L ->
    (r_eof p = true \/ length acc = L \/ fuel >= mu p) ->
    exists p' acc', fill fuel p L acc = Ok (p', acc') /\
      FInv p' (pos0 + length acc') /\ acc' = firstn (length acc') (skipn pos0 data) /\
      length acc' <= L /\ (length acc' = L \/ r_eof p' = true) /\
      length (s_sched (r_in p')) <= length (s_sched (r_in p)).
  Proof.
    induction fuel as [|fuel IH]; intros p L acc pos0 HI Hacc HL Hf;
      pose proof HI as (I1 & I2 & I3 & I4 & I5 & I6 & I7).
    - cbn [fill].
      destruct (Nat.ltb_spec (length acc) L) as [Hlt|Hge]; cbn [andb].
      + destruct (r_eof p) eqn:Eeof; cbn [negb].
        * exists p, acc. repeat split; auto.
        * exfalso. destruct Hf as [Hf|[Hf|Hf]]; try congruence; try lia.
          unfold mu in Hf. destruct (s_rem (r_in p)); lia.
      + exists p, acc. repeat split; auto; try lia.
    - cbn [fill].
      destruct (Nat.ltb_spec (length acc) L) as [Hlt|Hge]; cbn [andb].
      2:{ exists p, acc. repeat split; auto; try lia. }
      destruct (r_eof p) eqn:Eeof; cbn [negb].
      { exists p, acc. repeat split; auto. }
      destruct (src_read (r_in p) (L - length acc)) as [[got e] s'] eqn:Esr.
      destruct (src_read_spec' _ _ _ _ _ Esr)
        as (g & HgL & Hgr & Hgot & Hlen & Hrem & Hsch & He & Hnos & Hsome & Hempty).
      set (p1 := mkPrd s' (r_padding p) (r_bs p) (r_readed p + length got) e (r_eop p)).
      assert (Hremlen : length (s_rem (r_in p)) = length data - (pos0 + length acc)).
      { rewrite I6, skipn_length; reflexivity. }
      assert (HI1 : FInv p1 (pos0 + length (acc ++ got))).
      { unfold FInv, p1; cbn [r_bs r_padding r_eop r_readed r_in r_eof].
        rewrite app_length, Hlen.
        repeat split; auto; try lia.
        - rewrite Hrem, I6, skipn_skipn'. f_equal; lia.
        - intros ->. specialize (He eq_refl). rewrite Hrem, I6, skipn_skipn' in He.
          apply skipn_nil_iff in He. lia. }
      assert (Hacc1 : acc ++ got = firstn (length (acc ++ got)) (skipn pos0 data)).
      { rewrite app_length, Hlen, <- firstn_skipn_add, <- Hacc. f_equal.
        rewrite Hgot, I6, skipn_skipn'. reflexivity. }
      assert (HL1 : length (acc ++ got) <= L) by (rewrite app_length, Hlen; lia).
      destruct (IH p1 L (acc ++ got) pos0 HI1 Hacc1 HL1) as (p' & acc' & Hfill & R1 & R2 & R3 & R4 & R5).
      { (* fuel for the rest of the loop *)
        destruct e eqn:Ee; [left; reflexivity|].
        destruct (s_rem (r_in p)) as [|x rem] eqn:Erem.
        - destruct (Hempty eq_refl) as [? _]; congruence.
        - destruct Hf as [Hf|[Hf|Hf]]; try congruence; try lia.
          destruct (s_sched (r_in p)) as [|en t] eqn:Esch.
          + destruct Hnos as (Hg & _ & Hs'); try congruence.
            destruct (Nat.le_ge_cases (L - length acc) (length (x :: rem))) as [Hle|Hgt].
            * right; left. rewrite app_length, Hlen, Hg, Nat.min_l by exact Hle. lia.
            * right; right. unfold mu, p1; cbn [r_in].
              rewrite Hs', Hrem, Hg, Nat.min_r by exact Hgt.
              rewrite skipn_all. unfold mu in Hf. rewrite Esch, Erem in Hf. cbn [length] in *. lia.
          + right; right. unfold mu, p1; cbn [r_in].
            assert (length (s_sched s') < length (en :: t)) by (apply Hsome; congruence).
            unfold mu in Hf. rewrite Esch, Erem in Hf. destruct (s_rem s'); lia. }
      exists p', acc'. cbn zeta. fold p1. rewrite Hfill.
      split; [reflexivity|]. split; [exact R1|]. split; [exact R2|]. split; [exact R3|].
      split; [exact R4|]. unfold p1 in R5; cbn [r_in] in R5. lia.
  Qed.

  Definition RInv (p : prd) (pos : nat) : Prop :=
    if r_eof p then
      r_bs p = bs /\ s_rem (r_in p) = [] /\ length data <= pos <= length stream /\
      r_padding p = Some (skipn pos stream) /\ (r_eop p = true -> pos = length stream)
    else FInv p pos.

  Lemma RInv_init sched : RInv (new_reader (mkSrc data sched) bs) 0.
  Proof. unfold RInv, FInv, new_reader; cbn. repeat split; auto; try lia; congruence. Qed.

  Lemma new_padding_spec p :
    FInv p (length data) -> r_eof p = true -> RInv (new_padding p) (length data).
  Proof.
    intros (I1 & I2 & I3 & I4 & I5 & I6 & I7) He.
    unfold new_padding. rewrite I2. unfold RInv; cbn [r_eof r_bs r_in r_padding r_eop]. rewrite He.
    pose proof (length_pad_pos bs (length data) ltac:(lia)) as Hp.
    repeat split; auto; try lia.
    - rewrite I6. apply skipn_all.
    - rewrite length_stream; lia.
    - f_equal. rewrite skipn_stream_ge, Nat.sub_diag by lia. cbn [skipn].
      rewrite I1, I4. fold (pad_len bs (length data)). unfold pad.
      rewrite N.mod_small; [reflexivity|]. lia.
    - congruence.
  Qed.

  Lemma prd_read_spec fuel p L pos :
    RInv p pos -> 1 <= L -> fuel >= length (s_sched (r_in p)) + 2 ->
    exists p', prd_read fuel p L = Ok (p', firstn L (skipn pos stream), Nat.eqb pos (length stream)) /\
      RInv p' (Nat.min (pos + L) (length stream)) /\
      length (s_sched (r_in p')) <= length (s_sched (r_in p)).
  Proof.
    intros HR HL Hfuel. unfold prd_read, RInv in *.
    pose proof (length_pad_pos bs (length data) ltac:(lia)) as Hp.
    pose proof length_stream as Hls.
    destruct (r_eof p) eqn:Eeof; cbn [andb negb].
    - destruct HR as (R1 & R2 & R3 & R4 & R5).
      destruct (r_eop p) eqn:Eeop.
      + specialize (R5 eq_refl). subst pos.
        exists p. rewrite skipn_all, firstn_nil, Nat.eqb_refl. split; [reflexivity|].
        rewrite Nat.min_r by lia. rewrite Eeof. repeat split; auto; lia.
      + cbn [obind negb]. rewrite Eeop; cbn [negb]. rewrite R4. cbn [length Nat.sub app].
        rewrite Nat.sub_0_r. unfold pad_read.
        destruct (skipn pos stream) as [|x l] eqn:Esk.
        * apply skipn_nil_iff in Esk. assert (pos = length stream) by lia. subst pos.
          eexists; split.
          { rewrite firstn_nil, Nat.eqb_refl. reflexivity. }
          cbn [r_eof r_bs r_in r_padding r_eop orb]. rewrite Eeof.
          rewrite Nat.min_r by lia. rewrite skipn_all.
          repeat split; auto; lia.
        * assert (pos < length stream).
          { destruct (Nat.lt_ge_cases pos (length stream)) as [|Hge]; [assumption|].
            apply skipn_nil_iff in Hge. congruence. }
          eexists; split.
          { rewrite (proj2 (Nat.eqb_neq pos (length stream))) by lia. reflexivity. }
          cbn [r_eof r_bs r_in r_padding r_eop orb]. rewrite Eeof.
          repeat split; auto; try lia.
          f_equal. rewrite <- Esk, skipn_skipn', skipn_min. reflexivity.
    - (* the source has not reported EOF yet *)
      destruct (fill_spec fuel p L [] pos) as (p' & acc & Hfill & F1 & F2 & F3 & F4 & F5).
      { cbn [length]. rewrite Nat.add_0_r. exact HR. }
      { reflexivity. }
      { cbn [length]; lia. }
      { right; right. unfold mu. destruct (s_rem (r_in p)); lia. }
      rewrite Hfill. cbn [obind].
      pose proof F1 as (I1 & I2 & I3 & I4 & I5 & I6 & I7).
      assert (Hacc_len : length acc <= length data - pos).
      { rewrite F2, firstn_length, skipn_length. lia. }
      assert (Hne : Nat.eqb pos (length stream) = false) by (apply Nat.eqb_neq; lia).
      rewrite Hne.
      destruct (Nat.eqb_spec (length acc) L) as [Hfull|Hnot].
      + (* buffer filled from the source alone *)
        eexists; split; [|split].
        * f_equal. f_equal. f_equal.
          rewrite skipn_stream_le by lia. rewrite firstn_app.
          replace (L - length (skipn pos data)) with 0 by (rewrite skipn_length; lia).
          cbn [firstn]. rewrite app_nil_r. rewrite <- Hfull at 1. exact F2.
        * rewrite Nat.min_l by lia. rewrite <- Hfull.
          destruct (r_eof p') eqn:Eeof'.
          -- specialize (I7 eq_refl). rewrite I7. apply new_padding_spec; [rewrite <- I7; exact F1|exact Eeof'].
          -- rewrite Eeof'. exact F1.
        * destruct (r_eof p'); [unfold new_padding; destruct (r_padding p')|]; cbn [r_in]; exact F5.
      + (* short: the source is exhausted, the rest comes from the pad *)
        destruct F4 as [F4|F4]; [contradiction|]. rewrite F4.
        specialize (I7 F4).
        pose proof (new_padding_spec p' ltac:(rewrite <- I7; exact F1) F4) as HRn.
        unfold RInv in HRn.
        assert (Eeof'' : r_eof (new_padding p') = true).
        { unfold new_padding; destruct (r_padding p'); exact F4. }
        rewrite Eeof'' in HRn. destruct HRn as (N1 & N2 & N3 & N4 & N5).
        assert (Eeop'' : r_eop (new_padding p') = false).
        { unfold new_padding; destruct (r_padding p'); exact I3. }
        rewrite Eeop''; cbn [negb]. rewrite N4.
        rewrite skipn_stream_ge, Nat.sub_diag by lia. cbn [skipn]. unfold pad_read.
        destruct pad as [|x l] eqn:Epad; [exfalso; apply pad_nonempty; exact Epad|].
        rewrite <- Epad.
        eexists; split; [|split].
        * f_equal. f_equal. f_equal.
          rewrite skipn_stream_le by lia. rewrite firstn_app.
          assert (Hall : length acc = length (skipn pos data)) by (rewrite skipn_length; lia).
          assert (Hacc : acc = skipn pos data) by (rewrite F2, Hall; apply firstn_all).
          rewrite (firstn_all2 (skipn pos data)) by lia.
          rewrite <- Hall, Hacc. reflexivity.
        * cbn [r_eof r_bs r_in r_padding r_eop orb]. rewrite Eeof''.
          repeat split; auto; try lia.
          f_equal. rewrite skipn_min. rewrite skipn_stream_ge by lia. f_equal. lia.
        * cbn [r_in]. unfold new_padding; destruct (r_padding p'); cbn [r_in]; exact F5.
  Qed.
End Reader.

(* ---------- a caller issuing Reads of arbitrary sizes -------------------------------------- *)
Fixpoint eof_seen (total pos : nat) (bufs : list nat) : bool :=
  match bufs with
  | [] => false
  | L :: r => if Nat.eqb pos total then true else eof_seen total (Nat.min (pos + L) total) r
  end.

Lemma run_reader_spec data bs (Hbs : 1 <= bs <= 255) fuel : forall bufs p pos,
  RInv data bs p pos -> Forall (fun L => 1 <= L) bufs -> fuel >= length (s_sched (r_in p)) + 2 ->
  run_reader fuel p bufs =
    Ok (firstn (list_sum bufs) (skipn pos (pkcs7_pad bs data)),
        eof_seen (length (pkcs7_pad bs data)) pos bufs).
Proof.
  induction bufs as [|L r IH]; intros p pos HR HF Hfuel.
  - reflexivity.
  - inversion HF as [|? ? HL HF']; subst.
    destruct (prd_read_spec data bs Hbs fuel p L pos HR HL Hfuel) as (p' & Hrd & HR' & Hs).
    cbn [run_reader eof_seen list_sum]. rewrite Hrd. cbn [obind].
    destruct (Nat.eqb_spec pos (length (pkcs7_pad bs data))) as [->|Hne].
    + rewrite skipn_all, !firstn_nil. reflexivity.
    + rewrite (IH p' _ HR' HF') by lia. cbn [obind].
      f_equal. f_equal. change (list_sum (L :: r)) with (L + list_sum r).
      rewrite <- firstn_skipn_add. f_equal. f_equal.
      rewrite skipn_skipn', skipn_min. reflexivity.
Qed.

Lemma eof_seen_enough total : forall bufs pos,
  Forall (fun L => 1 <= L) bufs ->
  pos <= total -> total - pos < length bufs -> eof_seen total pos bufs = true.
Proof.
  induction bufs as [|L r IH]; intros pos HF Hle Hlt; cbn [length eof_seen] in *; [lia|].
  inversion HF as [|? ? HL HF']; subst.
  destruct (Nat.eqb_spec pos total) as [|Hne]; [reflexivity|].
  apply IH; [exact HF'|lia|lia].
Qed.

Lemma eof_seen_all total : forall bufs pos,
  pos <= total -> eof_seen total pos bufs = true -> total - pos <= list_sum bufs.
Proof.
  induction bufs as [|L r IH]; intros pos Hle H; cbn [eof_seen] in *; [discriminate|].
  change (list_sum (L :: r)) with (L + list_sum r).
  destruct (Nat.eqb_spec pos total) as [->|Hne]; [lia|].
  assert (Hm : Nat.min (pos + L) total <= total) by lia.
  specialize (IH _ Hm H). lia.
Qed.

Lemma list_sum_ge_length bufs : Forall (fun L => 1 <= L) bufs -> length bufs <= list_sum bufs.
Proof.
  induction 1 as [|x l Hx Hl IH]; [cbn; lia|].
  change (list_sum (x :: l)) with (x + list_sum l). cbn [length]. lia.
Qed.

(* ---------- the un-padding writer ------------------------------------------------------------ *)
Lemma app_split_length {A} (a b s : list A) k :
  a ++ b = s -> length b = k -> a = firstn (length s - k) s /\ b = skipn (length s - k) s.
Proof.
  intros <- <-. rewrite app_length. replace (length a + length b - length b) with (length a) by lia.
  rewrite firstn_app, Nat.sub_diag, firstn_all, skipn_app, Nat.sub_diag, skipn_all. cbn.
  rewrite app_nil_r. split; reflexivity.
Qed.

Definition WInv (bs : nat) (w : pwr) (s : list byte) : Prop :=
  w_bs w = bs /\ w_out w ++ w_cache w = s /\ length (w_cache w) = Nat.min (length s) bs.

Lemma pwr_write_inv bs w s buff : WInv bs w s -> WInv bs (pwr_write w buff) (s ++ buff).
Proof.
  intros (H1 & H2 & H3). unfold pwr_write, WInv.
  assert (Hs : length s = length (w_out w) + length (w_cache w)) by (rewrite <- H2, app_length; reflexivity).
  destruct (Nat.ltb_spec (w_bs w) (length (w_cache w ++ buff))) as [Hlt|Hge];
    cbn [w_bs w_out w_cache]; rewrite app_length in *.
  - split; [exact H1|]. split.
    + rewrite <- app_assoc, firstn_skipn, app_assoc, H2. reflexivity.
    + rewrite skipn_length, !app_length. lia.
  - split; [exact H1|]. split.
    + rewrite app_assoc, H2. reflexivity.
    + rewrite !app_length. lia.
Qed.

Lemma fold_write_inv bs : forall chunks w s,
  WInv bs w s -> WInv bs (fold_left pwr_write chunks w) (s ++ concat chunks).
Proof.
  induction chunks as [|c r IH]; intros w s H; cbn [fold_left concat].
  - rewrite app_nil_r; exact H.
  - rewrite app_assoc. apply IH, pwr_write_inv, H.
Qed.

Lemma pwr_final_spec bs w s : WInv bs w s -> pwr_final w = writer_spec bs s.
Proof.
  intros (H1 & H2 & H3).
  destruct (app_split_length _ _ _ _ H2 H3) as [Ho Hc].
  assert (E : length s - Nat.min (length s) bs = length s - bs) by lia.
  rewrite E in Ho, Hc.
  unfold pwr_final, writer_spec. rewrite Hc, Ho, H1. reflexivity.
Qed.

Theorem run_writer_spec bs chunks : run_writer bs chunks = writer_spec bs (concat chunks).
Proof.
  unfold run_writer. apply (pwr_final_spec bs).
  apply (fold_write_inv bs chunks (new_writer bs) []).
  unfold WInv, new_writer; cbn. auto.
Qed.

Theorem writer_emitted_prefix bs chunks :
  writer_emitted bs chunks = firstn (length (concat chunks) - bs) (concat chunks).
Proof.
  unfold writer_emitted.
  destruct (fold_write_inv bs chunks (new_writer bs) []) as (H1 & H2 & H3).
  { unfold WInv, new_writer; cbn. auto. }
  cbn [app] in *.
  destruct (app_split_length _ _ _ _ H2 H3) as [Ho _]. rewrite Ho. f_equal. lia.
Qed.

Lemma last_app_ne {A} (a b : list A) d : b <> [] -> last (a ++ b) d = last b d.
Proof.
  intros Hb. induction a as [|x a IH]; [reflexivity|].
  cbn [app]. destruct (a ++ b) eqn:E.
  - destruct a, b; cbn in E; congruence.
  - cbn [last]. exact IH.
Qed.

Lemma last_repeat {A} (x d : A) n : last (repeat x (S n)) d = x.
Proof. induction n as [|n IH]; [reflexivity|]. cbn [repeat last] in *. exact IH. Qed.

Lemma forallb_eq_repeat k (l : list N) :
  forallb (fun v => Nat.eqb (N.to_nat v) k) l = true -> l = repeat (N.of_nat k) (length l).
Proof.
  induction l as [|x l IH]; cbn [forallb length repeat]; intros H; [reflexivity|].
  apply andb_true_iff in H as [Hx Hl]. apply Nat.eqb_eq in Hx.
  rewrite <- IH by exact Hl. f_equal. rewrite <- Hx. symmetry; apply N2Nat.id.
Qed.

Lemma forallb_repeat k n : forallb (fun v => Nat.eqb (N.to_nat v) k) (repeat (N.of_nat k) n) = true.
Proof.
  induction n as [|n IH]; [reflexivity|]. cbn [repeat forallb].
  rewrite Nat2N.id, Nat.eqb_refl. exact IH.
Qed.

Theorem writer_spec_complete bs s d : 1 <= bs -> valid_padded bs s d -> writer_spec bs s = Ok d.
Proof.
  intros Hbs (k & Hk & Hs & Hlen).
  set (rep := repeat (N.of_nat k) k) in *.
  assert (Hrep : length rep = k) by apply repeat_length.
  assert (Hls : length s = length d + k) by (rewrite Hs, app_length, Hrep; reflexivity).
  set (d1 := firstn (length d - (bs - k)) d).
  set (d2 := skipn (length d - (bs - k)) d).
  assert (Hd : d = d1 ++ d2) by (symmetry; apply firstn_skipn).
  assert (Hd2 : length d2 = bs - k) by (unfold d2; rewrite skipn_length; lia).
  assert (Hb : skipn (length s - bs) s = d2 ++ rep).
  { rewrite Hs at 2. rewrite skipn_app.
    replace (length s - bs - length d) with 0 by lia. cbn [skipn].
    unfold d2. f_equal. f_equal. lia. }
  assert (Hf : firstn (length s - bs) s = d1).
  { rewrite Hs at 2. rewrite firstn_app.
    replace (length s - bs - length d) with 0 by lia. cbn [firstn]. rewrite app_nil_r.
    unfold d1. f_equal. lia. }
  unfold writer_spec. rewrite Hb, Hf.
  assert (Hlb : length (d2 ++ rep) = bs) by (rewrite app_length; lia).
  rewrite Hlb, Nat.eqb_refl. cbn [negb].
  destruct (Nat.eqb_spec bs 0) as [|_]; [lia|].
  assert (Hlast : last (d2 ++ rep) 0%N = N.of_nat k).
  { rewrite last_app_ne.
    - unfold rep. destruct k as [|k']; [lia|]. apply last_repeat.
    - intros E. rewrite E in Hrep. cbn in Hrep. lia. }
  rewrite Hlast, Nat2N.id.
  destruct (Nat.ltb_spec bs k) as [|_]; [lia|].
  destruct (Nat.eqb_spec k 0) as [|_]; [lia|]. cbn [orb].
  rewrite skipn_app, firstn_app.
  replace (bs - k - length d2) with 0 by lia. cbn [skipn firstn].
  rewrite <- Hd2, skipn_all, firstn_all. cbn [app]. rewrite app_nil_r.
  unfold rep at 1. rewrite forallb_repeat. rewrite <- Hd. reflexivity.
Qed.

Theorem writer_spec_sound bs s d : 1 <= bs -> writer_spec bs s = Ok d -> valid_padded bs s d.
Proof.
  intros Hbs. unfold writer_spec.
  set (b := skipn (length s - bs) s).
  destruct (Nat.eqb_spec (length b) bs) as [Hlb|]; cbn [negb]; [|discriminate].
  destruct (Nat.eqb_spec (length b) 0) as [|_]; [lia|].
  set (k := N.to_nat (last b 0%N)).
  destruct (Nat.ltb_spec bs k) as [|Hk1]; cbn [orb]; [discriminate|].
  destruct (Nat.eqb_spec k 0) as [|Hk0]; [discriminate|].
  destruct (forallb _ _) eqn:Hall; [|discriminate].
  intros [= <-].
  apply forallb_eq_repeat in Hall. rewrite skipn_length in Hall.
  replace (length b - (length b - k)) with k in Hall by lia.
  exists k. split; [lia|]. split.
  - rewrite <- app_assoc, <- Hall, firstn_skipn. unfold b. symmetry; apply firstn_skipn.
  - unfold b in Hlb. rewrite skipn_length in Hlb. lia.
Qed.

Theorem writer_spec_pad bs d : 1 <= bs -> writer_spec bs (pkcs7_pad bs d) = Ok d.
Proof.
  intros Hbs. apply writer_spec_complete; [exact Hbs|].
  pose proof (length_pad_pos bs (length d) Hbs) as Hp.
  exists (pad_len bs (length d)). split; [exact Hp|]. split; [reflexivity|].
  rewrite length_pkcs7_pad. unfold pad_len in *.
  pose proof (Nat.mod_le (length d) bs ltac:(lia)). lia.
Qed.
