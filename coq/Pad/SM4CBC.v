(* The C19 stream helpers with the real cipher: CBC over SM4Spec (which C05 proves to be what
   sm4.NewCipher / Encrypt / Decrypt compute, and C11 to be what the CBC helpers chain). *)
From Coq Require Import List NArith Arith Bool Lia.
From GmsmVerif Require Import Lib.Outcome Pad.PadModel Pad.PadSpec Pad.PadProofs Pad.StreamProofs Pad.CBCInstance Pad.CBCBytes.
From GmsmVerif Require Import SM4.SM4Spec SM4.ModesProofs.
Import ListNotations.
Local Open Scope nat_scope.

Lemma bytes_ok_bytes l : bytes_ok l = true <-> bytes l.
Proof.
  unfold bytes_ok, bytes. rewrite forallb_forall, Forall_forall.
  split; intros H x Hx; specialize (H x Hx); [apply N.ltb_lt|apply N.ltb_lt]; exact H.
Qed.

Theorem sm4_cbc_stream_roundtrip :
  forall key iv data sched1 sched2 fuel1 fuel2,
    length iv = 16 -> bytes_ok iv = true -> bytes_ok data = true ->
    fuel1 >= length (pkcs7_pad 16 data) / BUF + length sched1 + 3 ->
    fuel2 >= length (pkcs7_pad 16 data) / BUF + length sched2 + 3 ->
    exists ct, p7_block_enc 16 (cbc_enc 16 (sm4_encrypt_block key)) fuel1 iv (mkSrc data sched1) = Ok ct /\
               p7_block_decrypt 16 (cbc_dec 16 (sm4_decrypt_block key)) fuel2 iv (mkSrc ct sched2) = Ok data.
Proof.
  intros key iv data sched1 sched2 fuel1 fuel2 Hiv Biv Bd Hf1 Hf2.
  apply (cbc_bytes_stream_roundtrip 16 (sm4_encrypt_block key) (sm4_decrypt_block key)); try assumption.
  - lia.
  - reflexivity.
  - intros b _. apply sm4_E_len.
  - intros b _. apply bytes_ok_bytes. apply sm4_E_ok.
  - intros b Hb Bb. apply sm4_DE; [exact Hb|apply bytes_ok_bytes; exact Bb].
  - apply bytes_ok_bytes; exact Biv.
  - apply bytes_ok_bytes; exact Bd.
Qed.
