(* cipher.BlockMode instances that satisfy the hypotheses of the C19 stream theorems:
   CBC encryption / decryption over ANY block permutation (what cipher.NewCBCEncrypter /
   NewCBCDecrypter implement, and what the real SM4-CBC run of the driver uses). *)
From Coq Require Import List NArith Arith Bool Lia.
From GmsmVerif Require Import Lib.Outcome Pad.PadModel Pad.PadSpec Pad.PadProofs Pad.StreamProofs.
Import ListNotations.

Section CBC.
  Variable bs : nat.
  Variables E D : list N -> list N.
  Hypothesis Hbs : 1 <= bs.
  Hypothesis E_len : forall b, length b = bs -> length (E b) = bs.
  Hypothesis D_len : forall b, length b = bs -> length (D b) = bs.
  Hypothesis D_E : forall b, length b = bs -> D (E b) = b.

  Definition xorb_ (a b : list N) : list N := zip_with N.lxor a b.

  Lemma xorb_length a b : length a = length b -> length (xorb_ a b) = length a.
  Proof.
    revert b; induction a as [|x a IH]; intros [|y b] H; cbn in *; try lia. rewrite IH; lia.
  Qed.

  Lemma xorb_cancel a b : length a = length b -> xorb_ (xorb_ a b) b = a.
  Proof.
    revert b; induction a as [|x a IH]; intros [|y b] H; cbn in *; try lia; [reflexivity|].
    rewrite IH by lia. f_equal. rewrite N.lxor_assoc, N.lxor_nilpotent, N.lxor_0_r. reflexivity.
  Qed.

  (* the state is the previous ciphertext block (initially the IV); input consumed block by block;
     recursion on a fuel that any value >= the number of bytes satisfies *)
  Fixpoint cbc_enc_go (fuel : nat) (prev b : list N) : list N * list N :=
    match fuel with
    | O => (prev, [])
    | S fuel' =>
      match b with
      | [] => (prev, [])
      | _ =>
        let c := E (xorb_ (firstn bs b) prev) in
        let '(st, rest) := cbc_enc_go fuel' c (skipn bs b) in (st, c ++ rest)
      end
    end.
  Definition cbc_enc (prev b : list N) := cbc_enc_go (length b) prev b.

  Fixpoint cbc_dec_go (fuel : nat) (prev b : list N) : list N * list N :=
    match fuel with
    | O => (prev, [])
    | S fuel' =>
      match b with
      | [] => (prev, [])
      | _ =>
        let blk := firstn bs b in
        let p := xorb_ (D blk) prev in
        let '(st, rest) := cbc_dec_go fuel' blk (skipn bs b) in (st, p ++ rest)
      end
    end.
  Definition cbc_dec (prev b : list N) := cbc_dec_go (length b) prev b.

  (* fuel irrelevance *)
  Lemma enc_fuel : forall f1 f2 prev b, length b <= f1 -> length b <= f2 ->
    cbc_enc_go f1 prev b = cbc_enc_go f2 prev b.
  Proof.
    induction f1 as [|f1 IH]; intros f2 prev b H1 H2.
    - destruct b; [|cbn in H1; lia]. destruct f2; reflexivity.
    - destruct f2 as [|f2].
      + destruct b; [reflexivity|cbn in H2; lia].
      + cbn [cbc_enc_go]. destruct b as [|x b]; [reflexivity|].
        assert (Hl : length (skipn bs (x :: b)) <= length b).
        { rewrite skipn_length. cbn [length]. lia. }
        cbn [length] in H1, H2.
        rewrite (IH f2) by lia. reflexivity.
  Qed.

  Lemma dec_fuel : forall f1 f2 prev b, length b <= f1 -> length b <= f2 ->
    cbc_dec_go f1 prev b = cbc_dec_go f2 prev b.
  Proof.
    induction f1 as [|f1 IH]; intros f2 prev b H1 H2.
    - destruct b; [|cbn in H1; lia]. destruct f2; reflexivity.
    - destruct f2 as [|f2].
      + destruct b; [reflexivity|cbn in H2; lia].
      + cbn [cbc_dec_go]. destruct b as [|x b]; [reflexivity|].
        assert (Hl : length (skipn bs (x :: b)) <= length b).
        { rewrite skipn_length. cbn [length]. lia. }
        cbn [length] in H1, H2.
        rewrite (IH f2) by lia. reflexivity.
  Qed.

  (* a block-aligned list is empty or starts with a full block followed by an aligned list *)
  Lemma aligned_cases (a : list N) : length a mod bs = 0 ->
    a = [] \/ (bs <= length a /\ length (skipn bs a) mod bs = 0 /\ length (skipn bs a) < length a).
  Proof.
    intros H. destruct a as [|x a]; [left; reflexivity|right].
    apply Nat.mod_divides in H as [k Hk]; [|lia].
    destruct k as [|k]; [cbn in Hk; lia|].
    rewrite skipn_length, Hk. repeat split; try nia.
    replace (bs * S k - bs) with (k * bs) by nia. apply Nat.mod_mul; lia.
  Qed.

  Lemma enc_split : forall n a prev b, length a <= n -> length a mod bs = 0 ->
    cbc_enc prev (a ++ b) =
      let '(st1, oa) := cbc_enc prev a in let '(st2, ob) := cbc_enc st1 b in (st2, oa ++ ob).
  Proof.
    induction n as [|n IH]; intros a prev b Hn Ha.
    - destruct a; [|cbn in Hn; lia]. cbn [app]. unfold cbc_enc at 2. cbn.
      destruct (cbc_enc prev b); reflexivity.
    - destruct (aligned_cases a Ha) as [->|(Hge & Hal & Hlt)].
      + cbn [app]. unfold cbc_enc at 2. cbn. destruct (cbc_enc prev b); reflexivity.
      + destruct a as [|x a]; [cbn in Hge; lia|].
        unfold cbc_enc at 1 2. cbn [app length cbc_enc_go].
        assert (F1 : firstn bs ((x :: a) ++ b) = firstn bs (x :: a)).
        { rewrite firstn_app. replace (bs - length (x :: a)) with 0 by lia. cbn [firstn]. apply app_nil_r. }
        assert (S1 : skipn bs ((x :: a) ++ b) = skipn bs (x :: a) ++ b).
        { rewrite skipn_app. replace (bs - length (x :: a)) with 0 by lia. reflexivity. }
        change (x :: a ++ b) with ((x :: a) ++ b). rewrite F1, S1.
        set (c := E (xorb_ (firstn bs (x :: a)) prev)).
        rewrite (enc_fuel _ (length (skipn bs (x :: a) ++ b)) c).
        2:{ rewrite app_length, skipn_length, app_length. cbn [length]. lia. }
        2:{ lia. }
        fold (cbc_enc c (skipn bs (x :: a) ++ b)).
        rewrite (IH (skipn bs (x :: a)) c b) by (cbn [length] in *; lia || exact Hal).
        rewrite (enc_fuel (length a) (length (skipn bs (x :: a))) c) by (rewrite skipn_length; cbn [length]; lia).
        fold (cbc_enc c (skipn bs (x :: a))).
        destruct (cbc_enc c (skipn bs (x :: a))) as [st1 oa].
        destruct (cbc_enc st1 b) as [st2 ob]. rewrite app_assoc. reflexivity.
  Qed.

  Lemma dec_split : forall n a prev b, length a <= n -> length a mod bs = 0 ->
    cbc_dec prev (a ++ b) =
      let '(st1, oa) := cbc_dec prev a in let '(st2, ob) := cbc_dec st1 b in (st2, oa ++ ob).
  Proof.
    induction n as [|n IH]; intros a prev b Hn Ha.
    - destruct a; [|cbn in Hn; lia]. cbn [app]. unfold cbc_dec at 2. cbn.
      destruct (cbc_dec prev b); reflexivity.
    - destruct (aligned_cases a Ha) as [->|(Hge & Hal & Hlt)].
      + cbn [app]. unfold cbc_dec at 2. cbn. destruct (cbc_dec prev b); reflexivity.
      + destruct a as [|x a]; [cbn in Hge; lia|].
        unfold cbc_dec at 1 2. cbn [app length cbc_dec_go].
        assert (F1 : firstn bs ((x :: a) ++ b) = firstn bs (x :: a)).
        { rewrite firstn_app. replace (bs - length (x :: a)) with 0 by lia. cbn [firstn]. apply app_nil_r. }
        assert (S1 : skipn bs ((x :: a) ++ b) = skipn bs (x :: a) ++ b).
        { rewrite skipn_app. replace (bs - length (x :: a)) with 0 by lia. reflexivity. }
        change (x :: a ++ b) with ((x :: a) ++ b). rewrite F1, S1.
        set (blk := firstn bs (x :: a)).
        rewrite (dec_fuel _ (length (skipn bs (x :: a) ++ b)) blk).
        2:{ rewrite app_length, skipn_length, app_length. cbn [length]. lia. }
        2:{ lia. }
        fold (cbc_dec blk (skipn bs (x :: a) ++ b)).
        rewrite (IH (skipn bs (x :: a)) blk b) by (cbn [length] in *; lia || exact Hal).
        rewrite (dec_fuel (length a) (length (skipn bs (x :: a))) blk) by (rewrite skipn_length; cbn [length]; lia).
        fold (cbc_dec blk (skipn bs (x :: a))).
        destruct (cbc_dec blk (skipn bs (x :: a))) as [st1 oa].
        destruct (cbc_dec st1 b) as [st2 ob]. rewrite app_assoc. reflexivity.
  Qed.

  Theorem cbc_enc_stream_ok : stream_ok bs cbc_enc.
  Proof.
    split; [reflexivity|]. intros st a b Ha. exact (enc_split (length a) a st b (le_n _) Ha).
  Qed.

  Theorem cbc_dec_stream_ok : stream_ok bs cbc_dec.
  Proof.
    split; [reflexivity|]. intros st a b Ha. exact (dec_split (length a) a st b (le_n _) Ha).
  Qed.

  (* length preservation and inversion on block-aligned input, IV of one block *)
  Lemma cbc_enc_len_inv : forall n s iv, length s <= n -> length s mod bs = 0 -> length iv = bs ->
    length (snd (cbc_enc iv s)) = length s /\ snd (cbc_dec iv (snd (cbc_enc iv s))) = s.
  Proof.
    induction n as [|n IH]; intros s iv Hn Hs Hiv.
    - destruct s; [|cbn in Hn; lia]. split; reflexivity.
    - destruct (aligned_cases s Hs) as [->|(Hge & Hal & Hlt)]; [split; reflexivity|].
      destruct s as [|x s]; [cbn in Hge; lia|].
      unfold cbc_enc. cbn [length cbc_enc_go].
      set (blk := firstn bs (x :: s)).
      assert (Hblk : length blk = bs) by (unfold blk; rewrite firstn_length; lia).
      set (c := E (xorb_ blk iv)).
      assert (Hx : length (xorb_ blk iv) = bs) by (rewrite xorb_length; lia).
      assert (Hc : length c = bs) by (apply E_len; exact Hx).
      rewrite (enc_fuel (length s) (length (skipn bs (x :: s))) c) by (rewrite skipn_length; cbn [length]; lia).
      fold (cbc_enc c (skipn bs (x :: s))).
      destruct (IH (skipn bs (x :: s)) c ltac:(cbn [length] in *; lia) Hal Hc) as [IHl IHi].
      destruct (cbc_enc c (skipn bs (x :: s))) as [st rest] eqn:Eenc. cbn [snd] in *.
      split.
      + rewrite app_length, Hc, IHl, skipn_length. cbn [length] in *. lia.
      + assert (Hct : c ++ rest = (c ++ []) ++ rest) by (rewrite app_nil_r; reflexivity).
        destruct cbc_dec_stream_ok as [_ Hsp].
        rewrite Hct, Hsp by (rewrite app_nil_r, Hc; apply Nat.mod_same; lia).
        rewrite app_nil_r.
        assert (Hd1 : cbc_dec iv c = (c, blk)).
        { unfold cbc_dec. destruct c as [|c0 c'] eqn:Ec; [cbn in Hc; lia|].
          cbn [length cbc_dec_go]. rewrite <- Ec in *.
          rewrite firstn_all2 by lia. rewrite skipn_all2 by lia.
          assert (cbc_dec_go (length c') c [] = (c, [])) by (destruct (length c'); reflexivity).
          rewrite Ec in H at 1. rewrite Ec. rewrite <- Ec. 
          replace (cbc_dec_go (length c') c []) with (c, @nil N) by (destruct (length c'); reflexivity).
          unfold c at 2. rewrite D_E by exact Hx. rewrite xorb_cancel by lia. rewrite app_nil_r. reflexivity. }
        rewrite Hd1. rewrite <- (firstn_skipn bs (x :: s)). fold blk.
        destruct (cbc_dec c rest) as [st2 ob] eqn:Edec. cbn [snd] in *. rewrite IHi. reflexivity.
  Qed.

  Corollary cbc_inverse iv : length iv = bs ->
    (forall s, length s mod bs = 0 -> length (snd (cbc_enc iv s)) = length s) /\
    (forall s, length s mod bs = 0 -> snd (cbc_dec iv (snd (cbc_enc iv s))) = s).
  Proof.
    intros Hiv. split; intros s Hs; apply (cbc_enc_len_inv (length s) s iv (le_n _) Hs Hiv).
  Qed.
End CBC.
