(* Model of /repo/sm4/padding (pkcs7_padding_io.go, bloc_cryptor.go), function by function.
   No proofs in this file.  Bytes are N (only the pad value is ever inspected).

   Go objects modelled:
     io.Reader source      -> [src]  : remaining data + a schedule of scripted answers
     PKCS7PaddingReader    -> [prd]  : fields fIn, padding, blockSize, readed, eof, eop
     PKCS7PaddingWriter    -> [pwr]  : fields cache, out, blockSize
     cipher.BlockMode      -> a state machine [crypt : S -> list N -> S * list N] that panics
                              on input that is not a whole number of blocks
     io.ReadFull           -> [read_full]
     P7BlockEnc/Decrypt    -> [p7_block_enc], [p7_block_decrypt]                         *)
From Coq Require Import List NArith Arith Bool.
From GmsmVerif Require Import Lib.Outcome.
Import ListNotations.

Notation byte := N (only parsing).

(* ---------- scripted io.Reader --------------------------------------------------------- *)
(* A schedule entry (k, eof_with_data) answers one Read call: at most k bytes are returned;
   when this answer hands out the last byte and eof_with_data is set, io.EOF comes with it.
   With the schedule used up the source answers every call in full, EOF on the next call.
   A Read on an exhausted source returns (0, io.EOF). *)
Record src := mkSrc { s_rem : list byte; s_sched : list (nat * bool) }.

Definition src_read (s : src) (L : nat) : list byte * bool * src :=
  match s_rem s with
  | [] => ([], true, s)
  | _ =>
    let '(k, flag, sched') :=
      match s_sched s with
      | [] => (L, false, [])
      | (k, f) :: t => (Nat.min k L, f, t)
      end in
    let out := firstn k (s_rem s) in
    let rem' := skipn k (s_rem s) in
    (out, (match rem' with [] => flag | _ => false end), mkSrc rem' sched')
  end.

(* ---------- PKCS7PaddingReader --------------------------------------------------------- *)
Record prd := mkPrd {
  r_in : src;
  r_padding : option (list byte);   (* None = nil reader; Some l = bytes.Reader with l left *)
  r_bs : nat;
  r_readed : nat;
  r_eof : bool;
  r_eop : bool }.

Definition new_reader (s : src) (bs : nat) : prd := mkPrd s None bs 0 false false.

(* func (p *PKCS7PaddingReader) newPadding() *)
Definition new_padding (p : prd) : prd :=
  match r_padding p with
  | Some _ => p
  | None =>
    let size := r_bs p - (r_readed p mod r_bs p) in
    mkPrd (r_in p) (Some (repeat (N.of_nat size mod 256)%N size)) (r_bs p) (r_readed p) (r_eof p) (r_eop p)
  end.

(* the loop "for n < len(buf) && !p.eof { m, err = p.fIn.Read(buf[n:]) ... }" *)
Fixpoint fill (fuel : nat) (p : prd) (L : nat) (acc : list byte) : outcome (prd * list byte) :=
  if (Nat.ltb (length acc) L && negb (r_eof p))%bool then
    match fuel with
    | O => Hang
    | S fuel' =>
      let '(got, e, s') := src_read (r_in p) (L - length acc) in
      fill fuel' (mkPrd s' (r_padding p) (r_bs p) (r_readed p + length got) e (r_eop p)) L (acc ++ got)
    end
  else Ok (p, acc).

(* bytes.Reader.Read on what is left of the pad *)
Definition pad_read (l : list byte) (L : nat) : list byte * bool * list byte :=
  match l with
  | [] => ([], true, [])
  | _ => (firstn L l, false, skipn L l)
  end.

(* func (p *PKCS7PaddingReader) Read(buf []byte) (int, error); result: bytes stored, err == io.EOF *)
Definition prd_read (fuel : nat) (p : prd) (L : nat) : outcome (prd * list byte * bool) :=
  if (r_eof p && r_eop p)%bool then Ok (p, [], true)
  else
    do '(p1, n, err, full) <-
      (if negb (r_eof p) then
         do '(p', n) <- fill fuel p L [];
         let p'' := if r_eof p' then new_padding p' else p' in
         Ok (p'', n, r_eof p', Nat.eqb (length n) L)
       else Ok (p, [], false, false));
    if (full : bool) then Ok (p1, n, false)
    else if negb (r_eop p1) then
      match r_padding p1 with
      | None => Panic                               (* nil io.Reader dereferenced *)
      | Some l =>
        let '(n2, e2, l') := pad_read l (L - length n) in
        Ok (mkPrd (r_in p1) (Some l') (r_bs p1) (r_readed p1) (r_eof p1) (e2 || r_eop p1),
            n ++ n2, e2)
      end
    else Ok (p1, n, err).

(* a caller that issues Read with the given buffer sizes and stops at io.EOF:
   returns the bytes delivered and whether io.EOF was seen *)
Fixpoint run_reader (fuel : nat) (p : prd) (bufs : list nat) : outcome (list byte * bool) :=
  match bufs with
  | [] => Ok ([], false)
  | L :: rest =>
    do '(p', out, e) <- prd_read fuel p L;
    if (e : bool) then Ok (out, true)
    else do '(out', fin) <- run_reader fuel p' rest; Ok (out ++ out', fin)
  end.

(* ---------- PKCS7PaddingWriter --------------------------------------------------------- *)
Record pwr := mkPwr { w_cache : list byte; w_out : list byte; w_bs : nat }.

Definition new_writer (bs : nat) : pwr := mkPwr [] [] bs.

(* func (p *PKCS7PaddingWriter) Write(buff []byte): the sink is a bytes.Buffer (never fails) *)
Definition pwr_write (w : pwr) (buff : list byte) : pwr :=
  let cache := w_cache w ++ buff in
  if Nat.ltb (w_bs w) (length cache) then
    let size := length cache - w_bs w in
    mkPwr (skipn size cache) (w_out w ++ firstn size cache) (w_bs w)
  else mkPwr cache (w_out w) (w_bs w).

(* func (p *PKCS7PaddingWriter) Final() error.  Err 1 = "非法的PKCS7填充" *)
Definition pwr_final (w : pwr) : outcome (list byte) :=
  let b := w_cache w in
  let length_ := length b in
  if negb (Nat.eqb length_ (w_bs w)) then Err 1
  else if Nat.eqb length_ 0 then Ok (w_out w)
  else
    let unpadding := N.to_nat (last b 0%N) in
    if (Nat.ltb (w_bs w) unpadding || Nat.eqb unpadding 0)%bool then Err 1
    else if forallb (fun v => Nat.eqb (N.to_nat v) unpadding) (skipn (length_ - unpadding) b)
    then Ok (w_out w ++ firstn (length_ - unpadding) b)
    else Err 1.

Definition run_writer (bs : nat) (chunks : list (list byte)) : outcome (list byte) :=
  pwr_final (fold_left pwr_write chunks (new_writer bs)).

(* what the sink holds before Final is called *)
Definition writer_emitted (bs : nat) (chunks : list (list byte)) : list byte :=
  w_out (fold_left pwr_write chunks (new_writer bs)).

(* ---------- io.ReadFull over an abstract reader ------------------------------------------ *)
(* rd st L = (st', bytes, eof).  Result: bytes read (at most L), reader state.
   ReadFull's own error (EOF / ErrUnexpectedEOF) is not needed by the callers modelled here:
   both only test n == 0 and otherwise use n. *)
Section ReadFull.
  Context {R : Type} (rd : R -> nat -> outcome (R * list byte * bool)).
  Fixpoint read_full (fuel : nat) (st : R) (L : nat) (acc : list byte) : outcome (R * list byte) :=
    if Nat.ltb (length acc) L then
      match fuel with
      | O => Hang
      | S fuel' =>
        do '(st', got, e) <- rd st (L - length acc);
        if (e : bool) then Ok (st', acc ++ got) else read_full fuel' st' L (acc ++ got)
      end
    else Ok (st, acc).
End ReadFull.

Definition src_rd (s : src) (L : nat) : outcome (src * list byte * bool) :=
  let '(out, e, s') := src_read s L in Ok (s', out, e).

(* ---------- cipher.BlockMode and the two stream helpers ---------------------------------- *)
Section BlockMode.
  Context {MS : Type} (bs : nat) (crypt : MS -> list byte -> MS * list byte).

  (* CryptBlocks panics ("input not full blocks") on ragged input *)
  Definition crypt_blocks (st : MS) (b : list byte) : outcome (MS * list byte) :=
    if Nat.eqb (length b mod bs) 0 then Ok (crypt st b) else Panic.

  Definition BUF : nat := 1024.

  (* func P7BlockEnc(encrypter, in, out) error: returns what was written to out *)
  Fixpoint p7_enc_loop (fuel : nat) (st : MS) (p : prd) (out : list byte) : outcome (list byte) :=
    match fuel with
    | O => Hang
    | S fuel' =>
      do '(p', chunk) <- read_full (prd_read fuel) fuel p BUF [];
      match chunk with
      | [] => Ok out
      | _ =>
        do '(st', c) <- crypt_blocks st chunk;
        p7_enc_loop fuel' st' p' (out ++ c)
      end
    end.

  Definition p7_block_enc (fuel : nat) (st0 : MS) (input : src) : outcome (list byte) :=
    p7_enc_loop fuel st0 (new_reader input bs) [].

  (* func P7BlockDecrypt(decrypter, in, out) error.  Err 2 = ragged ciphertext, Err 1 = bad pad *)
  Fixpoint p7_dec_loop (fuel : nat) (st : MS) (s : src) (w : pwr) : outcome (list byte) :=
    match fuel with
    | O => Hang
    | S fuel' =>
      do '(s', chunk) <- read_full src_rd fuel s BUF [];
      match chunk with
      | [] => pwr_final w
      | _ =>
        if negb (Nat.eqb (length chunk mod bs) 0) then Err 2
        else
          do '(st', c) <- crypt_blocks st chunk;
          p7_dec_loop fuel' st' s' (pwr_write w c)
      end
    end.

  Definition p7_block_decrypt (fuel : nat) (st0 : MS) (input : src) : outcome (list byte) :=
    p7_dec_loop fuel st0 input (new_writer bs).
End BlockMode.

(* ---------- a concrete, invertible, chaining BlockMode used by the correspondence check --- *)
(* c_i = (p_i + prev_i + k) mod 256 byte-wise per block, prev = previous ciphertext block
   (CBC-shaped: stateful across calls, so chunk boundaries would show).  The Go driver
   implements the same toy mode; the real SM4-CBC mode is exercised separately. *)
Definition toy_state := list byte.   (* previous ciphertext block / IV *)

Fixpoint zip_with {A B C} (f : A -> B -> C) (a : list A) (b : list B) : list C :=
  match a, b with
  | x :: a', y :: b' => f x y :: zip_with f a' b'
  | _, _ => []
  end.

Fixpoint toy_enc_go (fuel : nat) (bs : nat) (k : N) (prev : list byte) (b : list byte) : toy_state * list byte :=
  match fuel with
  | O => (prev, [])
  | S fuel' =>
    match b with
    | [] => (prev, [])
    | _ =>
      let blk := firstn bs b in
      let c := zip_with (fun p v => ((p + v + k) mod 256)%N) blk prev in
      let '(st, rest) := toy_enc_go fuel' bs k c (skipn bs b) in
      (st, c ++ rest)
    end
  end.
Definition toy_enc (bs : nat) (k : N) (prev : toy_state) (b : list byte) := toy_enc_go (length b) bs k prev b.

Fixpoint toy_dec_go (fuel : nat) (bs : nat) (k : N) (prev : list byte) (b : list byte) : toy_state * list byte :=
  match fuel with
  | O => (prev, [])
  | S fuel' =>
    match b with
    | [] => (prev, [])
    | _ =>
      let blk := firstn bs b in
      let p := zip_with (fun c v => ((c + 512 - v - k) mod 256)%N) blk prev in
      let '(st, rest) := toy_dec_go fuel' bs k blk (skipn bs b) in
      (st, p ++ rest)
    end
  end.
Definition toy_dec (bs : nat) (k : N) (prev : toy_state) (b : list byte) := toy_dec_go (length b) bs k prev b.
