(* PKCS#7 padding as the property states it (RFC 5652 6.3): the specification the model of
   sm4/padding is proved against.  Never looks at the Go code. *)
From Coq Require Import List NArith Arith.
From GmsmVerif Require Import Lib.Outcome.
Import ListNotations.

Definition pad_len (bs n : nat) : nat := bs - n mod bs.

Definition pkcs7_pad (bs : nat) (data : list N) : list N :=
  data ++ repeat (N.of_nat (pad_len bs (length data))) (pad_len bs (length data)).

(* s is some data followed by one valid pad for block size bs *)
Definition valid_padded (bs : nat) (s d : list N) : Prop :=
  exists k, 1 <= k <= bs /\ s = d ++ repeat (N.of_nat k) k /\ bs <= length s.

(* the un-padding writer as a function of the whole stream written to it:
   everything except the last block is passed through, the last block loses its pad *)
Definition writer_spec (bs : nat) (s : list N) : outcome (list N) :=
  let b := skipn (length s - bs) s in
  if negb (Nat.eqb (length b) bs) then Err 1
  else if Nat.eqb (length b) 0 then Ok (firstn (length s - bs) s)
  else
    let k := N.to_nat (last b 0%N) in
    if (Nat.ltb bs k || Nat.eqb k 0)%bool then Err 1
    else if forallb (fun v => Nat.eqb (N.to_nat v) k) (skipn (length b - k) b)
    then Ok (firstn (length s - bs) s ++ firstn (length b - k) b)
    else Err 1.
