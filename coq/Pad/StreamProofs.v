(* Proofs about the stream helpers P7BlockEnc / P7BlockDecrypt of the sm4/padding model. *)
From Coq Require Import List NArith Arith Bool Lia.
From GmsmVerif Require Import Lib.Outcome Pad.PadModel Pad.PadSpec Pad.PadProofs.
Import ListNotations.

(* ---------- io.ReadFull over the padding reader: at most two Reads ------------------------------ *)
Lemma read_full_prd data bs (Hbs : 1 <= bs <= 255) fuel fuel2 p L pos :
  RInv data bs p pos -> 1 <= L -> fuel >= length (s_sched (r_in p)) + 2 -> fuel2 >= 2 ->
  exists p', read_full (prd_read fuel) fuel2 p L [] = Ok (p', firstn L (skipn pos (pkcs7_pad bs data))) /\
    RInv data bs p' (Nat.min (pos + L) (length (pkcs7_pad bs data))) /\
    length (s_sched (r_in p')) <= length (s_sched (r_in p)).
Proof.
  intros HR HL Hf Hf2.
  set (S := pkcs7_pad bs data) in *.
  destruct fuel2 as [|[|f3]]; try lia.
  destruct (prd_read_spec data bs Hbs fuel p L pos HR HL Hf) as (p1 & Hrd & HR1 & Hs1).
  fold S in Hrd, HR1.
  cbn [read_full length]. destruct (Nat.ltb_spec 0 L) as [_|]; [|lia].
  rewrite Nat.sub_0_r, Hrd. cbn [obind app].
  destruct (Nat.eqb_spec pos (length S)) as [Heq|Hne].
  - exists p1. repeat split; auto.
  - (* not at the end: the first Read returned min(L, rest) bytes *)
    set (got := firstn L (skipn pos S)) in *.
    assert (Hgot : length got = Nat.min L (length S - pos)).
    { unfold got. rewrite firstn_length, skipn_length. reflexivity. }
    destruct (Nat.ltb_spec (length got) L) as [Hlt|Hge].
    + (* short: everything has been delivered; the second Read reports EOF *)
      assert (Hend : Nat.min (pos + L) (length S) = length S) by lia.
      rewrite Hend in HR1.
      destruct (prd_read_spec data bs Hbs fuel p1 (L - length got) (length S) HR1 ltac:(lia) ltac:(lia))
        as (p2 & Hrd2 & HR2 & Hs2).
      fold S in Hrd2, HR2.
      rewrite Hrd2. cbn [obind]. rewrite Nat.eqb_refl, skipn_all, firstn_nil, app_nil_r.
      exists p2. split; [reflexivity|]. split; [|lia].
      rewrite Hend. replace (Nat.min (length S + (L - length got)) (length S)) with (length S) in HR2 by lia.
      exact HR2.
    + exists p1. repeat split; auto.
Qed.

(* ---------- io.ReadFull over the scripted source ----------------------------------------------- *)
Definition mu_s (s : src) : nat :=
  length (s_sched s) + match s_rem s with [] => 1 | _ => 2 end.

Lemma read_full_src data fuel : forall s L acc pos0,
  s_rem s = skipn (pos0 + length acc) data -> acc = firstn (length acc) (skipn pos0 data) ->
  pos0 + length acc <= length data -> length acc <= L ->
  (length acc = L \/ fuel >= mu_s s) ->
  exists s' acc', read_full src_rd fuel s L acc = Ok (s', acc') /\
    acc' = firstn L (skipn pos0 data) /\
    s_rem s' = skipn (pos0 + length acc') data /\
    length (s_sched s') <= length (s_sched s).
Proof.
  induction fuel as [|fuel IH]; intros s L acc pos0 Hrem Hacc Hle HL Hf.
  - cbn [read_full].
    destruct (Nat.ltb_spec (length acc) L) as [Hlt|Hge].
    + exfalso. destruct Hf as [Hf|Hf]; [lia|]. unfold mu_s in Hf. destruct (s_rem s); lia.
    + assert (length acc = L) by lia. exists s, acc. repeat split; auto.
      rewrite Hacc at 1. f_equal. exact H.
  - cbn [read_full].
    destruct (Nat.ltb_spec (length acc) L) as [Hlt|Hge].
    2:{ assert (length acc = L) by lia. exists s, acc. repeat split; auto.
        rewrite Hacc at 1. f_equal. assumption. }
    unfold src_rd at 1.
    destruct (src_read s (L - length acc)) as [[got e] s'] eqn:Esr.
    destruct (src_read_spec' _ _ _ _ _ Esr)
      as (g & HgL & Hgr & Hgot & Hlen & Hrem' & Hsch & He & Hnos & Hsome & Hempty).
    cbn [obind].
    assert (Hremlen : length (s_rem s) = length data - (pos0 + length acc)).
    { rewrite Hrem, skipn_length; reflexivity. }
    assert (Hacc1 : acc ++ got = firstn (length (acc ++ got)) (skipn pos0 data)).
    { rewrite app_length, Hlen, <- firstn_skipn_add, <- Hacc. f_equal.
      rewrite Hgot, Hrem, skipn_skipn'. reflexivity. }
    assert (Hrem1 : s_rem s' = skipn (pos0 + length (acc ++ got)) data).
    { rewrite app_length, Hlen, Hrem', Hrem, skipn_skipn'. f_equal. lia. }
    destruct e.
    + (* EOF: everything is consumed *)
      specialize (He eq_refl). rewrite Hrem1 in He. apply skipn_nil_iff in He.
      exists s', (acc ++ got). repeat split; auto.
      rewrite Hacc1 at 1. rewrite app_length, Hlen in *.
      rewrite !firstn_all2; auto; rewrite skipn_length; lia.
    + destruct (IH s' L (acc ++ got) pos0) as (s2 & acc2 & Hrf & R1 & R2 & R3); auto.
      * rewrite app_length, Hlen. lia.
      * rewrite app_length, Hlen. lia.
      * destruct (s_rem s) as [|x rem] eqn:Erem.
        { destruct (Hempty eq_refl) as [? _]; congruence. }
        destruct Hf as [Hf|Hf]; [lia|].
        destruct (s_sched s) as [|en t] eqn:Esch.
        -- destruct Hnos as (Hg & _ & Hs'); try congruence.
           destruct (Nat.le_ge_cases (L - length acc) (length (x :: rem))) as [Hle'|Hgt].
           ++ left. rewrite app_length, Hlen, Hg, Nat.min_l by exact Hle'. lia.
           ++ right. unfold mu_s. rewrite Hs', Hrem', Hg, Nat.min_r by exact Hgt.
              rewrite skipn_all. unfold mu_s in Hf. rewrite Esch, Erem in Hf. cbn [length] in *. lia.
        -- right. unfold mu_s.
           assert (length (s_sched s') < length (en :: t)) by (apply Hsome; congruence).
           unfold mu_s in Hf. rewrite Esch, Erem in Hf. destruct (s_rem s'); lia.
      * exists s2, acc2. rewrite Hrf. repeat split; auto. lia.
Qed.

(* ---------- cipher.BlockMode as a stream transformer ---------------------------------------------- *)
Section Stream.
  Context {MS : Type} (bs : nat) (crypt : MS -> list N -> MS * list N).
  Hypothesis Hbs : 1 <= bs <= 255.
  Hypothesis Hdiv : BUF mod bs = 0.

  (* what cipher.BlockMode promises: processing a block-aligned prefix first and the rest afterwards
     equals processing the whole input; nothing in, nothing out *)
  Definition stream_ok : Prop :=
    (forall st, crypt st [] = (st, [])) /\
    (forall st a b, length a mod bs = 0 ->
       crypt st (a ++ b) = let '(st1, oa) := crypt st a in let '(st2, ob) := crypt st1 b in (st2, oa ++ ob)).

  Hypothesis Hok : stream_ok.

  Lemma aligned_chunk total pos :
    total mod bs = 0 -> (pos mod BUF = 0 \/ pos = total) -> pos <= total ->
    Nat.min BUF (total - pos) mod bs = 0 /\
    ((pos + Nat.min BUF (total - pos)) mod BUF = 0 \/ pos + Nat.min BUF (total - pos) = total).
  Proof.
    intros Ht Hp Hle.
    assert (Hb : bs <> 0) by lia.
    apply Nat.mod_divides in Ht as [m Hm]; [|exact Hb].
    apply Nat.mod_divides in Hdiv as [q Hq]; [|exact Hb].
    destruct Hp as [Hp|Hp].
    - apply Nat.mod_divides in Hp as [k Hk]; [|unfold BUF; lia].
      destruct (Nat.le_ge_cases BUF (total - pos)) as [Hc|Hc].
      + rewrite Nat.min_l by exact Hc. split.
        * rewrite Hq, Nat.mul_comm. apply Nat.mod_mul; exact Hb.
        * left. rewrite Hk. replace (BUF * k + BUF) with ((k + 1) * BUF) by lia.
          apply Nat.mod_mul. unfold BUF; lia.
      + rewrite Nat.min_r by exact Hc. split; [|right; lia].
        rewrite Hm, Hk, Hq.
        replace (bs * m - bs * q * k) with ((m - q * k) * bs) by nia.
        apply Nat.mod_mul; exact Hb.
    - subst pos. rewrite Nat.sub_diag, Nat.min_r by lia. split; [apply Nat.mod_0_l; exact Hb|right; lia].
  Qed.

  (* ---- P7BlockEnc ---- *)
  Lemma p7_enc_loop_spec data : forall fuel st p pos out,
    RInv data bs p pos ->
    (pos mod BUF = 0 \/ pos = length (pkcs7_pad bs data)) -> pos <= length (pkcs7_pad bs data) ->
    fuel >= (length (pkcs7_pad bs data) - pos + (BUF - 1)) / BUF + length (s_sched (r_in p)) + 2 ->
    p7_enc_loop bs crypt fuel st p out = Ok (out ++ snd (crypt st (skipn pos (pkcs7_pad bs data)))).
  Proof.
    set (S := pkcs7_pad bs data).
    assert (HS : length S mod bs = 0).
    { unfold S. rewrite length_pkcs7_pad. apply pad_total_multiple; lia. }
    induction fuel as [|fuel IH]; intros st p pos out HR Hal Hle Hf; [lia|].
    cbn [p7_enc_loop].
    destruct (read_full_prd data bs Hbs (Datatypes.S fuel) (Datatypes.S fuel) p BUF pos HR) as (p' & Hrf & HR' & Hs');
      [unfold BUF; lia|lia|lia|].
    fold S in Hrf, HR'. rewrite Hrf. cbn [obind].
    remember (firstn BUF (skipn pos S)) as chunk0 eqn:Hchunk.
    assert (Hcl : length chunk0 = Nat.min BUF (length S - pos)).
    { rewrite Hchunk, firstn_length, skipn_length. reflexivity. }
    destruct chunk0 as [|c0 crest].
    - (* nothing left *)
      cbn [length] in Hcl. assert (pos = length S) by (unfold BUF in Hcl; lia). subst pos.
      rewrite skipn_all. destruct Hok as [Hnil _]. rewrite Hnil. cbn [snd]. rewrite app_nil_r. reflexivity.
    - set (chunk := c0 :: crest) in *.
      assert (Hnz : length chunk >= 1) by (cbn; lia).
      destruct (aligned_chunk (length S) pos HS Hal Hle) as [Hmod Hal'].
      unfold crypt_blocks. rewrite Hcl, Hmod. cbn [Nat.eqb obind].
      destruct (crypt st chunk) as [st' c] eqn:Ec.
      assert (Hsplit : skipn pos S = chunk ++ skipn (pos + length chunk) S).
      { rewrite Hchunk at 1. rewrite <- (firstn_skipn BUF (skipn pos S)) at 1. f_equal.
        rewrite skipn_skipn'. rewrite Hcl.
        destruct (Nat.le_ge_cases BUF (length S - pos)) as [Hc|Hc].
        - rewrite Nat.min_l by exact Hc. reflexivity.
        - rewrite Nat.min_r by exact Hc. rewrite !skipn_all2; auto; lia. }
      assert (Hpos' : Nat.min (pos + BUF) (length S) = pos + length chunk) by lia.
      rewrite Hpos' in HR'.
      rewrite (IH st' p' (pos + length chunk) (out ++ c) HR').
      + rewrite Hsplit. destruct Hok as [_ Hsp]. rewrite Hsp by (rewrite Hcl; exact Hmod).
        rewrite Ec. destruct (crypt st' (skipn (pos + length chunk) S)) as [st2 ob]. cbn [snd].
        rewrite app_assoc. reflexivity.
      + rewrite Hcl. exact Hal'.
      + lia.
      + (* fuel *)
        assert ((length S - (pos + length chunk) + (BUF - 1)) / BUF + 1 <= (length S - pos + (BUF - 1)) / BUF).
        { rewrite Hcl. unfold BUF.
          destruct (Nat.le_ge_cases 1024 (length S - pos)) as [Hc|Hc].
          - rewrite Nat.min_l by exact Hc.
            replace (length S - pos + (1024 - 1)) with ((length S - (pos + 1024) + (1024 - 1)) + 1 * 1024) by lia.
            rewrite Nat.div_add by lia. lia.
          - rewrite Nat.min_r by exact Hc.
            replace (length S - (pos + (length S - pos))) with 0 by lia.
            unfold BUF in Hnz. rewrite Hcl in Hnz.
            assert (1 <= (length S - pos + (1024 - 1)) / 1024).
            { apply Nat.div_le_lower_bound; lia. }
            rewrite Nat.div_small by lia. lia. }
        lia.
  Qed.

  Lemma div_round_up n : (n + (BUF - 1)) / BUF <= n / BUF + 1.
  Proof.
    unfold BUF.
    pose proof (Nat.div_mod n 1024 ltac:(lia)) as Hd.
    pose proof (Nat.mod_upper_bound n 1024 ltac:(lia)) as Hm.
    assert (H : n + (1024 - 1) < 1024 * (n / 1024 + 2)) by lia.
    apply Nat.div_lt_upper_bound in H; lia.
  Qed.

  Theorem p7_block_enc_spec data sched fuel st0 :
    fuel >= length (pkcs7_pad bs data) / BUF + length sched + 3 ->
    p7_block_enc bs crypt fuel st0 (mkSrc data sched) = Ok (snd (crypt st0 (pkcs7_pad bs data))).
  Proof.
    intros Hf. unfold p7_block_enc.
    rewrite (p7_enc_loop_spec data fuel st0 _ 0 [] (RInv_init data bs Hbs sched)).
    - reflexivity.
    - left. apply Nat.mod_0_l. unfold BUF; lia.
    - lia.
    - cbn [r_in new_reader s_sched]. rewrite Nat.sub_0_r.
      pose proof (div_round_up (length (pkcs7_pad bs data))). lia.
  Qed.

  (* ---- P7BlockDecrypt ---- *)
  Lemma p7_dec_loop_spec ct (Hct : length ct mod bs = 0) : forall fuel st s w pos plain,
    s_rem s = skipn pos ct -> WInv bs w plain ->
    (pos mod BUF = 0 \/ pos = length ct) -> pos <= length ct ->
    fuel >= (length ct - pos + (BUF - 1)) / BUF + length (s_sched s) + 2 ->
    p7_dec_loop bs crypt fuel st s w = writer_spec bs (plain ++ snd (crypt st (skipn pos ct))).
  Proof.
    induction fuel as [|fuel IH]; intros st s w pos plain Hrem HW Hal Hle Hf; [lia|].
    cbn [p7_dec_loop].
    destruct (read_full_src ct (Datatypes.S fuel) s BUF [] pos) as (s' & chunk & Hrf & Hchunk & Hrem' & Hs').
    { cbn [length]. rewrite Nat.add_0_r. exact Hrem. }
    { reflexivity. }
    { cbn [length]. lia. }
    { cbn [length]. unfold BUF. lia. }
    { right. unfold mu_s. destruct (s_rem s); lia. }
    rewrite Hrf. cbn [obind].
    assert (Hcl : length chunk = Nat.min BUF (length ct - pos)).
    { rewrite Hchunk, firstn_length, skipn_length. reflexivity. }
    destruct chunk as [|c0 crest].
    - cbn [length] in Hcl. assert (pos = length ct) by (unfold BUF in Hcl; lia). subst pos.
      rewrite skipn_all. destruct Hok as [Hnil _]. rewrite Hnil. cbn [snd]. rewrite app_nil_r.
      apply (pwr_final_spec bs). exact HW.
    - set (chunk := c0 :: crest) in *.
      assert (Hnz : length chunk >= 1) by (cbn; lia).
      destruct (aligned_chunk (length ct) pos Hct Hal Hle) as [Hmod Hal'].
      rewrite Hcl, Hmod. cbn [Nat.eqb negb].
      unfold crypt_blocks. rewrite Hcl, Hmod. cbn [Nat.eqb obind].
      destruct (crypt st chunk) as [st' c] eqn:Ec.
      assert (Hsplit : skipn pos ct = chunk ++ skipn (pos + length chunk) ct).
      { rewrite Hchunk at 1. rewrite <- (firstn_skipn BUF (skipn pos ct)) at 1. f_equal.
        rewrite skipn_skipn'. rewrite Hcl.
        destruct (Nat.le_ge_cases BUF (length ct - pos)) as [Hc|Hc].
        - rewrite Nat.min_l by exact Hc. reflexivity.
        - rewrite Nat.min_r by exact Hc. rewrite !skipn_all2; auto; lia. }
      rewrite (IH st' s' (pwr_write w c) (pos + length chunk) (plain ++ c)).
      + rewrite Hsplit. destruct Hok as [_ Hsp]. rewrite Hsp by (rewrite Hcl; exact Hmod).
        rewrite Ec. destruct (crypt st' (skipn (pos + length chunk) ct)) as [st2 ob]. cbn [snd].
        rewrite app_assoc. reflexivity.
      + exact Hrem'.
      + apply pwr_write_inv. exact HW.
      + rewrite Hcl. exact Hal'.
      + lia.
      + assert ((length ct - (pos + length chunk) + (BUF - 1)) / BUF + 1 <= (length ct - pos + (BUF - 1)) / BUF).
        { rewrite Hcl. unfold BUF.
          destruct (Nat.le_ge_cases 1024 (length ct - pos)) as [Hc|Hc].
          - rewrite Nat.min_l by exact Hc.
            replace (length ct - pos + (1024 - 1)) with ((length ct - (pos + 1024) + (1024 - 1)) + 1 * 1024) by lia.
            rewrite Nat.div_add by lia. lia.
          - rewrite Nat.min_r by exact Hc.
            replace (length ct - (pos + (length ct - pos))) with 0 by lia.
            unfold BUF in Hnz. rewrite Hcl in Hnz.
            assert (1 <= (length ct - pos + (1024 - 1)) / 1024).
            { apply Nat.div_le_lower_bound; lia. }
            rewrite Nat.div_small by lia. lia. }
        lia.
  Qed.

  Theorem p7_block_decrypt_spec ct sched fuel st0 :
    length ct mod bs = 0 ->
    fuel >= length ct / BUF + length sched + 3 ->
    p7_block_decrypt bs crypt fuel st0 (mkSrc ct sched) = writer_spec bs (snd (crypt st0 ct)).
  Proof.
    intros Hct Hf. unfold p7_block_decrypt.
    rewrite (p7_dec_loop_spec ct Hct fuel st0 _ _ 0 []).
    - reflexivity.
    - reflexivity.
    - unfold WInv, new_writer; cbn. auto.
    - left. apply Nat.mod_0_l. unfold BUF; lia.
    - lia.
    - cbn [s_sched]. rewrite Nat.sub_0_r. pose proof (div_round_up (length ct)). lia.
  Qed.
End Stream.
