(* CBC over a block cipher that inverts only on BYTE-valued blocks (what a real cipher model such as
   SM4Spec provides: D (E b) = b for blocks whose elements are < 256).  Same statements as
   Pad/CBCInstance.v, with the byte invariant threaded through, and the helper round trip stated for the
   one stream it is needed for. *)
From Coq Require Import List NArith Arith Bool Lia.
From GmsmVerif Require Import Lib.Outcome Pad.PadModel Pad.PadSpec Pad.PadProofs Pad.StreamProofs Pad.CBCInstance.
Import ListNotations.

Definition bytes (l : list N) : Prop := Forall (fun b => (b < 256)%N) l.

Lemma lxor_byte a b : (a < 256)%N -> (b < 256)%N -> (N.lxor a b < 256)%N.
Proof.
  intros Ha Hb.
  destruct (N.eq_dec a 0) as [->|Ha0]; [rewrite N.lxor_0_l; exact Hb|].
  destruct (N.eq_dec b 0) as [->|Hb0]; [rewrite N.lxor_0_r; exact Ha|].
  destruct (N.eq_dec (N.lxor a b) 0) as [->|Hx0]; [reflexivity|].
  change 256%N with (2 ^ 8)%N in *.
  apply N.log2_lt_pow2; [lia|].
  apply N.log2_lt_pow2 in Ha; [|lia]. apply N.log2_lt_pow2 in Hb; [|lia].
  pose proof (N.log2_lxor a b). lia.
Qed.

Lemma bytes_app a b : bytes a -> bytes b -> bytes (a ++ b).
Proof. intros; apply Forall_app; split; assumption. Qed.

Lemma bytes_firstn n a : bytes a -> bytes (firstn n a).
Proof.
  intros H. apply Forall_forall. intros x Hx. apply (proj1 (Forall_forall _ _) H).
  rewrite <- (firstn_skipn n a). apply in_or_app. left. exact Hx.
Qed.

Lemma bytes_skipn n a : bytes a -> bytes (skipn n a).
Proof.
  intros H. apply Forall_forall. intros x Hx. apply (proj1 (Forall_forall _ _) H).
  rewrite <- (firstn_skipn n a). apply in_or_app. right. exact Hx.
Qed.

Lemma bytes_xorb a b : bytes a -> bytes b -> bytes (xorb_ a b).
Proof.
  unfold xorb_. revert b. induction a as [|x a IH]; intros [|y b] Ha Hb; cbn; try constructor.
  - apply lxor_byte; [inversion Ha|inversion Hb]; assumption.
  - apply IH; [inversion Ha|inversion Hb]; assumption.
Qed.

Lemma bytes_repeat v n : (v < 256)%N -> bytes (repeat v n).
Proof. intros Hv. apply Forall_forall. intros x Hx. apply repeat_spec in Hx. subst. exact Hv. Qed.

Lemma bytes_pkcs7_pad bs d : 1 <= bs <= 255 -> bytes d -> bytes (pkcs7_pad bs d).
Proof.
  intros Hbs Hd. unfold pkcs7_pad. apply bytes_app; [exact Hd|]. apply bytes_repeat.
  unfold pad_len. assert (length d mod bs < bs) by (apply Nat.mod_upper_bound; lia). lia.
Qed.

Section CBCBytes.
  Variable bs : nat.
  Variables E D : list N -> list N.
  Hypothesis Hbs : 1 <= bs.
  Hypothesis E_len : forall b, length b = bs -> length (E b) = bs.
  Hypothesis E_bytes : forall b, length b = bs -> bytes (E b).
  Hypothesis D_E : forall b, length b = bs -> bytes b -> D (E b) = b.

  Lemma cbc_enc_len_inv_bytes : forall n s iv, length s <= n -> length s mod bs = 0 -> length iv = bs ->
    bytes s -> bytes iv ->
    length (snd (cbc_enc bs E iv s)) = length s /\ snd (cbc_dec bs D iv (snd (cbc_enc bs E iv s))) = s.
  Proof.
    induction n as [|n IH]; intros s iv Hn Hs Hiv Bs Biv.
    - destruct s; [|cbn in Hn; lia]. split; reflexivity.
    - destruct (aligned_cases bs Hbs s Hs) as [->|(Hge & Hal & Hlt)]; [split; reflexivity|].
      destruct s as [|x s]; [cbn in Hge; lia|].
      unfold cbc_enc. cbn [length cbc_enc_go].
      set (blk := firstn bs (x :: s)).
      assert (Hblk : length blk = bs) by (unfold blk; rewrite firstn_length; lia).
      assert (Bblk : bytes blk) by (apply bytes_firstn; exact Bs).
      set (c := E (xorb_ blk iv)).
      assert (Hx : length (xorb_ blk iv) = bs) by (rewrite (xorb_length bs Hbs); lia).
      assert (Bx : bytes (xorb_ blk iv)) by (apply bytes_xorb; assumption).
      assert (Hc : length c = bs) by (apply E_len; exact Hx).
      assert (Bc : bytes c) by (apply E_bytes; exact Hx).
      rewrite (enc_fuel bs E Hbs (length s) (length (skipn bs (x :: s))) c) by (rewrite skipn_length; cbn [length]; lia).
      fold (cbc_enc bs E c (skipn bs (x :: s))).
      destruct (IH (skipn bs (x :: s)) c ltac:(cbn [length] in *; lia) Hal Hc (bytes_skipn _ _ Bs) Bc) as [IHl IHi].
      destruct (cbc_enc bs E c (skipn bs (x :: s))) as [st rest] eqn:Eenc. cbn [snd] in *.
      split.
      + rewrite app_length, Hc, IHl, skipn_length. cbn [length] in *. lia.
      + assert (Hct : c ++ rest = (c ++ []) ++ rest) by (rewrite app_nil_r; reflexivity).
        destruct (cbc_dec_stream_ok bs D Hbs) as [_ Hsp].
        rewrite Hct, Hsp by (rewrite app_nil_r, Hc; apply Nat.mod_same; lia).
        rewrite app_nil_r.
        assert (Hd1 : cbc_dec bs D iv c = (c, blk)).
        { unfold cbc_dec. destruct c as [|c0 c'] eqn:Ec; [cbn in Hc; lia|].
          cbn [length cbc_dec_go]. rewrite <- Ec in *.
          rewrite firstn_all2 by lia. rewrite skipn_all2 by lia.
          replace (cbc_dec_go bs D (length c') c []) with (c, @nil N) by (destruct (length c'); reflexivity).
          unfold c at 2. rewrite D_E by assumption. rewrite (xorb_cancel bs Hbs) by lia. rewrite app_nil_r. reflexivity. }
        rewrite Hd1. rewrite <- (firstn_skipn bs (x :: s)). fold blk.
        destruct (cbc_dec bs D c rest) as [st2 ob] eqn:Edec. cbn [snd] in *. rewrite IHi. reflexivity.
  Qed.
End CBCBytes.

(* the helper round trip, needing the mode pair to invert only on the one padded stream *)
Lemma stream_roundtrip_on :
  forall (ES DS : Type) bs (ecrypt : ES -> list N -> ES * list N) (dcrypt : DS -> list N -> DS * list N)
         e0 d0 data sched1 sched2 fuel1 fuel2,
    1 <= bs <= 255 -> BUF mod bs = 0 -> stream_ok bs ecrypt -> stream_ok bs dcrypt ->
    length (snd (ecrypt e0 (pkcs7_pad bs data))) = length (pkcs7_pad bs data) ->
    snd (dcrypt d0 (snd (ecrypt e0 (pkcs7_pad bs data)))) = pkcs7_pad bs data ->
    fuel1 >= length (pkcs7_pad bs data) / BUF + length sched1 + 3 ->
    fuel2 >= length (pkcs7_pad bs data) / BUF + length sched2 + 3 ->
    exists ct, p7_block_enc bs ecrypt fuel1 e0 (mkSrc data sched1) = Ok ct /\
               p7_block_decrypt bs dcrypt fuel2 d0 (mkSrc ct sched2) = Ok data.
Proof.
  intros ES DS bs ecrypt dcrypt e0 d0 data sched1 sched2 fuel1 fuel2 Hbs Hdiv Hoe Hod Hlen Hinv Hf1 Hf2.
  assert (Hal : length (pkcs7_pad bs data) mod bs = 0).
  { rewrite length_pkcs7_pad. apply pad_total_multiple; lia. }
  exists (snd (ecrypt e0 (pkcs7_pad bs data))). split.
  - apply (p7_block_enc_spec bs ecrypt Hbs Hdiv Hoe); exact Hf1.
  - rewrite (p7_block_decrypt_spec bs dcrypt Hbs Hdiv Hod).
    + rewrite Hinv. apply writer_spec_pad; lia.
    + rewrite Hlen. exact Hal.
    + rewrite Hlen. exact Hf2.
Qed.

(* CBC over a cipher that inverts on byte blocks: the helper round trip for every byte stream *)
Theorem cbc_bytes_stream_roundtrip :
  forall bs (E D : list N -> list N) iv data sched1 sched2 fuel1 fuel2,
    1 <= bs <= 255 -> BUF mod bs = 0 ->
    (forall b, length b = bs -> length (E b) = bs) ->
    (forall b, length b = bs -> bytes (E b)) ->
    (forall b, length b = bs -> bytes b -> D (E b) = b) ->
    length iv = bs -> bytes iv -> bytes data ->
    fuel1 >= length (pkcs7_pad bs data) / BUF + length sched1 + 3 ->
    fuel2 >= length (pkcs7_pad bs data) / BUF + length sched2 + 3 ->
    exists ct, p7_block_enc bs (cbc_enc bs E) fuel1 iv (mkSrc data sched1) = Ok ct /\
               p7_block_decrypt bs (cbc_dec bs D) fuel2 iv (mkSrc ct sched2) = Ok data.
Proof.
  intros bs E D iv data sched1 sched2 fuel1 fuel2 Hbs Hdiv HEl HEb HDE Hiv Biv Bd Hf1 Hf2.
  assert (Hal : length (pkcs7_pad bs data) mod bs = 0).
  { rewrite length_pkcs7_pad. apply pad_total_multiple; lia. }
  destruct (cbc_enc_len_inv_bytes bs E D ltac:(lia) HEl HEb HDE (length (pkcs7_pad bs data)) (pkcs7_pad bs data) iv
              (le_n _) Hal Hiv (bytes_pkcs7_pad bs data Hbs Bd) Biv) as [Hlen Hinv].
  exact (stream_roundtrip_on (list N) (list N) bs (cbc_enc bs E) (cbc_dec bs D) iv iv data sched1 sched2 fuel1 fuel2
           Hbs Hdiv (cbc_enc_stream_ok bs E ltac:(lia)) (cbc_dec_stream_ok bs D ltac:(lia)) Hlen Hinv Hf1 Hf2).
Qed.
