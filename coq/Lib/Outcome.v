(* Outcome of a modelled Go call: a value, an error return, a run-time panic, or
   exhausted fuel (the model of "does not return").  No proofs here. *)
From Coq Require Import List.
Import ListNotations.

Inductive outcome (A : Type) : Type :=
| Ok (a : A)
| Err (e : nat)      (* small error-class enum, chosen per model *)
| Panic
| Hang.
Arguments Ok {A} a.
Arguments Err {A} e.
Arguments Panic {A}.
Arguments Hang {A}.

Definition obind {A B} (o : outcome A) (f : A -> outcome B) : outcome B :=
  match o with
  | Ok a => f a
  | Err e => Err e
  | Panic => Panic
  | Hang => Hang
  end.

Definition omap {A B} (f : A -> B) (o : outcome A) : outcome B :=
  obind o (fun a => Ok (f a)).

Definition is_ok {A} (o : outcome A) : bool :=
  match o with Ok _ => true | _ => false end.

Definition no_crash {A} (o : outcome A) : Prop :=
  match o with Ok _ | Err _ => True | Panic | Hang => False end.

Notation "'do' x <- o ; f" := (obind o (fun x => f))
  (at level 200, x name, o at level 100, f at level 200, right associativity).
Notation "'do' ' p <- o ; f" := (obind o (fun x => match x with p => f end))
  (at level 200, p pattern, o at level 100, f at level 200, right associativity).
