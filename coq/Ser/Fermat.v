(* C14 - Fermat's little theorem over Z for Znumtheory.prime, obtained from mathcomp's fermat_little on nat
   (binomial.v).  Nothing is computed on numerals: the statement is transferred abstractly with Z.of_nat / Z.to_nat,
   so it applies to the 256-bit SM2 prime as soon as its primality is given.  mathcomp is only Required (not
   Imported): its notations stay out of the development. *)
From Coq Require Import ZArith Znumtheory Zpow_facts Lia Arith.
From mathcomp Require ssreflect ssrbool ssrnat eqtype div prime binomial.
Local Open Scope nat_scope.

Lemma expn_pow : forall a n, ssrnat.expn a n = Nat.pow a n.
Proof.
  intros a n. induction n.
  - reflexivity.
  - rewrite ssrnat.expnS. rewrite IHn. reflexivity.
Qed.

Lemma ltn_lt : forall a b, is_true (ssrnat.leq (S a) b) -> a < b.
Proof. intros a b H. apply (ssrbool.elimT ssrnat.ltP H). Qed.

Lemma modn_mod : forall a p, 0 < p -> div.modn a p = Nat.modulo a p.
Proof.
  intros a p Hp.
  assert (H1 : div.modn a p < p).
  { apply ltn_lt. apply div.ltn_pmod. apply (ssrbool.introT ssrnat.ltP). exact Hp. }
  pose proof (div.divn_eq a p) as H2.
  apply (Nat.mod_unique a p (div.divn a p)); auto.
  rewrite H2 at 1. change ssrnat.addn with Nat.add. change ssrnat.muln with Nat.mul. lia.
Qed.

Lemma prime_nat_of_Z : forall n : nat, Znumtheory.prime (Z.of_nat n) -> prime.prime n = true.
Proof.
  intros n [H1 H2].
  apply (ssrbool.introT (prime.primeP (p := n))). split.
  - apply (ssrbool.introT ssrnat.ltP). lia.
  - intros d Hd.
    destruct (ssrbool.elimT div.dvdnP Hd) as [k Hk].
    change ssrnat.muln with Nat.mul in Hk.
    destruct (Nat.eq_dec d 1) as [->|D1]; [reflexivity|].
    destruct (Nat.eq_dec d n) as [->|Dn].
    + simpl. rewrite eqtype.eq_refl. apply ssrbool.orbT.
    + exfalso.
      assert (d <> 0) by (intro; subst; lia).
      assert (k <> 0) by (intro; subst; lia).
      assert (Hr : (1 <= Z.of_nat d < Z.of_nat n)%Z) by nia.
      specialize (H2 _ Hr). destruct H2 as [_ _ G].
      assert (Hdiv : (Z.of_nat d | 1)%Z).
      { apply G; [apply Z.divide_refl|]. exists (Z.of_nat k). lia. }
      apply Z.divide_1_r_nonneg in Hdiv; lia.
Qed.

Lemma fermat_nat : forall p a : nat, Znumtheory.prime (Z.of_nat p) -> Nat.modulo (Nat.pow a p) p = Nat.modulo a p.
Proof.
  intros p a Hp. pose proof (binomial.fermat_little a (prime_nat_of_Z p Hp)) as F.
  assert (0 < p) by (destruct Hp; lia).
  rewrite !modn_mod in F by auto. rewrite expn_pow in F. exact F.
Qed.

Local Open Scope Z_scope.
Theorem fermat_little_Z : forall p a : Z, Znumtheory.prime p -> 0 < a < p -> a ^ (p - 1) mod p = 1.
Proof.
  intros p a Hp Ha.
  pose proof (prime_ge_2 _ Hp) as P2.
  assert (Hn : Znumtheory.prime (Z.of_nat (Z.to_nat p))) by (rewrite Z2Nat.id by lia; exact Hp).
  pose proof (fermat_nat (Z.to_nat p) (Z.to_nat a) Hn) as F.
  apply (f_equal Z.of_nat) in F.
  rewrite !Nat2Z.inj_mod, Nat2Z.inj_pow, !Z2Nat.id in F by lia.
  (* a * a^(p-1) = a  (mod p) *)
  replace p with (1 + (p - 1)) in F at 1 by lia.
  rewrite Z.pow_add_r, Z.pow_1_r in F by lia.
  assert (D : (p | a * (a ^ (p - 1) - 1))).
  { apply Z.mod_divide; [lia|]. rewrite Z.mul_sub_distr_l, Z.mul_1_r. rewrite Zminus_mod, F, Z.sub_diag. apply Z.mod_0_l. lia. }
  apply prime_mult in D; auto. destruct D as [D|D].
  - exfalso. apply Z.divide_pos_le in D; lia.
  - apply Z.mod_divide in D; [|lia].
    rewrite Zminus_mod in D. rewrite (Z.mod_small 1 p) in D by lia.
    pose proof (Z.mod_pos_bound (a ^ (p - 1)) p ltac:(lia)) as B.
    set (r := a ^ (p - 1) mod p) in *. clearbody r. clear F Hn.
    pose proof (Z.div_mod (r - 1) p ltac:(lia)) as E. rewrite D in E.
    set (q := (r - 1) / p) in *. clearbody q.
    assert (q = 0).
    { destruct (Z.lt_trichotomy q 0) as [K|[K|K]]; auto; exfalso.
      - assert (p * q <= p * (-1)) by (apply Z.mul_le_mono_nonneg_l; lia). lia.
      - assert (p * 1 <= p * q) by (apply Z.mul_le_mono_nonneg_l; lia). lia. }
    subst q. lia.
Qed.
