(* C14 - lemmas about the byte helpers: big-endian conversion, minimal bytes, re-padding, hex, DER pieces. *)
From Coq Require Import List NArith ZArith Arith Bool Lia ZifyN ZifyNat ZifyBool.
From GmsmVerif Require Import Ser.SerBytes.
Import ListNotations.
Open Scope N_scope.

Ltac Zify.zify_post_hook ::= Z.div_mod_to_equations.

(* ---------- of_be / to_be ------------------------------------------------------------------------------- *)
Lemma of_be_acc : forall l acc, fold_left (fun acc b => acc * 256 + b) l acc = acc * 256 ^ N.of_nat (length l) + of_be l.
Proof.
  unfold of_be. induction l; intros acc.
  - simpl. lia.
  - cbn [fold_left length]. rewrite IHl. rewrite (IHl (0 * 256 + a)).
    rewrite Nat2N.inj_succ, N.pow_succ_r'. lia.
Qed.

Lemma of_be_app : forall l m, of_be (l ++ m) = of_be l * 256 ^ N.of_nat (length m) + of_be m.
Proof. intros. unfold of_be at 1. rewrite fold_left_app. fold (of_be l). apply of_be_acc. Qed.

Lemma of_be_snoc : forall l b, of_be (l ++ [b]) = of_be l * 256 + b.
Proof. intros. rewrite of_be_app. simpl. unfold of_be at 2. simpl. lia. Qed.

Lemma of_be_cons0 : forall l, of_be (0 :: l) = of_be l.
Proof. reflexivity. Qed.

Lemma of_be_zeros : forall j l, of_be (repeat 0 j ++ l) = of_be l.
Proof. induction j; simpl; intros; auto. rewrite of_be_cons0. auto. Qed.

Lemma of_be_strip : forall l, of_be (strip_zeros l) = of_be l.
Proof. induction l as [|[|p] l IH]; simpl; auto. Qed.

Lemma length_to_be : forall k n, length (to_be k n) = k.
Proof. induction k; simpl; intros; auto. rewrite app_length, IHk. simpl. lia. Qed.

Lemma to_be_ok : forall k n, bytes_ok (to_be k n).
Proof.
  unfold bytes_ok. induction k; simpl; intros; auto. apply Forall_app. split; auto.
  constructor; auto. apply N.mod_lt. lia.
Qed.

Lemma of_be_to_be : forall k n, of_be (to_be k n) = n mod 256 ^ N.of_nat k.
Proof.
  induction k; intros n.
  - simpl. rewrite N.mod_1_r. reflexivity.
  - cbn [to_be]. rewrite of_be_snoc, IHk. rewrite Nat2N.inj_succ, N.pow_succ_r'.
    rewrite (N.mod_mul_r n 256 (256 ^ N.of_nat k)) by lia. lia.
Qed.

Lemma of_be_to_be_small : forall k n, n < 256 ^ N.of_nat k -> of_be (to_be k n) = n.
Proof. intros. rewrite of_be_to_be. apply N.mod_small. auto. Qed.

Lemma size_bound : forall n, n < 256 ^ N.of_nat (N.to_nat (N.size n)).
Proof.
  intros n. rewrite N2Nat.id. pose proof (N.size_gt n) as H.
  eapply N.lt_le_trans; [exact H|]. apply N.pow_le_mono_l. lia.
Qed.

Lemma of_be_Bytes : forall n, of_be (Bytes n) = n.
Proof. intros. unfold Bytes. rewrite of_be_strip. apply of_be_to_be_small. apply size_bound. Qed.

Lemma to_be_zero : forall j, to_be j 0 = repeat 0 j.
Proof.
  induction j; simpl; auto. change (0 / 256) with 0. change (0 mod 256) with 0. rewrite IHj.
  clear. induction j; simpl; auto. f_equal. auto.
Qed.

Lemma to_be_prefix : forall k j n, n < 256 ^ N.of_nat k -> to_be (j + k) n = repeat 0 j ++ to_be k n.
Proof.
  induction k; intros j n H.
  - simpl in H. assert (n = 0) by lia. subst. rewrite Nat.add_0_r, to_be_zero. simpl. rewrite app_nil_r. auto.
  - rewrite Nat.add_succ_r. cbn [to_be]. rewrite IHk.
    + rewrite app_assoc. reflexivity.
    + rewrite Nat2N.inj_succ, N.pow_succ_r' in H. apply N.div_lt_upper_bound; lia.
Qed.

Lemma strip_zeros_repeat : forall j l, strip_zeros (repeat 0 j ++ l) = strip_zeros l.
Proof. induction j; simpl; auto. Qed.

Lemma strip_to_be_indep : forall a b n, n < 256 ^ N.of_nat a -> n < 256 ^ N.of_nat b ->
  strip_zeros (to_be a n) = strip_zeros (to_be b n).
Proof.
  assert (W : forall a b n, (a <= b)%nat -> n < 256 ^ N.of_nat a -> strip_zeros (to_be a n) = strip_zeros (to_be b n)).
  { intros a b n Hab Ha. replace b with ((b - a) + a)%nat by lia. rewrite to_be_prefix by auto.
    rewrite strip_zeros_repeat. reflexivity. }
  intros a b n Ha Hb. destruct (le_lt_dec a b); [apply W; auto|symmetry; apply W; auto; lia].
Qed.

Lemma length_strip : forall l, (length (strip_zeros l) <= length l)%nat.
Proof. induction l as [|[|p] l IH]; simpl; auto. Qed.

Lemma Bytes_length : forall k n, n < 256 ^ N.of_nat k -> (length (Bytes n) <= k)%nat.
Proof.
  intros k n H. unfold Bytes. rewrite (strip_to_be_indep _ k n (size_bound n) H).
  pose proof (length_strip (to_be k n)). rewrite length_to_be in H0. auto.
Qed.

Lemma strip_pad : forall l, repeat 0 (length l - length (strip_zeros l)) ++ strip_zeros l = l.
Proof.
  induction l as [|[|p] l IH].
  - reflexivity.
  - cbn [strip_zeros length]. pose proof (length_strip l).
    replace (S (length l) - length (strip_zeros l))%nat with (S (length l - length (strip_zeros l))) by lia.
    cbn [repeat app]. f_equal. exact IH.
  - cbn [strip_zeros]. rewrite Nat.sub_diag. reflexivity.
Qed.

Lemma of_be_bound : forall l, bytes_ok l -> of_be l < 256 ^ N.of_nat (length l).
Proof.
  induction l using rev_ind; intros H.
  - simpl. unfold of_be. simpl. lia.
  - apply Forall_app in H. destruct H as [H1 H2]. inversion H2; subst.
    rewrite of_be_snoc, app_length. simpl. rewrite Nat.add_1_r, Nat2N.inj_succ, N.pow_succ_r'.
    specialize (IHl H1). lia.
Qed.

Lemma to_be_of_be : forall l, bytes_ok l -> to_be (length l) (of_be l) = l.
Proof.
  induction l using rev_ind; intros H; auto.
  apply Forall_app in H. destruct H as [H1 H2]. inversion H2; subst.
  rewrite app_length. simpl. rewrite Nat.add_1_r. cbn [to_be]. rewrite of_be_snoc.
  replace ((of_be l * 256 + x) / 256) with (of_be l) by lia.
  replace ((of_be l * 256 + x) mod 256) with x by lia.
  rewrite IHl; auto.
Qed.

Lemma Bytes_of_be : forall l, bytes_ok l -> Bytes (of_be l) = strip_zeros l.
Proof.
  intros l H. unfold Bytes.
  rewrite (strip_to_be_indep _ (length l) _ (size_bound _) (of_be_bound l H)).
  rewrite to_be_of_be; auto.
Qed.

Lemma pad32_Bytes_of_be : forall l, bytes_ok l -> length l = 32%nat -> pad32 (Bytes (of_be l)) = l.
Proof.
  intros l H L. rewrite Bytes_of_be by auto. unfold pad32. rewrite <- L. apply strip_pad.
Qed.

Lemma Bytes_ok : forall n, bytes_ok (Bytes n).
Proof.
  intros n. unfold Bytes. generalize (to_be_ok (N.to_nat (N.size n)) n).
  generalize (to_be (N.to_nat (N.size n)) n). unfold bytes_ok.
  induction l as [|[|p] l IH]; simpl; intros H; auto. inversion H; auto.
Qed.

Lemma strip_head : forall l b t, strip_zeros l = b :: t -> b <> 0.
Proof. induction l as [|[|p] l IH]; simpl; intros b t H; try discriminate; eauto. inversion H. discriminate. Qed.

Lemma Bytes_head : forall n b t, Bytes n = b :: t -> b <> 0 /\ b < 256.
Proof.
  intros n b t H. split.
  - unfold Bytes in H. eapply strip_head; eauto.
  - pose proof (Bytes_ok n) as K. rewrite H in K. inversion K; auto.
Qed.

Lemma Bytes_nil : forall n, Bytes n = [] -> n = 0.
Proof. intros n H. rewrite <- (of_be_Bytes n), H. reflexivity. Qed.

(* the 32-byte field used by the writers *)
Definition fix32 (b : list byte) : list byte := if (length b <? 32)%nat then pad32 b else b.

Lemma fix32_Bytes : forall x, x < 2 ^ 256 -> length (fix32 (Bytes x)) = 32%nat /\ of_be (fix32 (Bytes x)) = x /\ bytes_ok (fix32 (Bytes x)).
Proof.
  intros x H. assert (L : (length (Bytes x) <= 32)%nat) by (apply Bytes_length; exact H).
  unfold fix32. destruct (length (Bytes x) <? 32)%nat eqn:E.
  - apply Nat.ltb_lt in E. unfold pad32. rewrite app_length, repeat_length, of_be_zeros, of_be_Bytes.
    split; [lia|]. split; auto. apply Forall_app. split; [|apply Bytes_ok].
    apply Forall_forall. intros b Hb. apply repeat_spec in Hb. subst. lia.
  - apply Nat.ltb_ge in E. rewrite of_be_Bytes. split; [lia|]. split; auto. apply Bytes_ok.
Qed.

Lemma fix32_eq_to_be : forall x, x < 2 ^ 256 -> fix32 (Bytes x) = to_be 32 x.
Proof.
  intros x H. destruct (fix32_Bytes x H) as (L & V & K).
  rewrite <- (to_be_of_be _ K). rewrite L, V. reflexivity.
Qed.

(* ---------- hex ----------------------------------------------------------------------------------------------- *)
Lemma hex_digit_inv : forall v, v < 16 -> from_hex_char (hex_digit v) = Some v.
Proof.
  intros v H. unfold hex_digit, from_hex_char.
  destruct (v <? 10) eqn:E.
  - apply N.ltb_lt in E.
    assert ((48 <=? 48 + v) = true) as -> by (apply N.leb_le; lia).
    assert ((48 + v <=? 57) = true) as -> by (apply N.leb_le; lia). cbn [andb]. f_equal. lia.
  - apply N.ltb_ge in E.
    assert ((87 + v <=? 57) = false) as -> by (apply N.leb_gt; lia). rewrite andb_false_r.
    assert ((97 <=? 87 + v) = true) as -> by (apply N.leb_le; lia).
    assert ((87 + v <=? 102) = true) as -> by (apply N.leb_le; lia). cbn [andb]. f_equal. lia.
Qed.

Lemma hex_roundtrip : forall l, bytes_ok l -> hex_decode (hex_encode l) = Some l.
Proof.
  induction l; intros H; auto. inversion H; subst.
  cbn [hex_encode flat_map app]. cbn [hex_decode].
  rewrite hex_digit_inv by (apply N.div_lt_upper_bound; lia).
  rewrite hex_digit_inv by (apply N.mod_lt; lia).
  fold (hex_encode l). rewrite IHl by auto. f_equal. f_equal. lia.
Qed.

Lemma firstn_app_exact : forall A (a b : list A), firstn (length a) (a ++ b) = a.
Proof. intros. rewrite firstn_app, Nat.sub_diag, firstn_all. simpl. apply app_nil_r. Qed.
Lemma skipn_app_exact : forall A (a b : list A), skipn (length a) (a ++ b) = b.
Proof. intros. rewrite skipn_app, Nat.sub_diag, skipn_all. reflexivity. Qed.

(* ---------- modular exponentiation ---------------------------------------------------------------------------- *)
Lemma pow_mod_pos_spec : forall a e m, m <> 0 -> pow_mod_pos a e m = (a ^ Npos e) mod m.
Proof.
  intros a e m Hm. induction e; cbn [pow_mod_pos].
  - rewrite IHe. set (X := a ^ N.pos e).
    rewrite <- (N.mul_mod X X m) by auto. rewrite N.mul_mod_idemp_l by auto.
    f_equal. unfold X. replace (N.pos e~1) with (N.pos e * 2 + 1) by lia.
    rewrite N.pow_add_r, N.pow_1_r, N.pow_mul_r, N.pow_2_r. reflexivity.
  - rewrite IHe. set (X := a ^ N.pos e).
    rewrite <- (N.mul_mod X X m) by auto.
    f_equal. unfold X. replace (N.pos e~0) with (N.pos e * 2) by lia.
    rewrite N.pow_mul_r, N.pow_2_r. reflexivity.
  - rewrite N.pow_1_r. reflexivity.
Qed.

Lemma pow_mod_spec : forall a e m, m <> 0 -> pow_mod a e m = (a ^ e) mod m.
Proof. intros a [|e] m Hm; simpl; [reflexivity|apply pow_mod_pos_spec; auto]. Qed.
