(* C14 - models of the serialisation functions gmsm owns, function by function (same names).
   No proofs in this file.
     x509/utils.go   WritePrivateKeyToHex ReadPrivateKeyFromHex WritePublicKeyToHex ReadPublicKeyFromHex
     sm2/utils.go    Compress Decompress SignDigitToSignData SignDataToSignDigit
     sm2/sm2.go      CipherMarshal CipherUnmarshal
     x509/pkcs8.go   MarshalSm2UnecryptedPrivateKey ParsePKCS8UnecryptedPrivateKey ParseSm2PrivateKey
                     MarshalSm2EcryptedPrivateKey ParsePKCS8EcryptedPrivateKey MarshalSm2PrivateKey ParsePKCS8PrivateKey
                     MarshalSm2PublicKey ParseSm2PublicKey
     gmtls/tls.go, gm_support.go   X509KeyPair GMX509KeyPairs GMX509KeyPairsSingle matchKeyCert (decision logic)
   Keys are triples (D, X, Y) of N; *big.Int values are N (the functions modelled never produce negative ones
   except where said).  PEM armour, encoding/asn1 structure handling, PBKDF2 and AES-CBC are modelled by
   their contracts (abstract in a Section), not verified. *)
From Coq Require Import List NArith Arith Bool.
From GmsmVerif Require Import Lib.Outcome Ser.SerBytes Ser.SerDER.
Import ListNotations.
Open Scope N_scope.

(* curve constants as written in sm2/p256.go initP256Sm2 *)
Definition sm2P : N := 0xFFFFFFFEFFFFFFFFFFFFFFFFFFFFFFFFFFFFFFFF00000000FFFFFFFFFFFFFFFF.
Definition sm2A : N := 0xFFFFFFFEFFFFFFFFFFFFFFFFFFFFFFFFFFFFFFFF00000000FFFFFFFFFFFFFFFC.
Definition sm2B : N := 0x28E9FA9E9D9F5E344D5A9E4BCF6509A7F39789F515AB8F92DDBCBD414D940E93.
Definition sm2N : N := 0xFFFFFFFEFFFFFFFFFFFFFFFFFFFFFFFF7203DF6B21C6052B53BBF40939D54123.

(* ================= hexadecimal (x509/utils.go) ========================================================= *)
(* func WritePrivateKeyToHex(key) string *)
Definition WritePrivateKeyToHex (d : N) : list N :=
  let b := Bytes d in
  hex_encode (if (length b <? 32)%nat then pad32 b else b).

(* func ReadPrivateKeyFromHex(Dhex) (PrivateKey, error): the D of the result (X, Y = ScalarBaseMult(D)).
   Err 1 = hex error, Err 2 = "privateKey's D is overflow." (k >= n-1) *)
Definition ReadPrivateKeyFromHex (s : list N) : outcome N :=
  match hex_decode s with
  | None => Err 1
  | Some d => let k := of_be d in if sm2N - 1 <=? k then Err 2 else Ok k
  end.

(* func WritePublicKeyToHex(key) string: 04 || X || Y, each padded to 32 bytes *)
Definition WritePublicKeyToHex (x y : N) : list N :=
  let xb := Bytes x in let yb := Bytes y in
  let xb := if (length xb <? 32)%nat then pad32 xb else xb in
  let yb := if (length yb <? 32)%nat then pad32 yb else yb in
  hex_encode (4 :: xb ++ yb).

(* func ReadPublicKeyFromHex(Qhex): no on-curve check.  Err 1 = hex error, Err 2 = "publicKey is not uncompressed." *)
Definition ReadPublicKeyFromHex (s : list N) : outcome (N * N) :=
  match hex_decode s with
  | None => Err 1
  | Some q =>
    let q := if ((length q =? 65)%nat && (hd 1 q =? 4))%bool then tl q else q in
    if negb (length q =? 64)%nat then Err 2
    else Ok (of_be (firstn 32 q), of_be (skipn 32 q))
  end.

(* ================= point compression (sm2/utils.go) ===================================================== *)
Section Curve.
  Variables p a b : N.          (* instantiated with sm2P sm2A sm2B; theorems hold for any curve with p = 3 mod 4 *)

  Definition rhs (x : N) : N := (((x * x) mod p * x) mod p + (a * x) mod p + b) mod p.
  Definition on_curve (x y : N) : bool := (x <? p) && (y <? p) && ((y * y) mod p =? rhs x).

  (* big.Int.ModSqrt for p = 3 mod 4: candidate y2^((p+1)/4); nil unless it squares to y2 *)
  Definition mod_sqrt (y2 : N) : option N :=
    let r := pow_mod y2 ((p + 1) / 4) p in
    if (r * r) mod p =? y2 mod p then Some r else None.

  (* func Compress(a *PublicKey) []byte: parity of y, then X padded to 32 bytes *)
  Definition Compress (x y : N) : list byte :=
    let xb := Bytes x in
    (y mod 2) :: (if (length xb <? 32)%nat then pad32 xb else xb).

  (* func Decompress(a []byte) *PublicKey: None = nil *)
  Definition Decompress (c : list byte) : option (N * N) :=
    if negb (length c =? 33)%nat then None
    else if 1 <? hd 0 c then None
    else
      let x := of_be (tl c) in
      if p <=? x then None
      else
        match mod_sqrt (rhs x) with
        | None => None
        | Some y => Some (x, if y mod 2 =? hd 0 c then y else p - y)
        end.
End Curve.

Definition Compress_sm2 := Compress.
Definition Decompress_sm2 := Decompress sm2P sm2A sm2B.

(* ================= ASN.1 signature (sm2/utils.go) ======================================================== *)
(* func SignDigitToSignData(r, s) ([]byte, error) = asn1.Marshal(sm2Signature{r, s}), r, s >= 0 *)
Definition SignDigitToSignData (r s : N) : list byte := tlv TAG_SEQ (der_int r ++ der_int s).

(* func SignDataToSignDigit(sign): asn1.Unmarshal ignores bytes after the SEQUENCE and after the second field.
   Err 1 = asn1 error; a negative INTEGER parses (big.Int), reported as Err 3 by this model (outside N). *)
Definition SignDataToSignDigit (sign : list byte) : outcome (N * N) :=
  match read_tlv TAG_SEQ sign with
  | None => Err 1
  | Some (inner, _) =>
    match read_int inner with
    | None => Err 1
    | Some (r, rest) =>
      match read_int rest with
      | None => Err 1
      | Some (s, _) =>
        match r, s with
        | inr r', inr s' => Ok (r', s')
        | _, _ => Err 3
        end
      end
    end
  end.

(* ================= ASN.1 ciphertext (sm2/sm2.go) ======================================================== *)
(* func CipherMarshal(data): data = 04 || x(32) || y(32) || hash(32) || ciphertext.  Err 1 = too short *)
Definition CipherMarshal (data : list byte) : outcome (list byte) :=
  if (length data <? 97)%nat then Err 1
  else
    let d := tl data in
    let x := of_be (firstn 32 d) in
    let y := of_be (firstn 32 (skipn 32 d)) in
    let h := firstn 32 (skipn 64 d) in
    let c := skipn 96 d in
    Ok (tlv TAG_SEQ (der_int x ++ der_int y ++ tlv TAG_OCTETS h ++ tlv TAG_OCTETS c)).

(* func CipherUnmarshal(data): Err 1 = asn1 error, Err 2 = "invalid ciphertext" *)
Definition CipherUnmarshal (data : list byte) : outcome (list byte) :=
  match read_tlv TAG_SEQ data with
  | None => Err 1
  | Some (inner, _) =>
    match read_int inner with
    | None => Err 1
    | Some (x, r1) =>
      match read_int r1 with
      | None => Err 1
      | Some (y, r2) =>
        match read_tlv TAG_OCTETS r2 with
        | None => Err 1
        | Some (h, r3) =>
          match read_tlv TAG_OCTETS r3 with
          | None => Err 1
          | Some (c, _) =>
            match x, y with
            | inr x', inr y' =>
              let xb := Bytes x' in let yb := Bytes y' in
              if ((32 <? length xb) || (32 <? length yb) || negb (length h =? 32))%nat%bool then Err 2
              else Ok (4 :: pad32 xb ++ pad32 yb ++ h ++ c)
            | _, _ => Err 2
            end
          end
        end
      end
    end
  end.

(* ================= PKCS#8 (x509/pkcs8.go) ================================================================== *)
Definition OID_EC_PUBKEY : list byte := [6;7;42;134;72;206;61;2;1].              (* 1.2.840.10045.2.1 *)
Definition OID_SM2_CURVE : list byte := [6;8;42;129;28;207;85;1;130;45].         (* 1.2.156.10197.1.301 *)

(* elliptic.Marshal: 04 || X(32) || Y(32) *)
Definition point_bytes (x y : N) : list byte := 4 :: to_be 32 x ++ to_be 32 y.

(* func MarshalSm2UnecryptedPrivateKey(key): the DER produced (asn1.Marshal of pkcs8{0, algo, asn1.Marshal(sm2PrivateKey{1, D.Bytes(), curve, pub})}) *)
Definition sm2PrivateKey_der (d x y : N) : list byte :=
  tlv TAG_SEQ (der_int 1 ++ tlv TAG_OCTETS (Bytes d)
               ++ tlv 160 OID_SM2_CURVE
               ++ tlv 161 (tlv 3 (0 :: point_bytes x y))).
Definition MarshalSm2UnecryptedPrivateKey (d x y : N) : list byte :=
  tlv TAG_SEQ (der_int 0 ++ tlv TAG_SEQ (OID_EC_PUBKEY ++ OID_SM2_CURVE) ++ tlv TAG_OCTETS (sm2PrivateKey_der d x y)).

Fixpoint starts_with (pre l : list byte) : bool :=
  match pre, l with
  | [], _ => true
  | a :: pre', b :: l' => (a =? b) && starts_with pre' l'
  | _, [] => false
  end.

Section BaseMult.
  Variable base_mult : N -> N * N.       (* curve.ScalarBaseMult on a 32-byte scalar: abstract (C03) *)

  (* func ParseSm2PrivateKey(der), from the PrivateKey OCTET STRING [oct] that asn1.Unmarshal delivered.
     Err 2 = value >= N, Err 3 = "invalid private key length".  Result (D, X, Y). *)
  Fixpoint drop_to_32 (fuel : nat) (oct : list byte) : outcome (list byte) :=
    if (32 <? length oct)%nat then
      match fuel with
      | O => Hang
      | S f => match oct with
               | 0 :: t => drop_to_32 f t
               | _ => Err 3
               end
      end
    else Ok oct.

  Definition ParseSm2PrivateKey (oct : list byte) : outcome (N * N * N) :=
    let k := of_be oct in
    if sm2N <=? k then Err 2
    else
      do oct' <- drop_to_32 (length oct) oct;
      let scalar := pad32 oct' in
      let '(x, y) := base_mult (of_be scalar) in
      Ok (k, x, y).

  (* the part of ParsePKCS8UnecryptedPrivateKey that reaches the OCTET STRING in DER produced by this package:
     SEQ { INT 0, SEQ{..}, OCTETS { SEQ { INT 1, OCTETS d, ... } } }; trailing bytes are ignored (asn1 "rest") *)
  Definition ParsePKCS8UnecryptedPrivateKey (der : list byte) : outcome (N * N * N) :=
    match read_tlv TAG_SEQ der with
    | None => Err 1
    | Some (body, _) =>
      match read_int body with
      | None => Err 1
      | Some (_, r1) =>
        match read_tlv TAG_SEQ r1 with
        | None => Err 1
        | Some (algo, r2) =>
          if negb (starts_with OID_EC_PUBKEY algo) then Err 4
          else
            match read_tlv TAG_OCTETS r2 with
            | None => Err 1
            | Some (inner, _) =>
              match read_tlv TAG_SEQ inner with
              | None => Err 1
              | Some (f, _) =>
                match read_int f with
                | None => Err 1
                | Some (_, f1) =>
                  match read_tlv TAG_OCTETS f1 with
                  | None => Err 1
                  | Some (oct, _) => ParseSm2PrivateKey oct
                  end
                end
              end
            end
        end
      end
    end.
End BaseMult.

(* ---- password protected (PBES2: PBKDF2-HMAC-SHA1 2048 / AES-256-CBC), primitives abstract -------------- *)
Section Encrypted.
  Variable base_mult : N -> N * N.
  Variable kdf : list byte -> list byte -> list byte.                     (* password, salt -> 32-byte key *)
  Variable cbc_enc cbc_dec : list byte -> list byte -> list byte -> list byte.  (* key, iv, data *)

  Record enc_blob := mkBlob { eb_salt : list byte; eb_iv : list byte; eb_ct : list byte }.
  (* what asn1.Marshal(EncryptedPrivateKeyInfo{...}) carries and asn1.Unmarshal gives back *)

  Definition pkcs7_pad16 (der : list byte) : list byte :=
    let k := (16 - length der mod 16)%nat in der ++ repeat (N.of_nat k) k.

  (* func MarshalSm2EcryptedPrivateKey(key, pwd) with the random salt and iv as inputs *)
  Definition MarshalSm2EcryptedPrivateKey (d x y : N) (pwd salt iv : list byte) : enc_blob :=
    let der := MarshalSm2UnecryptedPrivateKey d x y in
    mkBlob salt iv (cbc_enc (kdf pwd salt) iv (pkcs7_pad16 der)).

  (* func ParsePKCS8EcryptedPrivateKey(der, pwd): Err 5 = IV length, Err 6 = data length, Err 7 = "incorrect password" *)
  Definition ParsePKCS8EcryptedPrivateKey (e : enc_blob) (pwd : list byte) : outcome (N * N * N) :=
    if negb (length (eb_iv e) =? 16)%nat then Err 5
    else if ((length (eb_ct e) =? 0) || negb (length (eb_ct e) mod 16 =? 0))%nat then Err 6
    else
      match ParsePKCS8UnecryptedPrivateKey base_mult (cbc_dec (kdf pwd (eb_salt e)) (eb_iv e) (eb_ct e)) with
      | Ok k => Ok k
      | _ => Err 7
      end.

  (* MarshalSm2PrivateKey / ParsePKCS8PrivateKey: pwd == nil selects the plain form; a blob of the other form
     does not parse (asn1 structure mismatch, contract): Err 1 *)
  Inductive p8 := P8Plain (der : list byte) | P8Enc (e : enc_blob).
  Definition MarshalSm2PrivateKey (d x y : N) (pwd : option (list byte)) (salt iv : list byte) : p8 :=
    match pwd with None => P8Plain (MarshalSm2UnecryptedPrivateKey d x y)
                 | Some w => P8Enc (MarshalSm2EcryptedPrivateKey d x y w salt iv) end.
  Definition ParsePKCS8PrivateKey (b : p8) (pwd : option (list byte)) : outcome (N * N * N) :=
    match pwd, b with
    | None, P8Plain der => ParsePKCS8UnecryptedPrivateKey base_mult der
    | Some w, P8Enc e => ParsePKCS8EcryptedPrivateKey e w
    | _, _ => Err 1
    end.
End Encrypted.

(* ---- PKIX public key: elliptic.Marshal / Unmarshal around asn1 (contract) ------------------------------ *)
Definition MarshalSm2PublicKey (x y : N) : list byte := point_bytes x y.       (* the BIT STRING contents *)
Definition ParseSm2PublicKey (bits : list byte) : option (N * N) :=            (* None = (nil, nil) *)
  if negb ((length bits =? 65)%nat && (hd 0 bits =? 4))%bool then None
  else
    let x := of_be (firstn 32 (tl bits)) in
    let y := of_be (skipn 32 (tl bits)) in
    if on_curve sm2P sm2A sm2B x y then Some (x, y) else None.

(* ================= TLS key-pair loaders: decision logic ================================================== *)
(* what parsePrivateKey returns / what the certificate's PublicKey is *)
Inductive keyk := KRsa (n : N) | KEcdsa (curve : nat) (x y : N) | KSm2 (x y : N) | KBad.
Inductive certk := CRsa (n : N) | CEc (curve : nat) (x y : N) | COther | CBad.    (* curve 0 = sm2.P256Sm2() *)

(* func X509KeyPair(cert, key) *)
Definition X509KeyPair (c : certk) (k : keyk) : bool :=
  match k with
  | KBad => false
  | _ =>
    match c with
    | CBad | COther => false
    | CRsa n => match k with KRsa n' => n =? n' | _ => false end
    | CEc O x y => match k with KSm2 x' y' => (x =? x') && (y =? y') | _ => false end
    | CEc _ x y => match k with KEcdsa _ x' y' => (x =? x') && (y =? y') | _ => false end
    end
  end.

(* func matchKeyCert(key, cert) *)
Definition matchKeyCert (c : certk) (k : keyk) : bool :=
  match c with
  | CBad => false
  | _ =>
    match k with
    | KBad => false
    | _ =>
      match c with
      | CEc curve x y =>
        match k with
        | KSm2 x' y' => (curve =? 0)%nat && (x =? x') && (y =? y')
        | _ => false
        end
      | _ => false
      end
    end
  end.

(* func GMX509KeyPairs(signCert, signKey, encCert, encKey) *)
Definition GMX509KeyPairs (sc : certk) (sk : keyk) (ec : certk) (ek : keyk) : bool :=
  matchKeyCert sc sk && matchKeyCert ec ek.

(* func GMX509KeyPairsSingle(cert, key): certificates whose algorithm is not SM2 go to X509KeyPair *)
Definition is_sm2_cert (c : certk) : bool := match c with CEc O _ _ => true | _ => false end.
Definition GMX509KeyPairsSingle (c : certk) (k : keyk) : bool :=
  match c with
  | CBad => false
  | _ => if is_sm2_cert c then matchKeyCert c k else X509KeyPair c k
  end.

(* ================= PEM input of the loaders: which block is used ========================================= *)
(* labels of PEM blocks as the loaders distinguish them *)
Inductive plabel :=
| LCert               (* "CERTIFICATE" *)
| LPrivKey            (* "PRIVATE KEY" *)
| LSuffixPrivKey      (* any other type ending in " PRIVATE KEY": "EC PRIVATE KEY", "RSA PRIVATE KEY", "ENCRYPTED PRIVATE KEY" *)
| LOtherLabel.        (* "EC PARAMETERS", "PUBLIC KEY", ... *)

(* what the bytes of a block are, whatever its label says *)
Inductive pcontent :=
| PCert (c : certk)                    (* a certificate (CBad: does not parse) *)
| PPkcs1Rsa (n : N)                    (* PKCS#1 RSAPrivateKey *)
| PPkcs8Rsa (n : N)
| PPkcs8Ecdsa (curve : nat) (x y : N)  (* PKCS#8 with a curve the standard library knows *)
| PPkcs8Other                          (* PKCS#8 of another algorithm (Ed25519 ...) *)
| PPkcs8Sm2 (x y : N)                  (* PKCS#8 id-ecPublicKey on the SM2 curve: x509.ParsePKCS8UnecryptedPrivateKey *)
| PSec1                                (* SEC 1 ECPrivateKey ("EC PRIVATE KEY" of openssl / gmssl): no parser in gmtls *)
| PEncrypted                           (* EncryptedPrivateKeyInfo: the loaders take no password *)
| PJunk.

Definition pemfile := list (plabel * pcontent).

(* func getCert(certPEMBlock) / the first loop of X509KeyPair: all CERTIFICATE blocks in order; None = error *)
Definition getCert (f : pemfile) : option (list pcontent) :=
  match map snd (filter (fun b => match fst b with LCert => true | _ => false end) f) with
  | [] => None
  | l => Some l
  end.

(* func getKey(keyPEMBlock) / the second loop of X509KeyPair: the FIRST block whose type is "PRIVATE KEY" or ends
   in " PRIVATE KEY"; None = error *)
Fixpoint getKey (f : pemfile) : option pcontent :=
  match f with
  | [] => None
  | (LPrivKey, c) :: _ | (LSuffixPrivKey, c) :: _ => Some c
  | _ :: r => getKey r
  end.

(* func parsePrivateKey(der): PKCS#1, then the standard PKCS#8 parser (RSA and ECDSA only, anything else it parses is
   an error at once), then the SM2 PKCS#8 parser *)
Definition parsePrivateKey (c : pcontent) : keyk :=
  match c with
  | PPkcs1Rsa n | PPkcs8Rsa n => KRsa n
  | PPkcs8Ecdsa cu x y => KEcdsa cu x y
  | PPkcs8Sm2 x y => KSm2 x y
  | _ => KBad
  end.

Definition certOf (c : pcontent) : certk := match c with PCert k => k | _ => CBad end.

(* the loaders on PEM input: the leaf is the first CERTIFICATE block, the key the first key-labelled block *)
Definition X509KeyPair_pem (cf kf : pemfile) : bool :=
  match getCert cf, getKey kf with
  | Some (c :: _), Some k => X509KeyPair (certOf c) (parsePrivateKey k)
  | _, _ => false
  end.
Definition GMX509KeyPairsSingle_pem (cf kf : pemfile) : bool :=
  match getCert cf, getKey kf with
  | Some (c :: _), Some k => GMX509KeyPairsSingle (certOf c) (parsePrivateKey k)
  | _, _ => false
  end.
Definition GMX509KeyPairs_pem (cf kf ecf ekf : pemfile) : bool :=
  match getCert cf, getCert ecf, getKey kf, getKey ekf with
  | Some (c :: _), Some (ec :: _), Some k, Some ek =>
      GMX509KeyPairs (certOf c) (parsePrivateKey k) (certOf ec) (parsePrivateKey ek)
  | _, _, _, _ => false
  end.
