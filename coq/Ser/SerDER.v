(* C14 - the DER pieces used by the serialisation models ARE the ones of coq/SM2/DER.v (one DER model in the
   development): this file only gives them the N-typed interface the Ser models use (integers of the Ser family are
   N, those of SM2/DER.v are Z) and proves what the round trips need, for contents of any length below 2^23 bytes
   (the encoding/asn1 length loop of SM2/DER.v refuses longer ones, as Go's parser limits lengths).
   The byte conversions of Ser/SerBytes.v are shown to coincide with those of SM2/SM2Bytes.v. *)
From Coq Require Import List NArith ZArith Arith Bool Lia.
From GmsmVerif Require Import SM2.SM2Bytes SM2.SM2BytesProofs SM2.DER SM2.DERProofs Ser.SerBytes Ser.SerBytesProofs.
Import ListNotations.

(* ---------- the interface (definitions) ------------------------------------------------------------------------ *)
Definition TAG_INT : N := DER.TAG_INTEGER.
Definition TAG_OCTETS : N := DER.TAG_OCTET_STRING.
Definition TAG_SEQ : N := DER.TAG_SEQUENCE.

Definition tlv (tag : N) (content : list N) : list N := DER.tlv tag content.
Definition der_int (n : N) : list N := DER.der_int (Z.of_N n).
(* encoding/asn1 parseTagAndLength + tag test for an expected single-byte tag: (contents, rest) *)
Definition read_tlv (tag : N) (b : list N) : option (list N * list N) := DER.asn1_read b tag.
(* parseBigInt: None on malformed, inl tt for a negative value, inr n for n >= 0 *)
Definition read_int (b : list N) : option ((unit + N) * list N) :=
  match DER.asn1_read_int b with
  | Some (z, rest) => Some ((if (z <? 0)%Z then inl tt else inr (Z.to_N z)), rest)
  | None => None
  end.

(* ---------- Ser byte conversions = SM2 byte conversions ----------------------------------------------------- *)
Lemma bytes_ok_same : forall l, SerBytes.bytes_ok l <-> SM2Bytes.bytes_ok l.
Proof. intros; reflexivity. Qed.

Lemma strip_same : forall l, strip_zeros l = strip0 l.
Proof. induction l as [|[|p] l IH]; simpl; auto. Qed.

Lemma to_be_i2osp : forall k n, to_be k n = i2osp k (Z.of_N n).
Proof.
  induction k; intros n; simpl; auto.
  rewrite IHk. f_equal; [f_equal|f_equal].
  - rewrite N2Z.inj_div. reflexivity.
  - rewrite <- (N2Z.id (n mod 256)). f_equal. rewrite N2Z.inj_mod. reflexivity.
Qed.

Lemma of_be_os2ip : forall l, Z.of_N (of_be l) = os2ip l.
Proof.
  intros l. unfold of_be, os2ip.
  assert (G : forall (a : N) (z : Z), Z.of_N a = z ->
            Z.of_N (fold_left (fun acc b => (acc * 256 + b)%N) l a) = fold_left (fun acc b => (acc * 256 + Z.of_N b)%Z) l z).
  { induction l; simpl; intros a0 z0 E; auto. apply IHl. rewrite <- E. lia. }
  apply G. reflexivity.
Qed.

Lemma Bytes_be_bytes : forall n, Bytes n = be_bytes (Z.of_N n).
Proof.
  intros n. unfold Bytes. rewrite strip_same, to_be_i2osp.
  symmetry. apply be_bytes_small. split; [lia|].
  pose proof (size_bound n) as H. apply N2Z.inj_lt in H. rewrite N2Z.inj_pow in H. rewrite nat_N_Z in H. exact H.
Qed.

(* ---------- the length loop of encoding/asn1 on minimal length bytes ---------------------------------------- *)
Open Scope Z_scope.

Lemma asn1_len_loop_gen : forall bs acc, SM2Bytes.bytes_ok bs -> 0 <= acc ->
  (0 < acc \/ hd 0%N bs <> 0%N) ->
  acc * 256 ^ Z.of_nat (length bs) + os2ip bs < 2 ^ 23 ->
  asn1_len_loop bs acc = Some (acc * 256 ^ Z.of_nat (length bs) + os2ip bs).
Proof.
  induction bs as [|b t IH]; intros acc Hok Ha Hnz Hb.
  - simpl. rewrite os2ip_nil. f_equal. lia.
  - apply bytes_ok_cons in Hok. destruct Hok as [Hb256 Hok].
    assert (Hp : 0 < 256 ^ Z.of_nat (length t)) by apply pow256_pos.
    pose proof (os2ip_bound t Hok) as Ht.
    rewrite os2ip_cons in *. cbn [length] in *. rewrite Nat2Z.inj_succ, Z.pow_succ_r in * by lia.
    cbn [asn1_len_loop].
    assert (Hacc : acc < 2 ^ 23) by nia.
    destruct (Z.leb_spec (2 ^ 23) acc); [lia|].
    assert (Hn0 : acc * 256 + Z.of_N b <> 0).
    { destruct Hnz as [Hnz|Hnz]; [lia|]. simpl in Hnz. lia. }
    destruct (Z.eqb_spec (acc * 256 + Z.of_N b) 0); [contradiction|].
    rewrite IH; auto; try lia. f_equal. ring.
Qed.

Lemma read_tlv_tlv : forall tag c rest, (N.land tag 0x1f =? 0x1f)%N = false -> Z.of_nat (length c) < 2 ^ 23 ->
  read_tlv tag (tlv tag c ++ rest) = Some (c, rest).
Proof.
  intros tag c rest Ht Hl. unfold read_tlv, tlv, DER.tlv. set (L := Z.of_nat (length c)) in *.
  destruct (Z.ltb_spec L 128) as [Hs|Hs].
  - rewrite der_len_short by lia. cbn [app]. unfold asn1_read. rewrite Ht.
    destruct (bit7_of_small (Z.to_N L) ltac:(lia)) as [E _]. rewrite E. rewrite N.eqb_refl. cbn [negb].
    rewrite app_length. destruct (Z.ltb_spec (Z.of_nat (length c + length rest)) (Z.of_N (Z.to_N L))); [lia|].
    replace (Z.to_nat (Z.of_N (Z.to_N L))) with (length c) by lia.
    rewrite firstn_app_l, skipn_app_l by reflexivity. reflexivity.
  - rewrite der_len_long by lia. set (lb := be_bytes L) in *.
    assert (Hlb3 : (length lb <= 3)%nat).
    { apply be_bytes_length. change (256 ^ Z.of_nat 3) with (2 ^ 24). lia. }
    assert (Hlb1 : (1 <= length lb)%nat).
    { destruct lb eqn:E; [|cbn; lia]. exfalso. apply (be_bytes_nonempty L); [lia|exact E]. }
    cbn [app]. unfold asn1_read. rewrite Ht.
    assert (E : (N.land (N.of_nat (128 + length lb)) 128 =? 0)%N = false /\
                N.to_nat (N.land (N.of_nat (128 + length lb)) 127) = length lb).
    { destruct (length lb) as [|[|[|[|k]]]]; try lia; split; reflexivity. }
    destruct E as [E1 E2]. rewrite E1, E2.
    destruct (Nat.eqb_spec (length lb) 0); [lia|]. rewrite <- app_assoc, app_length.
    destruct (Nat.ltb_spec (length lb + length (c ++ rest)) (length lb)); [lia|]. cbn [orb].
    rewrite firstn_app_l, skipn_app_l by reflexivity.
    destruct (be_bytes_hd L) as [E0|E0]; [exfalso; apply (be_bytes_nonempty L); [lia|exact E0]|]. fold lb in E0.
    assert (Hos : os2ip lb = L) by (apply os2ip_be_bytes; lia).
    assert (Hloop : asn1_len_loop lb 0 = Some L).
    { rewrite (asn1_len_loop_gen lb 0).
      - f_equal. rewrite Hos. lia.
      - apply be_bytes_ok.
      - lia.
      - right. exact E0.
      - rewrite Hos. lia. }
    rewrite Hloop.
    destruct (Z.ltb_spec L 128); [lia|]. rewrite N.eqb_refl. cbn [negb].
    rewrite app_length. destruct (Z.ltb_spec (Z.of_nat (length c + length rest)) L); [lia|].
    unfold L. rewrite Nat2Z.id. rewrite firstn_app_l, skipn_app_l by reflexivity. reflexivity.
Qed.

Lemma read_tlv_tlv0 : forall tag c, (N.land tag 0x1f =? 0x1f)%N = false -> Z.of_nat (length c) < 2 ^ 23 ->
  read_tlv tag (tlv tag c) = Some (c, []).
Proof. intros. rewrite <- (app_nil_r (tlv tag c)). apply read_tlv_tlv; auto. Qed.

(* the contents of INTEGER n: at most one byte more than the magnitude *)
Lemma int_content_len : forall n : N, (length (DER.int_content (Z.of_N n)) <= S (length (Bytes n)))%nat.
Proof.
  intros n. rewrite Bytes_be_bytes. unfold DER.int_content.
  destruct (Z.ltb_spec (Z.of_N n) 0); [lia|].
  destruct (Z.eqb_spec (Z.of_N n) 0) as [E|E].
  - simpl. lia.
  - destruct (N.land (hd 0%N (be_bytes (Z.of_N n))) 128 =? 0)%N; rewrite app_length; simpl; lia.
Qed.

Lemma read_int_der_int : forall n rest, Z.of_nat (length (Bytes n)) < 2 ^ 23 - 1 ->
  read_int (der_int n ++ rest) = Some (inr n, rest).
Proof.
  intros n rest Hl. unfold read_int, der_int, DER.der_int, asn1_read_int.
  pose proof (int_content_len n).
  pose proof (read_tlv_tlv TAG_INTEGER (DER.int_content (Z.of_N n)) rest eq_refl ltac:(lia)) as R.
  unfold read_tlv, tlv in R. rewrite R.
  destruct (int_complete (Z.of_N n) ltac:(lia)) as [Hm Hv]. rewrite Hm, Hv.
  destruct (Z.ltb_spec (Z.of_N n) 0); [lia|]. rewrite N2Z.id. reflexivity.
Qed.

Lemma read_int_der_int0 : forall n, Z.of_nat (length (Bytes n)) < 2 ^ 23 - 1 -> read_int (der_int n) = Some (inr n, []).
Proof. intros. rewrite <- (app_nil_r (der_int n)). apply read_int_der_int; auto. Qed.

(* sizes, to discharge the bounds of nested structures *)
Lemma tlv_len_le : forall tag c, Z.of_nat (length c) < 2 ^ 23 -> (length (tlv tag c) <= length c + 5)%nat.
Proof.
  intros tag c H. unfold tlv. rewrite tlv_length. unfold der_len.
  destruct (Z.ltb_spec (Z.of_nat (length c)) 128); cbn [length]; [lia|].
  assert (length (be_bytes (Z.of_nat (length c))) <= 3)%nat by (apply be_bytes_length; change (256 ^ Z.of_nat 3) with (2 ^ 24); lia).
  lia.
Qed.

Lemma der_int_len_le : forall n, Z.of_nat (length (Bytes n)) < 2 ^ 23 - 1 -> (length (der_int n) <= length (Bytes n) + 6)%nat.
Proof.
  intros n H. unfold der_int, DER.der_int. pose proof (int_content_len n).
  pose proof (tlv_len_le TAG_INTEGER (DER.int_content (Z.of_N n)) ltac:(lia)). unfold tlv in *. lia.
Qed.
Close Scope Z_scope.
