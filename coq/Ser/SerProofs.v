(* C14 - round-trip lemmas for the serialisation models of Ser/SerModel.v. *)
From Coq Require Import List NArith ZArith Znumtheory Zpow_facts Arith Bool Lia ZifyN ZifyNat ZifyBool.
From GmsmVerif Require Import Lib.Outcome Ser.SerBytes Ser.SerBytesProofs Ser.SerDER Ser.SerModel Ser.SerSpec Ser.Fermat.
Import ListNotations.
Open Scope N_scope.

Ltac Zify.zify_post_hook ::= Z.div_mod_to_equations.

(* ---------- 32-byte fields, any value ------------------------------------------------------------------ *)
Lemma fix32_val : forall d, of_be (if (length (Bytes d) <? 32)%nat then pad32 (Bytes d) else Bytes d) = d
  /\ bytes_ok (if (length (Bytes d) <? 32)%nat then pad32 (Bytes d) else Bytes d).
Proof.
  intros d. destruct (length (Bytes d) <? 32)%nat.
  - unfold pad32. rewrite of_be_zeros, of_be_Bytes. split; auto.
    apply Forall_app. split; [|apply Bytes_ok].
    apply Forall_forall. intros b Hb. apply repeat_spec in Hb. subst. lia.
  - rewrite of_be_Bytes. split; auto. apply Bytes_ok.
Qed.

(* ---------- hexadecimal ------------------------------------------------------------------------------------ *)
Lemma hex_priv : forall d,
  ReadPrivateKeyFromHex (WritePrivateKeyToHex d) = if sm2N - 1 <=? d then Err 2 else Ok d.
Proof.
  intros d. unfold ReadPrivateKeyFromHex, WritePrivateKeyToHex.
  destruct (fix32_val d) as [V K]. rewrite hex_roundtrip by exact K. rewrite V. reflexivity.
Qed.

Lemma hex_pub : forall x y, x < 2 ^ 256 -> y < 2 ^ 256 ->
  ReadPublicKeyFromHex (WritePublicKeyToHex x y) = Ok (x, y).
Proof.
  intros x y Hx Hy. unfold ReadPublicKeyFromHex, WritePublicKeyToHex.
  destruct (fix32_Bytes x Hx) as (Lx & Vx & Kx). destruct (fix32_Bytes y Hy) as (Ly & Vy & Ky).
  unfold fix32 in *.
  set (xb := if (length (Bytes x) <? 32)%nat then pad32 (Bytes x) else Bytes x) in *.
  set (yb := if (length (Bytes y) <? 32)%nat then pad32 (Bytes y) else Bytes y) in *.
  rewrite hex_roundtrip.
  - cbn [length hd]. rewrite app_length, Lx, Ly.
    replace ((S (32 + 32) =? 65)%nat && (4 =? 4))%bool with true by reflexivity. cbv iota. cbn [tl].
    rewrite app_length, Lx, Ly. replace (negb (32 + 32 =? 64)%nat) with false by reflexivity. cbv iota.
    rewrite <- Lx at 1. rewrite firstn_app_exact. rewrite <- Lx. rewrite skipn_app_exact. rewrite Vx, Vy. reflexivity.
  - constructor; [lia|]. apply Forall_app. split; auto.
Qed.

(* ---------- square roots modulo p = 3 mod 4 ------------------------------------------------------------ *)
Open Scope Z_scope.
Lemma sqrt_candidates : forall p y : Z, prime p -> p mod 4 = 3 -> 0 <= y < p ->
  (y = 0 \/ y ^ (p - 1) mod p = 1) ->
  let r := ((y * y) mod p) ^ ((p + 1) / 4) mod p in
  (r * r) mod p = (y * y) mod p /\ (r = y \/ r = p - y).
Proof.
  intros p y Hp H34 Hy Hf r.
  pose proof (prime_ge_2 _ Hp) as Hp2.
  set (e := (p + 1) / 4) in *.
  assert (He : p + 1 = 4 * e) by (unfold e; lia).
  assert (He1 : 1 <= e) by lia.
  assert (Hr : 0 <= r < p) by (unfold r; apply Z.mod_pos_bound; lia).
  destruct Hf as [Hy0|Hf].
  - subst y. assert (r = 0).
    { unfold r. replace (0 * 0) with 0 by lia. rewrite Z.mod_0_l by lia. rewrite Z.pow_0_l by lia. apply Z.mod_0_l. lia. }
    rewrite H. split; [reflexivity|auto].
  - assert (Hrr : (r * r) mod p = (y * y) mod p).
    { unfold r. rewrite <- Zpower_mod by lia. rewrite <- Zmult_mod.
      replace (y * y) with (y ^ 2) by (rewrite Z.pow_2_r; reflexivity).
      rewrite <- Z.pow_mul_r by lia. rewrite <- Z.pow_add_r by lia.
      replace (2 * e + 2 * e) with ((p - 1) + 2) by lia.
      rewrite Z.pow_add_r by lia. rewrite Zmult_mod, Hf, Z.mul_1_l, Z.mod_mod by lia. reflexivity. }
    split; auto.
    assert (Hd : (p | (r - y) * (r + y))).
    { apply Z.mod_divide; [lia|]. replace ((r - y) * (r + y)) with (r * r - y * y) by ring.
      rewrite Zminus_mod, Hrr, Z.sub_diag. apply Z.mod_0_l. lia. }
    apply prime_mult in Hd; auto. clearbody r e. clear Hrr Hf He He1 H34 Hp.
    destruct Hd as [[k Hk]|[k Hk]].
    + left. assert (k = 0).
      { destruct (Z.lt_trichotomy k 0) as [K|[K|K]]; auto; exfalso.
        - assert (k * p <= -1 * p) by (apply Z.mul_le_mono_nonneg_r; lia). lia.
        - assert (1 * p <= k * p) by (apply Z.mul_le_mono_nonneg_r; lia). lia. }
      subst. lia.
    + destruct (Z.lt_trichotomy k 1) as [K|[K|K]].
      * left. assert (k * p <= 0 * p) by (apply Z.mul_le_mono_nonneg_r; lia). lia.
      * right. subst. lia.
      * exfalso. assert (2 * p <= k * p) by (apply Z.mul_le_mono_nonneg_r; lia). lia.
Qed.
Close Scope Z_scope.

Section CompressProofs.
  Variables p a b : N.
  Hypothesis Hprime : prime (Z.of_N p).
  Hypothesis H34 : p mod 4 = 3.
  Hypothesis Hp256 : p <= 2 ^ 256.

  Lemma mod_sqrt_of_square : forall y, y < p ->
    exists r, mod_sqrt p ((y * y) mod p) = Some r /\ (r = y \/ (r = p - y /\ y <> 0)).
  Proof.
    intros y Hy.
    assert (Hp0 : p <> 0) by lia.
    pose proof (sqrt_candidates (Z.of_N p) (Z.of_N y) Hprime) as S.
    assert (A1 : (Z.of_N p mod 4 = 3)%Z) by lia.
    assert (A2 : (0 <= Z.of_N y < Z.of_N p)%Z) by lia.
    assert (A3 : (Z.of_N y = 0 \/ Z.of_N y ^ (Z.of_N p - 1) mod Z.of_N p = 1)%Z).
    { destruct (N.eq_dec y 0) as [->|Hn]; [left; reflexivity|right].
      apply fermat_little_Z; [exact Hprime|lia]. }
    specialize (S A1 A2 A3). cbv zeta in S. destruct S as [S1 S2].
    set (r := pow_mod ((y * y) mod p) ((p + 1) / 4) p).
    assert (Rz : (Z.of_N r = ((Z.of_N y * Z.of_N y) mod Z.of_N p) ^ ((Z.of_N p + 1) / 4) mod Z.of_N p)%Z).
    { unfold r. rewrite pow_mod_spec by auto.
      rewrite N2Z.inj_mod, N2Z.inj_pow, N2Z.inj_mod, N2Z.inj_mul, N2Z.inj_div, N2Z.inj_add. reflexivity. }
    rewrite <- Rz in S1, S2.
    exists r. split.
    - unfold mod_sqrt. fold r.
      assert (E : (r * r) mod p = ((y * y) mod p) mod p).
      { rewrite N.mod_mod by auto. apply N2Z.inj. rewrite !N2Z.inj_mod, !N2Z.inj_mul. exact S1. }
      rewrite E, N.eqb_refl. reflexivity.
    - assert (Hrlt : r < p) by (unfold r; rewrite pow_mod_spec by auto; apply N.mod_lt; auto).
      destruct S2 as [S2|S2]; [left; lia|].
      destruct (N.eq_dec y 0) as [->|Hn]; [left; lia|right; lia].
  Qed.

  Lemma compress_decompress_curve : forall x y, on_curve p a b x y = true ->
    Decompress p a b (Compress x y) = Some (x, y).
  Proof.
    intros x y H. unfold on_curve in H. apply andb_true_iff in H. destruct H as [H H3].
    apply andb_true_iff in H. destruct H as [H1 H2].
    apply N.ltb_lt in H1. apply N.ltb_lt in H2. apply N.eqb_eq in H3.
    assert (Hx : x < 2 ^ 256) by lia.
    destruct (fix32_Bytes x Hx) as (Lx & Vx & Kx). unfold fix32 in *.
    unfold Decompress, Compress.
    set (xb := if (length (Bytes x) <? 32)%nat then pad32 (Bytes x) else Bytes x) in *.
    cbn [length hd tl]. rewrite Lx. cbn [Nat.eqb negb].
    assert ((1 <? y mod 2) = false) as -> by (apply N.ltb_ge; lia).
    rewrite Vx. assert ((p <=? x) = false) as -> by (apply N.leb_gt; auto).
    rewrite <- H3.
    destruct (mod_sqrt_of_square y H2) as (r & -> & Hr).
    f_equal. f_equal.
    destruct Hr as [->|[-> Hn]].
    - rewrite N.eqb_refl. reflexivity.
    - assert (((p - y) mod 2 =? y mod 2) = false) as -> by (apply N.eqb_neq; lia). lia.
  Qed.

End CompressProofs.

(* rejection: wrong length, wrong tag, x out of range, x^3+ax+b not a square (any p, a, b) *)
Lemma decompress_rejects : forall p a b c,
  (length c <> 33%nat \/ 1 < hd 0 c \/ p <= of_be (tl c) \/ (forall y, y < p -> (y * y) mod p <> rhs p a b (of_be (tl c)))) ->
  Decompress p a b c = None.
Proof.
  intros p a b c H. unfold Decompress.
  destruct (length c =? 33)%nat eqn:E1; cbn [negb]; auto.
  apply Nat.eqb_eq in E1.
  destruct (1 <? hd 0 c) eqn:E2; auto. apply N.ltb_ge in E2.
  destruct (p <=? of_be (tl c)) eqn:E3; auto. apply N.leb_gt in E3.
  assert (Hp0 : p <> 0) by (clear - E3; lia).
  destruct H as [H|[H|[H|H]]]; try (clear - H E1 E2 E3; lia).
  unfold mod_sqrt. set (r := pow_mod _ _ p).
  destruct ((r * r) mod p =? rhs p a b (of_be (tl c)) mod p) eqn:E4; auto.
  apply N.eqb_eq in E4. exfalso.
  apply (H (r mod p)); [apply N.mod_lt; auto|].
  rewrite <- N.mul_mod by auto. rewrite E4. unfold rhs. apply N.mod_mod. auto.
Qed.

(* ---------- ASN.1 signature --------------------------------------------------------------------------------- *)
(* all bounds below are in bytes of contents: the DER reader of SM2/DER.v (as Go's) handles lengths below 2^23 *)
Lemma sig_roundtrip : forall r s,
  (Z.of_nat (length (Bytes r)) < 2 ^ 21)%Z -> (Z.of_nat (length (Bytes s)) < 2 ^ 21)%Z ->
  SignDataToSignDigit (SignDigitToSignData r s) = Ok (r, s).
Proof.
  intros r s Hr Hs. unfold SignDataToSignDigit, SignDigitToSignData.
  pose proof (der_int_len_le r ltac:(lia)). pose proof (der_int_len_le s ltac:(lia)).
  rewrite read_tlv_tlv0 by (try reflexivity; rewrite app_length; lia).
  rewrite read_int_der_int by lia. rewrite read_int_der_int0 by lia. reflexivity.
Qed.

(* ---------- ASN.1 ciphertext -------------------------------------------------------------------------------- *)
Lemma bytes_ok_firstn : forall n l, bytes_ok l -> bytes_ok (firstn n l).
Proof.
  unfold bytes_ok. intros. apply Forall_forall. intros x Hx. rewrite Forall_forall in H. apply H.
  rewrite <- (firstn_skipn n l). apply in_or_app. auto.
Qed.
Lemma bytes_ok_skipn : forall n l, bytes_ok l -> bytes_ok (skipn n l).
Proof.
  unfold bytes_ok. intros. apply Forall_forall. intros x Hx. rewrite Forall_forall in H. apply H.
  rewrite <- (firstn_skipn n l). apply in_or_app. auto.
Qed.

Lemma skipn_add : forall A b a (l : list A), skipn a (skipn b l) = skipn (b + a) l.
Proof. induction b; intros a l; simpl; auto. destruct l; simpl; auto. destruct a; reflexivity. Qed.

Lemma split4 : forall A (d : list A),
  firstn 32 d ++ firstn 32 (skipn 32 d) ++ firstn 32 (skipn 64 d) ++ skipn 96 d = d.
Proof.
  intros A d.
  transitivity (firstn 32 d ++ skipn 32 d); [f_equal|apply firstn_skipn].
  transitivity (firstn 32 (skipn 32 d) ++ skipn 32 (skipn 32 d)); [f_equal|apply firstn_skipn].
  rewrite skipn_add. change (32 + 32)%nat with 64%nat.
  transitivity (firstn 32 (skipn 64 d) ++ skipn 32 (skipn 64 d)); [f_equal|apply firstn_skipn].
  rewrite skipn_add. reflexivity.
Qed.

Lemma field32 : forall l, bytes_ok l -> length l = 32%nat ->
  (32 <? length (Bytes (of_be l)))%nat = false /\ pad32 (Bytes (of_be l)) = l.
Proof.
  intros l K L. split; [|apply pad32_Bytes_of_be; auto].
  apply Nat.ltb_ge. apply Bytes_length. rewrite <- L. apply of_be_bound. auto.
Qed.

Lemma Bytes_len32 : forall l, bytes_ok l -> length l = 32%nat -> (length (Bytes (of_be l)) <= 32)%nat.
Proof. intros l K L. apply Bytes_length. rewrite <- L. apply of_be_bound. auto. Qed.

Lemma cipher_roundtrip : forall data, bytes_ok data -> (97 <= length data)%nat -> (Z.of_nat (length data) < 2 ^ 22)%Z ->
  hd 0 data = 4 ->
  exists der, CipherMarshal data = Ok der /\ CipherUnmarshal der = Ok data.
Proof.
  intros data K L Lmax H4. unfold CipherMarshal.
  assert ((length data <? 97)%nat = false) as -> by (apply Nat.ltb_ge; auto).
  eexists. split; [reflexivity|].
  destruct data as [|t d]; [simpl in L; lia|]. simpl in H4. subst t. cbn [tl].
  inversion K; subst. rename H2 into Kd. simpl in L. cbn [length] in Lmax.
  assert (L1 : length (firstn 32 d) = 32%nat) by (rewrite firstn_length; lia).
  assert (L2 : length (firstn 32 (skipn 32 d)) = 32%nat) by (rewrite firstn_length, skipn_length; lia).
  assert (L3 : length (firstn 32 (skipn 64 d)) = 32%nat) by (rewrite firstn_length, skipn_length; lia).
  assert (L4 : (length (skipn 96 d) <= length d)%nat) by (rewrite skipn_length; lia).
  pose proof (Bytes_len32 _ (bytes_ok_firstn 32 d Kd) L1) as Bx.
  pose proof (Bytes_len32 _ (bytes_ok_firstn 32 _ (bytes_ok_skipn 32 d Kd)) L2) as By.
  pose proof (der_int_len_le (of_be (firstn 32 d)) ltac:(lia)) as Dx.
  pose proof (der_int_len_le (of_be (firstn 32 (skipn 32 d))) ltac:(lia)) as Dy.
  pose proof (tlv_len_le TAG_OCTETS (firstn 32 (skipn 64 d)) ltac:(lia)) as Th.
  pose proof (tlv_len_le TAG_OCTETS (skipn 96 d) ltac:(lia)) as Tc.
  unfold CipherUnmarshal.
  rewrite read_tlv_tlv0 by (try reflexivity; rewrite !app_length; lia).
  rewrite read_int_der_int by lia. rewrite read_int_der_int by lia.
  rewrite read_tlv_tlv by (try reflexivity; lia). rewrite read_tlv_tlv0 by (try reflexivity; lia).
  destruct (field32 (firstn 32 d)) as [A1 B1]; [apply bytes_ok_firstn; auto|auto|].
  destruct (field32 (firstn 32 (skipn 32 d))) as [A2 B2]; [apply bytes_ok_firstn, bytes_ok_skipn; auto|auto|].
  rewrite A1, A2, B1, B2, L3. cbn [orb Nat.eqb negb].
  f_equal. f_equal. apply split4.
Qed.

(* ---------- PKCS#8, plain ------------------------------------------------------------------------------------- *)
Lemma sm2N_bound : sm2N < 256 ^ N.of_nat 32.
Proof. vm_compute. reflexivity. Qed.

Lemma drop_short : forall f oct, (length oct <= 32)%nat -> drop_to_32 f oct = Ok oct.
Proof.
  intros f oct H. assert ((32 <? length oct)%nat = false) as E by (apply Nat.ltb_ge; auto).
  destruct f; cbn [drop_to_32]; rewrite E; reflexivity.
Qed.

Section Pkcs8Proofs.
  Variable base_mult : N -> N * N.

  Lemma parse_sm2_private_key : forall d, d < sm2N ->
    ParseSm2PrivateKey base_mult (Bytes d) = let '(X, Y) := base_mult d in Ok (d, X, Y).
  Proof.
    intros d H. unfold ParseSm2PrivateKey. rewrite of_be_Bytes.
    assert ((sm2N <=? d) = false) as -> by (apply N.leb_gt; auto).
    rewrite drop_short by (apply Bytes_length; pose proof sm2N_bound; lia).
    cbn [obind]. unfold pad32. rewrite of_be_zeros, of_be_Bytes. reflexivity.
  Qed.

  Lemma pkcs8_plain : forall d x y tail, d < sm2N ->
    ParsePKCS8UnecryptedPrivateKey base_mult (MarshalSm2UnecryptedPrivateKey d x y ++ tail)
    = let '(X, Y) := base_mult d in Ok (d, X, Y).
  Proof.
    intros d x y tail H. unfold ParsePKCS8UnecryptedPrivateKey, MarshalSm2UnecryptedPrivateKey.
    assert (Bd : (length (Bytes d) <= 32)%nat) by (apply Bytes_length; pose proof sm2N_bound; lia).
    assert (B0 : length (Bytes 0) = 0%nat) by reflexivity.
    assert (B1 : length (Bytes 1) = 1%nat) by reflexivity.
    pose proof (der_int_len_le 0 ltac:(rewrite B0; lia)) as D0. rewrite B0 in D0.
    pose proof (der_int_len_le 1 ltac:(rewrite B1; lia)) as D1. rewrite B1 in D1.
    assert (Lp : length (point_bytes x y) = 65%nat) by (unfold point_bytes; cbn [length]; rewrite app_length, !length_to_be; reflexivity).
    assert (Lo1 : length OID_EC_PUBKEY = 9%nat) by reflexivity.
    assert (Lo2 : length OID_SM2_CURVE = 10%nat) by reflexivity.
    pose proof (tlv_len_le TAG_OCTETS (Bytes d) ltac:(lia)) as T1.
    pose proof (tlv_len_le 160 OID_SM2_CURVE ltac:(rewrite Lo2; lia)) as T2.
    pose proof (tlv_len_le 3 (0 :: point_bytes x y) ltac:(cbn [length]; rewrite Lp; lia)) as T3. cbn [length] in T3. rewrite Lp in T3.
    pose proof (tlv_len_le 161 (tlv 3 (0 :: point_bytes x y)) ltac:(lia)) as T4.
    set (inner := der_int 1 ++ tlv TAG_OCTETS (Bytes d) ++ tlv 160 OID_SM2_CURVE ++ tlv 161 (tlv 3 (0 :: point_bytes x y))).
    assert (Li : (length inner <= 200)%nat) by (unfold inner; rewrite !app_length; lia).
    pose proof (tlv_len_le TAG_SEQ inner ltac:(lia)) as T5.
    pose proof (tlv_len_le TAG_OCTETS (tlv TAG_SEQ inner) ltac:(lia)) as T6.
    pose proof (tlv_len_le TAG_SEQ (OID_EC_PUBKEY ++ OID_SM2_CURVE) ltac:(rewrite app_length; lia)) as T7.
    rewrite app_length in T7.
    rewrite read_tlv_tlv by (try reflexivity; unfold sm2PrivateKey_der; fold inner; rewrite !app_length; lia).
    rewrite read_int_der_int by (rewrite B0; lia).
    rewrite read_tlv_tlv by (try reflexivity; rewrite app_length; lia).
    change (starts_with OID_EC_PUBKEY (OID_EC_PUBKEY ++ OID_SM2_CURVE)) with true. cbn [negb].
    unfold sm2PrivateKey_der. fold inner.
    rewrite read_tlv_tlv0 by (try reflexivity; lia).
    rewrite read_tlv_tlv0 by (try reflexivity; lia). unfold inner.
    rewrite read_int_der_int by (rewrite B1; lia). rewrite read_tlv_tlv by (try reflexivity; lia).
    apply parse_sm2_private_key. auto.
  Qed.

  (* scalars at or above the group order are refused when read back *)
  Lemma parse_sm2_private_key_range : forall oct, sm2N <= of_be oct -> ParseSm2PrivateKey base_mult oct = Err 2.
  Proof. intros oct H. unfold ParseSm2PrivateKey. assert ((sm2N <=? of_be oct) = true) as -> by (apply N.leb_le; auto). reflexivity. Qed.

  (* ---------- PKCS#8, password protected ------------------------------------------------------------- *)
  Variable kdf : list byte -> list byte -> list byte.
  Variable cbc_enc cbc_dec : list byte -> list byte -> list byte -> list byte.
  Hypothesis cbc_inverse : forall key iv m, (length m mod 16 = 0)%nat -> cbc_dec key iv (cbc_enc key iv m) = m.
  Hypothesis cbc_length : forall key iv m, length (cbc_enc key iv m) = length m.

  Lemma pad16_length : forall der, (length (pkcs7_pad16 der) mod 16 = 0 /\ length (pkcs7_pad16 der) <> 0)%nat.
  Proof. intros. unfold pkcs7_pad16. rewrite app_length, repeat_length. lia. Qed.

  Lemma pkcs8_encrypted : forall d x y pwd salt iv, d < sm2N -> length iv = 16%nat ->
    ParsePKCS8EcryptedPrivateKey base_mult kdf cbc_dec (MarshalSm2EcryptedPrivateKey kdf cbc_enc d x y pwd salt iv) pwd
    = let '(X, Y) := base_mult d in Ok (d, X, Y).
  Proof.
    intros d x y pwd salt iv H Liv.
    unfold ParsePKCS8EcryptedPrivateKey, MarshalSm2EcryptedPrivateKey. cbn [eb_iv eb_ct eb_salt].
    destruct (pad16_length (MarshalSm2UnecryptedPrivateKey d x y)) as [P1 P2].
    rewrite Liv, cbc_length. cbn [Nat.eqb negb].
    assert ((length (pkcs7_pad16 (MarshalSm2UnecryptedPrivateKey d x y)) =? 0)%nat = false) as -> by (apply Nat.eqb_neq; auto).
    rewrite P1. cbn [Nat.eqb negb orb].
    rewrite cbc_inverse by auto. unfold pkcs7_pad16. rewrite pkcs8_plain by auto.
    destruct (base_mult d). reflexivity.
  Qed.

  Lemma wrong_password : forall e pwd',
    (exists n, ParsePKCS8EcryptedPrivateKey base_mult kdf cbc_dec e pwd' = Err n)
    \/ (exists k, ParsePKCS8UnecryptedPrivateKey base_mult (cbc_dec (kdf pwd' (eb_salt e)) (eb_iv e) (eb_ct e)) = Ok k
                  /\ ParsePKCS8EcryptedPrivateKey base_mult kdf cbc_dec e pwd' = Ok k).
  Proof.
    intros e pwd'. unfold ParsePKCS8EcryptedPrivateKey.
    destruct (negb (length (eb_iv e) =? 16)%nat); [left; eauto|].
    destruct ((length (eb_ct e) =? 0)%nat || negb (length (eb_ct e) mod 16 =? 0)%nat); [left; eauto|].
    destruct (ParsePKCS8UnecryptedPrivateKey base_mult _) eqn:E; [right; eauto|left; eauto..].
  Qed.

  (* plain <-> protected mix-ups never parse *)
  Lemma pkcs8_form_mismatch : forall d x y w salt iv,
    ParsePKCS8PrivateKey base_mult kdf cbc_dec (MarshalSm2PrivateKey kdf cbc_enc d x y None salt iv) (Some w) = Err 1
    /\ ParsePKCS8PrivateKey base_mult kdf cbc_dec (MarshalSm2PrivateKey kdf cbc_enc d x y (Some w) salt iv) None = Err 1.
  Proof. intros. split; reflexivity. Qed.
End Pkcs8Proofs.

(* ---------- PKIX public key ------------------------------------------------------------------------------------ *)
Lemma pkix_pub_roundtrip : forall x y, on_curve sm2P sm2A sm2B x y = true ->
  ParseSm2PublicKey (MarshalSm2PublicKey x y) = Some (x, y).
Proof.
  intros x y H. pose proof H as H'. unfold on_curve in H'. apply andb_true_iff in H'. destruct H' as [H' _].
  apply andb_true_iff in H'. destruct H' as [H1 H2]. apply N.ltb_lt in H1. apply N.ltb_lt in H2.
  assert (P : sm2P < 256 ^ N.of_nat 32) by (vm_compute; reflexivity).
  unfold ParseSm2PublicKey, MarshalSm2PublicKey, point_bytes.
  cbn [length hd tl]. rewrite app_length, !length_to_be. cbn [Nat.eqb N.eqb Pos.eqb andb negb Nat.add].
  assert (F : firstn 32 (to_be 32 x ++ to_be 32 y) = to_be 32 x).
  { rewrite <- (length_to_be 32 x) at 1. apply firstn_app_exact. }
  assert (S : skipn 32 (to_be 32 x ++ to_be 32 y) = to_be 32 y).
  { rewrite <- (length_to_be 32 x) at 1. apply skipn_app_exact. }
  rewrite F, S. rewrite !of_be_to_be_small by lia. rewrite H. reflexivity.
Qed.

(* ---------- loaders ----------------------------------------------------------------------------------------------- *)
Lemma matchKeyCert_iff : forall c k, matchKeyCert c k = true <-> sm2_pair c k.
Proof.
  intros c k. unfold sm2_pair. split.
  - destruct c as [n|cu x y| |], k as [n'|cu' x' y'|x' y'|]; simpl; try discriminate.
    intros H. apply andb_true_iff in H. destruct H as [H H3]. apply andb_true_iff in H. destruct H as [H1 H2].
    apply Nat.eqb_eq in H1. apply N.eqb_eq in H2. apply N.eqb_eq in H3. subst. eauto.
  - intros (x & y & -> & ->). simpl. rewrite !N.eqb_refl. reflexivity.
Qed.

Lemma X509KeyPair_iff : forall c k,
  (forall cu x y cu' x' y', c = CEc cu x y -> k = KEcdsa cu' x' y' -> cu = cu') ->
  (X509KeyPair c k = true <-> key_matches c k).
Proof.
  intros c k Hcurve.
  destruct c as [n|[|cu] x y| |], k as [n'|cu' x' y'|x' y'|]; simpl;
    try (split; [discriminate|tauto]);
    try (split; [discriminate|intros (A & _); congruence]).
  - rewrite N.eqb_eq. tauto.
  - rewrite andb_true_iff, !N.eqb_eq. tauto.
  - specialize (Hcurve _ _ _ _ _ _ eq_refl eq_refl). subst cu'.
    rewrite andb_true_iff, !N.eqb_eq. split; [intros [-> ->]; repeat split; auto|tauto].
Qed.

Lemma GMX509KeyPairsSingle_iff : forall c k,
  (forall cu x y cu' x' y', c = CEc cu x y -> k = KEcdsa cu' x' y' -> cu = cu') ->
  (GMX509KeyPairsSingle c k = true <-> key_matches c k).
Proof.
  intros c k Hcurve. pose proof (X509KeyPair_iff c k Hcurve) as HX.
  destruct c as [n|[|cu] x y| |]; unfold GMX509KeyPairsSingle; cbn [is_sm2_cert]; try exact HX.
  all: destruct k; simpl; split; try discriminate; tauto.
Qed.

(* for SM2 certificates no side condition is needed *)
Lemma X509KeyPair_sm2_iff : forall x y k, X509KeyPair (CEc O x y) k = true <-> key_matches (CEc O x y) k.
Proof.
  intros x y k. destruct k as [n'|cu' x' y'|x' y'|]; simpl; try (split; [discriminate|tauto]).
  rewrite andb_true_iff, !N.eqb_eq. tauto.
Qed.

Lemma GMX509KeyPairsSingle_sm2_iff : forall x y k, GMX509KeyPairsSingle (CEc O x y) k = true <-> key_matches (CEc O x y) k.
Proof.
  intros x y k. unfold GMX509KeyPairsSingle. cbn [is_sm2_cert].
  destruct k as [n'|cu' x' y'|x' y'|]; simpl; try (split; [discriminate|tauto]).
  rewrite andb_true_iff, !N.eqb_eq. tauto.
Qed.

Lemma GMX509KeyPairs_iff : forall sc sk ec ek,
  GMX509KeyPairs sc sk ec ek = true <-> sm2_pair sc sk /\ sm2_pair ec ek.
Proof. intros. unfold GMX509KeyPairs. rewrite andb_true_iff, !matchKeyCert_iff. tauto. Qed.

(* ---------- PEM block selection -------------------------------------------------------------------------------- *)
Lemma getCert_first : forall f, match getCert f with
                               | Some (c :: _) => first_cert f = Some (certOf c)
                               | Some [] => False
                               | None => first_cert f = None end.
Proof.
  intros f. unfold getCert, first_cert.
  destruct (filter (fun b => match fst b with LCert => true | _ => false end) f) as [|[l c] r]; simpl; auto.
Qed.

Lemma parse_readable : forall kc, match readable_key kc with Some k => parsePrivateKey kc = k | None => parsePrivateKey kc = KBad end.
Proof. destruct kc; reflexivity. Qed.

Lemma key_matches_not_bad : forall c, ~ key_matches c KBad.
Proof. destruct c; simpl; tauto. Qed.

Lemma pem_iff_generic : forall (L : certk -> keyk -> bool) (M : certk -> keyk -> Prop) cf kf,
  (forall c k, L c k = true <-> M c k) -> (forall c, ~ M c KBad) ->
  (match getCert cf, getKey kf with Some (c :: _), Some k => L (certOf c) (parsePrivateKey k) | _, _ => false end = true
   <-> exists c kc k, first_cert cf = Some c /\ first_key kf = Some kc /\ readable_key kc = Some k /\ M c k).
Proof.
  intros L M cf kf HL HB. pose proof (getCert_first cf) as Hc. unfold first_key.
  destruct (getCert cf) as [[|c0 r]|]; [contradiction| |].
  - destruct (getKey kf) as [kc|].
    + pose proof (parse_readable kc) as Hp. rewrite HL. split.
      * intros Hm. destruct (readable_key kc) as [k|] eqn:Er.
        -- exists (certOf c0), kc, k. rewrite Hp in Hm. auto.
        -- rewrite Hp in Hm. exfalso. exact (HB _ Hm).
      * intros (c & kc' & k & E1 & E2 & E3 & Hm). inversion E2; subst kc'. rewrite E3 in Hp. rewrite Hp.
        rewrite Hc in E1. inversion E1; subst. exact Hm.
    + split; [discriminate|]. intros (c & kc & k & _ & E & _). discriminate.
  - split; [discriminate|]. intros (c & kc & k & E & _). congruence.
Qed.

Lemma sm2_pair_not_bad : forall c, ~ sm2_pair c KBad.
Proof. intros c (x & y & _ & E). discriminate. Qed.

Lemma GMX509KeyPairs_pem_iff : forall cf kf ecf ekf,
  GMX509KeyPairs_pem cf kf ecf ekf = true <-> pem_sm2_pair cf kf /\ pem_sm2_pair ecf ekf.
Proof.
  intros cf kf ecf ekf.
  pose proof (pem_iff_generic matchKeyCert sm2_pair cf kf matchKeyCert_iff sm2_pair_not_bad) as H1.
  pose proof (pem_iff_generic matchKeyCert sm2_pair ecf ekf matchKeyCert_iff sm2_pair_not_bad) as H2.
  unfold pem_sm2_pair. rewrite <- H1, <- H2. unfold GMX509KeyPairs_pem, GMX509KeyPairs.
  destruct (getCert cf) as [[|c r]|]; destruct (getCert ecf) as [[|ec er]|]; destruct (getKey kf); destruct (getKey ekf);
    try (split; [discriminate|intros [A B]; discriminate]).
  apply andb_true_iff.
Qed.

Lemma pem_iff_at : forall (L : certk -> keyk -> bool) cf kf c (Q : keyk -> Prop),
  first_cert cf = Some c -> (forall k, L c k = true <-> Q k) -> ~ Q KBad ->
  (match getCert cf, getKey kf with Some (c0 :: _), Some k => L (certOf c0) (parsePrivateKey k) | _, _ => false end = true
   <-> exists kc k, first_key kf = Some kc /\ readable_key kc = Some k /\ Q k).
Proof.
  intros L cf kf c Q Hf HL HB. pose proof (getCert_first cf) as Hc. unfold first_key.
  destruct (getCert cf) as [[|c0 r]|]; [contradiction| |congruence].
  rewrite Hc in Hf. inversion Hf; subst c.
  destruct (getKey kf) as [kc|].
  - pose proof (parse_readable kc) as Hp. rewrite HL. split.
    + intros Hm. destruct (readable_key kc) as [k|] eqn:Er; rewrite Hp in Hm; [eauto|contradiction].
    + intros (kc' & k & E2 & E3 & Hm). inversion E2; subst kc'. rewrite E3 in Hp. rewrite Hp. exact Hm.
  - split; [discriminate|]. intros (kc & k & E & _). discriminate.
Qed.

Lemma sm2_leaf_pem : forall cf kf x y, first_cert cf = Some (CEc O x y) ->
  (X509KeyPair_pem cf kf = true <-> exists kc, first_key kf = Some kc /\ readable_key kc = Some (KSm2 x y))
  /\ (GMX509KeyPairsSingle_pem cf kf = true <-> exists kc, first_key kf = Some kc /\ readable_key kc = Some (KSm2 x y)).
Proof.
  intros cf kf x y Hf.
  assert (HQ : forall k, key_matches (CEc O x y) k <-> k = KSm2 x y).
  { intros k. destruct k as [n|cu x' y'|x' y'|]; simpl; split; intros H; try discriminate; try tauto.
    - destruct H as (_ & -> & ->). reflexivity.
    - inversion H. auto. }
  split.
  - unfold X509KeyPair_pem.
    rewrite (pem_iff_at X509KeyPair cf kf (CEc O x y) (fun k => k = KSm2 x y) Hf).
    + split; [intros (kc & k & A & B & ->); eauto|intros (kc & A & B); eauto].
    + intros k. rewrite X509KeyPair_sm2_iff. apply HQ.
    + discriminate.
  - unfold GMX509KeyPairsSingle_pem.
    rewrite (pem_iff_at GMX509KeyPairsSingle cf kf (CEc O x y) (fun k => k = KSm2 x y) Hf).
    + split; [intros (kc & k & A & B & ->); eauto|intros (kc & A & B); eauto].
    + intros k. rewrite GMX509KeyPairsSingle_sm2_iff. apply HQ.
    + discriminate.
Qed.

(* ---------- Round 6: the loaders decide on the SCALAR of the key file ------------------------------------------------ *)
(* parsePrivateKey on a PKCS#8 SM2 block: the key kind the loaders compare is what ParsePKCS8UnecryptedPrivateKey returns *)
Definition sm2_key_of (r : outcome (N * N * N)) : keyk :=
  match r with Ok (_, x, y) => KSm2 x y | _ => KBad end.

(* A PKCS#8 file with scalar d whose optional publicKey field holds ANY pair (x, y) - its own point, somebody else's, the
   certificate's - is accepted with an SM2 certificate of the point (cx, cy) exactly when [d]G = (cx, cy): the embedded
   copy has no say, in either slot of the dual loader. *)
Lemma loaders_decide_on_scalar : forall (base_mult : N -> N * N) d x y tail cx cy, d < sm2N ->
  let k := sm2_key_of (ParsePKCS8UnecryptedPrivateKey base_mult (MarshalSm2UnecryptedPrivateKey d x y ++ tail)) in
  (X509KeyPair (CEc O cx cy) k = true <-> base_mult d = (cx, cy))
  /\ (GMX509KeyPairsSingle (CEc O cx cy) k = true <-> base_mult d = (cx, cy))
  /\ (forall ec ek, GMX509KeyPairs (CEc O cx cy) k ec ek = true <-> base_mult d = (cx, cy) /\ sm2_pair ec ek)
  /\ (forall sc sk, GMX509KeyPairs sc sk (CEc O cx cy) k = true <-> sm2_pair sc sk /\ base_mult d = (cx, cy)).
Proof.
  intros bm d x y tail cx cy Hd. rewrite (pkcs8_plain bm d x y tail Hd).
  destruct (bm d) as [X Y]. cbn [sm2_key_of].
  assert (HK : key_matches (CEc O cx cy) (KSm2 X Y) <-> (X, Y) = (cx, cy)).
  { simpl. split; [intros (_ & -> & ->); reflexivity|intros H; inversion H; auto]. }
  assert (HP : sm2_pair (CEc O cx cy) (KSm2 X Y) <-> (X, Y) = (cx, cy)).
  { unfold sm2_pair. split.
    - intros (a & b & H1 & H2). inversion H1. inversion H2. subst. reflexivity.
    - intros H. inversion H. eauto. }
  split; [rewrite X509KeyPair_sm2_iff; exact HK|].
  split; [rewrite GMX509KeyPairsSingle_sm2_iff; exact HK|].
  split; intros; rewrite GMX509KeyPairs_iff; tauto.
Qed.
