(* C14 - what "the key matches the certificate" means (property text; uses only the abstract key and
   certificate kinds of Ser/SerModel.v, never the loaders).  No proofs. *)
From Coq Require Import List NArith Arith.
From GmsmVerif Require Import Ser.SerModel.

(* the key is the private half of the certificate's public key *)
Definition key_matches (c : certk) (k : keyk) : Prop :=
  match c, k with
  | CRsa n, KRsa n' => n = n'
  | CEc cu x y, KSm2 x' y' => cu = O /\ x = x' /\ y = y'
  | CEc cu x y, KEcdsa cu' x' y' => cu <> O /\ cu = cu' /\ x = x' /\ y = y'
  | _, _ => False
  end.

Definition sm2_pair (c : certk) (k : keyk) : Prop := exists x y, c = CEc O x y /\ k = KSm2 x y.

