(* C14 - what "the key matches the certificate" means (property text; uses only the abstract key and
   certificate kinds of Ser/SerModel.v, never the loaders).  No proofs. *)
From Coq Require Import List NArith Arith.
From GmsmVerif Require Import Ser.SerModel.
Import ListNotations.

(* the key is the private half of the certificate's public key *)
Definition key_matches (c : certk) (k : keyk) : Prop :=
  match c, k with
  | CRsa n, KRsa n' => n = n'
  | CEc cu x y, KSm2 x' y' => cu = O /\ x = x' /\ y = y'
  | CEc cu x y, KEcdsa cu' x' y' => cu <> O /\ cu = cu' /\ x = x' /\ y = y'
  | _, _ => False
  end.

Definition sm2_pair (c : certk) (k : keyk) : Prop := exists x y, c = CEc O x y /\ k = KSm2 x y.


(* PEM level: the certificate offered is the first CERTIFICATE block, the key offered is the first block labelled as a
   private key; the key is usable when its bytes are in one of the formats the loaders read (PKCS#1 RSA, PKCS#8 RSA /
   ECDSA / SM2) - the label itself does not matter *)
Definition first_cert (f : pemfile) : option certk :=
  match filter (fun b => match fst b with LCert => true | _ => false end) f with
  | [] => None
  | b :: _ => Some (match snd b with PCert c => c | _ => CBad end)
  end.
Definition first_key (f : pemfile) : option pcontent := getKey f.
Definition readable_key (c : pcontent) : option keyk :=
  match c with
  | PPkcs1Rsa n | PPkcs8Rsa n => Some (KRsa n)
  | PPkcs8Ecdsa cu x y => Some (KEcdsa cu x y)
  | PPkcs8Sm2 x y => Some (KSm2 x y)
  | _ => None
  end.
Definition pem_pair_matches (cf kf : pemfile) : Prop :=
  exists c kc k, first_cert cf = Some c /\ first_key kf = Some kc /\ readable_key kc = Some k /\ key_matches c k.
Definition pem_sm2_pair (cf kf : pemfile) : Prop :=
  exists c kc k, first_cert cf = Some c /\ first_key kf = Some kc /\ readable_key kc = Some k /\ sm2_pair c k.
