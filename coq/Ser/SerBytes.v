(* C14 - byte-level helpers shared by the serialisation models.  Definitions only.
   Contracts modelled here (Go standard library, modelled not verified):
     big.Int.Bytes / SetBytes        -> [Bytes], [of_be]      (minimal big-endian magnitude; empty for 0)
     encoding/hex EncodeToString     -> [hex_encode]           (lower case)
     encoding/hex DecodeString       -> [hex_decode]           (accepts both cases, rejects odd length / other chars)
     encoding/asn1 INTEGER (>= 0), definite lengths, TLV -> [int_content], [der_len], [tlv], [read_tlv], [read_int] *)
From Coq Require Import List NArith Arith Bool.
Import ListNotations.
Open Scope N_scope.

Notation byte := N (only parsing).

Definition bytes_ok (l : list byte) : Prop := Forall (fun b => b < 256) l.
Definition bytes_okb (l : list byte) : bool := forallb (fun b => b <? 256) l.

(* k bytes, big endian, of n mod 256^k *)
Fixpoint to_be (k : nat) (n : N) : list byte :=
  match k with
  | O => []
  | S k' => to_be k' (n / 256) ++ [n mod 256]
  end.

Definition of_be (l : list byte) : N := fold_left (fun acc b => acc * 256 + b) l 0.

Fixpoint strip_zeros (l : list byte) : list byte :=
  match l with
  | 0 :: t => strip_zeros t
  | _ => l
  end.

(* big.Int.Bytes() *)
Definition Bytes (n : N) : list byte := strip_zeros (to_be (N.to_nat (N.size n)) n).

(* "if n := len(b); n < 32 { b = append(zeroByteSlice()[:32-n], b...) }" *)
Definition pad32 (b : list byte) : list byte := repeat 0 (32 - length b) ++ b.

(* ---------- encoding/hex ----------------------------------------------------------------------------- *)
Definition hex_digit (v : N) : N := if v <? 10 then 48 + v else 87 + v.       (* '0'.. / 'a'.. *)

Definition hex_encode (l : list byte) : list N :=
  flat_map (fun b => [hex_digit (b / 16); hex_digit (b mod 16)]) l.

Definition from_hex_char (c : N) : option N :=
  if (48 <=? c) && (c <=? 57) then Some (c - 48)
  else if (97 <=? c) && (c <=? 102) then Some (c - 87)
  else if (65 <=? c) && (c <=? 70) then Some (c - 55)
  else None.

Fixpoint hex_decode (s : list N) : option (list byte) :=
  match s with
  | [] => Some []
  | [_] => None
  | c1 :: c2 :: t =>
    match from_hex_char c1, from_hex_char c2, hex_decode t with
    | Some h, Some l, Some r => Some (h * 16 + l :: r)
    | _, _, _ => None
    end
  end.

(* ---------- DER pieces (encoding/asn1 Marshal / Unmarshal for the shapes gmsm uses) --------------- *)
(* marshalBigInt for n >= 0: 0 -> 00; otherwise Bytes with a 00 in front when the top bit is set *)
Definition int_content (n : N) : list byte :=
  match Bytes n with
  | [] => [0]
  | b0 :: t => if 128 <=? b0 then 0 :: b0 :: t else b0 :: t
  end.

(* checkInteger + parseBigInt restricted to what gmsm then accepts: returns None for empty or
   non-minimal contents; Some (negative?, magnitude of a non-negative value) *)
Definition int_minimal (c : list byte) : bool :=
  match c with
  | [] => false
  | [_] => true
  | b0 :: b1 :: _ => negb (((b0 =? 0) && (b1 <? 128)) || ((b0 =? 255) && (128 <=? b1)))
  end.

Definition int_negative (c : list byte) : bool := 128 <=? hd 0 c.

Definition der_len (L : nat) : list byte :=
  if (L <? 128)%nat then [N.of_nat L]
  else let lb := Bytes (N.of_nat L) in N.of_nat (128 + length lb) :: lb.

Definition tlv (tag : N) (content : list byte) : list byte := tag :: der_len (length content) ++ content.

(* read one TLV with the expected single-byte tag: (contents, rest).  Long-form lengths must be minimal
   (>= 128, no leading zero), as parseTagAndLength demands. *)
Definition read_tlv (tag : N) (b : list byte) : option (list byte * list byte) :=
  match b with
  | t :: l0 :: rest =>
    if negb (t =? tag) then None
    else if l0 <? 128 then
      if (length rest <? N.to_nat l0)%nat then None
      else Some (firstn (N.to_nat l0) rest, skipn (N.to_nat l0) rest)
    else
      let k := N.to_nat (l0 - 128) in
      if ((k =? 0) || (length rest <? k))%nat then None
      else
        let lb := firstn k rest in
        let L := of_be lb in
        if (hd 0 lb =? 0) || (L <? 128) then None
        else
          let rest' := skipn k rest in
          if (length rest' <? N.to_nat L)%nat then None
          else Some (firstn (N.to_nat L) rest', skipn (N.to_nat L) rest')
  | _ => None
  end.

Definition TAG_INT : N := 2.
Definition TAG_OCTETS : N := 4.
Definition TAG_SEQ : N := 48.

Definition der_int (n : N) : list byte := tlv TAG_INT (int_content n).

(* a non-negative INTEGER: None on malformed, Some (inl tt) on a negative value *)
Definition read_int (b : list byte) : option ((unit + N) * list byte) :=
  match read_tlv TAG_INT b with
  | Some (c, rest) =>
    if int_minimal c then Some ((if int_negative c then inl tt else inr (of_be c)), rest) else None
  | None => None
  end.

(* modular exponentiation, square and multiply over the bits of the exponent *)
Fixpoint pow_mod_pos (a : N) (e : positive) (m : N) : N :=
  match e with
  | xH => a mod m
  | xO e' => let r := pow_mod_pos a e' m in (r * r) mod m
  | xI e' => let r := pow_mod_pos a e' m in ((r * r) mod m * a) mod m
  end.
Definition pow_mod (a e m : N) : N :=
  match e with N0 => 1 mod m | Npos p => pow_mod_pos a p m end.
