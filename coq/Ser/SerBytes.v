(* C14 - byte-level helpers shared by the serialisation models.  Definitions only.
   Contracts modelled here (Go standard library, modelled not verified):
     big.Int.Bytes / SetBytes        -> [Bytes], [of_be]      (minimal big-endian magnitude; empty for 0)
     encoding/hex EncodeToString     -> [hex_encode]           (lower case)
     encoding/hex DecodeString       -> [hex_decode]           (accepts both cases, rejects odd length / other chars)
     (the DER pieces - INTEGER, definite lengths, TLV - are those of coq/SM2/DER.v, see Ser/SerDER.v) *)
From Coq Require Import List NArith Arith Bool.
Import ListNotations.
Open Scope N_scope.

Notation byte := N (only parsing).

Definition bytes_ok (l : list byte) : Prop := Forall (fun b => b < 256) l.
Definition bytes_okb (l : list byte) : bool := forallb (fun b => b <? 256) l.

(* k bytes, big endian, of n mod 256^k *)
Fixpoint to_be (k : nat) (n : N) : list byte :=
  match k with
  | O => []
  | S k' => to_be k' (n / 256) ++ [n mod 256]
  end.

Definition of_be (l : list byte) : N := fold_left (fun acc b => acc * 256 + b) l 0.

Fixpoint strip_zeros (l : list byte) : list byte :=
  match l with
  | 0 :: t => strip_zeros t
  | _ => l
  end.

(* big.Int.Bytes() *)
Definition Bytes (n : N) : list byte := strip_zeros (to_be (N.to_nat (N.size n)) n).

(* "if n := len(b); n < 32 { b = append(zeroByteSlice()[:32-n], b...) }" *)
Definition pad32 (b : list byte) : list byte := repeat 0 (32 - length b) ++ b.

(* ---------- encoding/hex ----------------------------------------------------------------------------- *)
Definition hex_digit (v : N) : N := if v <? 10 then 48 + v else 87 + v.       (* '0'.. / 'a'.. *)

Definition hex_encode (l : list byte) : list N :=
  flat_map (fun b => [hex_digit (b / 16); hex_digit (b mod 16)]) l.

Definition from_hex_char (c : N) : option N :=
  if (48 <=? c) && (c <=? 57) then Some (c - 48)
  else if (97 <=? c) && (c <=? 102) then Some (c - 87)
  else if (65 <=? c) && (c <=? 70) then Some (c - 55)
  else None.

Fixpoint hex_decode (s : list N) : option (list byte) :=
  match s with
  | [] => Some []
  | [_] => None
  | c1 :: c2 :: t =>
    match from_hex_char c1, from_hex_char c2, hex_decode t with
    | Some h, Some l, Some r => Some (h * 16 + l :: r)
    | _, _, _ => None
    end
  end.

(* modular exponentiation, square and multiply over the bits of the exponent *)
Fixpoint pow_mod_pos (a : N) (e : positive) (m : N) : N :=
  match e with
  | xH => a mod m
  | xO e' => let r := pow_mod_pos a e' m in (r * r) mod m
  | xI e' => let r := pow_mod_pos a e' m in ((r * r) mod m * a) mod m
  end.
Definition pow_mod (a e m : N) : N :=
  match e with N0 => 1 mod m | Npos p => pow_mod_pos a p m end.
