(* Host-name, IP and DNS-name-constraint matching as the property C10 states it (RFC 6125 6.4,
   RFC 5280 4.2.1.10 at the level of byte strings).  Never looks at the Go code.
   Strings are byte lists.  Everything here is a relation on ALL byte strings: no
   well-formedness of labels is assumed, so the matchers can be compared on garbage too. *)
From Coq Require Import List NArith Bool.
Import ListNotations.
Local Open Scope N_scope.

Notation byte := N (only parsing).

Definition DOT : N := 46.    (* '.' *)
Definition STAR : N := 42.   (* '*' *)
Definition LBR : N := 91.    (* '[' *)
Definition RBR : N := 93.    (* ']' *)

(* ASCII case folding: only 'A'..'Z' change *)
Definition is_upper (b : byte) : bool := (65 <=? b) && (b <=? 90).
Definition lower_byte (b : byte) : byte := if is_upper b then b + 32 else b.
Definition lower (s : list byte) : list byte := map lower_byte s.

(* a single trailing dot (absolute name) is insignificant *)
Definition strip_dot (s : list byte) : list byte :=
  match rev s with
  | d :: r => if d =? DOT then rev r else s
  | [] => s
  end.

(* presented identifier [P] (from the certificate) matches reference identifier [H]:
   exact match, or the complete leftmost label of P is "*" and stands for exactly one label of H. *)
Definition dns_match (P H : list byte) : Prop :=
  let p := strip_dot P in
  let h := strip_dot H in
  p <> [] /\ h <> [] /\
  (p = h \/
   exists l rest, p = STAR :: rest /\ h = l ++ rest /\ ~ In DOT l /\
                  (rest = [] \/ exists r, rest = DOT :: r)).

(* IP literals may be written in brackets *)
Definition strip_brackets (h : list byte) : list byte :=
  match h with
  | b :: t =>
    match rev t with
    | e :: m => if (b =? LBR) && (e =? RBR) && negb (Nat.eqb (length m) 0) then rev m else h
    | [] => h
    end
  | [] => h
  end.

(* two addresses are the same when they are equal, or one is the 4-byte form of the other's
   IPv4-mapped 16-byte form *)
Definition v4_in_v6_prefix : list byte := [0;0;0;0;0;0;0;0;0;0;255;255].
Definition same_ip (a b : list byte) : Prop :=
  (length a = length b /\ a = b) \/
  (length a = 4%nat /\ length b = 16%nat /\ b = v4_in_v6_prefix ++ a) \/
  (length a = 16%nat /\ length b = 4%nat /\ a = v4_in_v6_prefix ++ b).

(* name [d] lies in the DNS subtree [c] (RFC 5280: "any DNS name that can be constructed by simply
   adding zero or more labels to the left-hand side of the name satisfies the name constraint";
   a constraint with a leading dot allows proper sub-domains only; the empty constraint allows
   everything), compared without regard to ASCII case. *)
Definition in_dns_domain (d c : list byte) : Prop :=
  c = [] \/
  exists p s, d = p ++ s /\ lower s = lower c /\
    (p = [] \/
     ((exists q, p = q ++ [DOT]) /\ hd_error c <> Some DOT) \/
     ((exists q x, p = q ++ [x] /\ x <> DOT) /\ hd_error c = Some DOT)).
