(* Lemmas about the signing-decision model and the field codecs of X509/CreateModel.v. *)
From Coq Require Import List NArith ZArith Bool String Lia Arith.
From GmsmVerif Require Import Lib.Outcome Gen.X509Tables X509.CreateModel X509.CreateRun X509.SigAlgTables.
Import ListNotations.
Local Open Scope N_scope.

(* ---------- finite domains ------------------------------------------------------------------------------ *)
Lemma all_signers_complete : forall s, In s all_signers.
Proof. destruct s as [|c|c|]; try destruct c; cbn; tauto. Qed.

Lemma all_kinds_complete : forall k, In k all_kinds.
Proof. destruct k; cbn; tauto. Qed.

Lemma scheme_eqb_eq : forall a b, scheme_eqb a b = true -> a = b.
Proof.
  destruct a, b; cbn; intro H; try discriminate; try reflexivity; apply N.eqb_eq in H; subst; reflexivity.
Qed.

(* an algorithm outside the table is never accepted *)
Lemma create_ok_algo_in_table : forall k s a r, create_model k s a = Ok r -> k = KCRL \/ In a table_algos.
Proof.
  intros k s a r H. destruct k; try (left; reflexivity); right;
  unfold create_model, signingParamsForPublicKey_model in H;
  (destruct (find _ gen_signing_defaults) as [[[[[kt cv] pt] hf] o]|]; [|discriminate]);
  (destruct (a =? 0) eqn:E0; [apply N.eqb_eq in E0; subst a; left; reflexivity|]);
  (destruct (details_by_algo a) as [row0|] eqn:Ed; [|discriminate]);
  unfold details_by_algo in Ed; apply find_some in Ed; destruct Ed as [Hin Ea]; apply N.eqb_eq in Ea;
  right; rewrite <- Ea; apply in_map; exact Hin.
Qed.

Definition consistent_b (k : kind) (s : signer) (a : N) : bool :=
  match create_model k s a with
  | Ok (sch, oid, pss) =>
    match checkSignature_model (getSignatureAlgorithmFromAI_model oid pss) (vkey_of s) with
    | Ok sch' => scheme_eqb sch sch'
    | _ => false
    end
  | _ => true
  end.

Lemma consistent_sweep :
  forallb (fun k => forallb (fun s => forallb (fun a => consistent_b k s a) table_algos) all_signers) all_kinds = true.
Proof. vm_compute. reflexivity. Qed.

Lemma create_model_crl_ignores_algo : forall s a, create_model KCRL s a = create_model KCRL s 0.
Proof. reflexivity. Qed.

Lemma signing_consistent_lemma : forall k s a sch oid pss,
  create_model k s a = Ok (sch, oid, pss) ->
  checkSignature_model (getSignatureAlgorithmFromAI_model oid pss) (vkey_of s) = Ok sch.
Proof.
  intros k s a sch oid pss H.
  assert (Hb : consistent_b k s a = true).
  { pose proof consistent_sweep as Hs. rewrite forallb_forall in Hs. specialize (Hs k (all_kinds_complete k)).
    rewrite forallb_forall in Hs. specialize (Hs s (all_signers_complete s)). rewrite forallb_forall in Hs.
    destruct (create_ok_algo_in_table k s a _ H) as [->|Hin].
    - assert (E : consistent_b KCRL s a = consistent_b KCRL s 0) by reflexivity. rewrite E. apply Hs. left. reflexivity.
    - apply Hs. exact Hin. }
  unfold consistent_b in Hb. rewrite H in Hb.
  destruct (checkSignature_model _ _) as [sch'| | |]; try discriminate.
  apply scheme_eqb_eq in Hb. subst. reflexivity.
Qed.

(* same-family requests on the signer types the property names are accepted, except MD2 (no hash) and MD5 (refused) *)
Lemma same_family_accepted : forall k s a,
  In s [SgRSA; SgECDSA P256; SgECDSA P224; SgECDSA P384; SgECDSA P521; SgSM2 P256Sm2] ->
  same_family s a = true -> a <> c_MD2WithRSA -> a <> c_MD5WithRSA -> exists r, create_model k s a = Ok r.
Proof.
  intros k s a Hs Hf Hn Hn5.
  assert (Ha : In a table_algos).
  { unfold same_family in Hf. apply orb_true_iff in Hf. destruct Hf as [Hf|Hf].
    - apply N.eqb_eq in Hf. subst. left. reflexivity.
    - destruct s as [|c|c|]; try discriminate; apply existsb_exists in Hf; destruct Hf as [x [Hx E]];
        apply N.eqb_eq in E; subst x; cbn in Hx;
        repeat (destruct Hx as [<-|Hx]; [vm_compute; tauto|]); destruct Hx. }
  assert (H : forallb (fun k => forallb (fun s => forallb (fun a =>
                 implb (same_family s a && negb (a =? c_MD2WithRSA) && negb (a =? c_MD5WithRSA)) (is_ok (create_model k s a))) table_algos)
                 [SgRSA; SgECDSA P256; SgECDSA P224; SgECDSA P384; SgECDSA P521; SgSM2 P256Sm2]) all_kinds = true)
    by (vm_compute; reflexivity).
  rewrite forallb_forall in H. specialize (H k (all_kinds_complete k)).
  rewrite forallb_forall in H. specialize (H s Hs). rewrite forallb_forall in H. specialize (H a Ha).
  rewrite Hf in H. apply N.eqb_neq in Hn. apply N.eqb_neq in Hn5. rewrite Hn, Hn5 in H. cbn in H.
  destruct (create_model k s a) as [r| | |]; try discriminate. exists r. reflexivity.
Qed.

(* ---------- key usage ----------------------------------------------------------------------------------- *)
Definition keyusage_ok_b (ku : N) : bool :=
  let '(bs, bl) := encode_keyusage ku in (decode_keyusage bs bl =? ku) && bitstring_wellformed bs bl.

Lemma keyusage_sweep : forallb keyusage_ok_b (map N.of_nat (seq 1 511)) = true.
Proof. vm_compute. reflexivity. Qed.

Lemma keyusage_roundtrip_lemma : forall ku, 0 < ku < 512 ->
  let '(bs, bl) := encode_keyusage ku in decode_keyusage bs bl = ku /\ bitstring_wellformed bs bl = true.
Proof.
  intros ku Hr. pose proof keyusage_sweep as H. rewrite forallb_forall in H.
  assert (Hin : In ku (map N.of_nat (seq 1 511))).
  { apply in_map_iff. exists (N.to_nat ku). split; [apply N2Nat.id|]. apply in_seq. lia. }
  specialize (H ku Hin). unfold keyusage_ok_b in H. destruct (encode_keyusage ku) as [bs bl].
  apply andb_true_iff in H. destruct H as [H1 H2]. apply N.eqb_eq in H1. split; assumption.
Qed.

(* ---------- basic constraints ---------------------------------------------------------------------------- *)
Lemma basic_constraints_roundtrip_lemma : forall isCA mpl zero,
  let '(isCA', mpl', zero') := decode_basic_constraints (encode_basic_constraints isCA mpl zero) in
  isCA' = isCA /\
  effective_pathlen mpl' zero' = effective_pathlen mpl zero /\
  zero' = (mpl' =? 0)%Z /\
  ((0 < mpl)%Z -> mpl' = mpl) /\
  (mpl = 0%Z -> zero = true -> mpl' = 0%Z) /\
  (mpl = 0%Z -> zero = false -> mpl' = (-1)%Z) /\
  ((mpl < 0)%Z -> mpl' = mpl).
Proof.
  intros isCA mpl zero. unfold decode_basic_constraints, encode_basic_constraints, effective_pathlen. cbn [fst snd].
  assert (HisCA : match (if isCA then Some true else None) with Some b => b | None => false end = isCA)
    by (destruct isCA; reflexivity).
  rewrite HisCA.
  destruct (Z.eqb_spec mpl 0) as [->|Hn0]; destruct zero; cbn [negb andb].
  all: repeat match goal with |- context [Z.eqb ?a ?b] => destruct (Z.eqb_spec a b) end;
       repeat match goal with |- context [Z.ltb ?a ?b] => destruct (Z.ltb_spec a b) end; cbn [andb];
       repeat split; intros; try reflexivity; try lia; try congruence.
Qed.

(* ---------- DER INTEGER ------------------------------------------------------------------------------------ *)
Lemma be_value_app : forall l b, be_value (l ++ [b]) = be_value l * 256 + b.
Proof. intros l b. unfold be_value. rewrite fold_left_app. reflexivity. Qed.

Lemma be_bytes_length : forall n v, List.length (be_bytes n v) = n.
Proof.
  induction n as [|n IH]; intro v; [reflexivity|]. cbn [be_bytes]. rewrite app_length, IH. cbn. lia.
Qed.

Lemma be_value_be_bytes : forall n v, be_value (be_bytes n v) = v mod 256 ^ N.of_nat n.
Proof.
  induction n as [|n IH]; intro v.
  - cbn. rewrite N.mod_1_r. reflexivity.
  - cbn [be_bytes]. rewrite be_value_app, IH. rewrite Nat2N.inj_succ, N.pow_succ_r'.
    rewrite (N.mod_mul_r v 256 (256 ^ N.of_nat n)) by (try apply N.pow_nonzero; lia). lia.
Qed.

Lemma hd_app_ne : forall (l m : list N) d, l <> [] -> hd d (l ++ m) = hd d l.
Proof. intros l m d H. destruct l; [contradiction|reflexivity]. Qed.

Lemma hd_be_bytes : forall n v, hd 0 (be_bytes (S n) v) = (v / 256 ^ N.of_nat n) mod 256.
Proof.
  induction n as [|n IH]; intro v.
  - cbn. rewrite N.div_1_r. reflexivity.
  - change (be_bytes (S (S n)) v) with ((be_bytes (S n) (v / 256) ++ [v mod 256])%list).
    rewrite hd_app_ne.
    + rewrite IH. rewrite N.div_div by (try apply N.pow_nonzero; lia).
      rewrite Nat2N.inj_succ, N.pow_succ_r'. reflexivity.
    + intro E. apply (f_equal (@List.length N)) in E. rewrite be_bytes_length in E. discriminate.
Qed.

Definition inrange (n : nat) (z : Z) : Prop := (- 2 ^ (8 * Z.of_nat n - 1) <= z < 2 ^ (8 * Z.of_nat n - 1))%Z.

Lemma inrange_b : forall n z,
  ((- 2 ^ (8 * Z.of_nat n - 1) <=? z) && (z <? 2 ^ (8 * Z.of_nat n - 1)))%Z = true <-> inrange n z.
Proof. intros n z. unfold inrange. rewrite andb_true_iff, Z.leb_le, Z.ltb_lt. tauto. Qed.

Lemma int_len_spec : forall fuel n z,
  (exists m, (n <= m <= n + fuel)%nat /\ inrange m z) ->
  inrange (int_len fuel n z) z /\ (n <= int_len fuel n z)%nat /\
  forall k, (n <= k < int_len fuel n z)%nat -> ~ inrange k z.
Proof.
  induction fuel as [|fuel IH]; intros n z [m [Hm Hr]].
  - cbn. assert (m = n) by lia. subst. split; [exact Hr|]. split; [lia|]. intros k Hk. lia.
  - cbn [int_len]. destruct ((- 2 ^ (8 * Z.of_nat n - 1) <=? z) && (z <? 2 ^ (8 * Z.of_nat n - 1)))%Z eqn:E.
    + apply inrange_b in E. split; [exact E|]. split; [lia|]. intros k Hk. lia.
    + assert (Hn : ~ inrange n z). { intro H. apply inrange_b in H. congruence. }
      assert (m <> n) by (intro; subst; contradiction).
      destruct (IH (S n) z) as [H1 [H2 H3]]. { exists m. split; [lia|exact Hr]. }
      split; [exact H1|]. split; [lia|]. intros k Hk. destruct (Nat.eq_dec k n) as [->|Hne]; [exact Hn|].
      apply H3. lia.
Qed.

Lemma enough_bytes : forall z, inrange (Z.to_nat (Z.log2 (Z.abs z)) / 8 + 2) z.
Proof.
  intro z. unfold inrange. set (L := Z.log2 (Z.abs z)).
  assert (HL : (0 <= L)%Z) by apply Z.log2_nonneg.
  assert (Habs : (Z.abs z < 2 ^ (L + 1))%Z).
  { destruct (Z.eq_dec z 0) as [->|Hz]. { cbn. unfold L. cbn. lia. }
    assert (0 < Z.abs z)%Z by lia. pose proof (Z.log2_spec (Z.abs z) H) as [_ Hs]. fold L in Hs. rewrite <- Z.add_1_r in Hs. exact Hs. }
  assert (Hm : (L + 1 <= 8 * Z.of_nat (Z.to_nat L / 8 + 2) - 1)%Z).
  { rewrite Nat2Z.inj_add, Nat2Z.inj_div, Z2Nat.id by lia. cbn [Z.of_nat Pos.of_succ_nat Pos.succ].
    pose proof (Z.div_mod L 8 ltac:(lia)). pose proof (Z.mod_pos_bound L 8 ltac:(lia)). lia. }
  assert (Hp : (2 ^ (L + 1) <= 2 ^ (8 * Z.of_nat (Z.to_nat L / 8 + 2) - 1))%Z) by (apply Z.pow_le_mono_r; lia).
  lia.
Qed.

Lemma encode_len_spec : forall z,
  let n := int_len (Z.to_nat (Z.log2 (Z.abs z)) / 8 + 2) 1 z in
  inrange n z /\ (1 <= n)%nat /\ forall k, (1 <= k < n)%nat -> ~ inrange k z.
Proof.
  intro z. apply int_len_spec. exists (Z.to_nat (Z.log2 (Z.abs z)) / 8 + 2)%nat. split; [lia|apply enough_bytes].
Qed.

Lemma pow256 : forall n, Z.of_N (256 ^ N.of_nat n) = (2 ^ (8 * Z.of_nat n))%Z.
Proof.
  intro n. rewrite N2Z.inj_pow, nat_N_Z. change (Z.of_N 256) with (2 ^ 8)%Z. rewrite <- Z.pow_mul_r by lia. reflexivity.
Qed.

Lemma decode_encode_integer : forall z, decode_integer (encode_integer z) = z.
Proof.
  intro z. unfold encode_integer. pose proof (encode_len_spec z) as Hs. cbv zeta in Hs.
  set (n := int_len (Z.to_nat (Z.log2 (Z.abs z)) / 8 + 2) 1 z) in *. destruct Hs as [Hr [Hn _]].
  unfold inrange in Hr.
  set (M := (2 ^ (8 * Z.of_nat n))%Z).
  assert (HM : (M = 2 * 2 ^ (8 * Z.of_nat n - 1))%Z).
  { unfold M. rewrite <- Z.pow_succ_r by lia. f_equal. lia. }
  assert (Hpos : (0 < 2 ^ (8 * Z.of_nat n - 1))%Z) by (apply Z.pow_pos_nonneg; lia).
  set (v := Z.to_N (z mod M)).
  assert (Hzm : (0 <= z mod M < M)%Z) by (apply Z.mod_pos_bound; lia).
  assert (Hv : Z.of_N v = (z mod M)%Z) by (unfold v; rewrite Z2N.id; lia).
  assert (Hvlt : v < 256 ^ N.of_nat n).
  { apply N2Z.inj_lt. rewrite Hv, pow256. fold M. lia. }
  unfold decode_integer. rewrite be_bytes_length, be_value_be_bytes, (N.mod_small v _ Hvlt), Hv. fold M.
  destruct n as [|n']; [lia|].
  rewrite hd_be_bytes.
  assert (Hq : v / 256 ^ N.of_nat n' < 256).
  { apply N.div_lt_upper_bound; [apply N.pow_nonzero; lia|]. rewrite Nat2N.inj_succ, N.pow_succ_r' in Hvlt. lia. }
  rewrite (N.mod_small _ _ Hq).
  assert (Hhalf : Z.of_N (128 * 256 ^ N.of_nat n') = (2 ^ (8 * Z.of_nat (S n') - 1))%Z).
  { rewrite N2Z.inj_mul, pow256. change (Z.of_N 128) with (2 ^ 7)%Z. rewrite <- Z.pow_add_r by lia. f_equal. lia. }
  destruct (128 <=? v / 256 ^ N.of_nat n') eqn:E.
  - apply N.leb_le in E.
    assert (Hge : 128 * 256 ^ N.of_nat n' <= v).
    { pose proof (N.mul_div_le v (256 ^ N.of_nat n') ltac:(apply N.pow_nonzero; lia)). nia. }
    apply N2Z.inj_le in Hge. rewrite Hhalf, Hv in Hge.
    (* z must be negative *)
    destruct (Z_lt_le_dec z 0) as [Hneg|Hnn].
    + rewrite <- (Z.mod_add z 1 M) by lia. rewrite Z.mod_small by lia. lia.
    + rewrite Z.mod_small in Hge by lia. lia.
  - apply N.leb_gt in E.
    assert (Hlt : v < 128 * 256 ^ N.of_nat n').
    { pose proof (N.div_mod v (256 ^ N.of_nat n') ltac:(apply N.pow_nonzero; lia)).
      pose proof (N.mod_lt v (256 ^ N.of_nat n') ltac:(apply N.pow_nonzero; lia)). nia. }
    apply N2Z.inj_lt in Hlt. rewrite Hhalf, Hv in Hlt.
    destruct (Z_lt_le_dec z 0) as [Hneg|Hnn].
    + rewrite <- (Z.mod_add z 1 M) in Hlt by lia. rewrite Z.mod_small in Hlt by lia. lia.
    + rewrite Z.mod_small by lia. reflexivity.
Qed.

(* ---------- the table the runner uses is the model ------------------------------------------------------- *)
Lemma c09_table_algos : forall r, In r c09_table -> let '(_, _, a, _) := r in In a table_algos.
Proof.
  assert (H : forallb (fun r : N * N * N * N => let '(_, _, a, _) := r in existsb (fun x => x =? a) table_algos) c09_table = true)
    by (vm_compute; reflexivity).
  intros r Hr. rewrite forallb_forall in H. specialize (H r Hr). destruct r as [[[k s] a] res].
  apply existsb_exists in H. destruct H as [x [Hx E]]. apply N.eqb_eq in E. subst x. exact Hx.
Qed.

Lemma c09_lookup_correct : forall k sp a, In sp run_signers ->
  c09_lookup (kind_code k) (fst sp) a = result_code (created_verifies k (snd sp) a).
Proof.
  intros k sp a Hsp.
  assert (Hsweep : forallb (fun k => forallb (fun sp => forallb (fun a =>
            c09_lookup (kind_code k) (fst sp) a =? result_code (created_verifies k (snd sp) a)) table_algos) run_signers) all_kinds = true)
    by (vm_compute; reflexivity).
  rewrite forallb_forall in Hsweep. specialize (Hsweep k (all_kinds_complete k)).
  rewrite forallb_forall in Hsweep. specialize (Hsweep sp Hsp). rewrite forallb_forall in Hsweep.
  destruct (in_dec N.eq_dec a table_algos) as [Hin|Hnin].
  { apply N.eqb_eq. apply Hsweep. exact Hin. }
  assert (Hcv : forall k', k' <> KCRL -> result_code (created_verifies k' (snd sp) a) = 0).
  { intros k' Hk. unfold created_verifies. destruct (create_model k' (snd sp) a) as [r| | |] eqn:Ec; try reflexivity.
    destruct (create_ok_algo_in_table _ _ _ _ Ec) as [E|E]; contradiction. }
  assert (Hlk : forall kc, kc <> 2 -> c09_lookup kc (fst sp) a = 0).
  { intros kc Hkc. unfold c09_lookup. apply N.eqb_neq in Hkc. rewrite Hkc.
    destruct (find _ c09_table) as [[[[k0 s0] a0] res]|] eqn:Ef; [|reflexivity].
    apply find_some in Ef. destruct Ef as [Hin Hb]. apply c09_table_algos in Hin.
    apply andb_true_iff in Hb. destruct Hb as [_ Hb]. apply N.eqb_eq in Hb. subst a0. contradiction. }
  destruct k.
  - rewrite Hcv by discriminate. apply Hlk. discriminate.
  - rewrite Hcv by discriminate. apply Hlk. discriminate.
  - change (c09_lookup (kind_code KCRL) (fst sp) a) with (c09_lookup (kind_code KCRL) (fst sp) 0).
    change (created_verifies KCRL (snd sp) a) with (created_verifies KCRL (snd sp) 0).
    apply N.eqb_eq. apply Hsweep. left. reflexivity.
  - rewrite Hcv by discriminate. apply Hlk. discriminate.
Qed.
