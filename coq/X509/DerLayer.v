(* A small DER layer for the extension codecs of C09 (no proofs in this file): what encoding/asn1
   writes (identifier octet, definite minimal length, content) and what its reader accepts
   (parseTagAndLength: low tag numbers, definite lengths, no superfluous length octets, at most
   4 length octets below 2^31; parseBase128Int: at most 5 octets, minimal, below 2^31).
   Identifier octets are kept whole: class = id / 64, constructed bit = 32, tag number = id mod 32. *)
From Coq Require Import List NArith ZArith Bool Arith.
From GmsmVerif Require Import X509.CreateModel.     (* be_bytes, be_value *)
Import ListNotations.
Local Open Scope N_scope.

Definition LIMIT : N := 2 ^ 31.

(* least number of base-256 digits of v > 0 *)
Definition nbytes (v : N) : nat := N.to_nat (N.log2 v / 8) + 1.

Definition der_len (n : nat) : list N :=
  let v := N.of_nat n in
  if v <? 128 then [v] else N.of_nat (128 + nbytes v) :: be_bytes (nbytes v) v.

Definition tlv (id : N) (content : list N) : list N := id :: der_len (List.length content) ++ content.

(* the length part of parseTagAndLength *)
Definition read_len (b : list N) : option (nat * list N) :=
  match b with
  | [] => None
  | l :: r =>
    if l <? 128 then Some (N.to_nat l, r)
    else
      let k := N.to_nat (l - 128) in
      if Nat.eqb k 0 then None                          (* indefinite length *)
      else if Nat.ltb 4 k then None                     (* length too large *)
      else if Nat.ltb (List.length r) k then None       (* truncated *)
      else if hd 0 r =? 0 then None                     (* superfluous leading zeros in length *)
      else
        let v := be_value (firstn k r) in
        if v <? 128 then None                           (* non-minimal length *)
        else if LIMIT <=? v then None
        else Some (N.to_nat v, skipn k r)
  end.

(* one element: identifier octet, content, what follows *)
Definition read_tlv (b : list N) : option (N * list N * list N) :=
  match b with
  | [] => None
  | id :: r =>
    if N.land id 31 =? 31 then None                     (* high tag numbers: outside this layer *)
    else
      match read_len r with
      | Some (n, r') => if Nat.ltb (List.length r') n then None else Some (id, firstn n r', skipn n r')
      | None => None
      end
  end.

(* all elements of a constructed value's content *)
Fixpoint read_all (fuel : nat) (b : list N) : option (list (N * list N)) :=
  match b with
  | [] => Some []
  | _ =>
    match fuel with
    | O => None
    | S f =>
      match read_tlv b with
      | Some (id, c, rest) => option_map (cons (id, c)) (read_all f rest)
      | None => None
      end
    end
  end.

Definition tag_number (id : N) : N := N.land id 31.

(* the content of a constructed value with the given elements *)
Definition write_all (l : list (N * list N)) : list N := concat (map (fun p => tlv (fst p) (snd p)) l).

(* ---------- base-128 integers and OBJECT IDENTIFIER contents -------------------------------------------- *)
(* the digits above the last one, most significant first, each with the continuation bit *)
Fixpoint b128_hi (fuel : nat) (v : N) : list N :=
  match fuel with
  | O => []
  | S f => if v =? 0 then [] else b128_hi f (v / 128) ++ [128 + v mod 128]
  end.
Definition base128 (v : N) : list N := b128_hi 5 (v / 128) ++ [v mod 128].

(* parseBase128Int: [fuel] continuation octets may still follow *)
Fixpoint parse128 (fuel : nat) (acc : N) (b : list N) {struct b} : option (N * list N) :=
  match b with
  | [] => None                                          (* truncated *)
  | x :: r =>
    let acc' := acc * 128 + x mod 128 in
    if x <? 128 then (if LIMIT <=? acc' then None else Some (acc', r))
    else match fuel with
         | O => None                                    (* base 128 integer too large *)
         | S f => parse128 f acc' r
         end
  end.
Definition parse128_top (b : list N) : option (N * list N) :=
  match b with
  | x :: _ => if x =? 128 then None else parse128 4 0 b     (* integer is not minimally encoded *)
  | [] => None
  end.

Definition encode_oid (oid : list N) : option (list N) :=
  match oid with
  | a0 :: a1 :: rest =>
    if (2 <? a0) || ((a0 <? 2) && (40 <=? a1)) then None    (* asn1: invalid object identifier *)
    else Some (base128 (a0 * 40 + a1) ++ concat (map base128 rest))
  | _ => None
  end.

Fixpoint parse_arcs (fuel : nat) (b : list N) : option (list N) :=
  match b with
  | [] => Some []
  | _ =>
    match fuel with
    | O => None
    | S f =>
      match parse128_top b with
      | Some (v, r) => option_map (cons v) (parse_arcs f r)
      | None => None
      end
    end
  end.

(* parseObjectIdentifier *)
Definition decode_oid (b : list N) : option (list N) :=
  match parse128_top b with
  | None => None                                         (* also: zero length OBJECT IDENTIFIER *)
  | Some (v, r) =>
    let '(a0, a1) := if v <? 80 then (v / 40, v mod 40) else (2, v - 80) in
    option_map (fun arcs => a0 :: a1 :: arcs) (parse_arcs (List.length r) r)
  end.

(* identifier octets used by the extension codecs *)
Definition ID_SEQUENCE : N := 48.       (* 0x30 *)
Definition ID_OCTET_STRING : N := 4.
Definition ID_OID : N := 6.
Definition ID_CTX0_PRIM : N := 128.     (* 0x80  [0] IMPLICIT, primitive *)
Definition ID_CTX0_CONS : N := 160.     (* 0xa0  [0] IMPLICIT, constructed *)
Definition ID_CTX1_CONS : N := 161.     (* 0xa1 *)
Definition ID_CTX_EMAIL : N := 129.     (* 0x81 rfc822Name *)
Definition ID_CTX_DNS : N := 130.       (* 0x82 dNSName *)
Definition ID_CTX_URI : N := 134.       (* 0x86 *)
Definition ID_CTX_IP : N := 135.        (* 0x87 iPAddress *)
