(* C09: the certificate extensions gmsm encodes and decodes itself, at the level of identifier
   octets and content bytes (no proofs in this file).  Builders follow buildExtensions / marshalSANs
   of x509/x509.go, parsers follow parseSANExtension and the case arms of parseCertificate.
   encoding/asn1 is the DER layer of X509/DerLayer.v; how it fills typed values is modelled by
   contract: a slice must be a universal SEQUENCE whose elements all carry the element type's
   identifier; an "optional,tag:n" field is taken when the next element carries [n], else left
   zero; elements left over inside a struct's SEQUENCE are ignored; "ia5" strings must be < 128.
   Error numbers: 1 structure, 2 trailing data, 3 bad IP length, 4 unhandled critical extension,
   5 invalid object identifier / string, 6 empty permitted DNS domain.  Panic = panic("internal error"). *)
From Coq Require Import List NArith ZArith Bool Arith.
From GmsmVerif Require Import Lib.Outcome Gen.X509Tables X509.CreateModel X509.DerLayer.
Import ListNotations.
Local Open Scope N_scope.

(* asn1.Unmarshal(value, &x) for a constructed x, followed by the caller's "len(rest) != 0" test:
   the identifier, and the elements of the content *)
Definition unmarshal_constructed (value : list N) : outcome (N * list (N * list N)) :=
  match read_tlv value with
  | None => Err 1
  | Some (id, c, rest) =>
    match rest with
    | _ :: _ => Err 2
    | [] =>
      match read_all (List.length c) c with
      | Some l => Ok (id, l)
      | None => Err 1
      end
    end
  end.

Definition unmarshal_sequence (value : list N) : outcome (list (N * list N)) :=
  do '(id, l) <- unmarshal_constructed value;
  if id =? ID_SEQUENCE then Ok l else Err 1.

Fixpoint all_ok {A} (l : list (outcome A)) : outcome (list A) :=
  match l with
  | [] => Ok []
  | o :: r => do x <- o; do xs <- all_ok r; Ok (x :: xs)
  end.

(* ---------- SubjectAltName ------------------------------------------------------------------------------- *)
(* net.IP.To4 *)
Definition v4_mapped_prefix : list N := [0;0;0;0;0;0;0;0;0;0;255;255].
Fixpoint bytes_eqb (a b : list N) : bool :=
  match a, b with
  | [], [] => true
  | x :: a', y :: b' => (x =? y) && bytes_eqb a' b'
  | _, _ => false
  end.
Definition to4 (ip : list N) : list N :=
  if Nat.eqb (List.length ip) 4 then ip
  else if Nat.eqb (List.length ip) 16 && bytes_eqb (firstn 12 ip) v4_mapped_prefix then skipn 12 ip
  else ip.                                               (* To4() == nil: the raw value is kept *)

(* func marshalSANs(dnsNames, emailAddresses, ipAddresses) *)
Definition marshalSANs_model (dns emails ips : list (list N)) : list N :=
  tlv ID_SEQUENCE (write_all (map (pair ID_CTX_DNS) dns ++ map (pair ID_CTX_EMAIL) emails
                              ++ map (fun ip => (ID_CTX_IP, to4 ip)) ips)).

(* the loop of parseSANExtension: only the tag NUMBER is looked at *)
Fixpoint san_loop (l : list (N * list N)) : outcome (list (list N) * list (list N) * list (list N)) :=
  match l with
  | [] => Ok ([], [], [])
  | (id, v) :: r =>
    if tag_number id =? 7 then
      if Nat.eqb (List.length v) 4 || Nat.eqb (List.length v) 16
      then do '(d, e, i) <- san_loop r; Ok (d, e, v :: i)
      else Err 3
    else
      do '(d, e, i) <- san_loop r;
      if tag_number id =? 1 then Ok (d, v :: e, i)
      else if tag_number id =? 2 then Ok (v :: d, e, i)
      else Ok (d, e, i)
  end.

(* func parseSANExtension(value) (dnsNames, emailAddresses, ipAddresses, err) *)
Definition parseSANExtension_model (value : list N) : outcome (list (list N) * list (list N) * list (list N)) :=
  do '(id, l) <- unmarshal_constructed value;
  if negb (id =? ID_SEQUENCE) then Err 1 else san_loop l.

(* ---------- ExtKeyUsage ----------------------------------------------------------------------------------- *)
Definition marshal_oid_list (oids : list (list N)) : outcome (list N) :=
  do encs <- all_ok (map (fun o => match encode_oid o with Some b => Ok (ID_OID, b) | None => Err 5 end) oids);
  Ok (tlv ID_SEQUENCE (write_all encs)).

(* buildExtensions, the ExtKeyUsage part *)
Definition build_eku (ekus : list N) (unknown : list (list N)) : outcome (list N) :=
  do known <- all_ok (map (fun u => match oidFromExtKeyUsage_model u with Some o => Ok o | None => Panic end) ekus);
  marshal_oid_list (known ++ unknown).

Definition unmarshal_oid_list (value : list N) : outcome (list (list N)) :=
  do l <- unmarshal_sequence value;
  all_ok (map (fun p : N * list N =>
                 if negb (fst p =? ID_OID) then Err 1
                 else match decode_oid (snd p) with Some o => Ok o | None => Err 1 end) l).

Fixpoint classify_eku (oids : list (list N)) : list N * list (list N) :=
  match oids with
  | [] => ([], [])
  | o :: r =>
    let '(k, u) := classify_eku r in
    match extKeyUsageFromOID_model o with
    | Some e => (e :: k, u)
    | None => (k, o :: u)
    end
  end.

(* parseCertificate, case 37 *)
Definition parse_eku (value : list N) : outcome (list N * list (list N)) :=
  do oids <- unmarshal_oid_list value; Ok (classify_eku oids).

(* ---------- CertificatePolicies ---------------------------------------------------------------------------- *)
Definition build_policies (oids : list (list N)) : outcome (list N) :=
  do encs <- all_ok (map (fun o => match encode_oid o with
                                   | Some b => Ok (ID_SEQUENCE, tlv ID_OID b)
                                   | None => Err 5 end) oids);
  Ok (tlv ID_SEQUENCE (write_all encs)).

(* one policyInformation: SEQUENCE { OBJECT IDENTIFIER, (qualifiers ignored) } *)
Definition parse_policy_info (p : N * list N) : outcome (list N) :=
  if negb (fst p =? ID_SEQUENCE) then Err 1
  else match read_tlv (snd p) with
       | Some (id, c, _) =>
         if negb (id =? ID_OID) then Err 1
         else match decode_oid c with Some o => Ok o | None => Err 1 end
       | None => Err 1
       end.

(* parseCertificate, case 32 *)
Definition parse_policies (value : list N) : outcome (list (list N)) :=
  do l <- unmarshal_sequence value; all_ok (map parse_policy_info l).

(* ---------- key identifiers ------------------------------------------------------------------------------ *)
Definition build_ski (id : list N) : list N := tlv ID_OCTET_STRING id.
Definition parse_ski (value : list N) : outcome (list N) :=
  match read_tlv value with
  | Some (id, c, rest) =>
    if negb (id =? ID_OCTET_STRING) then Err 1 else match rest with [] => Ok c | _ => Err 2 end
  | None => Err 1
  end.

(* authKeyId{Id []byte `asn1:"optional,tag:0"`}; the builder is only reached with a non-empty id *)
Definition build_aki (id : list N) : list N := tlv ID_SEQUENCE (tlv ID_CTX0_PRIM id).
Definition parse_aki (value : list N) : outcome (list N) :=
  do l <- unmarshal_sequence value;
  match l with
  | (id, c) :: _ => if id =? ID_CTX0_PRIM then Ok c else Ok []
  | [] => Ok []
  end.

(* ---------- NameConstraints -------------------------------------------------------------------------------- *)
Definition is_ia5 (s : list N) : bool := forallb (fun b => b <? 128) s.

(* buildExtensions, the NameConstraints part (after 26cf598) *)
Definition build_name_constraints (domains : list (list N)) : outcome (list N) :=
  if existsb (fun d => Nat.eqb (List.length d) 0) domains then Err 6
  else if negb (forallb is_ia5 domains) then Err 5
  else Ok (tlv ID_SEQUENCE (tlv ID_CTX0_CONS (write_all (map (fun d => (ID_SEQUENCE, tlv ID_CTX_DNS d)) domains)))).

(* generalSubtree{Name string `asn1:"tag:2,optional,ia5"`} *)
Definition parse_subtree (p : N * list N) : outcome (list N) :=
  if negb (fst p =? ID_SEQUENCE) then Err 1
  else match snd p with
       | [] => Ok []
       | _ => match read_tlv (snd p) with
              | Some (id, c, _) => if id =? ID_CTX_DNS then (if is_ia5 c then Ok c else Err 1) else Ok []
              | None => Err 1
              end
       end.

Definition parse_subtrees (c : list N) : outcome (list (list N)) :=
  match read_all (List.length c) c with
  | Some l => all_ok (map parse_subtree l)
  | None => Err 1
  end.

(* the loop over constraints.Permitted of case 30 *)
Fixpoint permitted_loop (critical : bool) (names : list (list N)) : outcome (list (list N)) :=
  match names with
  | [] => Ok []
  | n :: r =>
    match n with
    | [] => if critical then Err 4 else permitted_loop critical r
    | _ => do rest <- permitted_loop critical r; Ok (n :: rest)
    end
  end.

(* parseCertificate, case 30 (after 9737171): PermittedDNSDomains and PermittedDNSDomainsCritical *)
Definition parse_name_constraints (critical : bool) (value : list N) : outcome (list (list N) * bool) :=
  do l <- unmarshal_sequence value;
  do '(permitted, l1) <-
     (match l with
      | (id, c) :: r => if id =? ID_CTX0_CONS then do p <- parse_subtrees c; Ok (p, r) else Ok ([], l)
      | [] => Ok ([], [])
      end);
  do excluded <-
     (match l1 with
      | (id, c) :: _ => if id =? ID_CTX1_CONS then parse_subtrees c else Ok []
      | [] => Ok []
      end);
  if negb (Nat.eqb (List.length excluded) 0) && critical then Err 4
  else do names <- permitted_loop critical permitted; Ok (names, critical).

(* ---------- arbitrary NameConstraints values (for the statements about what is NOT handled) -------------- *)
(* a GeneralSubtree holding the GeneralName (id, content) as its base, no minimum / maximum *)
Definition subtree_elem (g : N * list N) : N * list N := (ID_SEQUENCE, tlv (fst g) (snd g)).

(* NameConstraints ::= SEQUENCE { permittedSubtrees [0] OPTIONAL, excludedSubtrees [1] OPTIONAL } *)
Definition nc_value (permitted excluded : list (N * list N)) : list N :=
  tlv ID_SEQUENCE (write_all
    ((match permitted with [] => [] | _ => [(ID_CTX0_CONS, write_all (map subtree_elem permitted))] end) ++
     (match excluded with [] => [] | _ => [(ID_CTX1_CONS, write_all (map subtree_elem excluded))] end))).

(* what generalSubtree.Name holds after parsing: the dNSName, "" for every other kind of name *)
Definition name_of (g : N * list N) : list N := if fst g =? ID_CTX_DNS then snd g else [].
