(* C09, the SM2 path of the Create* functions and of checkSignature at the level of bytes, composed
   from the SM2 model of C01 (SM2/SM2Model.v) - no proofs in this file.

   x509.signingInput hands an SM2 signer the raw TBS; sm2.PrivateKey.Sign computes
   e = SM3(Z_A || TBS) with the default user id and returns DER SEQUENCE{r,s}; the Create* functions
   put those bytes into the signature BIT STRING.
   x509.checkSignature, *ecdsa.PublicKey on the SM2 curve: asn1.Unmarshal into {R,S}, nothing left
   over, the bytes must equal asn1.Marshal{R,S} (c7e548c), R and S positive, then
   sm2.Sm2Verify(pub, signed, nil, R, S).  "Unmarshal, then equal to its own re-encoding" is modelled
   by the strict DER parser of SM2/DER.v (accepts exactly the DER encodings of pairs of integers). *)
From Coq Require Import List NArith ZArith Bool.
From GmsmVerif Require Import Lib.Outcome SM2.SM2Bytes SM2.DER SM2.SM2Model.
Import ListNotations.
Open Scope Z_scope.

(* the signature value a Create* function stores for an SM2 signer: signer.Sign(rand, signingInput(tbs) = tbs, opts) *)
Definition create_signature_sm2 (fuel : nat) (pr : priv) (tbs rho : list byte) : outcome (list byte * list byte) :=
  Sign fuel pr rho tbs.

(* checkSignature(algo, signed, signature, pub) for a key on the SM2 curve, whatever SM2With* / ECDSAWith* algo *)
Definition checkSignature_sm2 (pub : pubkey) (signed signature : list byte) : bool :=
  match sig_decode signature with
  | Some (r, s) =>
    if ((r <=? 0) || (s <=? 0))%bool then false       (* "ECDSA signature contained zero or negative values" *)
    else Sm2Verify pub signed [] r s
  | None => false
  end.
