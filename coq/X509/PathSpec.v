(* C10: what a valid certification path is, read from the PROPERTY TEXT (and RFC 5280 section 6 as
   far as the text refers to it).  Never looks at the Go code.

   Certificates are abstract records of the fields path validation talks about (they are also the
   fields x509/verify.go and x509/cert_pool.go read); [sig_ok child parent] - "child's signature
   verifies under parent's public key" - is supplied by the PKI description.

   Readings chosen where the text leaves room (each is repeated in Props/C10.v):
   * path length: the number of CA certificates strictly between the leaf and the issuer must not
     exceed the issuer's pathLenConstraint.  [valid_chain] counts every intermediate; [valid_chain_rfc]
     is the reading of RFC 5280 6.1.4(l), which does not count self-issued intermediates.  Every
     [valid_chain] is a [valid_chain_rfc]; they coincide on chains without self-issued intermediates;
   * DNS name constraints: when a host name is requested, it must lie in a permitted DNS subtree of
     every ISSUER that carries permitted subtrees (the text does not say which names are
     constrained; the reading takes the name the verification is about);
   * extended key usage: the LEAF must allow one of the requested usages ("the leaf matches ... the
     requested extended key usages"); no usage requested means serverAuth; requesting
     anyExtendedKeyUsage accepts every leaf; a leaf without the extension, or with
     anyExtendedKeyUsage, allows every usage; Netscape/Microsoft SGC count as serverAuth;
   * host name: subjectAltName dNSNames if present, else the common name (RFC 6125 6.4.4);
     IP literals (optionally bracketed) match iPAddress SANs only;
   * unhandled critical extensions: on the leaf only (as the text says).
   [strict_extras] collects what an implementation may demand IN ADDITION without the text
   speaking about it (see there). *)
From Coq Require Import List NArith ZArith Bool.
From GmsmVerif Require Import X509.NameMatchSpec.
Import ListNotations.

Record cert := mkCert {
  c_id : nat;                         (* identity: two certificates are the same iff same index *)
  c_v3 : bool;                        (* Version = 3 *)
  c_subject : list byte;              (* RawSubject *)
  c_issuer : list byte;               (* RawIssuer *)
  c_ski : list byte;                  (* SubjectKeyId *)
  c_aki : list byte;                  (* AuthorityKeyId *)
  c_notbefore : Z;
  c_notafter : Z;
  c_bcvalid : bool;                   (* BasicConstraintsValid *)
  c_isca : bool;                      (* IsCA *)
  c_maxpathlen : Z;                   (* MaxPathLen, -1 = no constraint *)
  c_keyusage : N;                     (* KeyUsage bit mask, 0 = extension absent *)
  c_permitted : list (list byte);     (* PermittedDNSDomains *)
  c_dnsnames : list (list byte);      (* DNSNames *)
  c_ips : list (list byte);           (* IPAddresses, 4 or 16 bytes each *)
  c_cn : list byte;                   (* Subject.CommonName *)
  c_eku : list Z;                     (* ExtKeyUsage *)
  c_unknown_eku : bool;               (* UnknownExtKeyUsage non-empty *)
  c_unhandled_critical : bool;        (* UnhandledCriticalExtensions non-empty *)
  c_entrust_spki : bool               (* RawSubjectPublicKeyInfo is the Entrust blob *)
}.

Record options := mkOpts {
  o_dnsname : list byte;              (* requested host name, [] = none *)
  o_now : Z;                          (* verification time *)
  o_keyusages : list Z                (* requested extended key usages *)
}.

Definition KeyUsageCertSign : N := 32.
Definition EKU_Any : Z := 0%Z.
Definition EKU_ServerAuth : Z := 1%Z.
Definition EKU_MicrosoftSGC : Z := 10%Z.
Definition EKU_NetscapeSGC : Z := 11%Z.

Section Spec.
  Variable sig_ok : cert -> cert -> bool.
  Variable parse_ip : list byte -> option (list byte).   (* textual IP address -> bytes *)
  Variable roots inters : list cert.
  Variable opts : options.

  Definition in_validity (c : cert) : Prop :=
    (c_notbefore c <= o_now opts)%Z /\ (o_now opts <= c_notafter c)%Z.

  Definition is_ca (c : cert) : Prop := c_bcvalid c = true /\ c_isca c = true.

  (* a key usage extension, when present, must include keyCertSign *)
  Definition may_sign (c : cert) : Prop :=
    c_keyusage c = 0%N \/ N.land (c_keyusage c) KeyUsageCertSign <> 0%N.

  (* [n] CA certificates lie strictly between the leaf and [p] *)
  Definition pathlen_ok (p : cert) (n : nat) : Prop :=
    c_bcvalid p = true -> (0 <= c_maxpathlen p)%Z -> (Z.of_nat n <= c_maxpathlen p)%Z.

  Definition host_requested : Prop := o_dnsname opts <> [].

  Definition dns_constraints_ok (p : cert) : Prop :=
    host_requested -> c_permitted p <> [] ->
    exists k, In k (c_permitted p) /\ in_dns_domain (o_dnsname opts) k.

  (* [p] may issue [child], with [n] intermediates below [p] *)
  Definition issuer_ok (child : cert) (n : nat) (p : cert) : Prop :=
    sig_ok child p = true /\
    c_issuer child = c_subject p /\
    is_ca p /\ may_sign p /\
    in_validity p /\
    pathlen_ok p n /\
    dns_constraints_ok p.

  (* each certificate is issued by the next one *)
  Fixpoint issuers_ok (child : cert) (n : nat) (ups : list cert) : Prop :=
    match ups with
    | [] => True
    | p :: ups' => issuer_ok child n p /\ issuers_ok p (S n) ups'
    end.

  (* The other reading of "path-length constraints respected": RFC 5280 4.2.1.9 defines
     pathLenConstraint as the maximum number of NON-SELF-ISSUED intermediate certificates that may
     follow (6.1.4 (l): the counter is not decremented for a self-issued certificate, i.e. one whose
     issuer and subject names are equal).  [n] counts only those. *)
  Definition self_issued_dec (c : cert) : {c_issuer c = c_subject c} + {c_issuer c <> c_subject c} :=
    list_eq_dec N.eq_dec (c_issuer c) (c_subject c).

  Fixpoint issuers_ok_rfc (child : cert) (n : nat) (ups : list cert) : Prop :=
    match ups with
    | [] => True
    | p :: ups' => issuer_ok child n p /\ issuers_ok_rfc p (if self_issued_dec p then n else S n) ups'
    end.

  (* host name *)
  Definition presented_names (c : cert) : list (list byte) :=
    match c_dnsnames c with [] => [c_cn c] | l => l end.

  Definition host_matches (c : cert) (h : list byte) : Prop :=
    match parse_ip (strip_brackets h) with
    | Some ip => exists a, In a (c_ips c) /\ same_ip ip a
    | None => exists name, In name (presented_names c) /\ dns_match (lower name) (lower h)
    end.

  (* extended key usage *)
  Definition cert_allows (c : cert) (u : Z) : Prop :=
    (c_eku c = [] /\ c_unknown_eku c = false) \/
    In EKU_Any (c_eku c) \/
    In u (c_eku c) \/
    (u = EKU_ServerAuth /\ (In EKU_MicrosoftSGC (c_eku c) \/ In EKU_NetscapeSGC (c_eku c))).

  Definition requested_usages : list Z :=
    match o_keyusages opts with [] => [EKU_ServerAuth] | l => l end.

  Definition eku_ok (certs : list cert) : Prop :=
    In EKU_Any requested_usages \/
    exists u, In u requested_usages /\ forall c, In c certs -> cert_allows c u.

  Definition leaf_ok (leaf : cert) : Prop :=
    c_unhandled_critical leaf = false /\
    in_validity leaf /\
    (host_requested -> host_matches leaf (o_dnsname opts)) /\
    eku_ok [leaf].

  (* the chain uses only the supplied pools: leaf first, then intermediates, a root last;
     a leaf that is itself a supplied root is a chain of length one *)
  Definition from_pools (leaf : cert) (ups : list cert) : Prop :=
    match rev ups with
    | [] => In leaf roots
    | root :: mids => In root roots /\ forall m, In m mids -> In m inters
    end.

  Definition valid_chain (leaf : cert) (chain : list cert) : Prop :=
    exists ups,
      chain = leaf :: ups /\
      leaf_ok leaf /\
      issuers_ok leaf 0 ups /\
      NoDup (map c_id chain) /\
      from_pools leaf ups.

  Definition valid_chain_rfc (leaf : cert) (chain : list cert) : Prop :=
    exists ups,
      chain = leaf :: ups /\
      leaf_ok leaf /\
      issuers_ok_rfc leaf 0 ups /\
      NoDup (map c_id chain) /\
      from_pools leaf ups.

  (* no intermediate of the chain is self-issued (the last certificate is the root) *)
  Definition no_self_issued_intermediate (ups : list cert) : Prop :=
    forall c, In c (removelast ups) -> c_issuer c <> c_subject c.

  (* Conditions the property text is silent about, which a fail-closed implementation may add:
     - the requested usage must be allowed by EVERY certificate of the chain (nested EKU);
     - the DNS constraints of a certificate are applied to the raw DNSName option, also when it
       is empty (so a constrained CA is unusable without a host name), and also on the leaf's own
       permitted subtrees. *)
  Definition raw_dns_constraints_ok (c : cert) : Prop :=
    c_permitted c <> [] -> exists k, In k (c_permitted c) /\ in_dns_domain (o_dnsname opts) k.

  Definition strict_extras (chain : list cert) : Prop :=
    eku_ok chain /\ forall c, In c chain -> raw_dns_constraints_ok c.

  (* key identifiers on a chain, as far as a search by key identifier needs them: for every link, the
     child names no authority key identifier, or the issuer carries exactly that identifier as its
     subject key identifier, or NO certificate of the issuer's pool carries it (then a search falls
     back to the issuer name).  The issuer's pool is the roots pool for the last link, the
     intermediates pool otherwise.  RFC 5280 4.2.1.1: the identifier, when present, identifies the
     issuer's key - the first two alternatives. *)
  Definition keyid_link_ok (pool : list cert) (child p : cert) : Prop :=
    c_aki child = [] \/ c_ski p = c_aki child \/ (forall q, In q pool -> c_ski q <> c_aki child).

  Fixpoint keyids_wf (child : cert) (ups : list cert) : Prop :=
    match ups with
    | [] => True
    | p :: ups' =>
      keyid_link_ok (match ups' with [] => roots | _ :: _ => inters end) child p /\ keyids_wf p ups'
    end.
End Spec.
