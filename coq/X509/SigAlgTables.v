(* Proofs over the tables generated from x509/x509.go (Gen/X509Tables.v): every statement is a
   complete sweep of a finite generated table ([forallb ... = true] by computation), lifted to a
   statement about all members.  They are re-checked against the source on every run. *)
From Coq Require Import List NArith ZArith Bool String Lia.
From GmsmVerif Require Import Lib.Outcome Gen.X509Tables X509.CreateModel.
Import ListNotations.
Local Open Scope N_scope.

Lemma oid_eqb_eq : forall a b, oid_eqb a b = true <-> a = b.
Proof.
  induction a as [|x a IH]; destruct b as [|y b]; cbn; split; intro H; try reflexivity; try discriminate.
  - apply andb_true_iff in H. destruct H as [H1 H2]. apply N.eqb_eq in H1. apply IH in H2. congruence.
  - injection H as -> ->. rewrite N.eqb_refl. cbn. apply IH. reflexivity.
Qed.

Lemma forallb2_forall : forall (A : Type) (f : A -> A -> bool) (l : list A),
  forallb (fun a => forallb (fun b => f a b) l) l = true ->
  forall a b, In a l -> In b l -> f a b = true.
Proof.
  intros A f l H a b Ha Hb. rewrite forallb_forall in H. specialize (H a Ha).
  rewrite forallb_forall in H. exact (H b Hb).
Qed.

Lemma find_some_In : forall (A : Type) (f : A -> bool) l x, find f l = Some x -> In x l /\ f x = true.
Proof. intros. apply find_some. assumption. Qed.

Notation T := gen_sigalg_details.

(* ---------- signatureAlgorithmDetails ---------------------------------------------------------------- *)
Lemma algo_determines_family_hash : forall r1 r2, In r1 T -> In r2 T ->
  row_algo r1 = row_algo r2 -> row_pk r1 = row_pk r2 /\ row_hash r1 = row_hash r2.
Proof.
  intros r1 r2 H1 H2 E.
  pose proof (forallb2_forall _ (fun a b => implb (row_algo a =? row_algo b)
                ((row_pk a =? row_pk b) && (row_hash a =? row_hash b))) T ltac:(vm_compute; reflexivity) r1 r2 H1 H2) as H.
  cbv beta in H. rewrite E, N.eqb_refl in H. cbn in H. apply andb_true_iff in H. destruct H as [Ha Hb].
  apply N.eqb_eq in Ha. apply N.eqb_eq in Hb. split; assumption.
Qed.

Lemma algo_determines_oid : forall r1 r2, In r1 T -> In r2 T ->
  row_algo r1 = row_algo r2 -> row_algo r1 <> c_SHA1WithRSA -> row_oid r1 = row_oid r2.
Proof.
  intros r1 r2 H1 H2 E Hn.
  pose proof (forallb2_forall _ (fun a b => implb (row_algo a =? row_algo b)
                ((row_algo a =? c_SHA1WithRSA) || oid_eqb (row_oid a) (row_oid b))) T ltac:(vm_compute; reflexivity) r1 r2 H1 H2) as H.
  cbv beta in H. rewrite E, N.eqb_refl in H. cbn [implb] in H. apply orb_true_iff in H. destruct H as [H|H].
  - apply N.eqb_eq in H. rewrite <- E in H. contradiction.
  - apply oid_eqb_eq. exact H.
Qed.

Lemma oid_determines_algo : forall r1 r2, In r1 T -> In r2 T ->
  row_oid r1 = row_oid r2 -> row_oid r1 <> gen_oidSignatureRSAPSS -> row_algo r1 = row_algo r2.
Proof.
  intros r1 r2 H1 H2 E Hn.
  pose proof (forallb2_forall _ (fun a b => implb (oid_eqb (row_oid a) (row_oid b))
                (oid_eqb (row_oid a) gen_oidSignatureRSAPSS || (row_algo a =? row_algo b))) T ltac:(vm_compute; reflexivity) r1 r2 H1 H2) as H.
  cbv beta in H. assert (Ho : oid_eqb (row_oid r1) (row_oid r2) = true) by (apply oid_eqb_eq; exact E).
  rewrite Ho in H. cbn [implb] in H. apply orb_true_iff in H. destruct H as [H|H].
  - apply oid_eqb_eq in H. contradiction.
  - apply N.eqb_eq. exact H.
Qed.

Lemma pss_rows_differ_in_hash : forall r1 r2, In r1 T -> In r2 T ->
  row_oid r1 = gen_oidSignatureRSAPSS -> row_oid r2 = gen_oidSignatureRSAPSS ->
  row_hash r1 = row_hash r2 -> row_algo r1 = row_algo r2.
Proof.
  intros r1 r2 H1 H2 E1 E2 Eh.
  pose proof (forallb2_forall _ (fun a b => implb (oid_eqb (row_oid a) gen_oidSignatureRSAPSS && oid_eqb (row_oid b) gen_oidSignatureRSAPSS
                                                   && (row_hash a =? row_hash b)) (row_algo a =? row_algo b))
                T ltac:(vm_compute; reflexivity) r1 r2 H1 H2) as H.
  cbv beta in H. rewrite E1, E2, Eh, N.eqb_refl in H.
  assert (Ho : oid_eqb gen_oidSignatureRSAPSS gen_oidSignatureRSAPSS = true) by (apply oid_eqb_eq; reflexivity).
  rewrite Ho in H. cbn in H. apply N.eqb_eq. exact H.
Qed.

Definition pair_in (a h : N) (l : list (N * N)) : bool := existsb (fun pr => (fst pr =? a) && (snd pr =? h)) l.

Lemma pair_in_In : forall a h l, pair_in a h l = true <-> In (a, h) l.
Proof.
  intros a h l. unfold pair_in. rewrite existsb_exists. split.
  - intros [[x y] [Hi H]]. cbn in H. apply andb_true_iff in H. destruct H as [Ha Hb].
    apply N.eqb_eq in Ha. apply N.eqb_eq in Hb. subst. exact Hi.
  - intro H. exists (a, h). split; [exact H|]. cbn. rewrite !N.eqb_refl. reflexivity.
Qed.

Lemma table_hash_is_checksig_hash : forall r, In r T ->
  In (row_algo r) gen_checksig_refused \/ In (row_algo r, row_hash r) gen_checksig_hash.
Proof.
  intros r Hr.
  assert (H : forallb (fun r => existsb (fun x => x =? row_algo r) gen_checksig_refused
                                 || pair_in (row_algo r) (row_hash r) gen_checksig_hash) T = true) by (vm_compute; reflexivity).
  rewrite forallb_forall in H. specialize (H r Hr). apply orb_true_iff in H. destruct H as [H|H].
  - left. apply existsb_exists in H. destruct H as [x [Hx E]]. apply N.eqb_eq in E. subst x. exact Hx.
  - right. apply pair_in_In. exact H.
Qed.

Lemma checksig_knows_only_table_algorithms : forall a h, In (a, h) gen_checksig_hash ->
  exists r, In r T /\ row_algo r = a /\ row_hash r = h.
Proof.
  intros a h Hin.
  assert (H : forallb (fun pr => existsb (fun r => (row_algo r =? fst pr) && (row_hash r =? snd pr)) T) gen_checksig_hash = true)
    by (vm_compute; reflexivity).
  rewrite forallb_forall in H. specialize (H (a, h) Hin). apply existsb_exists in H. destruct H as [r [Hr E]].
  cbn in E. apply andb_true_iff in E. destruct E as [E1 E2]. apply N.eqb_eq in E1. apply N.eqb_eq in E2.
  exists r. repeat split; assumption.
Qed.

Lemma checksig_hash_functional : forall a h1 h2, In (a, h1) gen_checksig_hash -> In (a, h2) gen_checksig_hash -> h1 = h2.
Proof.
  intros a h1 h2 H1 H2.
  pose proof (forallb2_forall _ (fun p q : N * N => implb (fst p =? fst q) (snd p =? snd q)) gen_checksig_hash
                ltac:(vm_compute; reflexivity) (a, h1) (a, h2) H1 H2) as H.
  cbn in H. rewrite N.eqb_refl in H. cbn in H. apply N.eqb_eq. exact H.
Qed.

Lemma sm2_rows_ecdsa : forall r, In r T ->
  row_algo r = c_SM2WithSM3 \/ row_algo r = c_SM2WithSHA1 \/ row_algo r = c_SM2WithSHA256 ->
  row_pk r = c_ECDSA.
Proof.
  intros r Hr Ha.
  assert (H : forallb (fun r => implb ((row_algo r =? c_SM2WithSM3) || (row_algo r =? c_SM2WithSHA1) || (row_algo r =? c_SM2WithSHA256))
                                      (row_pk r =? c_ECDSA)) T = true) by (vm_compute; reflexivity).
  rewrite forallb_forall in H. specialize (H r Hr).
  assert (E : (row_algo r =? c_SM2WithSM3) || (row_algo r =? c_SM2WithSHA1) || (row_algo r =? c_SM2WithSHA256) = true).
  { destruct Ha as [ -> | [ -> | -> ] ]; reflexivity. }
  rewrite E in H. cbn in H. apply N.eqb_eq. exact H.
Qed.

Lemma sm2_rows_present :
  (exists r, In r T /\ row_algo r = c_SM2WithSM3 /\ row_hash r = c_SM3) /\
  (exists r, In r T /\ row_algo r = c_SM2WithSHA1 /\ row_hash r = c_SHA1) /\
  (exists r, In r T /\ row_algo r = c_SM2WithSHA256 /\ row_hash r = c_SHA256).
Proof.
  assert (H : forall a h, existsb (fun r => (row_algo r =? a) && (row_hash r =? h)) T = true ->
                          exists r, In r T /\ row_algo r = a /\ row_hash r = h).
  { intros a h E. apply existsb_exists in E. destruct E as [r [Hr E]]. apply andb_true_iff in E. destruct E as [E1 E2].
    apply N.eqb_eq in E1. apply N.eqb_eq in E2. exists r. repeat split; assumption. }
  repeat split; apply H; vm_compute; reflexivity.
Qed.

(* ---------- extKeyUsageOIDs, named curves, public-key algorithms ------------------------------------- *)
Lemma eku_roundtrip_table : forall u o, In (u, o) gen_eku_oids ->
  oidFromExtKeyUsage_model u = Some o /\ extKeyUsageFromOID_model o = Some u.
Proof.
  intros u o Hin.
  assert (H : forallb (fun pr => match oidFromExtKeyUsage_model (fst pr), extKeyUsageFromOID_model (snd pr) with
                                 | Some o', Some u' => oid_eqb o' (snd pr) && (u' =? fst pr)
                                 | _, _ => false end) gen_eku_oids = true) by (vm_compute; reflexivity).
  rewrite forallb_forall in H. specialize (H (u, o) Hin). cbn [fst snd] in H.
  destruct (oidFromExtKeyUsage_model u) as [o'|]; [|discriminate].
  destruct (extKeyUsageFromOID_model o) as [u'|]; [|discriminate].
  apply andb_true_iff in H. destruct H as [H1 H2]. apply oid_eqb_eq in H1. apply N.eqb_eq in H2. subst. split; reflexivity.
Qed.

Lemma eku_from_oid_in_table : forall o u, extKeyUsageFromOID_model o = Some u -> In (u, o) gen_eku_oids.
Proof.
  intros o u H. unfold extKeyUsageFromOID_model in H.
  destruct (find (fun pr => oid_eqb o (snd pr)) gen_eku_oids) as [[u' o']|] eqn:E; [|discriminate].
  injection H as <-. apply find_some in E. destruct E as [Hin E]. cbn in E. apply oid_eqb_eq in E. subst o'. exact Hin.
Qed.

Lemma oid_from_eku_in_table : forall u o, oidFromExtKeyUsage_model u = Some o -> In (u, o) gen_eku_oids.
Proof.
  intros u o H. unfold oidFromExtKeyUsage_model in H.
  destruct (find (fun pr => fst pr =? u) gen_eku_oids) as [[u' o']|] eqn:E; [|discriminate].
  injection H as <-. apply find_some in E. destruct E as [Hin E]. cbn in E. apply N.eqb_eq in E. subst u'. exact Hin.
Qed.

Lemma curve_roundtrip_table :
  (forall c o, In (c, o) gen_oid_from_curve -> oidFromNamedCurve_model c = Some o /\ namedCurveFromOID_model o = Some c) /\
  (forall o c, In (o, c) gen_curve_from_oid -> namedCurveFromOID_model o = Some c /\ oidFromNamedCurve_model c = Some o).
Proof.
  split.
  - intros c o Hin.
    assert (H : forallb (fun pr => match oidFromNamedCurve_model (fst pr), namedCurveFromOID_model (snd pr) with
                                   | Some o', Some c' => oid_eqb o' (snd pr) && String.eqb c' (fst pr)
                                   | _, _ => false end) gen_oid_from_curve = true) by (vm_compute; reflexivity).
    rewrite forallb_forall in H. specialize (H (c, o) Hin). cbn [fst snd] in H.
    destruct (oidFromNamedCurve_model c) as [o'|]; [|discriminate].
    destruct (namedCurveFromOID_model o) as [c'|]; [|discriminate].
    apply andb_true_iff in H. destruct H as [H1 H2]. apply oid_eqb_eq in H1. apply String.eqb_eq in H2. subst. split; reflexivity.
  - intros o c Hin.
    assert (H : forallb (fun pr => match namedCurveFromOID_model (fst pr), oidFromNamedCurve_model (snd pr) with
                                   | Some c', Some o' => oid_eqb o' (fst pr) && String.eqb c' (snd pr)
                                   | _, _ => false end) gen_curve_from_oid = true) by (vm_compute; reflexivity).
    rewrite forallb_forall in H. specialize (H (o, c) Hin). cbn [fst snd] in H.
    destruct (namedCurveFromOID_model o) as [c'|]; [|discriminate].
    destruct (oidFromNamedCurve_model c) as [o'|]; [|discriminate].
    apply andb_true_iff in H. destruct H as [H1 H2]. apply oid_eqb_eq in H1. apply String.eqb_eq in H2. subst. split; reflexivity.
Qed.

(* the algorithm OID marshalPublicKey writes for a key type parses back to the PublicKeyAlgorithm
   signingParamsForPublicKey assigns to that key type *)
Lemma pubkeyalg_roundtrip_table : forall kt cv pubType h o, In (kt, cv, pubType, h, o) gen_signing_defaults ->
  exists po, marshalPublicKey_oid_model kt = Some po /\ getPublicKeyAlgorithmFromOID_model po = pubType.
Proof.
  intros kt cv pubType h o Hin.
  assert (H : forallb (fun d => let '(kt, _, pubType, _, _) := d in
                        match marshalPublicKey_oid_model kt with
                        | Some po => getPublicKeyAlgorithmFromOID_model po =? pubType
                        | None => false end) gen_signing_defaults = true) by (vm_compute; reflexivity).
  rewrite forallb_forall in H. specialize (H _ Hin). cbn beta iota in H.
  destruct (marshalPublicKey_oid_model kt) as [po|]; [|discriminate]. exists po. split; [reflexivity|].
  apply N.eqb_eq. exact H.
Qed.

Lemma pubkeyalg_oids_distinct : forall o1 a1 o2 a2,
  In (o1, a1) gen_pubkeyalg_from_oid -> In (o2, a2) gen_pubkeyalg_from_oid -> (o1 = o2 <-> a1 = a2).
Proof.
  intros o1 a1 o2 a2 H1 H2.
  pose proof (forallb2_forall _ (fun p q : list N * N => Bool.eqb (oid_eqb (fst p) (fst q)) (snd p =? snd q)) gen_pubkeyalg_from_oid
                ltac:(vm_compute; reflexivity) (o1, a1) (o2, a2) H1 H2) as H.
  cbn in H. apply eqb_prop in H. rewrite <- oid_eqb_eq, <- N.eqb_eq. rewrite H. tauto.
Qed.
