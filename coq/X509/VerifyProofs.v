(* Lemmas: the chain-building model of x509/verify.go against PathSpec. *)
From Coq Require Import List NArith ZArith Bool Arith Lia.
From GmsmVerif Require Import Lib.Outcome X509.NameMatchSpec X509.PathSpec X509.VerifyModel X509.NameMatchProofs.
Import ListNotations.

(* ---------- extended key usage -------------------------------------------------------------------- *)
Definition alive (us : list Z) : list Z := filter (fun u => negb (u =? invalidUsage)%Z) us.

Definition cross_map (c : cert) (us : list Z) : list Z :=
  map (fun u => if (u =? invalidUsage)%Z then invalidUsage else if usage_listed c u then u else invalidUsage) us.

Lemma alive_cons : forall a us,
  alive (a :: us) = if (a =? invalidUsage)%Z then alive us else a :: alive us.
Proof. intros a us. unfold alive. cbn [filter]. destruct (a =? invalidUsage)%Z; reflexivity. Qed.

Lemma acm_cons : forall c a us,
  alive (cross_map c (a :: us)) =
    if (a =? invalidUsage)%Z then alive (cross_map c us)
    else if usage_listed c a then a :: alive (cross_map c us) else alive (cross_map c us).
Proof.
  intros c a us. unfold alive, cross_map. cbn [map filter].
  destruct (a =? invalidUsage)%Z eqn:Ea.
  - rewrite Z.eqb_refl. reflexivity.
  - destruct (usage_listed c a).
    + rewrite Ea. reflexivity.
    + rewrite Z.eqb_refl. reflexivity.
Qed.

Lemma cross_map_cons : forall c a us,
  cross_map c (a :: us) =
    (if (a =? invalidUsage)%Z then invalidUsage else if usage_listed c a then a else invalidUsage) :: cross_map c us.
Proof. reflexivity. Qed.

Lemma alive_cross_map_In : forall c us u,
  In u (alive (cross_map c us)) <-> In u (alive us) /\ usage_listed c u = true.
Proof.
  intros c us u. induction us as [|a us IH].
  - cbn. split; [intros []|intros [[] _]].
  - rewrite acm_cons, alive_cons. destruct (a =? invalidUsage)%Z eqn:Ea; [exact IH|].
    destruct (usage_listed c a) eqn:El; cbn [In]; rewrite IH; split.
    + intros [->|[H1 H2]]; [split; [left; reflexivity|exact El]|split; [right; exact H1|exact H2]].
    + intros [[->|H1] H2]; [left; reflexivity|right; split; assumption].
    + intros [H1 H2]. split; [right; exact H1|exact H2].
    + intros [[->|H1] H2]; [congruence|split; assumption].
Qed.

Lemma alive_cross_map_le : forall c us, length (alive (cross_map c us)) <= length (alive us).
Proof.
  intros c us. induction us as [|a us IH]; [cbn; lia|].
  rewrite acm_cons, alive_cons. destruct (a =? invalidUsage)%Z; [exact IH|].
  destruct (usage_listed c a); cbn [length]; lia.
Qed.

Lemma cross_out_spec : forall c us k,
  cross_out c us (k + length (alive us)) =
    if Nat.eqb (k + length (alive (cross_map c us))) 0
       && Nat.ltb (length (alive (cross_map c us))) (length (alive us))
    then None else Some (cross_map c us, k + length (alive (cross_map c us))).
Proof.
  intros c us. induction us as [|a us IH]; intro k.
  - cbn. rewrite andb_false_r. reflexivity.
  - pose proof (alive_cross_map_le c us) as Hle.
    cbn [cross_out]. rewrite acm_cons, alive_cons, cross_map_cons.
    destruct (a =? invalidUsage)%Z eqn:Ea.
    + rewrite IH. apply Z.eqb_eq in Ea. subst a. destruct (_ && _); reflexivity.
    + destruct (usage_listed c a) eqn:El.
      * cbn [length].
        replace (k + S (length (alive us))) with (S k + length (alive us)) by lia.
        rewrite IH.
        replace (Nat.eqb (S k + length (alive (cross_map c us))) 0) with false by (symmetry; apply Nat.eqb_neq; lia).
        replace (Nat.eqb (k + S (length (alive (cross_map c us)))) 0) with false by (symmetry; apply Nat.eqb_neq; lia).
        cbn [andb]. f_equal. f_equal. lia.
      * cbn [length].
        replace (k + S (length (alive us)) - 1) with (k + length (alive us)) by lia.
        destruct (Nat.eqb (k + length (alive us)) 0) eqn:E0.
        -- apply Nat.eqb_eq in E0.
           replace (Nat.eqb (k + length (alive (cross_map c us))) 0) with true by (symmetry; apply Nat.eqb_eq; lia).
           replace (Nat.ltb (length (alive (cross_map c us))) (S (length (alive us)))) with true
             by (symmetry; apply Nat.ltb_lt; lia).
           reflexivity.
        -- apply Nat.eqb_neq in E0. rewrite IH.
           destruct (Nat.eqb (k + length (alive (cross_map c us))) 0) eqn:E1; cbn [andb]; [|reflexivity].
           apply Nat.eqb_eq in E1.
           replace (Nat.ltb (length (alive (cross_map c us))) (length (alive us))) with true
             by (symmetry; apply Nat.ltb_lt; lia).
           replace (Nat.ltb (length (alive (cross_map c us))) (S (length (alive us)))) with true
             by (symmetry; apply Nat.ltb_lt; lia).
           reflexivity.
Qed.

Definition allows_b (c : cert) (u : Z) : bool :=
  (Nat.eqb (length (c_eku c)) 0 && negb (c_unknown_eku c))
  || existsb (fun usage => (usage =? EKU_Any)%Z) (c_eku c)
  || usage_listed c u.

Lemma existsb_Zeqb_In : forall (v : Z) l, existsb (fun x => (x =? v)%Z) l = true <-> In v l.
Proof.
  intros v l. rewrite existsb_exists. split.
  - intros [x [H1 H2]]. apply Z.eqb_eq in H2. subst. exact H1.
  - intro H. exists v. split; [exact H|apply Z.eqb_refl].
Qed.

Lemma usage_listed_iff : forall c u, usage_listed c u = true <->
  In u (c_eku c) \/ (u = EKU_ServerAuth /\ (In EKU_MicrosoftSGC (c_eku c) \/ In EKU_NetscapeSGC (c_eku c))).
Proof.
  intros c u. unfold usage_listed. rewrite existsb_exists. split.
  - intros [x [Hx H]]. apply orb_true_iff in H. destruct H as [H|H].
    + apply Z.eqb_eq in H. subst x. left. exact Hx.
    + apply andb_true_iff in H. destruct H as [H1 H2]. apply Z.eqb_eq in H1.
      apply orb_true_iff in H2. right. split; [exact H1|].
      destruct H2 as [H2|H2]; apply Z.eqb_eq in H2; subst x; [right|left]; exact Hx.
  - intros [H|[H1 [H2|H2]]].
    + exists u. split; [exact H|]. rewrite Z.eqb_refl. reflexivity.
    + exists EKU_MicrosoftSGC. split; [exact H2|]. subst u. reflexivity.
    + exists EKU_NetscapeSGC. split; [exact H2|]. subst u. reflexivity.
Qed.

Lemma allows_b_iff : forall c u, allows_b c u = true <-> cert_allows c u.
Proof.
  intros c u. unfold allows_b, cert_allows. rewrite !orb_true_iff, andb_true_iff, usage_listed_iff.
  rewrite existsb_Zeqb_In, Nat.eqb_eq, negb_true_iff.
  assert (Hl : length (c_eku c) = 0 <-> c_eku c = []).
  { destruct (c_eku c); cbn; split; intro H; try reflexivity; discriminate. }
  rewrite Hl. tauto.
Qed.

Lemma next_cert_spec : forall rchain us,
  next_cert rchain us (length (alive us)) = true <->
  (alive us = [] \/ exists u, In u (alive us) /\ forall c, In c rchain -> allows_b c u = true).
Proof.
  induction rchain as [|c rest IH]; intro us.
  - cbn. split; [|reflexivity]. intros _. destruct (alive us) as [|u l]; [left; reflexivity|].
    right. exists u. split; [left; reflexivity|intros ? []].
  - cbn [next_cert].
    destruct (Nat.eqb (length (c_eku c)) 0 && negb (c_unknown_eku c)) eqn:E1.
    { rewrite IH. split; (intros [H|[u [H1 H2]]]; [left; exact H|right; exists u; split; [exact H1|]]).
      - intros c' [<-|H]; [unfold allows_b; rewrite E1; reflexivity|apply H2; exact H].
      - intros c' H. apply H2. right. exact H. }
    destruct (existsb (fun usage => (usage =? EKU_Any)%Z) (c_eku c)) eqn:E2.
    { rewrite IH. split; (intros [H|[u [H1 H2]]]; [left; exact H|right; exists u; split; [exact H1|]]).
      - intros c' [<-|H]; [unfold allows_b; rewrite E2, orb_true_r; reflexivity|apply H2; exact H].
      - intros c' H. apply H2. right. exact H. }
    assert (Hal : forall u, allows_b c u = usage_listed c u).
    { intro u. unfold allows_b. rewrite E1, E2. reflexivity. }
    pose proof (cross_out_spec c us 0) as Hc. cbn [Nat.add] in Hc. rewrite Hc. clear Hc.
    pose proof (alive_cross_map_le c us) as Hle.
    destruct (Nat.eqb (length (alive (cross_map c us))) 0
              && Nat.ltb (length (alive (cross_map c us))) (length (alive us))) eqn:E3.
    + apply andb_true_iff in E3. destruct E3 as [E3 E4]. apply Nat.eqb_eq in E3. apply Nat.ltb_lt in E4.
      split; [discriminate|]. intros [H|[u [H1 H2]]].
      * rewrite H in E4. cbn in E4. lia.
      * exfalso. assert (Hin : In u (alive (cross_map c us))).
        { apply alive_cross_map_In. split; [exact H1|]. rewrite <- Hal. apply H2. left. reflexivity. }
        destruct (alive (cross_map c us)); [destruct Hin|discriminate].
    + rewrite IH. split.
      * intros [H|[u [H1 H2]]].
        -- left. rewrite H in E3. cbn [length Nat.eqb andb] in E3. apply Nat.ltb_ge in E3.
           destruct (alive us); [reflexivity|cbn in E3; lia].
        -- apply alive_cross_map_In in H1. destruct H1 as [H1 H3]. right. exists u. split; [exact H1|].
           intros c' [<-|H]; [rewrite Hal; exact H3|apply H2; exact H].
      * intros [H|[u [H1 H2]]].
        -- left. rewrite H in Hle. destruct (alive (cross_map c us)); [reflexivity|cbn in Hle; lia].
        -- right. exists u. split.
           ++ apply alive_cross_map_In. split; [exact H1|]. rewrite <- Hal. apply H2. left. reflexivity.
           ++ intros c' H. apply H2. right. exact H.
Qed.

Lemma alive_id : forall us, ~ In invalidUsage us -> alive us = us.
Proof.
  induction us as [|a us IH]; intro H; [reflexivity|].
  unfold alive. cbn [filter]. destruct (a =? invalidUsage)%Z eqn:E.
  - apply Z.eqb_eq in E. exfalso. apply H. left. exact E.
  - cbn [negb]. f_equal. apply IH. intro Hi. apply H. right. exact Hi.
Qed.

Lemma checkChainForKeyUsage_iff : forall chain usages, ~ In invalidUsage usages ->
  (checkChainForKeyUsage_model chain usages = true <->
   chain <> [] /\ (usages = [] \/ exists u, In u usages /\ forall c, In c chain -> cert_allows c u)).
Proof.
  intros chain usages Hn. unfold checkChainForKeyUsage_model.
  destruct chain as [|c0 chain'].
  { cbn. split; [discriminate|]. intros [H _]. contradiction. }
  cbn [length Nat.eqb].
  rewrite <- (alive_id usages Hn) at 2. rewrite next_cert_spec. rewrite (alive_id usages Hn).
  split.
  - intro H. split; [discriminate|]. destruct H as [H|[u [H1 H2]]]; [left; exact H|].
    right. exists u. split; [exact H1|]. intros c Hc. apply allows_b_iff. apply H2. apply in_rev in Hc. exact Hc.
  - intros [_ [H|[u [H1 H2]]]]; [left; exact H|]. right. exists u. split; [exact H1|].
    intros c Hc. apply allows_b_iff. apply H2. apply in_rev. exact Hc.
Qed.

(* ---------- pools and signatures ------------------------------------------------------------------ *)
Section Chains.
  Variable sig_ok : cert -> cert -> bool.
  Variable parse_ip : list byte -> option (list byte).
  Variable rune_error : list byte -> bool.
  Variable roots inters : list cert.
  Variable opts : options.

  Notation CSF := (CheckSignatureFrom_model sig_ok).
  Notation FVP := (findVerifiedParents_model sig_ok).
  Notation isValid := (isValid_model opts).
  Notation BC := (buildChains_model sig_ok roots inters opts).
  Notation issuers_ok := (PathSpec.issuers_ok sig_ok opts).
  Notation issuer_ok := (PathSpec.issuer_ok sig_ok opts).

  Lemma fvp_loop_sound : forall c cands sc ps sc', fvp_loop sig_ok c cands sc = (ps, sc') ->
    forall p, In p ps -> In p cands /\ CSF c p = true.
  Proof.
    induction cands as [|q cands IH]; intros sc ps sc' H p Hp; cbn [fvp_loop] in H.
    - injection H as <- _. destruct Hp.
    - destruct (Nat.ltb maxChainSignatureChecks (S sc)).
      + injection H as <- _. destruct Hp.
      + destruct (fvp_loop sig_ok c cands (S sc)) as [ps0 sc0] eqn:E.
        injection H as <- _. destruct (CSF c q) eqn:Eq.
        * destruct Hp as [<-|Hp]; [split; [left; reflexivity|exact Eq]|].
          destruct (IH _ _ _ E p Hp) as [H1 H2]. split; [right; exact H1|exact H2].
        * destruct (IH _ _ _ E p Hp) as [H1 H2]. split; [right; exact H1|exact H2].
  Qed.

  Lemma fvp_loop_mono : forall c cands sc ps sc', fvp_loop sig_ok c cands sc = (ps, sc') -> sc <= sc'.
  Proof.
    induction cands as [|q cands IH]; intros sc ps sc' H; cbn [fvp_loop] in H.
    - injection H as _ <-. lia.
    - destruct (Nat.ltb maxChainSignatureChecks (S sc)).
      + injection H as _ <-. lia.
      + destruct (fvp_loop sig_ok c cands (S sc)) as [ps0 sc0] eqn:E.
        injection H as _ <-. apply IH in E. lia.
  Qed.

  Lemma fvp_loop_complete : forall c cands sc ps sc', fvp_loop sig_ok c cands sc = (ps, sc') ->
    sc' <= maxChainSignatureChecks ->
    forall p, In p cands -> CSF c p = true -> In p ps.
  Proof.
    induction cands as [|q cands IH]; intros sc ps sc' H Hb p Hp Hs; cbn [fvp_loop] in H.
    - destruct Hp.
    - destruct (Nat.ltb maxChainSignatureChecks (S sc)) eqn:El.
      + injection H as _ <-. apply Nat.ltb_lt in El. lia.
      + destruct (fvp_loop sig_ok c cands (S sc)) as [ps0 sc0] eqn:E.
        injection H as <- <-. destruct Hp as [<-|Hp].
        * rewrite Hs. left. reflexivity.
        * pose proof (IH _ _ _ E Hb p Hp Hs) as Hin. destruct (CSF c q); [right|]; exact Hin.
  Qed.

  Lemma candidates_sub : forall s c p, In p (candidates_model s c) -> In p s.
  Proof.
    intros s c p. unfold candidates_model.
    destruct (Nat.eqb (length _) 0).
    - intro H. apply filter_In in H. tauto.
    - destruct (negb (Nat.eqb (length (c_aki c)) 0)).
      + intro H. apply filter_In in H. tauto.
      + intros [].
  Qed.

  Lemma candidates_complete : forall s c p, In p s -> c_issuer c = c_subject p ->
    keyid_link_ok s c p -> In p (candidates_model s c).
  Proof.
    intros s c p Hin Hname Hk. unfold candidates_model.
    destruct (Nat.eqb (length (c_aki c)) 0) eqn:Ea; cbn [negb].
    - cbn. apply filter_In. split; [exact Hin|]. apply bytes_eqb_eq. symmetry. exact Hname.
    - assert (Hane : c_aki c <> []) by (intro E; rewrite E in Ea; discriminate).
      destruct Hk as [Hk|[Hk|Hk]]; [contradiction| |].
      + assert (Hp : In p (filter (fun p0 => negb (Nat.eqb (length (c_ski p0)) 0) && bytes_eqb (c_ski p0) (c_aki c)) s)).
        { apply filter_In. split; [exact Hin|]. rewrite Hk, Ea. cbn. apply bytes_eqb_refl. }
        destruct (filter _ s) as [|x l] eqn:Ef; [destruct Hp|]. cbn [length Nat.eqb]. exact Hp.
      + assert (Hnone : filter (fun p0 => negb (Nat.eqb (length (c_ski p0)) 0) && bytes_eqb (c_ski p0) (c_aki c)) s = []).
        { destruct (filter _ s) as [|x l] eqn:Ef; [reflexivity|]. exfalso.
          assert (Hx : In x (filter (fun p0 => negb (Nat.eqb (length (c_ski p0)) 0) && bytes_eqb (c_ski p0) (c_aki c)) s))
            by (rewrite Ef; left; reflexivity).
          apply filter_In in Hx. destruct Hx as [Hxs Hb]. apply andb_true_iff in Hb. destruct Hb as [_ Hb].
          apply bytes_eqb_eq in Hb. exact (Hk x Hxs Hb). }
        rewrite Hnone. cbn [length Nat.eqb]. apply filter_In. split; [exact Hin|]. apply bytes_eqb_eq. symmetry. exact Hname.
  Qed.

  Lemma fvp_sound : forall s c sc ps sc', FVP s c sc = (ps, sc') ->
    forall p, In p ps -> In p s /\ CSF c p = true.
  Proof.
    intros s c sc ps sc' H p Hp. unfold findVerifiedParents_model in H.
    destruct (fvp_loop_sound _ _ _ _ _ H p Hp) as [H1 H2]. split; [|exact H2].
    apply candidates_sub in H1. exact H1.
  Qed.

  Lemma csf_true : forall c p, CSF c p = true ->
    may_sign p /\ sig_ok c p = true /\ (c_v3 p = true -> c_entrust_spki c = false -> is_ca p).
  Proof.
    intros c p H. unfold CheckSignatureFrom_model in H.
    destruct (((c_v3 p && negb (c_bcvalid p)) || (c_bcvalid p && negb (c_isca p))) && negb (c_entrust_spki c)) eqn:E1;
      [discriminate|].
    destruct (negb (c_keyusage p =? 0)%N && (N.land (c_keyusage p) KeyUsageCertSign =? 0)%N) eqn:E2; [discriminate|].
    split; [|split; [exact H|]].
    - unfold may_sign. destruct (c_keyusage p =? 0)%N eqn:Ek.
      + left. apply N.eqb_eq. exact Ek.
      + right. cbn in E2. apply N.eqb_neq. exact E2.
    - intros Hv He. rewrite Hv, He in E1. unfold is_ca.
      destruct (c_bcvalid p), (c_isca p); cbn in E1; try discriminate; split; reflexivity.
  Qed.

  Lemma csf_complete : forall c p, sig_ok c p = true -> is_ca p -> may_sign p -> CSF c p = true.
  Proof.
    intros c p Hs [Hb Hi] Hm. unfold CheckSignatureFrom_model. rewrite Hb, Hi. cbn.
    rewrite andb_false_r. cbn.
    destruct Hm as [Hm|Hm].
    - rewrite Hm. cbn. exact Hs.
    - apply N.eqb_neq in Hm. rewrite Hm, andb_false_r. exact Hs.
  Qed.

  (* ---------- isValid ----------------------------------------------------------------------------- *)
  Definition raw_dns_ok := raw_dns_constraints_ok opts.

  Lemma permitted_iff : forall p,
    (negb (Nat.eqb (length (c_permitted p)) 0)
     && negb (existsb (fun k => matchNameConstraint_model (o_dnsname opts) k) (c_permitted p))) = false
    <-> raw_dns_ok p.
  Proof.
    intro p. unfold raw_dns_ok, raw_dns_constraints_ok.
    destruct (c_permitted p) as [|k0 ks] eqn:E.
    - cbn. split; [intros _ H; contradiction|reflexivity].
    - cbn [length Nat.eqb negb andb]. rewrite negb_false_iff, existsb_exists. split.
      + intros [k [H1 H2]] _. exists k. split; [exact H1|]. apply matchNameConstraint_iff. exact H2.
      + intro H. destruct (H ltac:(discriminate)) as [k [H1 H2]]. exists k. split; [exact H1|].
        apply matchNameConstraint_iff. exact H2.
  Qed.

  Lemma isValid_iff : forall t p cur,
    isValid t p cur = true <->
    ((cur <> [] -> c_issuer (last cur p) = c_subject p) /\
     in_validity opts p /\ raw_dns_ok p /\
     (t = intermediateCertificate -> is_ca p) /\
     pathlen_ok p (length cur - 1) /\
     (cur = [] -> True)).
  Proof.
    intros t p cur. unfold isValid_model.
    destruct (negb (Nat.eqb (length cur) 0) && negb (bytes_eqb (c_issuer (last cur p)) (c_subject p))) eqn:E1.
    { split; [discriminate|]. intros [H _]. exfalso.
      apply andb_true_iff in E1. destruct E1 as [Ea Eb].
      apply negb_true_iff in Ea. apply Nat.eqb_neq in Ea. apply negb_true_iff in Eb. apply bytes_eqb_neq in Eb.
      apply Eb. apply H. intro Hc. subst cur. apply Ea. reflexivity. }
    assert (Hname : cur <> [] -> c_issuer (last cur p) = c_subject p).
    { intro Hc. apply andb_false_iff in E1. destruct E1 as [Ea|Eb].
      - apply negb_false_iff in Ea. apply Nat.eqb_eq in Ea. destruct cur; [contradiction|discriminate].
      - apply negb_false_iff in Eb. apply bytes_eqb_eq. exact Eb. }
    destruct ((o_now opts <? c_notbefore p)%Z || (c_notafter p <? o_now opts)%Z) eqn:E2.
    { split; [discriminate|]. intros [_ [[Ha Hb] _]]. exfalso.
      apply orb_true_iff in E2. destruct E2 as [E2|E2]; apply Z.ltb_lt in E2; lia. }
    assert (Hval : in_validity opts p).
    { apply orb_false_iff in E2. destruct E2 as [Ea Eb]. apply Z.ltb_ge in Ea. apply Z.ltb_ge in Eb.
      split; assumption. }
    destruct (negb (Nat.eqb (length (c_permitted p)) 0)
              && negb (existsb (fun k => matchNameConstraint_model (o_dnsname opts) k) (c_permitted p))) eqn:E3.
    { split; [discriminate|]. intros [_ [_ [H _]]]. apply permitted_iff in H. congruence. }
    apply permitted_iff in E3.
    destruct (Nat.eqb t intermediateCertificate && (negb (c_bcvalid p) || negb (c_isca p))) eqn:E4.
    { split; [discriminate|]. intros [_ [_ [_ [H _]]]]. exfalso.
      apply andb_true_iff in E4. destruct E4 as [Ea Eb]. apply Nat.eqb_eq in Ea.
      destruct (H Ea) as [Hb Hi]. rewrite Hb, Hi in Eb. discriminate. }
    assert (Hca : t = intermediateCertificate -> is_ca p).
    { intro Ht. subst t. cbn in E4. unfold is_ca. destruct (c_bcvalid p), (c_isca p); try discriminate; split; reflexivity. }
    assert (Hlen : (Z.of_nat (length cur) - 1 <= Z.of_nat (length cur - 1))%Z) by lia.
    destruct (c_bcvalid p && (0 <=? c_maxpathlen p)%Z && (c_maxpathlen p <? Z.of_nat (length cur) - 1)%Z) eqn:E5.
    { split; [discriminate|]. intros [_ [_ [_ [_ [H _]]]]]. exfalso.
      apply andb_true_iff in E5. destruct E5 as [E5 Ec]. apply andb_true_iff in E5. destruct E5 as [Ea Eb].
      apply Z.leb_le in Eb. apply Z.ltb_lt in Ec. specialize (H Ea Eb). lia. }
    split; [|reflexivity]. intros _.
    split; [exact Hname|]. split; [exact Hval|]. split; [exact E3|]. split; [exact Hca|].
    split; [|intros _; exact I].
    unfold pathlen_ok. intros Hb Hm. rewrite Hb in E5. apply Z.leb_le in Hm. rewrite Hm in E5. cbn in E5.
    apply Z.ltb_ge in E5. apply Z.leb_le in Hm. lia.
  Qed.

  (* ---------- what buildChains returns -------------------------------------------------------------- *)
  Definition ids (l : list cert) : list nat := map c_id l.

  Lemma in_chain_false : forall x cur, in_chain x cur = false <-> ~ In (c_id x) (ids cur).
  Proof.
    intros x cur. unfold in_chain, ids, cert_eqb. induction cur as [|y cur IH]; cbn.
    - split; [intros _ []|reflexivity].
    - rewrite orb_false_iff, IH, Nat.eqb_neq. split.
      + intros [H1 H2] [H|H]; [apply H1; exact H|exact (H2 H)].
      + intro H. split; [intro E; apply H; left; exact E|intro E; apply H; right; exact E].
  Qed.

  Lemma in_chain_app : forall x cur y, in_chain x (cur ++ [y]) = in_chain x cur || cert_eqb y x.
  Proof.
    intros x cur y. unfold in_chain. rewrite existsb_app. cbn. rewrite orb_false_r. reflexivity.
  Qed.

  (* [ups] is an acceptable continuation of the chain [cur] whose last element is [c] *)
  Definition ext_good (c : cert) (cur ups : list cert) : Prop :=
    ups <> [] /\
    issuers_ok c (length cur - 1) ups /\
    (forall x, In x ups -> in_chain x cur = false) /\
    NoDup (ids ups) /\
    (exists mids root, ups = mids ++ [root] /\ In root roots /\ forall m, In m mids -> In m inters) /\
    (forall x, In x ups -> raw_dns_ok x).

  Hypothesis roots_v3 : forall r, In r roots -> c_v3 r = true.
  Hypothesis inters_plain : forall i, In i inters -> c_entrust_spki i = false.

  Lemma raw_dns_weaken : forall p, raw_dns_ok p -> dns_constraints_ok opts p.
  Proof. intros p H _ Hp. exact (H Hp). Qed.

  Lemma last_snoc : forall (cur : list cert) x d, last (cur ++ [x]) d = x.
  Proof. intros cur x d. apply last_last. Qed.

  Lemma mk_issuer_ok : forall c n p,
    sig_ok c p = true -> c_issuer c = c_subject p -> is_ca p -> may_sign p -> in_validity opts p ->
    pathlen_ok p n -> dns_constraints_ok opts p -> issuer_ok c n p.
  Proof. intros. unfold PathSpec.issuer_ok. tauto. Qed.

  Lemma last_indep : forall (cur : list cert) d d', cur <> [] -> last cur d = last cur d'.
  Proof.
    induction cur as [|a [|b l] IH]; intros d d' H; [contradiction|reflexivity|].
    change (last (a :: b :: l) d) with (last (b :: l) d). change (last (a :: b :: l) d') with (last (b :: l) d').
    apply IH. discriminate.
  Qed.

  Lemma nextRoot_sound : forall c cur pr ch,
    cur <> [] -> last cur c = c -> c_entrust_spki c = false ->
    (forall p, In p pr -> In p roots /\ CSF c p = true) ->
    In ch (nextRoot_loop opts cur pr) -> exists ups, ch = cur ++ ups /\ ext_good c cur ups.
  Proof.
    intros c cur pr ch Hne Hlast Hent Hpr Hin. unfold nextRoot_loop in Hin.
    apply in_flat_map in Hin. destruct Hin as [r [Hr Hch]].
    destruct (in_chain r cur) eqn:Ei; [destruct Hch|].
    destruct (isValid rootCertificate r cur) eqn:Ev; [|destruct Hch].
    destruct Hch as [<-|[]]. exists [r]. split; [reflexivity|].
    destruct (Hpr r Hr) as [Hroot Hcsf].
    apply isValid_iff in Ev. destruct Ev as [Hname [Hval [Hdns [_ [Hpl _]]]]].
    destruct (csf_true _ _ Hcsf) as [Hms [Hsig Hca]].
    unfold ext_good. split; [discriminate|]. split.
    { cbn. split; [|exact I].
      apply mk_issuer_ok; [exact Hsig| | |exact Hms|exact Hval|exact Hpl|].
      - rewrite <- Hlast. rewrite (last_indep cur c r Hne). apply Hname. exact Hne.
      - apply Hca; [apply roots_v3; exact Hroot|exact Hent].
      - apply raw_dns_weaken. exact Hdns. }
    split. { intros x [<-|[]]. exact Ei. }
    split. { cbn. constructor; [intros []|constructor]. }
    split. { exists [], r. split; [reflexivity|]. split; [exact Hroot|intros ? []]. }
    intros x [<-|[]]. exact Hdns.
  Qed.

  (* prepending a valid intermediate step to a good continuation *)
  Lemma ext_good_step : forall c cur i ups,
    cur <> [] -> last cur c = c ->
    In i inters -> CSF c i = true -> in_chain i cur = false -> isValid intermediateCertificate i cur = true ->
    ext_good i (cur ++ [i]) ups -> ext_good c cur (i :: ups).
  Proof.
    intros c cur i ups Hne Hlast Hi Hcsf Hic Hv [Hu [Hiss [Hnin [Hnd [[mids [root [Hm [Hr Hmi]]]] Hdns]]]]].
    apply isValid_iff in Hv. destruct Hv as [Hname [Hval [Hd [Hca [Hpl _]]]]].
    destruct (csf_true _ _ Hcsf) as [Hms [Hsig _]].
    unfold ext_good. split; [discriminate|]. split.
    { cbn [PathSpec.issuers_ok]. split.
      - apply mk_issuer_ok; [exact Hsig| | |exact Hms|exact Hval|exact Hpl|].
        + rewrite <- Hlast. rewrite (last_indep cur c i Hne). apply Hname. exact Hne.
        + apply (Hca eq_refl).
        + apply raw_dns_weaken. exact Hd.
      - rewrite app_length in Hiss. cbn [length] in Hiss.
        replace (length cur + 1 - 1) with (S (length cur - 1)) in Hiss by (destruct cur; [contradiction|cbn; lia]).
        exact Hiss. }
    split.
    { intros x [<-|Hx]; [exact Hic|]. specialize (Hnin x Hx). rewrite in_chain_app in Hnin.
      apply orb_false_iff in Hnin. tauto. }
    split.
    { cbn. constructor; [|exact Hnd]. intro Hin. unfold ids in Hin. apply in_map_iff in Hin.
      destruct Hin as [x [Hx1 Hx2]]. specialize (Hnin x Hx2). rewrite in_chain_app in Hnin.
      apply orb_false_iff in Hnin. destruct Hnin as [_ Hn]. unfold cert_eqb in Hn. apply Nat.eqb_neq in Hn.
      apply Hn. symmetry. exact Hx1. }
    split.
    { exists (i :: mids), root. split; [rewrite Hm; reflexivity|]. split; [exact Hr|].
      intros m [<-|Hmm]; [exact Hi|apply Hmi; exact Hmm]. }
    intros x [<-|Hx]; [exact Hd|apply Hdns; exact Hx].
  Qed.

  Lemma buildChains_sound : forall fuel c cur sc chains sc',
    BC fuel c cur sc = Ok (chains, sc') ->
    cur <> [] -> last cur c = c -> c_entrust_spki c = false ->
    forall ch, In ch chains -> exists ups, ch = cur ++ ups /\ ext_good c cur ups.
  Proof.
    induction fuel as [|fuel IH]; intros c cur sc chains sc' H Hne Hlast Hent ch Hch; [discriminate|].
    cbn [buildChains_model] in H.
    destruct (FVP roots c sc) as [pr sc1] eqn:Er.
    destruct (FVP inters c sc1) as [pi sc2] eqn:Ei.
    pose proof (fvp_sound _ _ _ _ _ Er) as Hpr.
    pose proof (fvp_sound _ _ _ _ _ Ei) as Hpi.
    assert (Hacc : forall ch, In ch (nextRoot_loop opts cur pr) -> exists ups, ch = cur ++ ups /\ ext_good c cur ups).
    { intros ch0 H0. eapply nextRoot_sound; eauto. }
    clear Er Ei. revert H Hacc Hch. generalize (nextRoot_loop opts cur pr) as acc. generalize sc2 as s.
    induction pi as [|i pi IHl]; intros s acc H Hacc Hch.
    - cbn in H. injection H as <- _. apply Hacc. exact Hch.
    - cbn [nextIntermediate_loop] in H.
      destruct (in_chain i cur) eqn:Eic.
      { apply (IHl (fun p Hp => Hpi p (or_intror Hp)) s acc H Hacc Hch). }
      destruct (isValid intermediateCertificate i cur) eqn:Ev; cbn [negb] in H.
      2:{ apply (IHl (fun p Hp => Hpi p (or_intror Hp)) s acc H Hacc Hch). }
      destruct (BC fuel i (cur ++ [i]) s) as [[child s']| | |] eqn:Eb; try discriminate.
      destruct (Hpi i (or_introl eq_refl)) as [Hin Hcsf].
      apply (IHl (fun p Hp => Hpi p (or_intror Hp)) s' (acc ++ child) H); [|exact Hch].
      intros ch0 H0. apply in_app_or in H0. destruct H0 as [H0|H0]; [apply Hacc; exact H0|].
      assert (Hne' : cur ++ [i] <> []) by (destruct cur; discriminate).
      destruct (IH i (cur ++ [i]) s child s' Eb Hne' (last_snoc cur i i) (inters_plain i Hin) ch0 H0) as [ups [-> Hg]].
      exists (i :: ups). split; [rewrite <- app_assoc; reflexivity|].
      apply ext_good_step; assumption.
  Qed.

  (* ---------- completeness ---------------------------------------------------------------------------- *)
  Lemma nextIntermediate_mono : forall rec cur,
    (forall i c s r s', rec i c s = Ok (r, s') -> s <= s') ->
    forall l acc s res s', nextIntermediate_loop opts rec cur l acc s = Ok (res, s') ->
    s <= s' /\ forall ch, In ch acc -> In ch res.
  Proof.
    intros rec cur Hrec. induction l as [|i l IHl]; intros acc s res s' H.
    - cbn in H. injection H as <- <-. split; [lia|auto].
    - cbn [nextIntermediate_loop] in H.
      destruct (in_chain i cur); [apply (IHl _ _ _ _ H)|].
      destruct (negb (isValid intermediateCertificate i cur)); [apply (IHl _ _ _ _ H)|].
      destruct (rec i (cur ++ [i]) s) as [[child s1]| | |] eqn:Eb; try discriminate.
      apply Hrec in Eb. destruct (IHl _ _ _ _ H) as [H1 H2]. split; [lia|].
      intros ch Hc. apply H2. apply in_or_app. left. exact Hc.
  Qed.

  Lemma buildChains_mono : forall fuel c cur sc chains sc', BC fuel c cur sc = Ok (chains, sc') -> sc <= sc'.
  Proof.
    induction fuel as [|fuel IH]; intros c cur sc chains sc' H; [discriminate|].
    cbn [buildChains_model] in H.
    destruct (FVP roots c sc) as [pr sc1] eqn:Er.
    destruct (FVP inters c sc1) as [pi sc2] eqn:Ei.
    unfold findVerifiedParents_model in Er, Ei. apply fvp_loop_mono in Er. apply fvp_loop_mono in Ei.
    apply (nextIntermediate_mono (BC fuel) cur) in H; [lia|].
    intros i c0 s r s' Hr. apply IH in Hr. exact Hr.
  Qed.

  Definition ext_valid (c : cert) (cur ups : list cert) : Prop :=
    ups <> [] /\
    issuers_ok c (length cur - 1) ups /\
    keyids_wf roots inters c ups /\
    (forall x, In x ups -> in_chain x cur = false) /\
    NoDup (ids ups) /\
    (exists mids root, ups = mids ++ [root] /\ In root roots /\ forall m, In m mids -> In m inters) /\
    (forall x, In x ups -> raw_dns_ok x).

  Lemma issuer_isValid : forall t c cur p,
    cur <> [] -> last cur c = c ->
    issuer_ok c (length cur - 1) p -> raw_dns_ok p -> isValid t p cur = true.
  Proof.
    intros t c cur p Hne Hlast [Hsig [Hname [Hca [Hms [Hval [Hpl Hd]]]]]] Hraw.
    apply isValid_iff.
    split. { intros _. rewrite (last_indep cur p c Hne), Hlast. exact Hname. }
    split; [exact Hval|]. split; [exact Hraw|]. split; [intros _; exact Hca|]. split; [exact Hpl|intros _; exact I].
  Qed.

  Lemma nextIntermediate_complete : forall rec cur,
    (forall i c s r s', rec i c s = Ok (r, s') -> s <= s') ->
    forall l acc s res s', nextIntermediate_loop opts rec cur l acc s = Ok (res, s') ->
    forall i, In i l -> in_chain i cur = false -> isValid intermediateCertificate i cur = true ->
    exists si child si', rec i (cur ++ [i]) si = Ok (child, si') /\ si' <= s' /\ forall ch, In ch child -> In ch res.
  Proof.
    intros rec cur Hrec. induction l as [|j l IHl]; intros acc s res s' H i Hi Hic Hv; [destruct Hi|].
    cbn [nextIntermediate_loop] in H.
    destruct Hi as [<-|Hi].
    - rewrite Hic, Hv in H. cbn [negb] in H.
      destruct (rec j (cur ++ [j]) s) as [[child s1]| | |] eqn:Eb; try discriminate.
      exists s, child, s1. split; [exact Eb|].
      destruct (nextIntermediate_mono rec cur Hrec _ _ _ _ _ H) as [H1 H2]. split; [exact H1|].
      intros ch Hc. apply H2. apply in_or_app. right. exact Hc.
    - destruct (in_chain j cur); [apply (IHl _ _ _ _ H i Hi Hic Hv)|].
      destruct (negb (isValid intermediateCertificate j cur)); [apply (IHl _ _ _ _ H i Hi Hic Hv)|].
      destruct (rec j (cur ++ [j]) s) as [[child s1]| | |] eqn:Eb; try discriminate.
      apply (IHl _ _ _ _ H i Hi Hic Hv).
  Qed.

  Lemma buildChains_complete : forall fuel c cur sc chains sc',
    BC fuel c cur sc = Ok (chains, sc') -> sc' <= maxChainSignatureChecks ->
    cur <> [] -> last cur c = c ->
    forall ups, ext_valid c cur ups -> In (cur ++ ups) chains.
  Proof.
    induction fuel as [|fuel IH]; intros c cur sc chains sc' H Hb Hne Hlast ups Hv; [discriminate|].
    cbn [buildChains_model] in H.
    destruct (FVP roots c sc) as [pr sc1] eqn:Er.
    destruct (FVP inters c sc1) as [pi sc2] eqn:Ei.
    assert (Hmono : forall i c0 s r s', BC fuel i c0 s = Ok (r, s') -> s <= s').
    { intros i c0 s r s' Hr. apply buildChains_mono in Hr. exact Hr. }
    destruct (nextIntermediate_mono (BC fuel) cur Hmono _ _ _ _ _ H) as [Hs2 Hacc].
    unfold findVerifiedParents_model in Er, Ei.
    pose proof (fvp_loop_mono _ _ _ _ _ Ei) as Hs1.
    destruct Hv as [Hu [Hiss [Hk [Hnin [Hnd [[mids [root [Hm [Hr Hmi]]]] Hdns]]]]]].
    destruct ups as [|p ups']; [contradiction|].
    cbn [PathSpec.issuers_ok keyids_wf] in Hiss, Hk. destruct Hiss as [Hip Hiss']. destruct Hk as [Hkp Hk'].
    pose proof Hip as [Hsig [Hname [Hca [Hms [Hval [Hpl Hd]]]]]].
    assert (Hcsf : CSF c p = true) by (apply csf_complete; assumption).
    assert (Hpic : in_chain p cur = false) by (apply Hnin; left; reflexivity).
    assert (Hpraw : raw_dns_ok p) by (apply Hdns; left; reflexivity).
    destruct ups' as [|q ups''].
    - (* p is the root *)
      assert (p = root /\ mids = []) as [-> ->].
      { destruct mids as [|m0 ms]; cbn in Hm.
        - injection Hm as ->. split; reflexivity.
        - injection Hm as _ Hm. destruct ms; discriminate. }
      apply Hacc. unfold nextRoot_loop. apply in_flat_map. exists root. split.
      + apply (fvp_loop_complete _ _ _ _ _ Er); [lia| |exact Hcsf].
        apply candidates_complete; assumption.
      + rewrite Hpic. rewrite (issuer_isValid rootCertificate c cur root Hne Hlast Hip Hpraw). left. reflexivity.
    - (* p is an intermediate *)
      assert (Hpi : In p inters).
      { destruct mids as [|m0 ms]; [cbn in Hm; injection Hm as _ Hm; discriminate|].
        cbn in Hm. injection Hm as -> _. apply Hmi. left. reflexivity. }
      assert (Hin : In p pi).
      { apply (fvp_loop_complete _ _ _ _ _ Ei); [lia| |exact Hcsf]. apply candidates_complete; assumption. }
      pose proof (issuer_isValid intermediateCertificate c cur p Hne Hlast Hip Hpraw) as Hvp.
      destruct (nextIntermediate_complete (BC fuel) cur Hmono _ _ _ _ _ H p Hin Hpic Hvp) as [si [child [si' [Hb1 [Hb2 Hb3]]]]].
      apply Hb3. replace (cur ++ p :: q :: ups'') with ((cur ++ [p]) ++ q :: ups'') by (rewrite <- app_assoc; reflexivity).
      assert (Hne' : cur ++ [p] <> []) by (destruct cur; discriminate).
      apply (IH p (cur ++ [p]) si child si' Hb1 ltac:(lia) Hne' (last_snoc cur p p)).
      unfold ext_valid. split; [discriminate|]. split.
      { rewrite app_length. cbn [length].
        replace (length cur + 1 - 1) with (S (length cur - 1)) by (destruct cur; [contradiction|cbn; lia]).
        exact Hiss'. }
      split; [exact Hk'|]. split.
      { intros x Hx. rewrite in_chain_app. apply orb_false_iff. split; [apply Hnin; right; exact Hx|].
        unfold cert_eqb. apply Nat.eqb_neq. cbn in Hnd. inversion Hnd as [|? ? Hn1 Hn2]; subst.
        intro E. apply Hn1. unfold ids. rewrite E. apply (in_map c_id) in Hx. exact Hx. }
      split. { cbn in Hnd. inversion Hnd; assumption. }
      split.
      { destruct mids as [|m0 ms]; [cbn in Hm; injection Hm as _ Hm; discriminate|].
        cbn in Hm. injection Hm as _ Hm. exists ms, root. split; [exact Hm|]. split; [exact Hr|].
        intros m Hmm. apply Hmi. right. exact Hmm. }
      intros x Hx. apply Hdns. right. exact Hx.
  Qed.

  (* ---------- termination ------------------------------------------------------------------------------- *)
  Definition room (cur : list cert) : nat := length (filter (fun i => negb (in_chain i cur)) inters).

  Lemma filter_length_lt : forall (f g : cert -> bool) (l : list cert) a,
    (forall x, g x = true -> f x = true) -> In a l -> f a = true -> g a = false ->
    length (filter g l) < length (filter f l).
  Proof.
    intros f g l a Himp. induction l as [|x l IH]; intros Hin Hf Hg; [destruct Hin|].
    assert (Hle : length (filter g l) <= length (filter f l)).
    { clear IH Hin. induction l as [|y l IHl]; cbn; [lia|].
      destruct (g y) eqn:Egy; [rewrite (Himp y Egy); cbn; lia|destruct (f y); cbn; lia]. }
    cbn [filter]. destruct Hin as [->|Hin].
    - rewrite Hf, Hg. cbn. lia.
    - specialize (IH Hin Hf Hg). destruct (g x) eqn:Egx; [rewrite (Himp x Egx); cbn; lia|destruct (f x); cbn; lia].
  Qed.

  Lemma room_step : forall cur i, In i inters -> in_chain i cur = false -> room (cur ++ [i]) < room cur.
  Proof.
    intros cur i Hi Hic. unfold room. apply (filter_length_lt _ _ inters i).
    - intros x Hx. rewrite in_chain_app in Hx. apply negb_true_iff in Hx. apply orb_false_iff in Hx.
      apply negb_true_iff. tauto.
    - exact Hi.
    - rewrite Hic. reflexivity.
    - rewrite in_chain_app. unfold cert_eqb at 1. rewrite Nat.eqb_refl, orb_true_r. reflexivity.
  Qed.

  Lemma buildChains_total : forall fuel c cur sc, room cur < fuel -> exists r, BC fuel c cur sc = Ok r.
  Proof.
    induction fuel as [|fuel IH]; intros c cur sc Hr; [lia|].
    cbn [buildChains_model].
    destruct (FVP roots c sc) as [pr sc1] eqn:Er.
    destruct (FVP inters c sc1) as [pi sc2] eqn:Ei.
    pose proof (fvp_sound _ _ _ _ _ Ei) as Hpi. clear Er Ei.
    generalize (nextRoot_loop opts cur pr) as acc. generalize sc2 as s.
    induction pi as [|i pi IHl]; intros s acc.
    - cbn. eexists. reflexivity.
    - cbn [nextIntermediate_loop].
      destruct (in_chain i cur) eqn:Eic; [apply IHl; intros p Hp; apply Hpi; right; exact Hp|].
      destruct (negb (isValid intermediateCertificate i cur)); [apply IHl; intros p Hp; apply Hpi; right; exact Hp|].
      destruct (Hpi i (or_introl eq_refl)) as [Hin _].
      pose proof (room_step cur i Hin Eic) as Hlt.
      destruct (IH i (cur ++ [i]) s ltac:(lia)) as [[child s1] Hb]. rewrite Hb.
      apply IHl. intros p Hp. apply Hpi. right. exact Hp.
  Qed.

  Lemma room_le : forall cur, room cur <= length inters.
  Proof.
    intro cur. unfold room. generalize inters as l. intro l.
    induction l as [|x l IH]; cbn [filter length]; [lia|].
    destruct (negb (in_chain x cur)); cbn [length]; lia.
  Qed.
End Chains.

(* ---------- Verify --------------------------------------------------------------------------------- *)
Section Top.
  Variable sig_ok : cert -> cert -> bool.
  Variable parse_ip : list byte -> option (list byte).
  Variable rune_error : list byte -> bool.
  Variable roots inters : list cert.
  Variable opts : options.

  Notation VERIFY := (Verify_model sig_ok parse_ip rune_error roots inters opts).
  Notation BC := (buildChains_model sig_ok roots inters opts).
  Notation VALID := (valid_chain sig_ok parse_ip roots inters opts).

  Definition keyUsages_of : list Z := match o_keyusages opts with [] => [EKU_ServerAuth] | l => l end.

  Lemma keyUsages_requested : keyUsages_of = requested_usages opts.
  Proof. reflexivity. Qed.

  Lemma keyUsages_valid : ~ In invalidUsage (o_keyusages opts) -> ~ In invalidUsage keyUsages_of.
  Proof.
    intro H. unfold keyUsages_of. destruct (o_keyusages opts); [|exact H].
    intros [E|[]]. discriminate E.
  Qed.

  (* what the candidate chains satisfy before the usage filter *)
  Definition candidate_ok (leaf : cert) (ch : list cert) : Prop :=
    exists ups, ch = leaf :: ups /\
      PathSpec.issuers_ok sig_ok opts leaf 0 ups /\
      NoDup (map c_id ch) /\
      from_pools roots inters leaf ups /\
      (forall c, In c ch -> raw_dns_constraints_ok opts c).

  Lemma ext_good_candidate : forall leaf ups,
    raw_dns_constraints_ok opts leaf ->
    ext_good sig_ok roots inters opts leaf [leaf] ups -> candidate_ok leaf ([leaf] ++ ups).
  Proof.
    intros leaf ups Hl [Hu [Hiss [Hnin [Hnd [[mids [root [Hm [Hr Hmi]]]] Hdns]]]]].
    exists ups. split; [reflexivity|]. split; [exact Hiss|]. split.
    { cbn. constructor; [|exact Hnd]. intro Hin. apply in_map_iff in Hin. destruct Hin as [x [Hx1 Hx2]].
      specialize (Hnin x Hx2). apply in_chain_false in Hnin. apply Hnin. cbn. left. symmetry. exact Hx1. }
    split.
    { unfold from_pools. rewrite Hm, rev_unit. split; [exact Hr|]. intros m Hmm. apply Hmi. apply in_rev. exact Hmm. }
    intros c [<-|Hc]; [exact Hl|apply Hdns; exact Hc].
  Qed.

  Lemma host_requested_iff : negb (Nat.eqb (length (o_dnsname opts)) 0) = true <-> host_requested opts.
  Proof.
    unfold host_requested. destruct (o_dnsname opts); cbn; split; intro H; try discriminate; try reflexivity.
    contradiction.
  Qed.

  Lemma contains_In : forall leaf,
    (forall r, In r roots -> c_id r = c_id leaf -> r = leaf) ->
    contains_model roots leaf = true -> In leaf roots.
  Proof.
    intros leaf Hid H. unfold contains_model in H. apply existsb_exists in H. destruct H as [r [Hr H]].
    apply andb_true_iff in H. destruct H as [_ H]. unfold cert_eqb in H. apply Nat.eqb_eq in H.
    rewrite <- (Hid r Hr H). exact Hr.
  Qed.

  Lemma In_contains : forall leaf, In leaf roots -> contains_model roots leaf = true.
  Proof.
    intros leaf H. unfold contains_model. apply existsb_exists. exists leaf. split; [exact H|].
    rewrite bytes_eqb_refl. unfold cert_eqb. rewrite Nat.eqb_refl. reflexivity.
  Qed.

  Lemma verify_sound_lemma : forall fuel leaf chains,
    (forall r, In r roots -> c_v3 r = true) ->
    (forall i, In i inters -> c_entrust_spki i = false) ->
    c_entrust_spki leaf = false ->
    (forall r, In r roots -> c_id r = c_id leaf -> r = leaf) ->
    ~ In invalidUsage (o_keyusages opts) ->
    VERIFY fuel leaf = Ok chains ->
    chains <> [] /\
    forall ch, In ch chains -> VALID leaf ch /\ strict_extras opts ch.
  Proof.
    intros fuel leaf chains Hv3 Hpl Hent Hid Hku H. unfold Verify_model in H.
    destruct (c_unhandled_critical leaf) eqn:Ecrit; [discriminate|].
    destruct (isValid_model opts leafCertificate leaf []) eqn:Eval; [|discriminate]. cbn [negb] in H.
    apply isValid_iff in Eval. destruct Eval as [_ [Hval [Hdns _]]].
    destruct (negb (Nat.eqb (length (o_dnsname opts)) 0) && negb (VerifyHostname_model parse_ip rune_error leaf (o_dnsname opts))) eqn:Ehost;
      [discriminate|].
    assert (Hhost : host_requested opts -> host_matches parse_ip leaf (o_dnsname opts)).
    { intro Hr. apply host_requested_iff in Hr. rewrite Hr in Ehost. cbn in Ehost. apply negb_false_iff in Ehost.
      apply VerifyHostname_iff in Ehost. exact Ehost. }
    (* the candidate chains *)
    assert (Hcand : exists cands, cands <> [] /\ (forall ch, In ch cands -> candidate_ok leaf ch) /\
              (if existsb (fun usage => (usage =? EKU_Any)%Z) keyUsages_of then Ok cands
               else match filter (fun candidate => checkChainForKeyUsage_model candidate keyUsages_of) cands with
                    | [] => Err 5 | chains => Ok chains end) = Ok chains).
    { destruct (contains_model roots leaf) eqn:Ec.
      - exists [[leaf]]. split; [discriminate|]. split; [|exact H].
        intros ch [<-|[]]. exists []. split; [reflexivity|]. split; [exact I|]. split.
        { cbn. constructor; [intros []|constructor]. }
        split. { unfold from_pools. cbn. apply contains_In; assumption. }
        intros c [<-|[]]. exact Hdns.
      - cbn [obind] in H.
        destruct (BC fuel leaf [leaf] 0) as [[cands sc]| | |] eqn:Eb; try discriminate.
        cbn [obind] in H. destruct cands as [|c0 cands']; [discriminate|].
        exists (c0 :: cands'). split; [discriminate|]. split; [|exact H].
        intros ch Hch.
        destruct (buildChains_sound sig_ok roots inters opts Hv3 Hpl fuel leaf [leaf] 0 _ _ Eb
                    ltac:(discriminate) eq_refl Hent ch Hch) as [ups [-> Hg]].
        apply ext_good_candidate; assumption. }
    destruct Hcand as [cands [Hne [Hc Hres]]].
    pose proof (keyUsages_valid Hku) as Hkv.
    assert (Hfin : forall ch, candidate_ok leaf ch -> eku_ok opts ch -> VALID leaf ch /\ strict_extras opts ch).
    { intros ch [ups [-> [Hiss [Hnd [Hfp Hraw]]]]] Heku. split.
      - exists ups. split; [reflexivity|]. split; [|split; [exact Hiss|split; [exact Hnd|exact Hfp]]].
        split; [exact Ecrit|]. split; [exact Hval|]. split; [exact Hhost|].
        destruct Heku as [Ha|[u [Hu Hall]]]; [left; exact Ha|]. right. exists u. split; [exact Hu|].
        intros c [<-|[]]. apply Hall. left. reflexivity.
      - split; [exact Heku|exact Hraw]. }
    destruct (existsb (fun usage => (usage =? EKU_Any)%Z) keyUsages_of) eqn:Eany.
    - injection Hres as <-. split; [exact Hne|]. intros ch Hch. apply Hfin; [apply Hc; exact Hch|].
      left. rewrite <- keyUsages_requested. apply existsb_Zeqb_In. exact Eany.
    - destruct (filter _ cands) as [|f0 fs] eqn:Ef; [discriminate|]. injection Hres as <-.
      split; [discriminate|]. intros ch Hch. rewrite <- Ef in Hch. apply filter_In in Hch. destruct Hch as [Hin Hk].
      apply Hfin; [apply Hc; exact Hin|].
      apply (checkChainForKeyUsage_iff ch keyUsages_of Hkv) in Hk. destruct Hk as [_ [Hk|[u [Hu Hall]]]].
      + unfold keyUsages_of in Hk. destruct (o_keyusages opts); discriminate.
      + right. exists u. rewrite <- keyUsages_requested. split; [exact Hu|exact Hall].
  Qed.

  Lemma verify_complete_lemma : forall fuel leaf ch,
    VALID leaf ch -> strict_extras opts ch ->
    (forall ups, ch = leaf :: ups -> keyids_wf roots inters leaf ups) ->
    ~ In invalidUsage (o_keyusages opts) ->
    length inters < fuel ->
    sigchecks_used sig_ok roots inters opts fuel leaf <= maxChainSignatureChecks ->
    exists chains, VERIFY fuel leaf = Ok chains /\ chains <> [].
  Proof.
    intros fuel leaf ch [ups [-> [[Hcrit [Hval [Hhost Heku1]]] [Hiss [Hnd Hfp]]]]] [Heku Hraw] Hkeys Hku Hfuel Hsc.
    pose proof (keyUsages_valid Hku) as Hkv.
    unfold Verify_model. rewrite Hcrit.
    assert (Hlv : isValid_model opts leafCertificate leaf [] = true).
    { apply isValid_iff. split; [intro H; contradiction|]. split; [exact Hval|].
      split; [apply Hraw; left; reflexivity|]. split; [discriminate|]. split; [|intros _; exact I].
      cbn. intros _ H. exact H. }
    rewrite Hlv. cbn [negb].
    assert (Hh : negb (Nat.eqb (length (o_dnsname opts)) 0) && negb (VerifyHostname_model parse_ip rune_error leaf (o_dnsname opts)) = false).
    { destruct (negb (Nat.eqb (length (o_dnsname opts)) 0)) eqn:E; [|reflexivity]. cbn.
      apply negb_false_iff. apply VerifyHostname_iff. apply Hhost. apply host_requested_iff. exact E. }
    rewrite Hh.
    (* the candidate chains contain a chain that passes the usage filter *)
    assert (Hcand : exists cands good, In good cands /\ good <> [] /\ eku_ok opts good /\
              (if contains_model roots leaf then Ok [[leaf]]
               else do '(chains, _) <- BC fuel leaf [leaf] 0;
                    match chains with [] => Err 4 | _ => Ok chains end) = Ok cands).
    { destruct (contains_model roots leaf) eqn:Ec.
      - exists [[leaf]], [leaf]. split; [left; reflexivity|]. split; [discriminate|]. split; [exact Heku1|reflexivity].
      - destruct ups as [|p ups'].
        { unfold from_pools in Hfp. cbn in Hfp. apply In_contains in Hfp. congruence. }
        destruct (buildChains_total sig_ok roots inters opts fuel leaf [leaf] 0) as [[cands sc] Hb].
        { pose proof (room_le inters [leaf]). lia. }
        unfold sigchecks_used in Hsc. rewrite Hb in Hsc.
        assert (Hin : In ([leaf] ++ p :: ups') cands).
        { apply (buildChains_complete sig_ok roots inters opts fuel leaf [leaf] 0 cands sc Hb Hsc ltac:(discriminate) eq_refl).
          unfold ext_valid. split; [discriminate|]. split; [exact Hiss|]. split; [apply Hkeys; reflexivity|].
          cbn in Hnd. inversion Hnd as [|? ? Hn1 Hn2]; subst. split.
          { intros x Hx. apply in_chain_false. cbn. intros [E|[]]. apply Hn1. rewrite E. apply (in_map c_id) in Hx. exact Hx. }
          split; [exact Hn2|]. split.
          { unfold from_pools in Hfp. destruct (rev (p :: ups')) as [|root mids] eqn:Er.
            - apply (f_equal (@rev cert)) in Er. rewrite rev_involutive in Er. discriminate.
            - exists (rev mids), root. apply (f_equal (@rev cert)) in Er. rewrite rev_involutive in Er. cbn in Er.
              split; [exact Er|]. destruct Hfp as [Hr Hm]. split; [exact Hr|]. intros m Hmm. apply Hm. apply in_rev. exact Hmm. }
          intros x Hx. apply Hraw. right. exact Hx. }
        exists cands, ([leaf] ++ p :: ups'). split; [exact Hin|]. split; [discriminate|]. split; [exact Heku|].
        rewrite Hb. cbn [obind]. destruct cands; [destruct Hin|reflexivity]. }
    destruct Hcand as [cands [good [Hin [Hgne [Hge Hres]]]]]. rewrite Hres. cbn [obind].
    fold keyUsages_of.
    destruct (existsb (fun usage => (usage =? EKU_Any)%Z) keyUsages_of) eqn:Eany.
    - exists cands. split; [reflexivity|]. intro E. rewrite E in Hin. destruct Hin.
    - assert (Hf : In good (filter (fun candidate => checkChainForKeyUsage_model candidate keyUsages_of) cands)).
      { apply filter_In. split; [exact Hin|]. apply (checkChainForKeyUsage_iff good keyUsages_of Hkv).
        split; [exact Hgne|].
        right. destruct Hge as [Ha|[u [Hu Hall]]].
        - rewrite <- keyUsages_requested in Ha. apply existsb_Zeqb_In in Ha. congruence.
        - exists u. rewrite keyUsages_requested. split; assumption. }
      destruct (filter _ cands) as [|f0 fs]; [destruct Hf|]. eexists. split; [reflexivity|discriminate].
  Qed.

  Lemma buildChains_terminates_lemma : forall fuel c cur sc,
    length inters < fuel -> exists r, BC fuel c cur sc = Ok r.
  Proof.
    intros fuel c cur sc H. apply buildChains_total. pose proof (room_le inters cur). lia.
  Qed.
End Top.

(* ---------- how many signature checks a search can make ------------------------------------------------ *)
(* [budget_bound P r]: at most P checks per call of buildChains (one per candidate in either pool), and
   at most r recursive calls below a chain that still has r unused intermediates *)
Fixpoint budget_bound (P r : nat) : nat :=
  match r with
  | O => P
  | S r' => P + S r' * budget_bound P r'
  end.

Lemma budget_bound_mono : forall P r1 r2, r1 <= r2 -> budget_bound P r1 <= budget_bound P r2.
Proof.
  intros P r1 r2 H. induction r2 as [|r2 IH].
  - assert (r1 = 0) by lia. subst. lia.
  - destruct (Nat.eq_dec r1 (S r2)) as [->|Hn]; [lia|].
    assert (Hle : r1 <= r2) by lia. specialize (IH Hle). cbn [budget_bound]. nia.
Qed.

Lemma filter_len_le : forall (A : Type) (f : A -> bool) l, length (filter f l) <= length l.
Proof. intros A f l. induction l as [|x l IH]; cbn; [lia|]. destruct (f x); cbn; lia. Qed.

Lemma filter_filter_len_le : forall (A : Type) (f g : A -> bool) l, length (filter f (filter g l)) <= length (filter f l).
Proof.
  intros A f g l. induction l as [|x l IH]; cbn; [lia|].
  destruct (g x); cbn; destruct (f x); cbn; lia.
Qed.

Section Budget.
  Variable sig_ok : cert -> cert -> bool.
  Variable roots inters : list cert.
  Variable opts : options.
  Notation BC := (buildChains_model sig_ok roots inters opts).
  Notation FVP := (findVerifiedParents_model sig_ok).

  Lemma fvp_loop_count : forall (f : cert -> bool) c cands sc ps sc', fvp_loop sig_ok c cands sc = (ps, sc') ->
    length (filter f ps) <= length (filter f cands) /\ sc' <= sc + length cands.
  Proof.
    intros f c. induction cands as [|q cands IH]; intros sc ps sc' H; cbn [fvp_loop] in H.
    - injection H as <- <-. cbn. lia.
    - destruct (Nat.ltb maxChainSignatureChecks (S sc)).
      + injection H as <- <-. cbn. destruct (f q); cbn; lia.
      + destruct (fvp_loop sig_ok c cands (S sc)) as [ps0 sc0] eqn:E. injection H as <- <-.
        destruct (IH _ _ _ E) as [H1 H2]. cbn [length filter].
        destruct (CheckSignatureFrom_model sig_ok c q); cbn [filter]; destruct (f q); cbn [length]; lia.
  Qed.

  Lemma candidates_count : forall (f : cert -> bool) s c,
    length (filter f (candidates_model s c)) <= length (filter f s) /\ length (candidates_model s c) <= length s.
  Proof.
    intros f s c. unfold candidates_model.
    destruct (Nat.eqb (length _) 0).
    - split; [apply filter_filter_len_le|apply filter_len_le].
    - destruct (negb (Nat.eqb (length (c_aki c)) 0)).
      + split; [apply filter_filter_len_le|apply filter_len_le].
      + cbn. lia.
  Qed.

  Lemma fvp_count : forall (f : cert -> bool) s c sc ps sc', FVP s c sc = (ps, sc') ->
    length (filter f ps) <= length (filter f s) /\ sc' <= sc + length s.
  Proof.
    intros f s c sc ps sc' H. unfold findVerifiedParents_model in H.
    destruct (fvp_loop_count f _ _ _ _ _ H) as [H1 H2]. destruct (candidates_count f s c) as [H3 H4]. lia.
  Qed.

  Lemma nextIntermediate_count : forall rec cur B,
    forall l acc s res s',
    (forall i, In i l -> in_chain i cur = false -> forall s0 r s1, rec i (cur ++ [i]) s0 = Ok (r, s1) -> s1 <= s0 + B) ->
    nextIntermediate_loop opts rec cur l acc s = Ok (res, s') ->
    s' <= s + length (filter (fun i => negb (in_chain i cur)) l) * B.
  Proof.
    intros rec cur B. induction l as [|i l IHl]; intros acc s res s' Hrec H.
    - cbn in H. injection H as _ <-. cbn. lia.
    - cbn [nextIntermediate_loop] in H. cbn [filter].
      assert (Hrec' : forall j, In j l -> in_chain j cur = false -> forall s0 r s1, rec j (cur ++ [j]) s0 = Ok (r, s1) -> s1 <= s0 + B).
      { intros j Hj. apply Hrec. right. exact Hj. }
      destruct (in_chain i cur) eqn:Eic; cbn [negb].
      { apply (IHl _ _ _ _ Hrec' H). }
      cbn [length].
      destruct (negb (isValid_model opts intermediateCertificate i cur)).
      { pose proof (IHl _ _ _ _ Hrec' H). lia. }
      destruct (rec i (cur ++ [i]) s) as [[child s1]| | |] eqn:Eb; try discriminate.
      pose proof (Hrec i (or_introl eq_refl) Eic _ _ _ Eb). pose proof (IHl _ _ _ _ Hrec' H). lia.
  Qed.

  Lemma buildChains_checks_bound : forall fuel c cur sc chains sc',
    BC fuel c cur sc = Ok (chains, sc') ->
    sc' <= sc + budget_bound (length roots + length inters) (room inters cur).
  Proof.
    induction fuel as [|fuel IH]; intros c cur sc chains sc' H; [discriminate|].
    cbn [buildChains_model] in H.
    destruct (FVP roots c sc) as [pr sc1] eqn:Er.
    destruct (FVP inters c sc1) as [pi sc2] eqn:Ei.
    destruct (fvp_count (fun _ => true) _ _ _ _ _ Er) as [_ Hr].
    destruct (fvp_count (fun i => negb (in_chain i cur)) _ _ _ _ _ Ei) as [Hc Hi].
    pose proof (fvp_sound _ _ _ _ _ _ Ei) as Hpi.
    apply (nextIntermediate_count (BC fuel) cur (budget_bound (length roots + length inters) (room inters cur - 1))) in H.
    - fold (room inters cur) in Hc. destruct (room inters cur) as [|r] eqn:Eroom.
      + assert (length (filter (fun i => negb (in_chain i cur)) pi) = 0) by lia. rewrite H0 in H. cbn [budget_bound]. lia.
      + cbn [budget_bound]. replace (S r - 1) with r in H by lia. nia.
    - intros i Hin Hic s0 r s1 Hb. apply IH in Hb.
      destruct (Hpi i Hin) as [Hinter _]. pose proof (room_step sig_ok inters cur i Hinter Hic) as Hlt.
      pose proof (budget_bound_mono (length roots + length inters) (room inters (cur ++ [i])) (room inters cur - 1) ltac:(lia)). lia.
  Qed.

  Lemma sigchecks_used_bound : forall fuel leaf,
    sigchecks_used sig_ok roots inters opts fuel leaf <= budget_bound (length roots + length inters) (length inters).
  Proof.
    intros fuel leaf. unfold sigchecks_used.
    destruct (BC fuel leaf [leaf] 0) as [[chains sc]| | |] eqn:E; try lia.
    apply buildChains_checks_bound in E. pose proof (room_le inters [leaf]).
    pose proof (budget_bound_mono (length roots + length inters) _ _ H). lia.
  Qed.
End Budget.

(* ---------- completeness without the extras, for pools that carry no usage / name restrictions ---------- *)
Definition unrestricted (c : cert) : Prop :=
  c_permitted c = [] /\ ((c_eku c = [] /\ c_unknown_eku c = false) \/ In EKU_Any (c_eku c)).

Lemma plain_strict_extras : forall sig_ok parse_ip roots inters opts leaf ch,
  (forall c, In c roots \/ In c inters -> unrestricted c) ->
  c_permitted leaf = [] ->
  valid_chain sig_ok parse_ip roots inters opts leaf ch -> strict_extras opts ch.
Proof.
  intros sig_ok parse_ip roots inters opts leaf ch Hpool Hleaf [ups [-> [[_ [_ [_ Heku]]] [_ [_ Hfp]]]]].
  assert (Hups : forall c, In c ups -> unrestricted c).
  { intros c Hc. apply Hpool. unfold from_pools in Hfp. apply in_rev in Hc.
    destruct (rev ups) as [|root mids]; [destruct Hc|]. destruct Hfp as [Hr Hm].
    destruct Hc as [<-|Hc]; [left; exact Hr|right; apply Hm; exact Hc]. }
  split.
  - destruct Heku as [Ha|[u [Hu Hall]]]; [left; exact Ha|]. right. exists u. split; [exact Hu|].
    intros c [<-|Hc]; [apply Hall; left; reflexivity|].
    destruct (Hups c Hc) as [_ [H|H]]; [left; exact H|right; left; exact H].
  - intros c [<-|Hc] Hp; [contradiction|]. destruct (Hups c Hc) as [H _]. contradiction.
Qed.

(* ---------- the two readings of the path-length constraint ------------------------------------------------ *)
Section PathLenReadings.
  Variable sig_ok : cert -> cert -> bool.
  Variable parse_ip : list byte -> option (list byte).
  Variable roots inters : list cert.
  Variable opts : options.

  Lemma issuer_ok_mono : forall child m n p, m <= n ->
    issuer_ok sig_ok opts child n p -> issuer_ok sig_ok opts child m p.
  Proof.
    intros child m n p Hmn (H1 & H2 & H3 & H4 & H5 & H6 & H7). unfold issuer_ok.
    split; [exact H1|]. split; [exact H2|]. split; [exact H3|]. split; [exact H4|]. split; [exact H5|]. split; [|exact H7].
    intros Hb Hm. specialize (H6 Hb Hm). lia.
  Qed.

  Lemma issuers_ok_to_rfc : forall ups child m n, m <= n ->
    issuers_ok sig_ok opts child n ups -> issuers_ok_rfc sig_ok opts child m ups.
  Proof.
    induction ups as [|p ups IH]; intros child m n Hmn H; [exact I|].
    cbn [issuers_ok issuers_ok_rfc] in *. destruct H as [H1 H2]. split; [exact (issuer_ok_mono _ _ _ _ Hmn H1)|].
    destruct (self_issued_dec p); apply (IH p _ (S n)); try lia; exact H2.
  Qed.

  Lemma rfc_to_issuers_ok : forall ups child n,
    no_self_issued_intermediate ups ->
    issuers_ok_rfc sig_ok opts child n ups -> issuers_ok sig_ok opts child n ups.
  Proof.
    induction ups as [|p ups IH]; intros child n Hns H; [exact I|].
    cbn [issuers_ok issuers_ok_rfc] in *. destruct H as [H1 H2]. split; [exact H1|].
    destruct ups as [|q ups']; [exact I|].
    assert (Hp : c_issuer p <> c_subject p) by (apply Hns; cbn; left; reflexivity).
    destruct (self_issued_dec p) as [E|_]; [contradiction|].
    apply IH; [|exact H2]. intros c Hc. apply Hns. cbn [removelast]. right. exact Hc.
  Qed.

  Lemma valid_chain_to_rfc : forall leaf ch,
    valid_chain sig_ok parse_ip roots inters opts leaf ch -> valid_chain_rfc sig_ok parse_ip roots inters opts leaf ch.
  Proof.
    intros leaf ch (ups & E & Hl & Hi & Hn & Hf). exists ups.
    split; [exact E|]. split; [exact Hl|]. split; [|split; assumption].
    exact (issuers_ok_to_rfc ups leaf 0 0 (le_n 0) Hi).
  Qed.

  Lemma valid_chain_of_rfc : forall leaf ups,
    no_self_issued_intermediate ups ->
    valid_chain_rfc sig_ok parse_ip roots inters opts leaf (leaf :: ups) -> valid_chain sig_ok parse_ip roots inters opts leaf (leaf :: ups).
  Proof.
    intros leaf ups Hns (ups' & E & Hl & Hi & Hn & Hf). injection E as <-.
    exists ups. split; [reflexivity|]. split; [exact Hl|]. split; [|split; assumption].
    exact (rfc_to_issuers_ok ups leaf 0 Hns Hi).
  Qed.
End PathLenReadings.
