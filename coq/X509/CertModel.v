(* C09: the TBSCertificate and CertificationRequestInfo that CreateCertificate / CreateCertificateRequest
   assemble and what parseCertificate / parseCertificateRequest read back, at the level of identifier
   octets and bytes (no proofs in this file).

   Follows utils.go:CreateCertificate (tbsCertificate{Version 2, SerialNumber, SignatureAlgorithm, Issuer,
   Validity, Subject, PublicKey, Extensions}), x509.go:buildExtensions (order, criticality and the
   conditions under which each extension is written), marshalPublicKey for *sm2.PublicKey,
   parseCertificate (fields and the extension loop), parsePublicKey (ECDSA arm),
   CreateCertificateRequest / parseCertificateRequest (frame only).
   encoding/asn1 as in DerLayer.v / ExtModel.v / CrlModel.v; names are opaque SEQUENCE elements
   (crypto/x509/pkix is the standard library's), times go through an abstract codec.
   Error 1 = structure, 7 = public key (not on the curve / unsupported), others as in ExtModel.v. *)
From Coq Require Import List NArith ZArith Bool Arith String.
From GmsmVerif Require Import Lib.Outcome Gen.X509Tables X509.CreateModel X509.DerLayer X509.ExtModel X509.CrlModel.
From GmsmVerif Require Import SM2.SM2Bytes EC.SM2Curve.
Import ListNotations.
Local Open Scope N_scope.

Definition ID_BITSTRING : N := 3.
Definition ID_CTX3_CONS : N := 163.      (* 0xa3  [3] EXPLICIT *)

(* ---------- KeyUsage and BasicConstraints extension values, as bytes ------------------------------------- *)
(* asn1.Marshal(asn1.BitString{Bytes, BitLength}): the unused-bits octet, then the bytes *)
Definition build_keyusage_value (ku : N) : list N :=
  let '(bytes, bitLength) := encode_keyusage ku in
  tlv ID_BITSTRING (N.of_nat (List.length bytes * 8 - bitLength) :: bytes).

(* asn1.Unmarshal into asn1.BitString (parseBitString), then the loop over bits 0..8 *)
Definition parse_bitstring (c : list N) : outcome (list N * nat) :=
  match c with
  | [] => Err 1                                               (* zero length BIT STRING *)
  | pad :: bytes =>
    if (7 <? pad) || (Nat.eqb (List.length bytes) 0 && negb (pad =? 0))
       || negb (N.land (last bytes 0) (N.ones pad) =? 0)
    then Err 1                                                (* invalid padding bits in BIT STRING *)
    else Ok (bytes, (List.length bytes * 8 - N.to_nat pad)%nat)
  end.

Definition parse_keyusage_value (v : list N) : outcome N :=
  match read_tlv v with
  | Some (id, c, []) =>
    if id =? ID_BITSTRING then do '(bytes, bl) <- parse_bitstring c; Ok (decode_keyusage bytes bl) else Err 1
  | Some _ => Err 2
  | None => Err 1
  end.

(* asn1.Marshal(basicConstraints{IsCA, maxPathLen}) *)
Definition build_bc_value (isCA : bool) (maxPathLen : Z) (maxPathLenZero : bool) : list N :=
  let '(oc, om) := encode_basic_constraints isCA maxPathLen maxPathLenZero in
  tlv ID_SEQUENCE (write_all ((match oc with Some _ => [(ID_BOOLEAN, [255])] | None => [] end) ++
                              (match om with Some m => [(ID_INTEGER, encode_integer m)] | None => [] end))).

Definition parse_bc_value (v : list N) : outcome (bool * Z * bool) :=
  do l <- unmarshal_sequence v;
  do '(oc, l1) <-
     (match l with
      | (i, c) :: r =>
        if i =? ID_BOOLEAN
        then match c with
             | [x] => if x =? 255 then Ok (Some true, r) else if x =? 0 then Ok (Some false, r) else Err 1
             | _ => Err 1
             end
        else Ok (None, l)
      | [] => Ok (None, [])
      end);
  let om := match l1 with (i, c) :: _ => if i =? ID_INTEGER then Some (decode_integer c) else None | [] => None end in
  Ok (decode_basic_constraints (oc, om)).

(* ---------- SubjectPublicKeyInfo of an SM2 key ------------------------------------------------------------ *)
Definition oid_or_nil (o : option (list N)) : list N := match o with Some x => x | None => [] end.
(* the OIDs marshalPublicKey writes for *sm2.PublicKey on sm2.P256Sm2(), from the generated tables *)
Definition oid_sm2_key_algorithm : list N := oid_or_nil (marshalPublicKey_oid_model "*sm2.PublicKey").
Definition oid_sm2_curve : list N := oid_or_nil (oidFromNamedCurve_model "sm2.P256Sm2()").

(* elliptic.Marshal: 04 || X || Y, 32 bytes each *)
Definition point_bytes (x y : Z) : list N := 4 :: (i2osp 32 x ++ i2osp 32 y)%list.

Definition spki_content_with (algorithm : list N) (x y : Z) : list N :=
  write_all [(ID_SEQUENCE, algorithm); (ID_BITSTRING, 0 :: point_bytes x y)].
Definition spki_algorithm_sm2 : list N :=
  write_all [(ID_OID, oid_bytes oid_sm2_key_algorithm); (ID_OID, oid_bytes oid_sm2_curve)].
Definition spki_content_sm2 (x y : Z) : list N := spki_content_with spki_algorithm_sm2 x y.
Definition build_spki_sm2 (x y : Z) : list N := tlv ID_SEQUENCE (spki_content_sm2 x y).

(* parseCertificate: getPublicKeyAlgorithmFromOID, then parsePublicKey's ECDSA arm with elliptic.Unmarshal *)
Definition parse_spki_sm2 (content : list N) : outcome (Z * Z) :=
  do l <- elems_of content;
  match l with
  | [(i1, algc); (i2, bits)] =>
    if negb (i1 =? ID_SEQUENCE) || negb (i2 =? ID_BITSTRING) then Err 1
    else
      do al <- elems_of algc;
      match al with
      | [(j1, o1); (j2, o2)] =>
        if negb (j1 =? ID_OID) || negb (j2 =? ID_OID) then Err 1
        else match decode_oid o1, decode_oid o2 with
             | Some a, Some c =>
               if negb (getPublicKeyAlgorithmFromOID_model a =? c_ECDSA) then Err 7
               else match namedCurveFromOID_model c with
                    | Some name =>
                      if negb (String.eqb name "sm2.P256Sm2()") then Err 7
                      else
                        do '(bytes, bl) <- parse_bitstring bits;
                        match bytes with
                        | 4 :: xy =>
                          if negb (Nat.eqb (List.length xy) 64) then Err 7
                          else
                            let x := os2ip (firstn 32 xy) in
                            let y := os2ip (skipn 32 xy) in
                            if (sm2_p <=? x)%Z || (sm2_p <=? y)%Z || negb (sm2_on_curve x y) then Err 7
                            else Ok (x, y)
                        | _ => Err 7
                        end
                    | None => Err 7
                    end
             | _, _ => Err 1
             end
      | _ => Err 1
      end
  | _ => Err 1
  end.

(* ---------- the TBSCertificate frame ---------------------------------------------------------------------- *)
Section Frame.
  Variable T : Type.
  Variable enc_time : T -> N * list N.
  Variable dec_time : N * list N -> option T.

  Record tbs_cert := mkTbsCert {
    tc_serial : Z;
    tc_alg : N * list N;            (* signature AlgorithmIdentifier: opaque SEQUENCE element *)
    tc_issuer : N * list N;         (* RawIssuer *)
    tc_notbefore : T;
    tc_notafter : T;
    tc_subject : N * list N;        (* RawSubject *)
    tc_spki : list N;               (* content of the SubjectPublicKeyInfo SEQUENCE *)
    tc_exts : list crl_ext }.

  (* CreateCertificate always sets Version 2 and hands asn1 a non-nil extension slice, so both the
     [0] version and the [3] extensions wrapper are always written *)
  Definition build_tbs_cert (t : tbs_cert) : list N :=
    tlv ID_SEQUENCE (write_all
      [(ID_CTX0_CONS, tlv ID_INTEGER [2]);
       (ID_INTEGER, encode_integer (tc_serial t));
       tc_alg t; tc_issuer t;
       (ID_SEQUENCE, write_all [enc_time (tc_notbefore t); enc_time (tc_notafter t)]);
       tc_subject t;
       (ID_SEQUENCE, tc_spki t);
       (ID_CTX3_CONS, tlv ID_SEQUENCE (write_all (map enc_ext (tc_exts t))))]).

  (* asn1.Unmarshal into tbsCertificate (no unique identifiers); Version must be the one CreateCertificate writes *)
  Definition parse_tbs_cert (value : list N) : outcome tbs_cert :=
    do l <- unmarshal_sequence value;
    match l with
    | [(iv, v); (is_, s); alg; iss; (ival, val); subj; (ik, k); (ix, x)] =>
      if negb (iv =? ID_CTX0_CONS) || negb (is_ =? ID_INTEGER) || negb (fst alg =? ID_SEQUENCE)
         || negb (fst iss =? ID_SEQUENCE) || negb (ival =? ID_SEQUENCE) || negb (fst subj =? ID_SEQUENCE)
         || negb (ik =? ID_SEQUENCE) || negb (ix =? ID_CTX3_CONS) then Err 1
      else
        match read_tlv v with
        | Some (i, c, []) =>
          if negb (i =? ID_INTEGER) || negb (decode_integer c =? 2)%Z then Err 1
          else
            do tl <- elems_of val;
            match tl with
            | [t1; t2] =>
              if negb (is_time_id (fst t1)) || negb (is_time_id (fst t2)) then Err 1
              else match dec_time t1, dec_time t2 with
                   | Some nb, Some na =>
                     match read_tlv x with
                     | Some (i', c', []) =>
                       if negb (i' =? ID_SEQUENCE) then Err 1
                       else do es <- dec_exts c'; Ok (mkTbsCert (decode_integer s) alg iss nb na subj k es)
                     | _ => Err 1
                     end
                   | _, _ => Err 1
                   end
            | _ => Err 1
            end
        | _ => Err 1
        end
    | _ => Err 1
    end.

  (* ---------- CertificationRequestInfo ------------------------------------------------------------------- *)
  Record csr_info := mkCsr {
    cr_subject : N * list N;
    cr_spki : list N;
    cr_attributes : list (N * list N) }.   (* RawAttributes: opaque elements *)

  Definition build_csr_info (c : csr_info) : list N :=
    tlv ID_SEQUENCE (write_all
      [(ID_INTEGER, [0]); cr_subject c; (ID_SEQUENCE, cr_spki c); (ID_CTX0_CONS, write_all (cr_attributes c))]).

  Definition parse_csr_info (value : list N) : outcome csr_info :=
    do l <- unmarshal_sequence value;
    match l with
    | [(iv, v); subj; (ik, k); (ia, a)] =>
      if negb (iv =? ID_INTEGER) || negb (fst subj =? ID_SEQUENCE) || negb (ik =? ID_SEQUENCE) || negb (ia =? ID_CTX0_CONS)
      then Err 1
      else do attrs <- elems_of a; Ok (mkCsr subj k attrs)
    | _ => Err 1
    end.
End Frame.

Arguments mkTbsCert {T}. Arguments tc_serial {T}. Arguments tc_alg {T}. Arguments tc_issuer {T}.
Arguments tc_notbefore {T}. Arguments tc_notafter {T}. Arguments tc_subject {T}. Arguments tc_spki {T}. Arguments tc_exts {T}.

(* ---------- buildExtensions / the extension loop of parseCertificate, for the fields the property names ---- *)
Record cert_fields := mkFields {
  f_keyusage : N;                               (* 0 = no extension *)
  f_ekus : list N; f_unknown_ekus : list (list N);
  f_bcvalid : bool; f_isca : bool; f_maxpathlen : Z; f_maxpathlenzero : bool;
  f_ski : list N; f_aki : list N;
  f_dns : list (list N); f_emails : list (list N); f_ips : list (list N);
  f_policies : list (list N);
  f_permitted : list (list N); f_permitted_critical : bool }.

Definition ext_oid_of (name : string) : list N :=
  oid_or_nil (option_map snd (find (fun pr => String.eqb (fst pr) name) gen_ext_oids)).

(* buildExtensions (without OCSP / issuing URLs / CRL distribution points / ExtraExtensions): the order,
   the conditions and the critical flags *)
Definition ext_oid_by_arc (a : N) : list N :=
  ext_oid_of (match a with
              | 15 => "oidExtensionKeyUsage" | 37 => "oidExtensionExtendedKeyUsage" | 19 => "oidExtensionBasicConstraints"
              | 14 => "oidExtensionSubjectKeyId" | 35 => "oidExtensionAuthorityKeyId" | 17 => "oidExtensionSubjectAltName"
              | 32 => "oidExtensionCertificatePolicies" | 30 => "oidExtensionNameConstraints" | _ => ""
              end).

(* [o]: the OID each extension is written under, by the arm of parseCertificate that reads it *)
Definition buildExtensions_with (o : N -> list N) (f : cert_fields) : outcome (list crl_ext) :=
  let ku := if f_keyusage f =? 0 then []
            else [mkExt (o 15) true (build_keyusage_value (f_keyusage f))] in
  do eku <- (match f_ekus f, f_unknown_ekus f with
             | [], [] => Ok []
             | _, _ => do v <- build_eku (f_ekus f) (f_unknown_ekus f);
                       Ok [mkExt (o 37) false v]
             end);
  let bc := if f_bcvalid f
            then [mkExt (o 19) true
                        (build_bc_value (f_isca f) (f_maxpathlen f) (f_maxpathlenzero f))]
            else [] in
  let ski := match f_ski f with [] => [] | k => [mkExt (o 14) false (build_ski k)] end in
  let aki := match f_aki f with [] => [] | k => [mkExt (o 35) false (build_aki k)] end in
  let san := match f_dns f, f_emails f, f_ips f with
             | [], [], [] => []
             | _, _, _ => [mkExt (o 17) false
                                 (marshalSANs_model (f_dns f) (f_emails f) (f_ips f))]
             end in
  do pol <- (match f_policies f with
             | [] => Ok []
             | p => do v <- build_policies p; Ok [mkExt (o 32) false v]
             end);
  do nc <- (match f_permitted f with
            | [] => Ok []
            | d => do v <- build_name_constraints d;
                   Ok [mkExt (o 30) (f_permitted_critical f) v]
            end);
  Ok (ku ++ eku ++ bc ++ ski ++ aki ++ san ++ pol ++ nc)%list.

Definition buildExtensions_model : cert_fields -> outcome (list crl_ext) := buildExtensions_with ext_oid_by_arc.

(* the loop "for _, e := range in.TBSCertificate.Extensions" of parseCertificate for the arms modelled here:
   each arm overwrites its fields; an unknown critical extension makes the certificate unhandled (not an error) *)
Definition empty_fields : cert_fields :=
  mkFields 0 [] [] false false 0%Z false [] [] [] [] [] [] [] false.

Definition id_ce_arc (oid : list N) : option N :=
  match oid with [2; 5; 29; a] => Some a | _ => None end.

Definition parse_one_extension (f : cert_fields) (e : crl_ext) : outcome cert_fields :=
  match id_ce_arc (x_id e) with
  | Some 15 => do ku <- parse_keyusage_value (x_val e);
               Ok (mkFields ku (f_ekus f) (f_unknown_ekus f) (f_bcvalid f) (f_isca f) (f_maxpathlen f) (f_maxpathlenzero f)
                            (f_ski f) (f_aki f) (f_dns f) (f_emails f) (f_ips f) (f_policies f) (f_permitted f) (f_permitted_critical f))
  | Some 19 => do '(ca, mpl, z) <- parse_bc_value (x_val e);
               Ok (mkFields (f_keyusage f) (f_ekus f) (f_unknown_ekus f) true ca mpl z
                            (f_ski f) (f_aki f) (f_dns f) (f_emails f) (f_ips f) (f_policies f) (f_permitted f) (f_permitted_critical f))
  | Some 17 => do '(d, m, i) <- parseSANExtension_model (x_val e);
               Ok (mkFields (f_keyusage f) (f_ekus f) (f_unknown_ekus f) (f_bcvalid f) (f_isca f) (f_maxpathlen f) (f_maxpathlenzero f)
                            (f_ski f) (f_aki f) d m i (f_policies f) (f_permitted f) (f_permitted_critical f))
  | Some 30 => do '(p, c) <- parse_name_constraints (x_crit e) (x_val e);
               Ok (mkFields (f_keyusage f) (f_ekus f) (f_unknown_ekus f) (f_bcvalid f) (f_isca f) (f_maxpathlen f) (f_maxpathlenzero f)
                            (f_ski f) (f_aki f) (f_dns f) (f_emails f) (f_ips f) (f_policies f) p c)
  | Some 35 => do k <- parse_aki (x_val e);
               Ok (mkFields (f_keyusage f) (f_ekus f) (f_unknown_ekus f) (f_bcvalid f) (f_isca f) (f_maxpathlen f) (f_maxpathlenzero f)
                            (f_ski f) k (f_dns f) (f_emails f) (f_ips f) (f_policies f) (f_permitted f) (f_permitted_critical f))
  | Some 37 => do '(k, u) <- parse_eku (x_val e);
               Ok (mkFields (f_keyusage f) k u (f_bcvalid f) (f_isca f) (f_maxpathlen f) (f_maxpathlenzero f)
                            (f_ski f) (f_aki f) (f_dns f) (f_emails f) (f_ips f) (f_policies f) (f_permitted f) (f_permitted_critical f))
  | Some 14 => do k <- parse_ski (x_val e);
               Ok (mkFields (f_keyusage f) (f_ekus f) (f_unknown_ekus f) (f_bcvalid f) (f_isca f) (f_maxpathlen f) (f_maxpathlenzero f)
                            k (f_aki f) (f_dns f) (f_emails f) (f_ips f) (f_policies f) (f_permitted f) (f_permitted_critical f))
  | Some 32 => do p <- parse_policies (x_val e);
               Ok (mkFields (f_keyusage f) (f_ekus f) (f_unknown_ekus f) (f_bcvalid f) (f_isca f) (f_maxpathlen f) (f_maxpathlenzero f)
                            (f_ski f) (f_aki f) (f_dns f) (f_emails f) (f_ips f) p (f_permitted f) (f_permitted_critical f))
  | _ => Ok f
  end.

Fixpoint parse_extensions (f : cert_fields) (es : list crl_ext) : outcome cert_fields :=
  match es with
  | [] => Ok f
  | e :: r => do f' <- parse_one_extension f e; parse_extensions f' r
  end.
