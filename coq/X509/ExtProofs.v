(* Round trips parse (build x) = x of the extension codecs of X509/ExtModel.v. *)
From Coq Require Import List NArith ZArith Bool Arith Lia ZifyN ZifyNat ZifyBool.
From GmsmVerif Require Import Lib.Outcome Gen.X509Tables X509.CreateModel X509.CreateRun X509.SigAlgTables X509.CreateProofs
     X509.DerLayer X509.DerLayerProofs X509.ExtModel.
Import ListNotations.
Local Open Scope N_scope.

Definition small (b : list N) : Prop := N.of_nat (List.length b) < LIMIT.

Lemma tlv_content_le : forall id c, (List.length c <= List.length (tlv id c))%nat.
Proof. intros. unfold tlv. cbn [List.length]. rewrite app_length. lia. Qed.

Lemma small_tlv : forall id c, small (tlv id c) -> small c.
Proof. intros id c H. unfold small in *. pose proof (tlv_content_le id c). lia. Qed.

Lemma write_all_elem_le : forall l p, In p l -> (List.length (snd p) <= List.length (write_all l))%nat.
Proof.
  induction l as [|q l IH]; intros p Hin; [destruct Hin|].
  unfold write_all. cbn [map concat]. fold (write_all l). rewrite app_length. destruct Hin as [<-|Hp].
  - pose proof (tlv_content_le (fst q) (snd q)). lia.
  - specialize (IH p Hp). lia.
Qed.

Lemma small_write_all : forall l, small (write_all l) -> forall p, In p l -> small (snd p).
Proof. intros l H p Hp. unfold small in *. pose proof (write_all_elem_le l p Hp). lia. Qed.

Lemma unmarshal_constructed_tlv : forall id l,
  low_tag id -> (forall p, In p l -> low_tag (fst p)) -> small (tlv id (write_all l)) ->
  unmarshal_constructed (tlv id (write_all l)) = Ok (id, l).
Proof.
  intros id l Hid Hl Hs. unfold unmarshal_constructed.
  pose proof (small_tlv _ _ Hs) as Hw.
  rewrite <- (app_nil_r (tlv id (write_all l))). rewrite (read_tlv_tlv id _ [] Hid Hw).
  rewrite read_all_enough; [reflexivity|].
  apply Forall_forall. intros p Hp. split; [apply Hl; exact Hp|exact (small_write_all l Hw p Hp)].
Qed.

Lemma unmarshal_sequence_tlv : forall l,
  (forall p, In p l -> low_tag (fst p)) -> small (tlv ID_SEQUENCE (write_all l)) ->
  unmarshal_sequence (tlv ID_SEQUENCE (write_all l)) = Ok l.
Proof.
  intros l Hl Hs. unfold unmarshal_sequence. rewrite unmarshal_constructed_tlv; [reflexivity| |exact Hl|exact Hs].
  unfold low_tag. discriminate.
Qed.

Lemma all_ok_map : forall (A B : Type) (f : A -> outcome B) (g : A -> B) l,
  (forall x, In x l -> f x = Ok (g x)) -> all_ok (map f l) = Ok (map g l).
Proof.
  intros A B f g. induction l as [|x l IH]; intro H; [reflexivity|].
  cbn [map all_ok]. rewrite (H x (or_introl eq_refl)). cbn [obind].
  rewrite IH by (intros y Hy; apply H; right; exact Hy). reflexivity.
Qed.

(* ---------- SubjectAltName ------------------------------------------------------------------------------- *)
Lemma san_loop_dns : forall dns r,
  san_loop (map (pair ID_CTX_DNS) dns ++ r) = (do '(d, e, i) <- san_loop r; Ok (dns ++ d, e, i)).
Proof.
  induction dns as [|x dns IH]; intro r.
  - cbn. destruct (san_loop r) as [[[d e] i]| | |]; reflexivity.
  - cbn [map app san_loop]. change (tag_number ID_CTX_DNS =? 7) with false.
    change (tag_number ID_CTX_DNS =? 1) with false. change (tag_number ID_CTX_DNS =? 2) with true. cbn iota.
    rewrite IH. destruct (san_loop r) as [[[d e] i]| | |]; reflexivity.
Qed.

Lemma san_loop_email : forall emails r,
  san_loop (map (pair ID_CTX_EMAIL) emails ++ r) = (do '(d, e, i) <- san_loop r; Ok (d, emails ++ e, i)).
Proof.
  induction emails as [|x emails IH]; intro r.
  - cbn. destruct (san_loop r) as [[[d e] i]| | |]; reflexivity.
  - cbn [map app san_loop]. change (tag_number ID_CTX_EMAIL =? 7) with false.
    change (tag_number ID_CTX_EMAIL =? 1) with true. cbn iota.
    rewrite IH. destruct (san_loop r) as [[[d e] i]| | |]; reflexivity.
Qed.

Definition ip_len_ok (ip : list N) : Prop := List.length ip = 4%nat \/ List.length ip = 16%nat.

Lemma to4_len_ok : forall ip, ip_len_ok ip -> ip_len_ok (to4 ip).
Proof.
  intros ip [H|H]; unfold to4; rewrite H; cbn [Nat.eqb andb].
  - left. exact H.
  - destruct (bytes_eqb (firstn 12 ip) v4_mapped_prefix); [left; rewrite skipn_length; lia|right; exact H].
Qed.

Lemma san_loop_ips : forall ips, Forall ip_len_ok ips ->
  san_loop (map (fun ip => (ID_CTX_IP, to4 ip)) ips) = Ok ([], [], map to4 ips).
Proof.
  induction ips as [|x ips IH]; intro H; [reflexivity|]. inversion H as [|? ? Hx Hr]; subst.
  cbn [map san_loop]. change (tag_number ID_CTX_IP =? 7) with true. cbn iota.
  destruct (to4_len_ok x Hx) as [E|E]; rewrite E; cbn [Nat.eqb orb]; rewrite (IH Hr); reflexivity.
Qed.

Lemma san_roundtrip_lemma : forall dns emails ips,
  Forall ip_len_ok ips -> small (marshalSANs_model dns emails ips) ->
  parseSANExtension_model (marshalSANs_model dns emails ips) = Ok (dns, emails, map to4 ips).
Proof.
  intros dns emails ips Hips Hs. unfold parseSANExtension_model, marshalSANs_model in *.
  rewrite unmarshal_constructed_tlv; [| unfold low_tag; discriminate | | exact Hs].
  - cbn [obind]. change (negb (ID_SEQUENCE =? ID_SEQUENCE)) with false. cbn iota.
    rewrite san_loop_dns, san_loop_email, (san_loop_ips ips Hips). cbn [obind]. rewrite !app_nil_r. reflexivity.
  - intros p Hp. apply in_app_or in Hp. destruct Hp as [Hp|Hp]; [|apply in_app_or in Hp; destruct Hp as [Hp|Hp]];
      apply in_map_iff in Hp; destruct Hp as [x [<- _]]; unfold low_tag; cbn; discriminate.
Qed.

(* ---------- object identifier lists -------------------------------------------------------------------- *)
Definition enc_of (o : list N) : list N := match encode_oid o with Some b => b | None => [] end.

Lemma enc_of_ok : forall o, oid_ok o -> encode_oid o = Some (enc_of o) /\ decode_oid (enc_of o) = Some o.
Proof.
  intros o H. destruct (decode_encode_oid o H) as [b [H1 H2]]. unfold enc_of. rewrite H1. split; [reflexivity|exact H2].
Qed.

Lemma marshal_oid_list_ok : forall oids, Forall oid_ok oids ->
  marshal_oid_list oids = Ok (tlv ID_SEQUENCE (write_all (map (fun o => (ID_OID, enc_of o)) oids))).
Proof.
  intros oids H. unfold marshal_oid_list.
  rewrite (all_ok_map _ _ _ (fun o => (ID_OID, enc_of o))); [reflexivity|].
  intros o Ho. rewrite Forall_forall in H. destruct (enc_of_ok o (H o Ho)) as [E _]. rewrite E. reflexivity.
Qed.

Lemma unmarshal_oid_list_ok : forall oids, Forall oid_ok oids ->
  small (tlv ID_SEQUENCE (write_all (map (fun o => (ID_OID, enc_of o)) oids))) ->
  unmarshal_oid_list (tlv ID_SEQUENCE (write_all (map (fun o => (ID_OID, enc_of o)) oids))) = Ok oids.
Proof.
  intros oids H Hs. unfold unmarshal_oid_list. rewrite unmarshal_sequence_tlv; [|intros p Hp|exact Hs].
  - cbn [obind]. rewrite map_map.
    rewrite (all_ok_map _ _ _ (fun o => o)); [rewrite map_id; reflexivity|].
    intros o Ho. cbn [fst snd]. change (negb (ID_OID =? ID_OID)) with false. cbn iota.
    rewrite Forall_forall in H. destruct (enc_of_ok o (H o Ho)) as [_ E]. rewrite E. reflexivity.
  - apply in_map_iff in Hp. destruct Hp as [o [<- _]]. unfold low_tag. cbn. discriminate.
Qed.

(* the object identifiers of the table can be written and read back *)
Definition oid_okb (oid : list N) : bool :=
  match oid with
  | a0 :: a1 :: rest => (a0 <=? 2) && ((2 <=? a0) || (a1 <? 40)) && (a0 * 40 + a1 <? LIMIT) && forallb (fun a => a <? LIMIT) rest
  | _ => false
  end.

Lemma oid_okb_ok : forall o, oid_okb o = true -> oid_ok o.
Proof.
  intros [|a0 [|a1 rest]] H; try discriminate. cbn [oid_okb] in H.
  repeat (apply andb_true_iff in H; destruct H as [H ?]).
  unfold oid_ok. change LIMIT with 2147483648 in *.
  split; [lia|]. split; [lia|]. split; [lia|].
  apply Forall_forall. intros a Ha. rewrite forallb_forall in H0. specialize (H0 a Ha). cbv beta in H0. lia.
Qed.

Lemma eku_table_oids_ok : forall u o, In (u, o) gen_eku_oids -> oid_ok o.
Proof.
  intros u o Hin. apply oid_okb_ok.
  assert (H : forallb (fun pr => oid_okb (snd pr)) gen_eku_oids = true) by (vm_compute; reflexivity).
  rewrite forallb_forall in H. exact (H (u, o) Hin).
Qed.

Lemma classify_known : forall known rest_k rest_u oids,
  classify_eku oids = (rest_k, rest_u) ->
  forall ekus, map (fun u => oidFromExtKeyUsage_model u) ekus = map (@Some _) known ->
  classify_eku (known ++ oids) = (ekus ++ rest_k, rest_u).
Proof.
  induction known as [|o known IH]; intros rest_k rest_u oids Hc ekus Hm.
  - destruct ekus; [|discriminate]. exact Hc.
  - destruct ekus as [|u ekus]; [discriminate|]. cbn [map] in Hm. injection Hm as Hu Hm.
    cbn [app classify_eku]. rewrite (IH _ _ _ Hc ekus Hm).
    apply oid_from_eku_in_table in Hu. apply eku_roundtrip_table in Hu. destruct Hu as [_ Hu]. rewrite Hu. reflexivity.
Qed.

Lemma classify_unknown : forall unknown, (forall o, In o unknown -> extKeyUsageFromOID_model o = None) ->
  classify_eku unknown = ([], unknown).
Proof.
  induction unknown as [|o l IH]; intro H; [reflexivity|].
  cbn [classify_eku]. rewrite IH by (intros x Hx; apply H; right; exact Hx).
  rewrite (H o (or_introl eq_refl)). reflexivity.
Qed.

Lemma eku_roundtrip_lemma : forall ekus unknown value,
  Forall oid_ok unknown -> (forall o, In o unknown -> extKeyUsageFromOID_model o = None) ->
  build_eku ekus unknown = Ok value -> small value ->
  parse_eku value = Ok (ekus, unknown).
Proof.
  intros ekus unknown value Hu Hn Hb Hs. unfold build_eku in Hb.
  destruct (all_ok (map _ ekus)) as [known| | |] eqn:Ek; try discriminate. cbn [obind] in Hb.
  assert (Hk : map (fun u => oidFromExtKeyUsage_model u) ekus = map (@Some _) known).
  { clear -Ek. revert known Ek. induction ekus as [|u ekus IH]; intros known Ek.
    - cbn in Ek. injection Ek as <-. reflexivity.
    - cbn [map all_ok] in Ek. destruct (oidFromExtKeyUsage_model u) as [o|] eqn:Eo; [|discriminate].
      cbn [obind] in Ek. destruct (all_ok (map _ ekus)) as [k| | |] eqn:E2; try discriminate.
      cbn [obind] in Ek. injection Ek as <-. cbn [map]. rewrite Eo, (IH k eq_refl). reflexivity. }
  assert (Hko : Forall oid_ok known).
  { apply Forall_forall. intros o Ho. apply (in_map (@Some _)) in Ho. rewrite <- Hk in Ho.
    apply in_map_iff in Ho. destruct Ho as [u [Hu1 _]]. apply oid_from_eku_in_table in Hu1.
    exact (eku_table_oids_ok _ _ Hu1). }
  assert (Hall : Forall oid_ok (known ++ unknown)) by (apply Forall_app; split; assumption).
  rewrite (marshal_oid_list_ok _ Hall) in Hb. injection Hb as <-.
  unfold parse_eku. rewrite (unmarshal_oid_list_ok _ Hall Hs). cbn [obind]. f_equal.
  rewrite (classify_known known [] unknown unknown (classify_unknown unknown Hn) ekus Hk). rewrite app_nil_r. reflexivity.
Qed.

(* ---------- CertificatePolicies ---------------------------------------------------------------------------- *)
Lemma policies_roundtrip_lemma : forall oids value,
  Forall oid_ok oids -> build_policies oids = Ok value -> small value -> parse_policies value = Ok oids.
Proof.
  intros oids value H Hb Hs. unfold build_policies in Hb.
  rewrite (all_ok_map _ _ _ (fun o => (ID_SEQUENCE, tlv ID_OID (enc_of o)))) in Hb.
  2:{ intros o Ho. rewrite Forall_forall in H. destruct (enc_of_ok o (H o Ho)) as [E _]. rewrite E. reflexivity. }
  cbn [obind] in Hb. injection Hb as <-.
  unfold parse_policies. rewrite unmarshal_sequence_tlv; [|intros p Hp|exact Hs].
  - cbn [obind]. rewrite map_map. rewrite (all_ok_map _ _ _ (fun o => o)); [rewrite map_id; reflexivity|].
    intros o Ho. unfold parse_policy_info. cbn [fst snd]. change (negb (ID_SEQUENCE =? ID_SEQUENCE)) with false. cbn iota.
    assert (Hso : small (tlv ID_OID (enc_of o))).
    { apply (small_write_all _ (small_tlv _ _ Hs) (ID_SEQUENCE, tlv ID_OID (enc_of o))).
      apply in_map_iff. exists o. split; [reflexivity|exact Ho]. }
    rewrite <- (app_nil_r (tlv ID_OID (enc_of o))).
    rewrite (read_tlv_tlv ID_OID _ [] ltac:(unfold low_tag; discriminate) (small_tlv _ _ Hso)).
    change (negb (ID_OID =? ID_OID)) with false. cbn iota.
    rewrite Forall_forall in H. destruct (enc_of_ok o (H o Ho)) as [_ E]. rewrite E. reflexivity.
  - apply in_map_iff in Hp. destruct Hp as [o [<- _]]. unfold low_tag. cbn. discriminate.
Qed.

(* ---------- key identifiers ------------------------------------------------------------------------------- *)
Lemma ski_roundtrip_lemma : forall id, small (build_ski id) -> parse_ski (build_ski id) = Ok id.
Proof.
  intros id Hs. unfold parse_ski, build_ski in *. rewrite <- (app_nil_r (tlv ID_OCTET_STRING id)).
  rewrite (read_tlv_tlv ID_OCTET_STRING id [] ltac:(unfold low_tag; cbn; discriminate) (small_tlv _ _ Hs)). reflexivity.
Qed.

Lemma write_all_single : forall id c, write_all [(id, c)] = tlv id c.
Proof. intros. unfold write_all. cbn [map concat fst snd]. apply app_nil_r. Qed.

Lemma aki_roundtrip_lemma : forall id, small (build_aki id) -> parse_aki (build_aki id) = Ok id.
Proof.
  intros id Hs. unfold parse_aki, build_aki in *. rewrite <- (write_all_single ID_CTX0_PRIM id) in *.
  rewrite unmarshal_sequence_tlv; [reflexivity| |exact Hs].
  intros p [<-|[]]. unfold low_tag. cbn. discriminate.
Qed.

(* ---------- NameConstraints -------------------------------------------------------------------------------- *)
Lemma permitted_loop_nonempty : forall critical names, Forall (fun n => n <> []) names ->
  permitted_loop critical names = Ok names.
Proof.
  induction names as [|n names IH]; intro H; [reflexivity|]. inversion H; subst.
  cbn [permitted_loop]. destruct n; [contradiction|]. rewrite IH by assumption. reflexivity.
Qed.

Lemma name_constraints_roundtrip_lemma : forall domains critical value,
  build_name_constraints domains = Ok value -> small value ->
  parse_name_constraints critical value = Ok (domains, critical).
Proof.
  intros domains critical value Hb Hs. unfold build_name_constraints in Hb.
  destruct (existsb _ domains) eqn:Ee; [discriminate|].
  destruct (forallb is_ia5 domains) eqn:Ei; [|discriminate]. cbn [negb] in Hb. injection Hb as <-.
  assert (Hne : Forall (fun n => n <> []) domains).
  { apply Forall_forall. intros d Hd He. subst d.
    assert (existsb (fun d => Nat.eqb (List.length d) 0) domains = true) by (apply existsb_exists; exists []; split; [exact Hd|reflexivity]).
    congruence. }
  set (subs := map (fun d => (ID_SEQUENCE, tlv ID_CTX_DNS d)) domains) in *.
  unfold parse_name_constraints. rewrite <- (write_all_single ID_CTX0_CONS (write_all subs)) in *.
  rewrite unmarshal_sequence_tlv; [| |exact Hs].
  2:{ intros p [<-|[]]. unfold low_tag. cbn. discriminate. }
  cbn [obind]. change (ID_CTX0_CONS =? ID_CTX0_CONS) with true. cbn iota.
  assert (Hsw : small (write_all subs)).
  { apply (small_write_all _ (small_tlv _ _ Hs) (ID_CTX0_CONS, write_all subs)). left. reflexivity. }
  assert (Hsub : parse_subtrees (write_all subs) = Ok domains).
  { unfold parse_subtrees. rewrite read_all_enough.
    - unfold subs. rewrite map_map. rewrite (all_ok_map _ _ _ (fun d => d)); [rewrite map_id; reflexivity|].
      intros d Hd. unfold parse_subtree. cbn [fst snd]. change (negb (ID_SEQUENCE =? ID_SEQUENCE)) with false. cbn iota.
      assert (Hsd : small (tlv ID_CTX_DNS d)).
      { apply (small_write_all _ Hsw (ID_SEQUENCE, tlv ID_CTX_DNS d)). apply in_map_iff. exists d. split; [reflexivity|exact Hd]. }
      pose proof (small_tlv _ _ Hsd) as Hsd'.
      destruct (tlv ID_CTX_DNS d) as [|x xs] eqn:Et; [exact (False_ind _ (tlv_nonempty _ _ Et))|]. rewrite <- Et.
      rewrite <- (app_nil_r (tlv ID_CTX_DNS d)).
      rewrite (read_tlv_tlv ID_CTX_DNS d [] ltac:(unfold low_tag; cbn; discriminate) Hsd').
      change (ID_CTX_DNS =? ID_CTX_DNS) with true. cbn iota.
      rewrite forallb_forall in Ei. rewrite (Ei d Hd). reflexivity.
    - apply Forall_forall. intros p Hp. split.
      + apply in_map_iff in Hp. destruct Hp as [d [<- _]]. unfold low_tag. cbn. discriminate.
      + exact (small_write_all _ Hsw p Hp). }
  rewrite Hsub. cbn [obind List.length Nat.eqb negb andb].
  rewrite (permitted_loop_nonempty critical domains Hne). reflexivity.
Qed.

(* ---------- NameConstraints the parser does not handle ------------------------------------------------------ *)
Definition gn_ok (g : N * list N) : Prop := low_tag (fst g) /\ (fst g = ID_CTX_DNS -> is_ia5 (snd g) = true).

Lemma parse_subtrees_general : forall gs, Forall gn_ok gs -> small (write_all (map subtree_elem gs)) ->
  parse_subtrees (write_all (map subtree_elem gs)) = Ok (map name_of gs).
Proof.
  intros gs Hg Hs. unfold parse_subtrees. rewrite read_all_enough.
  - rewrite map_map. apply all_ok_map. intros g Hin. rewrite Forall_forall in Hg. destruct (Hg g Hin) as [Hlow Hia].
    unfold parse_subtree, subtree_elem. cbn [fst snd]. change (negb (ID_SEQUENCE =? ID_SEQUENCE)) with false. cbn iota.
    assert (Hsg : small (tlv (fst g) (snd g))).
    { apply (small_write_all _ Hs (subtree_elem g)). apply in_map. exact Hin. }
    pose proof (small_tlv _ _ Hsg) as Hsc.
    destruct (tlv (fst g) (snd g)) as [|x xs] eqn:Et; [exact (False_ind _ (tlv_nonempty _ _ Et))|]. rewrite <- Et.
    rewrite <- (app_nil_r (tlv (fst g) (snd g))). rewrite (read_tlv_tlv _ _ [] Hlow Hsc).
    unfold name_of. destruct (fst g =? ID_CTX_DNS) eqn:E; [|reflexivity].
    apply N.eqb_eq in E. rewrite (Hia E). reflexivity.
  - apply Forall_forall. intros p Hp. split.
    + apply in_map_iff in Hp. destruct Hp as [g [<- _]]. unfold low_tag. cbn. discriminate.
    + exact (small_write_all _ Hs p Hp).
Qed.

Lemma parse_nc_general : forall critical permitted excluded,
  Forall gn_ok permitted -> Forall gn_ok excluded -> small (nc_value permitted excluded) ->
  parse_name_constraints critical (nc_value permitted excluded) =
    if negb (Nat.eqb (List.length excluded) 0) && critical then Err 4
    else do names <- permitted_loop critical (map name_of permitted); Ok (names, critical).
Proof.
  intros critical permitted excluded Hp He Hs. unfold nc_value in *. unfold parse_name_constraints.
  set (lp := match permitted with [] => [] | _ => [(ID_CTX0_CONS, write_all (map subtree_elem permitted))] end) in *.
  set (le := match excluded with [] => [] | _ => [(ID_CTX1_CONS, write_all (map subtree_elem excluded))] end) in *.
  assert (Hlow : forall p, In p (lp ++ le) -> low_tag (fst p)).
  { intros p Hin. apply in_app_or in Hin. destruct Hin as [Hin|Hin].
    - unfold lp in Hin. destruct permitted; [destruct Hin|]. destruct Hin as [<-|[]]. unfold low_tag. cbn. discriminate.
    - unfold le in Hin. destruct excluded; [destruct Hin|]. destruct Hin as [<-|[]]. unfold low_tag. cbn. discriminate. }
  rewrite (unmarshal_sequence_tlv _ Hlow Hs). cbn [obind].
  pose proof (small_tlv _ _ Hs) as Hw.
  assert (Hexcl : match le with
                  | (id, c) :: _ => if id =? ID_CTX1_CONS then parse_subtrees c else Ok []
                  | [] => Ok []
                  end = Ok (map name_of excluded)).
  { unfold le in *. destruct excluded as [|e0 es]; [reflexivity|].
    change (ID_CTX1_CONS =? ID_CTX1_CONS) with true. cbn iota. apply parse_subtrees_general; [exact He|].
    apply (small_write_all _ Hw (ID_CTX1_CONS, write_all (map subtree_elem (e0 :: es)))). apply in_or_app. right. left. reflexivity. }
  destruct permitted as [|p0 ps].
  - unfold lp. cbn [app].
    assert (Hfirst : match le with
                     | (id, c) :: r => if id =? ID_CTX0_CONS then do p <- parse_subtrees c; Ok (p, r) else Ok ([], le)
                     | [] => Ok ([], [])
                     end = Ok (@nil (list N), le)).
    { unfold le. destruct excluded; [reflexivity|]. change (ID_CTX1_CONS =? ID_CTX0_CONS) with false. reflexivity. }
    rewrite Hfirst. cbn [obind]. rewrite Hexcl. cbn [obind]. rewrite map_length. reflexivity.
  - unfold lp. cbn [app]. change (ID_CTX0_CONS =? ID_CTX0_CONS) with true. cbn iota.
    rewrite parse_subtrees_general; [|exact Hp|].
    2:{ apply (small_write_all _ Hw (ID_CTX0_CONS, write_all (map subtree_elem (p0 :: ps)))). apply in_or_app. left. left. reflexivity. }
    cbn [obind]. rewrite Hexcl. cbn [obind]. rewrite map_length. reflexivity.
Qed.

Lemma permitted_loop_critical_empty : forall names, In [] names -> permitted_loop true names = Err 4.
Proof.
  induction names as [|n names IH]; intro H; [destruct H|].
  cbn [permitted_loop]. destruct n as [|x xs]; [reflexivity|].
  destruct H as [H|H]; [discriminate H|]. rewrite (IH H). reflexivity.
Qed.

Definition nonempty_names (names : list (list N)) : list (list N) :=
  filter (fun n => negb (Nat.eqb (List.length n) 0)) names.

Lemma permitted_loop_noncritical : forall names, permitted_loop false names = Ok (nonempty_names names).
Proof.
  induction names as [|n names IH]; [reflexivity|].
  cbn [permitted_loop nonempty_names filter]. destruct n as [|x xs]; cbn [List.length Nat.eqb negb].
  - exact IH.
  - rewrite IH. reflexivity.
Qed.
