(* C09 relative to C01: what an SM2 signer puts into a created object verifies under the issuer key,
   and what checkSignature accepts is exactly a strict DER encoding of a pair the SM2 verification
   relation accepts. *)
From Coq Require Import List NArith ZArith Bool Lia Arith.
From GmsmVerif Require Import Lib.Outcome EC.ECAffine EC.SM2Curve SM3.SM3Spec
     SM2.SM2Bytes SM2.SM2BytesProofs SM2.SM2Spec SM2.DER SM2.SM2Model SM2.SM2SignProofs SM2.DERProofs SM2.SM2Group.
From GmsmVerif Require Import X509.CreateSM2Model.
From GmsmVerif Require Props.C01.   (* the interface: only the property theorems of C01 are used below *)
Import ListNotations.
Open Scope Z_scope.

Lemma sm2_n_lt_2_256 : sm2_n < 2 ^ 256.
Proof. reflexivity. Qed.

Lemma checkSignature_sm2_is_PublicKey_Verify : forall pub signed b,
  checkSignature_sm2 pub signed b = PublicKey_Verify pub signed b.
Proof.
  intros pub signed b. unfold checkSignature_sm2, PublicKey_Verify.
  destruct (sig_decode b) as [[r s]|]; [|reflexivity].
  change (Sm2Verify pub signed [] r s) with (Sm2Verify pub signed default_uid r s).
  destruct ((r <=? 0) || (s <=? 0))%bool eqn:E; [|reflexivity].
  symmetry. apply not_true_is_false. intro H. apply C01.C01_Sm2Verify_characterisation in H as (za & _ & Hr & Hs & _).
  apply orb_true_iff in E. destruct E as [E|E]; apply Z.leb_le in E; lia.
Qed.

Lemma der_int_length : forall z, 0 <= z < 2 ^ 256 -> (length (der_int z) <= 35)%nat.
Proof.
  intros z Hz. unfold der_int. rewrite tlv_length. pose proof (int_content_length z Hz) as [H1 H2].
  rewrite der_len_short by lia. cbn [length]. lia.
Qed.

Lemma sig_encode_length : forall r s, 0 <= r < 2 ^ 256 -> 0 <= s < 2 ^ 256 -> (length (sig_encode r s) <= 72)%nat.
Proof.
  intros r s Hr Hs. unfold sig_encode. rewrite tlv_length, app_length.
  pose proof (der_int_length r Hr). pose proof (der_int_length s Hs).
  rewrite der_len_short by lia. cbn [length]. lia.
Qed.

Lemma checkSignature_sm2_iff : forall pub signed b, bytes_ok b ->
  (checkSignature_sm2 pub signed b = true <->
   exists r s, b = sig_encode r s /\ Sm2Verify pub signed [] r s = true).
Proof.
  intros pub signed b Hb. rewrite checkSignature_sm2_is_PublicKey_Verify, (C01.C01_PublicKey_Verify_strict pub signed b Hb).
  split.
  - intros (r & s & E & _ & Hv). exists r, s. split; [exact E|exact Hv].
  - intros (r & s & E & Hv). exists r, s. split; [exact E|]. split; [|exact Hv].
    pose proof Hv as Hv'. apply C01.C01_Sm2Verify_characterisation in Hv' as (za & _ & Hr & Hs & _).
    subst b. pose proof sm2_n_lt_2_256. pose proof (sig_encode_length r s ltac:(lia) ltac:(lia)).
    assert (72 < 2 ^ 32) by reflexivity. lia.
Qed.

Lemma created_verifies_sm2_lemma : SM2Facts -> forall fuel d tbs rho sig rho',
  1 <= d <= sm2_n - 2 ->
  create_signature_sm2 fuel (key_of d) tbs rho = Ok (sig, rho') ->
  checkSignature_sm2 (ScalarBaseMult d) tbs sig = true.
Proof.
  intros F fuel d tbs rho sig rho' Hd H. unfold create_signature_sm2, Sign in H.
  destruct (Sm2Sign fuel (key_of d) tbs [] rho) as [[[r s] rho1]| | |] eqn:E; try discriminate.
  cbn [obind] in H. injection H as <- <-.
  pose proof (C01.C01_Sm2Sign_then_Sm2Verify F fuel d tbs [] rho r s rho1 Hd E) as Hv.
  pose proof Hv as Hv'. apply C01.C01_Sm2Verify_characterisation in Hv' as (za & _ & Hr & Hs & _).
  pose proof sm2_n_lt_2_256. pose proof (sig_encode_length r s ltac:(lia) ltac:(lia)) as Hl.
  assert (H72 : 72 < 2 ^ 32) by reflexivity.
  apply checkSignature_sm2_iff.
  - apply sig_encode_ok. lia.
  - exists r, s. split; [reflexivity|exact Hv].
Qed.

(* two signed byte strings accepted with the same signature under the same key have digests that agree mod n *)
Lemma created_rejects_changed_tbs_lemma : forall pub tbs tbs' b,
  bytes_ok b -> 0 <= fst pub < 2 ^ 256 -> 0 <= snd pub < 2 ^ 256 ->
  checkSignature_sm2 pub tbs b = true -> checkSignature_sm2 pub tbs' b = true ->
  e_spec pub default_uid tbs mod sm2_n = e_spec pub default_uid tbs' mod sm2_n.
Proof.
  intros pub tbs tbs' b Hb Hx Hy H H'.
  apply (checkSignature_sm2_iff pub tbs b Hb) in H as (r & s & E & Hv).
  apply (checkSignature_sm2_iff pub tbs' b Hb) in H' as (r' & s' & E' & Hv').
  assert (Hrs : r' = r /\ s' = s).
  { pose proof Hv as A. apply C01.C01_Sm2Verify_characterisation in A as (_ & _ & Hr & Hs & _).
    pose proof Hv' as A'. apply C01.C01_Sm2Verify_characterisation in A' as (_ & _ & Hr' & Hs' & _).
    pose proof sm2_n_lt_2_256.
    assert (Hl : Z.of_nat (length b) < 2 ^ 32).
    { subst b. pose proof (sig_encode_length r s ltac:(lia) ltac:(lia)). assert (72 < 2 ^ 32) by reflexivity. lia. }
    assert (D1 : sig_decode b = Some (r, s)) by (apply C01.C01_der_strict; [exact Hb|lia|lia|split; assumption]).
    assert (D2 : sig_decode b = Some (r', s')) by (apply C01.C01_der_strict; [exact Hb|lia|lia|split; assumption]).
    rewrite D1 in D2. injection D2 as -> ->. split; reflexivity. }
  destruct Hrs as [-> ->].
  assert (Hu : Z.of_nat (length (uid_or_default [])) < 8192) by (vm_compute; reflexivity).
  exact (C01.C01_accept_implies_same_e_mod_n pub tbs [] tbs' [] r s Hu Hu Hx Hy Hv Hv').
Qed.

(* ---------- the user id of the signing path (round 6) ---------------------------------------------------- *)
(* what an SM2 signer stores in a created object is a signature over the Z value of the DEFAULT user id, whatever
   key object it is: the model's signer is a function of (key, TBS, random stream) alone *)
Lemma create_signature_sm2_default_uid : forall fuel pr tbs rho sig rho',
  create_signature_sm2 fuel pr tbs rho = Ok (sig, rho') ->
  exists r s, sig = sig_encode r s /\ Sm2Sign fuel pr tbs default_uid rho = Ok (r, s, rho').
Proof.
  intros fuel pr tbs rho sig rho' H. unfold create_signature_sm2, Sign in H.
  change (Sm2Sign fuel pr tbs [] rho) with (Sm2Sign fuel pr tbs default_uid rho) in H.
  destruct (Sm2Sign fuel pr tbs default_uid rho) as [[[r s] rho1]| | |] eqn:E; try discriminate.
  cbn [obind] in H. injection H as <- <-. exists r, s. split; reflexivity.
Qed.

(* a signature computed over the Z value of ANOTHER user id (what a signer with a stale cached Z produces) and
   stored in an object is accepted by checkSignature only if the two SM3 digests agree modulo n *)
Lemma other_uid_Z_rejected_lemma : forall pub tbs uid r s,
  Z.of_nat (length (uid_or_default uid)) < 8192 ->
  0 <= fst pub < 2 ^ 256 -> 0 <= snd pub < 2 ^ 256 ->
  Sm2Verify pub tbs uid r s = true ->
  checkSignature_sm2 pub tbs (sig_encode r s) = true ->
  e_spec pub (uid_or_default uid) tbs mod sm2_n = e_spec pub default_uid tbs mod sm2_n.
Proof.
  intros pub tbs uid r s Hu Hx Hy Hv Hc.
  pose proof Hv as A. apply C01.C01_Sm2Verify_characterisation in A as (_ & _ & Hr & Hs & _).
  pose proof sm2_n_lt_2_256.
  pose proof (sig_encode_length r s ltac:(lia) ltac:(lia)) as Hl.
  assert (H72 : 72 < 2 ^ 32) by reflexivity.
  assert (Hb : bytes_ok (sig_encode r s)) by (apply sig_encode_ok; lia).
  apply (checkSignature_sm2_iff pub tbs _ Hb) in Hc as (r' & s' & E' & Hv').
  assert (Hrs : r' = r /\ s' = s).
  { pose proof Hv' as A'. apply C01.C01_Sm2Verify_characterisation in A' as (_ & _ & Hr' & Hs' & _).
    assert (D1 : sig_decode (sig_encode r s) = Some (r, s)) by (apply C01.C01_der_strict; [exact Hb|lia|lia|split; [reflexivity|lia]]).
    assert (D2 : sig_decode (sig_encode r s) = Some (r', s')) by (apply C01.C01_der_strict; [exact Hb|lia|lia|split; [exact E'|lia]]).
    rewrite D1 in D2. injection D2 as <- <-. split; reflexivity. }
  destruct Hrs as [-> ->].
  assert (Hd : Z.of_nat (length (uid_or_default [])) < 8192) by (vm_compute; reflexivity).
  exact (C01.C01_accept_implies_same_e_mod_n pub tbs uid tbs [] r s Hu Hd Hx Hy Hv Hv').
Qed.

(* ---------- the other key families, by contract ------------------------------------------------------------
   A signature primitive per scheme (crypto/rsa PKCS#1 v1.5 and PSS, crypto/ecdsa; also SM2, for which
   the contract is the theorem above): whatever it produces under a key verifies under the matching
   public key.  With it, every object a Create* function produces verifies under the issuer:
   the verifier runs the SAME scheme (CreateProofs.signing_consistent_lemma). *)
From GmsmVerif Require Import Gen.X509Tables X509.CreateModel X509.CreateRun X509.SigAlgTables X509.CreateProofs.

Section Primitives.
  Variables skey pkey : Type.
  Variable pub_of : skey -> pkey.
  Variable prim_sign : scheme -> skey -> list byte -> list byte -> option (list byte).   (* key, TBS, randomness *)
  Variable prim_verify : scheme -> pkey -> list byte -> list byte -> bool.                (* key, TBS, signature *)
  Hypothesis prim_complete : forall sch key tbs rho sig,
    prim_sign sch key tbs rho = Some sig -> prim_verify sch (pub_of key) tbs sig = true.

  Lemma created_verifies_by_contract_lemma : forall k s requested sch oid pss key tbs rho sig,
    create_model k s requested = Ok (sch, oid, pss) ->
    prim_sign sch key tbs rho = Some sig ->
    exists sch', checkSignature_model (getSignatureAlgorithmFromAI_model oid pss) (vkey_of s) = Ok sch' /\
                 prim_verify sch' (pub_of key) tbs sig = true.
  Proof.
    intros k s requested sch oid pss key tbs rho sig Hc Hs. exists sch. split.
    - exact (signing_consistent_lemma _ _ _ _ _ _ Hc).
    - exact (prim_complete _ _ _ _ _ Hs).
  Qed.
End Primitives.
