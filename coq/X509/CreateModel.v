(* Model of the signing decisions of /repo/x509 (utils.go: CreateCertificate; x509.go:
   CreateCertificateRequest, CreateCRL, CreateRevocationList, signingParamsForPublicKey, signingInput,
   getSignatureAlgorithmFromAI, checkSignature, oid tables) and of the field codecs gmsm owns
   (key usage bits, basic constraints).  No proofs in this file.  Tables come from Gen/X509Tables.v
   (regenerated from x509.go on every run).

   What "the bytes handed to Sign" and "the bytes the verifier checks" are is abstracted to a
   [scheme]: which primitive runs over which message (the digest of the TBS under a hash, or the raw
   TBS with the SM2 default user id).  The primitives themselves are outside this file (C01 for SM2;
   crypto/rsa, crypto/ecdsa by contract).  encoding/asn1 is modelled by contract where a codec needs
   it (optional / default fields, BIT STRING padding). *)
From Coq Require Import List NArith ZArith Bool String.
From GmsmVerif Require Import Lib.Outcome Gen.X509Tables.
Import ListNotations.
Local Open Scope N_scope.

(* ---------- table lookups (the loops over the tables in x509.go) -------------------------------- *)
Fixpoint oid_eqb (a b : list N) : bool :=
  match a, b with
  | [], [] => true
  | x :: a', y :: b' => (x =? y) && oid_eqb a' b'
  | _, _ => false
  end.

Definition row := (N * list N * N * N)%type.
Definition row_algo (r : row) : N := let '(a, _, _, _) := r in a.
Definition row_oid (r : row) : list N := let '(_, o, _, _) := r in o.
Definition row_pk (r : row) : N := let '(_, _, p, _) := r in p.
Definition row_hash (r : row) : N := let '(_, _, _, h) := r in h.

(* "for _, details := range signatureAlgorithmDetails { if details.algo == requested ..." *)
Definition details_by_algo (a : N) : option row := find (fun r => row_algo r =? a) gen_sigalg_details.
(* "... if ai.Algorithm.Equal(details.oid) { return details.algo }" *)
Definition details_by_oid (o : list N) : option row := find (fun r => oid_eqb o (row_oid r)) gen_sigalg_details.

Definition isRSAPSS_model (a : N) : bool := existsb (fun x => x =? a) gen_isRSAPSS.

(* func extKeyUsageFromOID / oidFromExtKeyUsage *)
Definition extKeyUsageFromOID_model (o : list N) : option N :=
  option_map fst (find (fun pr => oid_eqb o (snd pr)) gen_eku_oids).
Definition oidFromExtKeyUsage_model (u : N) : option (list N) :=
  option_map snd (find (fun pr => fst pr =? u) gen_eku_oids).

(* func namedCurveFromOID / oidFromNamedCurve; curves are named by the Go expression that builds them *)
Definition namedCurveFromOID_model (o : list N) : option string :=
  option_map snd (find (fun pr => oid_eqb o (fst pr)) gen_curve_from_oid).
Definition oidFromNamedCurve_model (c : string) : option (list N) :=
  option_map snd (find (fun pr => String.eqb (fst pr) c) gen_oid_from_curve).

(* func getPublicKeyAlgorithmFromOID; the algorithm OID marshalPublicKey writes for a Go key type *)
Definition getPublicKeyAlgorithmFromOID_model (o : list N) : N :=
  match find (fun pr => oid_eqb o (fst pr)) gen_pubkeyalg_from_oid with
  | Some pr => snd pr
  | None => c_UnknownPublicKeyAlgorithm
  end.
Definition marshalPublicKey_oid_model (keytype : string) : option (list N) :=
  option_map snd (find (fun pr => String.eqb (fst pr) keytype) gen_marshal_pubkey_oid).

(* ---------- signers, verifier keys, schemes ---------------------------------------------------------- *)
Inductive curve := P224 | P256 | P384 | P521 | P256Sm2 | OtherCurve.
(* the dynamic type of signer.Public() *)
Inductive signer := SgRSA | SgECDSA (c : curve) | SgSM2 (c : curve) | SgOther.
(* the dynamic type of (parsed issuer).PublicKey *)
Inductive vkey := VkRSA | VkECDSA (c : curve) | VkDSA | VkNone.

Definition curve_text (c : curve) : string :=
  match c with
  | P224 => "elliptic.P224()" | P256 => "elliptic.P256()" | P384 => "elliptic.P384()"
  | P521 => "elliptic.P521()" | P256Sm2 => "sm2.P256Sm2()" | OtherCurve => "?"
  end.
Definition key_type_text (s : signer) : string :=
  match s with
  | SgRSA => "*rsa.PublicKey" | SgECDSA _ => "*ecdsa.PublicKey" | SgSM2 _ => "*sm2.PublicKey" | SgOther => "?"
  end.
Definition signer_curve_text (s : signer) : string :=
  match s with SgECDSA c | SgSM2 c => curve_text c | _ => "" end.

(* the key a verifier holds after the signer's public key went through marshalPublicKey and
   parsePublicKey: RSA stays RSA; both EC key types come back as *ecdsa.PublicKey on the named curve *)
Definition vkey_of (s : signer) : vkey :=
  match s with
  | SgRSA => VkRSA
  | SgECDSA c | SgSM2 c => VkECDSA c
  | SgOther => VkNone
  end.

(* which primitive runs over which message *)
Inductive scheme :=
| PKCS1v15 (h : N)        (* RSA PKCS#1 v1.5 over the h-digest of the TBS *)
| PSS (h : N)             (* RSA-PSS, salt length = hash length, over the h-digest of the TBS *)
| ECDSAdigest (h : N)     (* ECDSA over the h-digest of the TBS *)
| DSAdigest (h : N)
| SM2raw.                 (* SM2 over the raw TBS, Z computed with the default user id *)

Definition scheme_eqb (a b : scheme) : bool :=
  match a, b with
  | PKCS1v15 h, PKCS1v15 k | PSS h, PSS k | ECDSAdigest h, ECDSAdigest k | DSAdigest h, DSAdigest k => h =? k
  | SM2raw, SM2raw => true
  | _, _ => false
  end.

Inductive kind := KCert | KCSR | KCRL | KRevocationList.

(* func signingParamsForPublicKey(pub, requestedSigAlgo) (hashFunc, sigAlgo, err).
   Result: hash, algorithm OID, "PSS parameters attached".
   Err 1 unknown key type / curve, 2 algorithm does not match the key type, 3 cannot sign with that
   hash (MD2), 5 signing with MD5 is not supported, 4 unknown algorithm *)
Definition signingParamsForPublicKey_model (s : signer) (requested : N) : outcome (N * list N * bool) :=
  match find (fun d => let '(kt, cv, _, _, _) := d in
                       String.eqb kt (key_type_text s) && String.eqb cv (signer_curve_text s))
             gen_signing_defaults with
  | None => Err 1
  | Some (_, _, pubType, hashFunc, oid) =>
    if requested =? 0 then Ok (hashFunc, oid, false)
    else
      match details_by_algo requested with
      | None => Err 4
      | Some r =>
        if negb (row_pk r =? pubType) then Err 2
        else if row_hash r =? 0 then Err 3
        else if row_hash r =? c_MD5 then Err 5
        else Ok (row_hash r, row_oid r, isRSAPSS_model requested)
      end
  end.

(* the SignerOpts handed to signer.Sign: CreateCertificate, CreateCertificateRequest and
   CreateRevocationList build *rsa.PSSOptions for the RSA-PSS algorithms; CreateCRL (no algorithm
   field, never PSS) passes hashFunc *)
Definition passes_pss_options (k : kind) (requested : N) : bool :=
  match k with
  | KCert => negb (requested =? 0) && isRSAPSS_model requested
  | KCSR | KRevocationList => isRSAPSS_model requested
  | KCRL => false
  end.

(* signingInput + signer.Sign: rsa.PrivateKey.Sign signs PSS iff the opts are *PSSOptions, otherwise
   PKCS#1 v1.5 with opts.HashFunc(); ecdsa.PrivateKey.Sign signs the digest it is given;
   sm2.PrivateKey.Sign hashes Z||msg itself with the default user id and is given the raw TBS *)
Definition sign_scheme (s : signer) (hashFunc : N) (pssopts : bool) : outcome scheme :=
  match s with
  | SgRSA => Ok (if pssopts then PSS hashFunc else PKCS1v15 hashFunc)
  | SgECDSA _ => Ok (ECDSAdigest hashFunc)
  | SgSM2 _ => Ok SM2raw
  | SgOther => Err 1
  end.

(* what a Create* call does: the scheme the signature is made under and the AlgorithmIdentifier
   written into the object (OID, and for PSS the hash named in the parameters) *)
Definition create_model (k : kind) (s : signer) (requested : N) : outcome (scheme * list N * option N) :=
  let requested := match k with KCRL => 0 | _ => requested end in     (* CreateCRL has no algorithm field *)
  do '(hashFunc, oid, pss) <- signingParamsForPublicKey_model s requested;
  do sch <- sign_scheme s hashFunc (passes_pss_options k requested);
  Ok (sch, oid, if pss then Some hashFunc else None).

(* func getSignatureAlgorithmFromAI(ai) SignatureAlgorithm; [pss] = the hash named by well-formed PSS
   parameters with matching MGF1 hash and salt length, None otherwise *)
Definition getSignatureAlgorithmFromAI_model (oid : list N) (pss : option N) : N :=
  if negb (oid_eqb oid gen_oidSignatureRSAPSS) then
    match details_by_oid oid with
    | Some r => row_algo r
    | None => c_UnknownSignatureAlgorithm
    end
  else
    match pss with
    | Some h =>
      if h =? c_SHA256 then c_SHA256WithRSAPSS
      else if h =? c_SHA384 then c_SHA384WithRSAPSS
      else if h =? c_SHA512 then c_SHA512WithRSAPSS
      else c_UnknownSignatureAlgorithm
    | None => c_UnknownSignatureAlgorithm
    end.

(* func checkSignature(algo, signed, signature, publicKey): the scheme it verifies under.
   (The signature bytes themselves are outside this model; since c7e548c the EC branch additionally
   demands that they are exactly the DER encoding SEQUENCE { r, s } - exercised by the arithmetic
   signature mutants of the driver.)
   Err 10 insecure algorithm, 11 unsupported algorithm / key *)
Definition checkSignature_model (algo : N) (k : vkey) : outcome scheme :=
  if existsb (fun x => x =? algo) gen_checksig_refused then Err 10
  else
    match find (fun pr => fst pr =? algo) gen_checksig_hash with
    | None => Err 11
    | Some (_, hashType) =>
      match k with
      | VkRSA => Ok (if isRSAPSS_model algo then PSS hashType else PKCS1v15 hashType)
      | VkDSA => Ok (DSAdigest hashType)
      | VkECDSA P256Sm2 => Ok SM2raw
      | VkECDSA _ => Ok (ECDSAdigest hashType)
      | VkNone => Err 11
      end
    end.

(* create, then verify under the issuer: does the verifier check under the scheme the signer used *)
Definition created_verifies (k : kind) (s : signer) (requested : N) : outcome bool :=
  do '(sch, oid, pss) <- create_model k s requested;
  match checkSignature_model (getSignatureAlgorithmFromAI_model oid pss) (vkey_of s) with
  | Ok sch' => Ok (scheme_eqb sch sch')
  | _ => Ok false
  end.

(* the family rule of the property: algorithm unset, or SM2 algorithms for SM2 keys, RSA algorithms
   for RSA keys, ECDSA algorithms for NIST-curve keys *)
Definition same_family (s : signer) (requested : N) : bool :=
  (requested =? 0) ||
  match s with
  | SgRSA => existsb (fun x => x =? requested)
               [c_MD2WithRSA; c_MD5WithRSA; c_SHA1WithRSA; c_SHA256WithRSA; c_SHA384WithRSA; c_SHA512WithRSA;
                c_SHA256WithRSAPSS; c_SHA384WithRSAPSS; c_SHA512WithRSAPSS]
  | SgECDSA _ => existsb (fun x => x =? requested) [c_ECDSAWithSHA1; c_ECDSAWithSHA256; c_ECDSAWithSHA384; c_ECDSAWithSHA512]
  | SgSM2 _ => existsb (fun x => x =? requested) [c_SM2WithSM3; c_SM2WithSHA1; c_SM2WithSHA256]
  | SgOther => false
  end.

(* ---------- key usage bits ---------------------------------------------------------------------------- *)
(* func reverseBitsInAByte(in byte) byte *)
Definition reverseBitsInAByte_model (b : N) : N :=
  let b1 := N.lor (N.shiftr b 4) ((N.shiftl b 4) mod 256) in
  let b2 := N.lor (N.land (N.shiftr b1 2) 51) (N.land ((N.shiftl b1 2) mod 256) 204) in
  let b3 := N.lor (N.land (N.shiftr b2 1) 85) (N.land ((N.shiftl b2 1) mod 256) 170) in
  b3.

(* func asn1BitLength(bitString []byte) int *)
Fixpoint trailing_zero_bits (fuel : nat) (b : N) : nat :=     (* number of low zero bits of a non-zero byte, 8 for 0 *)
  match fuel with
  | O => 0%nat
  | S f => if N.testbit b 0 then 0%nat else S (trailing_zero_bits f (N.shiftr b 1))
  end.
Fixpoint asn1BitLength_rev (rbytes : list N) (bitLen : nat) : nat :=   (* walks from the last byte *)
  match rbytes with
  | [] => 0%nat
  | b :: rest => if b =? 0 then asn1BitLength_rev rest (bitLen - 8) else (bitLen - trailing_zero_bits 8 b)%nat
  end.
Definition asn1BitLength_model (bitString : list N) : nat :=
  asn1BitLength_rev (rev bitString) (List.length bitString * 8).

(* the key-usage part of buildExtensions: the BIT STRING (bytes, bit length) handed to asn1.Marshal *)
Definition encode_keyusage (ku : N) : list N * nat :=
  let a0 := reverseBitsInAByte_model (ku mod 256) in
  let a1 := reverseBitsInAByte_model ((N.shiftr ku 8) mod 256) in
  let bitString := if a1 =? 0 then [a0] else [a0; a1] in
  (bitString, asn1BitLength_model bitString).

(* asn1.BitString.At(i) *)
Definition bitstring_at (bytes : list N) (bitLength : nat) (i : nat) : bool :=
  if Nat.leb bitLength i then false
  else N.testbit (nth (i / 8) bytes 0) (N.of_nat (7 - i mod 8)).

(* the key-usage case of parseCertificate: bits 0..8 *)
Definition decode_keyusage (bytes : list N) (bitLength : nat) : N :=
  fold_left (fun usage i => if bitstring_at bytes bitLength i then N.lor usage (N.shiftl 1 (N.of_nat i)) else usage)
            (seq 0 9) 0.

(* encoding/asn1 accepts a BIT STRING only if its unused low bits are zero (and DER wants the last byte non-zero) *)
Definition bitstring_wellformed (bytes : list N) (bitLength : nat) : bool :=
  let padding := (List.length bytes * 8 - bitLength)%nat in
  Nat.ltb padding 8 && negb (last bytes 0 =? 0) && (N.land (last bytes 0) (N.ones (N.of_nat padding)) =? 0).

(* ---------- basic constraints --------------------------------------------------------------------------- *)
(* buildExtensions: basicConstraints{template.IsCA, maxPathLen}; encoding/asn1 omits IsCA when false
   ("optional") and MaxPathLen when -1 ("optional,default:-1"): the fields present in the DER *)
Definition encode_basic_constraints (isCA : bool) (maxPathLen : Z) (maxPathLenZero : bool)
  : option bool * option Z :=
  let maxPathLen := if (maxPathLen =? 0)%Z && negb maxPathLenZero then (-1)%Z else maxPathLen in
  ((if isCA then Some true else None), (if (maxPathLen =? -1)%Z then None else Some maxPathLen)).

(* parseCertificate case 19: absent fields take their defaults; MaxPathLenZero = (MaxPathLen == 0) *)
Definition decode_basic_constraints (der : option bool * option Z) : bool * Z * bool :=
  let isCA := match fst der with Some b => b | None => false end in
  let mpl := match snd der with Some v => v | None => (-1)%Z end in
  (isCA, mpl, (mpl =? 0)%Z).

(* the path-length constraint a (MaxPathLen, MaxPathLenZero) pair stands for, as documented on the
   Certificate struct: positive = that limit, zero with MaxPathLenZero = limit 0, otherwise none *)
Definition effective_pathlen (maxPathLen : Z) (maxPathLenZero : bool) : option Z :=
  if (0 <? maxPathLen)%Z then Some maxPathLen
  else if (maxPathLen =? 0)%Z && maxPathLenZero then Some 0%Z
  else None.

(* ---------- DER INTEGER (serial numbers) ------------------------------------------------------------ *)
(* big-endian two's complement, minimal length: what encoding/asn1 writes for a *big.Int *)
Fixpoint be_bytes (n : nat) (v : N) : list N :=         (* the low n bytes of v, big endian *)
  match n with
  | O => []
  | S n' => be_bytes n' (v / 256) ++ [v mod 256]
  end.
Fixpoint int_len (fuel : nat) (n : nat) (z : Z) : nat := (* least n >= 1 with -2^(8n-1) <= z < 2^(8n-1) *)
  match fuel with
  | O => n
  | S f => if ((- 2 ^ (8 * Z.of_nat n - 1) <=? z) && (z <? 2 ^ (8 * Z.of_nat n - 1)))%Z then n else int_len f (S n) z
  end.
Definition encode_integer (z : Z) : list N :=
  let n := int_len (Z.to_nat (Z.log2 (Z.abs z)) / 8 + 2) 1 z in
  be_bytes n (Z.to_N (z mod 2 ^ (8 * Z.of_nat n))).
Definition be_value (bytes : list N) : N := fold_left (fun acc b => acc * 256 + b) bytes 0.
Definition decode_integer (bytes : list N) : Z :=
  let u := Z.of_N (be_value bytes) in
  if 128 <=? hd 0 bytes then (u - 2 ^ (8 * Z.of_nat (List.length bytes)))%Z else u.
