(* Lemmas: the string matchers of x509/verify.go (model) against NameMatchSpec, for all byte strings. *)
From Coq Require Import List NArith ZArith Bool Arith Lia.
From GmsmVerif Require Import Lib.Outcome X509.NameMatchSpec X509.PathSpec X509.VerifyModel.
Import ListNotations.

Lemma bytes_eqb_eq : forall a b, bytes_eqb a b = true <-> a = b.
Proof.
  induction a as [|x a IH]; destruct b as [|y b]; cbn; split; intro H; try reflexivity; try discriminate.
  - apply andb_true_iff in H. destruct H as [H1 H2]. apply N.eqb_eq in H1. apply IH in H2. congruence.
  - injection H as -> ->. rewrite N.eqb_refl. cbn. apply IH. reflexivity.
Qed.

Lemma bytes_eqb_refl : forall a, bytes_eqb a a = true.
Proof. intro a. apply bytes_eqb_eq. reflexivity. Qed.

Lemma bytes_eqb_neq : forall a b, bytes_eqb a b = false <-> a <> b.
Proof.
  intros a b. split.
  - intros H E. apply bytes_eqb_eq in E. congruence.
  - intro H. destruct (bytes_eqb a b) eqn:E; [|reflexivity]. apply bytes_eqb_eq in E. contradiction.
Qed.

(* ---------- toLowerCaseASCII ------------------------------------------------------------------ *)
Lemma lower_no_upper : forall s, existsb is_upper s = false -> map lower_byte s = s.
Proof.
  induction s as [|b s IH]; cbn [map existsb]; intro H; [reflexivity|].
  apply orb_false_iff in H. destruct H as [H1 H2].
  rewrite IH by exact H2. unfold lower_byte. rewrite H1. reflexivity.
Qed.

Lemma toLowerCaseASCII_lower : forall rune_error s, toLowerCaseASCII_model rune_error s = lower s.
Proof.
  intros re s. unfold toLowerCaseASCII_model, lower.
  destruct (re s); cbn; [reflexivity|].
  destruct (existsb is_upper s) eqn:E; cbn; [reflexivity|].
  symmetry. apply lower_no_upper. exact E.
Qed.

(* ---------- matchNameConstraint ----------------------------------------------------------------- *)
Lemma lower_length : forall s, length (lower s) = length s.
Proof. intro s. unfold lower. apply map_length. Qed.

Lemma nth_last_app : forall (q : list N) x, nth (length (q ++ [x]) - 1) (q ++ [x]) 0%N = x.
Proof.
  intros q x. rewrite app_length. cbn. replace (length q + 1 - 1) with (length q) by lia.
  rewrite app_nth2 by lia. rewrite Nat.sub_diag. reflexivity.
Qed.

Lemma nonempty_snoc : forall (p : list N), p <> [] -> exists q x, p = q ++ [x].
Proof.
  intros p H. destruct (exists_last H) as [q [x E]]. exists q, x. exact E.
Qed.

Lemma matchNameConstraint_iff : forall d c, matchNameConstraint_model d c = true <-> in_dns_domain d c.
Proof.
  intros d c. unfold matchNameConstraint_model, in_dns_domain.
  destruct (Nat.eqb (length c) 0) eqn:Ec.
  { apply Nat.eqb_eq in Ec. destruct c; [|discriminate]. split; intro; [left|]; reflexivity. }
  apply Nat.eqb_neq in Ec.
  assert (Hc : c <> []) by (intro; subst; cbn in Ec; lia).
  destruct c as [|c0 c']; [contradiction|].
  destruct (Nat.ltb (length d) (length (c0 :: c'))) eqn:El.
  { apply Nat.ltb_lt in El. split; [discriminate|].
    intros [H|[p [s [Hd [Hs _]]]]]; [discriminate|].
    exfalso. apply (f_equal (@length N)) in Hs. rewrite !lower_length in Hs.
    subst d. rewrite app_length in El. lia. }
  apply Nat.ltb_ge in El.
  set (k := length d - length (c0 :: c')).
  unfold equalFold_model.
  destruct (bytes_eqb (lower (skipn k d)) (lower (c0 :: c'))) eqn:Ef; cbn [negb].
  2:{ split; [discriminate|].
      intros [H|[p [s [Hd [Hs _]]]]]; [discriminate|]. exfalso.
      assert (Hl : length s = length (c0 :: c')).
      { apply (f_equal (@length N)) in Hs. rewrite !lower_length in Hs. exact Hs. }
      assert (Hk : k = length p). { unfold k. subst d. rewrite app_length. lia. }
      rewrite Hk in Ef. subst d. rewrite skipn_app, Nat.sub_diag, skipn_all in Ef. cbn [app skipn] in Ef.
      rewrite Hs in Ef. rewrite bytes_eqb_refl in Ef. discriminate. }
  apply bytes_eqb_eq in Ef.
  destruct (Nat.eqb k 0) eqn:Ek.
  { apply Nat.eqb_eq in Ek. split; [|reflexivity]. intros _. right.
    exists [], d. split; [reflexivity|]. split; [|left; reflexivity].
    rewrite Ek in Ef. exact Ef. }
  apply Nat.eqb_neq in Ek.
  assert (Hd : d = firstn k d ++ skipn k d) by (symmetry; apply firstn_skipn).
  assert (Hfl : length (firstn k d) = k) by (apply firstn_length_le; unfold k; lia).
  assert (Hne : firstn k d <> []) by (intro E; rewrite E in Hfl; cbn in Hfl; lia).
  destruct (nonempty_snoc _ Hne) as [q [x Hq]].
  assert (Hx : nth (k - 1) d 0%N = x).
  { rewrite Hd, Hq. rewrite <- Hfl at 1. rewrite Hq. rewrite app_nth1.
    - apply nth_last_app.
    - rewrite app_length. cbn. lia. }
  rewrite Hx. cbn [nth].
  split.
  - intro H. right. exists (firstn k d), (skipn k d). split; [exact Hd|]. split; [exact Ef|].
    right. destruct (x =? DOT)%N eqn:E1; destruct (c0 =? DOT)%N eqn:E2; cbn in H; try discriminate.
    + left. split. { exists q. apply N.eqb_eq in E1. rewrite Hq, E1. reflexivity. }
      cbn. intro E. injection E as E. apply N.eqb_neq in E2. contradiction.
    + right. split. { exists q, x. split; [exact Hq|]. apply N.eqb_neq in E1. exact E1. }
      cbn. apply N.eqb_eq in E2. subst c0. reflexivity.
  - intros [H|[p [s [Hd' [Hs Hp]]]]]; [discriminate|].
    assert (Hl : length s = length (c0 :: c')).
    { apply (f_equal (@length N)) in Hs. rewrite !lower_length in Hs. exact Hs. }
    assert (Hk : k = length p). { unfold k. rewrite Hd'. rewrite app_length. lia. }
    assert (Hp' : p = firstn k d).
    { rewrite Hd', Hk. rewrite firstn_app, Nat.sub_diag, firstn_all. cbn. rewrite app_nil_r. reflexivity. }
    destruct Hp as [Hp|[[[q' Hq'] Hh]|[[q' [x' [Hq' Hx']]] Hh]]].
    + subst p. cbn in Hk. contradiction.
    + rewrite Hp', Hq in Hq'. apply app_inj_tail in Hq'. destruct Hq' as [_ ->].
      cbn. destruct (c0 =? DOT)%N eqn:E2; [|reflexivity].
      apply N.eqb_eq in E2. subst c0. exfalso. apply Hh. reflexivity.
    + rewrite Hp', Hq in Hq'. apply app_inj_tail in Hq'. destruct Hq' as [_ <-].
      cbn in Hh. injection Hh as ->. apply N.eqb_neq in Hx'. rewrite Hx'. reflexivity.
Qed.

(* ---------- matchHostnames ---------------------------------------------------------------------- *)
Lemma trim_dot_snoc : forall l x, trim_dot (l ++ [x]) = if (x =? DOT)%N then l else l ++ [x].
Proof.
  induction l as [|a l IH]; intro x.
  - cbn. destruct (x =? DOT)%N; reflexivity.
  - cbn [app]. change (trim_dot (a :: l ++ [x])) with
      (match l ++ [x] with [] => if (a =? DOT)%N then [] else [a] | _ :: _ => a :: trim_dot (l ++ [x]) end).
    destruct (l ++ [x]) eqn:E. { destruct l; discriminate. }
    rewrite <- E. rewrite IH. destruct (x =? DOT)%N; reflexivity.
Qed.

Lemma trim_dot_strip : forall s, trim_dot s = strip_dot s.
Proof.
  intro s. destruct s as [|a s'] using rev_ind; [reflexivity|].
  rewrite trim_dot_snoc. unfold strip_dot. rewrite rev_unit.
  destruct (a =? DOT)%N; [apply eq_sym, rev_involutive|reflexivity].
Qed.

Lemma split_dot_nonempty : forall s, split_dot s <> [].
Proof.
  induction s as [|b s IH]; cbn; [discriminate|].
  destruct (b =? DOT)%N; [discriminate|]. destruct (split_dot s); discriminate.
Qed.

Lemma split_dot_app : forall l r, ~ In DOT l -> split_dot (l ++ DOT :: r) = l :: split_dot r.
Proof.
  induction l as [|a l IH]; intros r H.
  - reflexivity.
  - cbn [app split_dot]. destruct (a =? DOT)%N eqn:E.
    { apply N.eqb_eq in E. exfalso. apply H. left. exact E. }
    rewrite IH; [reflexivity|]. intro Hi. apply H. right. exact Hi.
Qed.

Lemma split_dot_nodot : forall l, ~ In DOT l -> split_dot l = [l].
Proof.
  induction l as [|a l IH]; intro H; [reflexivity|].
  cbn [split_dot]. destruct (a =? DOT)%N eqn:E.
  { apply N.eqb_eq in E. exfalso. apply H. left. exact E. }
  rewrite IH; [reflexivity|]. intro Hi. apply H. right. exact Hi.
Qed.

Lemma split_dot_cons : forall s l ps, split_dot s = l :: ps ->
  ~ In DOT l /\ ((ps = [] /\ s = l) \/ exists r, s = l ++ DOT :: r /\ ps = split_dot r).
Proof.
  induction s as [|b s IH]; intros l ps H.
  - cbn in H. injection H as <- <-. split; [intros []|]. left. split; reflexivity.
  - cbn [split_dot] in H. destruct (b =? DOT)%N eqn:E.
    + apply N.eqb_eq in E. subst b. injection H as <- <-. split; [intros []|].
      right. exists s. split; reflexivity.
    + destruct (split_dot s) as [|p ps'] eqn:Es. { exfalso. exact (split_dot_nonempty s Es). }
      injection H as <- <-. destruct (IH p ps' eq_refl) as [Hn Hc].
      split.
      * intros [Hb|Hi]; [|exact (Hn Hi)]. apply N.eqb_neq in E. apply E. exact Hb.
      * destruct Hc as [[-> ->]|[r [-> ->]]].
        -- left. split; reflexivity.
        -- right. exists r. split; reflexivity.
Qed.

Lemma split_dot_inj_aux : forall ps a b, split_dot a = ps -> split_dot b = ps -> a = b.
Proof.
  induction ps as [|l ps IH]; intros a b Ha Hb.
  - exfalso. exact (split_dot_nonempty a Ha).
  - destruct (split_dot_cons _ _ _ Ha) as [_ [[Ea ->]|[ra [-> Era]]]];
    destruct (split_dot_cons _ _ _ Hb) as [_ [[Eb ->]|[rb [-> Erb]]]].
    + reflexivity.
    + exfalso. apply (split_dot_nonempty rb). congruence.
    + exfalso. apply (split_dot_nonempty ra). congruence.
    + f_equal. f_equal. apply IH; symmetry; assumption.
Qed.

Lemma split_dot_inj : forall a b, split_dot a = split_dot b -> a = b.
Proof. intros a b H. apply (split_dot_inj_aux (split_dot b)); [exact H|reflexivity]. Qed.

Lemma parts_match_false_iff : forall pp hp, length pp = length hp ->
  (parts_match false pp hp = true <-> pp = hp).
Proof.
  induction pp as [|p pp IH]; destruct hp as [|h hp]; cbn; intro Hl; try discriminate.
  - split; reflexivity.
  - injection Hl as Hl. destruct (bytes_eqb p h) eqn:E.
    + apply bytes_eqb_eq in E. subst h. rewrite (IH hp Hl). split; [intros ->; reflexivity|].
      intro H. injection H as ->. reflexivity.
    + apply bytes_eqb_neq in E. split; [discriminate|]. intro H. injection H as -> _. contradiction.
Qed.

Lemma parts_match_true_iff : forall pp hp, length pp = length hp ->
  (parts_match true pp hp = true <->
   pp = hp \/ exists ps h0, pp = [STAR] :: ps /\ hp = h0 :: ps).
Proof.
  intros pp hp Hl. destruct pp as [|p pp]; destruct hp as [|h hp]; try discriminate.
  - cbn. split; [left|]; reflexivity.
  - injection Hl as Hl. cbn [parts_match andb].
    destruct (bytes_eqb p [STAR]) eqn:Es.
    + apply bytes_eqb_eq in Es. subst p. rewrite (parts_match_false_iff pp hp Hl). split.
      * intros ->. right. exists hp, h. split; reflexivity.
      * intros [H|[ps [h0 [H1 H2]]]].
        -- injection H as _ ->. reflexivity.
        -- injection H1 as ->. injection H2 as _ ->. reflexivity.
    + apply bytes_eqb_neq in Es. destruct (bytes_eqb p h) eqn:E.
      * apply bytes_eqb_eq in E. subst h. rewrite (parts_match_false_iff pp hp Hl). split.
        -- intros ->. left. reflexivity.
        -- intros [H|[ps [h0 [H1 _]]]].
           ++ injection H as ->. reflexivity.
           ++ injection H1 as -> _. contradiction.
      * apply bytes_eqb_neq in E. split; [discriminate|].
        intros [H|[ps [h0 [H1 _]]]].
        -- injection H as -> _. contradiction.
        -- injection H1 as -> _. contradiction.
Qed.

Lemma length_zero_nil : forall (s : list N), Nat.eqb (length s) 0 = false <-> s <> [].
Proof.
  intro s. destruct s; cbn; split; intro H; try reflexivity; try discriminate; try contradiction.
Qed.

Lemma star_not_dot : (STAR =? DOT)%N = false.
Proof. reflexivity. Qed.

Lemma matchHostnames_iff : forall P H, matchHostnames_model P H = true <-> dns_match P H.
Proof.
  intros P H. unfold matchHostnames_model, dns_match. rewrite !trim_dot_strip.
  set (p := strip_dot P). set (h := strip_dot H).
  destruct (Nat.eqb (length p) 0) eqn:Ep.
  { apply Nat.eqb_eq in Ep. destruct p; [|discriminate]. cbn. split; [discriminate|].
    intros [Hp _]. contradiction. }
  destruct (Nat.eqb (length h) 0) eqn:Eh.
  { apply Nat.eqb_eq in Eh. destruct h; [|discriminate]. cbn. split; [discriminate|].
    intros [_ [Hh _]]. contradiction. }
  cbn [orb]. apply length_zero_nil in Ep. apply length_zero_nil in Eh.
  destruct (Nat.eqb (length (split_dot p)) (length (split_dot h))) eqn:El; cbn [negb].
  - apply Nat.eqb_eq in El. rewrite (parts_match_true_iff _ _ El). split.
    + intros Hm. split; [exact Ep|]. split; [exact Eh|].
      destruct Hm as [Hm|[ps [h0 [H1 H2]]]].
      * left. apply split_dot_inj. exact Hm.
      * right.
        destruct (split_dot_cons _ _ _ H1) as [_ [[Ea Ea']|[ra [Ea Era]]]];
        destruct (split_dot_cons _ _ _ H2) as [Hn [[Eb Eb']|[rb [Eb Erb]]]].
        -- exists h0, []. rewrite Ea', Eb', app_nil_r. repeat split; auto.
        -- exfalso. apply (split_dot_nonempty rb). congruence.
        -- exfalso. apply (split_dot_nonempty ra). congruence.
        -- assert (ra = rb) by (apply split_dot_inj; congruence). subst rb.
           exists h0, (DOT :: ra). rewrite Ea, Eb. repeat split; auto. right. exists ra. reflexivity.
    + intros [_ [_ [Hm|[l [rest [H1 [H2 [Hn Hr]]]]]]]].
      * left. rewrite Hm. reflexivity.
      * right. destruct Hr as [->|[r ->]].
        -- rewrite H1, H2, app_nil_r. rewrite (split_dot_nodot l Hn). exists [], l. split; reflexivity.
        -- rewrite H1, H2. rewrite (split_dot_app l r Hn).
           change (STAR :: DOT :: r) with ([STAR] ++ DOT :: r).
           rewrite split_dot_app. { exists (split_dot r), l. split; reflexivity. }
           intros [E|[]]. discriminate E.
  - apply Nat.eqb_neq in El. split; [discriminate|].
    intros [_ [_ [Hm|[l [rest [H1 [H2 [Hn Hr]]]]]]]]; exfalso; apply El.
    + rewrite Hm. reflexivity.
    + destruct Hr as [->|[r ->]].
      * rewrite H1, H2, app_nil_r. rewrite (split_dot_nodot l Hn). reflexivity.
      * rewrite H1, H2. rewrite (split_dot_app l r Hn).
        change (STAR :: DOT :: r) with ([STAR] ++ DOT :: r).
        rewrite split_dot_app. { reflexivity. }
        intros [E|[]]. discriminate E.
Qed.

(* ---------- IP equality, brackets, VerifyHostname ------------------------------------------------ *)
Lemma ip_equal_iff : forall a b, ip_equal a b = true <-> same_ip a b.
Proof.
  intros a b. unfold ip_equal, same_ip.
  destruct (Nat.eqb (length a) (length b)) eqn:E.
  { apply Nat.eqb_eq in E. rewrite bytes_eqb_eq. split.
    - intros ->. left. split; reflexivity.
    - intros [[_ H]|[[H1 [H2 _]]|[H1 [H2 _]]]]; [exact H| |]; rewrite H1, H2 in E; discriminate. }
  apply Nat.eqb_neq in E.
  destruct (Nat.eqb (length a) 4 && Nat.eqb (length b) 16) eqn:E1.
  { apply andb_true_iff in E1. destruct E1 as [Ha Hb]. apply Nat.eqb_eq in Ha. apply Nat.eqb_eq in Hb.
    rewrite andb_true_iff, !bytes_eqb_eq. split.
    - intros [H1 H2]. right. left. repeat split; auto.
      rewrite <- (firstn_skipn 12 b). rewrite H1, H2. reflexivity.
    - intros [[H _]|[[_ [_ H]]|[H [_ _]]]]; [contradiction| |rewrite Ha in H; discriminate].
      subst b. split.
      + change 12 with (length v4_in_v6_prefix). rewrite firstn_app, Nat.sub_diag, firstn_all. cbn [firstn].
        rewrite app_nil_r. reflexivity.
      + change 12 with (length v4_in_v6_prefix). rewrite skipn_app, Nat.sub_diag, skipn_all. reflexivity. }
  destruct (Nat.eqb (length a) 16 && Nat.eqb (length b) 4) eqn:E2.
  { apply andb_true_iff in E2. destruct E2 as [Ha Hb]. apply Nat.eqb_eq in Ha. apply Nat.eqb_eq in Hb.
    rewrite andb_true_iff, !bytes_eqb_eq. split.
    - intros [H1 H2]. right. right. repeat split; auto.
      rewrite <- (firstn_skipn 12 a). rewrite H1, H2. reflexivity.
    - intros [[H _]|[[H [_ _]]|[_ [_ H]]]]; [contradiction|rewrite Ha in H; discriminate|].
      subst a. split.
      + change 12 with (length v4_in_v6_prefix). rewrite firstn_app, Nat.sub_diag, firstn_all. cbn [firstn].
        rewrite app_nil_r. reflexivity.
      + change 12 with (length v4_in_v6_prefix). rewrite skipn_app, Nat.sub_diag, skipn_all. reflexivity. }
  split; [discriminate|].
  intros [[H _]|[[H1 [H2 _]]|[H1 [H2 _]]]]; [contradiction| |].
  - rewrite H1, H2 in E1. discriminate.
  - rewrite H1, H2 in E2. discriminate.
Qed.

Lemma candidate_ip_strip : forall h,
  (if Nat.leb 3 (length h) && (nth 0 h 0 =? LBR)%N && (nth (length h - 1) h 0 =? RBR)%N
   then firstn (length h - 2) (skipn 1 h) else h) = strip_brackets h.
Proof.
  intro h. unfold strip_brackets. destruct h as [|b t]; [reflexivity|].
  destruct t as [|e m] using rev_ind.
  { cbn. reflexivity. }
  clear IHm. rewrite rev_unit. cbn [nth skipn length].
  rewrite app_length. cbn [length].
  replace (S (length m + 1) - 1) with (S (length m)) by lia.
  cbn [nth]. rewrite app_nth2 by lia. rewrite Nat.sub_diag. cbn [nth].
  replace (S (length m + 1) - 2) with (length m) by lia.
  rewrite firstn_app, Nat.sub_diag, firstn_all. cbn [firstn]. rewrite app_nil_r.
  rewrite rev_involutive, rev_length.
  destruct m as [|m0 m'].
  - cbn. rewrite andb_false_r. reflexivity.
  - replace (Nat.leb 3 (S (length (m0 :: m') + 1))) with true by (symmetry; apply Nat.leb_le; cbn; lia).
    cbn [length Nat.eqb negb andb]. rewrite andb_true_r. reflexivity.
Qed.

Section Hostname.
  Variable parse_ip : list byte -> option (list byte).
  Variable rune_error : list byte -> bool.

  Lemma VerifyHostname_iff : forall c h,
    VerifyHostname_model parse_ip rune_error c h = true <-> host_matches parse_ip c h.
  Proof.
    intros c h. unfold VerifyHostname_model, host_matches. rewrite candidate_ip_strip.
    destruct (parse_ip (strip_brackets h)) as [ip|].
    - rewrite existsb_exists. split; intros [a [H1 H2]]; exists a; (split; [exact H1|]); apply ip_equal_iff; exact H2.
    - rewrite !toLowerCaseASCII_lower. unfold presented_names.
      destruct (c_dnsnames c) as [|n0 ns] eqn:En.
      + cbn [length Nat.eqb negb]. rewrite matchHostnames_iff. split.
        * intro H. exists (c_cn c). split; [left; reflexivity|exact H].
        * intros [name [[<-|[]] H]]. exact H.
      + cbn [length Nat.eqb negb]. rewrite existsb_exists. split.
        * intros [m [H1 H2]]. exists m. split; [exact H1|].
          rewrite toLowerCaseASCII_lower, matchHostnames_iff in H2. exact H2.
        * intros [m [H1 H2]]. exists m. split; [exact H1|].
          rewrite toLowerCaseASCII_lower, matchHostnames_iff. exact H2.
  Qed.
End Hostname.
