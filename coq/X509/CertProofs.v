(* Round trips of the certificate / certificate-request models of X509/CertModel.v. *)
From Coq Require Import List NArith ZArith Bool Arith Lia ZifyN ZifyNat ZifyBool String.
From GmsmVerif Require Import Lib.Outcome Gen.X509Tables X509.CreateModel X509.CreateRun X509.SigAlgTables X509.CreateProofs
     X509.DerLayer X509.DerLayerProofs X509.ExtModel X509.ExtProofs X509.CrlModel X509.CrlProofs X509.CertModel.
From GmsmVerif Require Import SM2.SM2Bytes SM2.SM2BytesProofs EC.SM2Curve.
Import ListNotations.
Local Open Scope N_scope.

(* ---------- KeyUsage value -------------------------------------------------------------------------------- *)
Lemma keyusage_value_sweep :
  forallb (fun ku => match parse_keyusage_value (build_keyusage_value ku) with Ok k => k =? ku | _ => false end)
          (map N.of_nat (seq 1 511)) = true.
Proof. vm_compute. reflexivity. Qed.

Lemma keyusage_value_roundtrip_lemma : forall ku, 0 < ku < 512 ->
  parse_keyusage_value (build_keyusage_value ku) = Ok ku.
Proof.
  intros ku Hr. pose proof keyusage_value_sweep as H. rewrite forallb_forall in H.
  assert (Hin : In ku (map N.of_nat (seq 1 511))).
  { apply in_map_iff. exists (N.to_nat ku). split; [apply N2Nat.id|]. apply in_seq. lia. }
  specialize (H ku Hin). destruct (parse_keyusage_value (build_keyusage_value ku)) as [k| | |]; try discriminate.
  apply N.eqb_eq in H. subst. reflexivity.
Qed.

(* ---------- BasicConstraints value ------------------------------------------------------------------------ *)
Lemma bc_value_roundtrip_lemma : forall isCA mpl zero,
  small (build_bc_value isCA mpl zero) ->
  parse_bc_value (build_bc_value isCA mpl zero) =
    Ok (decode_basic_constraints (encode_basic_constraints isCA mpl zero)).
Proof.
  intros isCA mpl zero Hs. unfold parse_bc_value, build_bc_value in *.
  destruct (encode_basic_constraints isCA mpl zero) as [oc om] eqn:E.
  assert (Hoc : oc = if isCA then Some true else None).
  { unfold encode_basic_constraints in E. injection E as <- _. reflexivity. }
  rewrite unmarshal_sequence_tlv; [| |exact Hs].
  2:{ intros p Hp. apply in_app_or in Hp. destruct Hp as [Hp|Hp].
      - destruct oc; [destruct Hp as [<-|[]]; apply low_const; reflexivity|destruct Hp].
      - destruct om; [destruct Hp as [<-|[]]; apply low_const; reflexivity|destruct Hp]. }
  cbn [obind]. subst oc. destruct isCA; cbn [app].
  - change (ID_BOOLEAN =? ID_BOOLEAN) with true. cbn iota. change (255 =? 255) with true. cbn iota. cbn [obind].
    destruct om as [m|]; cbn [app].
    + change (ID_INTEGER =? ID_INTEGER) with true. cbn iota. rewrite decode_encode_integer. reflexivity.
    + reflexivity.
  - destruct om as [m|]; cbn [app].
    + change (ID_INTEGER =? ID_BOOLEAN) with false. cbn iota. cbn [obind].
      change (ID_INTEGER =? ID_INTEGER) with true. cbn iota. rewrite decode_encode_integer. reflexivity.
    + reflexivity.
Qed.

(* ---------- SubjectPublicKeyInfo --------------------------------------------------------------------------- *)
Lemma sm2_spki_oids :
  oid_okb oid_sm2_key_algorithm = true /\ oid_okb oid_sm2_curve = true /\
  getPublicKeyAlgorithmFromOID_model oid_sm2_key_algorithm = c_ECDSA /\
  namedCurveFromOID_model oid_sm2_curve = Some "sm2.P256Sm2()"%string.
Proof. vm_compute. repeat split; reflexivity. Qed.

Lemma point_bytes_length : forall x y, List.length (point_bytes x y) = 65%nat.
Proof. intros. unfold point_bytes. cbn [List.length]. rewrite app_length, !i2osp_length. reflexivity. Qed.

Lemma sm2_p_lt : (sm2_p < 256 ^ Z.of_nat 32)%Z.
Proof. reflexivity. Qed.

Lemma spki_roundtrip_lemma : forall x y,
  (0 <= x < sm2_p)%Z -> (0 <= y < sm2_p)%Z -> sm2_on_curve x y = true ->
  parse_spki_sm2 (spki_content_sm2 x y) = Ok (x, y).
Proof.
  intros x y Hx Hy Hon. unfold spki_content_sm2, spki_content_with, spki_algorithm_sm2.
  destruct sm2_spki_oids as (Ho1 & Ho2 & Halg & Hcurve).
  apply oid_okb_ok in Ho1. apply oid_okb_ok in Ho2.
  destruct (enc_of_ok _ Ho1) as [_ Hd1]. destruct (enc_of_ok _ Ho2) as [_ Hd2].
  assert (Hsmall : forall n l, (List.length l <= n)%nat -> (n < 1000)%nat -> small l).
  { intros n l H1 H2. unfold small, LIMIT. cbn. lia. }
  assert (Hl1 : (List.length (oid_bytes oid_sm2_key_algorithm) <= 20)%nat) by (vm_compute; lia).
  assert (Hl2 : (List.length (oid_bytes oid_sm2_curve) <= 20)%nat) by (vm_compute; lia).
  set (o1 := oid_bytes oid_sm2_key_algorithm) in *. set (o2 := oid_bytes oid_sm2_curve) in *.
  assert (Hwl : (List.length (write_all [(ID_OID, o1); (ID_OID, o2)]) <= 60)%nat) by (apply Nat.leb_le; vm_compute; reflexivity).
  assert (Halgsmall : small (write_all [(ID_OID, o1); (ID_OID, o2)])) by (apply (Hsmall 60%nat); [exact Hwl|lia]).
  unfold parse_spki_sm2.
  rewrite elems_of_write_all.
  - cbn [obind]. change (negb (ID_SEQUENCE =? ID_SEQUENCE)) with false. change (negb (ID_BITSTRING =? ID_BITSTRING)) with false. cbn [orb].
    rewrite elems_of_write_all; [|intros p [<-|[<-|[]]]; apply low_const; reflexivity|exact Halgsmall].
    cbn [obind]. change (negb (ID_OID =? ID_OID)) with false. cbn [orb].
    change o1 with (enc_of oid_sm2_key_algorithm). change o2 with (enc_of oid_sm2_curve). rewrite Hd1, Hd2.
    rewrite Halg, N.eqb_refl. cbn [negb]. rewrite Hcurve. change (String.eqb "sm2.P256Sm2()" "sm2.P256Sm2()") with true. cbn [negb].
    unfold parse_bitstring. change (7 <? 0) with false. cbn [orb].
    rewrite point_bytes_length. cbn [Nat.eqb andb orb]. change (N.ones 0) with 0. rewrite N.land_0_r. cbn [N.eqb negb obind].
    unfold point_bytes. rewrite app_length, !i2osp_length. cbn [Nat.add Nat.eqb negb].
    rewrite (firstn_app_exact _ _ _ _ (i2osp_length 32 x)), (skipn_app_exact _ _ _ _ (i2osp_length 32 x)).
    pose proof sm2_p_lt as Hp.
    rewrite !os2ip_i2osp_small by lia.
    replace (sm2_p <=? x)%Z with false by (symmetry; apply Z.leb_gt; lia).
    replace (sm2_p <=? y)%Z with false by (symmetry; apply Z.leb_gt; lia).
    rewrite Hon. reflexivity.
  - intros p [<-|[<-|[]]]; apply low_const; reflexivity.
  - apply (Hsmall 200%nat); [|lia].
    set (A := write_all [(ID_OID, o1); (ID_OID, o2)]) in *.
    change (write_all [(ID_SEQUENCE, A); (ID_BITSTRING, 0 :: point_bytes x y)])
      with ((tlv ID_SEQUENCE A ++ (tlv ID_BITSTRING (0 :: point_bytes x y) ++ []))%list).
    rewrite !app_length. unfold tlv. cbn [List.length]. rewrite !app_length. cbn [List.length]. rewrite point_bytes_length.
    unfold der_len.
    replace (N.of_nat (List.length A) <? 128) with true by (symmetry; apply N.ltb_lt; lia).
    change (N.of_nat 66 <? 128) with true. cbn [List.length]. lia.
Qed.

(* ---------- the TBSCertificate frame and the CSR body ------------------------------------------------------- *)
Section Frame.
  Variable T : Type.
  Variable enc_time : T -> N * list N.
  Variable dec_time : N * list N -> option T.
  Hypothesis time_rt : forall t, dec_time (enc_time t) = Some t.
  Hypothesis time_id : forall t, is_time_id (fst (enc_time t)) = true.

  Definition tbs_cert_ok (t : tbs_cert T) : Prop :=
    fst (tc_alg t) = ID_SEQUENCE /\ fst (tc_issuer t) = ID_SEQUENCE /\ fst (tc_subject t) = ID_SEQUENCE /\
    Forall ext_ok (tc_exts t).

  Lemma tbs_cert_roundtrip_lemma : forall t,
    tbs_cert_ok t -> small (build_tbs_cert T enc_time t) ->
    parse_tbs_cert T dec_time (build_tbs_cert T enc_time t) = Ok t.
  Proof.
    intros [serial alg iss nb na subj spki exts] (Ha & Hi & Hsu & Hx) Hs. cbn [tc_alg tc_issuer tc_subject tc_exts] in *.
    set (elems := [(ID_CTX0_CONS, tlv ID_INTEGER [2]); (ID_INTEGER, encode_integer serial); alg; iss;
                   (ID_SEQUENCE, write_all [enc_time nb; enc_time na]); subj; (ID_SEQUENCE, spki);
                   (ID_CTX3_CONS, tlv ID_SEQUENCE (write_all (map enc_ext exts)))]).
    assert (Hb : build_tbs_cert T enc_time (mkTbsCert serial alg iss nb na subj spki exts) = tlv ID_SEQUENCE (write_all elems)) by reflexivity.
    rewrite Hb in Hs. unfold parse_tbs_cert. rewrite Hb.
    assert (Hlow : forall p, In p elems -> low_tag (fst p)).
    { intros p Hp. unfold elems in Hp.
      destruct Hp as [<-|[<-|[<-|[<-|[<-|[<-|[<-|[<-|[]]]]]]]]]; cbn [fst];
        try (apply low_const; reflexivity); [rewrite Ha|rewrite Hi|rewrite Hsu]; apply low_const; reflexivity. }
    rewrite (unmarshal_sequence_tlv elems Hlow Hs). unfold elems. cbn [obind].
    pose proof (small_tlv _ _ Hs) as Hw.
    assert (Hin : forall p, In p elems -> small (snd p)) by (intros p Hp; exact (small_write_all _ Hw p Hp)).
    rewrite Ha, Hi, Hsu.
    change (negb (ID_CTX0_CONS =? ID_CTX0_CONS)) with false. change (negb (ID_INTEGER =? ID_INTEGER)) with false.
    change (negb (ID_SEQUENCE =? ID_SEQUENCE)) with false. change (negb (ID_CTX3_CONS =? ID_CTX3_CONS)) with false. cbn [orb].
    change (read_tlv (tlv ID_INTEGER [2])) with (Some (ID_INTEGER, [2], @nil N)).
    change (negb (ID_INTEGER =? ID_INTEGER)) with false. change (decode_integer [2]) with 2%Z. cbn [Z.eqb Pos.eqb negb orb].
    assert (Hval : small (write_all [enc_time nb; enc_time na])).
    { apply (Hin (ID_SEQUENCE, write_all [enc_time nb; enc_time na])). unfold elems. right. right. right. right. left. reflexivity. }
    rewrite elems_of_write_all; [|intros p [<-|[<-|[]]]; apply (time_low T enc_time time_id)|exact Hval].
    cbn [obind]. rewrite !time_id. cbn [negb orb]. rewrite !time_rt.
    assert (Hxs : small (tlv ID_SEQUENCE (write_all (map enc_ext exts)))).
    { apply (Hin (ID_CTX3_CONS, tlv ID_SEQUENCE (write_all (map enc_ext exts)))). unfold elems. do 7 right. left. reflexivity. }
    rewrite <- (app_nil_r (tlv ID_SEQUENCE (write_all (map enc_ext exts)))).
    rewrite (read_tlv_tlv ID_SEQUENCE _ [] ltac:(apply low_const; reflexivity) (small_tlv _ _ Hxs)).
    change (negb (ID_SEQUENCE =? ID_SEQUENCE)) with false. cbn iota.
    rewrite (dec_enc_exts exts Hx (small_tlv _ _ Hxs)). cbn [obind]. rewrite decode_encode_integer. reflexivity.
  Qed.

  Lemma csr_info_roundtrip_lemma : forall c : csr_info,
    fst (cr_subject c) = ID_SEQUENCE -> (forall a, In a (cr_attributes c) -> low_tag (fst a)) ->
    small (build_csr_info c) -> parse_csr_info (build_csr_info c) = Ok c.
  Proof.
    intros [subj spki attrs] Hsu Ha Hs. cbn [cr_subject cr_attributes] in *. unfold parse_csr_info, build_csr_info in *.
    cbn [cr_subject cr_spki cr_attributes] in *.
    rewrite unmarshal_sequence_tlv; [| |exact Hs].
    2:{ intros p [<-|[<-|[<-|[<-|[]]]]]; cbn [fst]; try (apply low_const; reflexivity). rewrite Hsu. apply low_const. reflexivity. }
    cbn [obind]. rewrite Hsu.
    change (negb (ID_INTEGER =? ID_INTEGER)) with false. change (negb (ID_SEQUENCE =? ID_SEQUENCE)) with false.
    change (negb (ID_CTX0_CONS =? ID_CTX0_CONS)) with false. cbn [orb].
    rewrite elems_of_write_all; [reflexivity|exact Ha|].
    apply (small_write_all _ (small_tlv _ _ Hs) (ID_CTX0_CONS, write_all attrs)). do 3 right. left. reflexivity.
  Qed.
End Frame.

(* ---------- buildExtensions, then the extension loop of parseCertificate ----------------------------------- *)
Definition expected_fields (f : cert_fields) : cert_fields :=
  let '(ca, mpl, z) := if f_bcvalid f
                       then decode_basic_constraints (encode_basic_constraints (f_isca f) (f_maxpathlen f) (f_maxpathlenzero f))
                       else (false, 0%Z, false) in
  mkFields (f_keyusage f) (f_ekus f) (f_unknown_ekus f) (f_bcvalid f) ca mpl z (f_ski f) (f_aki f)
           (f_dns f) (f_emails f) (map to4 (f_ips f)) (f_policies f) (f_permitted f)
           (match f_permitted f with [] => false | _ => f_permitted_critical f end).

Definition fields_ok (f : cert_fields) : Prop :=
  f_keyusage f < 512 /\
  Forall oid_ok (f_unknown_ekus f) /\ (forall o, In o (f_unknown_ekus f) -> extKeyUsageFromOID_model o = None) /\
  Forall oid_ok (f_policies f) /\ Forall ip_len_ok (f_ips f).

Lemma parse_extensions_app : forall a b f,
  parse_extensions f (a ++ b) = (do f' <- parse_extensions f a; parse_extensions f' b).
Proof.
  induction a as [|e a IH]; intros b f; [reflexivity|].
  cbn [app parse_extensions]. destruct (parse_one_extension f e) as [f'| | |]; cbn [obind]; [apply IH|reflexivity..].
Qed.

Lemma ext_oid_values :
  ext_oid_of "oidExtensionKeyUsage" = [2; 5; 29; 15] /\ ext_oid_of "oidExtensionExtendedKeyUsage" = [2; 5; 29; 37] /\
  ext_oid_of "oidExtensionBasicConstraints" = [2; 5; 29; 19] /\ ext_oid_of "oidExtensionSubjectKeyId" = [2; 5; 29; 14] /\
  ext_oid_of "oidExtensionAuthorityKeyId" = [2; 5; 29; 35] /\ ext_oid_of "oidExtensionSubjectAltName" = [2; 5; 29; 17] /\
  ext_oid_of "oidExtensionCertificatePolicies" = [2; 5; 29; 32] /\ ext_oid_of "oidExtensionNameConstraints" = [2; 5; 29; 30].
Proof. vm_compute. repeat split; reflexivity. Qed.

Lemma ext_oid_by_arc_values :
  ext_oid_by_arc 15 = [2; 5; 29; 15] /\ ext_oid_by_arc 37 = [2; 5; 29; 37] /\ ext_oid_by_arc 19 = [2; 5; 29; 19] /\
  ext_oid_by_arc 14 = [2; 5; 29; 14] /\ ext_oid_by_arc 35 = [2; 5; 29; 35] /\ ext_oid_by_arc 17 = [2; 5; 29; 17] /\
  ext_oid_by_arc 32 = [2; 5; 29; 32] /\ ext_oid_by_arc 30 = [2; 5; 29; 30].
Proof. vm_compute. repeat split; reflexivity. Qed.

Lemma extensions_roundtrip_lemma : forall f exts,
  fields_ok f -> buildExtensions_model f = Ok exts -> (forall e, In e exts -> small (x_val e)) ->
  parse_extensions empty_fields exts = Ok (expected_fields f).
Proof.
  intros [ku ekus unk bcv ca mpl z ski aki dns em ips pol perm pc] exts (Hku & Hunk & Hnot & Hpol & Hips) Hb Hsm.
  cbn [f_keyusage f_unknown_ekus f_policies f_ips] in *.
  destruct ext_oid_by_arc_values as (O15 & O37 & O19 & O14 & O35 & O17 & O32 & O30).
  unfold expected_fields. cbn [f_keyusage f_ekus f_unknown_ekus f_bcvalid f_isca f_maxpathlen f_maxpathlenzero
    f_ski f_aki f_dns f_emails f_ips f_policies f_permitted f_permitted_critical].
  unfold buildExtensions_model, buildExtensions_with in Hb. cbn [f_keyusage f_ekus f_unknown_ekus f_bcvalid f_isca f_maxpathlen f_maxpathlenzero
    f_ski f_aki f_dns f_emails f_ips f_policies f_permitted f_permitted_critical] in Hb.
  rewrite O15, O37, O19, O14, O35, O17, O32, O30 in Hb.
  (* name the eight segments *)
  set (s_ku := if ku =? 0 then [] else [mkExt [2; 5; 29; 15] true (build_keyusage_value ku)]) in Hb.
  destruct (match ekus, unk with
            | [], [] => Ok []
            | _, _ => do v <- build_eku ekus unk; Ok [mkExt [2; 5; 29; 37] false v]
            end) as [s_eku| | |] eqn:Eeku; try discriminate. cbn [obind] in Hb.
  set (s_bc := if bcv then [mkExt [2; 5; 29; 19] true (build_bc_value ca mpl z)] else []) in Hb.
  set (s_ski := match ski with [] => [] | k :: k' => [mkExt [2; 5; 29; 14] false (build_ski (k :: k'))] end) in Hb.
  set (s_aki := match aki with [] => [] | k :: k' => [mkExt [2; 5; 29; 35] false (build_aki (k :: k'))] end) in Hb.
  set (s_san := match dns, em, ips with
                | [], [], [] => []
                | _, _, _ => [mkExt [2; 5; 29; 17] false (marshalSANs_model dns em ips)]
                end) in Hb.
  destruct (match pol with
            | [] => Ok []
            | p :: p' => do v <- build_policies (p :: p'); Ok [mkExt [2; 5; 29; 32] false v]
            end) as [s_pol| | |] eqn:Epol; try discriminate. cbn [obind] in Hb.
  destruct (match perm with
            | [] => Ok []
            | d :: d' => do v <- build_name_constraints (d :: d'); Ok [mkExt [2; 5; 29; 30] pc v]
            end) as [s_nc| | |] eqn:Enc; try discriminate. cbn [obind] in Hb.
  injection Hb as <-.
  assert (Hin : forall seg e, In e seg ->
            (seg = s_ku \/ seg = s_eku \/ seg = s_bc \/ seg = s_ski \/ seg = s_aki \/ seg = s_san \/ seg = s_pol \/ seg = s_nc) ->
            small (x_val e)).
  { intros seg e He Hseg. apply Hsm.
    destruct Hseg as [->|[->|[->|[->|[->|[->|[->| ->]]]]]]];
      repeat (first [ apply in_or_app; left; exact He | apply in_or_app; right ]); exact He. }
  rewrite parse_extensions_app.
  (* 1. KeyUsage *)
  assert (H1 : parse_extensions empty_fields s_ku = Ok (mkFields ku [] [] false false 0%Z false [] [] [] [] [] [] [] false)).
  { unfold s_ku. destruct (ku =? 0) eqn:E; [apply N.eqb_eq in E; subst ku; reflexivity|]. apply N.eqb_neq in E.
    cbn [parse_extensions parse_one_extension id_ce_arc x_id x_val].
    rewrite keyusage_value_roundtrip_lemma by lia. reflexivity. }
  rewrite H1. cbn [obind]. rewrite ?parse_extensions_app.
  (* 2. ExtKeyUsage *)
  assert (H2 : parse_extensions (mkFields ku [] [] false false 0%Z false [] [] [] [] [] [] [] false) s_eku
               = Ok (mkFields ku ekus unk false false 0%Z false [] [] [] [] [] [] [] false)).
  { destruct ekus as [|u us]; destruct unk as [|o os]; try (injection Eeku as <-; reflexivity);
      (destruct (build_eku _ _) as [v| | |] eqn:Ev; try discriminate; cbn [obind] in Eeku; injection Eeku as <-;
       cbn [parse_extensions parse_one_extension id_ce_arc x_id x_val];
       rewrite (eku_roundtrip_lemma _ _ v Hunk Hnot Ev); [reflexivity|];
       apply (Hin [mkExt [2; 5; 29; 37] false v] (mkExt [2; 5; 29; 37] false v)); [left; reflexivity|right; left; reflexivity]). }
  rewrite H2. cbn [obind]. rewrite ?parse_extensions_app.
  (* 3. BasicConstraints *)
  set (bc3 := if bcv then decode_basic_constraints (encode_basic_constraints ca mpl z) else (false, 0%Z, false)).
  assert (H3 : parse_extensions (mkFields ku ekus unk false false 0%Z false [] [] [] [] [] [] [] false) s_bc
               = Ok (let '(ca', mpl', z') := bc3 in mkFields ku ekus unk bcv ca' mpl' z' [] [] [] [] [] [] [] false)).
  { unfold s_bc, bc3. destruct bcv; [|reflexivity].
    cbn [parse_extensions parse_one_extension id_ce_arc x_id x_val].
    rewrite bc_value_roundtrip_lemma.
    - cbn [obind]. destruct (decode_basic_constraints _) as [[ca' mpl'] z']. reflexivity.
    - apply (Hin s_bc (mkExt [2; 5; 29; 19] true (build_bc_value ca mpl z))); [left; reflexivity|do 2 right; left; reflexivity]. }
  rewrite H3. destruct bc3 as [[ca' mpl'] z']. cbn [obind]. rewrite ?parse_extensions_app.
  (* 4. SubjectKeyId *)
  assert (H4 : parse_extensions (mkFields ku ekus unk bcv ca' mpl' z' [] [] [] [] [] [] [] false) s_ski
               = Ok (mkFields ku ekus unk bcv ca' mpl' z' ski [] [] [] [] [] [] false)).
  { unfold s_ski. destruct ski as [|k k']; [reflexivity|].
    cbn [parse_extensions parse_one_extension id_ce_arc x_id x_val]. rewrite ski_roundtrip_lemma; [reflexivity|].
    apply (Hin s_ski (mkExt [2; 5; 29; 14] false (build_ski (k :: k')))); [left; reflexivity|do 3 right; left; reflexivity]. }
  rewrite H4. cbn [obind]. rewrite ?parse_extensions_app.
  (* 5. AuthorityKeyId *)
  assert (H5 : parse_extensions (mkFields ku ekus unk bcv ca' mpl' z' ski [] [] [] [] [] [] false) s_aki
               = Ok (mkFields ku ekus unk bcv ca' mpl' z' ski aki [] [] [] [] [] false)).
  { unfold s_aki. destruct aki as [|k k']; [reflexivity|].
    cbn [parse_extensions parse_one_extension id_ce_arc x_id x_val]. rewrite aki_roundtrip_lemma; [reflexivity|].
    apply (Hin s_aki (mkExt [2; 5; 29; 35] false (build_aki (k :: k')))); [left; reflexivity|do 4 right; left; reflexivity]. }
  rewrite H5. cbn [obind]. rewrite ?parse_extensions_app.
  (* 6. SubjectAltName *)
  assert (H6 : parse_extensions (mkFields ku ekus unk bcv ca' mpl' z' ski aki [] [] [] [] [] false) s_san
               = Ok (mkFields ku ekus unk bcv ca' mpl' z' ski aki dns em (map to4 ips) [] [] false)).
  { assert (Hgen : s_san = [mkExt [2; 5; 29; 17] false (marshalSANs_model dns em ips)] ->
                   parse_extensions (mkFields ku ekus unk bcv ca' mpl' z' ski aki [] [] [] [] [] false) s_san
                   = Ok (mkFields ku ekus unk bcv ca' mpl' z' ski aki dns em (map to4 ips) [] [] false)).
    { intro E. rewrite E. cbn [parse_extensions parse_one_extension id_ce_arc x_id x_val].
      rewrite san_roundtrip_lemma; [reflexivity|exact Hips|].
      apply (Hin s_san (mkExt [2; 5; 29; 17] false (marshalSANs_model dns em ips))); [rewrite E; left; reflexivity|do 5 right; left; reflexivity]. }
    unfold s_san in *. destruct dns; [destruct em; [destruct ips; [reflexivity|]|]|]; apply Hgen; reflexivity. }
  rewrite H6. cbn [obind]. rewrite ?parse_extensions_app.
  (* 7. CertificatePolicies *)
  assert (H7 : parse_extensions (mkFields ku ekus unk bcv ca' mpl' z' ski aki dns em (map to4 ips) [] [] false) s_pol
               = Ok (mkFields ku ekus unk bcv ca' mpl' z' ski aki dns em (map to4 ips) pol [] false)).
  { destruct pol as [|p p']; [injection Epol as <-; reflexivity|].
    destruct (build_policies (p :: p')) as [v| | |] eqn:Ev; try discriminate. cbn [obind] in Epol. injection Epol as <-.
    cbn [parse_extensions parse_one_extension id_ce_arc x_id x_val].
    rewrite (policies_roundtrip_lemma _ v Hpol Ev); [reflexivity|].
    apply (Hin [mkExt [2; 5; 29; 32] false v] (mkExt [2; 5; 29; 32] false v)); [left; reflexivity|do 6 right; left; reflexivity]. }
  rewrite H7. cbn [obind]. rewrite ?parse_extensions_app.
  (* 8. NameConstraints *)
  destruct perm as [|d d']; [injection Enc as <-; reflexivity|].
  destruct (build_name_constraints (d :: d')) as [v| | |] eqn:Ev; try discriminate. cbn [obind] in Enc. injection Enc as <-.
  cbn [parse_extensions parse_one_extension id_ce_arc x_id x_val x_crit].
  rewrite (name_constraints_roundtrip_lemma _ pc v Ev); [reflexivity|].
  apply (Hin [mkExt [2; 5; 29; 30] pc v] (mkExt [2; 5; 29; 30] pc v)); [left; reflexivity|do 7 right; reflexivity].
Qed.


(* every extension buildExtensions writes carries a well-formed OID *)
Lemma buildExtensions_ext_ok : forall f exts, buildExtensions_model f = Ok exts -> Forall ext_ok exts.
Proof.
  intros f exts Hb. unfold buildExtensions_model, buildExtensions_with in Hb. destruct ext_oid_by_arc_values as (O15 & O37 & O19 & O14 & O35 & O17 & O32 & O30).
  rewrite O15, O37, O19, O14, O35, O17, O32, O30 in Hb.
  assert (Hok : forall a, In a [15; 37; 19; 14; 35; 17; 32; 30] -> oid_ok [2; 5; 29; a]).
  { intros a Ha. apply oid_okb_ok. cbn in Ha. repeat (destruct Ha as [<-|Ha]; [reflexivity|]). destruct Ha. }
  destruct (match f_ekus f, f_unknown_ekus f with [], [] => Ok [] | _, _ => _ end) as [s_eku| | |] eqn:E1; try discriminate.
  cbn [obind] in Hb.
  destruct (match f_policies f with [] => Ok [] | _ => _ end) as [s_pol| | |] eqn:E2; try discriminate. cbn [obind] in Hb.
  destruct (match f_permitted f with [] => Ok [] | _ => _ end) as [s_nc| | |] eqn:E3; try discriminate. cbn [obind] in Hb.
  injection Hb as <-.
  assert (H1 : Forall ext_ok s_eku).
  { destruct (f_ekus f); destruct (f_unknown_ekus f); try (injection E1 as <-; constructor);
      (destruct (build_eku _ _); try discriminate; cbn [obind] in E1; injection E1 as <-; constructor; [|constructor];
       apply Hok; cbn; tauto). }
  assert (H2 : Forall ext_ok s_pol).
  { destruct (f_policies f); [injection E2 as <-; constructor|].
    destruct (build_policies _); try discriminate. cbn [obind] in E2. injection E2 as <-. constructor; [|constructor]. apply Hok; cbn; tauto. }
  assert (H3 : Forall ext_ok s_nc).
  { destruct (f_permitted f); [injection E3 as <-; constructor|].
    destruct (build_name_constraints _); try discriminate. cbn [obind] in E3. injection E3 as <-. constructor; [|constructor]. apply Hok; cbn; tauto. }
  repeat (apply Forall_app; split); try assumption.
  - destruct (f_keyusage f =? 0); constructor; [|constructor]. apply Hok; cbn; tauto.
  - destruct (f_bcvalid f); constructor; [|constructor]. apply Hok; cbn; tauto.
  - destruct (f_ski f); constructor; [|constructor]. apply Hok; cbn; tauto.
  - destruct (f_aki f); constructor; [|constructor]. apply Hok; cbn; tauto.
  - destruct (f_dns f); [destruct (f_emails f); [destruct (f_ips f); [constructor|]|]|];
      (constructor; [|constructor]; apply Hok; cbn; tauto).
Qed.

Lemma enc_ext_value_small : forall e, small (snd (enc_ext e)) -> small (x_val e).
Proof.
  intros e H. unfold enc_ext in H. cbn [snd] in H.
  apply (small_write_all _ H (ID_OCTET_STRING, x_val e)). apply in_or_app. right. apply in_or_app. right. left. reflexivity.
Qed.

(* the runner's instance (X509/CertRun.v) is the model *)
From GmsmVerif Require Import X509.CertRun.
Lemma cert_run_is_the_model :
  (forall x y, spki_content_run x y = spki_content_sm2 x y) /\
  (forall f, buildExtensions_run f = buildExtensions_model f).
Proof.
  split; [reflexivity|].
  intro f. unfold buildExtensions_run, buildExtensions_model, buildExtensions_with.
  destruct ext_oid_by_arc_values as (O15 & O37 & O19 & O14 & O35 & O17 & O32 & O30).
  rewrite O15, O37, O19, O14, O35, O17, O32, O30. reflexivity.
Qed.
