(* Round trips of the DER layer: what [tlv] / [base128] / [encode_oid] write is what the readers return. *)
From Coq Require Import List NArith ZArith Bool Arith Lia ZifyN ZifyNat ZifyBool.
From GmsmVerif Require Import Lib.Outcome X509.CreateModel X509.CreateRun X509.CreateProofs X509.DerLayer.
Import ListNotations.
Local Open Scope N_scope.

Lemma pow256_is_pow2 : forall k, 256 ^ k = 2 ^ (8 * k).
Proof. intro k. change 256 with (2 ^ 8). rewrite <- N.pow_mul_r. reflexivity. Qed.

Lemma nbytes_bounds : forall v, 0 < v ->
  256 ^ N.of_nat (nbytes v - 1) <= v /\ v < 256 ^ N.of_nat (nbytes v).
Proof.
  intros v Hv. unfold nbytes.
  pose proof (N.log2_spec v Hv) as [H1 H2].
  pose proof (N.div_mod (N.log2 v) 8 ltac:(lia)) as Hd. pose proof (N.mod_lt (N.log2 v) 8 ltac:(lia)) as Hm.
  replace (N.to_nat (N.log2 v / 8) + 1 - 1)%nat with (N.to_nat (N.log2 v / 8)) by lia.
  rewrite Nat2N.inj_add, N2Nat.id. rewrite !pow256_is_pow2.
  change (N.of_nat 1) with 1.
  set (L := N.log2 v) in *. set (q := L / 8) in *. set (m := L mod 8) in *. split.
  - eapply N.le_trans; [|exact H1]. apply N.pow_le_mono_r; lia.
  - eapply N.lt_le_trans; [exact H2|]. apply N.pow_le_mono_r; lia.
Qed.

Lemma nbytes_pos : forall v, (1 <= nbytes v)%nat.
Proof. intro v. unfold nbytes. generalize (N.to_nat (N.log2 v / 8)). intro x. lia. Qed.

Lemma nbytes_le_4 : forall v, 0 < v -> v < LIMIT -> (nbytes v <= 4)%nat.
Proof.
  intros v Hv Hl. unfold nbytes. pose proof (N.log2_spec v Hv) as [H1 _].
  assert (N.log2 v < 31).
  { apply (N.pow_lt_mono_r_iff 2); [lia|]. eapply N.le_lt_trans; [exact H1|exact Hl]. }
  assert (N.log2 v / 8 <= 3). { apply N.lt_succ_r. apply N.div_lt_upper_bound; lia. }
  lia.
Qed.

Lemma firstn_app_exact : forall (A : Type) (a b : list A) n, List.length a = n -> firstn n (a ++ b) = a.
Proof. intros A a b n <-. rewrite firstn_app, Nat.sub_diag, firstn_all. cbn. apply app_nil_r. Qed.

Lemma skipn_app_exact : forall (A : Type) (a b : list A) n, List.length a = n -> skipn n (a ++ b) = b.
Proof. intros A a b n <-. rewrite skipn_app, Nat.sub_diag, skipn_all. reflexivity. Qed.

Lemma read_len_der_len : forall n r, N.of_nat n < LIMIT -> read_len (der_len n ++ r) = Some (n, r).
Proof.
  intros n r Hn. unfold der_len. destruct (N.of_nat n <? 128) eqn:E.
  - cbn [app read_len]. rewrite E. rewrite Nat2N.id. reflexivity.
  - apply N.ltb_ge in E. set (v := N.of_nat n) in *. assert (Hv : 0 < v) by lia.
    pose proof (nbytes_bounds v Hv) as [Hlo Hhi]. pose proof (nbytes_le_4 v Hv Hn) as H4.
    pose proof (nbytes_pos v) as H1.
    cbn [app read_len].
    replace (N.of_nat (128 + nbytes v) <? 128) with false by (symmetry; apply N.ltb_ge; lia).
    replace (N.to_nat (N.of_nat (128 + nbytes v) - 128)) with (nbytes v) by lia.
    replace (Nat.eqb (nbytes v) 0) with false by (symmetry; apply Nat.eqb_neq; lia).
    replace (Nat.ltb 4 (nbytes v)) with false by (symmetry; apply Nat.ltb_ge; lia).
    rewrite app_length, be_bytes_length.
    replace (Nat.ltb (nbytes v + List.length r) (nbytes v)) with false by (symmetry; apply Nat.ltb_ge; lia).
    rewrite (firstn_app_exact _ _ _ _ (be_bytes_length _ _)), (skipn_app_exact _ _ _ _ (be_bytes_length _ _)).
    rewrite be_value_be_bytes, (N.mod_small _ _ Hhi).
    assert (Hhd : hd 0 (be_bytes (nbytes v) v ++ r) <> 0).
    { destruct (nbytes v) as [|k] eqn:Ek; [lia|].
      rewrite hd_app_ne by (intro Hc; apply (f_equal (@List.length N)) in Hc; rewrite be_bytes_length in Hc; discriminate).
      rewrite hd_be_bytes. replace (S k - 1)%nat with k in Hlo by lia.
      assert (Hq : v / 256 ^ N.of_nat k < 256).
      { apply N.div_lt_upper_bound; [apply N.pow_nonzero; lia|]. rewrite Nat2N.inj_succ, N.pow_succ_r' in Hhi. lia. }
      rewrite (N.mod_small _ _ Hq).
      assert (1 <= v / 256 ^ N.of_nat k). { apply N.div_le_lower_bound; [apply N.pow_nonzero; lia|lia]. }
      lia. }
    apply N.eqb_neq in Hhd. rewrite Hhd.
    replace (v <? 128) with false by (symmetry; apply N.ltb_ge; lia).
    replace (LIMIT <=? v) with false by (symmetry; apply N.leb_gt; lia).
    unfold v. rewrite Nat2N.id. reflexivity.
Qed.

Definition low_tag (id : N) : Prop := N.land id 31 <> 31.

Lemma read_tlv_tlv : forall id c rest, low_tag id -> N.of_nat (List.length c) < LIMIT ->
  read_tlv (tlv id c ++ rest) = Some (id, c, rest).
Proof.
  intros id c rest Hid Hc. unfold tlv. cbn [app read_tlv].
  apply N.eqb_neq in Hid. rewrite Hid. rewrite <- app_assoc, (read_len_der_len _ _ Hc).
  rewrite app_length. replace (Nat.ltb (List.length c + List.length rest) (List.length c)) with false
    by (symmetry; apply Nat.ltb_ge; lia).
  rewrite (firstn_app_exact _ _ _ _ eq_refl), (skipn_app_exact _ _ _ _ eq_refl). reflexivity.
Qed.

Definition elem_ok (p : N * list N) : Prop := low_tag (fst p) /\ N.of_nat (List.length (snd p)) < LIMIT.


Lemma tlv_nonempty : forall id c, tlv id c <> [].
Proof. intros. unfold tlv. discriminate. Qed.

Lemma read_all_write_all : forall l fuel, Forall elem_ok l -> (List.length l <= fuel)%nat ->
  read_all fuel (write_all l) = Some l.
Proof.
  induction l as [|[id c] l IH]; intros fuel Hok Hf.
  - destruct fuel; reflexivity.
  - destruct fuel as [|f]; [cbn in Hf; lia|].
    inversion Hok as [|? ? [H1 H2] Hrest]; subst. cbn [fst snd] in *.
    unfold write_all. cbn [map concat fst snd]. fold (write_all l).
    unfold read_all; fold read_all.
    destruct (tlv id c ++ write_all l) as [|x xs] eqn:E.
    { destruct (tlv id c) eqn:Et; [exact (False_ind _ (tlv_nonempty _ _ Et))|discriminate]. }
    rewrite <- E. rewrite (read_tlv_tlv id c _ H1 H2). rewrite IH; [reflexivity|exact Hrest|cbn in Hf; lia].
Qed.

Lemma write_all_length : forall l, (List.length l <= List.length (write_all l))%nat.
Proof.
  induction l as [|[id c] l IH]; [cbn; lia|]. unfold write_all. cbn [map concat fst snd]. fold (write_all l).
  rewrite app_length. unfold tlv. cbn [List.length]. lia.
Qed.

Lemma read_all_enough : forall l, Forall elem_ok l -> read_all (List.length (write_all l)) (write_all l) = Some l.
Proof. intros l H. apply read_all_write_all; [exact H|apply write_all_length]. Qed.

(* ---------- base 128 ------------------------------------------------------------------------------------- *)
Lemma b128_hi_parse : forall k u acc fuel tail,
  u < 128 ^ N.of_nat k -> (List.length (b128_hi k u) <= fuel)%nat ->
  parse128 fuel acc (b128_hi k u ++ tail) =
  parse128 (fuel - List.length (b128_hi k u)) (acc * 128 ^ N.of_nat (List.length (b128_hi k u)) + u) tail.
Proof.
  induction k as [|k IH]; intros u acc fuel tail Hu Hf.
  - cbn in Hu. assert (u = 0) by lia. subst. cbn. rewrite Nat.sub_0_r, N.mul_1_r, N.add_0_r. reflexivity.
  - cbn [b128_hi] in *. destruct (u =? 0) eqn:E0.
    + apply N.eqb_eq in E0. subst. cbn. rewrite Nat.sub_0_r, N.mul_1_r, N.add_0_r. reflexivity.
    + apply N.eqb_neq in E0. rewrite app_length in Hf. cbn [List.length] in Hf.
      assert (Hq : u / 128 < 128 ^ N.of_nat k).
      { apply N.div_lt_upper_bound; [lia|]. rewrite Nat2N.inj_succ, N.pow_succ_r' in Hu. lia. }
      rewrite <- app_assoc. rewrite (IH (u / 128) acc fuel _ Hq ltac:(lia)).
      remember (List.length (b128_hi k (u / 128))) as len eqn:Elen.
      destruct (fuel - len)%nat as [|f'] eqn:Ef; [lia|].
      cbn [app parse128].
      pose proof (N.mod_lt u 128 ltac:(lia)) as Hm.
      replace (128 + u mod 128 <? 128) with false by (symmetry; apply N.ltb_ge; lia).
      replace ((128 + u mod 128) mod 128) with (u mod 128) by lia.
      rewrite app_length. cbn [List.length]. rewrite <- Elen.
      replace (fuel - (len + 1))%nat with f' by lia.
      f_equal. rewrite Nat2N.inj_add, N.pow_add_r. change (N.of_nat 1) with 1. rewrite N.pow_1_r.
      pose proof (N.div_mod u 128 ltac:(lia)) as Hd. nia.
Qed.

Lemma b128_hi_length : forall k u, (List.length (b128_hi k u) <= k)%nat.
Proof.
  induction k as [|k IH]; intro u; cbn; [lia|]. destruct (u =? 0); cbn; [lia|].
  rewrite app_length. cbn. specialize (IH (u / 128)). lia.
Qed.

Lemma b128_hi_nil : forall k u, u < 128 ^ N.of_nat k -> b128_hi k u = [] -> u = 0.
Proof.
  intros [|k] u Hu H.
  - cbn in Hu. lia.
  - cbn [b128_hi] in H. destruct (u =? 0) eqn:E; [apply N.eqb_eq in E; exact E|].
    destruct (b128_hi k (u / 128)); discriminate.
Qed.

Lemma b128_hi_first : forall k u, u < 128 ^ N.of_nat k -> hd 0 (b128_hi k u ++ [0]) <> 128.
Proof.
  induction k as [|k IH]; intros u Hu.
  - cbn [b128_hi app hd]. lia.
  - cbn [b128_hi]. destruct (u =? 0) eqn:E0; [cbn [app hd]; lia|]. apply N.eqb_neq in E0.
    assert (Hq : u / 128 < 128 ^ N.of_nat k).
    { apply N.div_lt_upper_bound; [lia|]. rewrite Nat2N.inj_succ, N.pow_succ_r' in Hu. lia. }
    destruct (b128_hi k (u / 128)) as [|x xs] eqn:Eb.
    + cbn [app hd]. pose proof (b128_hi_nil k (u / 128) Hq Eb) as Hz.
      pose proof (N.div_mod u 128 ltac:(lia)) as Hd. rewrite Hz in Hd. lia.
    + specialize (IH (u / 128) Hq). rewrite Eb in IH. cbn [app hd] in *. exact IH.
Qed.

Lemma parse128_top_base128 : forall v rest, v < LIMIT -> parse128_top (base128 v ++ rest) = Some (v, rest).
Proof.
  intros v rest Hv. unfold base128.
  assert (Hq : v / 128 < 128 ^ N.of_nat 5).
  { apply N.div_lt_upper_bound; [lia|]. unfold LIMIT in Hv. cbn. cbn in Hv. lia. }
  pose proof (b128_hi_length 5 (v / 128)) as Hl.
  assert (Hl4 : (List.length (b128_hi 5 (v / 128)) <= 4)%nat).
  { (* v / 128 < 2^24 = 128^3 * 8: at most 4 digits *)
    assert (Hq4 : v / 128 < 128 ^ 4).
    { apply N.div_lt_upper_bound; [lia|]. unfold LIMIT in Hv. cbn in Hv. cbn. lia. }
    cbn [b128_hi]. repeat (match goal with |- context [?x =? 0] => destruct (x =? 0) eqn:?; cbn [List.length app] end;
                           rewrite ?app_length; cbn [List.length]); try lia. }
  assert (Hfirst : hd 0 ((b128_hi 5 (v / 128) ++ [v mod 128]) ++ rest) <> 128).
  { pose proof (b128_hi_first 5 (v / 128) Hq) as Hf.
    destruct (b128_hi 5 (v / 128)) as [|x xs]; cbn in *; [|exact Hf].
    pose proof (N.mod_lt v 128 ltac:(lia)). lia. }
  unfold parse128_top.
  destruct ((b128_hi 5 (v / 128) ++ [v mod 128]) ++ rest) as [|x xs] eqn:E.
  { destruct (b128_hi 5 (v / 128)); discriminate. }
  cbn [hd] in Hfirst. apply N.eqb_neq in Hfirst. rewrite Hfirst. rewrite <- E.
  rewrite <- app_assoc. rewrite (b128_hi_parse 5 (v / 128) 0 4 _ Hq Hl4).
  cbn [app parse128]. pose proof (N.mod_lt v 128 ltac:(lia)) as Hm.
  replace (v mod 128 <? 128) with true by (symmetry; apply N.ltb_lt; lia).
  rewrite (N.mod_small (v mod 128) 128 Hm), N.mul_0_l, N.add_0_l.
  pose proof (N.div_mod v 128 ltac:(lia)) as Hd.
  replace (v / 128 * 128 + v mod 128) with v by lia.
  replace (LIMIT <=? v) with false by (symmetry; apply N.leb_gt; exact Hv). reflexivity.
Qed.

Lemma base128_nonempty : forall v, base128 v <> [].
Proof. intro v. unfold base128. destruct (b128_hi 5 (v / 128)); discriminate. Qed.

Lemma parse_arcs_concat : forall arcs fuel, Forall (fun a => a < LIMIT) arcs -> (List.length arcs <= fuel)%nat ->
  parse_arcs fuel (concat (map base128 arcs)) = Some arcs.
Proof.
  induction arcs as [|a arcs IH]; intros fuel Hok Hf.
  - destruct fuel; reflexivity.
  - destruct fuel as [|f]; [cbn in Hf; lia|]. inversion Hok; subst. cbn [map concat].
    unfold parse_arcs; fold parse_arcs.
    destruct (base128 a ++ concat (map base128 arcs)) as [|x xs] eqn:E.
    { destruct (base128 a) eqn:Eb; [exact (False_ind _ (base128_nonempty _ Eb))|discriminate]. }
    rewrite <- E, (parse128_top_base128 a _ H1), IH; [reflexivity|assumption|cbn in Hf; lia].
Qed.

Lemma concat_base128_length : forall arcs, (List.length arcs <= List.length (concat (map base128 arcs)))%nat.
Proof.
  induction arcs as [|a arcs IH]; [cbn; lia|]. cbn [map concat]. rewrite app_length.
  pose proof (base128_nonempty a). destruct (base128 a); [contradiction|cbn; lia].
Qed.

(* the object identifiers encoding/asn1 writes AND reads back: first arc <= 2, second < 40 under 0 and 1,
   every arc (and 40*first + second) below 2^31 *)
Definition oid_ok (oid : list N) : Prop :=
  match oid with
  | a0 :: a1 :: rest => a0 <= 2 /\ (a0 < 2 -> a1 < 40) /\ a0 * 40 + a1 < LIMIT /\ Forall (fun a => a < LIMIT) rest
  | _ => False
  end.

Lemma decode_encode_oid : forall oid, oid_ok oid ->
  exists b, encode_oid oid = Some b /\ decode_oid b = Some oid.
Proof.
  intros [|a0 [|a1 rest]] H; try contradiction. destruct H as [H0 [H1 [H2 H3]]].
  unfold encode_oid.
  replace (2 <? a0) with false by (symmetry; apply N.ltb_ge; exact H0).
  assert (Hc : (a0 <? 2) && (40 <=? a1) = false).
  { destruct (a0 <? 2) eqn:E; [|reflexivity]. apply N.ltb_lt in E. cbn. apply N.leb_gt. apply H1. exact E. }
  rewrite Hc. cbn [orb]. eexists. split; [reflexivity|].
  unfold decode_oid. rewrite (parse128_top_base128 _ _ H2).
  rewrite (parse_arcs_concat rest _ H3 (concat_base128_length rest)). cbn [option_map].
  destruct (a0 * 40 + a1 <? 80) eqn:E.
  - apply N.ltb_lt in E. assert (a0 < 2) by lia. specialize (H1 H).
    f_equal. f_equal; [|f_equal].
    + rewrite N.div_add_l by lia. rewrite (N.div_small a1 40 H1). lia.
    + rewrite N.add_comm. rewrite N.mod_add by lia. apply N.mod_small. exact H1.
  - apply N.ltb_ge in E. assert (a0 = 2).
    { destruct (N.lt_ge_cases a0 2) as [Hl|Hg]; [specialize (H1 Hl); lia|lia]. }
    subst a0. f_equal. f_equal. f_equal. lia.
Qed.
