(* What the OCaml runner of C09 evaluates for the TBSCertificate cases: the certificate model of
   X509/CertModel.v with the OIDs it looks up in the generated tables (by name, i.e. with Coq strings)
   replaced by their values, computed by Coq when this file is compiled - the extracted runner must not
   contain Coq's [string] type.  No proofs here; CertProofs.cert_run_is_the_model shows the two agree. *)
From Coq Require Import List NArith ZArith Bool.
From GmsmVerif Require Import Lib.Outcome X509.CreateModel X509.DerLayer X509.ExtModel X509.CrlModel X509.CertModel.
Import ListNotations.
Local Open Scope N_scope.

Definition spki_algorithm_run : list N := Eval vm_compute in spki_algorithm_sm2.
Definition spki_content_run (x y : Z) : list N := spki_content_with spki_algorithm_run x y.
Definition buildExtensions_run : cert_fields -> outcome (list crl_ext) := buildExtensions_with (fun a => [2; 5; 29; a]).

(* the TBSCertificate for an SM2 subject key, times handed over as their DER elements *)
Definition build_tbs_cert_run (serial : Z) (alg issuer nb na subject : N * list N) (x y : Z) (f : cert_fields)
  : outcome (list N) :=
  do exts <- buildExtensions_run f;
  Ok (build_tbs_cert (N * list N) (fun e => e) (mkTbsCert serial alg issuer nb na subject (spki_content_run x y) exts)).
