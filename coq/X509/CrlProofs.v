(* Round trip of the TBSCertList model: parse_tbs (build_tbs t) = t. *)
From Coq Require Import List NArith ZArith Bool Arith Lia ZifyN ZifyNat ZifyBool.
From GmsmVerif Require Import Lib.Outcome Gen.X509Tables X509.CreateModel X509.CreateRun X509.SigAlgTables X509.CreateProofs
     X509.DerLayer X509.DerLayerProofs X509.ExtModel X509.ExtProofs X509.CrlModel.
Import ListNotations.
Local Open Scope N_scope.

Lemma elems_of_write_all : forall l, (forall p, In p l -> low_tag (fst p)) -> small (write_all l) ->
  elems_of (write_all l) = Ok l.
Proof.
  intros l Hl Hs. unfold elems_of. rewrite read_all_enough; [reflexivity|].
  apply Forall_forall. intros p Hp. split; [apply Hl; exact Hp|exact (small_write_all l Hs p Hp)].
Qed.

Definition ext_ok (x : crl_ext) : Prop := oid_ok (x_id x).

Lemma low_const : forall id, N.land id 31 =? 31 = false -> low_tag id.
Proof. intros id H. unfold low_tag. apply N.eqb_neq. exact H. Qed.

Lemma dec_enc_ext : forall x, ext_ok x -> small (snd (enc_ext x)) -> dec_ext (enc_ext x) = Ok x.
Proof.
  intros [oid crit val] Hok Hs. unfold ext_ok in Hok. cbn [x_id] in Hok.
  unfold dec_ext, enc_ext in *. cbn [fst snd x_id x_crit x_val] in *.
  change (negb (ID_SEQUENCE =? ID_SEQUENCE)) with false. cbn iota.
  rewrite elems_of_write_all; [|intros p Hp|exact Hs].
  - cbn [obind app]. change (negb (ID_OID =? ID_OID)) with false. cbn iota.
    change (oid_bytes oid) with (enc_of oid). destruct (enc_of_ok oid Hok) as [_ E]. rewrite E.
    destruct crit; cbn [app]; reflexivity.
  - apply in_app_or in Hp. destruct Hp as [[<-|[]]|Hp]; [apply low_const; reflexivity|].
    apply in_app_or in Hp. destruct Hp as [Hp|[<-|[]]]; [|apply low_const; reflexivity].
    destruct crit; [destruct Hp as [<-|[]]; apply low_const; reflexivity|destruct Hp].
Qed.

Lemma dec_enc_exts : forall xs, Forall ext_ok xs -> small (write_all (map enc_ext xs)) ->
  dec_exts (write_all (map enc_ext xs)) = Ok xs.
Proof.
  intros xs Hok Hs. unfold dec_exts. rewrite elems_of_write_all; [|intros p Hp|exact Hs].
  - cbn [obind]. rewrite map_map. rewrite (all_ok_map _ _ _ (fun x => x)); [rewrite map_id; reflexivity|].
    intros x Hx. rewrite Forall_forall in Hok. apply dec_enc_ext; [exact (Hok x Hx)|].
    apply (small_write_all _ Hs (enc_ext x)). apply in_map. exact Hx.
  - apply in_map_iff in Hp. destruct Hp as [x [<- _]]. apply low_const. reflexivity.
Qed.

Section CRL.
  Variable T : Type.
  Variable enc_time : T -> N * list N.
  Variable dec_time : N * list N -> option T.
  Hypothesis time_rt : forall t, dec_time (enc_time t) = Some t.
  Hypothesis time_id : forall t, is_time_id (fst (enc_time t)) = true.

  Notation crl_entry := (crl_entry T).
  Notation tbs_crl := (tbs_crl T).

  Lemma time_low : forall t, low_tag (fst (enc_time t)).
  Proof.
    intro t. pose proof (time_id t) as H. unfold is_time_id in H. apply orb_true_iff in H.
    destruct H as [H|H]; apply N.eqb_eq in H; rewrite H; apply low_const; reflexivity.
  Qed.

  Lemma time_not_seq : forall t, (fst (enc_time t) =? ID_SEQUENCE) = false /\ (fst (enc_time t) =? ID_CTX0_CONS) = false.
  Proof.
    intro t. pose proof (time_id t) as H. unfold is_time_id in H. apply orb_true_iff in H.
    destruct H as [H|H]; apply N.eqb_eq in H; rewrite H; split; reflexivity.
  Qed.

  Definition entry_ok (e : crl_entry) : Prop := Forall ext_ok (en_exts e).

  Lemma dec_enc_entry : forall e, entry_ok e -> small (snd (enc_entry T enc_time e)) ->
    dec_entry T dec_time (enc_entry T enc_time e) = Ok e.
  Proof.
    intros [serial tm exts] Hok Hs. unfold entry_ok in Hok. cbn [en_exts] in Hok.
    unfold dec_entry, enc_entry in *. cbn [fst snd en_serial en_time en_exts] in *.
    change (negb (ID_SEQUENCE =? ID_SEQUENCE)) with false. cbn iota.
    rewrite elems_of_write_all; [|intros p Hp|exact Hs].
    - cbn [obind app]. change (negb (ID_INTEGER =? ID_INTEGER)) with false. rewrite (time_id tm). cbn [negb orb].
      rewrite time_rt. rewrite decode_encode_integer.
      destruct exts as [|x xs]; [reflexivity|].
      change (ID_SEQUENCE =? ID_SEQUENCE) with true. cbn iota.
      rewrite (dec_enc_exts (x :: xs) Hok); [reflexivity|].
      apply (small_write_all _ Hs (ID_SEQUENCE, write_all (map enc_ext (x :: xs)))).
      right. right. left. reflexivity.
    - destruct Hp as [<-|[<-|Hp]]; [apply low_const; reflexivity|apply time_low|].
      destruct exts; [destruct Hp|destruct Hp as [<-|[]]; apply low_const; reflexivity].
  Qed.

  Definition tbs_ok (t : tbs_crl) : Prop :=
    fst (t_alg t) = ID_SEQUENCE /\ fst (t_issuer t) = ID_SEQUENCE /\
    Forall entry_ok (t_entries t) /\ Forall ext_ok (t_exts t).

  Lemma tbs_roundtrip_lemma : forall empty_written t,
    tbs_ok t -> small (build_tbs T enc_time empty_written t) ->
    parse_tbs T dec_time (build_tbs T enc_time empty_written t) = Ok t.
  Proof.
    intros ew [alg iss this next entries exts] (Ha & Hi & He & Hx) Hs.
    cbn [t_alg t_issuer t_entries t_exts] in *.
    set (pn := match next with Some n => [enc_time n] | None => [] end).
    set (pe := match entries with
               | [] => if ew then [(ID_SEQUENCE, [])] else []
               | e0 :: es0 => [(ID_SEQUENCE, write_all (map (enc_entry T enc_time) (e0 :: es0)))]
               end).
    set (px := match exts with [] => [] | x0 :: xs0 => [(ID_CTX0_CONS, tlv ID_SEQUENCE (write_all (map enc_ext (x0 :: xs0))))] end).
    set (elems := [(ID_INTEGER, [1]); alg; iss; enc_time this] ++ pn ++ pe ++ px).
    assert (Hb : build_tbs T enc_time ew (mkTbs alg iss this next entries exts) = tlv ID_SEQUENCE (write_all elems)) by reflexivity.
    rewrite Hb in Hs. unfold parse_tbs. rewrite Hb.
    assert (Hlow : forall p, In p elems -> low_tag (fst p)).
    { unfold elems. intros p Hp. apply in_app_or in Hp. destruct Hp as [Hp|Hp].
      - destruct Hp as [<-|[<-|[<-|[<-|[]]]]];
          [apply low_const; reflexivity|rewrite Ha; apply low_const; reflexivity|rewrite Hi; apply low_const; reflexivity|apply time_low].
      - apply in_app_or in Hp. destruct Hp as [Hp|Hp].
        { unfold pn in Hp. destruct next; [destruct Hp as [<-|[]]; apply time_low|destruct Hp]. }
        apply in_app_or in Hp. destruct Hp as [Hp|Hp].
        { unfold pe in Hp. destruct entries; [destruct ew; [destruct Hp as [<-|[]]; apply low_const; reflexivity|destruct Hp]|].
          destruct Hp as [<-|[]]. apply low_const. reflexivity. }
        unfold px in Hp. destruct exts; [destruct Hp|]. destruct Hp as [<-|[]]. apply low_const. reflexivity. }
    rewrite (unmarshal_sequence_tlv elems Hlow Hs). unfold elems. cbn [obind app].
    pose proof (small_tlv _ _ Hs) as Hw.
    change (negb (ID_INTEGER =? ID_INTEGER)) with false. rewrite Ha, Hi.
    change (negb (ID_SEQUENCE =? ID_SEQUENCE)) with false. rewrite (time_id this). cbn [negb orb].
    rewrite time_rt.
    (* the three optional parts *)
    assert (Hin : forall p, In p (pn ++ pe ++ px) -> small (snd p)).
    { intros p Hp. apply (small_write_all _ Hw p). right. right. right. right. exact Hp. }
    assert (Hpe : forall r, (forall i c r', r = (i, c) :: r' -> (i =? ID_SEQUENCE) = false) ->
      match pe ++ r with
      | (i, c) :: r' => if i =? ID_SEQUENCE
                        then do l <- elems_of c; do es <- all_ok (map (dec_entry T dec_time) l); Ok (es, r')
                        else Ok ([], pe ++ r)
      | [] => Ok ([], [])
      end = Ok (entries, r)).
    { intros r Hr. unfold pe in *. destruct entries as [|e0 es].
      - destruct ew; cbn [app].
        + change (ID_SEQUENCE =? ID_SEQUENCE) with true. cbn iota. reflexivity.
        + destruct r as [|[i c] r']; [reflexivity|]. rewrite (Hr i c r' eq_refl). reflexivity.
      - cbn [app]. change (ID_SEQUENCE =? ID_SEQUENCE) with true. cbn iota.
        assert (Hse : small (write_all (map (enc_entry T enc_time) (e0 :: es)))).
        { apply (Hin (ID_SEQUENCE, write_all (map (enc_entry T enc_time) (e0 :: es)))).
          apply in_or_app. right. apply in_or_app. left. left. reflexivity. }
        rewrite elems_of_write_all; [|intros p Hp|exact Hse].
        + cbn [obind]. rewrite map_map. rewrite (all_ok_map _ _ _ (fun e => e)); [rewrite map_id; reflexivity|].
          intros e Hin'. rewrite Forall_forall in He. apply dec_enc_entry; [exact (He e Hin')|].
          apply (small_write_all _ Hse (enc_entry T enc_time e)). apply in_map. exact Hin'.
        + apply in_map_iff in Hp. destruct Hp as [e [<- _]]. apply low_const. reflexivity. }
    assert (Hpx : match px with
                  | [] => Ok []
                  | [(i, c)] =>
                    if i =? ID_CTX0_CONS then
                      match read_tlv c with
                      | Some (i', c', []) => if i' =? ID_SEQUENCE then dec_exts c' else Err 1
                      | _ => Err 1
                      end
                    else Err 1
                  | _ => Err 1
                  end = Ok exts).
    { unfold px in *. destruct exts as [|x0 xs]; [reflexivity|].
      change (ID_CTX0_CONS =? ID_CTX0_CONS) with true. cbn iota.
      assert (Hsx : small (tlv ID_SEQUENCE (write_all (map enc_ext (x0 :: xs))))).
      { apply (Hin (ID_CTX0_CONS, tlv ID_SEQUENCE (write_all (map enc_ext (x0 :: xs))))).
        apply in_or_app. right. apply in_or_app. right. left. reflexivity. }
      rewrite <- (app_nil_r (tlv ID_SEQUENCE _)).
      rewrite (read_tlv_tlv ID_SEQUENCE _ [] ltac:(apply low_const; reflexivity) (small_tlv _ _ Hsx)).
      change (ID_SEQUENCE =? ID_SEQUENCE) with true. cbn iota.
      apply dec_enc_exts; [exact Hx|exact (small_tlv _ _ Hsx)]. }
    assert (Hpxhead : forall i c r', px = (i, c) :: r' -> (i =? ID_SEQUENCE) = false).
    { intros i c r' E. unfold px in E. destruct exts; [discriminate|]. injection E as <- _ _. reflexivity. }
    destruct next as [n|]; unfold pn; cbn [app].
    - rewrite (time_id n), time_rt. cbn [obind]. rewrite (Hpe px Hpxhead). cbn [obind]. rewrite Hpx. reflexivity.
    - assert (Hnot : match pe ++ px with
                     | tm :: r => if is_time_id (fst tm)
                                  then match dec_time tm with Some n => Ok (Some n, r) | None => Err 1 end
                                  else Ok (None, pe ++ px)
                     | [] => Ok (None, [])
                     end = Ok (@None T, pe ++ px)).
      { destruct (pe ++ px) as [|tm r] eqn:E; [reflexivity|].
        assert (Hid : is_time_id (fst tm) = false).
        { assert (Hm : In tm (pe ++ px)) by (rewrite E; left; reflexivity).
          apply in_app_or in Hm. destruct Hm as [Hm|Hm].
          - unfold pe in Hm. destruct entries; [destruct ew; [destruct Hm as [<-|[]]; reflexivity|destruct Hm]|].
            destruct Hm as [<-|[]]. reflexivity.
          - unfold px in Hm. destruct exts; [destruct Hm|]. destruct Hm as [<-|[]]. reflexivity. }
        rewrite Hid. reflexivity. }
      rewrite Hnot. cbn [obind]. rewrite (Hpe px Hpxhead). cbn [obind]. rewrite Hpx. reflexivity.
  Qed.
End CRL.

(* the CRL number extension value *)
Lemma crl_number_roundtrip_lemma : forall n, small (tlv ID_INTEGER (encode_integer n)) ->
  parse_crl_number (tlv ID_INTEGER (encode_integer n)) = Ok n.
Proof.
  intros n Hs. unfold parse_crl_number. rewrite <- (app_nil_r (tlv ID_INTEGER _)).
  rewrite (read_tlv_tlv ID_INTEGER _ [] ltac:(apply low_const; reflexivity) (small_tlv _ _ Hs)).
  change (ID_INTEGER =? ID_INTEGER) with true. cbn iota. rewrite decode_encode_integer. reflexivity.
Qed.
