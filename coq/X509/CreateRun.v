(* The finite table the OCaml runner of C09 looks results up in: the value of
   CreateModel.created_verifies for every kind of object, the three signer types the driver uses
   and every algorithm of signatureAlgorithmDetails (computed by Coq when this file is compiled, so
   it follows the regenerated tables).  It exists because the extracted runner must not contain
   Coq's [string] type (it would shadow OCaml's in the shared conversion module).  No proofs here;
   CreateProofs.c09_lookup_correct shows that the lookup IS the model, for all inputs. *)
From Coq Require Import List NArith ZArith Bool String.
From GmsmVerif Require Import Lib.Outcome Gen.X509Tables X509.CreateModel.
Import ListNotations.
Local Open Scope N_scope.

Definition all_curves : list curve := [P224; P256; P384; P521; P256Sm2; OtherCurve].
Definition all_signers : list signer := SgRSA :: SgOther :: (map SgECDSA all_curves ++ map SgSM2 all_curves)%list.
Definition all_kinds : list kind := [KCert; KCSR; KCRL; KRevocationList].
Definition table_algos : list N := 0 :: map row_algo gen_sigalg_details.

Definition kind_code (k : kind) : N :=
  match k with KCert => 0 | KCSR => 1 | KCRL => 2 | KRevocationList => 3 end.
Definition run_signers : list (N * signer) := [(0, SgSM2 P256Sm2); (1, SgRSA); (2, SgECDSA P256)].
(* 0 = the Create* call fails, 1 = created but does not verify under the issuer, 2 = created and verifies *)
Definition result_code (o : outcome bool) : N :=
  match o with Ok true => 2 | Ok false => 1 | _ => 0 end.

Definition c09_table : list (N * N * N * N) :=
  Eval vm_compute in
    flat_map (fun k => flat_map (fun sp =>
      map (fun a => (kind_code k, fst sp, a, result_code (created_verifies k (snd sp) a))) table_algos)
      run_signers) all_kinds.

Definition c09_lookup (kc sc a : N) : N :=
  let a := if kc =? 2 then 0 else a in      (* CreateCRL has no algorithm field *)
  match find (fun r : N * N * N * N => let '(k, s, a', _) := r in (k =? kc) && (s =? sc) && (a' =? a)) c09_table with
  | Some (_, _, _, res) => res
  | None => 0
  end.
