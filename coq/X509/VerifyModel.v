(* Model of /repo/x509/verify.go and the parts of cert_pool.go / x509.go it calls, function by
   function (same names + _model).  No proofs in this file.

   Go objects modelled:
     Certificate           -> PathSpec.cert (exactly the fields read here; PermittedDNSDomainsCritical,
                               MaxPathLenZero are not read by verify.go and are absent)
     CertPool               -> list cert in AddCert order; bySubjectKeyId / byName are the sub-lists of
                               entries with that key id / raw subject, in insertion order
     VerifyOptions          -> PathSpec.options + the two pools (Roots = nil and the system pool are
                               outside the model: the drivers always pass Roots)
     Certificate.Equal       -> cert_eqb (same identity index; Go compares Raw)
     parent.CheckSignature(c.SignatureAlgorithm, c.RawTBSCertificate, c.Signature) == nil
                            -> sig_ok c parent  (an unknown PublicKeyAlgorithm has a nil PublicKey, for
                               which CheckSignature fails, so that test is folded into sig_ok)
     net.ParseIP            -> parse_ip (standard library, by contract: Some 16 bytes or None)
     "the range loop over the string meets utf8.RuneError" -> rune_error (the result of
                               toLowerCaseASCII does not depend on it)
     strings.EqualFold      -> bytewise ASCII folding: exact when the constraint is ASCII (constraints
                               come from IA5Strings), because then both sides have the same byte length
     *sigChecks             -> a nat threaded through (state in / state out)
   Error returns are small numbers: 1 unhandled critical extension, 2 leaf invalid (isValid),
   3 host name, 4 no chain (unknown authority / budget / last isValid error), 5 incompatible usage. *)
From Coq Require Import List NArith ZArith Bool Arith.
From GmsmVerif Require Import Lib.Outcome X509.NameMatchSpec X509.PathSpec.
From GmsmVerif Require Gen.X509Verify.   (* constants regenerated from x509/verify.go; not imported: it opens N_scope *)
Import ListNotations.

(* ---------- strings ------------------------------------------------------------------------- *)
Fixpoint bytes_eqb (a b : list byte) : bool :=
  match a, b with
  | [], [] => true
  | x :: a', y :: b' => (x =? y)%N && bytes_eqb a' b'
  | _, _ => false
  end.

(* strings.TrimSuffix(s, ".") *)
Fixpoint trim_dot (s : list byte) : list byte :=
  match s with
  | [] => []
  | [b] => if (b =? DOT)%N then [] else [b]
  | b :: r => b :: trim_dot r
  end.

(* strings.Split(s, "."); Split("", ".") = [""] *)
Fixpoint split_dot (s : list byte) : list (list byte) :=
  match s with
  | [] => [[]]
  | b :: r =>
    if (b =? DOT)%N then [] :: split_dot r
    else match split_dot r with
         | p :: ps => (b :: p) :: ps
         | [] => [[b]]
         end
  end.

(* strings.EqualFold on strings of equal byte length, one of them ASCII *)
Definition equalFold_model (a b : list byte) : bool := bytes_eqb (lower a) (lower b).

(* func matchNameConstraint(domain, constraint string) bool *)
Definition matchNameConstraint_model (domain constraint : list byte) : bool :=
  if Nat.eqb (length constraint) 0 then true
  else if Nat.ltb (length domain) (length constraint) then false
  else
    let prefixLen := length domain - length constraint in
    if negb (equalFold_model (skipn prefixLen domain) constraint) then false
    else if Nat.eqb prefixLen 0 then true
    else
      let isSubdomain := (nth (prefixLen - 1) domain 0 =? DOT)%N in
      let constraintHasLeadingDot := (nth 0 constraint 0 =? DOT)%N in
      negb (Bool.eqb isSubdomain constraintHasLeadingDot).

(* the loop "for i, patternPart := range patternParts" of matchHostnames *)
Fixpoint parts_match (first : bool) (pp hp : list (list byte)) : bool :=
  match pp with
  | [] => true
  | p :: pp' =>
    match hp with
    | [] => false   (* not reached: the lengths are equal *)
    | h :: hp' =>
      if first && bytes_eqb p [STAR] then parts_match false pp' hp'
      else if bytes_eqb p h then parts_match false pp' hp'
      else false
    end
  end.

(* func matchHostnames(pattern, host string) bool *)
Definition matchHostnames_model (pattern host : list byte) : bool :=
  let host := trim_dot host in
  let pattern := trim_dot pattern in
  if Nat.eqb (length pattern) 0 || Nat.eqb (length host) 0 then false
  else
    let patternParts := split_dot pattern in
    let hostParts := split_dot host in
    if negb (Nat.eqb (length patternParts) (length hostParts)) then false
    else parts_match true patternParts hostParts.

(* func toLowerCaseASCII(in string) string *)
Definition toLowerCaseASCII_model (rune_error : list byte -> bool) (s : list byte) : list byte :=
  let isAlreadyLowerCase := negb (rune_error s || existsb is_upper s) in
  if isAlreadyLowerCase then s else map lower_byte s.

(* func (ip IP) Equal(x IP) bool *)
Definition ip_equal (ip x : list byte) : bool :=
  if Nat.eqb (length ip) (length x) then bytes_eqb ip x
  else if Nat.eqb (length ip) 4 && Nat.eqb (length x) 16 then
    bytes_eqb (firstn 12 x) v4_in_v6_prefix && bytes_eqb ip (skipn 12 x)
  else if Nat.eqb (length ip) 16 && Nat.eqb (length x) 4 then
    bytes_eqb (firstn 12 ip) v4_in_v6_prefix && bytes_eqb (skipn 12 ip) x
  else false.

Section Model.
  Variable sig_ok : cert -> cert -> bool.
  Variable parse_ip : list byte -> option (list byte).
  Variable rune_error : list byte -> bool.

  (* func (c) VerifyHostname(h string) error; true = nil *)
  Definition VerifyHostname_model (c : cert) (h : list byte) : bool :=
    let candidateIP :=
      if Nat.leb 3 (length h) && (nth 0 h 0 =? LBR)%N && (nth (length h - 1) h 0 =? RBR)%N
      then firstn (length h - 2) (skipn 1 h) else h in
    match parse_ip candidateIP with
    | Some ip => existsb (fun candidate => ip_equal ip candidate) (c_ips c)
    | None =>
      let lowered := toLowerCaseASCII_model rune_error h in
      if negb (Nat.eqb (length (c_dnsnames c)) 0) then
        existsb (fun m => matchHostnames_model (toLowerCaseASCII_model rune_error m) lowered) (c_dnsnames c)
      else matchHostnames_model (toLowerCaseASCII_model rune_error (c_cn c)) lowered
    end.

  (* ---------- extended key usage ------------------------------------------------------------- *)
  Definition invalidUsage : Z := (-1)%Z.

  (* "for _, usage := range cert.ExtKeyUsage" inside NextRequestedUsage: does some usage of the
     certificate satisfy the requested one *)
  Definition usage_listed (c : cert) (requestedUsage : Z) : bool :=
    existsb (fun usage =>
      (requestedUsage =? usage)%Z ||
      ((requestedUsage =? EKU_ServerAuth)%Z &&
       ((usage =? EKU_NetscapeSGC)%Z || (usage =? EKU_MicrosoftSGC)%Z))) (c_eku c).

  (* the loop NextRequestedUsage for one certificate: None = "return false" *)
  Fixpoint cross_out (c : cert) (usages : list Z) (usagesRemaining : nat) : option (list Z * nat) :=
    match usages with
    | [] => Some ([], usagesRemaining)
    | requestedUsage :: rest =>
      if (requestedUsage =? invalidUsage)%Z then
        match cross_out c rest usagesRemaining with
        | Some (r, n) => Some (requestedUsage :: r, n)
        | None => None
        end
      else if usage_listed c requestedUsage then
        match cross_out c rest usagesRemaining with
        | Some (r, n) => Some (requestedUsage :: r, n)
        | None => None
        end
      else
        let n := usagesRemaining - 1 in
        if Nat.eqb n 0 then None
        else match cross_out c rest n with
             | Some (r, n') => Some (invalidUsage :: r, n')
             | None => None
             end
    end.

  (* the loop NextCert, from the root end of the chain (the argument is the reversed chain) *)
  Fixpoint next_cert (rchain : list cert) (usages : list Z) (usagesRemaining : nat) : bool :=
    match rchain with
    | [] => true
    | c :: rest =>
      if Nat.eqb (length (c_eku c)) 0 && negb (c_unknown_eku c) then next_cert rest usages usagesRemaining
      else if existsb (fun usage => (usage =? EKU_Any)%Z) (c_eku c) then next_cert rest usages usagesRemaining
      else match cross_out c usages usagesRemaining with
           | None => false
           | Some (usages', n) => next_cert rest usages' n
           end
    end.

  (* func checkChainForKeyUsage(chain []Certificate, keyUsages []ExtKeyUsage) bool *)
  Definition checkChainForKeyUsage_model (chain : list cert) (keyUsages : list Z) : bool :=
    if Nat.eqb (length chain) 0 then false
    else next_cert (rev chain) keyUsages (length keyUsages).

  (* ---------- signatures and pools ----------------------------------------------------------- *)
  (* func (c) CheckSignatureFrom(parent *Certificate) error; true = nil *)
  Definition CheckSignatureFrom_model (c parent : cert) : bool :=
    if ((c_v3 parent && negb (c_bcvalid parent)) || (c_bcvalid parent && negb (c_isca parent)))
       && negb (c_entrust_spki c) then false
    else if negb (c_keyusage parent =? 0)%N && (N.land (c_keyusage parent) KeyUsageCertSign =? 0)%N then false
    else sig_ok c parent.

  Definition cert_eqb (a b : cert) : bool := Nat.eqb (c_id a) (c_id b).

  (* const maxChainSignatureChecks, read from the source by the translator *)
  Definition maxChainSignatureChecks : nat := N.to_nat X509Verify.gen_maxChainSignatureChecks.

  (* the candidate selection of findVerifiedParents *)
  Definition candidates_model (s : list cert) (c : cert) : list cert :=
    let byKeyId :=
      if negb (Nat.eqb (length (c_aki c)) 0)
      then filter (fun p => negb (Nat.eqb (length (c_ski p)) 0) && bytes_eqb (c_ski p) (c_aki c)) s
      else [] in
    if Nat.eqb (length byKeyId) 0 then filter (fun p => bytes_eqb (c_subject p) (c_issuer c)) s
    else byKeyId.

  (* "for _, c := range candidates { *sigChecks++; if *sigChecks > max { break } ... }" *)
  Fixpoint fvp_loop (c : cert) (candidates : list cert) (sigChecks : nat) : list cert * nat :=
    match candidates with
    | [] => ([], sigChecks)
    | p :: rest =>
      let sc := S sigChecks in
      if Nat.ltb maxChainSignatureChecks sc then ([], sc)
      else
        let '(parents, sc') := fvp_loop c rest sc in
        ((if CheckSignatureFrom_model c p then p :: parents else parents), sc')
    end.

  (* func (s) findVerifiedParents(cert, sigChecks) (parents []int, ...) *)
  Definition findVerifiedParents_model (s : list cert) (c : cert) (sigChecks : nat) : list cert * nat :=
    fvp_loop c (candidates_model s c) sigChecks.

  (* func (s) contains(cert) bool *)
  Definition contains_model (s : list cert) (c : cert) : bool :=
    existsb (fun r => bytes_eqb (c_subject r) (c_subject c) && cert_eqb r c) s.

  (* func (s) AddCert(cert) *)
  Definition AddCert_model (s : list cert) (c : cert) : list cert :=
    if contains_model s c then s else s ++ [c].

  (* ---------- isValid, buildChains, Verify --------------------------------------------------- *)
  Variable roots inters : list cert.
  Variable opts : options.

  Definition leafCertificate : nat := 0.
  Definition intermediateCertificate : nat := 1.
  Definition rootCertificate : nat := 2.

  (* func (c) isValid(certType, currentChain, opts) error; true = nil *)
  Definition isValid_model (certType : nat) (c : cert) (currentChain : list cert) : bool :=
    if negb (Nat.eqb (length currentChain) 0)
       && negb (bytes_eqb (c_issuer (last currentChain c)) (c_subject c)) then false
    else if (o_now opts <? c_notbefore c)%Z || (c_notafter c <? o_now opts)%Z then false
    else if negb (Nat.eqb (length (c_permitted c)) 0)
            && negb (existsb (fun constraint => matchNameConstraint_model (o_dnsname opts) constraint)
                             (c_permitted c)) then false
    else if Nat.eqb certType intermediateCertificate && (negb (c_bcvalid c) || negb (c_isca c)) then false
    else if c_bcvalid c && (0 <=? c_maxpathlen c)%Z
            && (c_maxpathlen c <? Z.of_nat (length currentChain) - 1)%Z then false
    else true.

  Definition in_chain (c : cert) (currentChain : list cert) : bool :=
    existsb (fun x => cert_eqb x c) currentChain.

  (* the loop "nextIntermediate" of buildChains; [rec] is the recursive call buildChains *)
  Definition nextIntermediate_loop
      (rec : cert -> list cert -> nat -> outcome (list (list cert) * nat))
      (currentChain : list cert)
    : list cert -> list (list cert) -> nat -> outcome (list (list cert) * nat) :=
    fix nextIntermediate (l : list cert) (chains : list (list cert)) (sc : nat) :=
      match l with
      | [] => Ok (chains, sc)
      | intermediate :: l' =>
        if in_chain intermediate currentChain then nextIntermediate l' chains sc
        else if negb (isValid_model intermediateCertificate intermediate currentChain)
        then nextIntermediate l' chains sc
        else
          match rec intermediate (currentChain ++ [intermediate]) sc with
          | Ok (childChains, sc') => nextIntermediate l' (chains ++ childChains) sc'
          | Err e => Err e
          | Panic => Panic
          | Hang => Hang
          end
      end.

  (* the loop "nextRoot" of buildChains *)
  Definition nextRoot_loop (currentChain : list cert) (possibleRoots : list cert) : list (list cert) :=
    flat_map (fun root =>
      if in_chain root currentChain then []
      else if isValid_model rootCertificate root currentChain then [currentChain ++ [root]]
      else []) possibleRoots.

  (* func (c) buildChains(currentChain, sigChecks, opts) (chains, err).
     Result: the chains and the value of *sigChecks afterwards.  The err result is not a separate
     component: inner errors only feed the caller's err, which is reset to nil when chains is
     non-empty and is non-nil whenever chains is empty. *)
  Fixpoint buildChains_model (fuel : nat) (c : cert) (currentChain : list cert) (sigChecks : nat)
    : outcome (list (list cert) * nat) :=
    match fuel with
    | O => Hang
    | S fuel' =>
      let '(possibleRoots, sc1) := findVerifiedParents_model roots c sigChecks in
      let chains := nextRoot_loop currentChain possibleRoots in
      let '(possibleIntermediates, sc2) := findVerifiedParents_model inters c sc1 in
      nextIntermediate_loop (buildChains_model fuel') currentChain possibleIntermediates chains sc2
    end.

  (* func (c) Verify(opts VerifyOptions) (chains [][]Certificate, err error) *)
  Definition Verify_model (fuel : nat) (c : cert) : outcome (list (list cert)) :=
    if c_unhandled_critical c then Err 1
    else if negb (isValid_model leafCertificate c []) then Err 2
    else if negb (Nat.eqb (length (o_dnsname opts)) 0) && negb (VerifyHostname_model c (o_dnsname opts))
    then Err 3
    else
      do candidateChains <-
        (if contains_model roots c then Ok [[c]]
         else
           do '(chains, _) <- buildChains_model fuel c [c] 0;
           match chains with [] => Err 4 | _ => Ok chains end);
      let keyUsages := match o_keyusages opts with [] => [EKU_ServerAuth] | l => l end in
      if existsb (fun usage => (usage =? EKU_Any)%Z) keyUsages then Ok candidateChains
      else
        match filter (fun candidate => checkChainForKeyUsage_model candidate keyUsages) candidateChains with
        | [] => Err 5
        | chains => Ok chains
        end.

  (* the number of signature checks one Verify call makes (the final value of *sigChecks) *)
  Definition sigchecks_used (fuel : nat) (c : cert) : nat :=
    match buildChains_model fuel c [c] 0 with
    | Ok (_, sc) => sc
    | _ => 0
    end.
End Model.
