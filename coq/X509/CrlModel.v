(* C09: the TBSCertList that CreateCRL / CreateRevocationList assemble and what ParseDERCRL gives back,
   at the level of identifier octets and bytes (no proofs in this file).

   The Go types are crypto/x509/pkix.TBSCertificateList / RevokedCertificate / Extension (standard
   library); gmsm chooses the field values (version 1, UTC times, AuthorityKeyId, CRL number, which
   optional parts are present) and hands them to asn1.Marshal; ParseDERCRL is asn1.Unmarshal into the
   same types.  encoding/asn1 is the DER layer of X509/DerLayer.v plus, by contract: "optional"
   fields are omitted when they hold the zero value and taken on parsing when the next element
   carries their identifier; Extension.Critical is written only when true; INTEGER contents are
   minimal two's complement (CreateModel.encode_integer).  Times are abstract: an encoder into a
   UTCTime / GeneralizedTime element and its decoder (section variables; time.Time formatting is the
   standard library's).  The AlgorithmIdentifier and the issuer name are opaque SEQUENCE elements.
   Error 1 = structure. *)
From Coq Require Import List NArith ZArith Bool Arith.
From GmsmVerif Require Import Lib.Outcome X509.CreateModel X509.DerLayer X509.ExtModel.
Import ListNotations.
Local Open Scope N_scope.

Definition ID_INTEGER : N := 2.
Definition ID_BOOLEAN : N := 1.
Definition ID_UTCTIME : N := 23.
Definition ID_GENERALIZEDTIME : N := 24.

Record crl_ext := mkExt { x_id : list N; x_crit : bool; x_val : list N }.

Section CRL.
  Variable T : Type.                                   (* time.Time values, already in UTC *)
  Variable enc_time : T -> N * list N.                 (* UTCTime or GeneralizedTime element *)
  Variable dec_time : N * list N -> option T.

  Record crl_entry := mkEntry { en_serial : Z; en_time : T; en_exts : list crl_ext }.

  Record tbs_crl := mkTbs {
    t_alg : N * list N;                                (* signature AlgorithmIdentifier, a SEQUENCE element *)
    t_issuer : N * list N;                             (* issuer RDNSequence, a SEQUENCE element *)
    t_this : T;
    t_next : option T;                                 (* None = zero time: omitted *)
    t_entries : list crl_entry;
    t_exts : list crl_ext }.

  (* ---------- building ---------------------------------------------------------------------------------- *)
  Definition oid_bytes (o : list N) : list N := match encode_oid o with Some b => b | None => [] end.

  Definition enc_ext (x : crl_ext) : N * list N :=
    (ID_SEQUENCE, write_all ([(ID_OID, oid_bytes (x_id x))] ++
                             (if x_crit x then [(ID_BOOLEAN, [255])] else []) ++
                             [(ID_OCTET_STRING, x_val x)])).

  Definition enc_entry (e : crl_entry) : N * list N :=
    (ID_SEQUENCE, write_all ([(ID_INTEGER, encode_integer (en_serial e)); enc_time (en_time e)] ++
                             (match en_exts e with [] => [] | xs => [(ID_SEQUENCE, write_all (map enc_ext xs))] end))).

  (* [empty_list_written]: CreateCRL hands asn1 a non-nil empty slice of revoked certificates, which is
     written as an empty SEQUENCE; CreateRevocationList leaves the field nil, which is omitted *)
  Definition build_tbs (empty_list_written : bool) (t : tbs_crl) : list N :=
    tlv ID_SEQUENCE (write_all (
      [(ID_INTEGER, [1]); t_alg t; t_issuer t; enc_time (t_this t)] ++
      (match t_next t with Some n => [enc_time n] | None => [] end) ++
      (match t_entries t with
       | [] => if empty_list_written then [(ID_SEQUENCE, [])] else []
       | es => [(ID_SEQUENCE, write_all (map enc_entry es))]
       end) ++
      (match t_exts t with [] => [] | xs => [(ID_CTX0_CONS, tlv ID_SEQUENCE (write_all (map enc_ext xs)))] end))).

  (* the extensions CreateRevocationList puts in front of template.ExtraExtensions, and CreateCRL's one *)
  Definition oid_AKI : list N := [2; 5; 29; 35].
  Definition oid_CRLNumber : list N := [2; 5; 29; 20].
  Definition revocation_list_exts (issuer_ski : list N) (number : Z) (extra : list crl_ext) : list crl_ext :=
    mkExt oid_AKI false (build_aki issuer_ski) ::
    mkExt oid_CRLNumber false (tlv ID_INTEGER (encode_integer number)) :: extra.
  Definition create_crl_exts (issuer_ski : list N) : list crl_ext :=
    match issuer_ski with [] => [] | _ => [mkExt oid_AKI false (build_aki issuer_ski)] end.

  (* reading the CRL number back from its extension value *)
  Definition parse_crl_number (value : list N) : outcome Z :=
    match read_tlv value with
    | Some (id, c, []) => if id =? ID_INTEGER then Ok (decode_integer c) else Err 1
    | _ => Err 1
    end.

  (* ---------- parsing ------------------------------------------------------------------------------------ *)
  Definition is_time_id (id : N) : bool := (id =? ID_UTCTIME) || (id =? ID_GENERALIZEDTIME).

  Definition elems_of (c : list N) : outcome (list (N * list N)) :=
    match read_all (List.length c) c with Some l => Ok l | None => Err 1 end.

  (* pkix.Extension { Id; Critical bool `optional`; Value []byte } *)
  Definition dec_ext (p : N * list N) : outcome crl_ext :=
    if negb (fst p =? ID_SEQUENCE) then Err 1
    else
      do l <- elems_of (snd p);
      match l with
      | (i1, o) :: rest =>
        if negb (i1 =? ID_OID) then Err 1
        else match decode_oid o with
             | None => Err 1
             | Some oid =>
               match rest with
               | [(i2, v)] => if i2 =? ID_OCTET_STRING then Ok (mkExt oid false v) else Err 1
               | [(i2, b); (i3, v)] =>
                 if (i2 =? ID_BOOLEAN) && (i3 =? ID_OCTET_STRING) then
                   match b with
                   | [x] => if x =? 255 then Ok (mkExt oid true v) else if x =? 0 then Ok (mkExt oid false v) else Err 1
                   | _ => Err 1
                   end
                 else Err 1
               | _ => Err 1
               end
             end
      | [] => Err 1
      end.

  Definition dec_exts (c : list N) : outcome (list crl_ext) :=
    do l <- elems_of c; all_ok (map dec_ext l).

  (* pkix.RevokedCertificate { SerialNumber; RevocationTime; Extensions `optional` } *)
  Definition dec_entry (p : N * list N) : outcome crl_entry :=
    if negb (fst p =? ID_SEQUENCE) then Err 1
    else
      do l <- elems_of (snd p);
      match l with
      | (i1, s) :: tm :: rest =>
        if negb (i1 =? ID_INTEGER) || negb (is_time_id (fst tm)) then Err 1
        else match dec_time tm with
             | None => Err 1
             | Some t =>
               match rest with
               | [] => Ok (mkEntry (decode_integer s) t [])
               | [(i3, xs)] => if i3 =? ID_SEQUENCE then do x <- dec_exts xs; Ok (mkEntry (decode_integer s) t x) else Err 1
               | _ => Err 1
               end
             end
      | _ => Err 1
      end.

  (* asn1.Unmarshal into pkix.TBSCertificateList (the element is the first field of CertificateList) *)
  Definition parse_tbs (value : list N) : outcome tbs_crl :=
    do l <- unmarshal_sequence value;
    match l with
    | (iv, v) :: alg :: iss :: th :: rest =>
      if negb (iv =? ID_INTEGER) || negb (fst alg =? ID_SEQUENCE) || negb (fst iss =? ID_SEQUENCE)
         || negb (is_time_id (fst th)) then Err 1
      else
        match dec_time th with
        | None => Err 1
        | Some this =>
          (* NextUpdate `optional` *)
          do '(next, r1) <-
             (match rest with
              | tm :: r => if is_time_id (fst tm)
                           then match dec_time tm with Some n => Ok (Some n, r) | None => Err 1 end
                           else Ok (None, rest)
              | [] => Ok (None, [])
              end);
          (* RevokedCertificates `optional` *)
          do '(entries, r2) <-
             (match r1 with
              | (i, c) :: r => if i =? ID_SEQUENCE
                               then do l <- elems_of c; do es <- all_ok (map dec_entry l); Ok (es, r)
                               else Ok ([], r1)
              | [] => Ok ([], [])
              end);
          (* Extensions `tag:0,optional,explicit` *)
          do exts <-
             (match r2 with
              | [] => Ok []
              | [(i, c)] =>
                if i =? ID_CTX0_CONS then
                  match read_tlv c with
                  | Some (i', c', []) => if i' =? ID_SEQUENCE then dec_exts c' else Err 1
                  | _ => Err 1
                  end
                else Err 1
              | _ => Err 1
              end);
          Ok (mkTbs alg iss this next entries exts)
        end
    | _ => Err 1
    end.
End CRL.

Arguments mkEntry {T}. Arguments en_serial {T}. Arguments en_time {T}. Arguments en_exts {T}.
Arguments mkTbs {T}. Arguments t_alg {T}. Arguments t_issuer {T}. Arguments t_this {T}. Arguments t_next {T}.
Arguments t_entries {T}. Arguments t_exts {T}.

(* the instance the correspondence runner uses: times are handed over as the elements time.Time encodes to *)
Definition build_tbs_raw : bool -> tbs_crl (N * list N) -> list N := build_tbs (N * list N) (fun e => e).
Definition parse_tbs_raw : list N -> outcome (tbs_crl (N * list N)) := parse_tbs (N * list N) (fun e => Some e).
