(* Extraction of the sm4/padding model and spec for the correspondence runner.
   Directives used: those of ExtrOcamlBasic only (bool, option, unit, list, prod, sumbool, sumor,
   andb, orb).  nat, positive, N stay Coq's inductive types. *)
From Coq Require Import Extraction ExtrOcamlBasic List NArith.
From GmsmVerif Require Import Lib.Outcome Pad.PadModel Pad.PadSpec.
Extraction Language OCaml.
Extraction "pad_model.ml"
  run_reader new_reader mkSrc run_writer writer_emitted p7_block_enc p7_block_decrypt
  toy_enc toy_dec pkcs7_pad writer_spec.
