(* Extraction of the model of sm4/sm4_gcm.go for the C12 correspondence runner; the block cipher
   parameter is instantiated in the runner by the GM/T 0002 specification (SM4Spec).
   Directives: those of ExtrOcamlBasic only; nat, positive, N stay inductive. *)
From Coq Require Import Extraction ExtrOcamlBasic List NArith.
From GmsmVerif Require Import Lib.Outcome SM4.SM4Spec SM4.ModesModel SM4.GCMModel SM4.GCMMem.
Extraction Language OCaml.
Extraction "sm4gcm_model.ml"
  Sm4GCM GCMEncrypt GCMDecrypt GHASH GetY0 incr multiplication GetH gcm_run mkCall Sm4GCM_mem mkSlice
  sm4_encrypt_block.
