(* Extraction of the handshake agreement models and of the independent GM/T 0024 decoder (C06 runner).
   Directives used: those of ExtrOcamlBasic only; nat, positive, N stay Coq's inductive types. *)
From Coq Require Import Extraction ExtrOcamlBasic List NArith.
From GmsmVerif Require Import Lib.Outcome Gen.TLSSuites Resume.ResumeModel Agree.AgreeModel Agree.AgreeSpec
  Agree.KeyModel Agree.WireSpec.
Extraction Language OCaml.
Extraction "agree_model.ml" honest_run mkA policy_allows reconnect_log r_cls decode_connection gm_key_block gm_prf gm_ekm.
