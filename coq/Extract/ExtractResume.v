(* Extraction of the session-ticket / resumption models for the C16 correspondence runner.
   Directives used: those of ExtrOcamlBasic only; nat, positive, N stay Coq's inductive types. *)
From Coq Require Import Extraction ExtrOcamlBasic List NArith.
From GmsmVerif Require Import Lib.Outcome Gen.TLSSuites Resume.LruModel Resume.TicketModel Resume.ResumeModel
  Agree.KeyModel Agree.WireSpec.
Extraction Language OCaml.
Extraction "resume_model.ml"
  marshal unmarshal mkSS
  lru_new lru_run LPut LGet l_q l_m l_cap
  hrun_term hinit decrypt_term seal term_mac term_junk mkT mkSt mkS mkC
  h_log h_cache h_srv r_cls r_vers r_suite r_ms r_offer r_stored tk_iv tk_tag
  defaultCipherSuites
  lookup_row gm_key_block.
