(* Extraction of the handshake models (state machines, honest pair runs, version gate, byte-level parsers)
   for the correspondence runner ocaml/hs.  Directives used: those of ExtrOcamlBasic only. *)
From Coq Require Import Extraction ExtrOcamlBasic List NArith.
From GmsmVerif Require Import Lib.Outcome HS.HSTerms HS.HSModel HS.HSParsers HS.HSMsgParsers HS.HSMsgMarshal HS.HSSigAlg HS.HSKxParsers HS.HSCompression.
Extraction Language OCaml.
Extraction "hs_model.ml"
  client_run server_run client_step server_step client_init server_init pair_run pair_loop pair_run_t feed to_input version_gate
  skx_payload encryptTicket session_state finished_sum masterFromPreMasterSecret
  default_gm_suite_ids default_tls_suite_ids gmCipherSuites cipherSuites find_suite
  ecc_ckx_prefix ecc_skx_prefix certificateRequestMsgGM_unmarshal read_handshakes readHandshake_raw
  term_eqb verify decrypt tlist rrun rfeed client_wants_ccs server_wants_ccs match_hostnames
  clientHello_unmarshal serverHello_unmarshal certificate_unmarshal serverKeyExchange_unmarshal clientKeyExchange_unmarshal
  finished_unmarshal certificateVerify_unmarshal newSessionTicket_unmarshal certificateRequest_unmarshal
  certificateStatus_unmarshal nextProto_unmarshal serverHelloDone_unmarshal
  clientHello_marshal serverHello_marshal certificate_marshal serverKeyExchange_marshal clientKeyExchange_marshal
  finished_marshal serverHelloDone_marshal newSessionTicket_marshal certificateStatus_marshal nextProto_marshal
  certificateRequest_marshal certificateRequestGM_marshal certificateVerify_marshal ecc_skx_body ecc_ckx_body
  pickSignatureAlgorithm hashForClientCertificate hashForServerKeyExchange gm_client_certificate_verify_digest ecdhe_processServerKeyExchange comp_offers_null.
