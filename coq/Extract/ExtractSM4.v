(* Extraction of the SM4 block model (sm4/sm4.go) and of the GM/T 0002 specification for the C05
   correspondence runner.  Directives: those of ExtrOcamlBasic only; nat, positive, N stay inductive. *)
From Coq Require Import Extraction ExtrOcamlBasic List NArith.
From GmsmVerif Require Import Lib.Outcome Gen.SM4Tables SM4.SM4Spec SM4.SM4Model.
Extraction Language OCaml.
Extraction "sm4_model.ml"
  NewCipher Encrypt Decrypt BlockSize_method run_history crypt_mem iterate_encrypt zero_r
  sm4_encrypt_block sm4_decrypt_block sm4_round_keys sm4_encrypt_rk sm4_decrypt_rk iter_rk.
