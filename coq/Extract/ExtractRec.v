(* Extraction of the record-layer model (Rec/RecordModel.v) together with the specifications it is run
   with in the correspondence check: SM4 (SM4/SM4Spec.v), HMAC-SM3 (SM3/HMACSpec.v), GCM (Rec/GcmRef.v).
   For the capture cases the key block is derived with Agree/KeyModel.v (PRF of GM/T 0024 over HMAC-SM3).
   Directives used: those of ExtrOcamlBasic only; nat, positive, N stay Coq's inductive types. *)
From Coq Require Import Extraction ExtrOcamlBasic List NArith.
From GmsmVerif Require Import Lib.Outcome SM4.SM4Spec SM3.SM3Spec SM3.HMACSpec Rec.GcmRef Rec.RecordSpec Rec.RecordModel Rec.RecordSM4 Agree.KeyModel.
Extraction Language OCaml.
Extraction "rec_model.ml"
  RecordModel.encrypt RecordModel.decrypt RecordModel.extractPadding RecordModel.roundUp
  RecordModel.padToBlockSize RecordModel.incSeq RecordModel.conn_Write RecordModel.recv_all
  RecordModel.read_calls RecordModel.apply_script RecordModel.readRecord RecordModel.write_calls RecordModel.sendAlertLocked RecordModel.readRecords_hs
  RecordSpec.tls_pad_ok
  RecordSM4.sm4_prims KeyModel.keysFromMasterSecret_model KeyModel.finishedSum_bytes SM3Spec.sm3 sm4_round_keys sm4_encrypt_rk sm4_decrypt_rk hmac_sm3 GcmRef.gcm_seal GcmRef.gcm_open.
