(* Extraction of the PKCS#12 primitive models of C17 (RC2, BMPString, PKCS#12 KDF with the toy hash of
   P12/PbkdfProofs.v) and of the signed-data verification model (P7/P7Model.v Verify) for the correspondence runner.  Directives: those of ExtrOcamlBasic only. *)
From Coq Require Import Extraction ExtrOcamlBasic List NArith ZArith.
From GmsmVerif Require Import Lib.Outcome P12.RC2Model P12.BmpModel P12.PbkdfModel P12.PbkdfProofs P7.P7Model P7.P7SignModel Dec.ByteModels.
Extraction Language OCaml.
Extraction "p12_model.ml" rc2_New rc2_encrypt rc2_decrypt bmpString decodeBMPString pbkdf_model toy_hash
  Verify mkP7 mkSigner mkIAS mkAttr Decrypt mkEnv mkECI mkRI PKCS7Encrypt Dec.ByteModels.pad sgn_model.
