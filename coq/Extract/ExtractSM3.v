(* Extraction of the SM3 specification and of the model of sm3/sm3.go (+ crypto/hmac, pbkdf2 over it)
   for the correspondence runner.  Directives used: those of ExtrOcamlBasic only (bool, option, unit,
   list, prod, sumbool, sumor, andb, orb).  nat, positive, N stay Coq's inductive types. *)
From Coq Require Import Extraction ExtrOcamlBasic List NArith.
From GmsmVerif Require Import Lib.Outcome SM3.SM3Spec SM3.HMACSpec SM3.SM3Model SM3.SM3Fast SM3.HMACMarshal SM3.GmtlsOps.
Extraction Language OCaml.
Extraction "sm3_model.ml"
  sm3 sm3_iv sm3_cf sm3_pad hmac_sm3 pbkdf2_hmac_sm3 sm3_fast hmac_sm3_fast
  init step run mkSM3 s_digest s_length s_unhandleMsg Write Sum Reset Sm3Sum
  hmac_New hmac_step hmac_oneshot pbkdf2_Key
  sm3_marshalable hmacM_New hmacM_step prf12_sm3_ops macSM3 tls10MAC_run.
