(* Extraction of the sm2/p256.go model (EC/P256Model.v, instance over the generated constants), of the limb layer
   (EC/LimbModel.v over the mechanically generated Gen/P256Limbs.v) and of
   the affine specification (EC/ECAffine.v, EC/SM2Curve.v) for the correspondence runner ocaml/ec.
   Directives: ExtrOcamlBasic (bool, option, unit, list, prod, sumbool, sumor, andb, orb) and
   ExtrOcamlZBigInt (positive, N, Z and their arithmetic mapped to zarith's Big_int_Z); nothing else.
   nat stays inductive. *)
From Coq Require Import Extraction ExtrOcamlBasic ExtrOcamlZBigInt ZArith NArith List.
From GmsmVerif Require Import Lib.Outcome EC.ECAffine EC.SM2Curve EC.P256Model EC.LimbModel EC.LimbRefine EC.LimbPoint
  EC.LimbSelect EC.LimbScalar EC.LimbScalarMult EC.LimbAPI.
Extraction Language OCaml.
Extraction "ec_model.ml"
  Params_model IsOnCurve_model Add_model Double_model ScalarMult_model ScalarBaseMult_model GenerateKey_model
  sm2GenrateWNaf_model fe_of_limbs_m Mul_model Square_model AddFe_model SubFe_model FromBig_model
  ReduceDegree_model PointDouble_model PointAddMixed_model PointAdd_model PointSub_model
  sm2_add sm2_double sm2_mul sm2_base_mul sm2_on_curve sm2_valid encode_point decode_point
  sm2P256Add_limbs sm2P256Sub_limbs sm2P256Mul_limbs sm2P256Square_limbs sm2P256ReduceDegree_limbs
  sm2P256FromBig_limbs sm2P256ToBig_limbs
  PointDouble_limbs PointAddMixed_limbs PointAdd_limbs PointSub_limbs
  IsOnCurve_limbs Add_limbs Double_limbs ScalarMult_limbs ScalarBaseMult_limbs GenerateKey_limbs.
