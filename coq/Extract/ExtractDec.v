(* Extraction of the decoder models of C18 for the correspondence runner.
   Directives used: those of ExtrOcamlBasic only.  nat, positive, N stay Coq's inductive types. *)
From Coq Require Import Extraction ExtrOcamlBasic List NArith.
From GmsmVerif Require Import Lib.Outcome Dec.Access Dec.BerModel Dec.ByteModels Dec.Asn1Model Dec.Asn1Inst Gen.Asn1Schemas.
Extraction Language OCaml.
Extraction "dec_model.ml"
  ber2der ber2der_budget unpad pad decrypt_gate cipherMarshal_gate cipherUnmarshal_post decompress_gate
  pkcs8_encrypted_post parseSm2PrivateKey_post readPublicKeyFromHex readPrivateKeyFromHex
  sessionState_unmarshal certificateRequestMsgGM_unmarshal
  ecc_processClientKeyExchange_gate ecc_processServerKeyExchange_gate ecdhe_processServerKeyExchange_gate
  be_value
  Unmarshal noParams sigSchema cipherSchema certOuterSchema t1Schema t2Schema signDataToSignDigit cipherUnmarshal gen_asn1_schemas.
