(* Extraction of the SM2 model (signature, encryption, key exchange, DER helpers) and of the
   specification functions it is compared with, for the correspondence runner ocaml/sm2.
   Directives: ExtrOcamlBasic (bool, option, unit, list, prod, sumbool, sumor, andb, orb) and
   ExtrOcamlZBigInt (positive, N, Z -> zarith Big_int_Z and its arithmetic constants); nothing else.
   nat stays Coq's unary type (lengths and fuel only). *)
From Coq Require Import Extraction ExtrOcamlBasic ExtrOcamlZBigInt List NArith ZArith.
From GmsmVerif Require Import Lib.Outcome EC.ECAffine EC.SM2Curve SM3.SM3Spec
     SM2.SM2Bytes SM2.SM2Spec SM2.DER SM2.SM2Model SM2.SM2Consumers.
Extraction Language OCaml.
Extraction "sm2_model.ml"
  key_of Sm2Sign Sign Sm2Verify Verify PublicKey_Verify Sm3Digest
  Encrypt EncryptAsn1 Decrypt DecryptAsn1 PrivateKey_Decrypt CipherMarshal CipherUnmarshal
  verifyHandshakeSignature_sm2 verifyHandshakeSignature_ecdsa x509_checkSignature_sm2 processClientKeyExchange
  KeyExchangeA KeyExchangeB keXHat kdf sig_decode sig_encode ScalarBaseMult
  sm3 os2ip i2osp sm2_n.
