(* Extraction of the x509 path-validation model (C10) and of the signing-decision model (C09) for
   the correspondence runner.  Directives: those of ExtrOcamlBasic only; nat, positive, N, Z stay
   Coq's inductive types. *)
From Coq Require Import Extraction ExtrOcamlBasic List NArith ZArith.
From GmsmVerif Require Import Lib.Outcome X509.NameMatchSpec X509.PathSpec X509.VerifyModel X509.CreateRun X509.DerLayer X509.ExtModel X509.CrlModel X509.CertModel X509.CertRun SM2.SM2Bytes.
Extraction Language OCaml.
Extraction "x509_model.ml"
  Verify_model sigchecks_used VerifyHostname_model matchHostnames_model matchNameConstraint_model
  toLowerCaseASCII_model checkChainForKeyUsage_model AddCert_model contains_model mkCert mkOpts
  c09_lookup
  marshalSANs_model parseSANExtension_model build_eku parse_eku build_policies parse_policies
  build_ski parse_ski build_aki parse_aki build_name_constraints parse_name_constraints
  read_tlv build_tbs_raw parse_tbs_raw revocation_list_exts create_crl_exts Z.add Z.mul Z.opp
  build_tbs_cert_run mkFields os2ip.
