(* Extraction of the model of the SM4 mode helpers (sm4/sm4.go: Sm4Ecb/Sm4Cbc/Sm4CFB/Sm4OFB, SetIV,
   pkcs7Padding with caller memory) for the C11 correspondence runner; the block cipher parameter is
   instantiated in the runner by the GM/T 0002 specification (SM4Spec), keyed once per call.
   Directives: those of ExtrOcamlBasic only; nat, positive, N stay inductive. *)
From Coq Require Import Extraction ExtrOcamlBasic List NArith.
From GmsmVerif Require Import Lib.Outcome SM4.SM4Spec SM4.ModesSpec SM4.ModesModel.
Extraction Language OCaml.
Extraction "sm4modes_model.ml"
  Sm4Ecb Sm4Cbc Sm4CFB Sm4OFB Sm4Ecb_mem Sm4Cbc_mem Sm4CFB_mem Sm4OFB_mem array mkSlice
  SetIV init_pkg mkPkg pkcs7Padding pkcs7UnPadding modes_run mkMCall
  sm4_round_keys sm4_encrypt_rk sm4_decrypt_rk.
