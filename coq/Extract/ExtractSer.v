(* Extraction of the serialisation models (Ser/SerModel.v) for the correspondence runner ocaml/ser.
   Directives: ExtrOcamlBasic (bool, option, unit, list, prod, sumbool, sumor, andb, orb) and ExtrOcamlZBigInt
   (positive, N, Z -> zarith Big_int_Z and its arithmetic constants: the models handle 256-bit integers and a
   modular exponentiation); nothing else.  nat stays Coq's unary type (lengths, fuel, curve numbers). *)
From Coq Require Import Extraction ExtrOcamlBasic ExtrOcamlZBigInt List NArith.
From GmsmVerif Require Import Lib.Outcome Ser.SerBytes Ser.SerDER Ser.SerModel.
Extraction Language OCaml.
Extraction "ser_model.ml"
  WritePrivateKeyToHex ReadPrivateKeyFromHex WritePublicKeyToHex ReadPublicKeyFromHex
  Compress Decompress_sm2 SignDigitToSignData SignDataToSignDigit CipherMarshal CipherUnmarshal
  MarshalSm2UnecryptedPrivateKey ParsePKCS8UnecryptedPrivateKey ParseSm2PrivateKey
  MarshalSm2PublicKey ParseSm2PublicKey
  X509KeyPair GMX509KeyPairs GMX509KeyPairsSingle matchKeyCert
  X509KeyPair_pem GMX509KeyPairsSingle_pem GMX509KeyPairs_pem Bytes of_be to_be.
