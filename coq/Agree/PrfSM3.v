(* HMAC-SM3 (SM3/HMACSpec.v) has 32-byte outputs, hence prf12(sm3.New) is P_SM3.  Uses only the
   specifications SM3/SM3Spec.v and SM3/HMACSpec.v. *)
From Coq Require Import List NArith Arith Bool Lia.
From GmsmVerif Require Import Lib.Outcome SM3.SM3Spec SM3.HMACSpec Agree.KeyModel Agree.AgreeProofs.
Import ListNotations.

Lemma cf_length : forall V B, length V = 8 -> length (sm3_cf V B) = 8.
Proof.
  intros V B H. unfold sm3_cf.
  destruct V as [|a [|b [|c [|d [|e [|f [|g [|h [|i V]]]]]]]]]; try exact H.
Qed.

Lemma blocks_length : forall fuel V m, length V = 8 -> length (sm3_blocks fuel V m) = 8.
Proof.
  induction fuel as [|x fuel IH]; intros V m H; cbn [sm3_blocks]; [exact H|].
  destruct (length (firstn 64 m) =? 64)%nat; [apply IH; apply cf_length; exact H|exact H].
Qed.

Lemma bytes_of_words_length : forall ws, length (bytes_of_words ws) = 4 * length ws.
Proof.
  induction ws as [|w ws IH]; [reflexivity|]. unfold bytes_of_words in *. cbn [flat_map].
  rewrite app_length, IH. cbn [bytes_of_word length]. lia.
Qed.

Lemma sm3_out_length : forall m, length (sm3 m) = 32.
Proof.
  intros m. unfold sm3, sm3_absorb. rewrite bytes_of_words_length, blocks_length; [reflexivity|reflexivity].
Qed.

Lemma hmac_sm3_out_length : forall k m, length (hmac_sm3 k m) = 32.
Proof. intros k m. unfold hmac_sm3. apply sm3_out_length. Qed.

Lemma prf12_sm3_is_P_SM3 : forall fuel n secret label seed, n <= fuel ->
  prf12 hmac_sm3 fuel n secret label seed = Ok (PRF_spec hmac_sm3 n secret label seed).
Proof.
  intros fuel n secret label seed H. unfold prf12, PRF_spec.
  apply (pHash_is_P_hash hmac_sm3 32); [lia|exact hmac_sm3_out_length|exact H].
Qed.

(* the decoder's PRF is the specification *)
From GmsmVerif Require Import Agree.WireSpec.
Lemma gm_prf_is_spec : forall n secret label seed,
  gm_prf n secret label seed = PRF_spec hmac_sm3 n secret label seed.
Proof. intros. unfold gm_prf. rewrite prf12_sm3_is_P_SM3 by lia. reflexivity. Qed.

Lemma gm_ekm_is_spec : forall n ms cr sr label context,
  reserved_label label = false -> context_too_long context = false ->
  gm_ekm n ms cr sr label context = Some (EKM_spec hmac_sm3 n ms cr sr label context).
Proof.
  intros n ms cr sr label context Hr Hc. unfold gm_ekm.
  rewrite (ekm_is_spec hmac_sm3 32) by (try lia; try exact hmac_sm3_out_length; assumption). reflexivity.
Qed.
