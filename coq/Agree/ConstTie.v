(* The constants and version tests that the models of C06 / C16 / the record layer use, against what the
   translator reads from the source (Gen/TLSSuites.v, regenerated on every run): re-proved each time. *)
From Coq Require Import String.
From Coq Require Import List NArith Arith Bool Lia.
From GmsmVerif Require Import Lib.Outcome Gen.TLSSuites Rec.RecordModel Agree.DataModel Agree.KeyModel
  Agree.AgreeProofs Resume.TicketModel.
Import ListNotations.
Close Scope N_scope.
Close Scope string_scope.

(* Conn.Write splits off the first byte exactly when len(b) > 1, c.vers <= VersionTLS10 and the cipher is a
   block mode; VersionGMSSL (0x0101) is numerically below VersionTLS10, so GMSSL CBC connections split too *)
Lemma split_condition : forall vers block n,
  write_splits vers block n = ((1 <? N.of_nat n)%N && (vers <=? gen_VersionTLS10)%N && block)%bool.
Proof. intros. reflexivity. Qed.

Lemma split_gmssl_cbc : forall n, write_splits gen_VersionGMSSL true n = (1 <? N.of_nat n)%N.
Proof. intros. rewrite split_condition. cbn. rewrite !andb_true_r. reflexivity. Qed.

(* halfConn: explicit IV for version >= VersionTLS11 or version == VersionGMSSL *)
Lemma explicit_iv_condition : forall v,
  explicit_iv_version v =
  (cmp_op gen_explicitIVVersOp v gen_explicitIVVersBound || cmp_op gen_explicitIVAlsoOp v gen_explicitIVAlsoBound)%bool.
Proof. intros. reflexivity. Qed.

(* the constants the record-layer model (Rec/RecordModel.v) writes down are the source's *)
Lemma record_constants_tie :
  N.of_nat RecordModel.recordHeaderLen = gen_recordHeaderLen
  /\ N.of_nat RecordModel.maxPlaintext = gen_maxPlaintext
  /\ N.of_nat RecordModel.maxCiphertext = gen_maxCiphertext
  /\ N.of_nat RecordModel.maxWarnAlertCount = gen_maxWarnAlertCount
  /\ RecordModel.VersionTLS10 = gen_VersionTLS10 /\ RecordModel.VersionTLS11 = gen_VersionTLS11
  /\ RecordModel.VersionGMSSL = gen_VersionGMSSL
  /\ RecordModel.recordTypeChangeCipherSpec = gen_recordTypeChangeCipherSpec
  /\ RecordModel.recordTypeAlert = gen_recordTypeAlert
  /\ RecordModel.recordTypeHandshake = gen_recordTypeHandshake
  /\ RecordModel.recordTypeApplicationData = gen_recordTypeApplicationData
  /\ N.of_nat RecordModel.tcpMSSEstimate = gen_tcpMSSEstimate
  /\ RecordModel.recordSizeBoostThreshold = gen_recordSizeBoostThreshold.
Proof. vm_compute. repeat split; reflexivity. Qed.

(* the values GM/T 0024 6.5 / RFC 5246 5, 7.4.9, 8.1, 6.2.1 prescribe *)
Lemma protocol_constants :
  gen_masterSecretLength = 48%N /\ gen_finishedVerifyLength = 12%N /\ gen_tlsRandomLength = 32%N
  /\ gen_maxPlaintext = (2 ^ 14)%N /\ gen_recordHeaderLen = 5%N /\ gen_noncePrefixLength = 4%N
  /\ gen_masterSecretLabel = "master secret"%string /\ gen_keyExpansionLabel = "key expansion"%string
  /\ gen_clientFinishedLabel = "client finished"%string /\ gen_serverFinishedLabel = "server finished"%string
  /\ gen_VersionGMSSL = 0x0101%N.
Proof. vm_compute. repeat split; reflexivity. Qed.

(* the byte lists the key-derivation model feeds to the PRF are the ASCII codes of those strings *)
Definition ascii_bytes (s : string) : list N := map (fun c => N.of_nat (Ascii.nat_of_ascii c)) (list_ascii_of_string s).
Lemma label_bytes_tie :
  gen_masterSecretLabel_bytes = ascii_bytes gen_masterSecretLabel
  /\ gen_keyExpansionLabel_bytes = ascii_bytes gen_keyExpansionLabel
  /\ gen_clientFinishedLabel_bytes = ascii_bytes gen_clientFinishedLabel
  /\ gen_serverFinishedLabel_bytes = ascii_bytes gen_serverFinishedLabel.
Proof. vm_compute. repeat split; reflexivity. Qed.

(* the ticket model's key-name length *)
Lemma ticket_constants_tie : N.of_nat TicketModel.ticketKeyNameLen = gen_ticketKeyNameLen.
Proof. reflexivity. Qed.

(* Finished: verify_data is the first finishedVerifyLength bytes of the PRF over the finished label *)
Lemma finishedSum_is_prf : forall (hmac : list N -> list N -> list N) hl, 1 <= hl -> (forall k m, length (hmac k m) = hl) ->
  forall fuel client ms h, 12 <= fuel ->
    finishedSum_bytes hmac fuel client ms h =
    Ok (PRF_spec hmac 12 ms (if client then gen_clientFinishedLabel_bytes else gen_serverFinishedLabel_bytes) h).
Proof.
  intros hmac hl Hp Hl fuel client ms h Hf. unfold finishedSum_bytes, prf12, PRF_spec.
  change (N.to_nat gen_finishedVerifyLength) with 12.
  exact (pHash_is_P_hash hmac hl Hp Hl fuel 12 ms _ Hf).
Qed.
