(* Lemmas for C06: lifting of the sweep over the configuration product, key-block layout, and the PRF. *)
From Coq Require Import List NArith Arith Bool Lia.
From GmsmVerif Require Import Lib.Outcome Gen.TLSSuites Resume.ResumeModel Agree.AgreeModel Agree.AgreeSpec Agree.KeyModel.
Import ListNotations.
Close Scope N_scope.

(* ---------- the sweep ----------------------------------------------------------------------------- *)
Definition agree_prop (a : acfg) : Prop :=
  match honest_run a with
  | (Done rc, Done rs) =>
    policy_allows a = true
    /\ res_vers rc = res_vers rs /\ res_suite rc = res_suite rs
    /\ res_ms rc = res_ms rs /\ res_ekm rc = res_ekm rs /\ res_keys rc = res_keys rs
    /\ res_peer rc = expected_server_certs a /\ res_peer rs = expected_client_certs a
    /\ reconnect_ok a rc = true
    /\ expected_suite a = Some (res_suite rc)
  | (Errored, Errored) => policy_allows a = false
  | _ => False
  end.

Lemma term_eqb_eq : forall a b, term_eqb a b = true -> a = b.
Proof. intros a b. unfold term_eqb. destruct (term_eq_dec a b); [auto|discriminate]. Qed.
Lemma listN_eqb_eq : forall a b, listN_eqb a b = true -> a = b.
Proof. intros a b. unfold listN_eqb. destruct (list_eq_dec N.eq_dec a b); [auto|discriminate]. Qed.

Lemma agree_check_sound : forall a, agree_check a = true -> agree_prop a.
Proof.
  intros a. unfold agree_check, agree_prop. destruct (honest_run a) as [[rc| |] [rs| |]]; try discriminate.
  - intros H. do 9 (apply andb_prop in H; destruct H as [H ?]).
    destruct (expected_suite a) as [es|]; [|discriminate].
    match goal with E : N.eqb es _ = true |- _ => apply N.eqb_eq in E; subst es end.
    repeat split; auto using term_eqb_eq, listN_eqb_eq; apply N.eqb_eq; assumption.
  - intros H. apply negb_true_iff. exact H.
Qed.

(* what "find" finds is the first element that satisfies the test *)
Lemma find_first : forall {A} (f : A -> bool) l x,
  find f l = Some x <-> exists l1 l2, l = l1 ++ x :: l2 /\ f x = true /\ Forall (fun y => f y = false) l1.
Proof.
  intros A f l x. induction l as [|y l IH]; cbn.
  - split; [discriminate|]. intros (l1 & l2 & H & _). destruct l1; discriminate.
  - destruct (f y) eqn:E.
    + split.
      * intros [= <-]. exists [], l. repeat split; auto.
      * intros (l1 & l2 & H & Hx & HF). destruct l1 as [|z l1]; cbn in H.
        -- injection H as <- _. reflexivity.
        -- injection H as <- _. inversion HF; congruence.
    + rewrite IH. split.
      * intros (l1 & l2 & -> & Hx & HF). exists (y :: l1), l2. repeat split; auto.
      * intros (l1 & l2 & H & Hx & HF). destruct l1 as [|z l1]; cbn in H.
        -- injection H as <- _. congruence.
        -- injection H as <- ->. inversion HF; subst. exists l1, l2. auto.
Qed.

Lemma in_bools : forall b, In b bools.
Proof. intros []; cbn; auto. Qed.

Lemma sweep_forall : forall f, sweep f = true -> forall a, in_product a -> f a = true.
Proof.
  intros f H [m k cs ss p au cc cb tk pl] (Hm & Hk & Hcs & Hss & Hau & Hcc).
  cbn [a_mode a_ckind a_csuites a_ssuites a_auth a_ccert] in Hm, Hk, Hcs, Hss, Hau, Hcc.
  unfold sweep in H.
  rewrite forallb_forall in H. specialize (H m Hm).
  rewrite forallb_forall in H. specialize (H k Hk).
  rewrite forallb_forall in H. specialize (H cs Hcs).
  rewrite forallb_forall in H. specialize (H ss Hss).
  rewrite forallb_forall in H. specialize (H p (in_bools p)).
  rewrite forallb_forall in H. specialize (H au Hau).
  rewrite forallb_forall in H. specialize (H cc Hcc).
  rewrite forallb_forall in H. specialize (H cb (in_bools cb)).
  rewrite forallb_forall in H. specialize (H tk (in_bools tk)).
  rewrite forallb_forall in H. exact (H pl (in_bools pl)).
Qed.

(* ---------- key block ------------------------------------------------------------------------------ *)
Lemma key_slices_layout : forall km m k i, length km = 2 * m + 2 * k + 2 * i ->
  let '(cm, sm, ck, sk, ci, si) := key_slices km m k i in
  km = cm ++ sm ++ ck ++ sk ++ ci ++ si
  /\ length cm = m /\ length sm = m /\ length ck = k /\ length sk = k /\ length ci = i /\ length si = i.
Proof.
  intros km m k i HL. unfold key_slices. cbv zeta.
  set (k1 := skipn m km). set (k2 := skipn m k1). set (k3 := skipn k k2). set (k4 := skipn k k3). set (k5 := skipn i k4).
  assert (L1 : length k1 = m + 2 * k + 2 * i) by (unfold k1; rewrite skipn_length; lia).
  assert (L2 : length k2 = 2 * k + 2 * i) by (unfold k2; rewrite skipn_length; lia).
  assert (L3 : length k3 = k + 2 * i) by (unfold k3; rewrite skipn_length; lia).
  assert (L4 : length k4 = 2 * i) by (unfold k4; rewrite skipn_length; lia).
  assert (L5 : length k5 = i) by (unfold k5; rewrite skipn_length; lia).
  split.
  - rewrite (firstn_all2 k5) by lia.
    unfold k5. rewrite (firstn_skipn i k4). unfold k4. rewrite (firstn_skipn k k3).
    unfold k3. rewrite (firstn_skipn k k2). unfold k2. rewrite (firstn_skipn m k1).
    unfold k1. rewrite (firstn_skipn m km). reflexivity.
  - rewrite !firstn_length. lia.
Qed.

Lemma establishKeys_mirrored : forall s,
  ck_out (establishKeys_client s) = ck_in (establishKeys_server s)
  /\ ck_in (establishKeys_client s) = ck_out (establishKeys_server s).
Proof. intros [[[[[cm sm] ck] sk] ci] si]. cbn. split; reflexivity. Qed.

(* ---------- PRF ---------------------------------------------------------------------------------- *)
Section PRFProofs.
  Variable hmac : list N -> list N -> list N.
  Variable hl : nat.
  Hypothesis hl_pos : 1 <= hl.
  Hypothesis hmac_len : forall k m, length (hmac k m) = hl.

  Lemma stream_length : forall secret seed k i, length (p_hash_stream hmac secret seed i k) = k * hl.
  Proof.
    intros secret seed. induction k as [|k IH]; intros i; cbn; [reflexivity|].
    rewrite app_length, hmac_len, IH. lia.
  Qed.

  Lemma stream_app : forall secret seed a b i,
    p_hash_stream hmac secret seed i (a + b) = p_hash_stream hmac secret seed i a ++ p_hash_stream hmac secret seed (i + a) b.
  Proof.
    intros secret seed. induction a as [|a IH]; intros b i; cbn.
    - rewrite Nat.add_0_r. reflexivity.
    - rewrite IH, <- app_assoc. replace (S i + a) with (i + S a) by lia. reflexivity.
  Qed.

  Lemma firstn_stream_enough : forall secret seed i m k, m <= k ->
    firstn m (p_hash_stream hmac secret seed i k) = firstn m (p_hash_stream hmac secret seed i m).
  Proof.
    intros secret seed i m k H. replace k with (m + (k - m)) by lia. rewrite stream_app.
    rewrite firstn_app. rewrite stream_length.
    replace (m - m * hl) with 0 by nia. cbn. rewrite app_nil_r. reflexivity.
  Qed.

  Lemma pHash_loop_spec : forall fuel secret seed i n j res,
    j <= n -> n - j <= fuel -> length res = j ->
    pHash_loop hmac fuel secret seed (A hmac secret seed i) n j res
    = Ok (res ++ firstn (n - j) (p_hash_stream hmac secret seed i (n - j))).
  Proof.
    induction fuel as [|fuel IH]; intros secret seed i n j res Hj Hf Hr.
    - assert (E : j = n) by lia. rewrite E. cbn [pHash_loop]. rewrite Nat.ltb_irrefl, Nat.sub_diag. cbn. rewrite app_nil_r. reflexivity.
    - cbn [pHash_loop]. destruct (Nat.ltb_spec j n) as [Hlt|Hge].
      2:{ assert (E : j = n) by lia. rewrite E, Nat.sub_diag. cbn. rewrite app_nil_r. reflexivity. }
      rewrite hmac_len.
      set (b := hmac secret (A hmac secret seed i ++ seed)).
      assert (Hb : length b = hl) by apply hmac_len.
      change (hmac secret (A hmac secret seed i)) with (A hmac secret seed (S i)).
      destruct (Nat.ltb_spec n (j + hl)) as [Hshort|Hfull].
      + (* last, truncated term *)
        rewrite IH; [|lia|lia|rewrite app_length, firstn_length; lia].
        replace (n - (j + (n - j))) with 0 by lia. cbn [firstn]. rewrite app_nil_r.
        f_equal. f_equal.
        destruct (n - j) as [|d] eqn:Ed; [lia|]. cbn [p_hash_stream]. fold b.
        rewrite firstn_app. rewrite Hb. replace (S d - hl) with 0 by lia. cbn [firstn]. rewrite app_nil_r. reflexivity.
      + rewrite IH; [|lia|lia|rewrite app_length, firstn_length; lia].
        rewrite <- app_assoc. f_equal. f_equal.
        rewrite (firstn_all2 b) by lia.
        destruct (n - j) as [|d] eqn:Ed; [lia|]. cbn [p_hash_stream]. fold b.
        rewrite firstn_app, Hb. rewrite (firstn_all2 b) by lia. f_equal.
        replace (n - (j + hl)) with (S d - hl) by lia.
        rewrite (firstn_stream_enough secret seed (S i) (S d - hl) d) by lia. reflexivity.
  Qed.

  Lemma pHash_is_P_hash : forall fuel n secret seed, n <= fuel ->
    pHash hmac fuel n secret seed = Ok (P_hash hmac n secret seed).
  Proof.
    intros fuel n secret seed H. unfold pHash, P_hash.
    change (hmac secret seed) with (A hmac secret seed 1).
    rewrite pHash_loop_spec by (cbn; lia). rewrite Nat.sub_0_r. reflexivity.
  Qed.

  Lemma P_hash_length : forall n secret seed, length (P_hash hmac n secret seed) = n.
  Proof. intros. unfold P_hash. rewrite firstn_length, stream_length. nia. Qed.
End PRFProofs.

(* ---------- exported keying material (RFC 5705): ekmFromMasterSecret ------------------------------- *)
Lemma ekm_seed_spec : forall cr sr c, (N.of_nat (length c) < 65536)%N ->
  ekm_seed cr sr (Some c) = cr ++ sr ++ [N.of_nat (length c) / 256; N.of_nat (length c) mod 256]%N ++ c.
Proof.
  intros cr sr c H. unfold ekm_seed. cbn [app]. rewrite (N.mod_small (N.of_nat (length c) / 256) 256); [reflexivity|].
  apply N.div_lt_upper_bound; [discriminate|exact H].
Qed.

(* the seed tells an absent context from an empty one, and any two contexts from each other *)
Lemma ekm_seed_injective : forall cr sr c1 c2, ekm_seed cr sr c1 = ekm_seed cr sr c2 -> c1 = c2.
Proof.
  intros cr sr c1 c2 H. unfold ekm_seed in H.
  apply app_inv_head in H. apply app_inv_head in H.
  destruct c1 as [a|], c2 as [b|]; cbn in H; try discriminate; [|reflexivity].
  injection H as _ _ H. subst. reflexivity.
Qed.

Section EKMProofs.
  Variable hmac : list N -> list N -> list N.
  Variable hl : nat.
  Hypothesis hl_pos : 1 <= hl.
  Hypothesis hmac_len : forall k m, length (hmac k m) = hl.

  Lemma ekm_is_spec : forall fuel n ms cr sr label context, n <= fuel ->
    reserved_label label = false -> context_too_long context = false ->
    ekmFromMasterSecret_bytes hmac fuel ms cr sr label context n = Ok (EKM_spec hmac n ms cr sr label context).
  Proof.
    intros fuel n ms cr sr label context Hf Hr Hc. unfold ekmFromMasterSecret_bytes. rewrite Hr, Hc.
    unfold prf12. rewrite (pHash_is_P_hash hmac hl hl_pos hmac_len) by exact Hf.
    unfold EKM_spec, PRF_spec. destruct context as [c|].
    - rewrite ekm_seed_spec; [reflexivity|]. cbn in Hc. apply N.leb_gt in Hc. exact Hc.
    - unfold ekm_seed. rewrite app_nil_r. reflexivity.
  Qed.

  Lemma ekm_refusals : forall fuel n ms cr sr label context,
    (reserved_label label = true -> ekmFromMasterSecret_bytes hmac fuel ms cr sr label context n = Err 1) /\
    (reserved_label label = false -> context_too_long context = true ->
       ekmFromMasterSecret_bytes hmac fuel ms cr sr label context n = Err 2).
  Proof.
    intros. unfold ekmFromMasterSecret_bytes. split; [intros ->; reflexivity|intros -> ->; reflexivity].
  Qed.
End EKMProofs.
