(* Honest-run model of the gmtls handshake: a client model and a server model that exchange messages of
   an abstract alphabet over a faithful channel.  Each endpoint is a function from the messages it has
   received so far to the messages it has sent so far and its status, written in the sequential style of
   the Go code (clientHandshake / clientHandshakeState(GM).handshake / doFullHandshake / readFinished ...
   on one side, serverHandshake / serverHandshakeGM / serverHandshakeAutoSwitch and their helpers on the
   other).  Cryptographic values are symbolic terms.  No proofs in this file.

   Suite tables and constants: Gen/TLSSuites.v.  Suite selection, version negotiation and the
   client-certificate policy are the definitions of Resume/ResumeModel.v (same Go functions). *)
From Coq Require Import List NArith Arith Bool.
From GmsmVerif Require Import Lib.Outcome Gen.TLSSuites Resume.ResumeModel.
Import ListNotations.
Open Scope N_scope.

(* ---------- configurations: the finite product of the statement ------------------------------- *)
Record acfg := mkA {
  a_mode : smode;                  (* GMSSL only / auto-switch / TLS only *)
  a_ckind : ckind;                 (* GM client, or TLS client with MaxVersion 1.0 / 1.1 / 1.2 *)
  a_csuites : option (list N);     (* client CipherSuites (None = nil) *)
  a_ssuites : option (list N);     (* server CipherSuites *)
  a_prefer : bool;                 (* PreferServerCipherSuites *)
  a_auth : N;                      (* ClientAuth 0..4 *)
  a_ccert : N;                     (* client certificate: 0 none, 1 trusted, 2 forged issuer *)
  a_callbacks : bool;              (* certificates through GetCertificate / GetKECertificate instead of Certificates *)
  a_tickets : bool;                (* session tickets on (client cache + server tickets) / off *)
  a_pool : bool }.                 (* ClientCAs holds the CAs (true) / is an empty pool (false) *)

Definition a_scfg (a : acfg) : scfg :=
  mkS (a_mode a) (a_ssuites a) (a_prefer a) (a_auth a) (negb (a_tickets a)) [1].
Definition a_ccfg (a : acfg) : ccfg :=
  mkC (a_ckind a) (a_csuites a) (a_ccert a) 0 (a_tickets a).

(* Certificate verification against Config.ClientCAs: with an empty pool no certificate chains to a root,
   so every presented certificate counts as one that does not verify (the CertificateRequest then names no
   CA and the client sends whatever certificate it has).  1/2 = SM2 trusted/forged, 3/4 = RSA trusted/forged. *)
Definition eff_cert (pool : bool) (id : N) : N :=
  if pool then id
  else if N.eqb id 0 then 0 else if N.eqb id 1 || N.eqb id 2 then 2 else 4.

(* key / certificate identities *)
Definition id_sig : N := 11.       (* SM2 signing certificate and key *)
Definition id_enc : N := 12.       (* SM2 encryption certificate and key *)
Definition id_rsa : N := 13.       (* RSA certificate and key *)

(* ---------- terms and messages ----------------------------------------------------------------- *)
Inductive mtag :=
| GClientHello (vers : N) (random : N) (suites : list N) (ticket : bool)
| GServerHello (vers : N) (random : N) (suite : N) (ticket : bool)
| GCertificate (ids : list N)
| GServerKeyExchange (signer eph : N)
| GCertificateRequest
| GServerHelloDone
| GClientKeyExchange (tokey payload : N)
| GCertificateVerify (signer : N)
| GNewSessionTicket
| GFinished (client : bool).

Inductive seed := SRands (c s : N) | SRandsRev (s c : N) | SHash (tr : list mtag).
Inductive term := TPms (i : N) | TDh (a b : N) | TPrf (secret : term) (label : N) (sd : seed).

Inductive msg := Hs (m : mtag) (verify : option term) | CCS | Alert.

Definition l_master : N := 1.
Definition l_keyexp : N := 2.
Definition l_cfin : N := 3.
Definition l_sfin : N := 4.
Definition l_ekm : N := 5.
(* the 32 random bytes each side draws for its hello (symbolic atoms).  A side uses its OWN atom and the one it
   RECEIVED in the peer's hello, so agreement on the secrets is a consequence of the exchange, not of sharing
   constants. *)
Definition rand_c : N := 1.
Definition rand_s : N := 2.

(* prf.go: masterFromPreMasterSecret, finishedHash.clientSum / serverSum, ekmFromMasterSecret *)
Definition masterFromPreMasterSecret (pms : term) (cr sr : N) : term := TPrf pms l_master (SRands cr sr).
Definition clientSum (ms : term) (tr : list mtag) : term := TPrf ms l_cfin (SHash tr).
Definition serverSum (ms : term) (tr : list mtag) : term := TPrf ms l_sfin (SHash tr).
Definition ekmFromMasterSecret (ms : term) (cr sr : N) : term := TPrf ms l_ekm (SRands cr sr).
Definition keyBlockTerm (ms : term) (cr sr : N) : term := TPrf ms l_keyexp (SRandsRev sr cr).

(* decidable equality of terms (used where the code compares verify data) *)
Definition mtag_eq_dec : forall a b : mtag, {a = b} + {a <> b}.
Proof. decide equality; try apply N.eq_dec; try apply Bool.bool_dec; apply (list_eq_dec N.eq_dec). Defined.
Definition seed_eq_dec : forall a b : seed, {a = b} + {a <> b}.
Proof. decide equality; try apply N.eq_dec; apply (list_eq_dec mtag_eq_dec). Defined.
Definition term_eq_dec : forall a b : term, {a = b} + {a <> b}.
Proof. decide equality; try apply N.eq_dec; apply seed_eq_dec. Defined.

(* ---------- the endpoint monad: read from the inbox, append to the outbox ------------------------ *)
Inductive res (A : Type) :=
| Val (a : A) (inbox out : list msg)
| Wait (out : list msg)              (* blocked in a read *)
| Fail (out : list msg).             (* Handshake returned an error *)
Arguments Val {A}. Arguments Wait {A}. Arguments Fail {A}.

Definition M (A : Type) := list msg -> list msg -> res A.
Definition ret {A} (a : A) : M A := fun i o => Val a i o.
Definition bind {A B} (m : M A) (f : A -> M B) : M B :=
  fun i o => match m i o with Val a i' o' => f a i' o' | Wait o' => Wait o' | Fail o' => Fail o' end.
Notation "'mdo' x <- m ; f" := (bind m (fun x => f)) (at level 200, x name, m at level 100, f at level 200).

(* c.sendAlert(...) followed by "return err" *)
Definition abort {A} : M A := fun _ o => Fail (o ++ [Alert]).
Definition send (m : msg) : M unit := fun i o => Val tt i (o ++ [m]).
(* c.readHandshake(): an alert from the peer ends the handshake with an error *)
Definition readHandshake : M (mtag * option term) :=
  fun i o => match i with
             | [] => Wait o
             | Hs m v :: i' => Val (m, v) i' o
             | CCS :: _ => Fail (o ++ [Alert])          (* unexpected message *)
             | Alert :: _ => Fail o
             end.
(* c.readRecord(recordTypeChangeCipherSpec) *)
Definition readCCS : M unit :=
  fun i o => match i with
             | [] => Wait o
             | CCS :: i' => Val tt i' o
             | Alert :: _ => Fail o
             | Hs _ _ :: _ => Fail (o ++ [Alert])
             end.

Record result := mkRes {
  res_vers : N; res_suite : N; res_peer : list N;   (* ConnectionState: Version, CipherSuite, PeerCertificates *)
  res_ms : term; res_ekm : term; res_keys : term }.

(* ---------- key exchange kinds ------------------------------------------------------------------ *)
(* which key agreement a suite uses: 0 = GM ECC (SM2 key transport to the encryption certificate),
   1 = RSA key transport, 2 = ECDHE signed with the RSA certificate *)
Definition ka_kind (gm : bool) (suite : N) : N :=
  if gm then 0
  else match lookup_suite gen_cipherSuites suite with
       | Some r => if has_flag (row_flags r) gen_suiteECDHE then 2 else 1
       | None => 1
       end.

Definition eph_s : N := 4.
Definition eph_c : N := 3.
Definition pms_atom : N := 1.

(* ---------- the client ------------------------------------------------------------------------- *)
Definition client (a : acfg) : M result :=
  let c := a_ccfg a in
  let gm := is_gm (c_kind c) in
  let hello := GClientHello (hello_vers (c_kind c)) rand_c (hello_suites c) (c_cache c) in
  mdo _ <- send (Hs hello None);
  mdo sh <- readHandshake;
  match fst sh with
  | GServerHello vers sr suite tk =>   (* sr: the server random as received *)
    (* GM: serverHello.vers must be VersionGMSSL; TLS: pickTLSVersion (mutualVersion, at least TLS 1.0) *)
    if negb (if gm then N.eqb vers gen_VersionGMSSL
             else N.leb gen_VersionTLS10 vers && N.leb vers (client_maxvers (c_kind c))) then abort
    (* pickCipherSuite: mutualCipherSuite(GM) *)
    else if negb (memN suite (hello_suites c)
                  && match lookup_suite (if gm then gen_gmCipherSuites else gen_cipherSuites) suite with
                     | Some _ => true | None => false end) then abort
    else
      let tr := [hello; fst sh] in
      (* doFullHandshake *)
      mdo cm <- readHandshake;
      match fst cm with
      | GCertificate ids =>
        if (match ids with [] => true | _ => false end) || (gm && Nat.ltb (length ids) 2) then abort
        else
          let tr := tr ++ [fst cm] in
          let kk := ka_kind gm suite in
          mdo m1 <- readHandshake;
          (* ServerKeyExchange: mandatory for GM suites; sent by ECDHE suites; its signature must verify
             under the first certificate *)
          mdo x <- (match fst m1 with
                    | GServerKeyExchange signer eph =>
                      if negb (N.eqb signer (hd 0 ids)) then abort
                      else mdo m2 <- readHandshake; ret (tr ++ [fst m1], Some eph, m2)
                    | _ => if gm then abort else ret (tr, None, m1)
                    end);
          let '(tr, seph, m2) := x in
          mdo y <- (match fst m2 with
                    | GCertificateRequest => mdo m3 <- readHandshake; ret (tr ++ [fst m2], true, m3)
                    | _ => ret (tr, false, m2)
                    end);
          let '(tr, certRequested, m3) := y in
          match fst m3 with
          | GServerHelloDone =>
            let tr := tr ++ [fst m3] in
            let chain := if N.eqb (c_cert c) 0 then [] else [cert_id gm (c_cert c)] in
            mdo tr <- (if certRequested
                       then mdo _ <- send (Hs (GCertificate chain) None); ret (tr ++ [GCertificate chain])
                       else ret tr);
            (* generateClientKeyExchange *)
            mdo z <- (if N.eqb kk 2
                      then match seph with
                           | Some e => ret (GClientKeyExchange 0 eph_c, TDh eph_c e)
                           | None => abort                        (* ECDHE without ServerKeyExchange *)
                           end
                      else ret (GClientKeyExchange (if gm then nth 1 ids 0 else hd 0 ids) pms_atom, TPms pms_atom));
            let '(ckx, pms) := z in
            mdo _ <- send (Hs ckx None);
            let tr := tr ++ [ckx] in
            mdo tr <- (if certRequested && negb (match chain with [] => true | _ => false end)
                       then let cv := GCertificateVerify (hd 0 chain) in
                            mdo _ <- send (Hs cv None); ret (tr ++ [cv])
                       else ret tr);
            let ms := masterFromPreMasterSecret pms rand_c sr in
            (* establishKeys; sendFinished *)
            mdo _ <- send CCS;
            mdo _ <- send (Hs (GFinished true) (Some (clientSum ms tr)));
            let tr := tr ++ [GFinished true] in
            (* readSessionTicket *)
            mdo tr <- (if tk then mdo t <- readHandshake;
                                 match fst t with GNewSessionTicket => ret (tr ++ [GNewSessionTicket]) | _ => abort end
                       else ret tr);
            (* readFinished *)
            mdo _ <- readCCS;
            mdo f <- readHandshake;
            match f with
            | (GFinished false, Some v) =>
              if term_eq_dec v (serverSum ms tr)
              then ret (mkRes vers suite ids ms (ekmFromMasterSecret ms rand_c sr) (keyBlockTerm ms rand_c sr))
              else abort
            | _ => abort
            end
          | _ => abort
          end
      | _ => abort
      end
  | _ => abort
  end.

(* ---------- the server ------------------------------------------------------------------------- *)
(* the certificates a handshake flow gets hold of.
   GM flow (serverHandshakeGM.readClientHello and processClientHelloGM): the static list when it has two
     entries, otherwise getCertificate + getEKCertificate, i.e. the callbacks.
   TLS flow: getCertificate: callbacks, else Certificates[0]; in auto-switch mode a static list starts with
     the SM2 signing certificate, whose key type the TLS flow refuses. *)
Definition server_certs (mode : smode) (callbacks gm : bool) : option (list N) :=
  if gm then Some [id_sig; id_enc]
  else
    match mode with
    | SAuto => if callbacks then Some [id_rsa] else None
    | _ => Some [id_rsa]
    end.

Definition server (a : acfg) : M result :=
  let cfg := a_scfg a in
  mdo ch <- readHandshake;
  match fst ch with
  | GClientHello hv cr offered ctk =>   (* cr: the client random as received *)
    match server_version (s_mode cfg) hv with
    | None => abort
    | Some (gm, vers) =>
      match server_certs (a_mode a) (a_callbacks a) gm with
      | None => abort
      | Some certs =>
        match pick_suite gm cfg vers offered with
        | None => abort
        | Some suite =>
          let tk := ctk && negb (s_disabled cfg) in
          let sh := GServerHello vers rand_s suite tk in
          mdo _ <- send (Hs sh None);
          mdo _ <- send (Hs (GCertificate certs) None);
          let tr := [fst ch; sh; GCertificate certs] in
          let kk := ka_kind gm suite in
          (* generateServerKeyExchange: GM ECC signs the encryption certificate; ECDHE signs its parameters;
             RSA key transport has none *)
          mdo tr <- (if N.eqb kk 1 then ret tr
                     else let skx := GServerKeyExchange (hd 0 certs) (if N.eqb kk 2 then eph_s else 0) in
                          mdo _ <- send (Hs skx None); ret (tr ++ [skx]));
          let requested := N.leb gen_RequestClientCert (s_auth cfg) in
          mdo tr <- (if requested then mdo _ <- send (Hs GCertificateRequest None); ret (tr ++ [GCertificateRequest])
                     else ret tr);
          mdo _ <- send (Hs GServerHelloDone None);
          let tr := tr ++ [GServerHelloDone] in
          mdo m1 <- readHandshake;
          mdo x <- (if requested
                    then match fst m1 with
                         | GCertificate ids =>
                           (* empty certificate list under Require*; processCertsFromClient verifies from
                              VerifyClientCertIfGiven on *)
                           match client_auth (s_auth cfg) (eff_cert (a_pool a) (hd 0 ids)) with
                           | None => abort
                           | Some _ => mdo m2 <- readHandshake; ret (tr ++ [fst m1], ids, m2)
                           end
                         | _ => abort
                         end
                    else ret (tr, [], m1));
          let '(tr, peer, m2) := x in
          match fst m2 with
          | GClientKeyExchange tokey payload =>
            let tr := tr ++ [fst m2] in
            (* processClientKeyExchange *)
            mdo pms <- (if N.eqb kk 2 then ret (TDh payload eph_s)
                        else if N.eqb tokey (if gm then nth 1 certs 0 else hd 0 certs) then ret (TPms payload)
                        else abort);
            let ms := masterFromPreMasterSecret pms cr rand_s in
            mdo tr <- (match peer with
                       | [] => ret tr
                       | leaf :: _ =>
                         mdo cv <- readHandshake;
                         match fst cv with
                         | GCertificateVerify signer => if N.eqb signer leaf then ret (tr ++ [fst cv]) else abort
                         | _ => abort
                         end
                       end);
            (* establishKeys; readFinished *)
            mdo _ <- readCCS;
            mdo f <- readHandshake;
            match f with
            | (GFinished true, Some v) =>
              if term_eq_dec v (clientSum ms tr)
              then
                let tr := tr ++ [GFinished true] in
                (* sendSessionTicket; sendFinished *)
                mdo tr <- (if tk then mdo _ <- send (Hs GNewSessionTicket None); ret (tr ++ [GNewSessionTicket]) else ret tr);
                mdo _ <- send CCS;
                mdo _ <- send (Hs (GFinished false) (Some (serverSum ms tr)));
                ret (mkRes vers suite peer ms (ekmFromMasterSecret ms cr rand_s) (keyBlockTerm ms cr rand_s))
              else abort
            | _ => abort
            end
          | _ => abort
          end
        end
      end
    end
  | _ => abort
  end.

(* ---------- the faithful channel ----------------------------------------------------------------- *)
Inductive status := Done (r : result) | Blocked | Errored.

Definition status_of (r : res result) : status * list msg :=
  match r with
  | Val a _ o => (Done a, o)
  | Wait o => (Blocked, o)
  | Fail o => (Errored, o)
  end.

(* every message sent is delivered, in order, nothing else is: each endpoint is re-run on all it has been
   sent so far until neither sends anything new *)
Fixpoint exchange (fuel : nat) (a : acfg) (to_c to_s : list msg) : status * status :=
  let '(sc, oc) := status_of (client a to_c []) in
  let '(ss, os) := status_of (server a to_s []) in
  match fuel with
  | O => (sc, ss)
  | S fuel' =>
    if Nat.eqb (length oc) (length to_s) && Nat.eqb (length os) (length to_c) then (sc, ss)
    else exchange fuel' a os oc
  end.

Definition honest_run (a : acfg) : status * status := exchange 16 a [] [].
