(* The sweep over the whole configuration product of C06, by computation (vm_compute, about 40 s). *)
From Coq Require Import List NArith Bool.
From GmsmVerif Require Import Gen.TLSSuites Resume.ResumeModel Agree.AgreeModel Agree.AgreeSpec.

Lemma sweep_agree_check : sweep agree_check = true.
Proof. vm_compute. reflexivity. Qed.

(* size of the product and of its allowed part (evidence; also shows the sweep is not over an empty domain) *)
Lemma product_size : count (fun _ => true) = 221760%N /\ count policy_allows = 10960%N.
Proof. vm_compute. split; reflexivity. Qed.
