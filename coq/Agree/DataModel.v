(* Model of the application-data path of gmtls/conn.go: Conn.Write (with the 1/n-1 split of block-cipher
   suites up to TLS 1.0), writeRecordLocked (fragments of at most maxPayloadSizeForWrite bytes, which varies
   from record to record: dynamic record sizing), and Conn.Read (one record at a time, short reads, empty
   records skipped).  Record protection is a parameter: [seal seq fragment] / [open seq record].
   No proofs in this file. *)
From Coq Require Import String.
From Coq Require Import List NArith Arith Bool.
From GmsmVerif Require Import Lib.Outcome Gen.TLSSuites.
Import ListNotations.
Close Scope N_scope.
Close Scope string_scope.

Notation byte := N (only parsing).

(* writeRecordLocked: "for len(data) > 0 { m := min(len(data), maxPayloadSizeForWrite()) ... }".
   [bound pkt] is what maxPayloadSizeForWrite answers for the pkt-th record of the connection. *)
Fixpoint writeRecordLocked (fuel : nat) (bound : nat -> nat) (pkt : nat) (data : list byte)
  : outcome (list (list byte) * nat) :=
  match data with
  | [] => Ok ([], pkt)
  | _ =>
    match fuel with
    | O => Hang
    | S fuel' =>
      let m := Nat.min (length data) (bound pkt) in
      if Nat.eqb m 0 then Hang                   (* a zero bound would never make progress *)
      else
        do '(rest, pkt') <- writeRecordLocked fuel' bound (S pkt) (skipn m data);
        Ok (firstn m data :: rest, pkt')
    end
  end.

(* a comparison operator as the translator reads it from a condition in the source *)
Definition cmp_op (op : String.string) (x y : N) : bool :=
  if String.eqb op "<="%string then N.leb x y
  else if String.eqb op "<"%string then N.ltb x y
  else if String.eqb op ">="%string then N.leb y x
  else if String.eqb op ">"%string then N.ltb y x
  else if String.eqb op "=="%string then N.eqb x y
  else if String.eqb op "!="%string then negb (N.eqb x y)
  else false.

(* Conn.Write: "if len(b) > 1 && c.vers <= VersionTLS10 { if _, ok := c.out.cipher.(cipher.BlockMode); ok { ..."
   - operators and bounds are the generated ones (Gen/TLSSuites.v: gen_splitLenOp, gen_splitLenBound, gen_splitVersOp, gen_splitVersBound) *)
Definition write_splits (vers : N) (blockmode : bool) (n : nat) : bool :=
  (cmp_op gen_splitLenOp (N.of_nat n) gen_splitLenBound
   && cmp_op gen_splitVersOp vers gen_splitVersBound && blockmode)%bool.

(* Conn.Write(b): [splits (len b)] says whether this call writes b[:1] as a record of its own first *)
Definition conn_write (splits : nat -> bool) (bound : nat -> nat) (pkt : nat) (b : list byte)
  : outcome (list (list byte) * nat) :=
  if splits (length b) then
    do '(f1, pkt1) <- writeRecordLocked (length b) bound pkt (firstn 1 b);
    do '(f2, pkt2) <- writeRecordLocked (length b) bound pkt1 (skipn 1 b);
    Ok (f1 ++ f2, pkt2)
  else writeRecordLocked (length b) bound pkt b.

(* a sequence of Write calls: the fragments put on the wire, in order *)
Fixpoint write_all (splits : nat -> bool) (bound : nat -> nat) (pkt : nat) (writes : list (list byte))
  : outcome (list (list byte)) :=
  match writes with
  | [] => Ok []
  | b :: t =>
    do '(f, pkt') <- conn_write splits bound pkt b;
    do rest <- write_all splits bound pkt' t;
    Ok (f ++ rest)
  end.

Section Records.
  Variable seal : N -> list byte -> list byte.
  Variable open : N -> list byte -> option (list byte).

  (* halfConn.encrypt with its sequence number, incremented per record *)
  Fixpoint seal_all (seq : N) (frs : list (list byte)) : list (list byte) :=
    match frs with
    | [] => []
    | f :: t => seal seq f :: seal_all (seq + 1)%N t
    end.

  (* the reader: c.input (rest of the current record), the records still on the wire, the read sequence number *)
  Record rstate := mkRd { rd_input : list byte; rd_wire : list (list byte); rd_seq : N }.

  (* "for c.input == nil { readRecord }" inside the empty-record loop (at most 101 rounds).
     Err 1 = io.ErrNoProgress, Err 2 = nothing more on the wire (the real Read would block),
     Err 3 = the record does not open (bad record MAC alert) *)
  Fixpoint fill (fuel : nat) (st : rstate) : outcome rstate :=
    match rd_input st with
    | _ :: _ => Ok st
    | [] =>
      match fuel with
      | O => Err 1
      | S fuel' =>
        match rd_wire st with
        | [] => Err 2
        | r :: w =>
          match open (rd_seq st) r with
          | None => Err 3
          | Some p => fill fuel' (mkRd p w (rd_seq st + 1)%N)
          end
        end
      end
    end.

  (* Conn.Read(b) with len(b) = L >= 1 *)
  Definition conn_read (st : rstate) (L : nat) : outcome (list byte * rstate) :=
    do st1 <- fill 101 st;
    Ok (firstn L (rd_input st1), mkRd (skipn L (rd_input st1)) (rd_wire st1) (rd_seq st1)).

  (* a reader that calls Read with the given buffer sizes and stops when it would block *)
  Fixpoint read_all (st : rstate) (bufs : list nat) : outcome (list byte) :=
    match bufs with
    | [] => Ok []
    | L :: t =>
      match conn_read st L with
      | Ok (out, st') => do rest <- read_all st' t; Ok (out ++ rest)
      | Err 2 => Ok []
      | Err e => Err e
      | Panic => Panic
      | Hang => Hang
      end
    end.
End Records.
