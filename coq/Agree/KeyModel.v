(* Byte-level model of gmtls/prf.go pHash, prf12, masterFromPreMasterSecret, keysFromMasterSecret and of
   the establishKeys functions of the four handshake state types.  No proofs in this file.
   The hash-based MAC is a parameter ([hmac key msg]); for GMSSL it is HMAC-SM3 (prf12(sm3.New)). *)
From Coq Require Import List NArith Arith Bool.
From GmsmVerif Require Import Lib.Outcome Gen.TLSSuites.
Import ListNotations.
Close Scope N_scope.

Notation byte := N (only parsing).

Section PRF.
  Variable hmac : list byte -> list byte -> list byte.

  (* func pHash(result, secret, seed []byte, hash func() hash.Hash):
       a := HMAC(secret, seed)
       for j < len(result) { b := HMAC(secret, a ++ seed); copy(result[j:j+todo], b); j += todo; a = HMAC(secret, a) }
     the loop is unbounded in the source: fuel, Hang when it runs out *)
  Fixpoint pHash_loop (fuel : nat) (secret seed a : list byte) (n j : nat) (result : list byte) : outcome (list byte) :=
    if Nat.ltb j n then
      match fuel with
      | O => Hang
      | S fuel' =>
        let b := hmac secret (a ++ seed) in
        let todo := if Nat.ltb n (j + length b) then n - j else length b in
        pHash_loop fuel' secret seed (hmac secret a) n (j + todo) (result ++ firstn todo b)
      end
    else Ok result.

  Definition pHash (fuel n : nat) (secret seed : list byte) : outcome (list byte) :=
    pHash_loop fuel secret seed (hmac secret seed) n 0 [].

  (* func prf12(hashFunc)(result, secret, label, seed) *)
  Definition prf12 (fuel n : nat) (secret label seed : list byte) : outcome (list byte) :=
    pHash fuel n secret (label ++ seed).

  (* func masterFromPreMasterSecret(version, suite, preMasterSecret, clientRandom, serverRandom) for the
     versions whose PRF is prf12 (GMSSL, TLS 1.2) *)
  Definition masterFromPreMasterSecret_bytes (fuel : nat) (pms cr sr : list byte) : outcome (list byte) :=
    prf12 fuel (N.to_nat gen_masterSecretLength) pms gen_masterSecretLabel_bytes (cr ++ sr).

  (* finishedHash.clientSum / serverSum for the versions whose PRF is prf12: verify_data =
     PRF(master_secret, finished_label, Hash(handshake_messages))[0..finishedVerifyLength-1] *)
  Definition finishedSum_bytes (fuel : nat) (client : bool) (ms transcript_hash : list byte) : outcome (list byte) :=
    prf12 fuel (N.to_nat gen_finishedVerifyLength) ms
          (if client then gen_clientFinishedLabel_bytes else gen_serverFinishedLabel_bytes) transcript_hash.

  (* the six slices of keysFromMasterSecret *)
  Definition key_slices (km : list byte) (macLen keyLen ivLen : nat)
    : list byte * list byte * list byte * list byte * list byte * list byte :=
    let clientMAC := firstn macLen km in let km := skipn macLen km in
    let serverMAC := firstn macLen km in let km := skipn macLen km in
    let clientKey := firstn keyLen km in let km := skipn keyLen km in
    let serverKey := firstn keyLen km in let km := skipn keyLen km in
    let clientIV := firstn ivLen km in let km := skipn ivLen km in
    let serverIV := firstn ivLen km in
    (clientMAC, serverMAC, clientKey, serverKey, clientIV, serverIV).

  (* func keysFromMasterSecret(version, suite, masterSecret, clientRandom, serverRandom, macLen, keyLen, ivLen) *)
  Definition keysFromMasterSecret_model (fuel : nat) (ms cr sr : list byte) (macLen keyLen ivLen : nat) :=
    let n := 2 * macLen + 2 * keyLen + 2 * ivLen in
    do km <- prf12 fuel n ms gen_keyExpansionLabel_bytes (sr ++ cr);
    Ok (key_slices km macLen keyLen ivLen).

  (* func ekmFromMasterSecret(version, suite, masterSecret, clientRandom, serverRandom)(label, context, length)
     for the versions whose PRF is prf12 (the closure behind ConnectionState.ExportKeyingMaterial).
     The Go context is a slice: nil (None here) or a possibly EMPTY byte string (Some c):
       reserved labels are refused;
       seed := clientRandom ++ serverRandom
       if context != nil { if len(context) >= 1<<16 { error }; seed ++= [len>>8, len] ++ context }
       prf(keyMaterial[:length], masterSecret, label, seed)
     Err 1: reserved label, Err 2: context too long *)
  Fixpoint bytes_eqb (a b : list byte) : bool :=
    match a, b with
    | [], [] => true
    | x :: a', y :: b' => N.eqb x y && bytes_eqb a' b'
    | _, _ => false
    end.

  Definition reserved_label (label : list byte) : bool :=
    existsb (bytes_eqb label)
            [gen_clientFinishedLabel_bytes; gen_serverFinishedLabel_bytes; gen_masterSecretLabel_bytes; gen_keyExpansionLabel_bytes].

  Definition ekm_seed (cr sr : list byte) (context : option (list byte)) : list byte :=
    cr ++ sr ++ match context with
                | None => []
                | Some c => [(N.of_nat (length c) / 256) mod 256; N.of_nat (length c) mod 256]%N ++ c
                end.

  Definition context_too_long (context : option (list byte)) : bool :=
    match context with None => false | Some c => (65536 <=? N.of_nat (length c))%N end.

  Definition ekmFromMasterSecret_bytes (fuel : nat) (ms cr sr label : list byte) (context : option (list byte)) (n : nat)
    : outcome (list byte) :=
    if reserved_label label then Err 1
    else if context_too_long context then Err 2
    else prf12 fuel n ms label (ekm_seed cr sr context).
End PRF.

(* establishKeys: which slices protect which direction.  A half connection is (cipher key, MAC key, IV). *)
Definition half := (list byte * list byte * list byte)%type.
Record conn_keys := mkCK { ck_in : half; ck_out : half }.

Definition establishKeys_client (s : list byte * list byte * list byte * list byte * list byte * list byte) : conn_keys :=
  let '(clientMAC, serverMAC, clientKey, serverKey, clientIV, serverIV) := s in
  (* c.in.prepareCipherSpec(serverCipher, serverHash); c.out.prepareCipherSpec(clientCipher, clientHash) *)
  mkCK (serverKey, serverMAC, serverIV) (clientKey, clientMAC, clientIV).

Definition establishKeys_server (s : list byte * list byte * list byte * list byte * list byte * list byte) : conn_keys :=
  let '(clientMAC, serverMAC, clientKey, serverKey, clientIV, serverIV) := s in
  (* c.in.prepareCipherSpec(clientCipher, clientHash); c.out.prepareCipherSpec(serverCipher, serverHash) *)
  mkCK (clientKey, clientMAC, clientIV) (serverKey, serverMAC, serverIV).

(* ---------- specification: P_hash of RFC 5246 section 5 / GM/T 0024 --------------------------------- *)
Section PHashSpec.
  Variable hmac : list byte -> list byte -> list byte.
  (* A(0) = seed, A(i) = HMAC(secret, A(i-1)) *)
  Fixpoint A (secret seed : list byte) (i : nat) : list byte :=
    match i with O => seed | S i' => hmac secret (A secret seed i') end.
  (* HMAC(secret, A(1) + seed) + HMAC(secret, A(2) + seed) + ... (k terms, starting at A(i)) *)
  Fixpoint p_hash_stream (secret seed : list byte) (i k : nat) : list byte :=
    match k with
    | O => []
    | S k' => hmac secret (A secret seed i ++ seed) ++ p_hash_stream secret seed (S i) k'
    end.
  (* P_hash truncated to n bytes: n terms are always enough when a term is at least one byte long *)
  Definition P_hash (n : nat) (secret seed : list byte) : list byte :=
    firstn n (p_hash_stream secret seed 1 n).
  (* PRF(secret, label, seed) = P_hash(secret, label + seed) *)
  Definition PRF_spec (n : nat) (secret label seed : list byte) : list byte := P_hash n secret (label ++ seed).

  (* RFC 5705 section 4 (GM/T 0024 with P_SM3): without a context
       PRF(master_secret, label, client_random + server_random)[length]
     with a context (of any length below 2^16, zero included)
       PRF(master_secret, label, client_random + server_random + context_value_length + context_value)[length]
     where context_value_length is two bytes, big endian *)
  Definition EKM_spec (n : nat) (ms cr sr label : list byte) (context : option (list byte)) : list byte :=
    match context with
    | None => PRF_spec n ms label (cr ++ sr)
    | Some c => PRF_spec n ms label (cr ++ sr ++ [N.of_nat (length c) / 256; N.of_nat (length c) mod 256]%N ++ c)
    end.
End PHashSpec.
