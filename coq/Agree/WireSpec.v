(* The independent GM/T 0024 decoder used by the C06 check: key derivation (SM3 -> HMAC -> P_hash -> key
   block) and opening of protected records (SM4-CBC + HMAC-SM3, SM4-GCM) by the record-layer model of C07
   (Rec/RecordModel.v, proved against Rec/RecordSpec.v) instantiated with the specifications SM3/HMACSpec.v,
   SM4/SM4Spec.v, Rec/GcmRef.v, and the P_hash / key-block layout of Agree/KeyModel.v.  No proofs in this file. *)
From Coq Require Import List NArith Arith Bool.
From GmsmVerif Require Import Lib.Outcome Gen.TLSSuites SM3.SM3Spec SM3.HMACSpec SM4.SM4Spec Rec.GcmRef Rec.RecordModel Agree.KeyModel.
Import ListNotations.
Close Scope N_scope.

Notation byte := N (only parsing).

(* GM/T 0024 6.5: PRF = P_SM3.  Evaluated through the iterative form (KeyModel.prf12 with fuel n), which
   Agree/PrfSM3.v proves equal to the specification PRF_spec hmac_sm3 (gm_prf_is_spec); the literal
   specification recomputes A(i) from A(0) for each of n terms and is far too slow to run. *)
Definition gm_prf (n : nat) (secret label seed : list byte) : list byte :=
  match prf12 hmac_sm3 n n secret label seed with Ok x => x | _ => [] end.

(* exported keying material of a GMSSL connection: the model of ekmFromMasterSecret (Agree/KeyModel.v) over
   HMAC-SM3; Agree/PrfSM3.v proves it equal to EKM_spec hmac_sm3 (RFC 5705 section 4 with P_SM3).  The context
   is absent (None) or a possibly empty byte string *)
Definition gm_ekm (n : nat) (ms cr sr label : list byte) (context : option (list byte)) : option (list byte) :=
  match ekmFromMasterSecret_bytes hmac_sm3 n ms cr sr label context n with Ok x => Some x | _ => None end.

(* key_block = PRF(master_secret, "key expansion", server_random + client_random), cut as
   client_write_MAC | server_write_MAC | client_write_key | server_write_key | client_write_IV | server_write_IV *)
Definition gm_key_block (ms cr sr : list byte) (macLen keyLen ivLen : nat) :=
  key_slices (gm_prf (2 * macLen + 2 * keyLen + 2 * ivLen) ms gen_keyExpansionLabel_bytes (sr ++ cr)) macLen keyLen ivLen.

Fixpoint be_n (k : nat) (n : N) : list byte :=
  match k with O => [] | S k' => be_n k' (n / 256)%N ++ [(n mod 256)%N] end.

(* ---------- records: the record-layer model of Rec/RecordModel.v (halfConn.decrypt, C07) with the real
   primitives: SM4 (SM4/SM4Spec.v, round keys computed once), HMAC-SM3 (SM3/HMACSpec.v), GCM (Rec/GcmRef.v) *)
Definition wire_prims : prims :=
  mkPrims 16 sm4_encrypt_rk sm4_decrypt_rk 32 hmac_sm3 16
          (fun rk nonce ad pt => gcm_seal (sm4_encrypt_rk rk) nonce ad pt)
          (fun rk nonce ad ct => gcm_open (sm4_encrypt_rk rk) nonce ad ct).

(* the reading half connection after the peer's ChangeCipherSpec and Finished: sequence number 1 *)
Definition reading_half (aead : bool) (key mackey iv : list byte) (seq : N) : halfConn :=
  let rk := sm4_round_keys key in
  mkHC false gen_VersionGMSSL
       (if aead then CipherAEAD rk iv else CipherCBC rk iv)
       (if aead then None else Some mackey)
       (be_n 8 seq).

(* open the records of one direction in order; None = some record is refused (or the model panics) *)
Fixpoint open_records (hc : halfConn) (recs : list (list byte)) : option (list byte) :=
  match recs with
  | [] => Some []
  | r :: t =>
    match RecordModel.decrypt wire_prims hc r with
    | Ok (hc', Some frag) =>
      match open_records hc' t with Some q => Some (frag ++ q) | None => None end
    | _ => None
    end
  end.

(* lengths of a GM suite, from the generated table: (macLen, keyLen, ivLen, AEAD?) *)
Definition lookup_row (suite : N) : option (nat * nat * nat * bool) :=
  match find (fun r => N.eqb (nth 0 r 0%N) suite) gen_gmCipherSuites with
  | Some r => Some (N.to_nat (nth 2 r 0%N), N.to_nat (nth 1 r 0%N), N.to_nat (nth 3 r 0%N), N.eqb (nth 5 r 0%N) 1)
  | None => None
  end.

(* suite 0xe013: SM4-CBC + HMAC-SM3 (mac 32, key 16, iv 16); suite 0xe053: SM4-GCM (mac 0, key 16, iv 4).
   Result: the plaintext of the client-to-server and of the server-to-client application data. *)
Definition decode_connection (suite : N) (ms cr sr : list byte) (c2s s2c : list (list byte))
  : option (list byte * list byte) :=
  match lookup_row suite with
  | None => None
  | Some (macLen, keyLen, ivLen, aead) =>
    let '(cm, sm, ck, sk, ci, si) := gm_key_block ms cr sr macLen keyLen ivLen in
    match open_records (reading_half aead ck cm ci 1) c2s, open_records (reading_half aead sk sm si 1) s2c with
    | Some a, Some b => Some (a, b)
    | _, _ => None
    end
  end.
