(* The independent GM/T 0024 decoder used by the C06 check: key derivation (SM3 -> HMAC -> P_hash -> key
   block) and opening of protected records (SM4-CBC + HMAC-SM3, SM4-GCM), assembled from the specifications
   SM3/HMACSpec.v, SM4/SM4Spec.v, Rec/GcmRef.v and the P_hash / key-block layout of Agree/KeyModel.v.
   It never looks at the Go code.  No proofs in this file. *)
From Coq Require Import List NArith Arith Bool.
From GmsmVerif Require Import Gen.TLSSuites SM3.SM3Spec SM3.HMACSpec SM4.SM4Spec Rec.GcmRef Agree.KeyModel.
Import ListNotations.
Close Scope N_scope.

Notation byte := N (only parsing).

(* GM/T 0024 6.5: PRF = P_SM3 *)
Definition gm_prf (n : nat) (secret label seed : list byte) : list byte :=
  PRF_spec hmac_sm3 n secret label seed.

(* key_block = PRF(master_secret, "key expansion", server_random + client_random), cut as
   client_write_MAC | server_write_MAC | client_write_key | server_write_key | client_write_IV | server_write_IV *)
Definition gm_key_block (ms cr sr : list byte) (macLen keyLen ivLen : nat) :=
  key_slices (gm_prf (2 * macLen + 2 * keyLen + 2 * ivLen) ms gen_keyExpansionLabel_bytes (sr ++ cr)) macLen keyLen ivLen.

Fixpoint be_n (k : nat) (n : N) : list byte :=
  match k with O => [] | S k' => be_n k' (n / 256)%N ++ [(n mod 256)%N] end.

Fixpoint xorb_bytes (a b : list byte) : list byte :=
  match a, b with x :: a', y :: b' => N.lxor x y :: xorb_bytes a' b' | _, _ => [] end.

(* CBC decryption, P_i = D(C_i) xor C_(i-1) *)
Fixpoint cbc_decrypt (fuel : nat) (rks : list N) (prev ct : list byte) : list byte :=
  match fuel with
  | O => []
  | S fuel' =>
    match ct with
    | [] => []
    | _ => let c := firstn 16 ct in
           xorb_bytes (sm4_decrypt_rk rks c) prev ++ cbc_decrypt fuel' rks c (skipn 16 ct)
    end
  end.

Definition beq (a b : list byte) : bool :=
  Nat.eqb (length a) (length b) && forallb (fun p => N.eqb (fst p) (snd p)) (combine a b).

(* a record: type(1) version(2) length(2) payload.
   Block-cipher record (GM/T 0024 6.3.3.4.2, as TLS 1.1): payload = IV(16) | CBC(fragment | MAC(32) | padding | padding_length);
   MAC = HMAC_SM3(mac_key, seq_num(8) | type | version | length(2) | fragment) *)
Definition open_cbc (key mackey : list byte) (seq : N) (rec : list byte) : option (list byte) :=
  let typ := firstn 1 rec in
  let ver := firstn 2 (skipn 1 rec) in
  let payload := skipn 5 rec in
  if Nat.ltb (length payload) 64 || negb (Nat.eqb (length payload mod 16) 0) then None
  else
    let iv := firstn 16 payload in
    let ct := skipn 16 payload in
    let pt := cbc_decrypt (length ct) (sm4_round_keys key) iv ct in
    let padlen := N.to_nat (last pt 0%N) in
    if Nat.ltb (length pt) (padlen + 1 + 32) then None
    else
      let pad := skipn (length pt - padlen - 1) pt in
      if negb (forallb (fun b => N.eqb b (N.of_nat padlen)) pad) then None
      else
        let body := firstn (length pt - padlen - 1) pt in
        let frag := firstn (length body - 32) body in
        let mac := skipn (length body - 32) body in
        if beq mac (hmac_sm3 mackey (be_n 8 seq ++ typ ++ ver ++ be_n 2 (N.of_nat (length frag)) ++ frag))
        then Some frag else None.

(* AEAD record: payload = explicit nonce(8) | GCM ciphertext | tag(16); nonce = write_IV(4) | explicit;
   additional data = seq_num(8) | type | version | length(2) of the plaintext *)
Definition open_gcm (key salt : list byte) (seq : N) (rec : list byte) : option (list byte) :=
  let typ := firstn 1 rec in
  let ver := firstn 2 (skipn 1 rec) in
  let payload := skipn 5 rec in
  if Nat.ltb (length payload) 24 then None
  else
    let explicit := firstn 8 payload in
    let ct := skipn 8 payload in
    let rks := sm4_round_keys key in
    gcm_open (sm4_encrypt_rk rks) (salt ++ explicit)
             (be_n 8 seq ++ typ ++ ver ++ be_n 2 (N.of_nat (length ct - 16))) ct.

(* lengths of a GM suite, from the generated table: (macLen, keyLen, ivLen, AEAD?) *)
Definition lookup_row (suite : N) : option (nat * nat * nat * bool) :=
  match find (fun r => N.eqb (nth 0 r 0%N) suite) gen_gmCipherSuites with
  | Some r => Some (N.to_nat (nth 2 r 0%N), N.to_nat (nth 1 r 0%N), N.to_nat (nth 3 r 0%N), N.eqb (nth 5 r 0%N) 1)
  | None => None
  end.

(* open the application-data records of one direction, sequence numbers from [seq] on *)
Fixpoint open_all (opener : N -> list byte -> option (list byte)) (seq : N) (recs : list (list byte)) : option (list byte) :=
  match recs with
  | [] => Some []
  | r :: t => match opener seq r with
              | None => None
              | Some p => match open_all opener (seq + 1)%N t with Some q => Some (p ++ q) | None => None end
              end
  end.

(* suite 0xe013: SM4-CBC + HMAC-SM3 (mac 32, key 16, iv 16); suite 0xe053: SM4-GCM (mac 0, key 16, iv 4).
   Result: the plaintext of the client-to-server and of the server-to-client application data. *)
Definition decode_connection (suite : N) (ms cr sr : list byte) (c2s s2c : list (list byte))
  : option (list byte * list byte) :=
  match lookup_row suite with
  | None => None
  | Some (macLen, keyLen, ivLen, aead) =>
    let '(cm, sm, ck, sk, ci, si) := gm_key_block ms cr sr macLen keyLen ivLen in
    let oc := if aead then open_gcm ck ci else open_cbc ck cm in
    let os := if aead then open_gcm sk si else open_cbc sk sm in
    match open_all oc 1%N c2s, open_all os 1%N s2c with
    | Some a, Some b => Some (a, b)
    | _, _ => None
    end
  end.
