(* Proofs about the application-data path model (Agree/DataModel.v): what is written is cut into
   non-empty fragments of bounded size whose concatenation is the data, and the reader delivers exactly
   that byte stream, in order, whatever the write sizes, record-size schedule and read buffer sizes. *)
From Coq Require Import List NArith Arith Bool Lia.
From GmsmVerif Require Import Lib.Outcome Agree.DataModel.
Import ListNotations.

Definition frags_ok (maxb : nat) (frs : list (list N)) : Prop :=
  Forall (fun f => 1 <= length f <= maxb) frs.

Lemma writeRecordLocked_spec : forall fuel bound maxb pkt data,
  (forall i, 1 <= bound i <= maxb) -> length data <= fuel ->
  exists frs pkt', writeRecordLocked fuel bound pkt data = Ok (frs, pkt')
                   /\ concat frs = data /\ frags_ok maxb frs.
Proof.
  induction fuel as [|fuel IH]; intros bound maxb pkt data Hb Hf.
  - destruct data; [|cbn in Hf; lia]. exists [], pkt. repeat split; constructor.
  - destruct data as [|x data]; [exists [], pkt; repeat split; constructor|].
    cbn [writeRecordLocked]. set (d := x :: data) in *.
    pose proof (Hb pkt) as Hp.
    set (m := Nat.min (length d) (bound pkt)).
    assert (Hm : 1 <= m <= length d) by (unfold m, d; cbn [length]; lia).
    destruct (Nat.eqb_spec m 0); [lia|].
    destruct (IH bound maxb (S pkt) (skipn m d) Hb) as (frs & pkt' & E & Hc & Hok).
    { rewrite skipn_length. lia. }
    rewrite E. cbn [obind]. exists (firstn m d :: frs), pkt'. split; [reflexivity|]. split.
    + cbn [concat]. rewrite Hc. apply firstn_skipn.
    + constructor; [|exact Hok]. rewrite firstn_length. unfold m. lia.
Qed.

Lemma frags_ok_app : forall maxb a b, frags_ok maxb a -> frags_ok maxb b -> frags_ok maxb (a ++ b).
Proof. intros. apply Forall_app. split; assumption. Qed.

Lemma conn_write_spec : forall split bound maxb pkt b,
  (forall i, 1 <= bound i <= maxb) ->
  exists frs pkt', conn_write split bound pkt b = Ok (frs, pkt') /\ concat frs = b /\ frags_ok maxb frs.
Proof.
  intros split bound maxb pkt b Hb. unfold conn_write.
  destruct (split (length b)) eqn:Es.
  - destruct (writeRecordLocked_spec (length b) bound maxb pkt (firstn 1 b) Hb) as (f1 & p1 & E1 & C1 & O1).
    { rewrite firstn_length. lia. }
    destruct (writeRecordLocked_spec (length b) bound maxb p1 (skipn 1 b) Hb) as (f2 & p2 & E2 & C2 & O2).
    { rewrite skipn_length. lia. }
    rewrite E1. cbn [obind]. rewrite E2. cbn [obind]. exists (f1 ++ f2), p2. split; [reflexivity|]. split.
    + rewrite concat_app, C1, C2. apply firstn_skipn.
    + apply frags_ok_app; assumption.
  - apply writeRecordLocked_spec; [exact Hb|lia].
Qed.

Lemma write_all_spec : forall split bound maxb writes pkt,
  (forall i, 1 <= bound i <= maxb) ->
  exists frs, write_all split bound pkt writes = Ok frs /\ concat frs = concat writes /\ frags_ok maxb frs.
Proof.
  intros split bound maxb writes. induction writes as [|b t IH]; intros pkt Hb.
  - exists []. repeat split; constructor.
  - cbn [write_all]. destruct (conn_write_spec split bound maxb pkt b Hb) as (f & p' & E & C & O).
    rewrite E. cbn [obind]. destruct (IH p' Hb) as (rest & E' & C' & O'). rewrite E'. cbn [obind].
    exists (f ++ rest). split; [reflexivity|]. split.
    + rewrite concat_app, C, C'. reflexivity.
    + apply frags_ok_app; assumption.
Qed.

Section ReadProofs.
  Variable seal : N -> list N -> list N.
  Variable open : N -> list N -> option (list N).
  (* record protection round trip under the matching sequence number (C07 proves it for the real layer) *)
  Hypothesis open_seal : forall s p, open s (seal s p) = Some p.

  Definition rinv (st : rstate) (frs : list (list N)) : Prop :=
    rd_wire st = seal_all seal (rd_seq st) frs /\ Forall (fun f => 1 <= length f) frs.
  Definition stream (st : rstate) (frs : list (list N)) : list N := rd_input st ++ concat frs.

  Lemma fill_spec : forall st frs, rinv st frs -> stream st frs <> [] ->
    exists st' frs', fill open 101 st = Ok st' /\ rinv st' frs' /\ stream st' frs' = stream st frs /\ rd_input st' <> [].
  Proof.
    intros [inp wire seq] frs (Hw & Hne) Hs. cbn in Hw. unfold stream in *. cbn [rd_input] in *.
    destruct inp as [|x inp].
    - destruct frs as [|f frs]; [cbn in Hs; congruence|].
      cbn [seal_all] in Hw. subst wire. cbn [fill rd_input rd_wire rd_seq]. rewrite open_seal.
      inversion Hne as [|? ? Hf Hne']; subst.
      destruct f as [|y f]; [cbn in Hf; lia|]. cbn [fill rd_input].
      exists (mkRd (y :: f) (seal_all seal (seq + 1)%N frs) (seq + 1)%N), frs.
      split; [reflexivity|]. split; [split; [reflexivity|exact Hne']|]. split; [reflexivity|discriminate].
    - exists (mkRd (x :: inp) wire seq), frs. cbn. repeat split; auto. discriminate.
  Qed.

  Lemma conn_read_spec : forall st frs L, rinv st frs -> stream st frs <> [] -> 1 <= L ->
    exists out st' frs', conn_read open st L = Ok (out, st') /\ rinv st' frs'
                         /\ out ++ stream st' frs' = stream st frs /\ 1 <= length out.
  Proof.
    intros st frs L Hi Hs HL. destruct (fill_spec st frs Hi Hs) as (st1 & frs1 & E & Hi1 & Hs1 & Hne).
    unfold conn_read. rewrite E. cbn [obind].
    exists (firstn L (rd_input st1)), (mkRd (skipn L (rd_input st1)) (rd_wire st1) (rd_seq st1)), frs1.
    split; [reflexivity|]. split; [exact Hi1|]. split.
    - unfold stream in *. cbn [rd_input]. rewrite app_assoc, firstn_skipn. exact Hs1.
    - rewrite firstn_length. destruct (rd_input st1); [congruence|cbn [length]; lia].
  Qed.

  Lemma conn_read_block : forall st frs L, rinv st frs -> stream st frs = [] -> conn_read open st L = Err 2.
  Proof.
    intros [inp wire seq] frs L (Hw & Hne) Hs. unfold stream in Hs. cbn in *.
    apply app_eq_nil in Hs. destruct Hs as (-> & Hc).
    destruct frs as [|f frs].
    - cbn in Hw. subst. reflexivity.
    - inversion Hne; subst. destruct f; [cbn in *; lia|cbn in Hc; discriminate].
  Qed.

  Lemma read_all_spec : forall bufs st frs, rinv st frs -> Forall (fun L => 1 <= L) bufs ->
    exists out rest, read_all open st bufs = Ok out /\ stream st frs = out ++ rest
                     /\ (length bufs <= length out \/ rest = []).
  Proof.
    induction bufs as [|L bufs IH]; intros st frs Hi HF.
    - exists [], (stream st frs). split; [reflexivity|]. split; [reflexivity|]. left. cbn. lia.
    - inversion HF as [|? ? HL HF']; subst. cbn [read_all].
      destruct (stream st frs) as [|x s] eqn:Es.
      + rewrite (conn_read_block st frs L Hi Es). exists [], []. repeat split; auto.
      + destruct (conn_read_spec st frs L Hi) as (out & st' & frs' & E & Hi' & Hs' & Ho); [congruence|exact HL|].
        rewrite E. destruct (IH st' frs' Hi' HF') as (out' & rest & E' & Hs'' & Hlen).
        rewrite E'. cbn [obind]. exists (out ++ out'), rest. split; [reflexivity|]. split.
        * rewrite <- Es, <- Hs', Hs'', app_assoc. reflexivity.
        * destruct Hlen as [Hlen|Hr]; [left; rewrite app_length; cbn [length]; lia|right; exact Hr].
  Qed.

  (* the wire produced by a sequence of Write calls, read back with any buffers *)
  Theorem app_data_in_order_lemma : forall maxb split bound writes bufs seq,
    (forall i, 1 <= bound i <= maxb) -> Forall (fun L => 1 <= L) bufs ->
    exists frs out rest,
      write_all split bound 0 writes = Ok frs
      /\ Forall (fun f => 1 <= length f <= maxb) frs
      /\ read_all open (mkRd [] (seal_all seal seq frs) seq) bufs = Ok out
      /\ concat writes = out ++ rest
      /\ (length (concat writes) <= length bufs -> out = concat writes).
  Proof.
    intros maxb split bound writes bufs seq Hb HF.
    destruct (write_all_spec split bound maxb writes 0 Hb) as (frs & E & C & O).
    assert (Hi : rinv (mkRd [] (seal_all seal seq frs) seq) frs).
    { split; [reflexivity|]. eapply Forall_impl; [|exact O]. cbn. intros f H. lia. }
    destruct (read_all_spec bufs _ frs Hi HF) as (out & rest & Er & Hs & Hlen).
    unfold stream in Hs. cbn [rd_input app] in Hs. rewrite C in Hs.
    exists frs, out, rest. repeat split; auto.
    intros Hl. destruct Hlen as [Hlen|Hr]; [|subst rest; rewrite app_nil_r in Hs; auto].
    assert (length (concat writes) = length out + length rest) by (rewrite Hs, app_length; reflexivity).
    assert (rest = []) by (destruct rest; [reflexivity|cbn [length] in *; lia]).
    subst. rewrite app_nil_r in Hs. auto.
  Qed.
End ReadProofs.
