(* What the property says about a configuration (policy_allows), the finite product of configurations the
   theorem sweeps, and the boolean checker the sweep evaluates.  policy_allows is written from the property
   text and the documented limits of the code base; it does not call the endpoint models. *)
From Coq Require Import List NArith Arith Bool.
From GmsmVerif Require Import Lib.Outcome Gen.TLSSuites Resume.ResumeModel Agree.AgreeModel.
Import ListNotations.
Open Scope N_scope.

(* ---------- policy_allows ------------------------------------------------------------------------ *)
Definition fam_gm (a : acfg) : bool := match a_ckind a with CG => true | CT _ => false end.
Definition cli_vers (a : acfg) : N := match a_ckind a with CG => gen_VersionGMSSL | CT v => v end.

(* the server mode serves the client's protocol family *)
Definition mode_serves (m : smode) (gm : bool) : bool :=
  match m, gm with
  | SGM, true | SAuto, _ | STLS, false => true
  | _, _ => false
  end.

(* the configuration supplies certificates for that family: GM clients are served from the static pair or
   from GetCertificate / GetKECertificate in both GM-capable modes.  Limit of an auto-switch configuration,
   part of the policy: its static list is the SM2 pair, so it holds an RSA certificate for TLS clients only
   behind GetCertificate *)
Definition certs_supplied (m : smode) (callbacks gm : bool) : bool :=
  match m, gm with
  | SGM, true => true
  | SAuto, true => true
  | SAuto, false => callbacks
  | STLS, false => true
  | _, _ => false
  end.

Definition in_table (tbl : list (list N)) (id : N) : bool :=
  existsb (fun r => N.eqb (nth 0 r 0) id) tbl.
Definition flags_of (tbl : list (list N)) (id : N) : N :=
  match find (fun r => N.eqb (nth 0 r 0) id) tbl with Some r => nth 4 r 0 | None => 0 end.
Definition flag (fl f : N) : bool := negb (N.eqb (N.land fl f) 0).

(* the default lists: the four GM suites; for TLS the preferred AEAD suites followed by every table entry
   that is not off by default *)
Definition tls_defaults : list N :=
  fold_left (fun acc id => if existsb (N.eqb id) acc then acc else acc ++ [id])
            (map (fun r => nth 0 r 0) (filter (fun r => negb (flag (nth 4 r 0) gen_suiteDefaultOff)) gen_cipherSuites))
            gen_topCipherSuites.

Definition configured (gm : bool) (l : option (list N)) : list N :=
  match l with Some x => x | None => if gm then gen_gmDefaultSuites else tls_defaults end.

(* a suite both ends can actually run: in the family's table; GM: the ECC key exchange (the server side of
   ECDHE-SM2 does not exist in this code base); TLS: key exchange fitting the RSA server certificate, and
   TLS 1.2-only suites only at TLS 1.2 *)
Definition suite_usable (gm : bool) (vers id : N) : bool :=
  if gm then in_table gen_gmCipherSuites id && negb (flag (flags_of gen_gmCipherSuites id) gen_suiteECDHE)
  else in_table gen_cipherSuites id
       && negb (flag (flags_of gen_cipherSuites id) gen_suiteECDSA)
       && (N.eqb vers gen_VersionTLS12 || negb (flag (flags_of gen_cipherSuites id) gen_suiteTLS12)).

Definition common_suite (a : acfg) : bool :=
  let gm := fam_gm a in
  existsb (fun id => existsb (N.eqb id) (configured gm (a_ssuites a)) && suite_usable gm (cli_vers a) id)
          (configured gm (a_csuites a)).

(* suite preference: the negotiated suite is the first entry of the preferring side's list (the server's with
   PreferServerCipherSuites, else the client's) that the other side lists and that is usable *)
Definition pref_list (a : acfg) : list N :=
  configured (fam_gm a) (if a_prefer a then a_ssuites a else a_csuites a).
Definition other_list (a : acfg) : list N :=
  configured (fam_gm a) (if a_prefer a then a_csuites a else a_ssuites a).
Definition acceptable (a : acfg) (id : N) : bool :=
  existsb (N.eqb id) (other_list a) && suite_usable (fam_gm a) (cli_vers a) id.
Definition expected_suite (a : acfg) : option N := find (acceptable a) (pref_list a).

(* ClientAuth: require-any and require-and-verify need a certificate; verify-if-given and
   require-and-verify reject a presented certificate that does not chain to a CA of ClientCAs: the one with
   the forged issuer, and any certificate when the pool is empty *)
Definition client_cert_ok (auth ccert : N) (pool : bool) : bool :=
  negb ((N.eqb auth gen_RequireAnyClientCert || N.eqb auth gen_RequireAndVerifyClientCert) && N.eqb ccert 0)
  && negb (N.leb gen_VerifyClientCertIfGiven auth && negb (N.eqb ccert 0) && (N.eqb ccert 2 || negb pool)).

Definition policy_allows (a : acfg) : bool :=
  mode_serves (a_mode a) (fam_gm a)
  && certs_supplied (a_mode a) (a_callbacks a) (fam_gm a)
  && common_suite a
  && client_cert_ok (a_auth a) (a_ccert a) (a_pool a).

(* what each end must report about the other *)
Definition expected_server_certs (a : acfg) : list N := if fam_gm a then [id_sig; id_enc] else [id_rsa].
Definition expected_client_certs (a : acfg) : list N :=
  if N.eqb (a_auth a) gen_NoClientCert || N.eqb (a_ccert a) 0 then []
  else [if fam_gm a then a_ccert a else a_ccert a + 2].

(* ---------- the product ---------------------------------------------------------------------------- *)
Definition all_modes : list smode := [SGM; SAuto; STLS].
Definition all_ckinds : list ckind := [CG; CT gen_VersionTLS10; CT gen_VersionTLS11; CT gen_VersionTLS12].
(* suite lists drawn from the generated tables: nil (defaults), single suites, both orders, ECDHE-SM2 only,
   ECDHE-SM2 before ECC, TLS RSA / ECDHE-RSA / ECDSA-only / TLS 1.2-only / mixed *)
Definition client_suite_lists : list (option (list N)) :=
  [None; Some [0xe013]; Some [0xe053]; Some [0xe053; 0xe013]; Some [0xe011; 0xe051]; Some [0xe011; 0xe013];
   Some [0x002f]; Some [0xc02f; 0x009c]; Some [0xc02b]; Some [0x009c]; Some [0xc013; 0x002f]].
Definition server_suite_lists : list (option (list N)) :=
  [None; Some [0xe013]; Some [0xe013; 0xe053]; Some [0x002f; 0xc02f]; Some [0x009c]; Some [0xe011]; Some [0x009c; 0xc02f]].
Definition all_auth : list N := [0; 1; 2; 3; 4].
Definition all_ccert : list N := [0; 1; 2].
Definition bools : list bool := [false; true].

(* membership in the product *)
Definition in_product (a : acfg) : Prop :=
  In (a_mode a) all_modes /\ In (a_ckind a) all_ckinds /\ In (a_csuites a) client_suite_lists
  /\ In (a_ssuites a) server_suite_lists /\ In (a_auth a) all_auth /\ In (a_ccert a) all_ccert.

(* the sweep over the product: nested, so that no 10^5-element list is ever built *)
Definition sweep (f : acfg -> bool) : bool :=
  forallb (fun m => forallb (fun k => forallb (fun cs => forallb (fun ss => forallb (fun p =>
  forallb (fun au => forallb (fun cc => forallb (fun cb => forallb (fun tk => forallb (fun pl =>
    f (mkA m k cs ss p au cc cb tk pl)) bools) bools) bools) all_ccert) all_auth) bools) server_suite_lists)
    client_suite_lists) all_ckinds) all_modes.

Definition count (f : acfg -> bool) : N :=
  fold_left (fun n m => fold_left (fun n k => fold_left (fun n cs => fold_left (fun n ss => fold_left (fun n p =>
  fold_left (fun n au => fold_left (fun n cc => fold_left (fun n cb => fold_left (fun n tk => fold_left (fun n pl =>
    if f (mkA m k cs ss p au cc cb tk pl) then N.succ n else n) bools n) bools n) bools n) all_ccert n) all_auth n) bools n)
    server_suite_lists n) client_suite_lists n) all_ckinds n) all_modes 0.

(* ---------- the checker ----------------------------------------------------------------------------- *)
Definition listN_eqb (a b : list N) : bool := if list_eq_dec N.eq_dec a b then true else false.
Definition term_eqb (a b : term) : bool := if term_eq_dec a b then true else false.

(* ---------- further connections from the same client session cache ------------------------------------ *)
(* The connection model of Resume/ResumeModel.v (used for C16) run three times with the same two
   configurations and one client cache.  A certificate that cannot verify (forged issuer, or any certificate
   against an empty pool) is the model's certificate 2. *)
Definition rc_ccfg (a : acfg) : ccfg :=
  mkC (a_ckind a) (a_csuites a)
      (if a_pool a then a_ccert a else if N.eqb (a_ccert a) 0 then 0 else 2) 0 (a_tickets a).

Definition reconnect_log (a : acfg) : list (crec term_tag) :=
  h_log (hrun_term 2 [a_scfg a] [Connect 0 (rc_ccfg a); Connect 0 (rc_ccfg a); Connect 0 (rc_ccfg a)]).

Definition is_full (r : crec term_tag) : bool := match r_cls r with Full => true | _ => false end.
Definition is_resumed (r : crec term_tag) : bool := match r_cls r with Resumed => true | _ => false end.

(* the first connection is the full handshake of the honest run; the second and the third complete with the
   same version and suite: as resumptions of the first (its master secret, its peer identities) when tickets
   are on, as full handshakes when they are off *)
Definition reconnect_ok (a : acfg) (first : result) : bool :=
  match reconnect_log a with
  | [r1; r2; r3] =>
    is_full r1 && N.eqb (r_vers r1) (res_vers first) && N.eqb (r_suite r1) (res_suite first)
    && forallb (fun r => N.eqb (r_vers r) (r_vers r1) && N.eqb (r_suite r) (r_suite r1)
                         && N.eqb (r_ccert r) (r_ccert r1) && N.eqb (r_scert r) (r_scert r1)
                         && (if a_tickets a then is_resumed r && N.eqb (r_ms r) (r_ms r1) else is_full r))
               [r2; r3]
  | _ => false
  end.

Definition agree_check (a : acfg) : bool :=
  match honest_run a with
  | (Done rc, Done rs) =>
    policy_allows a
    && N.eqb (res_vers rc) (res_vers rs) && N.eqb (res_suite rc) (res_suite rs)
    && term_eqb (res_ms rc) (res_ms rs) && term_eqb (res_ekm rc) (res_ekm rs) && term_eqb (res_keys rc) (res_keys rs)
    && listN_eqb (res_peer rc) (expected_server_certs a) && listN_eqb (res_peer rs) (expected_client_certs a)
    && reconnect_ok a rc
    && match expected_suite a with Some s => N.eqb s (res_suite rc) | None => false end
  | (Errored, Errored) => negb (policy_allows a)
  | _ => false
  end.
