(* The record-level machine of HSModel.v (several handshake messages per record, ChangeCipherSpec as its own record,
   the guard "handshake data must not span a ChangeCipherSpec") against the message-level machine: whenever the
   record-level run completes, panics or hangs, the message-level run on the flattened sequence does the same.  So
   the theorems proved for all message sequences carry over to all record sequences, and unconsumed handshake data at
   a ChangeCipherSpec can only end in an error. *)
From Coq Require Import List NArith Arith Bool Lia.
From GmsmVerif Require Import Lib.Outcome HS.HSTerms HS.HSModel HS.HSProofs.
Import ListNotations.
Local Open Scope N_scope.

Definition is_other (r : record) : bool :=
  match r with RHs _ | RCCS _ => false | _ => true end.

Definition final {St} (r : result St) : Prop :=
  match r with RComplete _ | RPanic | RHang => True | _ => False end.

Section Sim.
  Context {St : Type} (step : St -> input -> St * sres) (wants_ccs : St -> bool).
  (* alerts, application data, bad records, end of stream: an error, or dropped without changing what is awaited *)
  Hypothesis H_other : forall st r st' res, is_other r = true -> step st (other_input r) = (st', res) ->
    res = SError \/ (res = SContinue /\ wants_ccs st' = wants_ccs st).

  Lemma feed_items_sim : forall items st st' res lo tail,
    feed_items step wants_ccs st items = (st', res, lo) ->
    (lo = true -> res = SContinue /\ wants_ccs st' = true) /\
    (lo = false ->
       run step st (map hitem_input items ++ tail) =
       match res with
       | SContinue => run step st' tail
       | SComplete => RComplete st'
       | SError => RError
       | SPanic => RPanic
       | SHang => RHang
       end).
  Proof.
    induction items as [|h rest IH]; intros st st' res lo tail H; cbn [feed_items] in H.
    - injection H as <- <- <-. split; [discriminate|]. intros _. reflexivity.
    - destruct (wants_ccs st) eqn:Ew.
      + injection H as <- <- <-. split; [auto|discriminate].
      + destruct (step st (hitem_input h)) as [st1 r1] eqn:Es. destruct r1.
        * destruct (IH st1 st' res lo tail H) as [Ha Hb]. split; [exact Ha|].
          intros Hl. cbn [map app run]. rewrite Es.
          replace (is_eof (hitem_input h)) with false by (destruct h; reflexivity). apply Hb. exact Hl.
        * injection H as <- <- <-. split; [discriminate|]. intros _. cbn [map app run]. rewrite Es. reflexivity.
        * injection H as <- <- <-. split; [discriminate|]. intros _. cbn [map app run]. rewrite Es. reflexivity.
        * injection H as <- <- <-. split; [discriminate|]. intros _. cbn [map app run]. rewrite Es. reflexivity.
        * injection H as <- <- <-. split; [discriminate|]. intros _. cbn [map app run]. rewrite Es. reflexivity.
  Qed.

  Hypothesis H_eof : forall st, snd (step st IEOF) = SError.

  Lemma rstep_other : forall st lo r, is_other r = true ->
    exists st' res, rstep step wants_ccs st lo r = (st', res, lo) /\
                    (res = SError \/ (res = SContinue /\ wants_ccs st' = wants_ccs st)).
  Proof.
    intros st lo r Ho.
    assert (Hs : rstep step wants_ccs st lo r =
                 (let '(st', res) := step st (other_input r) in
                  (st', match res with SContinue => if is_eof (other_input r) then SHang else SContinue | _ => res end, lo)))
      by (destruct r; try discriminate; reflexivity).
    rewrite Hs. destruct (step st (other_input r)) as [st1 r1] eqn:Es.
    destruct (H_other st r st1 r1 Ho Es) as [->|[-> Hw]].
    - exists st1, SError. auto.
    - destruct (is_eof (other_input r)) eqn:Ee.
      + exfalso. destruct r; try discriminate. cbn [other_input] in Es. pose proof (H_eof st) as He. rewrite Es in He. discriminate.
      + exists st1, SContinue. auto.
  Qed.

  (* unconsumed handshake data while a ChangeCipherSpec is awaited: nothing that follows leads to completion *)
  Lemma rrun_stuck : forall recs st, wants_ccs st = true -> ~ final (rrun step wants_ccs st true recs).
  Proof.
    induction recs as [|r rest IH]; intros st Hw Hf; [exact Hf|].
    cbn [rrun] in Hf. destruct (is_other r) eqn:Eo.
    - destruct (rstep_other st true r Eo) as [st1 [r1 [Es [->|[-> Hw1]]]]]; rewrite Es in Hf; [exact Hf|].
      apply (IH st1); [rewrite Hw1; exact Hw|exact Hf].
    - destruct r; try discriminate; cbn [rstep] in Hf; rewrite ?Hw in Hf; exact Hf.
  Qed.

  Lemma rrun_sim : forall recs st, final (rrun step wants_ccs st false recs) ->
    run step st (flatten recs) = rrun step wants_ccs st false recs.
  Proof.
    induction recs as [|r rest IH]; intros st Hf; [destruct Hf|].
    cbn [rrun] in Hf |- *. cbn [flatten flat_map]. fold (flatten rest).
    destruct r; cbn [rstep flatten_record] in Hf |- *.
    - (* handshake record *)
      destruct (wants_ccs st) eqn:Ew; [destruct Hf|].
      destruct (feed_items step wants_ccs st items) as [[st1 r1] lo] eqn:Ef.
      destruct (feed_items_sim items st st1 r1 lo (flatten rest) Ef) as [Ha Hb].
      destruct lo.
      + destruct (Ha eq_refl) as [-> Hw1]. exfalso. eapply rrun_stuck; [exact Hw1|exact Hf].
      + rewrite (Hb eq_refl). destruct r1; try reflexivity. apply IH. exact Hf.
    - (* ChangeCipherSpec *)
      cbn [app run]. destruct (step st (ICCS body_ok)) as [st1 r1] eqn:Es. cbn [is_eof].
      destruct r1; try reflexivity. apply IH. exact Hf.
    - cbn [other_input app run] in Hf |- *;
      match goal with |- context [step ?s ?i] => destruct (step s i) as [st1 r1] end; cbn [is_eof] in Hf |- *;
      destruct r1; try reflexivity; apply IH; exact Hf.
    - cbn [other_input app run] in Hf |- *;
      match goal with |- context [step ?s ?i] => destruct (step s i) as [st1 r1] end; cbn [is_eof] in Hf |- *;
      destruct r1; try reflexivity; apply IH; exact Hf.
    - cbn [other_input app run] in Hf |- *;
      match goal with |- context [step ?s ?i] => destruct (step s i) as [st1 r1] end; cbn [is_eof] in Hf |- *;
      destruct r1; try reflexivity; apply IH; exact Hf.
    - cbn [other_input app run] in Hf |- *;
      match goal with |- context [step ?s ?i] => destruct (step s i) as [st1 r1] end; cbn [is_eof] in Hf |- *;
      destruct r1; try reflexivity; apply IH; exact Hf.
    - cbn [other_input app run] in Hf |- *;
      match goal with |- context [step ?s ?i] => destruct (step s i) as [st1 r1] end; cbn [is_eof] in Hf |- *;
      destruct r1; try reflexivity; apply IH; exact Hf.
  Qed.
End Sim.

(* ---- instances ------------------------------------------------------------------------------------- *)
Lemma read_record_other : forall wc w r, is_other r = true ->
  read_record wc w (other_input r) = RLError \/ exists w', read_record wc w (other_input r) = RLAgain w'.
Proof.
  intros wc w r H. destruct r; try discriminate; cbn; auto.
  destruct (desc =? 0); auto. destruct (level =? 1); auto.
  match goal with |- context [if ?c then _ else _] => destruct c end; eauto.
Qed.

Lemma client_other : forall cfg st r st' res, is_other r = true -> client_step cfg st (other_input r) = (st', res) ->
  res = SError \/ (res = SContinue /\ client_wants_ccs st' = client_wants_ccs st).
Proof.
  intros cfg st r st' res Ho H. unfold client_step in H.
  destruct (read_record_other (match cs_phase st with CP_CCS => true | _ => false end) (cs_warn st) r Ho) as [E|[w' E]];
    rewrite E in H; injection H as <- <-; auto.
Qed.

Lemma server_other : forall cfg st r st' res, is_other r = true -> server_step cfg st (other_input r) = (st', res) ->
  res = SError \/ (res = SContinue /\ server_wants_ccs st' = server_wants_ccs st).
Proof.
  intros cfg st r st' res Ho H. unfold server_step in H.
  destruct (read_record_other (match ss_phase st with SP_CCS => true | _ => false end) (ss_warn st) r Ho) as [E|[w' E]];
    rewrite E in H; injection H as <- <-; auto.
Qed.

Lemma client_rrun_final : forall cfg recs, final (client_rrun cfg recs) -> client_run cfg (flatten recs) = client_rrun cfg recs.
Proof. intros cfg recs H. unfold client_run, client_rrun. apply rrun_sim; [apply client_other|apply client_step_eof|exact H]. Qed.

Lemma server_rrun_final : forall cfg recs, final (server_rrun cfg recs) -> server_run cfg (flatten recs) = server_rrun cfg recs.
Proof. intros cfg recs H. unfold server_run, server_rrun. apply rrun_sim; [apply server_other|apply server_step_eof|exact H]. Qed.

Lemma client_rrun_safe : forall cfg recs, client_rrun cfg recs <> RPanic /\ client_rrun cfg recs <> RHang.
Proof.
  intros cfg recs. pose proof (client_run_safe cfg (flatten recs) (client_init cfg) (cinv_init cfg)) as [Hp Hh].
  split; intros E; pose proof (client_rrun_final cfg recs) as Hf; rewrite E in Hf;
    specialize (Hf I); unfold client_run in Hf; [apply Hp|apply Hh]; exact Hf.
Qed.

Lemma server_rrun_safe : forall cfg recs, server_rrun cfg recs <> RPanic /\ server_rrun cfg recs <> RHang.
Proof.
  intros cfg recs.
  assert (Hi : sinv server_init) by (left; reflexivity).
  pose proof (server_run_safe cfg (flatten recs) server_init Hi) as [Hp Hh].
  split; intros E; pose proof (server_rrun_final cfg recs) as Hf; rewrite E in Hf;
    specialize (Hf I); unfold server_run in Hf; [apply Hp|apply Hh]; exact Hf.
Qed.
