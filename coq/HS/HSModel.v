(* Model of the gmtls handshake state machines, message by message.  No proofs in this file.

   Go code followed (names kept):
     common.go            mutualVersion, minVersion/maxVersion constants
     prf.go               prfForVersion / prfAndHashForVersion (panics on unknown versions), masterFromPreMasterSecret,
                          finishedHash.clientSum/serverSum, hashForClientCertificate
     conn.go              readRecord (record type / phase rules, alerts, warning counter), readHandshake (type dispatch)
     handshake_client.go  clientHandshake, clientHandshakeState.handshake/doFullHandshake/readFinished/...
     gm_handshake_client_double.go   clientHandshakeStateGM.*
     gm_handshake_server_double.go   serverHandshakeGM, readClientHello, checkForResumption, doResumeHandshake, doFullHandshake,
                          readFinished, processCertsFromClient, setCipherSuite
     auto_handshake_server.go        serverHandshakeAutoSwitch (dispatch on ClientHello.vers), processClientHelloGM, processClientHello
     handshake_server.go  serverHandshake, doFullHandshake, setCipherSuite
     gm_key_agreement.go / key_agreement.go   the four key agreements at the level
                          "ServerKeyExchange = signature over randoms and parameters", "ClientKeyExchange = secret sent to a public key"

   An endpoint is a state plus [step : state -> input -> state * sres]; one step = everything the Go code does
   between two blocking reads.  What the endpoint writes is appended to the [out] field of its state (alerts are not
   recorded: alert numbers are not part of any compared observable).

   Abstractions (also listed in checks/c15.py, checks/c08.py):
   * cryptography is symbolic (HSTerms.v);
   * handshake_messages.go parsers (copied from the Go standard library) are "well-formed => fields, else reject":
     a rejected body is the input [IHsMalformed]; gmsm's own byte-level parsers are modelled in HSParsers.v and
     appear here as the [len_ok] flags of ServerKeyExchange / ClientKeyExchange;
   * one handshake message per input (fragmentation/coalescing is the byte-level model [read_handshakes] of HSParsers.v);
   * record protection after ChangeCipherSpec is not modelled (C07): a Finished is accepted iff its verify_data is right;
   * ECDHE is an ephemeral KEM: the server's signed parameters are a public key, the client "encrypts" the
     pre-master secret to it; RSA decryption failures continue with a random pre-master secret (as the code does);
   * Config: MinVersion/MaxVersion unset, Renegotiation = RenegotiateNever, GetConfigForClient / VerifyPeerCertificate /
     GetClientCertificate nil, client NextProtos empty, no OCSP staple configured, first handshake on the connection. *)
From Coq Require Import List NArith Bool.
From GmsmVerif Require Import Lib.Outcome HS.HSTerms.
Import ListNotations.
Local Open Scope N_scope.

(* ---------- versions -------------------------------------------------------------------- *)
Definition VersionGMSSL : N := 257.    (* 0x0101 *)
Definition VersionSSL30 : N := 768.    (* 0x0300 *)
Definition VersionTLS10 : N := 769.
Definition VersionTLS11 : N := 770.
Definition VersionTLS12 : N := 771.
Definition minVersion : N := VersionGMSSL.
Definition maxVersion : N := VersionTLS12.

(* func (c *Config) mutualVersion(vers uint16) (uint16, bool); gm = (c.GMSupport != nil) *)
Definition mutualVersionMax (gm : bool) (maxv : N) (vers : N) : option N :=
  if vers <? minVersion then None
  else
    let vers := if maxv <? vers then maxv else vers in
    if vers =? VersionGMSSL then (if gm then Some vers else None)
    else if (vers =? VersionSSL30) || (vers =? VersionTLS10) || (vers =? VersionTLS11) || (vers =? VersionTLS12)
         then Some vers else None.
Definition mutualVersion (gm : bool) (vers : N) : option N := mutualVersionMax gm maxVersion vers.

(* the versions the rest of the code can work with *)
Definition version_known (v : N) : bool :=
  (v =? VersionGMSSL) || (v =? VersionSSL30) || (v =? VersionTLS10) || (v =? VersionTLS11) || (v =? VersionTLS12).

(* func prfForVersion: which PRF; panic("unknown version") otherwise *)
Definition prfForVersion (version : N) : outcome N :=
  if version =? VersionGMSSL then Ok 0
  else if version =? VersionSSL30 then Ok 1
  else if (version =? VersionTLS10) || (version =? VersionTLS11) then Ok 2
  else if version =? VersionTLS12 then Ok 3
  else Panic.

(* func masterFromPreMasterSecret *)
Definition masterFromPreMasterSecret (version : N) (pms cr sr : term) : outcome term :=
  do p <- prfForVersion version; Ok (TPRF pms (TPair L_master (TLabel p)) (TPair cr sr)).

(* finishedHash.clientSum / serverSum; fp = the PRF the finishedHash was created with *)
Definition finished_sum (fp : N) (master label : term) (transcript : list term) : term :=
  TPRF master (TPair label (TLabel fp)) (THash (tlist transcript)).

(* ---------- cipher suites ----------------------------------------------------------------- *)
Inductive kx := KxECC | KxECDHE_GM | KxRSA | KxECDHE_RSA | KxECDHE_ECDSA.
Record suite := mkSuite { su_id : N; su_kx : kx; su_tls12 : bool }.

Definition is_ecdhe (k : kx) : bool :=
  match k with KxECDHE_GM | KxECDHE_RSA | KxECDHE_ECDSA => true | _ => false end.

(* var gmCipherSuites (gm_support.go) *)
Definition gmCipherSuites : list suite :=
  [ mkSuite 57363 KxECC false;         (* 0xe013 GMTLS_ECC_SM4_CBC_SM3 *)
    mkSuite 57427 KxECC false;         (* 0xe053 GMTLS_ECC_SM4_GCM_SM3 *)
    mkSuite 57361 KxECDHE_GM false;    (* 0xe011 GMTLS_ECDHE_SM4_CBC_SM3 *)
    mkSuite 57425 KxECDHE_GM false ].  (* 0xe051 GMTLS_ECDHE_SM4_GCM_SM3 *)

(* var cipherSuites (cipher_suites.go), in table order *)
Definition cipherSuites : list suite :=
  [ mkSuite 52392 KxECDHE_RSA true;    (* 0xcca8 *)
    mkSuite 52393 KxECDHE_ECDSA true;  (* 0xcca9 *)
    mkSuite 49199 KxECDHE_RSA true;    (* 0xc02f *)
    mkSuite 49195 KxECDHE_ECDSA true;  (* 0xc02b *)
    mkSuite 49200 KxECDHE_RSA true;    (* 0xc030 *)
    mkSuite 49196 KxECDHE_ECDSA true;  (* 0xc02c *)
    mkSuite 49187 KxECDHE_ECDSA true;  (* 0xc023 *)
    mkSuite 49161 KxECDHE_ECDSA false; (* 0xc009 *)
    mkSuite 49172 KxECDHE_RSA false;   (* 0xc014 *)
    mkSuite 49162 KxECDHE_ECDSA false; (* 0xc00a *)
    mkSuite 156 KxRSA true;            (* 0x009c *)
    mkSuite 157 KxRSA true;            (* 0x009d *)
    mkSuite 60 KxRSA true;             (* 0x003c *)
    mkSuite 47 KxRSA false;            (* 0x002f *)
    mkSuite 53 KxRSA false;            (* 0x0035 *)
    mkSuite 49170 KxECDHE_RSA false;   (* 0xc012 *)
    mkSuite 10 KxRSA false;            (* 0x000a *)
    mkSuite 5 KxRSA false;             (* 0x0005 *)
    mkSuite 49169 KxECDHE_RSA false;   (* 0xc011 *)
    mkSuite 49159 KxECDHE_ECDSA false ]. (* 0xc007 *)

(* getCipherSuites(c) with CipherSuites == nil *)
Definition default_gm_suite_ids : list N := [57363; 57427; 57361; 57425].
(* defaultCipherSuites(): top suites, then the table without suiteDefaultOff entries *)
Definition default_tls_suite_ids : list N :=
  [52392; 52393; 49199; 49200; 49195; 49196; 49161; 49172; 49162; 156; 157; 47; 53; 49170; 10].
Definition TLS_FALLBACK_SCSV : N := 22016.   (* 0x5600 *)

Fixpoint find_suite (tbl : list suite) (id : N) : option suite :=
  match tbl with
  | [] => None
  | s :: r => if su_id s =? id then Some s else find_suite r id
  end.

Definition mem (x : N) (l : list N) : bool := existsb (N.eqb x) l.
(* chain verification is a predicate on the certificate: membership in the list of certificates Verify accepts *)
Definition tmem (t : term) (l : list term) : bool := existsb (term_eqb t) l.

(* mutualCipherSuite / mutualCipherSuiteGM *)
Definition mutualCipherSuite (tbl : list suite) (have : list N) (want : N) : option suite :=
  if mem want have then find_suite tbl want else None.

Fixpoint first_some {A B} (f : A -> option B) (l : list A) : option B :=
  match l with
  | [] => None
  | x :: r => match f x with Some y => Some y | None => first_some f r end
  end.

(* ---------- messages ------------------------------------------------------------------------- *)
Record client_hello := mkCH {
  ch_vers : N; ch_random : term; ch_session_id : term; ch_suites : list N;
  ch_comp_null : bool;         (* compressionNone is offered *)
  ch_reneg_nonempty : bool;    (* len(secureRenegotiation) != 0 *)
  ch_ticket_supported : bool; ch_ticket : term;
  ch_npn : bool; ch_alpn : bool;
  ch_elliptic_ok : bool;       (* a preferred curve and the uncompressed point format are offered *)
  ch_ocsp : bool }.

Record server_hello := mkSH {
  sh_vers : N; sh_random : term; sh_session_id : term; sh_suite : N;
  sh_comp_null : bool;         (* compressionMethod == compressionNone *)
  sh_reneg_nonempty : bool;    (* secureRenegotiationSupported && len(secureRenegotiation) != 0 *)
  sh_ticket_supported : bool; sh_npn : bool; sh_alpn : bool; sh_ocsp : bool }.

Inductive hmsg :=
| MClientHello (ch : client_hello)
| MServerHello (sh : server_hello)
| MCertificate (certs : list term)
| MServerKeyExchange (len_ok : bool) (params sig : term)
| MCertificateRequest
| MServerHelloDone
| MClientKeyExchange (len_ok : bool) (ct : term)
| MCertificateVerify (alg_ok : bool) (sig : term)
| MFinished (vd : term)
| MNewSessionTicket (ticket : term)
| MCertificateStatus
| MNextProtocol
| MHelloRequest.

Definition tb (b : bool) : term := TLabel (if b then 1 else 0).

(* marshal(): the bytes that go into the transcript hash *)
Definition enc_hmsg (m : hmsg) : term :=
  match m with
  | MClientHello ch =>
      tlist [TLabel 1; TLabel (ch_vers ch); ch_random ch; ch_session_id ch; tlist (map TLabel (ch_suites ch));
             tb (ch_comp_null ch); tb (ch_reneg_nonempty ch); tb (ch_ticket_supported ch); ch_ticket ch;
             tb (ch_npn ch); tb (ch_alpn ch); tb (ch_elliptic_ok ch); tb (ch_ocsp ch)]
  | MServerHello sh =>
      tlist [TLabel 2; TLabel (sh_vers sh); sh_random sh; sh_session_id sh; TLabel (sh_suite sh);
             tb (sh_comp_null sh); tb (sh_reneg_nonempty sh); tb (sh_ticket_supported sh);
             tb (sh_npn sh); tb (sh_alpn sh); tb (sh_ocsp sh)]
  | MCertificate certs => tlist [TLabel 11; tlist certs]
  | MServerKeyExchange l p s => tlist [TLabel 12; tb l; p; s]
  | MCertificateRequest => tlist [TLabel 13]
  | MServerHelloDone => tlist [TLabel 14]
  | MClientKeyExchange l c => tlist [TLabel 16; tb l; c]
  | MCertificateVerify a s => tlist [TLabel 15; tb a; s]
  | MFinished vd => tlist [TLabel 20; vd]
  | MNewSessionTicket t => tlist [TLabel 4; t]
  | MCertificateStatus => tlist [TLabel 22]
  | MNextProtocol => tlist [TLabel 67]
  | MHelloRequest => tlist [TLabel 0]
  end.

(* what the record layer hands to the endpoint *)
Inductive input :=
| IHs (m : hmsg)            (* a handshake message the type's unmarshal accepts *)
| IHsMalformed (ty : N)     (* known type, body rejected by unmarshal (truncated / length field perturbed) *)
| IHsUnknown                (* unknown handshake type *)
| IHsTooLong                (* header announces more than maxHandshake bytes *)
| ICCS (body_ok : bool)     (* ChangeCipherSpec record; body_ok: exactly the byte 01 *)
| IAlert (level desc : N)   (* alert record of exactly two bytes *)
| IAlertBad                 (* alert record of another length *)
| IAppData
| IBadRecord                (* unknown record type, oversized record, wrong record version *)
| IEOF.                     (* the peer's stream has ended *)

Inductive output := OHs (m : hmsg) | OCCS.

Inductive sres := SContinue | SComplete | SError | SPanic | SHang.

Definition maxWarnAlertCount : nat := 5.

(* readRecord: everything that does not depend on the handshake state.
   want_ccs: the caller is readRecord(recordTypeChangeCipherSpec).  Result: what reaches the handshake logic. *)
Inductive rl_result :=
| RLError
| RLAgain (warn : nat)        (* warning alert dropped; the new warning counter *)
| RLHandshake (m : hmsg)
| RLCCS.

Definition read_record (want_ccs : bool) (warn : nat) (i : input) : rl_result :=
  match i with
  | IEOF => RLError
  | IBadRecord => RLError
  | IAppData => RLError                    (* typ != want *)
  | IAlertBad => RLError
  | IAlert level desc =>
      if desc =? 0 then RLError            (* close_notify: io.EOF *)
      else if level =? 1 then
        (if Nat.ltb maxWarnAlertCount (S warn) then RLError else RLAgain (S warn))
      else RLError                         (* fatal alert, or an unknown level *)
  | ICCS ok => if want_ccs && ok then RLCCS else RLError
  | IHsMalformed _ | IHsUnknown | IHsTooLong => RLError
  | IHs m => if want_ccs then RLError      (* handshake record while a ChangeCipherSpec is expected *)
             else RLHandshake m
  end.

(* ====================================================================================== *)
(* Client                                                                                  *)
(* ====================================================================================== *)
Record cconfig := mkCC {
  c_gm : bool;                     (* Config.GMSupport != nil *)
  c_maxv : N;                      (* Config.maxVersion(): MaxVersion, or 0x0303 when unset; one of 0x0301..0x0303 *)
  c_suites : list N;               (* hello.cipherSuites as built by makeClientHello(GM) *)
  c_verify : bool;                 (* !InsecureSkipVerify *)
  c_trusted : list term;           (* the certificates for which Verify(RootCAs, Time, ServerName) returns a chain *)
  c_cert : option (term * N);      (* client certificate and its private key *)
  c_cache : bool;                  (* ClientSessionCache set and tickets not disabled *)
  c_session : option (term * N * term);  (* cached session: ticket, suite, master secret *)
  c_rand : N; c_pms : N; c_sid : N; c_eph : N }.

Inductive cphase :=
| CP_ServerHello | CP_Certificate | CP_AfterCert | CP_AfterStatus | CP_AfterSKX | CP_HelloDone
| CP_Ticket | CP_CCS | CP_Finished.

Record cstate := mkCS {
  cs_phase : cphase; cs_warn : nat; cs_vers : N; cs_fp : N;
  cs_sh : option server_hello; cs_kx : kx; cs_certs : list term;
  cs_skx : option term;            (* ECDHE: the server parameters of a processed ServerKeyExchange *)
  cs_cert_req : bool; cs_resumed : bool;
  cs_master : term; cs_tr : list term; cs_out : list output }.

Definition client_hello_of (cfg : cconfig) : client_hello :=
  mkCH (if c_gm cfg then VersionGMSSL else c_maxv cfg) (TRand (c_rand cfg))
       (match c_session cfg with Some _ => TRand (c_sid cfg) | None => TNil end)
       (c_suites cfg) true false (c_cache cfg)
       (match c_session cfg with Some (t, _, _) => t | None => TNil end)
       false false (negb (c_gm cfg)) (negb (c_gm cfg)).

(* clientHandshake up to the first read *)
Definition client_init (cfg : cconfig) : cstate :=
  let ch := MClientHello (client_hello_of cfg) in
  mkCS CP_ServerHello 0 (if c_gm cfg then VersionGMSSL else 0) 0 None KxECC [] None false false TNil
       [enc_hmsg ch] [OHs ch].

Definition cs_set_phase (st : cstate) (p : cphase) : cstate :=
  mkCS p (cs_warn st) (cs_vers st) (cs_fp st) (cs_sh st) (cs_kx st) (cs_certs st) (cs_skx st)
       (cs_cert_req st) (cs_resumed st) (cs_master st) (cs_tr st) (cs_out st).
Definition cs_set_warn (st : cstate) (w : nat) : cstate :=
  mkCS (cs_phase st) w (cs_vers st) (cs_fp st) (cs_sh st) (cs_kx st) (cs_certs st) (cs_skx st)
       (cs_cert_req st) (cs_resumed st) (cs_master st) (cs_tr st) (cs_out st).
Definition cs_add_tr (st : cstate) (m : hmsg) : cstate :=
  mkCS (cs_phase st) (cs_warn st) (cs_vers st) (cs_fp st) (cs_sh st) (cs_kx st) (cs_certs st) (cs_skx st)
       (cs_cert_req st) (cs_resumed st) (cs_master st) (cs_tr st ++ [enc_hmsg m]) (cs_out st).
Definition cs_send (st : cstate) (m : hmsg) : cstate :=
  mkCS (cs_phase st) (cs_warn st) (cs_vers st) (cs_fp st) (cs_sh st) (cs_kx st) (cs_certs st) (cs_skx st)
       (cs_cert_req st) (cs_resumed st) (cs_master st) (cs_tr st ++ [enc_hmsg m]) (cs_out st ++ [OHs m]).
Definition cs_send_ccs (st : cstate) : cstate :=
  mkCS (cs_phase st) (cs_warn st) (cs_vers st) (cs_fp st) (cs_sh st) (cs_kx st) (cs_certs st) (cs_skx st)
       (cs_cert_req st) (cs_resumed st) (cs_master st) (cs_tr st) (cs_out st ++ [OCCS]).

Definition sh_random_of (st : cstate) : term :=
  match cs_sh st with Some sh => sh_random sh | None => TNil end.
Definition sh_ticket_of (st : cstate) : bool :=
  match cs_sh st with Some sh => sh_ticket_supported sh | None => false end.
Definition sh_ocsp_of (st : cstate) : bool :=
  match cs_sh st with Some sh => sh_ocsp sh | None => false end.

(* the data signed in ServerKeyExchange.
   GM ECC (eccKeyAgreementGM.hashForServerKeyExchange): client_random || server_random || len || encryption certificate;
   ECDHE: client_random || server_random || parameters *)
Definition skx_payload (cr sr third : term) : term := tlist [cr; sr; third].

(* x509 checks of the GM client on each certificate of the list: parse, SM2 key, key usage by position *)
Fixpoint gm_cert_checks (i : nat) (certs : list term) : bool :=
  match certs with
  | [] => true
  | c :: r =>
      is_cert c && (cert_kind c =? KIND_SM2) &&
      (match i with
       | O => negb (N.land (cert_ku c) KU_SIGN =? 0)
       | S O => negb (N.land (cert_ku c) KU_ENC =? 0)
       | _ => true
       end) && gm_cert_checks (S i) r
  end.

Definition nth_cert (n : nat) (certs : list term) : term := nth n certs TNil.

(* processServerHello (both clients): compression, renegotiation info, unrequested NPN / ALPN.
   Result: Some resumed. *)
Definition processServerHello (cfg : cconfig) (sh : server_hello) (su : suite) : option bool :=
  if negb (sh_comp_null sh) then None
  else if sh_reneg_nonempty sh then None
  else if sh_npn sh then None              (* client did not ask for NPN *)
  else if sh_alpn sh then None             (* client did not ask for ALPN *)
  else
    match c_session cfg with
    | Some (_, sid_suite, _) =>
        if term_eqb (sh_session_id sh) (TRand (c_sid cfg)) then
          (* serverResumedSession; the cached session has the client's version *)
          if sid_suite =? su_id su then Some true else None
        else Some false
    | None => Some false
    end.

(* generateClientKeyExchange: the pre-master secret and the ClientKeyExchange message *)
Definition client_ckx (cfg : cconfig) (st : cstate) : outcome (term * hmsg) :=
  match cs_kx st with
  | KxECC =>
      Ok (TPMS (c_pms cfg), MClientKeyExchange true (TEnc (cert_pub (nth_cert 1 (cs_certs st))) (TPMS (c_pms cfg))))
  | KxRSA =>
      (* rsaKeyAgreement.generateClientKeyExchange: "server certificate contains incorrect key type for selected ciphersuite" *)
      if cert_kind (nth_cert 0 (cs_certs st)) =? KIND_RSA
      then Ok (TPMS (c_pms cfg), MClientKeyExchange true (TEnc (cert_pub (nth_cert 0 (cs_certs st))) (TPMS (c_pms cfg))))
      else Err 1
  | KxECDHE_GM =>
      (* ecdheKeyAgreementGM.generateClientKeyExchange: the point was checked on the SM2 curve only; a NIST curve id
         fails IsOnCurve; X25519 (params TLabel 29) goes on with an all-zero peer value *)
      match cs_skx st with
      | None => Err 1
      | Some p => if term_eqb p (TLabel 29) then Ok (TLabel 0, MClientKeyExchange true (TPub (c_eph cfg))) else Err 1
      end
  | KxECDHE_RSA | KxECDHE_ECDSA =>
      match cs_skx st with
      | None => Err 1                    (* "missing ServerKeyExchange message" *)
      | Some p => Ok (TPMS (c_pms cfg), MClientKeyExchange true (TEnc p (TPMS (c_pms cfg))))
      end
  end.

(* what the client writes after ServerHelloDone: [Certificate], ClientKeyExchange, [CertificateVerify],
   ChangeCipherSpec, Finished; and the state it then waits in *)
Definition client_second_flight (cfg : cconfig) (st : cstate) (ckxm : hmsg) (master : term) : cstate :=
  let st := cs_add_tr st MServerHelloDone in
  (* Certificate (possibly empty) if one was requested *)
  let st := if cs_cert_req st
            then cs_send st (MCertificate (match c_cert cfg with Some (c, _) => [c] | None => [] end))
            else st in
  let st := cs_send st ckxm in
  (* CertificateVerify when a certificate was sent *)
  let st := match cs_cert_req st, c_cert cfg with
            | true, Some (_, k) => cs_send st (MCertificateVerify true (TSig k (THash (tlist (cs_tr st)))))
            | _, _ => st
            end in
  let st := mkCS (if sh_ticket_of st then CP_Ticket else CP_CCS) (cs_warn st) (cs_vers st) (cs_fp st) (cs_sh st)
                 (cs_kx st) (cs_certs st) (cs_skx st) (cs_cert_req st) false master (cs_tr st) (cs_out st) in
  (* sendFinished *)
  let st := cs_send_ccs st in
  cs_send st (MFinished (finished_sum (cs_fp st) master L_client_finished (cs_tr st))).

(* the rest of doFullHandshake after ServerHelloDone, establishKeys, sendFinished *)
Definition client_after_hello_done (cfg : cconfig) (st : cstate) : cstate * sres :=
  match client_ckx cfg st with
  | Err _ => (st, SError)
  | Panic => (st, SPanic)
  | Hang => (st, SHang)
  | Ok (pms, ckxm) =>
      match masterFromPreMasterSecret (cs_vers st) pms (TRand (c_rand cfg)) (sh_random_of st) with
      | Ok master => (client_second_flight cfg st ckxm master, SContinue)
      | Err _ => (st, SError)
      | Panic => (st, SPanic)
      | Hang => (st, SHang)
      end
  end.

(* one handshake message delivered to the client *)
Definition client_handshake_step (cfg : cconfig) (st : cstate) (m : hmsg) : cstate * sres :=
  let cr := TRand (c_rand cfg) in
  match cs_phase st, m with
  (* ---- handshake(): ServerHello ---- *)
  | CP_ServerHello, MServerHello sh =>
      let vers_ok : option N :=
        if c_gm cfg then (if sh_vers sh =? VersionGMSSL then Some VersionGMSSL else None)
        else match mutualVersionMax false (c_maxv cfg) (sh_vers sh) with   (* pickTLSVersion *)
             | Some v => if v <? VersionTLS10 then None else Some v
             | None => None
             end in
      match vers_ok with
      | None => (st, SError)
      | Some v =>
        match mutualCipherSuite (if c_gm cfg then gmCipherSuites else cipherSuites) (c_suites cfg) (sh_suite sh) with
        | None => (st, SError)
        | Some su =>
          match processServerHello cfg sh su with
          | None => (st, SError)
          | Some resumed =>
            (* newFinishedHashGM / newFinishedHash(c.vers) *)
            match (if c_gm cfg then Ok 0 else prfForVersion v) with
            | Ok fp =>
              let master := match c_session cfg with Some (_, _, ms) => if resumed then ms else TNil | None => TNil end in
              let ph := if resumed then (if sh_ticket_supported sh then CP_Ticket else CP_CCS) else CP_Certificate in
              (mkCS ph (cs_warn st) v fp (Some sh) (su_kx su) [] None false resumed master
                    (cs_tr st ++ [enc_hmsg m]) (cs_out st), SContinue)
            | Err _ => (st, SError) | Panic => (st, SPanic) | Hang => (st, SHang)
            end
          end
        end
      end
  (* ---- doFullHandshake: Certificate ---- *)
  | CP_Certificate, MCertificate certs =>
      if c_gm cfg then
        if Nat.ltb (length certs) 2 then (st, SError)
        else if negb (gm_cert_checks 0 certs) then (st, SError)
        else if c_verify cfg && negb (tmem (nth_cert 0 certs) (c_trusted cfg)
                                      && tmem (nth_cert 1 certs) (c_trusted cfg)) then (st, SError)
        else
          (mkCS CP_AfterCert (cs_warn st) (cs_vers st) (cs_fp st) (cs_sh st) (cs_kx st) certs None false false
                (cs_master st) (cs_tr st ++ [enc_hmsg m]) (cs_out st), SContinue)
      else
        match certs with
        | [] => (st, SError)
        | c0 :: _ =>
          if negb (forallb is_cert certs) then (st, SError)
          else if c_verify cfg && negb (tmem c0 (c_trusted cfg)) then (st, SError)
          else if negb ((cert_kind c0 =? KIND_RSA) || (cert_kind c0 =? KIND_ECDSA) || (cert_kind c0 =? KIND_SM2))
               then (st, SError)
          else
            (mkCS CP_AfterCert (cs_warn st) (cs_vers st) (cs_fp st) (cs_sh st) (cs_kx st) certs None false false
                  (cs_master st) (cs_tr st ++ [enc_hmsg m]) (cs_out st), SContinue)
        end
  (* ---- CertificateStatus (TLS client only; the GM client requires ServerKeyExchange here) ---- *)
  | CP_AfterCert, MCertificateStatus =>
      if c_gm cfg then (st, SError)
      else if negb (sh_ocsp_of st) then (st, SError)
      else (cs_set_phase (cs_add_tr st m) CP_AfterStatus, SContinue)
  (* ---- ServerKeyExchange ---- *)
  | CP_AfterCert, MServerKeyExchange len_ok params sig
  | CP_AfterStatus, MServerKeyExchange len_ok params sig =>
      let c0 := nth_cert 0 (cs_certs st) in
      let sr := sh_random_of st in
      let ok :=
        match cs_kx st with
        | KxECC =>
            (* eccKeyAgreementGM.processServerKeyExchange *)
            len_ok && verify (cert_pub c0) sig (skx_payload cr sr (nth_cert 1 (cs_certs st)))
        | KxRSA => false                   (* "unexpected ServerKeyExchange" *)
        | KxECDHE_GM => len_ok && verify (cert_pub c0) sig (skx_payload cr sr params)
        | KxECDHE_RSA => len_ok && (cert_kind c0 =? KIND_RSA) && verify (cert_pub c0) sig (skx_payload cr sr params)
        | KxECDHE_ECDSA => len_ok && ((cert_kind c0 =? KIND_ECDSA) || (cert_kind c0 =? KIND_SM2))
                           && verify (cert_pub c0) sig (skx_payload cr sr params)
        end in
      if ok then
        (mkCS CP_AfterSKX (cs_warn st) (cs_vers st) (cs_fp st) (cs_sh st) (cs_kx st) (cs_certs st) (Some params) false false
              (cs_master st) (cs_tr st ++ [enc_hmsg m]) (cs_out st), SContinue)
      else (st, SError)
  (* ---- CertificateRequest ---- *)
  | CP_AfterCert, MCertificateRequest
  | CP_AfterStatus, MCertificateRequest =>
      if c_gm cfg then (st, SError)      (* GM client: ServerKeyExchange is mandatory *)
      else
        (mkCS CP_HelloDone (cs_warn st) (cs_vers st) (cs_fp st) (cs_sh st) (cs_kx st) (cs_certs st) (cs_skx st) true false
              (cs_master st) (cs_tr st ++ [enc_hmsg m]) (cs_out st), SContinue)
  | CP_AfterSKX, MCertificateRequest =>
      (mkCS CP_HelloDone (cs_warn st) (cs_vers st) (cs_fp st) (cs_sh st) (cs_kx st) (cs_certs st) (cs_skx st) true false
            (cs_master st) (cs_tr st ++ [enc_hmsg m]) (cs_out st), SContinue)
  (* ---- ServerHelloDone ---- *)
  | CP_AfterCert, MServerHelloDone
  | CP_AfterStatus, MServerHelloDone =>
      if c_gm cfg then (st, SError) else client_after_hello_done cfg st
  | CP_AfterSKX, MServerHelloDone
  | CP_HelloDone, MServerHelloDone => client_after_hello_done cfg st
  (* ---- readSessionTicket ---- *)
  | CP_Ticket, MNewSessionTicket _ => (cs_set_phase (cs_add_tr st m) CP_CCS, SContinue)
  (* ---- readFinished ---- *)
  | CP_Finished, MFinished vd =>
      if term_eqb vd (finished_sum (cs_fp st) (cs_master st) L_server_finished (cs_tr st)) then
        let st := cs_add_tr st m in
        if cs_resumed st then
          (* resumption: the client answers with ChangeCipherSpec and its own Finished *)
          let st := cs_send_ccs st in
          let st := cs_send st (MFinished (finished_sum (cs_fp st) (cs_master st) L_client_finished (cs_tr st))) in
          (st, SComplete)
        else (st, SComplete)
      else (st, SError)
  (* every other (phase, message) pair: unexpected_message *)
  | _, _ => (st, SError)
  end.

Definition client_step (cfg : cconfig) (st : cstate) (i : input) : cstate * sres :=
  match read_record (match cs_phase st with CP_CCS => true | _ => false end) (cs_warn st) i with
  | RLError => (st, SError)
  | RLAgain w => (cs_set_warn st w, SContinue)
  | RLCCS => (cs_set_warn (cs_set_phase st CP_Finished) 0, SContinue)
  | RLHandshake m => client_handshake_step cfg (cs_set_warn st 0) m
  end.

(* ====================================================================================== *)
(* Server                                                                                  *)
(* ====================================================================================== *)
Inductive smode := GMOnly | AutoSwitch | TLSOnly.

Record sconfig := mkSC {
  s_mode : smode;
  s_suites : option (list N);      (* Config.CipherSuites *)
  s_prefer_server : bool;
  s_auth : N;                      (* ClientAuth: 0 NoClientCert, 1 RequestClientCert, 2 RequireAnyClientCert,
                                      3 VerifyClientCertIfGiven, 4 RequireAndVerifyClientCert *)
  s_client_trusted : list term;    (* the client certificates for which Verify(ClientCAs, Time, EKU clientAuth) returns a chain *)
  s_gm_certs : list (term * N);    (* GM certificates with their keys: signing, encryption (Config.Certificates, or what
                                      GetCertificate / GetKECertificate return); fewer than two: internal error *)
  s_tls_cert : option (term * N);  (* the standard certificate *)
  s_tickets : bool;                (* !SessionTicketsDisabled *)
  s_ticket_key : N;
  s_npn : bool;                    (* len(NextProtos) > 0 *)
  s_rand : N; s_eph : N; s_fresh : N }.

Inductive sphase := SP_Hello | SP_ClientCert | SP_CKX | SP_CertVerify | SP_CCS | SP_NextProto | SP_Finished.

Record sstate := mkSS {
  ss_phase : sphase; ss_warn : nat; ss_vers : N; ss_fp : N; ss_gm : bool;
  ss_kx : kx; ss_suite : N; ss_ticket : bool;    (* hello.ticketSupported *)
  ss_npn : bool;                   (* hello.nextProtoNeg *)
  ss_cr : term;                    (* client random *)
  ss_peer : list term;             (* c.peerCertificates *)
  ss_resumed : bool;
  ss_master : term; ss_tr : list term; ss_out : list output }.

Definition server_init : sstate :=
  mkSS SP_Hello 0 0 0 false KxECC 0 false false TNil [] false TNil [] [].

Definition ss_set_phase (st : sstate) (p : sphase) : sstate :=
  mkSS p (ss_warn st) (ss_vers st) (ss_fp st) (ss_gm st) (ss_kx st) (ss_suite st) (ss_ticket st) (ss_npn st) (ss_cr st) (ss_peer st)
       (ss_resumed st) (ss_master st) (ss_tr st) (ss_out st).
Definition ss_set_warn (st : sstate) (w : nat) : sstate :=
  mkSS (ss_phase st) w (ss_vers st) (ss_fp st) (ss_gm st) (ss_kx st) (ss_suite st) (ss_ticket st) (ss_npn st) (ss_cr st) (ss_peer st)
       (ss_resumed st) (ss_master st) (ss_tr st) (ss_out st).
Definition ss_add_tr (st : sstate) (m : hmsg) : sstate :=
  mkSS (ss_phase st) (ss_warn st) (ss_vers st) (ss_fp st) (ss_gm st) (ss_kx st) (ss_suite st) (ss_ticket st) (ss_npn st) (ss_cr st) (ss_peer st)
       (ss_resumed st) (ss_master st) (ss_tr st ++ [enc_hmsg m]) (ss_out st).
Definition ss_send (st : sstate) (m : hmsg) : sstate :=
  mkSS (ss_phase st) (ss_warn st) (ss_vers st) (ss_fp st) (ss_gm st) (ss_kx st) (ss_suite st) (ss_ticket st) (ss_npn st) (ss_cr st) (ss_peer st)
       (ss_resumed st) (ss_master st) (ss_tr st ++ [enc_hmsg m]) (ss_out st ++ [OHs m]).
Definition ss_send_ccs (st : sstate) : sstate :=
  mkSS (ss_phase st) (ss_warn st) (ss_vers st) (ss_fp st) (ss_gm st) (ss_kx st) (ss_suite st) (ss_ticket st) (ss_npn st) (ss_cr st) (ss_peer st)
       (ss_resumed st) (ss_master st) (ss_tr st) (ss_out st ++ [OCCS]).

Definition gm_suite_ids (cfg : sconfig) : list N :=
  match s_suites cfg with Some l => l | None => default_gm_suite_ids end.
Definition tls_suite_ids (cfg : sconfig) : list N :=
  match s_suites cfg with Some l => l | None => default_tls_suite_ids end.

(* serverHandshakeStateGM.setCipherSuite *)
Definition setCipherSuiteGM (id : N) (supported : list N) (version : N) : option suite :=
  if mem id supported then
    match find_suite gmCipherSuites id with
    | Some c =>
        if (version <? VersionTLS12) && su_tls12 c then None
        else if is_ecdhe (su_kx c) then None      (* server side of ECDHE-SM2 not implemented *)
        else Some c
    | None => None
    end
  else None.

(* serverHandshakeState.setCipherSuite; flags from the certificate's private key *)
Definition setCipherSuiteTLS (ellipticOk ecdsaOk rsaSignOk rsaDecryptOk : bool)
           (id : N) (supported : list N) (version : N) : option suite :=
  if mem id supported then
    match find_suite cipherSuites id with
    | Some c =>
        let usable :=
          match su_kx c with
          | KxECDHE_ECDSA => ellipticOk && ecdsaOk
          | KxECDHE_RSA => ellipticOk && rsaSignOk
          | _ => rsaDecryptOk
          end in
        if negb usable then None
        else if (version <? VersionTLS12) && su_tls12 c then None
        else Some c
    | None => None
    end
  else None.

(* the session state inside a ticket; encryptTicket / decryptTicket: confidential and authenticated under the ticket key *)
Definition session_state (vers suite_id : N) (master : term) (certs : list term) : term :=
  tlist [TLabel vers; TLabel suite_id; master; tlist certs].
Definition encryptTicket (key : N) (state : term) : term := TEnc (TPub key) (TSig key state).
Definition decryptTicket (key : N) (ticket : term) : option term :=
  match ticket with
  | TEnc (TPub k) (TSig k' st) => if (k =? key) && (k' =? key) then Some st else None
  | _ => None
  end.
(* sessionState.unmarshal of what decryptTicket returned *)
Fixpoint untlist (t : term) : list term :=
  match t with TPair a b => a :: untlist b | _ => [] end.
Definition parse_session_state (t : term) : option (N * N * term * list term) :=
  match t with
  | TPair (TLabel v) (TPair (TLabel s) (TPair ms (TPair certs TNil))) => Some (v, s, ms, untlist certs)
  | _ => None
  end.

(* processCertsFromClient: Some peerCertificates, or None for an error return *)
Definition processCertsFromClient (cfg : sconfig) (certs : list term) : option (list term) :=
  if negb (forallb is_cert certs) then None
  else
    match certs with
    | [] => Some []
    | c0 :: _ =>
        if (3 <=? s_auth cfg) && negb (tmem c0 (s_client_trusted cfg)) then None
        else if (cert_kind c0 =? KIND_RSA) || (cert_kind c0 =? KIND_ECDSA) || (cert_kind c0 =? KIND_SM2) then Some certs
        else None
    end.

(* the part of doFullHandshake before the first read: ServerHello .. ServerHelloDone *)
Definition server_send_flight (cfg : sconfig) (st : sstate) (ch : client_hello) (gm : bool) (vers : N) (su : suite)
           (sign_cert : term * N) (certs : list term) : sstate * sres :=
  let fp : outcome N := if gm then Ok 0 else prfForVersion vers in       (* newFinishedHashGM / newFinishedHash(c.vers) *)
  match fp with
  | Err _ => (st, SError) | Panic => (st, SPanic) | Hang => (st, SHang)
  | Ok fp =>
    let ticket := ch_ticket_supported ch && s_tickets cfg in
    let npn := negb (ch_alpn ch) && ch_npn ch && s_npn cfg in
    let sr := TRand (s_rand cfg) in
    let sh := mkSH vers sr TNil (su_id su) true false ticket npn false false in
    let st := mkSS SP_Hello 0 vers fp gm (su_kx su) (su_id su) ticket npn (ch_random ch) [] false TNil
                   [enc_hmsg (MClientHello ch)] (ss_out st) in
    let st := ss_send st (MServerHello sh) in
    let st := ss_send st (MCertificate certs) in
    (* generateServerKeyExchange *)
    let skx : option (option hmsg) :=
      match su_kx su with
      | KxECC => Some (Some (MServerKeyExchange true TNil
                               (TSig (snd sign_cert) (skx_payload (ch_random ch) sr (nth_cert 1 certs)))))
      | KxECDHE_GM => None                 (* "server side of the ECDHE-SM2 key agreement is not implemented" *)
      | KxRSA => Some None
      | KxECDHE_RSA | KxECDHE_ECDSA =>
          Some (Some (MServerKeyExchange true (TPub (s_eph cfg))
                        (TSig (snd sign_cert) (skx_payload (ch_random ch) sr (TPub (s_eph cfg))))))
      end in
    match skx with
    | None => (st, SError)
    | Some skx =>
      let st := match skx with Some m => ss_send st m | None => st end in
      let st := if 1 <=? s_auth cfg then ss_send st MCertificateRequest else st in
      let st := ss_send st MServerHelloDone in
      (ss_set_phase st (if 1 <=? s_auth cfg then SP_ClientCert else SP_CKX), SContinue)
    end
  end.

(* checkForResumption + doResumeHandshake + establishKeys + [ticket] + sendFinished, up to the first read.
   None: no resumption (go on with the full handshake). *)
Definition server_try_resume (cfg : sconfig) (st : sstate) (ch : client_hello) (gm : bool) (vers : N)
           (pick : N -> list N -> N -> option suite) (configured : list N) : option (sstate * sres) :=
  if negb (s_tickets cfg) then None
  else
    match decryptTicket (s_ticket_key cfg) (ch_ticket ch) with
    | None => None
    | Some stt =>
      match parse_session_state stt with
      | None => None
      | Some (tv, ts, master, tcerts) =>
        if negb (tv =? vers) then None
        else if negb (mem ts (ch_suites ch)) then None
        else
          match pick ts configured tv with
          | None => None
          | Some su =>
            let has := negb (Nat.eqb (length tcerts) 0) in
            let need := (s_auth cfg =? 2) || (s_auth cfg =? 4) in
            if need && negb has then None
            else if has && (s_auth cfg =? 0) then None
            else
              Some
                (match (if gm then Ok 0 else prfForVersion vers) with
                 | Err _ => (st, SError) | Panic => (st, SPanic) | Hang => (st, SHang)
                 | Ok fp =>
                   let npn := negb (ch_alpn ch) && ch_npn ch && s_npn cfg in
                   let sr := TRand (s_rand cfg) in
                   (* hello.ticketSupported = sessionState.usedOldKey = false: one ticket key *)
                   let sh := mkSH vers sr (ch_session_id ch) (su_id su) true false false npn false false in
                   let st := mkSS SP_CCS 0 vers fp gm (su_kx su) (su_id su) false npn (ch_random ch) [] true master
                                  [enc_hmsg (MClientHello ch)] (ss_out st) in
                   let st := ss_send st (MServerHello sh) in
                   match processCertsFromClient cfg tcerts with
                   | None => (st, SError)
                   | Some peer =>
                     let st := mkSS SP_CCS 0 vers fp gm (su_kx su) (su_id su) false npn (ch_random ch) peer true master
                                    (ss_tr st) (ss_out st) in
                     let st := ss_send_ccs st in
                     let st := ss_send st (MFinished (finished_sum fp master L_server_finished (ss_tr st))) in
                     (st, SContinue)
                   end
                 end)
          end
      end
    end.

(* readClientHello / processClientHelloGM / processClientHello after the version has been fixed *)
Definition server_process_hello (cfg : sconfig) (st : sstate) (ch : client_hello) (gm : bool) (vers : N) : sstate * sres :=
  if negb (ch_comp_null ch) then (st, SError)
  else if ch_reneg_nonempty ch then (st, SError)
  else if gm then
    (* GMT0024: two certificates *)
    match s_gm_certs cfg with
    | sc :: ec :: _ =>
        let certs := map fst (s_gm_certs cfg) in
        let configured := gm_suite_ids cfg in
        match server_try_resume cfg st ch true vers setCipherSuiteGM configured with
        | Some r => r
        | None =>
          let pick := if s_prefer_server cfg
                      then first_some (fun id => setCipherSuiteGM id (ch_suites ch) vers) configured
                      else first_some (fun id => setCipherSuiteGM id configured vers) (ch_suites ch) in
          match pick with
          | None => (st, SError)
          | Some su =>
            if mem TLS_FALLBACK_SCSV (ch_suites ch) && (ch_vers ch <? maxVersion) then (st, SError)
            else server_send_flight cfg st ch true vers su sc certs
          end
        end
    | _ => (st, SError)
    end
  else
    match s_tls_cert cfg with
    | None => (st, SError)
    | Some (c, k) =>
      let kind := cert_kind c in
      if negb ((kind =? KIND_RSA) || (kind =? KIND_ECDSA)) then (st, SError)   (* unsupported signing / decryption key type *)
      else
        let setCS := setCipherSuiteTLS (ch_elliptic_ok ch) (kind =? KIND_ECDSA) (kind =? KIND_RSA) (kind =? KIND_RSA) in
        let configured := tls_suite_ids cfg in
        match server_try_resume cfg st ch false vers setCS configured with
        | Some r => r
        | None =>
          let pick := if s_prefer_server cfg
                      then first_some (fun id => setCS id (ch_suites ch) vers) configured
                      else first_some (fun id => setCS id configured vers) (ch_suites ch) in
          match pick with
          | None => (st, SError)
          | Some su =>
            if mem TLS_FALLBACK_SCSV (ch_suites ch) && (ch_vers ch <? maxVersion) then (st, SError)
            else server_send_flight cfg st ch false vers su (c, k) [c]
          end
        end
    end.

(* Handshake(): which handshake runs, and with which internal version, for a ClientHello version *)
Inductive vgate := VReject | VGM (vers : N) | VTLS (vers : N).

Definition version_gate (mode : smode) (chvers : N) : vgate :=
  match mode with
  | GMOnly =>                      (* serverHandshakeGM: readClientHello *)
      match mutualVersion true chvers with Some v => VGM v | None => VReject end
  | TLSOnly =>                     (* serverHandshake: readClientHello *)
      match mutualVersion false chvers with Some v => VTLS v | None => VReject end
  | AutoSwitch =>                  (* serverHandshakeAutoSwitch: switch clientHello.vers *)
      if chvers =? VersionGMSSL then
        match mutualVersion true chvers with Some v => VGM v | None => VReject end
      else if (chvers =? VersionSSL30) || (chvers =? VersionTLS10) || (chvers =? VersionTLS11) || (chvers =? VersionTLS12) then
        match mutualVersion true chvers with Some v => VTLS v | None => VReject end
      else VReject
  end.

(* finished: readFinished's comparison, then (full handshake) sendSessionTicket + sendFinished *)
Definition server_finish (cfg : sconfig) (st : sstate) (m : hmsg) (vd : term) : sstate * sres :=
  if term_eqb vd (finished_sum (ss_fp st) (ss_master st) L_client_finished (ss_tr st)) then
    let st := ss_add_tr st m in
    if ss_resumed st then (st, SComplete)
    else
      let st := if ss_ticket st
                then ss_send st (MNewSessionTicket
                                   (encryptTicket (s_ticket_key cfg)
                                      (session_state (ss_vers st) (ss_suite st) (ss_master st) (ss_peer st))))
                else st in
      let st := ss_send_ccs st in
      let st := ss_send st (MFinished (finished_sum (ss_fp st) (ss_master st) L_server_finished (ss_tr st))) in
      (st, SComplete)
  else (st, SError).

(* keyAgreement.processClientKeyExchange: the pre-master secret, or None for an error return *)
Definition server_ckx_pms (cfg : sconfig) (st : sstate) (len_ok : bool) (ct : term) : option term :=
  match ss_kx st with
  | KxECC =>
      if len_ok then
        match decrypt (match s_gm_certs cfg with _ :: (_, k) :: _ => k | _ => 0 end) ct with
        | Some p => if is_48_bytes p then Some p else None
        | None => None
        end
      else None
  | KxRSA =>
      if len_ok || (ss_vers st =? VersionSSL30) then
        match decrypt (match s_tls_cert cfg with Some (_, k) => k | None => 0 end) ct with
        | Some p => if is_48_bytes p then Some p else Some (TPMS (s_fresh cfg))
        | None => Some (TPMS (s_fresh cfg))     (* decryption failure: random pre-master secret *)
        end
      else None
  | KxECDHE_RSA | KxECDHE_ECDSA =>
      if len_ok then decrypt (s_eph cfg) ct else None
  | KxECDHE_GM => None
  end.

Definition server_handshake_step (cfg : sconfig) (st : sstate) (m : hmsg) : sstate * sres :=
  match ss_phase st, m with
  | SP_Hello, MClientHello ch =>
      match version_gate (s_mode cfg) (ch_vers ch) with
      | VReject => (st, SError)
      | VGM v => server_process_hello cfg st ch true v
      | VTLS v => server_process_hello cfg st ch false v
      end
  | SP_ClientCert, MCertificate certs =>
      let st := ss_add_tr st m in
      if Nat.eqb (length certs) 0 && ((s_auth cfg =? 2) || (s_auth cfg =? 4)) then (st, SError)
      else
        match processCertsFromClient cfg certs with
        | None => (st, SError)
        | Some peer =>
          (mkSS SP_CKX (ss_warn st) (ss_vers st) (ss_fp st) (ss_gm st) (ss_kx st) (ss_suite st) (ss_ticket st) (ss_npn st) (ss_cr st) peer
                (ss_resumed st) (ss_master st) (ss_tr st) (ss_out st), SContinue)
        end
  | SP_CKX, MClientKeyExchange len_ok ct =>
      let st := ss_add_tr st m in
      let pms := server_ckx_pms cfg st len_ok ct in
      match pms with
      | None => (st, SError)
      | Some pms =>
        match masterFromPreMasterSecret (ss_vers st) pms (ss_cr st) (TRand (s_rand cfg)) with
        | Ok master =>
          (mkSS (if Nat.eqb (length (ss_peer st)) 0 then SP_CCS else SP_CertVerify)
                (ss_warn st) (ss_vers st) (ss_fp st) (ss_gm st) (ss_kx st) (ss_suite st) (ss_ticket st) (ss_npn st) (ss_cr st) (ss_peer st)
                (ss_resumed st) master (ss_tr st) (ss_out st), SContinue)
        | Err _ => (st, SError) | Panic => (st, SPanic) | Hang => (st, SHang)
        end
      end
  | SP_CertVerify, MCertificateVerify alg_ok sig =>
      let c0 := nth_cert 0 (ss_peer st) in
      (* pickSignatureAlgorithm: below TLS 1.2 fixed by the key type *)
      if negb ((ss_vers st <? VersionTLS12) || alg_ok) then (st, SError)
      (* hashForClientCertificate: SSL 3.0 supports RSA only (the GM finishedHash always has version GMSSL) *)
      else if negb (ss_gm st) && (ss_vers st =? VersionSSL30) && negb (cert_kind c0 =? KIND_RSA) then (st, SError)
      else if verify (cert_pub c0) sig (THash (tlist (ss_tr st))) then (ss_set_phase (ss_add_tr st m) SP_CCS, SContinue)
      else (st, SError)
  | SP_NextProto, MNextProtocol => (ss_set_phase (ss_add_tr st m) SP_Finished, SContinue)
  | SP_Finished, MFinished vd => server_finish cfg st m vd
  | _, _ => (st, SError)
  end.

Definition server_step (cfg : sconfig) (st : sstate) (i : input) : sstate * sres :=
  match read_record (match ss_phase st with SP_CCS => true | _ => false end) (ss_warn st) i with
  | RLError => (st, SError)
  | RLAgain w => (ss_set_warn st w, SContinue)
  | RLCCS => (ss_set_warn (ss_set_phase st (if ss_npn st then SP_NextProto else SP_Finished)) 0, SContinue)
  | RLHandshake m => server_handshake_step cfg (ss_set_warn st 0) m
  end.

(* ====================================================================================== *)
(* Runs                                                                                     *)
(* ====================================================================================== *)
(* the result of Handshake() on a finite delivered sequence *)
Inductive result (St : Type) :=
| RWaiting (st : St)     (* the sequence is used up and the endpoint is blocked reading: the peer has not ended its stream *)
| RComplete (st : St)
| RError
| RPanic
| RHang.                 (* the stream has ended and the endpoint still waits *)
Arguments RWaiting {St} st.
Arguments RComplete {St} st.
Arguments RError {St}.
Arguments RPanic {St}.
Arguments RHang {St}.

Definition is_eof (i : input) : bool := match i with IEOF => true | _ => false end.

Section Run.
  Context {St : Type} (step : St -> input -> St * sres).
  Fixpoint run (st : St) (ins : list input) : result St :=
    match ins with
    | [] => RWaiting st
    | i :: rest =>
        match step st i with
        | (st', SContinue) => if is_eof i then RHang else run st' rest
        | (st', SComplete) => RComplete st'
        | (_, SError) => RError
        | (_, SPanic) => RPanic
        | (_, SHang) => RHang
        end
    end.
End Run.

Definition client_run (cfg : cconfig) (ins : list input) : result cstate := run (client_step cfg) (client_init cfg) ins.
Definition server_run (cfg : sconfig) (ins : list input) : result sstate := run (server_step cfg) server_init ins.

(* ---- two models against each other over a faithful channel (honest control runs) ---- *)
Definition to_input (o : output) : input := match o with OHs m => IHs m | OCCS => ICCS true end.

Inductive pstat := PRunning | PDone | PFailed | PCrashed.

Definition cs_clear_out (st : cstate) : cstate :=
  mkCS (cs_phase st) (cs_warn st) (cs_vers st) (cs_fp st) (cs_sh st) (cs_kx st) (cs_certs st) (cs_skx st)
       (cs_cert_req st) (cs_resumed st) (cs_master st) (cs_tr st) [].
Definition ss_clear_out (st : sstate) : sstate :=
  mkSS (ss_phase st) (ss_warn st) (ss_vers st) (ss_fp st) (ss_gm st) (ss_kx st) (ss_suite st) (ss_ticket st) (ss_npn st) (ss_cr st) (ss_peer st)
       (ss_resumed st) (ss_master st) (ss_tr st) [].

Section Feed.
  Context {St : Type} (step : St -> input -> St * sres).
  (* deliver the messages in order; stop at the first non-Continue result *)
  Fixpoint feed (st : St) (stat : pstat) (ins : list input) : St * pstat :=
    match ins with
    | [] => (st, stat)
    | i :: rest =>
        match stat with
        | PRunning =>
            match step st i with
            | (st', SContinue) => feed st' PRunning rest
            | (st', SComplete) => (st', PDone)
            | (st', SError) => (st', PFailed)
            | (st', _) => (st', PCrashed)
            end
        | _ => (st, stat)
        end
    end.
End Feed.

(* fuel rounds of: client's pending output -> server, server's pending output -> client.
   An endpoint that has failed closes the connection: the other one, if still running, gets EOF. *)
Fixpoint pair_loop (fuel : nat) (ccfg : cconfig) (scfg : sconfig) (c : cstate) (cstat : pstat) (s : sstate) (sstat : pstat)
  : (cstate * pstat) * (sstate * pstat) :=
  match fuel with
  | O => ((c, cstat), (s, sstat))
  | S fuel' =>
      let to_s := map to_input (cs_out c) ++ (match cstat with PFailed | PCrashed => [IEOF] | _ => [] end) in
      let '(s1, sstat1) := feed (server_step scfg) s sstat to_s in
      let c1 := cs_clear_out c in
      let to_c := map to_input (ss_out s1) ++ (match sstat1 with PFailed | PCrashed => [IEOF] | _ => [] end) in
      let '(c2, cstat2) := feed (client_step ccfg) c1 cstat to_c in
      let s2 := ss_clear_out s1 in
      match cstat2, sstat1 with
      | PRunning, _ | _, PRunning => pair_loop fuel' ccfg scfg c2 cstat2 s2 sstat1
      | _, _ => ((c2, cstat2), (s2, sstat1))
      end
  end.

Definition pair_run (ccfg : cconfig) (scfg : sconfig) : (cstate * pstat) * (sstate * pstat) :=
  pair_loop 8 ccfg scfg (client_init ccfg) PRunning server_init PRunning.

(* ---- the same with a man in the middle: [tc] rewrites what the client sends, [ts] what the server sends
   (one input -> the inputs delivered instead: [] drops it) ---- *)
Fixpoint pair_loop_t (fuel : nat) (tc ts : input -> list input) (ccfg : cconfig) (scfg : sconfig)
         (c : cstate) (cstat : pstat) (s : sstate) (sstat : pstat)
  : (cstate * pstat) * (sstate * pstat) :=
  match fuel with
  | O => ((c, cstat), (s, sstat))
  | S fuel' =>
      let to_s := flat_map tc (map to_input (cs_out c)) ++ (match cstat with PFailed | PCrashed => [IEOF] | _ => [] end) in
      let '(s1, sstat1) := feed (server_step scfg) s sstat to_s in
      let c1 := cs_clear_out c in
      let to_c := flat_map ts (map to_input (ss_out s1)) ++ (match sstat1 with PFailed | PCrashed => [IEOF] | _ => [] end) in
      let '(c2, cstat2) := feed (client_step ccfg) c1 cstat to_c in
      let s2 := ss_clear_out s1 in
      match cstat2, sstat1 with
      | PRunning, _ | _, PRunning => pair_loop_t fuel' tc ts ccfg scfg c2 cstat2 s2 sstat1
      | _, _ => ((c2, cstat2), (s2, sstat1))
      end
  end.

Definition pair_run_t (tc ts : input -> list input) (ccfg : cconfig) (scfg : sconfig)
  : (cstate * pstat) * (sstate * pstat) :=
  pair_loop_t 8 tc ts ccfg scfg (client_init ccfg) PRunning server_init PRunning.

(* ====================================================================================== *)
(* Records: several handshake messages per record, ChangeCipherSpec as a record of its own  *)
(* ====================================================================================== *)
(* conn.go: readRecord appends the payload of a handshake record to c.hand; readHandshake takes one message at a
   time out of c.hand and only reads a record when c.hand is empty; readRecord(recordTypeChangeCipherSpec) - called by
   readFinished - reads the NEXT RECORD whatever c.hand holds, rejects a handshake record (typ != want) and rejects a
   ChangeCipherSpec while c.hand still holds data ("handshake messages are not allowed to fragment across the CCS"). *)
Inductive hitem :=
| HMsg (m : hmsg)            (* a message the type's unmarshal accepts *)
| HMalformed (ty : N)
| HUnknown
| HTooLong.

Definition hitem_input (h : hitem) : input :=
  match h with HMsg m => IHs m | HMalformed ty => IHsMalformed ty | HUnknown => IHsUnknown | HTooLong => IHsTooLong end.

Inductive record :=
| RHs (items : list hitem)   (* one handshake record carrying these messages, in order *)
| RCCS (body_ok : bool)
| RAlert (level desc : N)
| RAlertBad
| RAppData
| RBad
| REOF.

(* the records that are neither handshake nor ChangeCipherSpec, as inputs *)
Definition other_input (r : record) : input :=
  match r with
  | RAlert l d => IAlert l d
  | RAlertBad => IAlertBad
  | RAppData => IAppData
  | RBad => IBadRecord
  | _ => IEOF
  end.

Definition flatten_record (r : record) : list input :=
  match r with
  | RHs items => map hitem_input items
  | RCCS ok => [ICCS ok]
  | _ => [other_input r]
  end.
Definition flatten (recs : list record) : list input := flat_map flatten_record recs.

Section Records.
  Context {St : Type} (step : St -> input -> St * sres) (wants_ccs : St -> bool).

  (* readHandshake over the messages of the record just read.  Result: state, outcome, and whether messages of the
     record are left in c.hand because the endpoint now waits for a ChangeCipherSpec *)
  Fixpoint feed_items (st : St) (items : list hitem) : St * sres * bool :=
    match items with
    | [] => (st, SContinue, false)
    | h :: rest =>
        if wants_ccs st then (st, SContinue, true)
        else match step st (hitem_input h) with
             | (st', SContinue) => feed_items st' rest
             | (st', r) => (st', r, false)
             end
    end.

  (* one record; leftover: c.hand holds unconsumed handshake data *)
  Definition rstep (st : St) (leftover : bool) (r : record) : St * sres * bool :=
    match r with
    | RHs items =>
        if wants_ccs st then (st, SError, leftover)        (* handshake record while a ChangeCipherSpec is expected *)
        else feed_items st items
    | RCCS ok =>
        if leftover then (st, SError, leftover)            (* handshake data must not span the ChangeCipherSpec *)
        else let '(st', res) := step st (ICCS ok) in (st', res, false)
    | _ =>
        let '(st', res) := step st (other_input r) in
        (st', match res with SContinue => if is_eof (other_input r) then SHang else SContinue | _ => res end, leftover)
    end.

  (* Handshake() on a finite sequence of records *)
  Fixpoint rrun (st : St) (leftover : bool) (recs : list record) : result St :=
    match recs with
    | [] => RWaiting st
    | r :: rest =>
        match rstep st leftover r with
        | (st', SContinue, lo) => rrun st' lo rest
        | (st', SComplete, _) => RComplete st'
        | (_, SError, _) => RError
        | (_, SPanic, _) => RPanic
        | (_, SHang, _) => RHang
        end
    end.

  (* the same, incrementally (for two endpoints talking to each other) *)
  Fixpoint rfeed (st : St) (leftover : bool) (stat : pstat) (recs : list record) : St * bool * pstat :=
    match recs with
    | [] => (st, leftover, stat)
    | r :: rest =>
        match stat with
        | PRunning =>
            match rstep st leftover r with
            | (st', SContinue, lo) => rfeed st' lo PRunning rest
            | (st', SComplete, lo) => (st', lo, PDone)
            | (st', SError, lo) => (st', lo, PFailed)
            | (st', _, lo) => (st', lo, PCrashed)
            end
        | _ => (st, leftover, stat)
        end
    end.
End Records.

Definition client_wants_ccs (st : cstate) : bool := match cs_phase st with CP_CCS => true | _ => false end.
Definition server_wants_ccs (st : sstate) : bool := match ss_phase st with SP_CCS => true | _ => false end.

Definition client_rrun (cfg : cconfig) (recs : list record) : result cstate :=
  rrun (client_step cfg) client_wants_ccs (client_init cfg) false recs.
Definition server_rrun (cfg : sconfig) (recs : list record) : result sstate :=
  rrun (server_step cfg) server_wants_ccs server_init false recs.

(* ====================================================================================== *)
(* Server-name matching (x509.Certificate.VerifyHostname / matchHostnames), for DNS names  *)
(* ====================================================================================== *)
(* Names are byte strings.  Lower-case ASCII, drop one trailing dot, split at dots; the names match when they have
   the same number of labels, every label but the first is equal, and the first label of the pattern is equal or
   is the single character '*'.  A wildcard stands for exactly one label. *)
Definition lower_ascii (c : N) : N := if (65 <=? c) && (c <=? 90) then c + 32 else c.

Fixpoint split_dots (s : list N) (cur : list N) : list (list N) :=
  match s with
  | [] => [rev cur]
  | c :: r => if c =? 46 then rev cur :: split_dots r [] else split_dots r (c :: cur)
  end.

Definition trim_dot (s : list N) : list N :=
  match rev s with
  | c :: r => if c =? 46 then rev r else s
  | [] => s
  end.

Fixpoint bytes_eqb (a b : list N) : bool :=
  match a, b with
  | [], [] => true
  | x :: a', y :: b' => (x =? y) && bytes_eqb a' b'
  | _, _ => false
  end.

Fixpoint labels_eqb (a b : list (list N)) : bool :=
  match a, b with
  | [], [] => true
  | x :: a', y :: b' => bytes_eqb x y && labels_eqb a' b'
  | _, _ => false
  end.

Definition match_hostnames (pattern host : list N) : bool :=
  let p := trim_dot (map lower_ascii pattern) in
  let h := trim_dot (map lower_ascii host) in
  match p, h with
  | [], _ | _, [] => false
  | _, _ =>
      match split_dots p [], split_dots h [] with
      | p0 :: pr, h0 :: hr => (bytes_eqb p0 [42] || bytes_eqb p0 h0) && labels_eqb pr hr
      | _, _ => false
      end
  end.
