(* Proofs about the byte-level handshake message parsers of HS/HSMsgParsers.v:
   totality (no Panic / Hang on any byte string) of every parser, and the exact acceptance condition of
   clientHelloMsg.unmarshal's extension block. *)
From Coq Require Import List NArith Arith Bool Lia ZifyN ZifyNat ZifyBool.
From GmsmVerif Require Import Lib.Outcome HS.HSParsers HS.HSParserProofs HS.HSMsgParsers.
Import ListNotations.

Lemma slice_ok : forall (b : list N) i j, i <= j -> j <= length b -> slice b i j = Ok (firstn (j - i) (skipn i b)).
Proof.
  intros b i j H1 H2. unfold slice.
  destruct (Nat.leb_spec i j); [|lia]. destruct (Nat.leb_spec j (length b)); [|lia]. reflexivity.
Qed.

Lemma slice_length : forall (b : list N) i j, i <= j -> j <= length b -> length (firstn (j - i) (skipn i b)) = j - i.
Proof. intros. rewrite firstn_length, skipn_length. lia. Qed.

Ltac ba := rewrite byte_at_lt by (first [lia | rewrite ?skipn_length, ?firstn_length in *; lia]); cbn [obind].
Ltac sf := rewrite slice_from_le by (first [lia | rewrite ?skipn_length, ?firstn_length in *; lia]); cbn [obind].
Ltac st := rewrite slice_to_le by (first [lia | rewrite ?skipn_length, ?firstn_length in *; lia]); cbn [obind].
Ltac sl := rewrite slice_ok by (first [lia | rewrite ?skipn_length, ?firstn_length in *; lia]); cbn [obind].

Lemma read_u16s_total : forall n d, 2 * n <= length d -> exists l, read_u16s n d = Ok l.
Proof.
  induction n as [|n IH]; intros d H; [eexists; reflexivity|].
  cbn [read_u16s]. ba. ba. sf.
  destruct (IH (skipn 2 d)) as [l Hl]; [rewrite skipn_length; lia|]. rewrite Hl. cbn [obind]. eexists. reflexivity.
Qed.

Lemma ch_suites_loop_total : forall n i data, 2 + 2 * (i + n) <= length data -> exists r, ch_suites_loop n i data = Ok r.
Proof.
  induction n as [|n IH]; intros i data H; [eexists; reflexivity|].
  cbn [ch_suites_loop]. ba. ba.
  destruct (IH (S i) data) as [[r b] Hr]; [lia|]. rewrite Hr. cbn [obind]. eexists. reflexivity.
Qed.

Lemma ch_sni_loop_total : forall fuel d name, length d < fuel -> no_crash (ch_sni_loop fuel d name).
Proof.
  induction fuel as [|fuel IH]; intros d name H; [lia|].
  destruct d as [|x d']; [exact I|]. cbn [ch_sni_loop]. remember (x :: d') as d eqn:Ed.
  destruct (Nat.ltb_spec (length d) 3); [exact I|]. ba. ba. ba. sf.
  destruct (Nat.ltb_spec (length (skipn 3 d)) (u16n (nth 1 d 0%N) (nth 2 d 0%N))) as [H3|H3]; [exact I|].
  destruct (N.eqb _ 0).
  - st. exact I.
  - sf. apply IH. rewrite !skipn_length. rewrite skipn_length in H3. lia.
Qed.

Lemma alpn_loop_total : forall fuel d acc, length d < fuel -> no_crash (alpn_loop fuel d acc).
Proof.
  induction fuel as [|fuel IH]; intros d acc H; [lia|].
  destruct d as [|x d']; [exact I|]. cbn [alpn_loop]. remember (x :: d') as d eqn:Ed.
  assert (Hl : 1 <= length d) by (subst d; cbn; lia).
  ba. sf.
  destruct (Nat.eqb (N.to_nat (nth 0 d 0%N)) 0 || Nat.ltb (length (skipn 1 d)) (N.to_nat (nth 0 d 0%N))) eqn:E; [exact I|].
  apply orb_false_iff in E. destruct E as [E1 E2]. apply Nat.ltb_ge in E2. st. sf.
  apply IH. rewrite !skipn_length. rewrite skipn_length in E2. lia.
Qed.

Lemma sct_loop_total : forall fuel d acc, length d < fuel -> no_crash (sct_loop fuel d acc).
Proof.
  induction fuel as [|fuel IH]; intros d acc H; [lia|].
  destruct d as [|x d']; [exact I|]. cbn [sct_loop]. remember (x :: d') as d eqn:Ed.
  destruct (Nat.ltb_spec (length d) 2); [exact I|]. ba. ba. sf.
  destruct (Nat.eqb (u16n (nth 0 d 0%N) (nth 1 d 0%N)) 0 || Nat.ltb (length (skipn 2 d)) (u16n (nth 0 d 0%N) (nth 1 d 0%N))) eqn:E; [exact I|].
  apply orb_false_iff in E. destruct E as [E1 E2]. apply Nat.ltb_ge in E2. st. sf.
  apply IH. rewrite !skipn_length. rewrite skipn_length in E2. lia.
Qed.

Ltac ok_or_step :=
  match goal with
  | |- no_crash (Err _) => exact I
  | |- no_crash (Ok _) => exact I
  | |- True => exact I
  end.

Lemma no_crash_bind : forall {A B} (o : outcome A) (f : A -> outcome B),
  no_crash o -> (forall a, o = Ok a -> no_crash (f a)) -> no_crash (obind o f).
Proof. intros A B o f Ho Hf. destruct o; cbn; try exact Ho; try exact I. apply Hf. reflexivity. Qed.

Lemma ch_extension_total : forall m ext len data, len <= length data -> no_crash (ch_extension m ext len data).
Proof.
  intros m ext len data Hl. unfold ch_extension.
  repeat match goal with |- no_crash (if N.eqb ext ?c then _ else _) => destruct (N.eqb ext c) end.
  - (* server_name *)
    st. rewrite firstn_length, Nat.min_l by lia.
    destruct (Nat.ltb_spec len 2); [exact I|].
    ba. ba. sf.
    destruct (Nat.eqb _ _); cbn [negb]; [|exact I].
    apply no_crash_bind; [apply ch_sni_loop_total; lia|intros; exact I].
  - destruct (Nat.ltb 0 len); exact I.
  - destruct (Nat.ltb_spec 0 len); [|exact I]. ba. exact I.
  - (* supported_curves *)
    destruct (Nat.ltb_spec len 2); [exact I|]. ba. ba.
    match goal with |- context [if ?c then _ else _] => destruct c eqn:E end; [exact I|].
    apply orb_false_iff in E. destruct E as [E1 E2]. apply negb_false_iff in E2. apply Nat.eqb_eq in E2.
    sf. set (l := u16n (nth 0 data 0%N) (nth 1 data 0%N)) in *.
    destruct (read_u16s_total (l / 2) (skipn 2 data)) as [cs Hcs].
    { rewrite skipn_length. pose proof (Nat.div_mod l 2). apply Nat.eqb_neq in E1.
      assert (l mod 2 < 2) by (apply Nat.mod_upper_bound; lia). lia. }
    rewrite Hcs. exact I.
  - (* point formats *)
    destruct (Nat.ltb_spec len 1); [exact I|]. ba.
    destruct (Nat.eqb _ _); cbn [negb]; [|exact I]. sf. exact I.
  - st. exact I.
  - (* signature_algorithms *)
    match goal with |- context [if ?c then _ else _] => destruct c eqn:E end; [exact I|].
    apply orb_false_iff in E. destruct E as [E1 E2]. apply Nat.ltb_ge in E1.
    ba. ba.
    destruct (Nat.eqb _ (len - 2)) eqn:E3; cbn [negb]; [|exact I]. apply Nat.eqb_eq in E3.
    sf. set (l := u16n (nth 0 data 0%N) (nth 1 data 0%N)) in *.
    destruct (read_u16s_total (l / 2) (skipn 2 data)) as [cs Hcs].
    { rewrite skipn_length. pose proof (Nat.div_mod l 2). assert (l mod 2 < 2) by (apply Nat.mod_upper_bound; lia). lia. }
    rewrite Hcs. exact I.
  - (* renegotiation_info *)
    destruct (Nat.eqb_spec len 0); [exact I|]. st.
    rewrite byte_at_lt by (rewrite firstn_length; lia). cbn [obind].
    rewrite slice_from_le by (rewrite firstn_length; lia). cbn [obind].
    destruct (Nat.eqb _ _); exact I.
  - (* ALPN *)
    destruct (Nat.ltb_spec len 2); [exact I|]. ba. ba.
    destruct (Nat.eqb _ _); cbn [negb]; [|exact I]. sl.
    apply no_crash_bind; [apply alpn_loop_total; lia|intros; exact I].
  - destruct (Nat.eqb len 0); exact I.
  - exact I.
Qed.

Lemma ch_ext_loop_total : forall fuel data m, length data < fuel -> no_crash (ch_ext_loop fuel data m).
Proof.
  induction fuel as [|fuel IH]; intros data m H; [lia|].
  destruct data as [|x d']; [exact I|]. cbn [ch_ext_loop]. remember (x :: d') as data eqn:Ed.
  destruct (Nat.ltb_spec (length data) 4); [exact I|]. ba. ba. ba. ba. sf.
  set (len := u16n (nth 2 data 0%N) (nth 3 data 0%N)).
  destruct (Nat.ltb_spec (length (skipn 4 data)) len) as [H3|H3]; [exact I|].
  apply no_crash_bind; [apply ch_extension_total; exact H3|]. intros m' _.
  sf. apply IH. rewrite !skipn_length. lia.
Qed.

Theorem clientHello_unmarshal_total : forall data, no_crash (clientHello_unmarshal data).
Proof.
  intros data. unfold clientHello_unmarshal.
  destruct (Nat.ltb_spec (length data) 42); [exact I|]. ba. ba. sl. ba.
  set (sidl := N.to_nat (nth 38 data 0%N)).
  match goal with |- context [if ?c then _ else _] => destruct c eqn:E end; [exact I|].
  apply orb_false_iff in E. destruct E as [E1 E2]. apply Nat.ltb_ge in E1. apply Nat.ltb_ge in E2.
  sl. sf. set (d1 := skipn (39 + sidl) data). assert (Hd1 : length d1 = length data - (39 + sidl)) by apply skipn_length.
  destruct (Nat.ltb_spec (length d1) 2); [exact I|].
  rewrite (byte_at_lt d1 0) by lia. rewrite (byte_at_lt d1 1) by lia. cbn [obind].
  set (csl := u16n (nth 0 d1 0%N) (nth 1 d1 0%N)).
  match goal with |- context [if ?c then _ else _] => destruct c eqn:E end; [exact I|].
  apply orb_false_iff in E. destruct E as [E3 E4]. apply Nat.ltb_ge in E4. apply Nat.eqb_neq in E3.
  destruct (ch_suites_loop_total (csl / 2) 0 d1) as [[suites reneg] Hs].
  { pose proof (Nat.div_mod csl 2). assert (csl mod 2 < 2) by (apply Nat.mod_upper_bound; lia). lia. }
  rewrite Hs. cbn [obind]. rewrite (slice_from_le d1) by lia. cbn [obind].
  set (d2 := skipn (2 + csl) d1). assert (Hd2 : length d2 = length d1 - (2 + csl)) by apply skipn_length.
  destruct (Nat.ltb_spec (length d2) 1); [exact I|].
  rewrite (byte_at_lt d2 0) by lia. cbn [obind].
  set (cml := N.to_nat (nth 0 d2 0%N)).
  destruct (Nat.ltb_spec (length d2) (1 + cml)); [exact I|].
  rewrite (slice_ok d2) by lia. cbn [obind]. rewrite (slice_from_le d2) by lia. cbn [obind].
  set (d3 := skipn (1 + cml) d2).
  destruct d3 as [|y d3'] eqn:Ed3; [exact I|]. rewrite <- Ed3.
  assert (Hd3 : 1 <= length d3) by (rewrite Ed3; cbn; lia).
  destruct (Nat.ltb_spec (length d3) 2); [exact I|].
  rewrite (byte_at_lt d3 0) by lia. rewrite (byte_at_lt d3 1) by lia. cbn [obind].
  rewrite (slice_from_le d3) by lia. cbn [obind].
  destruct (Nat.eqb _ _); cbn [negb]; [|exact I].
  apply ch_ext_loop_total. lia.
Qed.

Lemma sh_extension_total : forall m ext len data, len <= length data -> no_crash (sh_extension m ext len data).
Proof.
  intros m ext len data Hl. unfold sh_extension.
  repeat match goal with |- no_crash (if N.eqb ext ?c then _ else _) => destruct (N.eqb ext c) end.
  - st. apply no_crash_bind; [apply alpn_loop_total; lia|intros; exact I].
  - destruct (Nat.ltb 0 len); exact I.
  - destruct (Nat.ltb 0 len); exact I.
  - destruct (Nat.eqb_spec len 0); [exact I|]. st.
    rewrite byte_at_lt by (rewrite firstn_length; lia). cbn [obind].
    rewrite slice_from_le by (rewrite firstn_length; lia). cbn [obind].
    destruct (Nat.eqb _ _); exact I.
  - (* ALPN *)
    st. set (d := firstn len data). assert (Hd : length d = len) by (unfold d; rewrite firstn_length; lia).
    destruct (Nat.ltb_spec (length d) 3); [exact I|].
    rewrite (byte_at_lt d 0) by lia. rewrite (byte_at_lt d 1) by lia. cbn [obind].
    destruct (Nat.eqb _ _); cbn [negb]; [|exact I].
    rewrite (slice_from_le d 2) by lia. cbn [obind].
    rewrite byte_at_lt by (rewrite skipn_length; lia). cbn [obind].
    destruct (Nat.eqb _ _); cbn [negb]; [|exact I].
    rewrite slice_from_le by (rewrite skipn_length; lia). cbn [obind].
    destruct (Nat.eqb _ 0); exact I.
  - (* SCT *)
    st. set (d := firstn len data). assert (Hd : length d = len) by (unfold d; rewrite firstn_length; lia).
    destruct (Nat.ltb_spec (length d) 2); [exact I|].
    rewrite (byte_at_lt d 0) by lia. rewrite (byte_at_lt d 1) by lia. cbn [obind].
    rewrite (slice_from_le d 2) by lia. cbn [obind].
    destruct (_ || _); [exact I|].
    apply no_crash_bind; [apply sct_loop_total; lia|intros; exact I].
  - exact I.
Qed.

Lemma sh_ext_loop_total : forall fuel data m, length data < fuel -> no_crash (sh_ext_loop fuel data m).
Proof.
  induction fuel as [|fuel IH]; intros data m H; [lia|].
  destruct data as [|x d']; [exact I|]. cbn [sh_ext_loop]. remember (x :: d') as data eqn:Ed.
  destruct (Nat.ltb_spec (length data) 4); [exact I|]. ba. ba. ba. ba. sf.
  set (len := u16n (nth 2 data 0%N) (nth 3 data 0%N)).
  destruct (Nat.ltb_spec (length (skipn 4 data)) len) as [H3|H3]; [exact I|].
  apply no_crash_bind; [apply sh_extension_total; exact H3|]. intros m' _.
  sf. apply IH. rewrite !skipn_length. lia.
Qed.

Theorem serverHello_unmarshal_total : forall data, no_crash (serverHello_unmarshal data).
Proof.
  intros data. unfold serverHello_unmarshal.
  destruct (Nat.ltb_spec (length data) 42); [exact I|]. ba. ba. sl. ba.
  set (sidl := N.to_nat (nth 38 data 0%N)).
  match goal with |- context [if ?c then _ else _] => destruct c eqn:E end; [exact I|].
  apply orb_false_iff in E. destruct E as [E1 E2]. apply Nat.ltb_ge in E1. apply Nat.ltb_ge in E2.
  sl. sf. set (d1 := skipn (39 + sidl) data). assert (Hd1 : length d1 = length data - (39 + sidl)) by apply skipn_length.
  destruct (Nat.ltb_spec (length d1) 3); [exact I|].
  rewrite (byte_at_lt d1 0) by lia. rewrite (byte_at_lt d1 1) by lia. rewrite (byte_at_lt d1 2) by lia. cbn [obind].
  rewrite (slice_from_le d1) by lia. cbn [obind].
  set (d2 := skipn 3 d1).
  destruct d2 as [|y d2'] eqn:Ed2; [exact I|]. rewrite <- Ed2.
  assert (Hd2 : 1 <= length d2) by (rewrite Ed2; cbn; lia).
  destruct (Nat.ltb_spec (length d2) 2); [exact I|].
  rewrite (byte_at_lt d2 0) by lia. rewrite (byte_at_lt d2 1) by lia. cbn [obind].
  rewrite (slice_from_le d2) by lia. cbn [obind].
  destruct (Nat.eqb _ _); cbn [negb]; [|exact I].
  apply sh_ext_loop_total. lia.
Qed.

(* ---- certificateMsg ---- *)
Lemma sub32_exact : forall a b, (b <= a)%N -> (a < 4294967296)%N -> sub32 a b = (a - b)%N.
Proof.
  intros a b H1 H2. unfold sub32. rewrite (N.mod_small b) by lia.
  replace (a + 4294967296 - b)%N with ((a - b) + 1 * 4294967296)%N by lia.
  rewrite N.mod_add by lia. apply N.mod_small. lia.
Qed.

(* with certsLen = len(d) the first loop neither panics nor hangs, and the second loop can take what it counted *)
Lemma cert_loops_total : forall fuel d n0, length d < fuel -> (N.of_nat (length d) < 4294967296)%N ->
  match cert_count_loop fuel d (N.of_nat (length d)) n0 with
  | Ok n => exists k, n = n0 + k /\ no_crash (cert_take_loop k d) /\ (forall l, cert_take_loop k d = Ok l -> True)
  | Err _ => True
  | _ => False
  end.
Proof.
  induction fuel as [|fuel IH]; intros d n0 Hf Hs; [lia|].
  cbn [cert_count_loop].
  destruct (N.eqb_spec (N.of_nat (length d)) 0) as [E|E].
  - exists 0. split; [lia|]. cbn. auto.
  - destruct (Nat.ltb_spec (length d) 4); [exact I|].
    rewrite (byte_at_lt d 0) by lia. rewrite (byte_at_lt d 1) by lia. rewrite (byte_at_lt d 2) by lia. cbn [obind].
    set (cl := u24 (nth 0 d 0%N) (nth 1 d 0%N) (nth 2 d 0%N)).
    destruct (N.ltb_spec (N.of_nat (length d)) (3 + cl)) as [H3|H3]; [exact I|].
    rewrite slice_from_le by lia. cbn [obind].
    rewrite sub32_exact by lia.
    assert (El : (N.of_nat (length d) - (3 + cl))%N = N.of_nat (length (skipn (N.to_nat (3 + cl)) d))).
    { rewrite skipn_length. lia. }
    rewrite El.
    specialize (IH (skipn (N.to_nat (3 + cl)) d) (S n0)).
    destruct (cert_count_loop fuel _ _ (S n0)) as [n|e| |] eqn:Ec.
    + destruct IH as [k [Ek [Hk _]]]; [rewrite skipn_length; lia|rewrite skipn_length; lia|].
      exists (S k). split; [lia|]. split; [|auto].
      cbn [cert_take_loop]. rewrite (byte_at_lt d 0) by lia. rewrite (byte_at_lt d 1) by lia. rewrite (byte_at_lt d 2) by lia.
      cbn [obind]. fold cl.
      rewrite slice_ok by lia. cbn [obind].
      replace (3 + N.to_nat cl) with (N.to_nat (3 + cl)) by lia.
      rewrite slice_from_le by lia. cbn [obind].
      destruct (cert_take_loop k _); cbn; try exact Hk; exact I.
    + exact I.
    + apply IH; rewrite skipn_length; lia.
    + apply IH; rewrite skipn_length; lia.
Qed.

Lemma lor_lt_pow2 : forall a b n, (0 < n -> a < 2 ^ n -> b < 2 ^ n -> N.lor a b < 2 ^ n)%N.
Proof.
  intros a b n Hn Ha Hb.
  destruct (N.eq_dec (N.lor a b) 0) as [E|E]; [rewrite E; apply N.neq_0_lt_0; apply N.pow_nonzero; lia|].
  apply N.log2_lt_pow2; [lia|]. rewrite N.log2_lor. apply N.max_lub_lt.
  - destruct (N.eq_dec a 0) as [->|Ea]; [cbn; exact Hn|]. apply N.log2_lt_pow2; [lia|exact Ha].
  - destruct (N.eq_dec b 0) as [->|Eb]; [cbn; exact Hn|]. apply N.log2_lt_pow2; [lia|exact Hb].
Qed.

Definition bytes_ok (l : list N) : Prop := Forall (fun b => (b < 256)%N) l.

Lemma bytes_ok_nth : forall l i, bytes_ok l -> (nth i l 0 < 256)%N.
Proof.
  intros l i H. destruct (nth_in_or_default i l 0%N) as [Hin|Hd]; [|rewrite Hd; lia].
  unfold bytes_ok in H. rewrite Forall_forall in H. apply H. exact Hin.
Qed.

Lemma u24_bound : forall a b c, (a < 256 -> b < 256 -> c < 256 -> u24 a b c < 16777216)%N.
Proof.
  intros a b c Ha Hb Hc. unfold u24. change 16777216%N with (2 ^ 24)%N.
  apply lor_lt_pow2; [lia| |change (2 ^ 24)%N with 16777216%N; lia].
  apply lor_lt_pow2; [lia| |]; rewrite N.shiftl_mul_pow2; change (2 ^ 24)%N with 16777216%N.
  - change (2 ^ 16)%N with 65536%N. lia.
  - change (2 ^ 8)%N with 256%N. lia.
Qed.

Theorem certificate_unmarshal_total : forall data, bytes_ok data -> (N.of_nat (length data) < 4294967296)%N ->
  no_crash (certificate_unmarshal data).
Proof.
  intros data Hb Hs. unfold certificate_unmarshal.
  destruct (Nat.ltb_spec (length data) 7); [exact I|]. ba. ba. ba.
  set (cl := u24 (nth 4 data 0%N) (nth 5 data 0%N) (nth 6 data 0%N)).
  destruct (N.eqb_spec (N.of_nat (length data) mod 4294967296) ((cl + 7) mod 4294967296)) as [E|E]; cbn [negb]; [|exact I].
  sf.
  assert (Hcl : (cl < 16777216)%N).
  { unfold cl. apply u24_bound; apply bytes_ok_nth; exact Hb. }
  rewrite !N.mod_small in E by lia.
  assert (El : cl = N.of_nat (length (skipn 7 data))) by (rewrite skipn_length; lia).
  rewrite El.
  pose proof (cert_loops_total (S (length (skipn 7 data))) (skipn 7 data) 0 (Nat.lt_succ_diag_r _)) as Hc.
  destruct (cert_count_loop _ _ _ 0) as [n|e| |]; cbn [obind].
  - destruct Hc as [k [Ek [Hk _]]]; [rewrite skipn_length; lia|]. cbn in Ek. subst n. exact Hk.
  - exact I.
  - apply Hc. rewrite skipn_length. lia.
  - apply Hc. rewrite skipn_length. lia.
Qed.

Theorem serverKeyExchange_unmarshal_total : forall data, no_crash (serverKeyExchange_unmarshal data).
Proof. intros. unfold serverKeyExchange_unmarshal. destruct (Nat.ltb_spec (length data) 4); [exact I|]. sf. exact I. Qed.

Theorem finished_unmarshal_total : forall data, no_crash (finished_unmarshal data).
Proof. intros. unfold finished_unmarshal. destruct (Nat.ltb_spec (length data) 4); [exact I|]. sf. exact I. Qed.

Theorem clientKeyExchange_unmarshal_total : forall data, no_crash (clientKeyExchange_unmarshal data).
Proof.
  intros. unfold clientKeyExchange_unmarshal. destruct (Nat.ltb_spec (length data) 4); [exact I|]. ba. ba. ba.
  destruct (N.eqb _ _); cbn [negb]; [|exact I]. sf. exact I.
Qed.

Theorem certificateVerify_unmarshal_total : forall flag data, no_crash (certificateVerify_unmarshal flag data).
Proof.
  intros flag data. unfold certificateVerify_unmarshal. destruct (Nat.ltb_spec (length data) 6); [exact I|]. ba. ba. ba.
  destruct (N.eqb _ _); cbn [negb]; [|exact I]. sf.
  set (d := skipn 4 data). assert (Hd : length d = length data - 4) by apply skipn_length.
  destruct flag.
  - rewrite (byte_at_lt d 0) by lia. rewrite (byte_at_lt d 1) by lia. cbn [obind]. rewrite (slice_from_le d 2) by lia. cbn [obind].
    set (d1 := skipn 2 d). assert (Hd1 : length d1 = length d - 2) by apply skipn_length.
    destruct (Nat.ltb_spec (length d1) 2); [exact I|].
    rewrite (byte_at_lt d1 0) by lia. rewrite (byte_at_lt d1 1) by lia. cbn [obind]. rewrite (slice_from_le d1 2) by lia. cbn [obind].
    destruct (Nat.eqb _ _); exact I.
  - cbn [obind]. destruct (Nat.ltb_spec (length d) 2); [exact I|].
    rewrite (byte_at_lt d 0) by lia. rewrite (byte_at_lt d 1) by lia. cbn [obind]. rewrite (slice_from_le d 2) by lia. cbn [obind].
    destruct (Nat.eqb _ _); exact I.
Qed.

Theorem newSessionTicket_unmarshal_total : forall data, no_crash (newSessionTicket_unmarshal data).
Proof.
  intros. unfold newSessionTicket_unmarshal. destruct (Nat.ltb_spec (length data) 10); [exact I|]. ba. ba. ba.
  destruct (N.eqb _ _); cbn [negb]; [|exact I]. ba. ba.
  destruct (Nat.eqb _ _); cbn [negb]; [|exact I]. sf. exact I.
Qed.

Theorem certificateStatus_unmarshal_total : forall data, no_crash (certificateStatus_unmarshal data).
Proof.
  intros. unfold certificateStatus_unmarshal. destruct (Nat.ltb_spec (length data) 5); [exact I|]. ba.
  destruct (N.eqb _ statusTypeOCSP); [|exact I].
  destruct (Nat.ltb_spec (length data) 8); [exact I|]. ba. ba. ba.
  destruct (N.eqb _ _); cbn [negb]; [|exact I]. sf. exact I.
Qed.

Theorem nextProto_unmarshal_total : forall data, no_crash (nextProto_unmarshal data).
Proof.
  intros. unfold nextProto_unmarshal. destruct (Nat.ltb_spec (length data) 5); [exact I|]. sf.
  set (d := skipn 4 data). assert (Hd : length d = length data - 4) by apply skipn_length.
  rewrite (byte_at_lt d 0) by lia. cbn [obind]. rewrite (slice_from_le d 1) by lia. cbn [obind].
  set (d1 := skipn 1 d). assert (Hd1 : length d1 = length d - 1) by apply skipn_length.
  set (pl := N.to_nat (nth 0 d 0%N)).
  destruct (Nat.ltb_spec (length d1) pl); [exact I|].
  rewrite (slice_ok d1) by lia. cbn [obind]. rewrite (slice_from_le d1) by lia. cbn [obind].
  set (d2 := skipn pl d1). assert (Hd2 : length d2 = length d1 - pl) by apply skipn_length.
  destruct (Nat.ltb_spec (length d2) 1); [exact I|].
  rewrite (byte_at_lt d2 0) by lia. cbn [obind]. rewrite (slice_from_le d2 1) by lia. cbn [obind].
  destruct (Nat.eqb _ _); exact I.
Qed.

Theorem certificateRequest_unmarshal_total : forall flag data, no_crash (certificateRequest_unmarshal flag data).
Proof.
  intros flag data. unfold certificateRequest_unmarshal.
  destruct (Nat.ltb_spec (length data) 5) as [H5|H5]; [exact I|]. ba. ba. ba.
  destruct (N.eqb _ _); cbn [negb]; [|exact I]. ba. sf.
  set (nt := N.to_nat (nth 4 data 0%N)).
  set (d1 := skipn 5 data). assert (Hd1 : length d1 = length data - 5) by apply skipn_length.
  destruct (Nat.eqb nt 0 || Nat.leb (length d1) nt) eqn:E1; [exact I|].
  apply orb_false_iff in E1. destruct E1 as [_ E1]. apply Nat.leb_gt in E1.
  rewrite firstn_length. rewrite Nat.min_l by lia. rewrite Nat.eqb_refl. cbn [negb].
  rewrite (slice_from_le d1) by lia. cbn [obind].
  set (d2 := skipn nt d1). assert (Hd2 : length d2 = length d1 - nt) by apply skipn_length.
  assert (Htail : forall (algs : list N) d3, length d3 <= length data ->
            no_crash (if Nat.ltb (length d3) 2 then Err 1
                      else do c0 <- byte_at d3 0; do c1 <- byte_at d3 1;
                           let casLength := u16n c0 c1 in
                           do data4 <- slice_from d3 2;
                           if Nat.ltb (length data4) casLength then Err 1
                           else let cas := firstn casLength data4 in
                                do data5 <- slice_from data4 casLength;
                                do cal <- certreq_cas (length cas) cas [];
                                if Nat.eqb (length data5) 0 then Ok ((firstn nt d1, algs, cal) : list N * list N * list (list N)) else Err 1)).
  { intros algs d3 Hd3. destruct (Nat.ltb_spec (length d3) 2); [exact I|].
    rewrite (byte_at_lt d3 0) by lia. rewrite (byte_at_lt d3 1) by lia. cbn [obind]. rewrite (slice_from_le d3 2) by lia. cbn [obind].
    set (cl := u16n (nth 0 d3 0%N) (nth 1 d3 0%N)).
    destruct (Nat.ltb_spec (length (skipn 2 d3)) cl); [exact I|]. cbn zeta.
    rewrite slice_from_le by lia. cbn [obind].
    pose proof (certreq_cas_total (length (firstn cl (skipn 2 d3))) (firstn cl (skipn 2 d3)) [] (Nat.le_refl _)) as Hc.
    destruct (certreq_cas _ _ []); cbn [obind]; try exact Hc. destruct (Nat.eqb _ 0); exact I. }
  destruct flag.
  - destruct (Nat.ltb_spec (length d2) 2); [exact I|].
    rewrite (byte_at_lt d2 0) by lia. rewrite (byte_at_lt d2 1) by lia. cbn [obind]. rewrite (slice_from_le d2 2) by lia. cbn [obind].
    set (sl := u16n (nth 0 d2 0%N) (nth 1 d2 0%N)).
    destruct (Nat.eqb_spec (sl mod 2) 1); [exact I|].
    destruct (Nat.ltb_spec (length (skipn 2 d2)) sl); [exact I|].
    destruct (read_u16s_total (sl / 2) (skipn 2 d2)) as [l Hl].
    { pose proof (Nat.div_mod sl 2). assert (sl mod 2 < 2) by (apply Nat.mod_upper_bound; lia). lia. }
    rewrite Hl. cbn [obind].
    rewrite slice_from_le by (pose proof (Nat.div_mod sl 2); assert (sl mod 2 < 2) by (apply Nat.mod_upper_bound; lia); lia).
    cbn [obind]. apply Htail. rewrite !skipn_length. lia.
  - cbn [obind]. apply Htail. lia.
Qed.

Lemma accepts_bind : forall {A B} (o : outcome A) (f : A -> outcome B),
  accepts (obind o f) <-> exists a, o = Ok a /\ accepts (f a).
Proof.
  intros. unfold accepts. split.
  - intros [r H]. destruct o; cbn in H; try discriminate. eauto.
  - intros [a [-> H]]. exact H.
Qed.
Lemma accepts_ok : forall {A} (a : A), accepts (Ok a). Proof. intros. eexists; reflexivity. Qed.
Lemma not_accepts_err : forall {A} n, ~ accepts (@Err A n). Proof. intros A n [r H]; discriminate. Qed.

Lemma firstn_app_exact : forall {A} (l r : list A), firstn (length l) (l ++ r) = l.
Proof. induction l; intros; cbn; [reflexivity|f_equal; apply IHl]. Qed.
Lemma skipn_app_exact : forall {A} (l r : list A), skipn (length l) (l ++ r) = r.
Proof. induction l; intros; cbn; [reflexivity|apply IHl]. Qed.
Lemma slice_to_app : forall (l r : list N), slice_to (l ++ r) (length l) = Ok l.
Proof. intros. rewrite slice_to_le by (rewrite app_length; lia). rewrite firstn_app_exact. reflexivity. Qed.
Lemma slice_from_app : forall (l r : list N), slice_from (l ++ r) (length l) = Ok r.
Proof. intros. rewrite slice_from_le by (rewrite app_length; lia). rewrite skipn_app_exact. reflexivity. Qed.
Lemma split_at : forall {A} n (l : list A), n <= length l -> l = firstn n l ++ skipn n l /\ length (firstn n l) = n.
Proof. intros. split; [symmetry; apply firstn_skipn|rewrite firstn_length; lia]. Qed.

Lemma sni_loop_accepts : forall fuel d name, length d < fuel -> (accepts (ch_sni_loop fuel d name) <-> sni_list_ok d).
Proof.
  induction fuel as [|fuel IH]; intros d name Hf; [lia|].
  destruct d as [|t d]; [split; intros; [constructor|apply accepts_ok]|].
  destruct d as [|l0 d]; [split; intros H; [cbn in H; destruct H; discriminate|inversion H]|].
  destruct d as [|l1 d]; [split; intros H; [cbn in H; destruct H; discriminate|inversion H]|].
  cbn [ch_sni_loop]. cbn [length]. change (Nat.ltb (S (S (S (length d)))) 3) with false. cbn iota.
  cbn [length Nat.leb byte_at nth_error obind slice_from skipn].
  destruct (Nat.ltb_spec (length d) (u16n l0 l1)) as [Hl|Hl].
  - split; intros H; [destruct H; discriminate|].
    inversion H; subst; [lia|]. rewrite app_length in Hl. lia.
  - destruct (N.eqb_spec t 0).
    + subst t. rewrite slice_to_le by lia. cbn [obind]. split; intros; [constructor; lia|apply accepts_ok].
    + rewrite slice_from_le by lia. cbn [obind].
      destruct (split_at (u16n l0 l1) d Hl) as [Hd Hn].
      rewrite IH by (rewrite skipn_length; cbn in Hf; lia).
      split; intros H.
      * rewrite Hd. constructor; assumption.
      * inversion H; subst; [congruence|].
        match goal with Hx : length name0 = _ |- _ => rewrite <- Hx end. rewrite skipn_app_exact. assumption.
Qed.

Lemma alpn_loop_accepts : forall fuel d acc, length d < fuel -> (accepts (alpn_loop fuel d acc) <-> alpn_list_ok d).
Proof.
  induction fuel as [|fuel IH]; intros d acc Hf; [lia|].
  destruct d as [|l d]; [split; intros; [constructor|apply accepts_ok]|].
  cbn [alpn_loop]. cbn [length byte_at nth_error obind slice_from skipn Nat.leb].
  destruct (Nat.eqb_spec (N.to_nat l) 0) as [H0|H0]; cbn [orb].
  - split; intros H; [destruct H; discriminate|]. inversion H; subst. lia.
  - destruct (Nat.ltb_spec (length d) (N.to_nat l)) as [Hl|Hl].
    + split; intros H; [destruct H; discriminate|]. inversion H; subst. rewrite app_length in Hl. lia.
    + rewrite slice_to_le by lia. cbn [obind]. rewrite slice_from_le by lia. cbn [obind].
      destruct (split_at (N.to_nat l) d Hl) as [Hd Hn].
      rewrite IH by (rewrite skipn_length; cbn in Hf; lia).
      split; intros H.
      * rewrite Hd. constructor; assumption.
      * inversion H; subst.
        match goal with Hx : length s = _ |- _ => rewrite <- Hx end. rewrite skipn_app_exact. assumption.
Qed.

Lemma even_mod2 : forall n, Nat.even n = true <-> n mod 2 = 0.
Proof.
  intros n. rewrite Nat.even_spec. split.
  - intros [k ->]. rewrite Nat.mul_comm. apply Nat.mod_mul. lia.
  - intros H. exists (n / 2). pose proof (Nat.div_mod n 2). lia.
Qed.
Lemma mod2_cases : forall n, n mod 2 = 0 \/ n mod 2 = 1.
Proof. intros. assert (n mod 2 < 2) by (apply Nat.mod_upper_bound; lia). lia. Qed.
Lemma even_SS : forall n, (S (S n)) mod 2 = n mod 2.
Proof. intros. replace (S (S n)) with (n + 1 * 2) by lia. apply Nat.mod_add. lia. Qed.

Lemma ch_extension_accepts : forall m ext body rest,
  accepts (ch_extension m ext (length body) (body ++ rest)) <-> ext_body_ok ext body.
Proof.
  intros m ext body rest. unfold ch_extension, ext_body_ok.
  repeat match goal with |- context [if N.eqb ext ?c then _ else _] => destruct (N.eqb ext c) end.
  - (* server_name *)
    rewrite slice_to_app. cbn [obind].
    destruct body as [|b0 [|b1 lst]]; try (split; intros H; [cbn in H; destruct H; discriminate|contradiction]).
    cbn [length]. change (Nat.ltb (S (S (length lst))) 2) with false. cbn iota.
    cbn [byte_at nth_error obind slice_from length Nat.leb skipn].
    destruct (Nat.eqb_spec (length lst) (u16n b0 b1)) as [E|E]; cbn [negb].
    + rewrite accepts_bind. split.
      * intros [a [Ha _]]. split; [assumption|]. apply (sni_loop_accepts (S (length lst)) lst (f_sni m)); [lia|]. eexists; eassumption.
      * intros [_ Hs]. apply (sni_loop_accepts (S (length lst)) lst (f_sni m)) in Hs; [|lia]. destruct Hs as [a Ha]. exists a. split; [assumption|apply accepts_ok].
    + split; intros H; [destruct H; discriminate|]. destruct H. contradiction.
  - (* NPN *)
    destruct body; cbn [length]; [change (Nat.ltb 0 0) with false|change (Nat.ltb 0 (S (length body))) with true]; cbn iota.
    + split; intros; [reflexivity|apply accepts_ok].
    + split; intros H; [destruct H; discriminate|discriminate].
  - (* status_request *)
    destruct body; cbn [length]; [change (Nat.ltb 0 0) with false|change (Nat.ltb 0 (S (length body))) with true]; cbn iota.
    + split; intros; [exact I|apply accepts_ok].
    + cbn. split; intros; [exact I|apply accepts_ok].
  - (* supported_curves *)
    destruct body as [|b0 [|b1 lst]]; try (split; intros H; [cbn in H; destruct H; discriminate|contradiction]).
    cbn [length]. change (Nat.ltb (S (S (length lst))) 2) with false. cbn iota.
    cbn [app byte_at nth_error obind].
    rewrite even_mod2.
    destruct (Nat.eqb_spec (u16n b0 b1 mod 2) 1) as [E1|E1]; cbn [orb].
    { split; intros H; [destruct H; discriminate|]. destruct H as [H1 H2]. rewrite H1 in H2. lia. }
    destruct (Nat.eqb_spec (S (S (length lst))) (u16n b0 b1 + 2)) as [E2|E2]; cbn [negb].
    + cbn [slice_from length Nat.leb skipn obind].
      destruct (read_u16s_total (u16n b0 b1 / 2) (lst ++ rest)) as [cs Hcs].
      { rewrite app_length. pose proof (Nat.div_mod (u16n b0 b1) 2). lia. }
      rewrite Hcs. cbn [obind]. split; intros; [|apply accepts_ok].
      split; [lia|]. replace (length lst) with (u16n b0 b1) by lia. destruct (mod2_cases (u16n b0 b1)); lia.
    + split; intros H; [destruct H; discriminate|]. destruct H. lia.
  - (* point formats *)
    destruct body as [|b0 lst]; try (split; intros H; [cbn in H; destruct H; discriminate|contradiction]).
    cbn [length]. change (Nat.ltb (S (length lst)) 1) with false. cbn iota.
    cbn [app byte_at nth_error obind].
    destruct (Nat.eqb_spec (S (length lst)) (N.to_nat b0 + 1)) as [E|E]; cbn [negb].
    + cbn [slice_from length Nat.leb skipn obind]. split; intros; [lia|apply accepts_ok].
    + split; intros H; [destruct H; discriminate|lia].
  - (* session ticket *)
    rewrite slice_to_app. cbn [obind]. split; intros; [exact I|apply accepts_ok].
  - (* signature_algorithms *)
    destruct body as [|b0 [|b1 lst]]; try (split; intros H; [cbn in H; destruct H; discriminate|contradiction]).
    cbn [length]. change (Nat.ltb (S (S (length lst))) 2) with false. cbn [orb].
    rewrite even_mod2. rewrite even_SS.
    destruct (Nat.eqb_spec (length lst mod 2) 1) as [E1|E1].
    { split; intros H; [destruct H; discriminate|]. destruct H as [H1 H2]. lia. }
    cbn [app byte_at nth_error obind].
    replace (S (S (length lst)) - 2) with (length lst) by lia.
    destruct (Nat.eqb_spec (u16n b0 b1) (length lst)) as [E2|E2]; cbn [negb].
    + cbn [slice_from length Nat.leb skipn obind].
      destruct (read_u16s_total (u16n b0 b1 / 2) (lst ++ rest)) as [cs Hcs].
      { rewrite app_length. pose proof (Nat.div_mod (u16n b0 b1) 2). lia. }
      rewrite Hcs. cbn [obind]. split; intros; [|apply accepts_ok].
      split; [lia|]. destruct (mod2_cases (length lst)); lia.
    + split; intros H; [destruct H; discriminate|]. destruct H. lia.
  - (* renegotiation_info *)
    destruct body as [|b0 lst]; try (split; intros H; [cbn in H; destruct H; discriminate|contradiction]).
    change (Nat.eqb (length (b0 :: lst)) 0) with false. cbn iota.
    rewrite slice_to_app. cbn [obind byte_at nth_error slice_from length Nat.leb skipn].
    destruct (Nat.eqb_spec (N.to_nat b0) (length lst)) as [E|E]; cbn [negb].
    + split; intros; [lia|apply accepts_ok].
    + split; intros H; [destruct H; discriminate|lia].
  - (* ALPN *)
    destruct body as [|b0 [|b1 lst]]; try (split; intros H; [cbn in H; destruct H; discriminate|contradiction]).
    cbn [length]. change (Nat.ltb (S (S (length lst))) 2) with false. cbn iota.
    cbn [app byte_at nth_error obind].
    replace (S (S (length lst)) - 2) with (length lst) by lia.
    destruct (Nat.eqb_spec (u16n b0 b1) (length lst)) as [E|E]; cbn [negb].
    + rewrite slice_ok by (cbn [length]; rewrite ?app_length; lia).
      replace (S (S (length lst)) - 2) with (length lst) by lia. cbn [skipn]. rewrite firstn_app_exact. cbn [obind].
      rewrite accepts_bind. split.
      * intros [a [Ha _]]. split; [lia|]. apply (alpn_loop_accepts (S (length lst)) lst (f_alpn m)); [lia|]. eexists; eassumption.
      * intros [_ Hs]. apply (alpn_loop_accepts (S (length lst)) lst (f_alpn m)) in Hs; [|lia]. destruct Hs as [a Ha]. exists a. split; [assumption|apply accepts_ok].
    + split; intros H; [destruct H; discriminate|]. destruct H. lia.
  - (* SCT *)
    destruct body; cbn [length]; [change (Nat.eqb 0 0) with true|change (Nat.eqb (S (length body)) 0) with false]; cbn [negb].
    + split; intros; [reflexivity|apply accepts_ok].
    + split; intros H; [destruct H; discriminate|discriminate].
  - split; intros; [exact I|apply accepts_ok].
Qed.

Theorem ch_ext_loop_accepts : forall fuel data m, length data < fuel ->
  (accepts (ch_ext_loop fuel data m) <-> ext_block_ok data).
Proof.
  induction fuel as [|fuel IH]; intros data m Hf; [lia|].
  destruct data as [|e0 data]; [split; intros; [constructor|apply accepts_ok]|].
  destruct data as [|e1 data]; [split; intros H; [cbn in H; destruct H; discriminate|inversion H]|].
  destruct data as [|l0 data]; [split; intros H; [cbn in H; destruct H; discriminate|inversion H]|].
  destruct data as [|l1 data]; [split; intros H; [cbn in H; destruct H; discriminate|inversion H]|].
  cbn [ch_ext_loop]. cbn [length]. change (Nat.ltb (S (S (S (S (length data))))) 4) with false. cbn iota.
  cbn [byte_at nth_error obind slice_from length Nat.leb skipn].
  destruct (Nat.ltb_spec (length data) (u16n l0 l1)) as [Hl|Hl].
  - split; intros H; [destruct H; discriminate|]. inversion H; subst. rewrite app_length in Hl. lia.
  - destruct (split_at (u16n l0 l1) data Hl) as [Hd Hn].
    set (body := firstn (u16n l0 l1) data) in *. set (rest := skipn (u16n l0 l1) data) in *.
    rewrite accepts_bind.
    assert (Hce : forall mm, ch_extension mm (u16 e0 e1) (u16n l0 l1) data = ch_extension mm (u16 e0 e1) (length body) (body ++ rest)).
    { intros. rewrite Hn, <- Hd. reflexivity. }
    split.
    + intros [m' [Hm' Hrest]]. rewrite Hd. constructor; [assumption| |].
      * apply (ch_extension_accepts m (u16 e0 e1) body rest). rewrite <- Hce. eexists; eassumption.
      * rewrite slice_from_le in Hrest by lia. cbn [obind] in Hrest. fold rest in Hrest.
        apply IH in Hrest; [assumption|]. unfold rest. rewrite skipn_length. cbn [length] in Hf. lia.
    + intros H. assert (Hfd : length data < fuel) by (cbn [length] in Hf; lia). clear Hf.
      remember (e0 :: e1 :: l0 :: l1 :: data) as full eqn:Efull.
      destruct H as [|e0' e1' l0' l1' body' rest' Hlen Hbody Hrest']; [discriminate|].
      injection Efull as -> -> -> -> Heq.
      assert (body' = body /\ rest' = rest) as [-> ->].
      { unfold body, rest. rewrite <- Heq, <- Hlen. rewrite firstn_app_exact, skipn_app_exact. split; reflexivity. }
      apply (ch_extension_accepts m (u16 e0 e1) body rest) in Hbody. destruct Hbody as [m' Hm'].
      exists m'. split; [rewrite Hce; assumption|].
      rewrite slice_from_le by lia. cbn [obind]. fold rest.
      apply IH; [|assumption]. unfold rest. rewrite skipn_length. lia.
Qed.

(* with totality: a block that is not of this form is rejected by "return false", never by a panic *)
Corollary ch_ext_loop_rejects : forall data m, ~ ext_block_ok data -> exists e, ch_ext_loop (S (length data)) data m = Err e.
Proof.
  intros data m H. pose proof (ch_ext_loop_total (S (length data)) data m) as Ht.
  pose proof (ch_ext_loop_accepts (S (length data)) data m (Nat.lt_succ_diag_r _)) as Ha.
  destruct (ch_ext_loop (S (length data)) data m) eqn:E.
  - exfalso. apply H, Ha. eexists; reflexivity.
  - eexists; reflexivity.
  - exfalso. apply Ht. lia.
  - exfalso. apply Ht. lia.
Qed.

Lemma skipn_cons_nth : forall (l : list N) n, n < length l -> skipn n l = nth n l 0%N :: skipn (S n) l.
Proof.
  induction l as [|x l IH]; intros n H; [cbn in H; lia|].
  destruct n; [reflexivity|]. cbn [skipn nth]. apply IH. cbn in H. lia.
Qed.

Lemma skipn_add : forall {A} b a (l : list A), skipn b (skipn a l) = skipn (b + a) l.
Proof.
  intros A b a. revert b. induction a as [|a IH]; intros b l; [rewrite Nat.add_0_r; reflexivity|].
  destruct l as [|x l]; [rewrite !skipn_nil; reflexivity|].
  replace (b + S a) with (S (b + a)) by lia. cbn [skipn]. apply IH.
Qed.
Lemma split_skipn : forall (l : list N) a b, skipn a l = firstn b (skipn a l) ++ skipn (b + a) l.
Proof. intros. rewrite <- skipn_add. symmetry. apply firstn_skipn. Qed.

Lemma cons_nth0 : forall (l : list N), 1 <= length l -> l = nth 0 l 0%N :: skipn 1 l.
Proof. intros l H. destruct l; [cbn in H; lia|reflexivity]. Qed.

Lemma accepts_if_false : forall {A} (c : bool) (e : nat) (o : outcome A), accepts (if c then Err e else o) -> c = false /\ accepts o.
Proof. intros A c e o H. destruct c; [destruct H; discriminate|auto]. Qed.

Theorem clientHello_accepts_shape : forall data, accepts (clientHello_unmarshal data) -> ch_shape data.
Proof.
  intros data H. unfold clientHello_unmarshal in H.
  apply accepts_if_false in H. destruct H as [E0 H]. apply Nat.ltb_ge in E0.
  rewrite (byte_at_lt data 4) in H by lia. rewrite (byte_at_lt data 5) in H by lia. cbn [obind] in H.
  rewrite slice_ok in H by lia. cbn [obind] in H. rewrite (byte_at_lt data 38) in H by lia. cbn [obind] in H.
  set (sidl := N.to_nat (nth 38 data 0%N)) in *.
  apply accepts_if_false in H. destruct H as [E H].
  apply orb_false_iff in E. destruct E as [E1 E2]. apply Nat.ltb_ge in E1. apply Nat.ltb_ge in E2.
  rewrite slice_ok in H by lia. cbn [obind] in H. rewrite slice_from_le in H by lia. cbn [obind] in H.
  set (d1 := skipn (39 + sidl) data) in *. assert (Hd1 : length d1 = length data - (39 + sidl)) by apply skipn_length.
  apply accepts_if_false in H. destruct H as [E H]. apply Nat.ltb_ge in E.
  rewrite (byte_at_lt d1 0) in H by lia. rewrite (byte_at_lt d1 1) in H by lia. cbn [obind] in H.
  set (csl := u16n (nth 0 d1 0%N) (nth 1 d1 0%N)) in *.
  apply accepts_if_false in H. destruct H as [E' H].
  apply orb_false_iff in E'. destruct E' as [E3 E4]. apply Nat.ltb_ge in E4. apply Nat.eqb_neq in E3.
  destruct (ch_suites_loop_total (csl / 2) 0 d1) as [[suites reneg] Hs].
  { pose proof (Nat.div_mod csl 2). assert (csl mod 2 < 2) by (apply Nat.mod_upper_bound; lia). lia. }
  rewrite Hs in H. cbn [obind] in H. rewrite (slice_from_le d1) in H by lia. cbn [obind] in H.
  set (d2 := skipn (2 + csl) d1) in *. assert (Hd2 : length d2 = length d1 - (2 + csl)) by apply skipn_length.
  apply accepts_if_false in H. destruct H as [E5 H]. apply Nat.ltb_ge in E5.
  rewrite (byte_at_lt d2 0) in H by lia. cbn [obind] in H.
  set (cml := N.to_nat (nth 0 d2 0%N)) in *.
  apply accepts_if_false in H. destruct H as [E6 H]. apply Nat.ltb_ge in E6.
  rewrite (slice_ok d2) in H by lia. cbn [obind] in H. rewrite (slice_from_le d2) in H by lia. cbn [obind] in H.
  set (d3 := skipn (1 + cml) d2) in *.
  (* the decomposition of data *)
  assert (Edata : data = firstn 4 data ++ nth 4 data 0%N :: nth 5 data 0%N :: firstn 32 (skipn 6 data) ++ nth 38 data 0%N ::
                         firstn sidl (skipn 39 data) ++ nth 0 d1 0%N :: nth 1 d1 0%N :: firstn csl (skipn 2 d1) ++
                         nth 0 d2 0%N :: firstn cml (skipn 1 d2) ++ d3).
  { rewrite <- (firstn_skipn 4 data) at 1. f_equal.
    rewrite (skipn_cons_nth data 4) by lia. f_equal. rewrite (skipn_cons_nth data 5) by lia. f_equal.
    etransitivity; [apply (split_skipn data 6 32)|]. f_equal. change (32 + 6) with 38.
    rewrite (skipn_cons_nth data 38) by lia. f_equal.
    etransitivity; [apply (split_skipn data 39 sidl)|]. f_equal. replace (sidl + 39) with (39 + sidl) by lia. fold d1.
    etransitivity; [apply (cons_nth0 d1); lia|]. f_equal. rewrite (skipn_cons_nth d1 1) by lia. f_equal.
    etransitivity; [apply (split_skipn d1 2 csl)|]. f_equal. replace (csl + 2) with (2 + csl) by lia. fold d2.
    etransitivity; [apply (cons_nth0 d2); lia|]. f_equal.
    etransitivity; [apply (split_skipn d2 1 cml)|]. f_equal. replace (cml + 1) with (1 + cml) by lia. reflexivity. }
  rewrite Edata. constructor.
  - rewrite firstn_length. lia.
  - rewrite firstn_length, skipn_length. lia.
  - rewrite firstn_length, skipn_length. fold sidl. lia.
  - rewrite firstn_length, skipn_length. lia.
  - rewrite firstn_length, skipn_length. fold csl. lia.
  - apply even_mod2. rewrite firstn_length, skipn_length. rewrite Nat.min_l by lia. destruct (mod2_cases csl); [assumption|contradiction].
  - rewrite firstn_length, skipn_length. fold cml. lia.
  - (* extensions *)
    clear Edata. clearbody d3. destruct d3 as [|y d3']; [left; reflexivity|]. right.
    cbn iota in H. remember (y :: d3') as d3 eqn:Ed3.
    assert (Hd3 : 1 <= length d3) by (rewrite Ed3; cbn; lia).
    apply accepts_if_false in H. destruct H as [E7 H]. apply Nat.ltb_ge in E7.
    rewrite (byte_at_lt d3 0) in H by lia. rewrite (byte_at_lt d3 1) in H by lia. cbn [obind] in H.
    rewrite (slice_from_le d3) in H by lia. cbn [obind] in H.
    apply accepts_if_false in H. destruct H as [E8 H]. apply negb_false_iff in E8. apply Nat.eqb_eq in E8.
    exists (nth 0 d3 0%N), (nth 1 d3 0%N), (skipn 2 d3). split; [|split].
    + etransitivity; [apply (cons_nth0 d3); lia|]. f_equal. rewrite (skipn_cons_nth d3 1) by lia. reflexivity.
    + symmetry. exact E8.
    + apply (ch_ext_loop_accepts _ _ _ (Nat.lt_succ_diag_r _)) in H. exact H.
Qed.

Lemma skipn_app_len : forall {A} (l r : list A) n, n = length l -> skipn n (l ++ r) = r.
Proof. intros; subst; apply skipn_app_exact. Qed.
Lemma firstn_app_len : forall {A} (l r : list A) n, n = length l -> firstn n (l ++ r) = l.
Proof. intros; subst; apply firstn_app_exact. Qed.

(* the part after the session id *)
Lemma ch_rest_accepts : forall v random sid c0 c1 suites cl comp ext,
  length suites = u16n c0 c1 -> Nat.even (length suites) = true -> length comp = N.to_nat cl -> ch_ext_part_ok ext ->
  let data1 := c0 :: c1 :: suites ++ cl :: comp ++ ext in
  accepts
    (if Nat.ltb (length data1) 2 then Err 1
     else
       do c0 <- byte_at data1 0;
       do c1 <- byte_at data1 1;
       let cipherSuiteLen := u16n c0 c1 in
       if Nat.eqb (cipherSuiteLen mod 2) 1 || Nat.ltb (length data1) (2 + cipherSuiteLen) then Err 1
       else
         do '(suites, reneg) <- ch_suites_loop (cipherSuiteLen / 2) 0 data1;
         do data2 <- slice_from data1 (2 + cipherSuiteLen);
         if Nat.ltb (length data2) 1 then Err 1
         else
           do cl <- byte_at data2 0;
           let compressionMethodsLen := N.to_nat cl in
           if Nat.ltb (length data2) (1 + compressionMethodsLen) then Err 1
           else
             do comp <- slice data2 1 (1 + compressionMethodsLen);
             do data3 <- slice_from data2 (1 + compressionMethodsLen);
             let m := mkCHF v random sid suites comp false [] false [] [] false [] [] reneg [] [] false in
             match data3 with
             | [] => Ok m
             | _ =>
               if Nat.ltb (length data3) 2 then Err 1
               else
                 do x0 <- byte_at data3 0;
                 do x1 <- byte_at data3 1;
                 do data4 <- slice_from data3 2;
                 if negb (Nat.eqb (u16n x0 x1) (length data4)) then Err 1
                 else ch_ext_loop (S (length data4)) data4 m
             end).
Proof.
  intros v random sid c0 c1 suites cl comp ext Hs Hev Hc Hext data1.
  assert (Hl1 : length data1 = 2 + length suites + 1 + length comp + length ext).
  { unfold data1. cbn [length]. rewrite app_length. cbn [length]. rewrite app_length. lia. }
  destruct (Nat.ltb_spec (length data1) 2); [lia|].
  unfold data1 at 1 2. cbn [byte_at nth_error obind]. rewrite <- Hs.
  apply even_mod2 in Hev.
  destruct (Nat.eqb_spec (length suites mod 2) 1); [lia|]. cbn [orb].
  destruct (Nat.ltb_spec (length data1) (2 + length suites)); [lia|].
  destruct (ch_suites_loop_total (length suites / 2) 0 data1) as [[su reneg] Hsu].
  { pose proof (Nat.div_mod (length suites) 2). lia. }
  rewrite Hsu. cbn [obind].
  rewrite slice_from_le by lia. cbn [obind].
  assert (Ed2 : skipn (2 + length suites) data1 = cl :: comp ++ ext).
  { unfold data1. cbn [Nat.add skipn]. apply skipn_app_exact. }
  rewrite Ed2. cbn [length]. change (Nat.ltb (S (length (comp ++ ext))) 1) with false. cbn iota.
  cbn [byte_at nth_error obind]. rewrite <- Hc.
  destruct (Nat.ltb_spec (S (length (comp ++ ext))) (1 + length comp)); [rewrite app_length in *; lia|].
  rewrite slice_ok by (cbn [length]; rewrite ?app_length; lia). cbn [obind].
  rewrite slice_from_le by (cbn [length]; rewrite ?app_length; lia). cbn [obind].
  cbn [Nat.add skipn]. rewrite skipn_app_exact.
  destruct Hext as [->|[x0 [x1 [blk [-> [Hb Hok]]]]]]; [apply accepts_ok|].
  cbn [length]. change (Nat.ltb (S (S (length blk))) 2) with false. cbn iota.
  cbn [byte_at nth_error obind slice_from length Nat.leb skipn].
  rewrite <- Hb. rewrite Nat.eqb_refl. cbn [negb].
  apply ch_ext_loop_accepts; [lia|exact Hok].
Qed.

Theorem clientHello_shape_accepts : forall data, ch_shape data -> accepts (clientHello_unmarshal data).
Proof.
  intros data H. destruct H as [hdr v0 v1 random sl sid c0 c1 suites cl comp ext Hh Hr Hsid Hsid32 Hs Hev Hc Hext].
  destruct hdr as [|h0 [|h1 [|h2 [|h3 [|]]]]]; try discriminate. clear Hh.
  do 32 (destruct random as [|? random]; [discriminate|]). destruct random; [|discriminate]. clear Hr.
  set (rest := c0 :: c1 :: suites ++ cl :: comp ++ ext).
  cbn [app]. unfold clientHello_unmarshal.
  match goal with |- context [Nat.ltb (length ?d) 42] => set (data := d) end.
  assert (Hl : length data = 39 + length sid + length rest).
  { unfold data. cbn [length]. rewrite app_length. lia. }
  destruct (Nat.ltb_spec (length data) 42) as [Hlt|_].
  { unfold rest in Hl. cbn [length] in Hl. rewrite app_length in Hl. cbn [length] in Hl. lia. }
  assert (B4 : byte_at data 4 = Ok v0) by reflexivity.
  assert (B5 : byte_at data 5 = Ok v1) by reflexivity.
  assert (B38 : byte_at data 38 = Ok sl) by reflexivity.
  rewrite B4, B5. cbn [obind]. rewrite slice_ok by lia. cbn [obind]. rewrite B38. cbn [obind]. rewrite <- Hsid.
  destruct (Nat.ltb_spec 32 (length sid)); [lia|]. cbn [orb].
  destruct (Nat.ltb_spec (length data) (39 + length sid)); [lia|].
  rewrite slice_ok by lia. cbn [obind]. rewrite slice_from_le by lia. cbn [obind].
  assert (Ed1 : skipn (39 + length sid) data = rest).
  { unfold data. cbn [Nat.add skipn]. apply skipn_app_exact. }
  rewrite Ed1.
  apply (ch_rest_accepts _ _ _ c0 c1 suites cl comp ext Hs Hev Hc Hext).
Qed.

Theorem clientHello_accepts_iff : forall data, accepts (clientHello_unmarshal data) <-> ch_shape data.
Proof. intros. split; [apply clientHello_accepts_shape|apply clientHello_shape_accepts]. Qed.

Lemma sct_loop_accepts : forall fuel d acc, length d < fuel -> (accepts (sct_loop fuel d acc) <-> sct_list_ok d).
Proof.
  induction fuel as [|fuel IH]; intros d acc Hf; [lia|].
  destruct d as [|b0 d]; [split; intros; [constructor|apply accepts_ok]|].
  destruct d as [|b1 d]; [split; intros H; [cbn in H; destruct H; discriminate|inversion H]|].
  cbn [sct_loop]. cbn [length]. change (Nat.ltb (S (S (length d))) 2) with false. cbn iota.
  cbn [byte_at nth_error obind slice_from length Nat.leb skipn].
  destruct (Nat.eqb_spec (u16n b0 b1) 0) as [H0|H0]; cbn [orb].
  - split; intros H; [destruct H; discriminate|]. inversion H; subst. contradiction.
  - destruct (Nat.ltb_spec (length d) (u16n b0 b1)) as [Hl|Hl].
    + split; intros H; [destruct H; discriminate|]. inversion H; subst. rewrite app_length in Hl. lia.
    + rewrite slice_to_le by lia. cbn [obind]. rewrite slice_from_le by lia. cbn [obind].
      destruct (split_at (u16n b0 b1) d Hl) as [Hd Hn].
      rewrite IH by (rewrite skipn_length; cbn in Hf; lia).
      split; intros H.
      * rewrite Hd. constructor; assumption.
      * inversion H; subst.
        match goal with Hx : length s = _ |- _ => rewrite <- Hx end. rewrite skipn_app_exact. assumption.
Qed.

Lemma sh_extension_accepts : forall m ext body rest,
  accepts (sh_extension m ext (length body) (body ++ rest)) <-> sh_ext_body_ok ext body.
Proof.
  intros m ext body rest. unfold sh_extension, sh_ext_body_ok.
  repeat match goal with |- context [if N.eqb ext ?c then _ else _] => destruct (N.eqb ext c) end.
  - (* NPN *)
    rewrite slice_to_app. cbn [obind]. rewrite accepts_bind. split.
    + intros [a [Ha _]]. apply (alpn_loop_accepts (S (length body)) body (g_protos m)); [lia|]. eexists; eassumption.
    + intros Hs. apply (alpn_loop_accepts (S (length body)) body (g_protos m)) in Hs; [|lia]. destruct Hs as [a Ha]. exists a. split; [assumption|apply accepts_ok].
  - destruct body; cbn [length]; [change (Nat.ltb 0 0) with false|change (Nat.ltb 0 (S (length body))) with true]; cbn iota.
    + split; intros; [reflexivity|apply accepts_ok].
    + split; intros H; [destruct H; discriminate|discriminate].
  - destruct body; cbn [length]; [change (Nat.ltb 0 0) with false|change (Nat.ltb 0 (S (length body))) with true]; cbn iota.
    + split; intros; [reflexivity|apply accepts_ok].
    + split; intros H; [destruct H; discriminate|discriminate].
  - (* renegotiation_info *)
    destruct body as [|b0 lst]; try (split; intros H; [cbn in H; destruct H; discriminate|contradiction]).
    change (Nat.eqb (length (b0 :: lst)) 0) with false. cbn iota.
    rewrite slice_to_app. cbn [obind byte_at nth_error slice_from length Nat.leb skipn].
    destruct (Nat.eqb_spec (N.to_nat b0) (length lst)) as [E|E]; cbn [negb].
    + split; intros; [lia|apply accepts_ok].
    + split; intros H; [destruct H; discriminate|lia].
  - (* ALPN *)
    rewrite slice_to_app. cbn [obind].
    destruct body as [|b0 [|b1 [|l proto]]]; try (split; intros H; [cbn in H; destruct H; discriminate|contradiction]).
    cbn [length]. change (Nat.ltb (S (S (S (length proto)))) 3) with false. cbn iota.
    cbn [byte_at nth_error obind]. replace (S (S (S (length proto))) - 2) with (S (length proto)) by lia.
    destruct (Nat.eqb_spec (u16n b0 b1) (S (length proto))) as [E1|E1]; cbn [negb].
    2:{ split; intros H; [destruct H; discriminate|]. destruct H. contradiction. }
    cbn [slice_from length Nat.leb skipn obind byte_at nth_error]. replace (S (length proto) - 1) with (length proto) by lia.
    destruct (Nat.eqb_spec (N.to_nat l) (length proto)) as [E2|E2]; cbn [negb].
    2:{ split; intros H; [destruct H; discriminate|]. destruct H as [_ [H _]]. contradiction. }
    destruct proto as [|p0 proto]; cbn [length Nat.eqb].
    + split; intros H; [destruct H; discriminate|]. destruct H as [_ [_ H]]. contradiction.
    + split; intros; [repeat split; [assumption|assumption|discriminate]|apply accepts_ok].
  - (* SCT *)
    rewrite slice_to_app. cbn [obind].
    destruct body as [|b0 [|b1 lst]]; try (split; intros H; [cbn in H; destruct H; discriminate|contradiction]).
    cbn [length]. change (Nat.ltb (S (S (length lst))) 2) with false. cbn iota.
    cbn [byte_at nth_error obind slice_from length Nat.leb skipn].
    destruct (Nat.eqb_spec (length lst) (u16n b0 b1)) as [E1|E1]; cbn [negb orb].
    2:{ split; intros H; [destruct H; discriminate|]. destruct H. contradiction. }
    destruct (Nat.eqb_spec (u16n b0 b1) 0) as [E2|E2].
    { split; intros H; [destruct H; discriminate|]. destruct H as [_ [H _]]. destruct lst; [contradiction|cbn in E1; lia]. }
    rewrite accepts_bind. split.
    + intros [a [Ha _]]. split; [assumption|]. split; [intros ->; cbn in E1; lia|].
      apply (sct_loop_accepts (S (length lst)) lst []); [lia|]. eexists; eassumption.
    + intros [_ [_ Hs]]. apply (sct_loop_accepts (S (length lst)) lst []) in Hs; [|lia]. destruct Hs as [a Ha]. exists a. split; [assumption|apply accepts_ok].
  - split; intros; [exact I|apply accepts_ok].
Qed.

Theorem sh_ext_loop_accepts : forall fuel data m, length data < fuel ->
  (accepts (sh_ext_loop fuel data m) <-> sh_ext_block_ok data).
Proof.
  induction fuel as [|fuel IH]; intros data m Hf; [lia|].
  destruct data as [|e0 data]; [split; intros; [constructor|apply accepts_ok]|].
  destruct data as [|e1 data]; [split; intros H; [cbn in H; destruct H; discriminate|inversion H]|].
  destruct data as [|l0 data]; [split; intros H; [cbn in H; destruct H; discriminate|inversion H]|].
  destruct data as [|l1 data]; [split; intros H; [cbn in H; destruct H; discriminate|inversion H]|].
  cbn [sh_ext_loop]. cbn [length]. change (Nat.ltb (S (S (S (S (length data))))) 4) with false. cbn iota.
  cbn [byte_at nth_error obind slice_from length Nat.leb skipn].
  destruct (Nat.ltb_spec (length data) (u16n l0 l1)) as [Hl|Hl].
  - split; intros H; [destruct H; discriminate|]. inversion H; subst. rewrite app_length in Hl. lia.
  - destruct (split_at (u16n l0 l1) data Hl) as [Hd Hn].
    set (body := firstn (u16n l0 l1) data) in *. set (rest := skipn (u16n l0 l1) data) in *.
    rewrite accepts_bind.
    assert (Hce : forall mm, sh_extension mm (u16 e0 e1) (u16n l0 l1) data = sh_extension mm (u16 e0 e1) (length body) (body ++ rest)).
    { intros. rewrite Hn, <- Hd. reflexivity. }
    split.
    + intros [m' [Hm' Hrest]]. rewrite Hd. constructor; [assumption| |].
      * apply (sh_extension_accepts m (u16 e0 e1) body rest). rewrite <- Hce. eexists; eassumption.
      * rewrite slice_from_le in Hrest by lia. cbn [obind] in Hrest. fold rest in Hrest.
        apply IH in Hrest; [assumption|]. unfold rest. rewrite skipn_length. cbn [length] in Hf. lia.
    + intros H. assert (Hfd : length data < fuel) by (cbn [length] in Hf; lia). clear Hf.
      remember (e0 :: e1 :: l0 :: l1 :: data) as full eqn:Efull.
      destruct H as [|e0' e1' l0' l1' body' rest' Hlen Hbody Hrest']; [discriminate|].
      injection Efull as -> -> -> -> Heq.
      assert (body' = body /\ rest' = rest) as [-> ->].
      { unfold body, rest. rewrite <- Heq, <- Hlen. rewrite firstn_app_exact, skipn_app_exact. split; reflexivity. }
      apply (sh_extension_accepts m (u16 e0 e1) body rest) in Hbody. destruct Hbody as [m' Hm'].
      exists m'. split; [rewrite Hce; assumption|].
      rewrite slice_from_le by lia. cbn [obind]. fold rest.
      apply IH; [|assumption]. unfold rest. rewrite skipn_length. lia.
Qed.

Theorem serverHello_accepts_shape : forall data, accepts (serverHello_unmarshal data) -> sh_shape data.
Proof.
  intros data H. unfold serverHello_unmarshal in H.
  apply accepts_if_false in H. destruct H as [E0 H]. apply Nat.ltb_ge in E0.
  rewrite (byte_at_lt data 4) in H by lia. rewrite (byte_at_lt data 5) in H by lia. cbn [obind] in H.
  rewrite slice_ok in H by lia. cbn [obind] in H. rewrite (byte_at_lt data 38) in H by lia. cbn [obind] in H.
  set (sidl := N.to_nat (nth 38 data 0%N)) in *.
  apply accepts_if_false in H. destruct H as [E H].
  apply orb_false_iff in E. destruct E as [E1 E2]. apply Nat.ltb_ge in E1. apply Nat.ltb_ge in E2.
  rewrite slice_ok in H by lia. cbn [obind] in H. rewrite slice_from_le in H by lia. cbn [obind] in H.
  set (d1 := skipn (39 + sidl) data) in *. assert (Hd1 : length d1 = length data - (39 + sidl)) by apply skipn_length.
  apply accepts_if_false in H. destruct H as [E H]. apply Nat.ltb_ge in E.
  rewrite (byte_at_lt d1 0) in H by lia. rewrite (byte_at_lt d1 1) in H by lia. rewrite (byte_at_lt d1 2) in H by lia. cbn [obind] in H.
  rewrite (slice_from_le d1) in H by lia. cbn [obind] in H.
  set (d2 := skipn 3 d1) in *.
  assert (Edata : data = firstn 4 data ++ nth 4 data 0%N :: nth 5 data 0%N :: firstn 32 (skipn 6 data) ++ nth 38 data 0%N ::
                         firstn sidl (skipn 39 data) ++ nth 0 d1 0%N :: nth 1 d1 0%N :: nth 2 d1 0%N :: d2).
  { rewrite <- (firstn_skipn 4 data) at 1. f_equal.
    rewrite (skipn_cons_nth data 4) by lia. f_equal. rewrite (skipn_cons_nth data 5) by lia. f_equal.
    etransitivity; [apply (split_skipn data 6 32)|]. f_equal. change (32 + 6) with 38.
    rewrite (skipn_cons_nth data 38) by lia. f_equal.
    etransitivity; [apply (split_skipn data 39 sidl)|]. f_equal. replace (sidl + 39) with (39 + sidl) by lia. fold d1.
    etransitivity; [apply (cons_nth0 d1); lia|]. f_equal. rewrite (skipn_cons_nth d1 1) by lia. f_equal.
    rewrite (skipn_cons_nth d1 2) by lia. reflexivity. }
  rewrite Edata. constructor.
  - rewrite firstn_length. lia.
  - rewrite firstn_length, skipn_length. lia.
  - rewrite firstn_length, skipn_length. fold sidl. lia.
  - rewrite firstn_length, skipn_length. lia.
  - clear Edata. clearbody d2. destruct d2 as [|y d2']; [left; reflexivity|]. right.
    cbn iota in H. remember (y :: d2') as d2 eqn:Ed2.
    assert (Hd2 : 1 <= length d2) by (rewrite Ed2; cbn; lia).
    apply accepts_if_false in H. destruct H as [E7 H]. apply Nat.ltb_ge in E7.
    rewrite (byte_at_lt d2 0) in H by lia. rewrite (byte_at_lt d2 1) in H by lia. cbn [obind] in H.
    rewrite (slice_from_le d2) in H by lia. cbn [obind] in H.
    apply accepts_if_false in H. destruct H as [E8 H]. apply negb_false_iff in E8. apply Nat.eqb_eq in E8.
    exists (nth 0 d2 0%N), (nth 1 d2 0%N), (skipn 2 d2). split; [|split].
    + etransitivity; [apply (cons_nth0 d2); lia|]. f_equal. rewrite (skipn_cons_nth d2 1) by lia. reflexivity.
    + exact E8.
    + apply (sh_ext_loop_accepts _ _ _ (Nat.lt_succ_diag_r _)) in H. exact H.
Qed.

Theorem serverHello_shape_accepts : forall data, sh_shape data -> accepts (serverHello_unmarshal data).
Proof.
  intros data H. destruct H as [hdr v0 v1 random sl sid s0 s1 cm ext Hh Hr Hsid Hsid32 Hext].
  destruct hdr as [|h0 [|h1 [|h2 [|h3 [|]]]]]; try discriminate. clear Hh.
  do 32 (destruct random as [|? random]; [discriminate|]). destruct random; [|discriminate]. clear Hr.
  set (rest := s0 :: s1 :: cm :: ext).
  cbn [app]. unfold serverHello_unmarshal.
  match goal with |- context [Nat.ltb (length ?d) 42] => set (data := d) end.
  assert (Hl : length data = 39 + length sid + length rest).
  { unfold data. cbn [length]. rewrite app_length. lia. }
  destruct (Nat.ltb_spec (length data) 42) as [Hlt|_].
  { unfold rest in Hl. cbn [length] in Hl. lia. }
  assert (B4 : byte_at data 4 = Ok v0) by reflexivity.
  assert (B5 : byte_at data 5 = Ok v1) by reflexivity.
  assert (B38 : byte_at data 38 = Ok sl) by reflexivity.
  rewrite B4, B5. cbn [obind]. rewrite slice_ok by lia. cbn [obind]. rewrite B38. cbn [obind]. rewrite <- Hsid.
  destruct (Nat.ltb_spec 32 (length sid)); [lia|]. cbn [orb].
  destruct (Nat.ltb_spec (length data) (39 + length sid)); [lia|].
  rewrite slice_ok by lia. cbn [obind]. rewrite slice_from_le by lia. cbn [obind].
  assert (Ed1 : skipn (39 + length sid) data = rest).
  { unfold data. cbn [Nat.add skipn]. apply skipn_app_exact. }
  rewrite Ed1. unfold rest. cbn [length]. change (Nat.ltb (S (S (S (length ext)))) 3) with false. cbn iota.
  cbn [byte_at nth_error obind slice_from length Nat.leb skipn].
  destruct Hext as [->|[x0 [x1 [blk [-> [Hb Hok]]]]]]; [apply accepts_ok|].
  cbn [length]. change (Nat.ltb (S (S (length blk))) 2) with false. cbn iota.
  cbn [byte_at nth_error obind slice_from length Nat.leb skipn].
  rewrite Hb. rewrite Nat.eqb_refl. cbn [negb]. rewrite <- Hb.
  apply sh_ext_loop_accepts; [lia|exact Hok].
Qed.

Theorem serverHello_accepts_iff : forall data, accepts (serverHello_unmarshal data) <-> sh_shape data.
Proof. intros. split; [apply serverHello_accepts_shape|apply serverHello_shape_accepts]. Qed.
