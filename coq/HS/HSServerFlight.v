(* Which delivered sequences let a server (GMSSL-only, auto-switch, TLS: one machine) complete: the honest flights,
   with every check the code makes.  Same method as HSClientFlight.v. *)
From Coq Require Import List NArith Arith Bool Lia.
From GmsmVerif Require Import Lib.Outcome HS.HSTerms HS.HSModel HS.HSProofs HS.HSClientFlight.
Import ListNotations.
Local Open Scope N_scope.

Definition seqw (a b : sstate) : Prop := ss_set_warn a 0 = ss_set_warn b 0.

Lemma server_step_eqw : forall cfg a b i, seqw a b -> is_warning i = false ->
  server_step cfg a i = server_step cfg b i \/
  (snd (server_step cfg a i) = SError /\ snd (server_step cfg b i) = SError).
Proof.
  intros cfg a b i He H. unfold server_step.
  assert (Hp : ss_phase a = ss_phase b) by (apply (f_equal ss_phase) in He; exact He).
  assert (Hn : ss_npn a = ss_npn b) by (apply (f_equal ss_npn) in He; exact He).
  rewrite Hp.
  destruct (read_record_nonwarning (match ss_phase b with SP_CCS => true | _ => false end) (ss_warn a) (ss_warn b) i H) as [E Hnw].
  rewrite E. destruct (read_record _ (ss_warn b) i) eqn:Er.
  - right. split; reflexivity.
  - exfalso. eapply Hnw. rewrite E. reflexivity.
  - left. unfold seqw in He. rewrite He. reflexivity.
  - left. rewrite Hn.
    change (ss_set_warn (ss_set_phase a (if ss_npn b then SP_NextProto else SP_Finished)) 0)
      with (ss_set_phase (ss_set_warn a 0) (if ss_npn b then SP_NextProto else SP_Finished)).
    change (ss_set_warn (ss_set_phase b (if ss_npn b then SP_NextProto else SP_Finished)) 0)
      with (ss_set_phase (ss_set_warn b 0) (if ss_npn b then SP_NextProto else SP_Finished)).
    unfold seqw in He. rewrite He. reflexivity.
Qed.

Lemma server_run_strip : forall cfg ins a b st',
  run (server_step cfg) a ins = RComplete st' -> seqw a b ->
  run (server_step cfg) b (strip ins) = RComplete st'.
Proof.
  intros cfg ins. induction ins as [|i rest IH]; intros a b st' H He; [discriminate|].
  cbn [run] in H. unfold strip. cbn [filter]. fold (strip rest).
  destruct (is_warning i) eqn:Ew; cbn [negb].
  - destruct i; try discriminate. cbn in Ew. apply andb_prop in Ew. destruct Ew as [Ed El].
    unfold server_step in H. cbn [read_record] in H.
    destruct (desc =? 0); [discriminate|]. rewrite El in H.
    match type of H with context [if ?c then RLError else _] => destruct c end; [discriminate|].
    cbn [is_eof] in H. eapply IH; [exact H|]. exact He.
  - cbn [run].
    destruct (server_step_eqw cfg a b i He Ew) as [E|[E1 E2]].
    + rewrite <- E. destruct (server_step cfg a i) as [st1 r]. destruct r; try discriminate.
      * destruct (is_eof i); [discriminate|]. eapply IH; [exact H|reflexivity].
      * exact H.
    + destruct (server_step cfg a i) as [st1 r]. cbn in E1. subst r. discriminate.
Qed.

Lemma server_step_inv : forall cfg st i st1 r, is_warning i = false -> r <> SError ->
  server_step cfg st i = (st1, r) ->
  (exists m, i = IHs m /\ ss_phase st <> SP_CCS /\ server_handshake_step cfg (ss_set_warn st 0) m = (st1, r)) \/
  (i = ICCS true /\ ss_phase st = SP_CCS /\ r = SContinue /\
   st1 = ss_set_warn (ss_set_phase st (if ss_npn st then SP_NextProto else SP_Finished)) 0).
Proof.
  intros cfg st i st1 r Hw Hr H. unfold server_step in H.
  destruct i; cbn [read_record] in H.
  - destruct (ss_phase st) eqn:Ep; try (left; exists m; split; [reflexivity|split; [discriminate|exact H]]).
    injection H as <- <-. contradiction.
  - injection H as <- <-. contradiction.
  - injection H as <- <-. contradiction.
  - injection H as <- <-. contradiction.
  - destruct (ss_phase st) eqn:Ep; cbn [andb] in H; try (injection H as <- <-; contradiction).
    destruct body_ok; [|injection H as <- <-; contradiction].
    injection H as <- <-. right. auto.
  - cbn in Hw. destruct (desc =? 0); [injection H as <- <-; contradiction|].
    cbn in Hw. rewrite Hw in H. injection H as <- <-; contradiction.
  - injection H as <- <-. contradiction.
  - injection H as <- <-. contradiction.
  - injection H as <- <-. contradiction.
  - injection H as <- <-. contradiction.
Qed.

Lemma server_next : forall cfg st i l st', nowarn (i :: l) ->
  run (server_step cfg) st (i :: l) = RComplete st' ->
  exists st1 r, (r = SContinue \/ r = SComplete) /\
    ((exists m, i = IHs m /\ ss_phase st <> SP_CCS /\ server_handshake_step cfg (ss_set_warn st 0) m = (st1, r)) \/
     (i = ICCS true /\ ss_phase st = SP_CCS /\ r = SContinue /\
      st1 = ss_set_warn (ss_set_phase st (if ss_npn st then SP_NextProto else SP_Finished)) 0)) /\
    ((r = SContinue /\ run (server_step cfg) st1 l = RComplete st' /\ nowarn l) \/ (r = SComplete /\ st1 = st')).
Proof.
  intros cfg st i l st' Hnw H. inversion Hnw as [|? ? Hi Hl]; subst.
  apply run_cons_complete in H. destruct H as [[st1 [Hs Hr]]|Hs].
  - exists st1, SContinue. split; [left; reflexivity|]. split.
    + apply server_step_inv; [exact Hi|discriminate|exact Hs].
    + left. auto.
  - exists st', SComplete. split; [right; reflexivity|]. split.
    + apply server_step_inv; [exact Hi|discriminate|exact Hs].
    + right. auto.
Qed.

Definition good (r : sres) : Prop := r = SContinue \/ r = SComplete.
Ltac bad Hr := let Hx := fresh in destruct Hr as [Hx|Hx]; discriminate Hx.

Definition after_hello_shape (cfg : sconfig) (st1 : sstate) : Prop :=
  (ss_resumed st1 = false /\ ss_peer st1 = [] /\ ss_phase st1 = (if 1 <=? s_auth cfg then SP_ClientCert else SP_CKX)) \/
  (ss_resumed st1 = true /\ ss_phase st1 = SP_CCS).

Ltac dmH H := match type of H with context [match ?x with _ => _ end] => destruct x eqn:? end.

Lemma server_send_flight_shape : forall cfg st ch gm vers su sc certs st1 r, good r ->
  server_send_flight cfg st ch gm vers su sc certs = (st1, r) -> r = SContinue /\ after_hello_shape cfg st1.
Proof.
  intros cfg st ch gm vers su sc certs st1 r Hr H. unfold server_send_flight in H.
  destruct (if gm then Ok 0 else prfForVersion vers) as [fp|e| |]; try (injection H as <- <-; bad Hr).
  destruct (su_kx su); destruct (1 <=? s_auth cfg) eqn:Ea; injection H as <- <-;
    first [bad Hr | (split; [reflexivity|left; cbn; rewrite ?Ea; auto])].
Qed.

Lemma server_try_resume_shape : forall cfg st ch gm vers pick configured st1 r, good r ->
  server_try_resume cfg st ch gm vers pick configured = Some (st1, r) -> r = SContinue /\ after_hello_shape cfg st1.
Proof.
  intros cfg st ch gm vers pick configured st1 r Hr H. unfold server_try_resume in H.
  repeat (dmH H; try discriminate).
  all: injection H as <- <-; first [bad Hr | (split; [reflexivity|right; cbn; auto])].
Qed.

Lemma server_process_hello_shape : forall cfg st ch gm vers st1 r, good r ->
  server_process_hello cfg st ch gm vers = (st1, r) -> r = SContinue /\ after_hello_shape cfg st1.
Proof.
  intros cfg st ch gm vers st1 r Hr H. unfold server_process_hello in H.
  destruct (negb (ch_comp_null ch)); [injection H as <- <-; bad Hr|].
  destruct (ch_reneg_nonempty ch); [injection H as <- <-; bad Hr|].
  destruct gm.
  - destruct (s_gm_certs cfg) as [|sc [|ec rest]]; try (injection H as <- <-; bad Hr).
    destruct (server_try_resume cfg st ch true vers setCipherSuiteGM (gm_suite_ids cfg)) as [[s1 r1]|] eqn:Er.
    + injection H as <- <-. eapply server_try_resume_shape; eassumption.
    + match type of H with (match ?x with _ => _ end) = _ => destruct x end; [|injection H as <- <-; bad Hr].
      destruct (_ && _); [injection H as <- <-; bad Hr|].
      eapply server_send_flight_shape; eassumption.
  - destruct (s_tls_cert cfg) as [[c k]|]; [|injection H as <- <-; bad Hr].
    destruct (negb _); [injection H as <- <-; bad Hr|].
    match type of H with (match ?x with _ => _ end) = _ => destruct x as [[s1 r1]|] eqn:Er end.
    + injection H as <- <-. eapply server_try_resume_shape; eassumption.
    + match type of H with (match ?x with _ => _ end) = _ => destruct x end; [|injection H as <- <-; bad Hr].
      destruct (_ && _); [injection H as <- <-; bad Hr|].
      eapply server_send_flight_shape; eassumption.
Qed.

Lemma sp_hello : forall cfg st m st1 r, ss_phase st = SP_Hello -> good r ->
  server_handshake_step cfg st m = (st1, r) ->
  exists ch, m = MClientHello ch /\ r = SContinue /\ after_hello_shape cfg st1.
Proof.
  intros cfg st m st1 r Hph Hr H. unfold server_handshake_step in H. rewrite Hph in H.
  destruct m; try (injection H as <- <-; bad Hr).
  exists ch. split; [reflexivity|].
  destruct (version_gate (s_mode cfg) (ch_vers ch)); [injection H as <- <-; bad Hr| |];
    eapply server_process_hello_shape; eassumption.
Qed.

Lemma sp_client_cert : forall cfg st m st1 r, ss_phase st = SP_ClientCert -> good r ->
  server_handshake_step cfg st m = (st1, r) ->
  exists certs peer, m = MCertificate certs /\ r = SContinue /\
    (certs = [] -> s_auth cfg <> 2 /\ s_auth cfg <> 4) /\
    processCertsFromClient cfg certs = Some peer /\
    st1 = mkSS SP_CKX (ss_warn st) (ss_vers st) (ss_fp st) (ss_gm st) (ss_kx st) (ss_suite st) (ss_ticket st) (ss_npn st)
               (ss_cr st) peer (ss_resumed st) (ss_master st) (ss_tr st ++ [enc_hmsg m]) (ss_out st).
Proof.
  intros cfg st m st1 r Hph Hr H. unfold server_handshake_step in H. rewrite Hph in H.
  destruct m; try (injection H as <- <-; bad Hr).
  destruct (Nat.eqb (length certs) 0 && ((s_auth cfg =? 2) || (s_auth cfg =? 4))) eqn:E1; [injection H as <- <-; bad Hr|].
  destruct (processCertsFromClient cfg certs) as [peer|] eqn:E2; [|injection H as <- <-; bad Hr].
  injection H as <- <-. exists certs, peer.
  split; [reflexivity|]. split; [reflexivity|]. split; [|split; [exact E2|reflexivity]].
  intros ->. cbn in E1. apply orb_false_iff in E1. destruct E1 as [Ea Eb].
  apply N.eqb_neq in Ea. apply N.eqb_neq in Eb. split; assumption.
Qed.

Lemma sp_ckx : forall cfg st m st1 r, ss_phase st = SP_CKX -> good r ->
  server_handshake_step cfg st m = (st1, r) ->
  exists len_ok ct pms master, m = MClientKeyExchange len_ok ct /\ r = SContinue /\
    server_ckx_pms cfg st len_ok ct = Some pms /\
    masterFromPreMasterSecret (ss_vers st) pms (ss_cr st) (TRand (s_rand cfg)) = Ok master /\
    st1 = mkSS (if Nat.eqb (length (ss_peer st)) 0 then SP_CCS else SP_CertVerify)
               (ss_warn st) (ss_vers st) (ss_fp st) (ss_gm st) (ss_kx st) (ss_suite st) (ss_ticket st) (ss_npn st)
               (ss_cr st) (ss_peer st) (ss_resumed st) master (ss_tr st ++ [enc_hmsg m]) (ss_out st).
Proof.
  intros cfg st m st1 r Hph Hr H. unfold server_handshake_step in H. rewrite Hph in H.
  destruct m; try (injection H as <- <-; bad Hr).
  cbn zeta in H.
  change (server_ckx_pms cfg (ss_add_tr st (MClientKeyExchange len_ok ct)) len_ok ct) with (server_ckx_pms cfg st len_ok ct) in H.
  destruct (server_ckx_pms cfg st len_ok ct) as [pms|] eqn:E1; [|injection H as <- <-; bad Hr].
  cbn [ss_vers ss_cr ss_add_tr] in H.
  destruct (masterFromPreMasterSecret (ss_vers st) pms (ss_cr st) (TRand (s_rand cfg))) as [master|e| |] eqn:E2;
    try (injection H as <- <-; bad Hr).
  injection H as <- <-. exists len_ok, ct, pms, master. repeat split; auto.
Qed.

Lemma sp_cert_verify : forall cfg st m st1 r, ss_phase st = SP_CertVerify -> good r ->
  server_handshake_step cfg st m = (st1, r) ->
  exists alg_ok sig, m = MCertificateVerify alg_ok sig /\ r = SContinue /\
    ((ss_vers st <? VersionTLS12) || alg_ok) = true /\
    (negb (ss_gm st) && (ss_vers st =? VersionSSL30) && negb (cert_kind (nth_cert 0 (ss_peer st)) =? KIND_RSA)) = false /\
    verify (cert_pub (nth_cert 0 (ss_peer st))) sig (THash (tlist (ss_tr st))) = true /\
    st1 = ss_set_phase (ss_add_tr st m) SP_CCS.
Proof.
  intros cfg st m st1 r Hph Hr H. unfold server_handshake_step in H. rewrite Hph in H.
  destruct m; try (injection H as <- <-; bad Hr).
  destruct ((ss_vers st <? VersionTLS12) || alg_ok) eqn:E1; cbn [negb] in H; [|injection H as <- <-; bad Hr].
  match type of H with (if ?c then _ else _) = _ => destruct c eqn:E2 end; [injection H as <- <-; bad Hr|].
  destruct (verify _ sig _) eqn:E3; [|injection H as <- <-; bad Hr].
  injection H as <- <-. exists alg_ok, sig. repeat split; auto.
Qed.

Lemma sp_next_proto : forall cfg st m st1 r, ss_phase st = SP_NextProto -> good r ->
  server_handshake_step cfg st m = (st1, r) ->
  m = MNextProtocol /\ r = SContinue /\ st1 = ss_set_phase (ss_add_tr st m) SP_Finished.
Proof.
  intros cfg st m st1 r Hph Hr H. unfold server_handshake_step in H. rewrite Hph in H.
  destruct m; try (injection H as <- <-; bad Hr).
  injection H as <- <-. auto.
Qed.

Lemma sp_finished : forall cfg st m st1 r, ss_phase st = SP_Finished -> good r ->
  server_handshake_step cfg st m = (st1, r) ->
  exists vd, m = MFinished vd /\ r = SComplete /\
    vd = finished_sum (ss_fp st) (ss_master st) L_client_finished (ss_tr st) /\
    server_finish cfg st m vd = (st1, SComplete).
Proof.
  intros cfg st m st1 r Hph Hr H. unfold server_handshake_step in H. rewrite Hph in H.
  destruct m; try (injection H as <- <-; bad Hr).
  exists vd. unfold server_finish in H |- *.
  destruct (term_eqb vd _) eqn:E; [|injection H as <- <-; bad Hr].
  apply term_eqb_eq in E.
  assert (Er : r = SComplete).
  { cbn [ss_resumed ss_add_tr] in H. destruct (ss_resumed st); [injection H as _ <-; reflexivity|].
    destruct (ss_ticket _); injection H as _ <-; reflexivity. }
  subst r. repeat split; auto.
Qed.

Ltac slazy H := lazy [ss_set_warn ss_set_phase ss_add_tr ss_phase ss_warn ss_vers ss_fp ss_gm ss_kx ss_suite ss_ticket ss_npn ss_cr ss_peer ss_resumed ss_master ss_tr ss_out] in H.
Ltac ssimp H := cbn [ss_set_warn ss_set_phase ss_add_tr ss_phase ss_warn ss_vers ss_fp ss_gm ss_kx ss_suite ss_ticket ss_npn ss_cr ss_peer ss_resumed ss_master ss_tr ss_out] in H.

(* from the ChangeCipherSpec to the end *)
Definition ccs_tail_ok (cfg : sconfig) (st : sstate) (l : list input) (st' : sstate) : Prop :=
  exists vd rest,
    l = [ICCS true] ++ (if ss_npn st then [IHs MNextProtocol] else []) ++ [IHs (MFinished vd)] ++ rest /\
    let tr := ss_tr st ++ (if ss_npn st then [enc_hmsg MNextProtocol] else []) in
    vd = finished_sum (ss_fp st) (ss_master st) L_client_finished tr /\
    server_finish cfg (mkSS SP_Finished 0 (ss_vers st) (ss_fp st) (ss_gm st) (ss_kx st) (ss_suite st) (ss_ticket st) (ss_npn st)
                            (ss_cr st) (ss_peer st) (ss_resumed st) (ss_master st) tr (ss_out st)) (MFinished vd) vd = (st', SComplete).

Lemma server_ccs_tail : forall cfg st l st', ss_phase st = SP_CCS -> nowarn l ->
  run (server_step cfg) st l = RComplete st' -> ccs_tail_ok cfg st l st'.
Proof.
  intros cfg st l st' Hph Hnw H. unfold ccs_tail_ok.
  destruct l as [|i1 l]; [discriminate|].
  destruct (server_next _ _ _ _ _ Hnw H) as [st1 [r1 [Hr1 [Hs1 Hn1]]]]. clear H Hnw.
  destruct Hs1 as [[m1 [_ [Hc _]]]|[Ei1 [_ [Er1 Est1]]]]; [exfalso; apply Hc; exact Hph|]. subst i1 r1.
  destruct Hn1 as [[_ [H Hnw]]|[Hc _]]; [|discriminate].
  assert (Enpn : ss_npn st = true \/ ss_npn st = false) by (destruct (ss_npn st); auto).
  destruct Enpn as [Enpn|Enpn]; rewrite Enpn in Est1; ssimp Est1; subst st1.
  - destruct l as [|i2 l]; [discriminate|].
    destruct (server_next _ _ _ _ _ Hnw H) as [st2 [r2 [Hr2 [Hs2 Hn2]]]]. clear H Hnw.
    destruct Hs2 as [[m2 [Ei2 [_ Hs2]]]|[_ [Hc _]]]; [|discriminate].
    apply sp_next_proto in Hs2; [|reflexivity|exact Hr2]. destruct Hs2 as [Em2 [Er2 Est2]]. subst i2 m2 r2.
    destruct Hn2 as [[_ [H Hnw]]|[Hc _]]; [|discriminate]. ssimp Est2. subst st2.
    destruct l as [|i3 l]; [discriminate|].
    destruct (server_next _ _ _ _ _ Hnw H) as [st3 [r3 [Hr3 [Hs3 Hn3]]]]. clear H Hnw.
    destruct Hs3 as [[m3 [Ei3 [_ Hs3]]]|[_ [Hc _]]]; [|discriminate].
    apply sp_finished in Hs3; [|reflexivity|exact Hr3]. destruct Hs3 as [vd [Em3 [Er3 [Hvd Hfin]]]]. subst i3 m3 r3.
    destruct Hn3 as [[Hc _]|[_ Est']]; [discriminate|]. subst st3. ssimp Hvd.
    exists vd, l. cbn zeta.
    replace (if ss_npn st then [IHs MNextProtocol] else []) with [IHs MNextProtocol] by (rewrite Enpn; reflexivity).
    replace (if ss_npn st then [enc_hmsg MNextProtocol] else []) with [enc_hmsg MNextProtocol] by (rewrite Enpn; reflexivity).
    split; [reflexivity|]. split; [exact Hvd|exact Hfin].
  - destruct l as [|i3 l]; [discriminate|].
    destruct (server_next _ _ _ _ _ Hnw H) as [st3 [r3 [Hr3 [Hs3 Hn3]]]]. clear H Hnw.
    destruct Hs3 as [[m3 [Ei3 [_ Hs3]]]|[_ [Hc _]]]; [|discriminate].
    apply sp_finished in Hs3; [|reflexivity|exact Hr3]. destruct Hs3 as [vd [Em3 [Er3 [Hvd Hfin]]]]. subst i3 m3 r3.
    destruct Hn3 as [[Hc _]|[_ Est']]; [discriminate|]. subst st3. ssimp Hvd.
    exists vd, l. cbn zeta.
    replace (if ss_npn st then [IHs MNextProtocol] else []) with (@nil input) by (rewrite Enpn; reflexivity).
    replace (if ss_npn st then [enc_hmsg MNextProtocol] else []) with (@nil term) by (rewrite Enpn; reflexivity).
    rewrite !app_nil_r. split; [reflexivity|]. split; [exact Hvd|exact Hfin].
Qed.

Definition has_peer (st : sstate) : bool := negb (Nat.eqb (length (ss_peer st)) 0).

(* from the ClientKeyExchange to the end *)
Definition ckx_tail_ok (cfg : sconfig) (st : sstate) (l : list input) (st' : sstate) : Prop :=
  exists len_ok ct pms master alg sig vd rest,
    l = [IHs (MClientKeyExchange len_ok ct)] ++ (if has_peer st then [IHs (MCertificateVerify alg sig)] else [])
        ++ [ICCS true] ++ (if ss_npn st then [IHs MNextProtocol] else []) ++ [IHs (MFinished vd)] ++ rest /\
    server_ckx_pms cfg st len_ok ct = Some pms /\
    masterFromPreMasterSecret (ss_vers st) pms (ss_cr st) (TRand (s_rand cfg)) = Ok master /\
    let tr1 := ss_tr st ++ [enc_hmsg (MClientKeyExchange len_ok ct)] in
    (has_peer st = true ->
       ((ss_vers st <? VersionTLS12) || alg) = true /\
       (negb (ss_gm st) && (ss_vers st =? VersionSSL30) && negb (cert_kind (nth_cert 0 (ss_peer st)) =? KIND_RSA)) = false /\
       verify (cert_pub (nth_cert 0 (ss_peer st))) sig (THash (tlist tr1)) = true) /\
    let tr2 := tr1 ++ (if has_peer st then [enc_hmsg (MCertificateVerify alg sig)] else [])
                   ++ (if ss_npn st then [enc_hmsg MNextProtocol] else []) in
    vd = finished_sum (ss_fp st) master L_client_finished tr2 /\
    server_finish cfg (mkSS SP_Finished 0 (ss_vers st) (ss_fp st) (ss_gm st) (ss_kx st) (ss_suite st) (ss_ticket st) (ss_npn st)
                            (ss_cr st) (ss_peer st) (ss_resumed st) master tr2 (ss_out st)) (MFinished vd) vd = (st', SComplete).

Lemma server_ckx_tail : forall cfg st l st', ss_phase st = SP_CKX -> nowarn l ->
  run (server_step cfg) st l = RComplete st' -> ckx_tail_ok cfg st l st'.
Proof.
  intros cfg st l st' Hph Hnw H. unfold ckx_tail_ok.
  destruct l as [|i1 l]; [discriminate|].
  destruct (server_next _ _ _ _ _ Hnw H) as [st1 [r1 [Hr1 [Hs1 Hn1]]]]. clear H Hnw.
  destruct Hs1 as [[m1 [Ei1 [_ Hs1]]]|[_ [Hc _]]]; [|rewrite Hph in Hc; discriminate].
  apply sp_ckx in Hs1; [|exact Hph|exact Hr1].
  destruct Hs1 as [len_ok [ct [pms [master [Em1 [Er1 [Hpms [Hms Est1]]]]]]]]. subst i1 m1 r1.
  destruct Hn1 as [[_ [H Hnw]]|[Hc _]]; [|discriminate].
  change (server_ckx_pms cfg (ss_set_warn st 0) len_ok ct) with (server_ckx_pms cfg st len_ok ct) in Hpms.
  ssimp Hms. ssimp Est1.
  assert (Ep : has_peer st = true \/ has_peer st = false) by (destruct (has_peer st); auto).
  exists len_ok, ct, pms, master.
  destruct Ep as [Ep|Ep].
  - (* CertificateVerify expected *)
    assert (Ee : Nat.eqb (length (ss_peer st)) 0 = false) by (unfold has_peer in Ep; apply negb_true_iff in Ep; exact Ep).
    rewrite Ee in Est1. subst st1.
    destruct l as [|i2 l]; [discriminate|].
    destruct (server_next _ _ _ _ _ Hnw H) as [st2 [r2 [Hr2 [Hs2 Hn2]]]]. clear H Hnw.
    destruct Hs2 as [[m2 [Ei2 [_ Hs2]]]|[_ [Hc _]]]; [|discriminate].
    apply sp_cert_verify in Hs2; [|reflexivity|exact Hr2].
    destruct Hs2 as [alg [sig [Em2 [Er2 [Ha [Hb [Hc Est2]]]]]]]. subst i2 m2 r2.
    destruct Hn2 as [[_ [H Hnw]]|[Hx _]]; [|discriminate]. ssimp Ha. ssimp Hb. ssimp Hc. ssimp Est2. subst st2.
    apply server_ccs_tail in H; [|reflexivity|exact Hnw].
    unfold ccs_tail_ok in H. destruct H as [vd [rest [El [Hvd Hfin]]]]. cbn zeta in Hvd, Hfin. ssimp El. ssimp Hvd. ssimp Hfin.
    exists alg, sig, vd, rest. rewrite Ep. cbn zeta.
    split; [rewrite El; reflexivity|]. split; [exact Hpms|]. split; [exact Hms|]. split; [intros _; auto|].
    rewrite <- !app_assoc in Hvd, Hfin. cbn [app] in Hvd, Hfin. rewrite <- !app_assoc. cbn [app].
    split; [exact Hvd|exact Hfin].
  - assert (Ee : Nat.eqb (length (ss_peer st)) 0 = true) by (unfold has_peer in Ep; apply negb_false_iff in Ep; exact Ep).
    rewrite Ee in Est1. subst st1.
    apply server_ccs_tail in H; [|reflexivity|exact Hnw].
    unfold ccs_tail_ok in H. destruct H as [vd [rest [El [Hvd Hfin]]]]. cbn zeta in Hvd, Hfin. ssimp El. ssimp Hvd. ssimp Hfin.
    exists true, TNil, vd, rest. rewrite Ep. cbn zeta.
    split; [rewrite El; reflexivity|]. split; [exact Hpms|]. split; [exact Hms|]. split; [intros Hx; discriminate|].
    cbn [app]. split; [exact Hvd|exact Hfin].
Qed.

Definition server_flight_ok (cfg : sconfig) (l : list input) (st' : sstate) : Prop :=
  exists ch st1 l1,
    l = IHs (MClientHello ch) :: l1 /\
    server_handshake_step cfg (ss_set_warn server_init 0) (MClientHello ch) = (st1, SContinue) /\
    ((ss_resumed st1 = false /\ ss_peer st1 = [] /\
      exists certs peer l2,
        l1 = (if 1 <=? s_auth cfg then [IHs (MCertificate certs)] else []) ++ l2 /\
        (if 1 <=? s_auth cfg
         then (certs = [] -> s_auth cfg <> 2 /\ s_auth cfg <> 4) /\ processCertsFromClient cfg certs = Some peer
         else peer = []) /\
        ckx_tail_ok cfg
          (mkSS SP_CKX 0 (ss_vers st1) (ss_fp st1) (ss_gm st1) (ss_kx st1) (ss_suite st1) (ss_ticket st1) (ss_npn st1)
                (ss_cr st1) peer false (ss_master st1)
                (ss_tr st1 ++ (if 1 <=? s_auth cfg then [enc_hmsg (MCertificate certs)] else [])) (ss_out st1))
          l2 st') \/
     (ss_resumed st1 = true /\ ccs_tail_ok cfg st1 l1 st')).

Lemma ckx_tail_ok_ext : forall cfg a b l st',
  ss_vers a = ss_vers b -> ss_fp a = ss_fp b -> ss_gm a = ss_gm b -> ss_kx a = ss_kx b -> ss_suite a = ss_suite b ->
  ss_ticket a = ss_ticket b -> ss_npn a = ss_npn b -> ss_cr a = ss_cr b -> ss_peer a = ss_peer b ->
  ss_resumed a = ss_resumed b -> ss_tr a = ss_tr b -> ss_out a = ss_out b ->
  ckx_tail_ok cfg a l st' -> ckx_tail_ok cfg b l st'.
Proof.
  intros cfg a b l st' E1 E2 E3 E4 E5 E6 E7 E8 E9 E10 E11 E12 H.
  unfold ckx_tail_ok, has_peer, server_ckx_pms in *.
  rewrite <- E1, <- E2, <- E3, <- E4, <- E5, <- E6, <- E7, <- E8, <- E9, <- E10, <- E11, <- E12. exact H.
Qed.

Theorem server_complete_flight : forall cfg l st', nowarn l ->
  run (server_step cfg) (ss_set_warn server_init 0) l = RComplete st' -> server_flight_ok cfg l st'.
Proof.
  intros cfg l st' Hnw H. unfold server_flight_ok.
  destruct l as [|i1 l]; [discriminate|].
  destruct (server_next _ _ _ _ _ Hnw H) as [st1 [r1 [Hr1 [Hs1 Hn1]]]]. clear H Hnw.
  destruct Hs1 as [[m1 [Ei1 [_ Hs1]]]|[_ [Hc _]]]; [|discriminate].
  change (ss_set_warn (ss_set_warn server_init 0) 0) with (ss_set_warn server_init 0) in Hs1.
  pose proof Hs1 as Hstep.
  apply sp_hello in Hs1; [|reflexivity|exact Hr1].
  destruct Hs1 as [ch [Em1 [Er1 Hshape]]]. subst i1 m1 r1.
  destruct Hn1 as [[_ [H Hnw]]|[Hc _]]; [|discriminate].
  exists ch, st1, l. split; [reflexivity|]. split; [exact Hstep|].
  destruct Hshape as [[Hres [Hpeer Hph]]|[Hres Hph]].
  - left. split; [exact Hres|]. split; [exact Hpeer|].
    destruct (1 <=? s_auth cfg) eqn:Ea.
    + (* a client Certificate message is expected *)
      destruct l as [|i2 l]; [discriminate|].
      destruct (server_next _ _ _ _ _ Hnw H) as [st2 [r2 [Hr2 [Hs2 Hn2]]]]. clear H Hnw.
      destruct Hs2 as [[m2 [Ei2 [_ Hs2]]]|[_ [Hc _]]]; [|rewrite Hph in Hc; discriminate].
      apply sp_client_cert in Hs2; [|exact Hph|exact Hr2].
      destruct Hs2 as [certs [peer [Em2 [Er2 [Hempty [Hproc Est2]]]]]]. subst i2 m2 r2.
      destruct Hn2 as [[_ [H Hnw]]|[Hc _]]; [|discriminate]. ssimp Est2. subst st2.
      exists certs, peer, l. split; [reflexivity|]. split; [split; assumption|].
      apply server_ckx_tail in H; [|reflexivity|exact Hnw].
      eapply ckx_tail_ok_ext; [..|exact H]; try reflexivity. exact Hres.
    + exists [], [], l. split; [reflexivity|]. split; [reflexivity|].
      apply server_ckx_tail in H; [|exact Hph|exact Hnw].
      eapply ckx_tail_ok_ext; [..|exact H]; try reflexivity; try (rewrite app_nil_r; reflexivity); try assumption.
  - right. split; [exact Hres|]. apply server_ccs_tail; assumption.
Qed.
