(* Server-side authentication in the multi-session attacker model (HSSystem.v): a server that completes with a client
   certificate whose key the attacker does not hold has a partner - an honest GMSSL client session that holds that
   certificate and key and whose handshake transcript, up to and including its ClientKeyExchange (the transcript its
   CertificateVerify signs), is the server's.
   The invariant: honest parties sign a hash in one place only - the client's CertificateVerify, over its own transcript. *)
From Coq Require Import List NArith Arith Bool Lia.
From GmsmVerif Require Import Lib.Outcome HS.HSTerms HS.HSModel HS.HSProofs HS.HSClientFlight HS.HSTlsClientFlight
     HS.HSServerFlight HS.HSAuth HS.HSAuth2 HS.HSSystem HS.HSSessions HS.HSSuites.
Import ListNotations.
Local Open Scope N_scope.

(* the signature of a CertificateVerify over the transcript hash t *)
Definition cvsig (k : N) (t : term) : term := TSig k (THash t).

(* the honest signer of such a signature: a client party that, in the state it had reached on the inputs [pre], received
   ServerHelloDone and wrote its second flight; [tr1] is its transcript up to and including its ClientKeyExchange *)
Definition cv_signer (ps : list party) (k : N) (t : term) : Prop :=
  exists ccfg ins pre post st c pms ckxm,
    In (PClient ccfg ins) ps /\ ins = pre ++ IHs MServerHelloDone :: post /\
    client_run ccfg pre = RWaiting st /\ c_cert ccfg = Some (c, k) /\
    client_ckx ccfg (cs_set_warn st 0) = Ok (pms, ckxm) /\
    t = tlist (sf_tr1 ccfg (cs_cert_req st) (cs_tr st) ckxm).

Section ServerAuth.
  Variables AK own : N -> bool.

  (* for keys the attacker does not hold (it can sign any hash with its own) *)
  Definition cv_inv (s : sys) : Prop :=
    forall k t u, AK k = false -> In u (wire s) -> vis (cvsig k t) u -> cv_signer (parties s) k t.

  Lemma cv_signer_mono_app : forall ps q k t, cv_signer ps k t -> cv_signer (ps ++ q) k t.
  Proof.
    intros ps q k t [ccfg [ins [pre [post [st [c [pms [ckxm [Hin Hr]]]]]]]]].
    exists ccfg, ins, pre, post, st, c, pms, ckxm. split; [apply in_or_app; left; exact Hin|exact Hr].
  Qed.

  (* the party list after a delivery: the same signers, the receiving party's inputs extended *)
  Lemma cv_signer_replace_client : forall ps n cfg ins i k t,
    nth_error ps n = Some (PClient cfg ins) -> cv_signer ps k t ->
    cv_signer (replace_nth ps n (PClient cfg (ins ++ [i]))) k t.
  Proof.
    intros ps n cfg ins i k t Hn [ccfg [ins0 [pre [post [st [c [pms [ckxm [Hin [Ei Hr]]]]]]]]]].
    destruct (In_replace_cases ps n (PClient cfg (ins ++ [i])) _ _ Hn Hin) as [E|Hin'].
    - injection E as -> ->. exists cfg, (ins ++ [i]), pre, (post ++ [i]), st, c, pms, ckxm.
      split; [eapply In_replaced; exact Hn|]. split; [rewrite Ei, <- app_assoc; reflexivity|exact Hr].
    - exists ccfg, ins0, pre, post, st, c, pms, ckxm. split; [exact Hin'|]. split; [exact Ei|exact Hr].
  Qed.
  Lemma cv_signer_replace_server : forall ps n cfg ins i k t,
    nth_error ps n = Some (PServer cfg ins) -> cv_signer ps k t ->
    cv_signer (replace_nth ps n (PServer cfg (ins ++ [i]))) k t.
  Proof.
    intros ps n cfg ins i k t Hn [ccfg [ins0 [pre [post [st [c [pms [ckxm [Hin Hr]]]]]]]]].
    destruct (In_replace_cases ps n (PServer cfg (ins ++ [i])) _ _ Hn Hin) as [E|Hin']; [discriminate E|].
    exists ccfg, ins0, pre, post, st, c, pms, ckxm. split; [exact Hin'|exact Hr].
  Qed.

  (* in what a GMSSL client writes, a signed hash is its CertificateVerify *)
  Lemma client_new_cv : forall cfg st i new k t,
    c_gm cfg = true -> client_wf cfg -> cinv cfg st -> client_new_shape cfg st i new ->
    forall o u, In o new -> In u (out_terms o) -> vis (cvsig k t) u ->
    exists c pms ckxm, i = IHs MServerHelloDone /\ c_cert cfg = Some (c, k) /\ client_ckx cfg st = Ok (pms, ckxm) /\
                       t = tlist (sf_tr1 cfg (cs_cert_req st) (cs_tr st) ckxm).
  Proof.
    intros cfg st i new k t Hgm Hwf Hcinv Hshape o u Ho Hu Hv.
    assert (HT : is_sigt (cvsig k t)) by exact I.
    assert (Hfin : forall fp m tr, ~ vis (cvsig k t) (enc_hmsg (MFinished (finished_sum fp m L_client_finished tr)))).
    { intros fp m tr Hx. apply svis_enc_hmsg in Hx; [|exact HT]. destruct Hx as [x [Hin Hx]].
      cbn [hmsg_terms In] in Hin. destruct Hin as [<-|[]]. unfold finished_sum in Hx. eapply svis_atom; [exact HT| |exact Hx]. exact I. }
    destruct Hshape as [->|[[pms [ckxm [master [Ei [Hckx [Hph [Hms ->]]]]]]]|[fp [master [tr ->]]]]].
    - destruct Ho.
    - apply in_app_or in Ho. destruct Ho as [Ho|Ho].
      { exfalso. unfold sf_cert in Ho. destruct (cs_cert_req st); [|destruct Ho]. cbn in Ho. destruct Ho as [<-|[]].
        cbn [out_terms In] in Hu. destruct Hu as [<-|[]].
        apply svis_enc_hmsg in Hv; [|exact HT]. destruct Hv as [x [Hin Hv]]. cbn [hmsg_terms] in Hin.
        unfold client_wf in Hwf. destruct (c_cert cfg) as [[c kk]|]; [|destruct Hin].
        destruct Hin as [<-|[]]. eapply svis_cert; [exact HT|exact Hwf|exact Hv]. }
      apply in_app_or in Ho. destruct Ho as [Ho|Ho].
      { exfalso. cbn in Ho. destruct Ho as [<-|[]]. cbn [out_terms In] in Hu. destruct Hu as [<-|[]].
        apply svis_enc_hmsg in Hv; [|exact HT]. destruct Hv as [x [Hin Hv]].
        destruct (gm_client_ckx_cases cfg st pms ckxm Hgm Hcinv Hckx) as [->| ->];
          cbn [hmsg_terms In] in Hin; destruct Hin as [<-|[]].
        - unfold cert_pub, cvsig in Hv. cbn [vis] in Hv. destruct Hv as [E|[[E|[]]|[E|[]]]]; discriminate E.
        - eapply svis_atom; [exact HT| |exact Hv]. exact I. }
      apply in_app_or in Ho. destruct Ho as [Ho|Ho].
      { unfold sf_cv in Ho. destruct (cs_cert_req st) eqn:Ereq; [|destruct Ho]. destruct (c_cert cfg) as [[c kk]|] eqn:Ecert; [|destruct Ho].
        cbn in Ho. destruct Ho as [<-|[]]. cbn [out_terms In] in Hu. destruct Hu as [<-|[]].
        apply svis_enc_hmsg in Hv; [|exact HT]. destruct Hv as [x [Hin Hv]].
        cbn [hmsg_terms In] in Hin. destruct Hin as [<-|[]]. unfold cvsig in Hv. cbn [vis] in Hv.
        destruct Hv as [E|[E|[]]]; [|discriminate E]. injection E as -> ->.
        exists c, pms, ckxm. repeat split; [exact Ei|exact Hckx]. }
      exfalso. cbn in Ho. destruct Ho as [<-|[<-|[]]]; [destruct Hu|].
      cbn [out_terms In] in Hu. destruct Hu as [<-|[]]. unfold sf_fin in Hv. eapply Hfin. exact Hv.
    - exfalso. cbn in Ho. destruct Ho as [<-|[<-|[]]]; [destruct Hu|].
      cbn [out_terms In] in Hu. destruct Hu as [<-|[]]. eapply Hfin. exact Hv.
  Qed.

  (* a server's first flight shows a signed hash only if the ClientHello's random already did *)
  Lemma server_flight_cv : forall cfg ch new k t,
    Forall (fun o => exists m, o = OHs m /\ flight_msg_ok cfg ch m) new ->
    forall o u, In o new -> In u (out_terms o) -> vis (cvsig k t) u -> vis (cvsig k t) (ch_random ch).
  Proof.
    intros cfg ch new k t Hnew o u Ho Hu Hv.
    assert (HT : is_sigt (cvsig k t)) by exact I.
    rewrite Forall_forall in Hnew. destruct (Hnew o Ho) as [m [-> Hm]].
    cbn [out_terms In] in Hu. destruct Hu as [<-|[]].
    apply svis_enc_hmsg in Hv; [|exact HT]. destruct Hv as [x [Hin Hv]].
    destruct m; cbn [flight_msg_ok] in Hm; try contradiction; cbn [hmsg_terms In] in Hin.
    - destruct Hm as [Hr Hs]. destruct Hin as [<-|[<-|[]]]; exfalso; [rewrite Hr in Hv|rewrite Hs in Hv];
        (eapply svis_atom; [exact HT| |exact Hv]; exact I).
    - exfalso. rewrite Forall_forall in Hm. eapply svis_cert; [exact HT|apply Hm; exact Hin|exact Hv].
    - destruct Hm as [Hp [kk [third [Hs Ht]]]]. destruct Hin as [<-|[<-|[]]].
      + exfalso. destruct Hp as [-> | ->]; (eapply svis_atom; [exact HT| |exact Hv]; exact I).
      + rewrite Hs in Hv. cbn [vis] in Hv. destruct Hv as [E|Hv]; [discriminate E|].
        unfold skx_payload in Hv. apply svis_tlist in Hv; [|exact HT]. destruct Hv as [x [Hin Hv]].
        cbn [In] in Hin. destruct Hin as [<-|[<-|[<-|[]]]].
        * exact Hv.
        * exfalso. eapply svis_atom; [exact HT| |exact Hv]. exact I.
        * exfalso. destruct Ht as [Ht|[-> | ->]];
            [eapply svis_cert; [exact HT|exact Ht|exact Hv]|eapply svis_atom; [exact HT| |exact Hv]; exact I
            |eapply svis_atom; [exact HT| |exact Hv]; exact I].
  Qed.

  Lemma cv_inv_step : forall s s', inv AK own s -> cv_inv s -> sys_step AK own s s' -> cv_inv s'.
  Proof.
    intros s s' Hinv Hcv Hstep. destruct Hinv as [Hok Hdel _ _]. destruct Hstep; unfold cv_inv; cbn [wire parties].
    - intros k t u Hk Hu Hv. cbn [cs_out client_init flat_map out_terms app] in Hu.
      apply in_app_or in Hu. destruct Hu as [Hu|[<-|[]]]; [apply cv_signer_mono_app; exact (Hcv k t u Hk Hu Hv)|].
      exfalso. apply svis_enc_hmsg in Hv; [|exact I]. destruct Hv as [x [Hin Hv]].
      unfold client_hello_of in Hin. rewrite H0 in Hin. cbn [hmsg_terms ch_random ch_session_id ch_ticket In] in Hin.
      destruct Hin as [<-|[<-|[<-|[]]]]; (eapply svis_atom; [| |exact Hv]; exact I).
    - intros k t u Hk Hu Hv. apply cv_signer_mono_app. exact (Hcv k t u Hk Hu Hv).
    - (* delivery to a client *)
      assert (Hpk : party_ok own (PClient cfg ins)).
      { rewrite Forall_forall in Hok. apply Hok. eapply nth_error_In. exact H. }
      destruct Hpk as [Hgm [Hsess [Hwf Hown]]].
      destruct (client_step_out cfg st i st' r H2) as [new [Eout Hshape]].
      rewrite Eout, new_out_app.
      pose proof (client_run_cinv cfg ins st H0) as Hcinv.
      intros k0 t u Hk Hu Hv. apply in_app_or in Hu. destruct Hu as [Hu|Hu].
      + apply cv_signer_replace_client; [exact H|exact (Hcv k0 t u Hk Hu Hv)].
      + apply in_flat_out in Hu. destruct Hu as [o [Ho Hu]].
        destruct (client_new_cv cfg (cs_set_warn st 0) i new k0 t Hgm Hwf
                    ltac:(destruct Hcinv as [Ha Hb]; split; [exact Ha|exact Hb]) Hshape o u Ho Hu Hv)
          as [c [pms [ckxm [Ei [Ecert [Eckx Et]]]]]].
        exists cfg, (ins ++ [i]), ins, [], st, c, pms, ckxm.
        split; [eapply In_replaced; exact H|]. split; [rewrite Ei; reflexivity|].
        split; [exact H0|]. split; [exact Ecert|]. split; [exact Eckx|exact Et].
    - (* delivery to a server *)
      assert (Hpk : party_ok own (PServer cfg ins)).
      { rewrite Forall_forall in Hok. apply Hok. eapply nth_error_In. exact H. }
      destruct Hpk as [Htk Hwf].
      destruct (server_step_out cfg st i st' r Htk Hwf H2) as [new [Eout Hshape]].
      rewrite Eout, new_out_app.
      intros k0 t u Hk Hu Hv. apply cv_signer_replace_server; [exact H|].
      apply in_app_or in Hu. destruct Hu as [Hu|Hu]; [exact (Hcv k0 t u Hk Hu Hv)|].
      apply in_flat_out in Hu. destruct Hu as [o [Ho Hu]].
      destruct Hshape as [->|[[ch [Ei Hfl]]|[vd [mid [Ei [Er [Hres [Htr [Enew [Hmid Hms]]]]]]]]]].
      + destruct Ho.
      + pose proof (server_flight_cv cfg ch new k0 t Hfl o u Ho Hu Hv) as Hcr.
        assert (Hd : derives AK own (knows (wire s)) (ch_random ch)).
        { subst i. unfold can_deliver in H1. cbn [input_terms hmsg_terms] in H1. inversion H1; assumption. }
        destruct (sig_origin_vis AK own _ _ Hd k0 _ Hk Hcr) as [u' [Hu' Hv']]. exact (Hcv k0 t u' Hk Hu' Hv').
      + exfalso. cbn zeta in Htr, Enew. cbn [ss_set_warn ss_ticket] in Hmid.
        rewrite (Hmid (server_run_ticket cfg ins st Htk H0)) in Enew. cbn [map app] in Enew. subst new.
        cbn in Ho. destruct Ho as [<-|[<-|[]]]; [destruct Hu|].
        cbn [out_terms In] in Hu. destruct Hu as [<-|[]].
        apply svis_enc_hmsg in Hv; [|exact I]. destruct Hv as [x [Hin Hv]].
        cbn [hmsg_terms In] in Hin. destruct Hin as [<-|[]]. unfold finished_sum in Hv.
        eapply svis_atom; [| |exact Hv]; exact I.
  Qed.
End ServerAuth.

Section ServerAuth2.
  Variables AK own : N -> bool.

  Theorem reach_cv_inv : forall s, reach AK own s -> cv_inv AK s.
  Proof.
    intros s H. induction H as [|s s' Hr IH Hs].
    - intros k t u _ Hu. destruct Hu.
    - eapply cv_inv_step; [apply reach_inv; exact Hr|exact IH|exact Hs].
  Qed.

  (* A server (any mode, any ClientAuth policy) that has completed with a client certificate whose key the attacker does
     not hold - with VerifyClientCertIfGiven / RequireAndVerifyClientCert: any certificate its ClientCAs check accepts, by
     the certification premise - has a partner: an honest client session holding that certificate and key, which at its
     ServerHelloDone had exactly the server's view of the handshake: its transcript up to and including its
     ClientKeyExchange is the beginning of the server's final transcript, followed there by the CertificateVerify. *)
  Theorem server_authentication_sessions : forall s scfg ins st_s,
    reach AK own s -> In (PServer scfg ins) (parties s) -> server_run scfg ins = RComplete st_s ->
    ss_peer st_s <> [] -> AK (cert_key (nth_cert 0 (ss_peer st_s))) = false ->
    exists ccfg ins_c pre post st_c pms ckxm,
      In (PClient ccfg ins_c) (parties s) /\ ins_c = pre ++ IHs MServerHelloDone :: post /\
      client_run ccfg pre = RWaiting st_c /\
      (exists c, c_cert ccfg = Some (c, cert_key (nth_cert 0 (ss_peer st_s)))) /\
      client_ckx ccfg (cs_set_warn st_c 0) = Ok (pms, ckxm) /\
      exists alg sig rest,
        ss_tr st_s = sf_tr1 ccfg (cs_cert_req st_c) (cs_tr st_c) ckxm ++ enc_hmsg (MCertificateVerify alg sig) :: rest.
  Proof.
    intros s scfg ins st_s Hr Hin Hc Hpeer Hk.
    destruct (reach_inv AK own s Hr) as [Hok Hdel _ _].
    assert (Hpk : party_ok own (PServer scfg ins)) by (rewrite Forall_forall in Hok; apply Hok; exact Hin).
    destruct Hpk as [Htk _].
    destruct (server_complete_requires scfg ins st_s Htk Hc)
      as [ch [st1 [certs [peer [len_ok [ct [pms [master [alg [sig [vd [rest [Hstep [El Hreq]]]]]]]]]]]]]].
    cbn zeta in Hreq. destruct Hreq as [_ [_ [_ [_ [Hpop [_ [_ [_ [Epeer [tail Etr]]]]]]]]]].
    rewrite Epeer in Hpeer, Hk. destruct (Hpop Hpeer) as [Ep Hv].
    assert (Hne : nonempty peer = true) by (unfold nonempty; destruct peer; [contradiction|reflexivity]).
    rewrite Hne in El, Etr. rewrite Ep in Hk.
    (* the CertificateVerify was delivered: the network could derive its signature *)
    assert (Hcvin : In (IHs (MCertificateVerify alg sig)) ins).
    { apply In_strip. rewrite El. apply in_or_app. right. apply in_or_app. right. apply in_or_app. right. apply in_or_app. left. cbn. auto. }
    pose proof (Hdel _ _ Hin Hcvin) as Hd. unfold can_deliver in Hd. cbn [input_terms hmsg_terms] in Hd.
    inversion Hd as [|? ? Hdsig _]; subst.
    unfold cert_pub in Hv. apply verify_inv in Hv.
    rewrite Hv in Hdsig.
    destruct (sig_origin_vis AK own _ _ Hdsig _ _ Hk (vis_refl _)) as [u [Hu Hvis]].
    destruct (reach_cv_inv s Hr _ _ u Hk Hu Hvis) as [ccfg [ins_c [pre [post [st_c [c [pms' [ckxm [Hcin [Ei [Hrun [Ecert [Eckx Et]]]]]]]]]]]]].
    apply tlist_inj in Et.
    exists ccfg, ins_c, pre, post, st_c, pms', ckxm.
    split; [exact Hcin|]. split; [exact Ei|]. split; [exact Hrun|]. split; [exists c; exact Ecert|]. split; [exact Eckx|].
    exists alg, sig. eexists. rewrite Etr. rewrite <- Et. rewrite <- !app_assoc. cbn [app]. reflexivity.
  Qed.
End ServerAuth2.
