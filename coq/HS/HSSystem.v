(* Many concurrent sessions and a network attacker (no proofs in this file).

   A system is a set of honest endpoints - GMSSL clients and servers of any mode, each with its own configuration and
   randomness - and the wire: every handshake message any of them has ever sent.  The attacker (HSAuth.derives: holds
   the private keys AK and its own randomness, knows every public term) controls the network completely: an endpoint
   receives only what the attacker delivers, and the attacker can deliver to any endpoint, in any order, any input whose
   cryptographic fields it can derive from the wire - in particular anything replayed from another session.

   Restrictions (stated again in Props/C08.v): clients are GMSSL clients without a cached session, servers have session
   tickets disabled (full handshakes only; resumption is treated per connection in HSAuth2.v). *)
From Coq Require Import List NArith Bool.
From GmsmVerif Require Import Lib.Outcome HS.HSTerms HS.HSModel HS.HSAuth.
Import ListNotations.
Local Open Scope N_scope.

Inductive party :=
| PClient (cfg : cconfig) (ins : list input)      (* configuration, everything delivered to it so far *)
| PServer (cfg : sconfig) (ins : list input).

Record sys := mkSys { parties : list party; wire : list term }.

(* the cryptographic fields of a handshake message: what the attacker must be able to produce to deliver it *)
Definition hmsg_terms (m : hmsg) : list term :=
  match m with
  | MClientHello ch => [ch_random ch; ch_session_id ch; ch_ticket ch]
  | MServerHello sh => [sh_random sh; sh_session_id sh]
  | MCertificate certs => certs
  | MServerKeyExchange _ p s => [p; s]
  | MClientKeyExchange _ ct => [ct]
  | MCertificateVerify _ s => [s]
  | MFinished vd => [vd]
  | MNewSessionTicket t => [t]
  | _ => []
  end.
Definition input_terms (i : input) : list term := match i with IHs m => hmsg_terms m | _ => [] end.

Definition out_terms (o : output) : list term := match o with OHs m => [enc_hmsg m] | OCCS => [] end.

Definition knows (w : list term) : term -> Prop := fun t => In t w.

Fixpoint replace_nth {A} (l : list A) (k : nat) (x : A) : list A :=
  match l, k with
  | [], _ => []
  | _ :: r, O => x :: r
  | y :: r, S k' => y :: replace_nth r k' x
  end.

(* well-formed configurations: what is configured as a certificate is one *)
Definition server_wf (cfg : sconfig) : Prop :=
  Forall (fun p => is_cert (fst p) = true) (s_gm_certs cfg) /\
  match s_tls_cert cfg with Some (c, _) => is_cert c = true | None => True end.
Definition client_wf (cfg : cconfig) : Prop :=
  match c_cert cfg with Some (c, _) => is_cert c = true | None => True end.

Section System.
  Variables AK own : N -> bool.

  Definition can_deliver (w : list term) (i : input) : Prop := Forall (derives AK own (knows w)) (input_terms i).

  (* what an endpoint has newly written during a step *)
  Definition new_out (before after : list output) : list term := flat_map out_terms (skipn (length before) after).

  Inductive sys_step : sys -> sys -> Prop :=
  | SS_spawn_client : forall s cfg,
      c_gm cfg = true -> c_session cfg = None -> client_wf cfg -> own (c_pms cfg) = false ->
      sys_step s (mkSys (parties s ++ [PClient cfg []]) (wire s ++ flat_map out_terms (cs_out (client_init cfg))))
  | SS_spawn_server : forall s cfg,
      s_tickets cfg = false -> server_wf cfg ->
      sys_step s (mkSys (parties s ++ [PServer cfg []]) (wire s))
  | SS_deliver_client : forall s k cfg ins st i st' r,
      nth_error (parties s) k = Some (PClient cfg ins) -> client_run cfg ins = RWaiting st ->
      can_deliver (wire s) i -> client_step cfg st i = (st', r) ->
      sys_step s (mkSys (replace_nth (parties s) k (PClient cfg (ins ++ [i]))) (wire s ++ new_out (cs_out st) (cs_out st')))
  | SS_deliver_server : forall s k cfg ins st i st' r,
      nth_error (parties s) k = Some (PServer cfg ins) -> server_run cfg ins = RWaiting st ->
      can_deliver (wire s) i -> server_step cfg st i = (st', r) ->
      sys_step s (mkSys (replace_nth (parties s) k (PServer cfg (ins ++ [i]))) (wire s ++ new_out (ss_out st) (ss_out st'))).

  Inductive reach : sys -> Prop :=
  | R_init : reach (mkSys [] [])
  | R_step : forall s s', reach s -> sys_step s s' -> reach s'.
End System.

(* a subterm the attacker could get at: not inside a hash, not inside a PRF *)
Fixpoint vis (s t : term) : Prop :=
  s = t \/
  match t with
  | TPair a b => vis s a \/ vis s b
  | TEnc p x => vis s p \/ vis s x
  | TSig _ x => vis s x
  | _ => False
  end.
