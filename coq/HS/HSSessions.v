(* Many concurrent sessions against the network attacker (model: HSSystem.v): invariants of every reachable state -
   what honest endpoints write keeps the secrets of protected clients hidden, and every server-Finished value keyed with
   such a secret is the Finished of a completed server session - and from them [sessions_secrecy] and
   [agreement_sessions]: agreement with no premise about the network. *)
From Coq Require Import List NArith Arith Bool Lia.
From GmsmVerif Require Import Lib.Outcome HS.HSTerms HS.HSModel HS.HSProofs HS.HSClientFlight HS.HSTlsClientFlight
     HS.HSServerFlight HS.HSAuth HS.HSAuth2 HS.HSSystem.
Import ListNotations.
Local Open Scope N_scope.

(* ---- generic ------------------------------------------------------------------------------------------- *)
Lemma derives_mono : forall AK own (K K' : term -> Prop), (forall t, K t -> K' t) ->
  forall t, derives AK own K t -> derives AK own K' t.
Proof.
  intros AK own K K' Hsub t H. induction H.
  - apply D_known. auto.
  - apply D_nil. - apply D_junk. - apply D_label. - apply D_pub. - apply D_cert.
  - apply D_rand; assumption. - apply D_pms; assumption.
  - apply D_pair; assumption. - eapply D_fst; eassumption. - eapply D_snd; eassumption.
  - apply D_enc; assumption. - eapply D_dec; eassumption. - apply D_sig; assumption.
  - eapply D_sig_open; eassumption. - apply D_prf; assumption. - apply D_hash; assumption.
Qed.

Lemma vis_refl : forall t, vis t t.
Proof. destruct t; cbn; auto. Qed.

(* a PRF output keyed with something the attacker cannot derive, wherever the attacker can get at it, was taken from an
   observed message *)
Lemma prf_origin_vis : forall AK own (K : term -> Prop) t, derives AK own K t ->
  forall m l d, ~ derives AK own K m -> vis (TPRF m l d) t -> exists u, K u /\ vis (TPRF m l d) u.
Proof.
  intros AK own K t H. induction H; intros m0 l0 d0 Hm Hs; cbn [vis] in Hs;
    try (destruct Hs as [Hs|Hs]; [discriminate|contradiction]).
  - exists t. auto.
  - destruct Hs as [Hs|[Hs|Hs]]; [discriminate|eauto|eauto].
  - apply (IHderives m0 l0 d0 Hm). cbn [vis]. auto.
  - apply (IHderives m0 l0 d0 Hm). cbn [vis]. auto.
  - destruct Hs as [Hs|[Hs|Hs]]; [discriminate|eauto|eauto].
  - apply (IHderives m0 l0 d0 Hm). cbn [vis]. auto.
  - destruct Hs as [Hs|Hs]; [discriminate|eauto].
  - apply (IHderives m0 l0 d0 Hm). cbn [vis]. auto.
  - destruct Hs as [Hs|Hs]; [|contradiction]. injection Hs as <- <- <-. contradiction.
Qed.

Lemma run_snoc : forall {St} (step : St -> input -> St * sres) ins st0 st i,
  run step st0 ins = RWaiting st ->
  run step st0 (ins ++ [i]) =
    match step st i with
    | (st', SContinue) => if is_eof i then RHang else RWaiting st'
    | (st', SComplete) => RComplete st'
    | (_, SError) => RError
    | (_, SPanic) => RPanic
    | (_, SHang) => RHang
    end.
Proof.
  intros St step ins. induction ins as [|j rest IH]; intros st0 st i H.
  - cbn in H. injection H as <-. cbn [app run]. destruct (step st0 i) as [st' r]. destruct r; reflexivity.
  - cbn [app run] in H |- *. destruct (step st0 j) as [st1 r]. destruct r; try discriminate.
    destruct (is_eof j); [discriminate|]. apply IH. exact H.
Qed.

Lemma run_inv : forall {St} (step : St -> input -> St * sres) (P : St -> Prop),
  (forall st i st', P st -> step st i = (st', SContinue) -> P st') ->
  forall ins st0 st, P st0 -> run step st0 ins = RWaiting st -> P st.
Proof.
  intros St step P Hstep ins. induction ins as [|j rest IH]; intros st0 st H0 H.
  - cbn in H. injection H as <-. exact H0.
  - cbn [run] in H. destruct (step st0 j) as [st1 r] eqn:E. destruct r; try discriminate.
    destruct (is_eof j); [discriminate|]. eapply IH; [|exact H]. eapply Hstep; eassumption.
Qed.

(* ---- hidden-ness of message encodings ------------------------------------------------------------------------ *)
Definition secretish (x : term) : Prop := match x with TPMS _ | TPRF _ _ _ => True | _ => False end.

Lemma hidden_label : forall AK x n, secretish x -> hidden AK x (TLabel n).
Proof. intros AK x n Hx. cbn. split; [|exact I]. intros E. subst x. exact Hx. Qed.

Lemma hidden_tlist : forall AK x l, secretish x -> Forall (hidden AK x) l -> hidden AK x (tlist l).
Proof.
  intros AK x l Hx Hl. induction Hl as [|t r Ht Hr IH]; cbn [tlist hidden].
  - split; [|exact I]. intros E. subst x. exact Hx.
  - split; [intros E; subst x; exact Hx|]. split; assumption.
Qed.

Lemma hidden_labels : forall AK x l, secretish x -> hidden AK x (tlist (map TLabel l)).
Proof.
  intros AK x l Hx. apply hidden_tlist; [exact Hx|]. apply Forall_forall. intros t Ht. apply in_map_iff in Ht.
  destruct Ht as [n [<- _]]. apply hidden_label. exact Hx.
Qed.

Lemma hidden_tb : forall AK x b, secretish x -> hidden AK x (tb b).
Proof. intros. unfold tb. apply hidden_label. assumption. Qed.

Lemma hidden_enc_hmsg : forall AK x m, secretish x -> Forall (hidden AK x) (hmsg_terms m) -> hidden AK x (enc_hmsg m).
Proof.
  intros AK x m Hx Hf.
  assert (Hl : forall n, hidden AK x (TLabel n)) by (intros; apply hidden_label; exact Hx).
  assert (Hb : forall b, hidden AK x (tb b)) by (intros; apply hidden_tb; exact Hx).
  destruct m; cbn [enc_hmsg hmsg_terms] in *; apply hidden_tlist; try exact Hx;
    repeat match goal with
           | H : Forall _ (_ :: _) |- _ => inversion H; subst; clear H
           end;
    repeat (apply Forall_cons || apply Forall_nil); auto.
  - apply hidden_labels. exact Hx.
  - apply hidden_tlist; assumption.
Qed.

Ltac dmx H := match type of H with context [match ?x with _ => _ end] => destruct x eqn:? end.
Ltac nochange H := injection H as <- <-; exists []; split; [cbn; rewrite app_nil_r; reflexivity|left; reflexivity].

Definition client_new_shape (cfg : cconfig) (st : cstate) (i : input) (new : list output) : Prop :=
  new = [] \/
  (exists pms ckxm master,
     i = IHs MServerHelloDone /\ client_ckx cfg st = Ok (pms, ckxm) /\
     match cs_phase st with CP_AfterCert | CP_AfterStatus | CP_AfterSKX | CP_HelloDone => True | _ => False end /\
     masterFromPreMasterSecret (cs_vers st) pms (TRand (c_rand cfg)) (sh_random_of st) = Ok master /\
     new = map OHs (sf_cert cfg (cs_cert_req st)) ++ [OHs ckxm]
           ++ map OHs (sf_cv cfg (cs_cert_req st) (sf_tr1 cfg (cs_cert_req st) (cs_tr st) ckxm))
           ++ [OCCS; OHs (sf_fin cfg (cs_cert_req st) (cs_tr st) ckxm (cs_fp st) master)]) \/
  (exists fp master tr, new = [OCCS; OHs (MFinished (finished_sum fp master L_client_finished tr))]).

Lemma after_hello_done_out : forall cfg st st' r,
  match cs_phase st with CP_AfterCert | CP_AfterStatus | CP_AfterSKX | CP_HelloDone => True | _ => False end ->
  client_after_hello_done cfg st = (st', r) ->
  exists new, cs_out st' = cs_out st ++ new /\ client_new_shape cfg st (IHs MServerHelloDone) new.
Proof.
  intros cfg st st' r Hph H. unfold client_after_hello_done in H.
  destruct (client_ckx cfg st) as [[pms ckxm]|e| |] eqn:Ec; try (nochange H).
  destruct (masterFromPreMasterSecret _ pms _ _) as [master|e| |] eqn:Em; try (nochange H).
  injection H as <- <-. rewrite client_second_flight_eq. cbn [cs_out].
  eexists. split; [reflexivity|]. right. left. exists pms, ckxm, master. auto.
Qed.

Lemma client_handshake_step_out : forall cfg st m st' r, client_handshake_step cfg st m = (st', r) ->
  exists new, cs_out st' = cs_out st ++ new /\ client_new_shape cfg st (IHs m) new.
Proof.
  intros cfg st m st' r H. unfold client_handshake_step in H.
  destruct (cs_phase st) eqn:Eph; destruct m; try (nochange H).
  - repeat (dmx H; try discriminate). all: nochange H.
  - repeat (dmx H; try discriminate). all: nochange H.
  - repeat (dmx H; try discriminate). all: nochange H.
  - repeat (dmx H; try discriminate). all: nochange H.
  - destruct (c_gm cfg); [nochange H|]. apply (after_hello_done_out _ _ _ _ ltac:(rewrite Eph; exact I) H).
  - repeat (dmx H; try discriminate). all: nochange H.
  - repeat (dmx H; try discriminate). all: nochange H.
  - repeat (dmx H; try discriminate). all: nochange H.
  - destruct (c_gm cfg); [nochange H|]. apply (after_hello_done_out _ _ _ _ ltac:(rewrite Eph; exact I) H).
  - apply (after_hello_done_out _ _ _ _ ltac:(rewrite Eph; exact I) H).
  - apply (after_hello_done_out _ _ _ _ ltac:(rewrite Eph; exact I) H).
  - destruct (term_eqb vd _); [|nochange H].
    cbn [cs_resumed cs_add_tr] in H. destruct (cs_resumed st); [|nochange H].
    injection H as <- <-. eexists. split; [cbn; rewrite <- app_assoc; reflexivity|].
    right. right. eexists. eexists. eexists. reflexivity.
Qed.

Lemma client_step_out : forall cfg st i st' r, client_step cfg st i = (st', r) ->
  exists new, cs_out st' = cs_out st ++ new /\ client_new_shape cfg (cs_set_warn st 0) i new.
Proof.
  intros cfg st i st' r H. unfold client_step in H.
  destruct (read_record _ (cs_warn st) i) eqn:Er; try (nochange H).
  assert (Ei : i = IHs m).
  { destruct i; cbn in Er; try discriminate.
    - destruct (match cs_phase st with CP_CCS => true | _ => false end); [discriminate|]. injection Er as <-. reflexivity.
    - destruct (_ && _); discriminate.
    - destruct (desc =? 0); try discriminate; destruct (level =? 1); try discriminate;
        match type of Er with (if ?c then _ else _) = _ => destruct c; discriminate end. }
  subst i. apply (client_handshake_step_out _ _ _ _ _ H).
Qed.

(* ---- what a server writes ------------------------------------------------------------------------------------- *)
Definition flight_msg_ok (cfg : sconfig) (ch : client_hello) (m : hmsg) : Prop :=
  match m with
  | MServerHello sh => sh_random sh = TRand (s_rand cfg) /\ sh_session_id sh = TNil
  | MCertificate certs => Forall (fun c => is_cert c = true) certs
  | MServerKeyExchange _ p sig =>
      (p = TNil \/ p = TPub (s_eph cfg)) /\
      exists k third, sig = TSig k (skx_payload (ch_random ch) (TRand (s_rand cfg)) third) /\
                      (is_cert third = true \/ third = TPub (s_eph cfg) \/ third = TNil)
  | MCertificateRequest | MServerHelloDone => True
  | _ => False
  end.

Definition server_new_shape (cfg : sconfig) (st : sstate) (i : input) (st' : sstate) (r : sres) (new : list output) : Prop :=
  new = [] \/
  (exists ch, i = IHs (MClientHello ch) /\ Forall (fun o => exists m, o = OHs m /\ flight_msg_ok cfg ch m) new) \/
  (exists vd mid,
     i = IHs (MFinished vd) /\ r = SComplete /\ ss_resumed st = false /\
     let tr := ss_tr st ++ enc_hmsg (MFinished vd) :: map enc_hmsg mid in
     let fin := MFinished (finished_sum (ss_fp st) (ss_master st) L_server_finished tr) in
     ss_tr st' = tr ++ [enc_hmsg fin] /\ new = map OHs mid ++ [OCCS; OHs fin] /\
     (ss_ticket st = false -> mid = []) /\ ss_master st' = ss_master st).

Ltac snochange H := injection H as <- <-; exists []; split; [cbn; rewrite app_nil_r; reflexivity|left; reflexivity].

Lemma nth_cert_certs : forall (l : list (term * N)) n, Forall (fun p => is_cert (fst p) = true) l ->
  is_cert (nth_cert n (map fst l)) = true \/ nth_cert n (map fst l) = TNil.
Proof.
  intros l n Hf. unfold nth_cert. destruct (nth_in_or_default n (map fst l) TNil) as [Hin|Hd]; [|right; exact Hd].
  left. apply in_map_iff in Hin. destruct Hin as [p [<- Hp]]. rewrite Forall_forall in Hf. apply Hf. exact Hp.
Qed.

Lemma server_send_flight_out : forall cfg st ch gm vers su sc certs st' r,
  Forall (fun c => is_cert c = true) certs ->
  (is_cert (nth_cert 1 certs) = true \/ nth_cert 1 certs = TNil) ->
  server_send_flight cfg st ch gm vers su sc certs = (st', r) ->
  exists new, ss_out st' = ss_out st ++ new /\
              Forall (fun o => exists m, o = OHs m /\ flight_msg_ok cfg ch m) new.
Proof.
  intros cfg st ch gm vers su sc certs st' r Hcerts Hc1 H. unfold server_send_flight in H.
  destruct (if gm then Ok 0 else prfForVersion vers) as [fp|e| |];
    try (injection H as <- <-; exists []; split; [rewrite app_nil_r; reflexivity|constructor]).
  destruct (su_kx su); destruct (1 <=? s_auth cfg); injection H as <- <-;
    (eexists; split; [cbn; rewrite <- ?app_assoc; reflexivity|]);
    repeat (apply Forall_cons; [eexists; split; [reflexivity|]; cbn; auto|]); try apply Forall_nil.
  all: try (split; [auto|]; eexists; eexists; split; [reflexivity|]; auto).
  all: destruct Hc1 as [Hc1|Hc1]; auto.
Qed.

Lemma server_process_hello_out : forall cfg st ch gm vers st' r, s_tickets cfg = false -> server_wf cfg ->
  server_process_hello cfg st ch gm vers = (st', r) ->
  exists new, ss_out st' = ss_out st ++ new /\ Forall (fun o => exists m, o = OHs m /\ flight_msg_ok cfg ch m) new.
Proof.
  intros cfg st ch gm vers st' r Htk [Hwf1 Hwf2] H. unfold server_process_hello in H.
  assert (Hno : forall (st'' : sstate), exists new, ss_out st'' = ss_out st'' ++ new /\
                 Forall (fun o => exists m, o = OHs m /\ flight_msg_ok cfg ch m) new).
  { intros. exists []. split; [rewrite app_nil_r; reflexivity|constructor]. }
  destruct (negb (ch_comp_null ch)); [injection H as <- <-; apply Hno|].
  destruct (ch_reneg_nonempty ch); [injection H as <- <-; apply Hno|].
  destruct gm.
  - destruct (s_gm_certs cfg) as [|sc [|ec rest]] eqn:Eg; try (injection H as <- <-; apply Hno).
    rewrite no_tickets_no_resume in H by exact Htk.
    match type of H with (match ?x with _ => _ end) = _ => destruct x end; [|injection H as <- <-; apply Hno].
    destruct (_ && _); [injection H as <- <-; apply Hno|].
    eapply server_send_flight_out; [| |exact H].
    + apply Forall_forall. intros c Hc. apply in_map_iff in Hc. destruct Hc as [p [<- Hp]].
      rewrite Forall_forall in Hwf1. apply Hwf1. exact Hp.
    + apply nth_cert_certs. exact Hwf1.
  - destruct (s_tls_cert cfg) as [[c k]|]; [|injection H as <- <-; apply Hno].
    destruct (negb _); [injection H as <- <-; apply Hno|].
    rewrite no_tickets_no_resume in H by exact Htk.
    match type of H with (match ?x with _ => _ end) = _ => destruct x end; [|injection H as <- <-; apply Hno].
    destruct (_ && _); [injection H as <- <-; apply Hno|].
    eapply server_send_flight_out; [| |exact H].
    + constructor; [exact Hwf2|constructor].
    + right. reflexivity.
Qed.

Lemma server_handshake_step_out : forall cfg st m st' r, s_tickets cfg = false -> server_wf cfg ->
  server_handshake_step cfg st m = (st', r) ->
  exists new, ss_out st' = ss_out st ++ new /\ server_new_shape cfg st (IHs m) st' r new.
Proof.
  intros cfg st m st' r Htk Hwf H. unfold server_handshake_step in H.
  destruct (ss_phase st) eqn:Eph; destruct m; try (snochange H).
  - (* ClientHello *)
    assert (Hx : exists new, ss_out st' = ss_out st ++ new /\ Forall (fun o => exists m, o = OHs m /\ flight_msg_ok cfg ch m) new).
    { destruct (version_gate (s_mode cfg) (ch_vers ch)).
      - injection H as <- <-. exists []. split; [rewrite app_nil_r; reflexivity|constructor].
      - eapply server_process_hello_out; eassumption.
      - eapply server_process_hello_out; eassumption. }
    destruct Hx as [new [Ho Hf]]. exists new. split; [exact Ho|]. right. left. exists ch. auto.
  - repeat (dmx H; try discriminate). all: snochange H.
  - cbn zeta in H. repeat (dmx H; try discriminate). all: snochange H.
  - repeat (dmx H; try discriminate). all: snochange H.
  - (* Finished *)
    destruct (ss_resumed st) eqn:Er.
    + unfold server_finish in H. destruct (term_eqb vd _); [|snochange H].
      cbn [ss_resumed ss_add_tr] in H. rewrite Er in H. snochange H.
    + assert (Hr : r = SComplete \/ (r = SError /\ st' = st)).
      { unfold server_finish in H. destruct (term_eqb vd _); [|injection H as <- <-; auto].
        left. destruct (ss_resumed _); [|destruct (ss_ticket _)]; injection H as _ <-; reflexivity. }
      destruct Hr as [->|[-> ->]]; [|exists []; split; [rewrite app_nil_r; reflexivity|left; reflexivity]].
      pose proof H as H0. apply server_finish_full in H; [|exact Er].
      destruct H as [mid [Htr [Hout [Hmid Hms]]]]. cbn zeta in Htr, Hout.
      eexists. split; [exact Hout|]. right. right. exists vd, mid. cbn zeta.
      split; [reflexivity|]. split; [reflexivity|]. split; [exact Er|]. split; [exact Htr|]. split; [reflexivity|].
      split; [|exact Hms].
      intros Et. unfold server_finish in H0. destruct (term_eqb vd _); [|discriminate].
      cbn [ss_resumed ss_add_tr ss_ticket] in H0. rewrite Er, Et in H0. injection H0 as H0.
      rewrite <- H0 in Hout. cbn in Hout. rewrite <- !app_assoc in Hout. apply app_inv_head in Hout.
      destruct mid as [|x mid]; [reflexivity|]. cbn in Hout. exfalso.
      destruct mid as [|y mid]; cbn in Hout; [discriminate|]. injection Hout as _ Hout. destruct mid; discriminate.
Qed.

Lemma server_step_out : forall cfg st i st' r, s_tickets cfg = false -> server_wf cfg ->
  server_step cfg st i = (st', r) ->
  exists new, ss_out st' = ss_out st ++ new /\ server_new_shape cfg (ss_set_warn st 0) i st' r new.
Proof.
  intros cfg st i st' r Htk Hwf H. unfold server_step in H.
  destruct (read_record _ (ss_warn st) i) eqn:Er; try (snochange H).
  assert (Ei : i = IHs m).
  { destruct i; cbn in Er; try discriminate.
    - destruct (match ss_phase st with SP_CCS => true | _ => false end); [discriminate|]. injection Er as <-. reflexivity.
    - destruct (_ && _); discriminate.
    - destruct (desc =? 0); try discriminate; destruct (level =? 1); try discriminate;
        match type of Er with (if ?c then _ else _) = _ => destruct c; discriminate end. }
  subst i. apply (server_handshake_step_out _ _ _ _ _ Htk Hwf H).
Qed.

(* ---- invariants of single runs --------------------------------------------------------------------------------- *)
Lemma client_run_cinv : forall cfg ins st, client_run cfg ins = RWaiting st -> cinv cfg st.
Proof.
  intros cfg ins st H. unfold client_run in H.
  eapply (run_inv (client_step cfg) (cinv cfg)); [|apply cinv_init|exact H].
  intros st0 i st1 Hinv Hs. destruct (client_step_safe cfg st0 i st1 SContinue Hinv Hs) as [_ [_ Hc]]. apply Hc. reflexivity.
Qed.

(* the GMSSL client, verification on: while it waits for ServerKeyExchange .. ServerHelloDone, certificate 1 has
   been accepted by Verify *)
Definition cert1_inv (cfg : cconfig) (st : cstate) : Prop :=
  c_gm cfg = true -> c_verify cfg = true ->
  match cs_phase st with
  | CP_AfterCert | CP_AfterStatus | CP_AfterSKX | CP_HelloDone =>
      is_cert (nth_cert 1 (cs_certs st)) = true /\ tmem (nth_cert 1 (cs_certs st)) (c_trusted cfg) = true
  | _ => True
  end.

Lemma client_step_cert1 : forall cfg st i st', cert1_inv cfg st -> client_step cfg st i = (st', SContinue) -> cert1_inv cfg st'.
Proof.
  intros cfg st i st' Hinv H Hgm Hvf. specialize (Hinv Hgm Hvf). unfold client_step in H.
  destruct (read_record _ (cs_warn st) i) eqn:Er.
  - discriminate.
  - injection H as <-. exact Hinv.
  - unfold client_handshake_step in H. cbn [cs_phase cs_set_warn cs_certs] in H.
    destruct (cs_phase st) eqn:Eph; destruct m; try discriminate.
    + repeat (dmx H; try discriminate). all: injection H as <-; cbn; repeat dmx H; exact I.
    + rewrite Hgm, Hvf in H.
      destruct (Nat.ltb (length certs) 2) eqn:El; [discriminate|].
      destruct (gm_cert_checks 0 certs) eqn:Ec; cbn [negb] in H; [|discriminate].
      match type of H with (if ?c then _ else _) = _ => destruct c eqn:Ev end; [discriminate|].
      injection H as <-. cbn. cbn [andb] in Ev. apply negb_false_iff in Ev. apply andb_prop in Ev. destruct Ev as [_ Ev].
      apply Nat.ltb_ge in El. split; [|exact Ev].
      apply gm_cert_checks_01 in Ec; [|exact El]. apply Ec.
    + repeat (dmx H; try discriminate). all: injection H as <-; cbn; exact Hinv.
    + repeat (dmx H; try discriminate). all: injection H as <-; cbn; exact Hinv.
    + rewrite Hgm in H. discriminate.
    + repeat (dmx H; try discriminate). all: injection H as <-; cbn; exact Hinv.
    + repeat (dmx H; try discriminate). all: injection H as <-; cbn; exact Hinv.
    + repeat (dmx H; try discriminate). all: injection H as <-; cbn; exact Hinv.
    + rewrite Hgm in H. discriminate.
    + injection H as <-. cbn. exact Hinv.
    + unfold client_after_hello_done in H. repeat (dmx H; try discriminate). injection H as <-.
      rewrite client_second_flight_eq. cbn. destruct (sh_ticket_of _); exact I.
    + unfold client_after_hello_done in H. repeat (dmx H; try discriminate). injection H as <-.
      rewrite client_second_flight_eq. cbn. destruct (sh_ticket_of _); exact I.
    + injection H as <-. cbn. exact I.
    + repeat (dmx H; try discriminate).
  - injection H as <-. cbn. exact I.
Qed.

Lemma client_run_cert1 : forall cfg ins st, client_run cfg ins = RWaiting st -> cert1_inv cfg st.
Proof.
  intros cfg ins st H. unfold client_run in H.
  apply (run_inv (client_step cfg) (cert1_inv cfg)) with (ins := ins) (st0 := client_init cfg).
  - intros st0 i st1 Hinv Hs. eapply client_step_cert1; eassumption.
  - intros _ _. cbn. destruct (c_gm cfg); exact I.
  - exact H.
Qed.

(* a server with session tickets disabled never announces a ticket *)
Lemma server_step_ticket : forall cfg st i st', s_tickets cfg = false -> ss_ticket st = false ->
  server_step cfg st i = (st', SContinue) -> ss_ticket st' = false.
Proof.
  intros cfg st i st' Htk Hinv H. unfold server_step in H.
  destruct (read_record _ (ss_warn st) i) eqn:Er.
  - discriminate.
  - injection H as <-. exact Hinv.
  - unfold server_handshake_step in H. cbn [ss_phase ss_set_warn] in H.
    destruct (ss_phase st) eqn:Eph; destruct m; try discriminate.
    + destruct (version_gate (s_mode cfg) (ch_vers ch)); [discriminate| |];
        unfold server_process_hello in H; repeat (dmx H; try discriminate);
        try match goal with Hx : server_try_resume _ _ _ _ _ _ _ = Some _ |- _ =>
              rewrite no_tickets_no_resume in Hx by exact Htk; discriminate end;
        unfold server_send_flight in H; repeat (dmx H; try discriminate);
        injection H as <-; cbn; rewrite Htk; apply andb_false_r.
    + repeat (dmx H; try discriminate). all: injection H as <-; cbn; exact Hinv.
    + cbn zeta in H. repeat (dmx H; try discriminate). all: injection H as <-; cbn; exact Hinv.
    + repeat (dmx H; try discriminate). all: injection H as <-; cbn; exact Hinv.
    + injection H as <-. cbn. exact Hinv.
    + unfold server_finish in H. repeat (dmx H; try discriminate).
  - injection H as <-. cbn. exact Hinv.
Qed.

Lemma server_run_ticket : forall cfg ins st, s_tickets cfg = false -> server_run cfg ins = RWaiting st -> ss_ticket st = false.
Proof.
  intros cfg ins st Htk H. unfold server_run in H.
  apply (run_inv (server_step cfg) (fun s => ss_ticket s = false)) with (ins := ins) (st0 := server_init).
  - intros st0 i st1 Hinv Hs. eapply server_step_ticket; eassumption.
  - reflexivity.
  - exact H.
Qed.

(* ---- vis through message encodings -------------------------------------------------------------------------------- *)
Definition is_prf (t : term) : Prop := match t with TPRF _ _ _ => True | _ => False end.

Lemma vis_tlist : forall T l, is_prf T -> vis T (tlist l) -> exists t, In t l /\ vis T t.
Proof.
  intros T l HT. induction l as [|a r IH]; cbn [tlist vis]; intros H.
  - destruct H as [H|[]]. subst T. destruct HT.
  - destruct H as [H|[H|H]]; [subst T; destruct HT|exists a; cbn; auto|].
    destruct (IH H) as [t [Hin Hv]]. exists t. cbn. auto.
Qed.

Lemma vis_label : forall T n, is_prf T -> ~ vis T (TLabel n).
Proof. intros T n HT [H|[]]. subst T. exact HT. Qed.

Lemma vis_labels : forall T l, is_prf T -> ~ vis T (tlist (map TLabel l)).
Proof.
  intros T l HT H. apply vis_tlist in H; [|exact HT]. destruct H as [t [Hin Hv]].
  apply in_map_iff in Hin. destruct Hin as [n [<- _]]. eapply vis_label; eassumption.
Qed.

Lemma vis_enc_hmsg : forall T m, is_prf T -> vis T (enc_hmsg m) -> exists t, In t (hmsg_terms m) /\ vis T t.
Proof.
  intros T m HT H. destruct m; cbn [enc_hmsg] in H; apply vis_tlist in H; try exact HT;
    destruct H as [t [Hin Hv]]; cbn [In] in Hin; cbn [hmsg_terms];
    repeat match goal with
           | H : _ \/ _ |- _ => destruct H
           | H : False |- _ => destruct H
           end; subst;
    try (exfalso; eapply vis_label; eassumption; fail);
    try (exfalso; unfold tb in Hv; eapply vis_label; eassumption; fail);
    try (exfalso; eapply vis_labels; eassumption; fail);
    try (eexists; split; [|eassumption]; cbn; auto; fail).
  (* the certificate list *)
  apply vis_tlist in Hv; [|exact HT]. exact Hv.
Qed.

Section Sessions.
  Variables AK own : N -> bool.

  (* a client whose secrets the theorems protect: GMSSL, verification on, and the keys named in certificates its Verify
     accepts are not attacker keys (CA unforgeability + honest server keys) *)
  Definition protected (cfg : cconfig) : Prop :=
    c_gm cfg = true /\ c_verify cfg = true /\
    forall c, is_cert c = true -> tmem c (c_trusted cfg) = true -> AK (cert_key c) = false.

  (* pre-master randomness that is not the attacker's and is used by protected clients only *)
  Definition safe_index (ps : list party) (j : N) : Prop :=
    own j = false /\ forall cfg ins, In (PClient cfg ins) ps -> c_pms cfg = j -> protected cfg.

  Definition master_of (j p : N) (a b : term) : term := TPRF (TPMS j) (TPair L_master (TLabel p)) (TPair a b).
  Definition secret_of (j : N) (x : term) : Prop := x = TPMS j \/ exists p a b, x = master_of j p a b.
  Definition SFterm (j p : N) (a b : term) (f : N) (h : term) : term :=
    TPRF (master_of j p a b) (TPair L_server_finished (TLabel f)) h.

  Lemma secret_secretish : forall j x, secret_of j x -> secretish x.
  Proof. intros j x [->|[p [a [b ->]]]]; exact I. Qed.

  Definition party_ok (p : party) : Prop :=
    match p with
    | PClient cfg _ => c_gm cfg = true /\ c_session cfg = None /\ client_wf cfg /\ own (c_pms cfg) = false
    | PServer cfg _ => s_tickets cfg = false /\ server_wf cfg
    end.
  Definition party_ins (p : party) : list input := match p with PClient _ i | PServer _ i => i end.

  Record inv (s : sys) : Prop := mkInv {
    inv_ok : Forall party_ok (parties s);
    inv_del : forall p i, In p (parties s) -> In i (party_ins p) -> can_deliver AK own (wire s) i;
    inv_sec : forall j x u, safe_index (parties s) j -> secret_of j x -> In u (wire s) -> hidden AK x u;
    inv_fin : forall j p a b f h u, safe_index (parties s) j -> In u (wire s) -> vis (SFterm j p a b f h) u ->
      exists scfg ins st tr,
        In (PServer scfg ins) (parties s) /\ server_run scfg ins = RComplete st /\
        ss_tr st = tr ++ [enc_hmsg (MFinished (SFterm j p a b f h))] /\
        ss_master st = master_of j p a b /\ h = THash (tlist tr) }.

  (* ---- consequences of the secrecy invariant for what the attacker can derive ---- *)
  Lemma derivable_hidden : forall w ps j x t,
    (forall j x u, safe_index ps j -> secret_of j x -> In u w -> hidden AK x u) ->
    safe_index ps j -> secret_of j x -> derives AK own (knows w) t -> hidden AK x t.
  Proof.
    intros w ps j x t Hsec Hsafe Hx Hd.
    assert (Hp : ~ derives AK own (knows w) (TPMS j)).
    { apply pms_secret; [apply Hsafe|]. intros u Hu. apply (Hsec j (TPMS j) u Hsafe); [left; reflexivity|exact Hu]. }
    destruct Hx as [->|[p [a [b ->]]]].
    - apply pms_secret_gen with (own := own) (K := knows w); [apply Hsafe| |exact Hd].
      intros u Hu. apply (Hsec j (TPMS j) u Hsafe); [left; reflexivity|exact Hu].
    - unfold master_of. eapply master_secret_gen; [exact Hp| |exact Hd].
      intros u Hu. apply (Hsec j _ u Hsafe); [right; exists p, a, b; reflexivity|exact Hu].
  Qed.

  Lemma secret_not_derivable : forall w ps j x,
    (forall j x u, safe_index ps j -> secret_of j x -> In u w -> hidden AK x u) ->
    safe_index ps j -> secret_of j x -> ~ derives AK own (knows w) x.
  Proof.
    intros w ps j x Hsec Hsafe Hx Hd.
    pose proof (derivable_hidden w ps j x x Hsec Hsafe Hx Hd) as Hh.
    destruct x; cbn in Hh; destruct Hh as [Hne _]; apply Hne; reflexivity.
  Qed.

  Lemma derivable_vis_fin : forall w ps j p a b f h t,
    (forall j x u, safe_index ps j -> secret_of j x -> In u w -> hidden AK x u) ->
    safe_index ps j -> derives AK own (knows w) t -> vis (SFterm j p a b f h) t ->
    exists u, In u w /\ vis (SFterm j p a b f h) u.
  Proof.
    intros w ps j p a b f h t Hsec Hsafe Hd Hv. unfold SFterm in *.
    eapply prf_origin_vis; [exact Hd| |exact Hv].
    eapply secret_not_derivable; [exact Hsec|exact Hsafe|]. right. exists p, a, b. reflexivity.
  Qed.

  (* ---- hidden / vis for the atoms honest parties create ---- *)
  Lemma hidden_atom : forall x t, secretish x ->
    match t with TNil | TRand _ | TJunk _ | TLabel _ | TPub _ | TCert _ _ _ _ | THash _ => True | _ => False end ->
    hidden AK x t.
  Proof. intros x t Hx Ht. destruct t; try destruct Ht; cbn; (split; [intros E; subst x; exact Hx|exact I]). Qed.

  Lemma hidden_cert : forall x c, secretish x -> is_cert c = true -> hidden AK x c.
  Proof. intros x c Hx Hc. destruct c; try discriminate. apply hidden_atom; [exact Hx|exact I]. Qed.

  Lemma hidden_finished : forall j x fp m n tr, secret_of j x -> hidden AK x (finished_sum fp m (TLabel n) tr).
  Proof.
    intros j x fp m n tr Hx. unfold finished_sum. cbn [hidden].
    assert (Hs : secretish x) by (eapply secret_secretish; exact Hx).
    split; [|split].
    - destruct Hx as [->|[p [a [b ->]]]]; [discriminate|]. unfold master_of. intros E. discriminate E.
    - split; [intros E; subst x; exact Hs|]. split; [exact (hidden_label AK x _ Hs)|exact (hidden_label AK x _ Hs)].
    - split; [intros E; subst x; exact Hs|exact I].
  Qed.

  Lemma not_vis_atom : forall T t, is_prf T ->
    match t with TNil | TRand _ | TJunk _ | TLabel _ | TPub _ | TCert _ _ _ _ | THash _ | TPMS _ => True | _ => False end ->
    ~ vis T t.
  Proof. intros T t HT Ht Hv. destruct t; try destruct Ht; cbn in Hv; destruct Hv as [E|[]]; subst T; exact HT. Qed.

  Lemma not_vis_cert : forall T c, is_prf T -> is_cert c = true -> ~ vis T c.
  Proof. intros T c HT Hc. destruct c; try discriminate. apply not_vis_atom; [exact HT|exact I]. Qed.
End Sessions.

Section Sessions2.
  Variables AK own : N -> bool.

  Lemma gm_client_ckx_cases : forall cfg st pms ckxm, c_gm cfg = true -> cinv cfg st ->
    client_ckx cfg st = Ok (pms, ckxm) ->
    ckxm = MClientKeyExchange true (TEnc (cert_pub (nth_cert 1 (cs_certs st))) (TPMS (c_pms cfg))) \/
    ckxm = MClientKeyExchange true (TPub (c_eph cfg)).
  Proof.
    intros cfg st pms ckxm Hgm [Hg _] H. destruct (Hg Hgm) as [_ [Hk|Hk]]; unfold client_ckx in H; rewrite Hk in H.
    - injection H as _ <-. left. reflexivity.
    - destruct (cs_skx st); [|discriminate]. destruct (term_eqb _ _); [|discriminate]. injection H as _ <-. right. reflexivity.
  Qed.

  (* every message a GMSSL client writes keeps the protected secrets hidden and contains no server-Finished value *)
  Lemma client_new_ok : forall cfg st i new j x,
    c_gm cfg = true -> client_wf cfg -> cinv cfg st -> cert1_inv cfg st ->
    (c_pms cfg = j -> protected AK cfg) -> secret_of j x ->
    client_new_shape cfg st i new ->
    forall o u, In o new -> In u (out_terms o) ->
      hidden AK x u /\ (forall jj p a b f h, ~ vis (SFterm jj p a b f h) u).
  Proof.
    intros cfg st i new j x Hgm Hwf Hcinv Hc1 Hprot Hx Hshape o u Ho Hu.
    assert (Hs : secretish x) by (eapply secret_secretish; exact Hx).
    assert (Hfin : forall fp m tr, hidden AK x (enc_hmsg (MFinished (finished_sum fp m L_client_finished tr))) /\
                   (forall jj p a b f h, ~ vis (SFterm jj p a b f h) (enc_hmsg (MFinished (finished_sum fp m L_client_finished tr))))).
    { intros fp m tr. split.
      - apply hidden_enc_hmsg; [exact Hs|]. cbn [hmsg_terms]. constructor; [|constructor].
        unfold L_client_finished. eapply hidden_finished. exact Hx.
      - intros jj p a b f h Hv. apply vis_enc_hmsg in Hv; [|exact I]. destruct Hv as [t [Hin Hv]].
        cbn [hmsg_terms In] in Hin. destruct Hin as [<-|[]]. unfold finished_sum, SFterm in Hv. cbn [vis] in Hv.
        destruct Hv as [E|[]]. discriminate E. }
    destruct Hshape as [->|[[pms [ckxm [master [Ei [Hckx [Hph [Hms ->]]]]]]]|[fp [master [tr ->]]]]].
    - destruct Ho.
    - (* the second flight *)
      apply in_app_or in Ho. destruct Ho as [Ho|Ho].
      { (* Certificate *)
        unfold sf_cert in Ho. destruct (cs_cert_req st); [|destruct Ho]. cbn in Ho. destruct Ho as [<-|[]].
        cbn [out_terms In] in Hu. destruct Hu as [<-|[]].
        assert (Hl : Forall (fun c => is_cert c = true) (match c_cert cfg with Some (c, _) => [c] | None => [] end)).
        { unfold client_wf in Hwf. destruct (c_cert cfg) as [[c k]|]; [constructor; [exact Hwf|constructor]|constructor]. }
        split.
        - apply hidden_enc_hmsg; [exact Hs|]. cbn [hmsg_terms]. eapply Forall_impl; [|exact Hl].
          intros c Hc. apply hidden_cert; assumption.
        - intros jj p a b f h Hv. apply vis_enc_hmsg in Hv; [|exact I]. destruct Hv as [t [Hin Hv]]. cbn [hmsg_terms] in Hin.
          rewrite Forall_forall in Hl. eapply not_vis_cert; [| |exact Hv]; [exact I|apply Hl; exact Hin]. }
      apply in_app_or in Ho. destruct Ho as [Ho|Ho].
      { (* ClientKeyExchange *)
        cbn in Ho. destruct Ho as [<-|[]]. cbn [out_terms In] in Hu. destruct Hu as [<-|[]].
        destruct (gm_client_ckx_cases cfg st pms ckxm Hgm Hcinv Hckx) as [->| ->].
        - split.
          + apply hidden_enc_hmsg; [exact Hs|]. cbn [hmsg_terms]. constructor; [|constructor].
            unfold cert_pub. cbn [hidden]. split; [intros E; subst x; exact Hs|].
            destruct (N.eq_dec (c_pms cfg) j) as [Ej|Ej].
            * left. destruct (Hprot Ej) as [_ [Hvf Hca]].
              specialize (Hc1 Hgm Hvf). destruct (cs_phase st); try contradiction; destruct Hc1 as [Hic Htr]; apply Hca; assumption.
            * right. cbn [hidden]. split; [|exact I]. destruct Hx as [->|[p [a [b ->]]]]; [intros E; injection E as E; contradiction|discriminate].
          + intros jj p a b f h Hv. apply vis_enc_hmsg in Hv; [|exact I]. destruct Hv as [t [Hin Hv]].
            cbn [hmsg_terms In] in Hin. destruct Hin as [<-|[]]. unfold cert_pub, SFterm in Hv. cbn [vis] in Hv.
            destruct Hv as [E|[[E|[]]|[E|[]]]]; discriminate E.
        - split.
          + apply hidden_enc_hmsg; [exact Hs|]. cbn [hmsg_terms]. constructor; [|constructor]. apply hidden_atom; [exact Hs|exact I].
          + intros jj p a b f h Hv. apply vis_enc_hmsg in Hv; [|exact I]. destruct Hv as [t [Hin Hv]].
            cbn [hmsg_terms In] in Hin. destruct Hin as [<-|[]]. eapply not_vis_atom; [| |exact Hv]; exact I. }
      apply in_app_or in Ho. destruct Ho as [Ho|Ho].
      { (* CertificateVerify *)
        unfold sf_cv in Ho. destruct (cs_cert_req st); [|destruct Ho]. destruct (c_cert cfg) as [[c k]|]; [|destruct Ho].
        cbn in Ho. destruct Ho as [<-|[]]. cbn [out_terms In] in Hu. destruct Hu as [<-|[]]. split.
        - apply hidden_enc_hmsg; [exact Hs|]. cbn [hmsg_terms]. constructor; [|constructor].
          cbn [hidden]. split; [intros E; subst x; exact Hs|]. split; [intros E; subst x; exact Hs|exact I].
        - intros jj p a b f h Hv. apply vis_enc_hmsg in Hv; [|exact I]. destruct Hv as [t [Hin Hv]].
          cbn [hmsg_terms In] in Hin. destruct Hin as [<-|[]]. unfold SFterm in Hv. cbn [vis] in Hv.
          destruct Hv as [E|[E|[]]]; discriminate E. }
      cbn in Ho. destruct Ho as [<-|[<-|[]]]; [destruct Hu|].
      cbn [out_terms In] in Hu. destruct Hu as [<-|[]]. unfold sf_fin. apply Hfin.
    - cbn in Ho. destruct Ho as [<-|[<-|[]]]; [destruct Hu|].
      cbn [out_terms In] in Hu. destruct Hu as [<-|[]]. apply Hfin.
  Qed.
End Sessions2.

Section Sessions3.
  Variables AK own : N -> bool.

  Lemma server_flight_terms_ok : forall cfg ch new w ps j x,
    (forall j x u, safe_index AK own ps j -> secret_of j x -> In u w -> hidden AK x u) ->
    safe_index AK own ps j -> secret_of j x ->
    can_deliver AK own w (IHs (MClientHello ch)) ->
    Forall (fun o => exists m, o = OHs m /\ flight_msg_ok cfg ch m) new ->
    forall o u, In o new -> In u (out_terms o) ->
      hidden AK x u /\
      (forall p a b f h, vis (SFterm j p a b f h) u -> exists u', In u' w /\ vis (SFterm j p a b f h) u').
  Proof.
    intros cfg ch new w ps j x Hsec Hsafe Hx Hdel Hnew o u Ho Hu.
    assert (Hs : secretish x) by (eapply secret_secretish; exact Hx).
    rewrite Forall_forall in Hnew. destruct (Hnew o Ho) as [m [-> Hm]].
    cbn [out_terms In] in Hu. destruct Hu as [<-|[]].
    assert (Hcr : derives AK own (knows w) (ch_random ch)).
    { unfold can_deliver in Hdel. cbn [input_terms hmsg_terms] in Hdel. inversion Hdel; assumption. }
    assert (Hatom : forall t, match t with TNil | TRand _ | TJunk _ | TLabel _ | TPub _ | TCert _ _ _ _ | THash _ => True | _ => False end ->
                    hidden AK x t /\ forall p a b f h, ~ vis (SFterm j p a b f h) t).
    { intros t Ht. split; [apply hidden_atom; assumption|]. intros p a b f h. apply not_vis_atom; [exact I|].
      destruct t; try destruct Ht; exact I. }
    destruct m; cbn [flight_msg_ok] in Hm; try (exfalso; exact Hm).
    - (* ServerHello *)
      destruct Hm as [Hr Hsid]. split.
      + apply hidden_enc_hmsg; [exact Hs|]. cbn [hmsg_terms]. rewrite Hr, Hsid.
        constructor; [apply hidden_atom; [exact Hs|exact I]|constructor; [apply hidden_atom; [exact Hs|exact I]|constructor]].
      + intros p a b f h Hv. apply vis_enc_hmsg in Hv; [|exact I]. destruct Hv as [t [Hin Hv]].
        cbn [hmsg_terms In] in Hin. rewrite Hr, Hsid in Hin. exfalso.
        destruct Hin as [<-|[<-|[]]]; (eapply not_vis_atom; [| |exact Hv]; exact I).
    - (* Certificate *)
      split.
      + apply hidden_enc_hmsg; [exact Hs|]. cbn [hmsg_terms]. eapply Forall_impl; [|exact Hm]. intros c Hc. apply hidden_cert; assumption.
      + intros p a b f h Hv. apply vis_enc_hmsg in Hv; [|exact I]. destruct Hv as [t [Hin Hv]]. cbn [hmsg_terms] in Hin.
        rewrite Forall_forall in Hm. exfalso. eapply not_vis_cert; [| |exact Hv]; [exact I|apply Hm; exact Hin].
    - (* ServerKeyExchange *)
      destruct Hm as [Hp [k [third [-> Hthird]]]].
      assert (Hp' : match params with TNil | TPub _ => True | _ => False end) by (destruct Hp as [->| ->]; exact I).
      assert (Ht' : match third with TNil | TPub _ | TCert _ _ _ _ => True | _ => False end).
      { destruct Hthird as [Hc|[->| ->]]; try exact I. destruct third; try discriminate. exact I. }
      split.
      + apply hidden_enc_hmsg; [exact Hs|]. cbn [hmsg_terms]. constructor; [|constructor; [|constructor]].
        * apply hidden_atom; [exact Hs|]. destruct params; try destruct Hp'; exact I.
        * cbn [hidden]. split; [intros E; subst x; exact Hs|]. unfold skx_payload. apply hidden_tlist; [exact Hs|].
          constructor; [|constructor; [|constructor; [|constructor]]].
          -- eapply derivable_hidden; eassumption.
          -- apply hidden_atom; [exact Hs|exact I].
          -- apply hidden_atom; [exact Hs|]. destruct third; try destruct Ht'; exact I.
      + intros p a b f h Hv. apply vis_enc_hmsg in Hv; [|exact I]. destruct Hv as [t [Hin Hv]].
        cbn [hmsg_terms In] in Hin. destruct Hin as [<-|[<-|[]]].
        * exfalso. eapply not_vis_atom; [| |exact Hv]; [exact I|]. destruct params; try destruct Hp'; exact I.
        * cbn [vis] in Hv. destruct Hv as [E|Hv]; [discriminate E|]. unfold skx_payload in Hv.
          apply vis_tlist in Hv; [|exact I]. destruct Hv as [t [Hin Hv]]. cbn [In] in Hin.
          destruct Hin as [<-|[<-|[<-|[]]]].
          -- eapply derivable_vis_fin; eassumption.
          -- exfalso. eapply not_vis_atom; [| |exact Hv]; exact I.
          -- exfalso. eapply not_vis_atom; [| |exact Hv]; [exact I|]. destruct third; try destruct Ht'; exact I.
    - split; [apply hidden_enc_hmsg; [exact Hs|constructor]|].
      intros p a b f h Hv. apply vis_enc_hmsg in Hv; [|exact I]. destruct Hv as [t [[] _]].
    - split; [apply hidden_enc_hmsg; [exact Hs|constructor]|].
      intros p a b f h Hv. apply vis_enc_hmsg in Hv; [|exact I]. destruct Hv as [t [[] _]].
  Qed.
End Sessions3.

(* ---- lists ---- *)
Lemma In_replace_nth : forall {A} (l : list A) k x p, In p (replace_nth l k x) -> p = x \/ In p l.
Proof.
  induction l as [|y r IH]; intros k x p H; [destruct H|]. destruct k; cbn in H.
  - destruct H as [H|H]; [left; auto|right; right; exact H].
  - destruct H as [H|H]; [right; left; exact H|]. destruct (IH k x p H); [left; assumption|right; right; assumption].
Qed.

Lemma In_replace_cases : forall {A} (l : list A) k x old p, nth_error l k = Some old -> In p l -> p = old \/ In p (replace_nth l k x).
Proof.
  induction l as [|y r IH]; intros k x old p Hn Hin; [destruct Hin|]. destruct k; cbn in Hn |- *.
  - injection Hn as ->. destruct Hin as [Hin|Hin]; [left; auto|right; right; exact Hin].
  - destruct Hin as [Hin|Hin]; [right; left; exact Hin|]. destruct (IH k x old p Hn Hin); [left; assumption|right; right; assumption].
Qed.

Lemma In_replaced : forall {A} (l : list A) k x old, nth_error l k = Some old -> In x (replace_nth l k x).
Proof.
  induction l as [|y r IH]; intros k x old Hn; destruct k; cbn in Hn |- *; try discriminate.
  - left. reflexivity.
  - right. eapply IH. exact Hn.
Qed.

Section Sessions4.
  Variables AK own : N -> bool.

  Lemma can_deliver_mono : forall w w' i, (forall t, In t w -> In t w') -> can_deliver AK own w i -> can_deliver AK own w' i.
  Proof.
    intros w w' i Hsub H. unfold can_deliver in *. eapply Forall_impl; [|exact H].
    intros t Ht. eapply derives_mono; [|exact Ht]. exact Hsub.
  Qed.

  Lemma safe_index_replace_client : forall ps k cfg ins ins' j,
    nth_error ps k = Some (PClient cfg ins) ->
    safe_index AK own (replace_nth ps k (PClient cfg ins')) j -> safe_index AK own ps j.
  Proof.
    intros ps k cfg ins ins' j Hn [Ho Hs]. split; [exact Ho|]. intros cfg0 ins0 Hin Hj.
    destruct (In_replace_cases ps k (PClient cfg ins') _ _ Hn Hin) as [E|Hin'].
    - injection E as -> ->. eapply Hs; [|exact Hj]. eapply In_replaced. exact Hn.
    - eapply Hs; eassumption.
  Qed.

  Lemma safe_index_replace_server : forall ps k cfg ins ins' j,
    nth_error ps k = Some (PServer cfg ins) ->
    safe_index AK own (replace_nth ps k (PServer cfg ins')) j -> safe_index AK own ps j.
  Proof.
    intros ps k cfg ins ins' j Hn [Ho Hs]. split; [exact Ho|]. intros cfg0 ins0 Hin Hj.
    destruct (In_replace_cases ps k (PServer cfg ins') _ _ Hn Hin) as [E|Hin']; [discriminate E|].
    eapply Hs; eassumption.
  Qed.

  Lemma safe_index_app : forall ps q j, safe_index AK own (ps ++ q) j -> safe_index AK own ps j.
  Proof.
    intros ps q j [Ho Hs]. split; [exact Ho|]. intros cfg ins Hin. apply (Hs cfg ins). apply in_or_app. left. exact Hin.
  Qed.

  Lemma Forall_replace : forall {A} (P : A -> Prop) l k x, Forall P l -> P x -> Forall P (replace_nth l k x).
  Proof.
    intros A P l k x Hl Hx. apply Forall_forall. intros p Hp. apply In_replace_nth in Hp. destruct Hp as [->|Hp]; [exact Hx|].
    rewrite Forall_forall in Hl. apply Hl. exact Hp.
  Qed.
End Sessions4.

Section Sessions5.
  Variables AK own : N -> bool.
  Notation inv := (inv AK own).
  Notation safe_index := (safe_index AK own).

  Lemma new_out_app : forall before new, new_out before (before ++ new) = flat_map out_terms new.
  Proof. intros. unfold new_out. rewrite skipn_app, skipn_all, Nat.sub_diag. reflexivity. Qed.

  Lemma in_flat_out : forall new u, In u (flat_map out_terms new) -> exists o, In o new /\ In u (out_terms o).
  Proof. intros new u H. apply in_flat_map in H. exact H. Qed.

  Lemma inv_step : forall s s', inv s -> sys_step AK own s s' -> inv s'.
  Proof.
    intros s s' Hinv Hstep. destruct Hinv as [Hok Hdel Hsec Hfin]. destruct Hstep.
    - (* a new client: its ClientHello goes on the wire *)
      cbn [cs_out client_init flat_map out_terms app] in *.
      set (chm := MClientHello (client_hello_of cfg)).
      assert (Hch : forall x, secretish x -> hidden AK x (enc_hmsg chm) /\
                              forall T, is_prf T -> ~ vis T (enc_hmsg chm)).
      { intros x Hs. unfold chm, client_hello_of. rewrite H0. split.
        - apply hidden_enc_hmsg; [exact Hs|]. cbn [hmsg_terms ch_random ch_session_id ch_ticket].
          assert (Ha : forall t, match t with TNil | TRand _ => True | _ => False end -> hidden AK x t)
            by (intros t Ht; apply hidden_atom; [exact Hs|destruct t; try destruct Ht; exact I]).
          constructor; [apply Ha; exact I|constructor; [apply Ha; exact I|constructor; [apply Ha; exact I|constructor]]].
        - intros T HT Hv. apply vis_enc_hmsg in Hv; [|exact HT]. destruct Hv as [t [Hin Hv]].
          cbn [hmsg_terms ch_random ch_session_id ch_ticket In] in Hin.
          destruct Hin as [<-|[<-|[<-|[]]]]; (eapply not_vis_atom; [| |exact Hv]; [exact HT|exact I]). }
      constructor; cbn [parties wire].
      + apply Forall_app. split; [exact Hok|]. constructor; [|constructor]. cbn. auto.
      + intros p i Hp Hi. apply in_app_or in Hp. destruct Hp as [Hp|[<-|[]]]; [|destruct Hi].
        eapply can_deliver_mono; [|eapply Hdel; eassumption]. intros t Ht. apply in_or_app. left. exact Ht.
      + intros j x u Hsafe Hx Hu. apply in_app_or in Hu. destruct Hu as [Hu|[<-|[]]].
        * eapply Hsec; [eapply safe_index_app; exact Hsafe|exact Hx|exact Hu].
        * apply Hch. eapply secret_secretish. exact Hx.
      + intros j p a b f h u Hsafe Hu Hv. apply in_app_or in Hu. destruct Hu as [Hu|[<-|[]]].
        * destruct (Hfin j p a b f h u (safe_index_app _ _ _ _ _ Hsafe) Hu Hv) as [scfg [ins [st [tr [Hin Hrest]]]]].
          exists scfg, ins, st, tr. split; [apply in_or_app; left; exact Hin|exact Hrest].
        * exfalso. destruct (Hch (TPMS 0) I) as [_ Hn]. eapply Hn; [|exact Hv]. exact I.
    - (* a new server *)
      constructor; cbn [parties wire].
      + apply Forall_app. split; [exact Hok|]. constructor; [|constructor]. cbn. auto.
      + intros p i Hp Hi. apply in_app_or in Hp. destruct Hp as [Hp|[<-|[]]]; [|destruct Hi]. eapply Hdel; eassumption.
      + intros j x u Hsafe Hx Hu. eapply Hsec; [eapply safe_index_app; exact Hsafe|exact Hx|exact Hu].
      + intros j p a b f h u Hsafe Hu Hv.
        destruct (Hfin j p a b f h u (safe_index_app _ _ _ _ _ Hsafe) Hu Hv) as [scfg [ins [st [tr [Hin Hrest]]]]].
        exists scfg, ins, st, tr. split; [apply in_or_app; left; exact Hin|exact Hrest].
    - (* delivery to a client *)
      assert (Hpk : party_ok own (PClient cfg ins)).
      { rewrite Forall_forall in Hok. apply Hok. eapply nth_error_In. exact H. }
      destruct Hpk as [Hgm [Hsess [Hwf Hown]]].
      destruct (client_step_out cfg st i st' r H2) as [new [Eout Hshape]].
      rewrite Eout, new_out_app.
      pose proof (client_run_cinv cfg ins st H0) as Hcinv.
      pose proof (client_run_cert1 cfg ins st H0) as Hc1.
      assert (Hmono : forall t, In t (wire s) -> In t (wire s ++ flat_map out_terms new)) by (intros; apply in_or_app; left; assumption).
      constructor; cbn [parties wire].
      + apply Forall_replace; [exact Hok|]. cbn. auto.
      + intros p i0 Hp Hi. apply In_replace_nth in Hp. destruct Hp as [->|Hp].
        * cbn [party_ins] in Hi. apply in_app_or in Hi. destruct Hi as [Hi|[<-|[]]].
          -- eapply can_deliver_mono; [exact Hmono|]. eapply (Hdel (PClient cfg ins)); [eapply nth_error_In; exact H|exact Hi].
          -- eapply can_deliver_mono; [exact Hmono|exact H1].
        * eapply can_deliver_mono; [exact Hmono|eapply Hdel; eassumption].
      + intros j x u Hsafe Hx Hu.
        pose proof (safe_index_replace_client AK own _ _ _ _ _ _ H Hsafe) as Hsafe0.
        apply in_app_or in Hu. destruct Hu as [Hu|Hu]; [eapply Hsec; eassumption|].
        apply in_flat_out in Hu. destruct Hu as [o [Ho Hu]].
        eapply (client_new_ok AK cfg (cs_set_warn st 0) i new j x); try eassumption.
        intros Ej. destruct Hsafe0 as [_ Hs0]. eapply Hs0; [eapply nth_error_In; exact H|exact Ej].
      + intros j p a b f h u Hsafe Hu Hv.
        pose proof (safe_index_replace_client AK own _ _ _ _ _ _ H Hsafe) as Hsafe0.
        apply in_app_or in Hu. destruct Hu as [Hu|Hu].
        * destruct (Hfin j p a b f h u Hsafe0 Hu Hv) as [scfg [ins0 [st0 [tr [Hin Hrest]]]]].
          exists scfg, ins0, st0, tr. split; [|exact Hrest].
          destruct (In_replace_cases (parties s) k (PClient cfg (ins ++ [i])) _ _ H Hin) as [E|Hin']; [discriminate E|exact Hin'].
        * exfalso. apply in_flat_out in Hu. destruct Hu as [o [Ho Hu]].
          assert (Hxx : secret_of j (TPMS j)) by (left; reflexivity).
          destruct (client_new_ok AK cfg (cs_set_warn st 0) i new j (TPMS j) Hgm Hwf Hcinv Hc1) with (o := o) (u := u) as [_ Hn]; try eassumption.
          -- intros Ej. destruct Hsafe0 as [_ Hs0]. eapply Hs0; [eapply nth_error_In; exact H|exact Ej].
          -- eapply Hn. exact Hv.
    - (* delivery to a server *)
      assert (Hpk : party_ok own (PServer cfg ins)).
      { rewrite Forall_forall in Hok. apply Hok. eapply nth_error_In. exact H. }
      destruct Hpk as [Htk Hwf].
      destruct (server_step_out cfg st i st' r Htk Hwf H2) as [new [Eout Hshape]].
      rewrite Eout, new_out_app.
      pose proof (server_run_ticket cfg ins st Htk H0) as Hticket.
      assert (Hmono : forall t, In t (wire s) -> In t (wire s ++ flat_map out_terms new)) by (intros; apply in_or_app; left; assumption).
      assert (Hdel' : forall p i0, In p (replace_nth (parties s) k (PServer cfg (ins ++ [i]))) -> In i0 (party_ins p) ->
                      can_deliver AK own (wire s ++ flat_map out_terms new) i0).
      { intros p i0 Hp Hi. apply In_replace_nth in Hp. destruct Hp as [->|Hp].
        - cbn [party_ins] in Hi. apply in_app_or in Hi. destruct Hi as [Hi|[<-|[]]].
          + eapply can_deliver_mono; [exact Hmono|]. eapply (Hdel (PServer cfg ins)); [eapply nth_error_In; exact H|exact Hi].
          + eapply can_deliver_mono; [exact Hmono|exact H1].
        - eapply can_deliver_mono; [exact Hmono|eapply Hdel; eassumption]. }
      assert (Hkeep : forall scfg ins0, In (PServer scfg ins0) (parties s) -> server_run scfg ins0 <> RWaiting st \/ True ->
                      forall st0, server_run scfg ins0 = RComplete st0 -> In (PServer scfg ins0) (replace_nth (parties s) k (PServer cfg (ins ++ [i])))).
      { intros scfg ins0 Hin _ st0 Hc.
        destruct (In_replace_cases (parties s) k (PServer cfg (ins ++ [i])) _ _ H Hin) as [E|Hin']; [|exact Hin'].
        injection E as -> ->. rewrite H0 in Hc. discriminate. }
      destruct Hshape as [->|[[ch [Ei Hflight]]|[vd [mid [Ei [Er [Hres Hfinish]]]]]]].
      + (* nothing written *)
        cbn [flat_map]. rewrite app_nil_r in *. constructor; cbn [parties wire].
        * apply Forall_replace; [exact Hok|]. cbn. auto.
        * exact Hdel'.
        * intros j x u Hsafe Hx Hu. eapply Hsec; [eapply safe_index_replace_server; eassumption|exact Hx|exact Hu].
        * intros j p a b f h u Hsafe Hu Hv.
          destruct (Hfin j p a b f h u (safe_index_replace_server AK own _ _ _ _ _ _ H Hsafe) Hu Hv) as [scfg [ins0 [st0 [tr [Hin [Hrun Hrest]]]]]].
          exists scfg, ins0, st0, tr. split; [eapply Hkeep; eauto|]. split; assumption.
      + (* the server's first flight *)
        subst i. constructor; cbn [parties wire].
        * apply Forall_replace; [exact Hok|]. cbn. auto.
        * exact Hdel'.
        * intros j x u Hsafe Hx Hu.
          pose proof (safe_index_replace_server AK own _ _ _ _ _ _ H Hsafe) as Hsafe0.
          apply in_app_or in Hu. destruct Hu as [Hu|Hu]; [eapply Hsec; eassumption|].
          apply in_flat_out in Hu. destruct Hu as [o [Ho Hu]].
          eapply (server_flight_terms_ok AK own cfg ch new (wire s) (parties s) j x); eassumption.
        * intros j p a b f h u Hsafe Hu Hv.
          pose proof (safe_index_replace_server AK own _ _ _ _ _ _ H Hsafe) as Hsafe0.
          assert (Hold : forall u0, In u0 (wire s) -> vis (SFterm j p a b f h) u0 ->
                   exists scfg ins0 st0 tr, In (PServer scfg ins0) (replace_nth (parties s) k (PServer cfg (ins ++ [IHs (MClientHello ch)]))) /\
                     server_run scfg ins0 = RComplete st0 /\ ss_tr st0 = tr ++ [enc_hmsg (MFinished (SFterm j p a b f h))] /\
                     ss_master st0 = master_of j p a b /\ h = THash (tlist tr)).
          { intros u0 Hu0 Hv0. destruct (Hfin j p a b f h u0 Hsafe0 Hu0 Hv0) as [scfg [ins0 [st0 [tr [Hin [Hrun Hrest]]]]]].
            exists scfg, ins0, st0, tr. split; [eapply Hkeep; eauto|]. split; assumption. }
          apply in_app_or in Hu. destruct Hu as [Hu|Hu]; [eapply Hold; eassumption|].
          apply in_flat_out in Hu. destruct Hu as [o [Ho Hu]].
          destruct (server_flight_terms_ok AK own cfg ch new (wire s) (parties s) j (TPMS j) Hsec Hsafe0 (or_introl eq_refl) H1 Hflight o u Ho Hu) as [_ Hvis].
          destruct (Hvis p a b f h Hv) as [u' [Hu' Hv']]. eapply Hold; eassumption.
      + (* the server completes and writes its Finished *)
        cbn zeta in Hfinish. cbn [ss_tr ss_fp ss_master ss_ticket ss_resumed ss_set_warn] in Hfinish, Hres.
        destruct Hfinish as [Htr [Hnew [Hmid Hms]]]. rewrite (Hmid Hticket) in *. cbn [map app] in *. subst new r i.
        cbn [flat_map out_terms app].
        assert (Hrun' : server_run cfg (ins ++ [IHs (MFinished vd)]) = RComplete st').
        { unfold server_run. rewrite (run_snoc (server_step cfg) ins server_init st _ H0). rewrite H2. reflexivity. }
        set (fin := finished_sum (ss_fp st) (ss_master st) L_server_finished (ss_tr st ++ [enc_hmsg (MFinished vd)])) in *.
        constructor; cbn [parties wire].
        * apply Forall_replace; [exact Hok|]. cbn. auto.
        * exact Hdel'.
        * intros j x u Hsafe Hx Hu.
          pose proof (safe_index_replace_server AK own _ _ _ _ _ _ H Hsafe) as Hsafe0.
          apply in_app_or in Hu. destruct Hu as [Hu|[<-|[]]]; [eapply Hsec; eassumption|].
          apply hidden_enc_hmsg; [eapply secret_secretish; exact Hx|]. cbn [hmsg_terms]. constructor; [|constructor].
          unfold fin, L_server_finished. eapply hidden_finished. exact Hx.
        * intros j p a b f h u Hsafe Hu Hv.
          pose proof (safe_index_replace_server AK own _ _ _ _ _ _ H Hsafe) as Hsafe0.
          apply in_app_or in Hu. destruct Hu as [Hu|[<-|[]]].
          -- destruct (Hfin j p a b f h u Hsafe0 Hu Hv) as [scfg [ins0 [st0 [tr [Hin [Hrun Hrest]]]]]].
             exists scfg, ins0, st0, tr. split; [eapply Hkeep; eauto|]. split; assumption.
          -- apply vis_enc_hmsg in Hv; [|exact I]. destruct Hv as [t [Hin Hv]]. cbn [hmsg_terms In] in Hin.
             destruct Hin as [<-|[]]. unfold fin, finished_sum in Hv. cbn [vis] in Hv. destruct Hv as [E|[]].
             unfold SFterm in E. injection E as Em Ef Eh.
             exists cfg, (ins ++ [IHs (MFinished vd)]), st', (ss_tr st ++ [enc_hmsg (MFinished vd)]).
             split; [eapply In_replaced; exact H|]. split; [exact Hrun'|].
             split; [rewrite Htr; unfold SFterm, fin, finished_sum; rewrite Em, Eh; subst f; reflexivity|].
             split; [rewrite Hms; symmetry; exact Em|exact Eh].
  Qed.

  Theorem reach_inv : forall s, reach AK own s -> inv s.
  Proof.
    intros s H. induction H.
    - constructor; cbn; intros; try contradiction. constructor.
    - eapply inv_step; eassumption.
  Qed.
End Sessions5.

Section Sessions6.
  Variables AK own : N -> bool.

  (* the secrets of protected clients stay out of the attacker's reach, in every reachable state *)
  Theorem sessions_secrecy : forall s cfg ins sr,
    reach AK own s -> In (PClient cfg ins) (parties s) ->
    (forall cfg' ins', In (PClient cfg' ins') (parties s) -> c_pms cfg' = c_pms cfg -> protected AK cfg') ->
    ~ derives AK own (knows (wire s)) (TPMS (c_pms cfg)) /\
    ~ derives AK own (knows (wire s)) (client_master cfg sr).
  Proof.
    intros s cfg ins sr Hr Hin Hprot. destruct (reach_inv AK own s Hr) as [Hok _ Hsec _].
    assert (Hsafe : safe_index AK own (parties s) (c_pms cfg)).
    { split; [|exact Hprot]. rewrite Forall_forall in Hok. specialize (Hok _ Hin). apply Hok. }
    split; eapply secret_not_derivable; try exact Hsec; try exact Hsafe.
    - left. reflexivity.
    - right. unfold client_master, master_of. eauto.
  Qed.

  (* Agreement with no premise on the network: in every reachable state of the multi-session system, a protected GMSSL
     client (ECC suites) that has completed has a partner - an honest server session that has completed with exactly the
     same transcript and master secret.  Whatever the attacker replays from other sessions, a client never completes
     with a view of the handshake that no server shares. *)
  Theorem agreement_sessions : forall s cfg ins st_c,
    reach AK own s -> In (PClient cfg ins) (parties s) ->
    protected AK cfg -> ecc_only cfg ->
    (forall cfg' ins', In (PClient cfg' ins') (parties s) -> c_pms cfg' = c_pms cfg -> protected AK cfg') ->
    client_run cfg ins = RComplete st_c ->
    exists scfg ins_s st_s,
      In (PServer scfg ins_s) (parties s) /\ server_run scfg ins_s = RComplete st_s /\
      ss_tr st_s = cs_tr st_c /\ ss_master st_s = cs_master st_c.
  Proof.
    intros s cfg ins st_c Hr Hin [Hgm [Hvf Hca]] Hecc Hprot Hc.
    destruct (reach_inv AK own s Hr) as [Hok Hdel Hsec Hfin].
    assert (Hpk : party_ok own (PClient cfg ins)) by (rewrite Forall_forall in Hok; apply Hok; exact Hin).
    destruct Hpk as [_ [Hsess [_ Hown]]].
    assert (Hsafe : safe_index AK own (parties s) (c_pms cfg)) by (split; assumption).
    destruct (client_complete_requires cfg ins st_c Hgm Hvf Hecc Hsess Hc)
      as [sh [certs [p [sig [vd [_ [_ [_ [Hfinin Hreq]]]]]]]]].
    cbn zeta in Hreq. destruct Hreq as [_ [_ [_ [_ [_ [Hms [tr_rest [Hvd Htr]]]]]]]].
    remember ([enc_hmsg (MClientHello (client_hello_of cfg)); enc_hmsg (MServerHello sh); enc_hmsg (MCertificate certs);
               enc_hmsg (MServerKeyExchange true p sig)] ++ tr_rest) as tr_c eqn:Etrc. clear Etrc.
    (* the Finished was delivered by the network: derivable from the wire *)
    pose proof (Hdel _ _ Hin Hfinin) as Hd. unfold can_deliver in Hd. cbn [input_terms hmsg_terms] in Hd.
    inversion Hd as [|? ? Hdvd _]; subst.
    (* it is a server-Finished value keyed with a protected master secret *)
    assert (Evd : finished_sum 0 (TPRF (TPMS (c_pms cfg)) (TPair L_master (TLabel 0)) (TPair (TRand (c_rand cfg)) (sh_random sh)))
                    L_server_finished tr_c
                  = SFterm (c_pms cfg) 0 (TRand (c_rand cfg)) (sh_random sh) 0 (THash (tlist tr_c))) by reflexivity.
    rewrite Evd in Hdvd.
    destruct (derivable_vis_fin AK own (wire s) (parties s) _ _ _ _ _ _ _ Hsec Hsafe Hdvd (vis_refl _)) as [u [Hu Hv]].
    destruct (Hfin _ _ _ _ _ _ u Hsafe Hu Hv) as [scfg [ins_s [st_s [tr [Hins [Hrun [Htrs [Hmss Eh]]]]]]]].
    injection Eh as Eh. apply tlist_inj in Eh. subst tr.
    exists scfg, ins_s, st_s. split; [exact Hins|]. split; [exact Hrun|]. split.
    - rewrite Htrs, Htr. rewrite Evd. reflexivity.
    - rewrite Hmss, Hms. reflexivity.
  Qed.
End Sessions6.

(* whatever is on the wire can be delivered: the faithful network is one of the attacker's behaviours *)
Lemma tlist_component : forall AK own (K : term -> Prop) l, derives AK own K (tlist l) -> forall t, In t l -> derives AK own K t.
Proof.
  intros AK own K l. induction l as [|a r IH]; intros H t Hin; [destruct Hin|]. cbn [tlist] in H.
  destruct Hin as [<-|Hin]; [eapply D_fst; exact H|]. apply IH; [eapply D_snd; exact H|exact Hin].
Qed.

Lemma wire_message_deliverable : forall AK own w m, In (enc_hmsg m) w -> can_deliver AK own w (IHs m).
Proof.
  intros AK own w m Hin. unfold can_deliver. cbn [input_terms].
  assert (Hd : derives AK own (knows w) (enc_hmsg m)) by (apply D_known; exact Hin).
  apply Forall_forall. intros t Ht.
  destruct m; cbn [hmsg_terms] in Ht; cbn [enc_hmsg] in Hd;
    try (eapply tlist_component; [exact Hd|]; cbn [In] in Ht |- *; tauto).
  (* Certificate: the list is nested *)
  eapply tlist_component; [|exact Ht]. eapply tlist_component; [exact Hd|]. cbn. auto.
Qed.

Lemma ccs_deliverable : forall AK own w b, can_deliver AK own w (ICCS b).
Proof. intros. constructor. Qed.
