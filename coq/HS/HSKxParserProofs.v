(* ecdheKeyAgreement.processServerKeyExchange never panics, whatever bytes the ServerKeyExchange carries. *)
From Coq Require Import List NArith Arith Bool Lia.
From GmsmVerif Require Import Lib.Outcome HS.HSParsers HS.HSParserProofs Gen.HSSigTables HS.HSSigAlg HS.HSSigAlgProofs HS.HSKxParsers.
Import ListNotations.
Local Open Scope nat_scope.

Theorem ecdhe_processServerKeyExchange_total : forall vers isRSA pk helloAlgs point_ok key,
  (forall a, In a helloAlgs -> lookupTLSHash a <> None) ->
  no_crash (ecdhe_processServerKeyExchange vers isRSA pk helloAlgs point_ok key).
Proof.
  intros vers isRSA pk helloAlgs point_ok key Hk. unfold ecdhe_processServerKeyExchange.
  destruct (Nat.ltb_spec (length key) 4) as [|H4]; [exact I|].
  rewrite (byte_at_lt key 0) by lia. cbn [obind]. destruct (N.eqb _ 3); cbn [negb]; [|exact I].
  rewrite (byte_at_lt key 1), (byte_at_lt key 2), (byte_at_lt key 3) by lia. cbn [obind].
  set (pl := N.to_nat (nth 3 key 0%N)).
  destruct (Nat.ltb_spec (length key) (pl + 4)) as [|Hp]; [exact I|].
  rewrite slice_to_le by lia. cbn [obind].
  rewrite slice_from_le by (rewrite firstn_length; lia). cbn [obind].
  rewrite slice_from_le by lia. cbn [obind].
  set (sig := skipn (4 + pl) key). assert (Hs : length sig = length key - (4 + pl)) by apply skipn_length.
  destruct (Nat.ltb_spec (length sig) 2) as [|Hs2]; [exact I|].
  match goal with |- no_crash (obind ?o _) => assert (Ho : o = Ok tt \/ exists e, o = Err e) end.
  { destruct (N.eqb _ X25519); [destruct (negb _); eauto|]. destruct (_ || _); [|eauto]. destruct (point_ok _); eauto. }
  destruct Ho as [Ho|[e Ho]]; rewrite Ho; cbn [obind]; [|exact I].
  match goal with |- no_crash (obind ?o _) =>
    assert (Hsa : (exists a sg, o = Ok (a, sg) /\ 2 <= length sg) \/ exists e, o = Err e) end.
  { destruct (N.leb gsig_VersionTLS12 vers).
    - rewrite (byte_at_lt sig 0), (byte_at_lt sig 1) by lia. cbn [obind]. rewrite slice_from_le by lia. cbn [obind].
      destruct (Nat.ltb_spec (length (skipn 2 sig)) 2); [right; eauto|left; eauto].
    - left. eauto. }
  destruct Hsa as [[a [sg [Hsa Hl]]]|[e Hsa]]; rewrite Hsa; cbn [obind]; [|exact I].
  pose proof (pick_no_panic pk [a] helloAlgs vers Hk) as [Hnp Hnh].
  destruct (pickSignatureAlgorithm pk [a] helloAlgs vers) as [[[x st] h]| | |]; try exact I; try contradiction.
  match goal with |- no_crash (if ?c then _ else _) => destruct c end; [exact I|].
  rewrite (byte_at_lt sg 0), (byte_at_lt sg 1) by lia. cbn [obind].
  match goal with |- no_crash (if ?c then _ else _) => destruct c end; [exact I|]. rewrite slice_from_le by lia. exact I.
Qed.
